/-
Glue theorems between the models (module `Gkv.Proofs.Glue`).  The proofs live in four files, one
per group; this module re-exports them, re-states every requested theorem verbatim (as `example`s
closed by the named theorem, so the statements below are exactly what is proved) and prints the
axioms each one depends on.

* group A — `Gkv/Proofs/GlueA.lean` — fault-injected `Flush` (C07)
* group B — `Gkv/Proofs/GlueB.lean` — file locations are invisible to the API
* group C — `Gkv/Proofs/GlueC.lean` — `CopyTo` produces an equivalent copy (C11)
* group D — `Gkv/Proofs/GlueD.lean` — chunked value writes/reads (C17)

Check: `lake build Gkv.Proofs.GlueA Gkv.Proofs.GlueB Gkv.Proofs.GlueC Gkv.Proofs.GlueD` and then
`lake env lean Gkv/Proofs/Glue.lean`.
-/
import Gkv.Proofs.GlueA
import Gkv.Proofs.GlueB
import Gkv.Proofs.GlueC
import Gkv.Proofs.GlueD
open Std

namespace Gkv

/-! ### group A -/

example (cs : List Coll) (s : FileSt) (h0 : s.failed = false)
    (k : Nat) (hk : s.failAt = some (k+1)) (hcons : (flushStore cs s).2.failAt = none) :
    (flushStore cs s).2.failed = true :=
  flushStore_fault_reported cs s h0 k hk hcons

example (cs : List Coll) (s : FileSt) (h0 : s.failed = false)
    (hok : (flushStore cs s).2.failed = false) :
    (flushStore cs s).2.bytes = (flushStore cs { s with failAt := none }).2.bytes ∧
    (flushStore cs s).2.size = (flushStore cs { s with failAt := none }).2.size ∧
    (flushStore cs s).1 = (flushStore cs { s with failAt := none }).1 :=
  flushStore_unfailed_same_bytes cs s h0 hok

example (cs : List Coll) (s : FileSt) (hsz : s.size ≤ s.bytes.length)
    (hc : ∀ c ∈ cs, c.root.Coherent s.bytes s.size) (hok : ∀ c ∈ cs, c.root.SizesOK)
    (hlim : (flushStore cs s).2.size < 2^32) :
    ∀ c ∈ (flushStore cs s).1, c.root.Coherent (flushStore cs s).2.bytes (flushStore cs s).2.size :=
  flushStore_coherent_any cs s hsz hc hok hlim

/-! ### group B -/

example (cmp) (t : Tree) : Tree.BST cmp t.eraseLocs ↔ Tree.BST cmp t := bst_eraseLocs cmp t
example (t : Tree) : Tree.AggOK t.eraseLocs ↔ Tree.AggOK t := aggOK_eraseLocs t
example (t : Tree) : Tree.HeapOK t.eraseLocs ↔ Tree.HeapOK t := heapOK_eraseLocs t
example (cmp) (t : Tree) (k : Bytes) : Tree.get cmp t.eraseLocs k = Tree.get cmp t k :=
  get_eraseLocs cmp t k
example (t : Tree) (d : Nat) : Tree.inorderD t.eraseLocs d = Tree.inorderD t d :=
  inorderD_eraseLocs t d
example (cmp) (t : Tree) (i : Item) :
    (Tree.setItem cmp t i).eraseLocs = (Tree.setItem cmp t.eraseLocs i).eraseLocs :=
  setItem_eraseLocs cmp t i
example (cmp) (t : Tree) (k : Bytes) :
    (Tree.delete cmp t k).1.eraseLocs = (Tree.delete cmp t.eraseLocs k).1.eraseLocs ∧
      (Tree.delete cmp t k).2 = (Tree.delete cmp t.eraseLocs k).2 :=
  delete_eraseLocs cmp t k

/-! ### group C -/

example (cmp) [Std.TransCmp cmp] (l : List Item) (h : Spec.Sorted cmp l) :
    l.foldl (Spec.insert cmp) [] = l := insert_all_sorted cmp l h

example (src : List Coll) (fe : Int)
    (hb : ∀ c ∈ src, Tree.BST c.cmp.fn c.root)
    (hnames : src.Pairwise (fun a b => compare a.name b.name = .lt)) :
    (copyTo src fe).1.map (fun c => (c.name, c.cmp, c.root.toList)) =
      src.map (fun c => (c.name, c.cmp, c.root.toList)) :=
  copyTo_contents src fe hb hnames

/-! ### group D -/

example (f : Bytes) (off : Nat) (b : Bytes) (c : Nat) (hc : 1 ≤ c) (hoff : off ≤ f.length) :
    writeChunks f off b c (b.length + 1) = writeAt f off b := writeChunks_eq f off b c hc hoff

example (f : Bytes) (off len c : Nat) (hc : 1 ≤ c) (b : Bytes) (h : readAt f off len = some b) :
    readChunks f off len c (len + 1) = some b := readChunks_eq f off len c hc b h

example (f : Bytes) (off : Nat) (a b : Bytes) (hoff : off ≤ f.length) :
    writeAt (writeAt f off a) (off + a.length) b = writeAt f off (a ++ b) :=
  writeAt_append f off a b hoff

/-! the definitions of group D compute what they should -/
#guard writeChunks [1, 2, 3, 4, 5, 6, 7, 8] 2 [9, 9, 9, 9, 9] 2 6 == writeAt [1, 2, 3, 4, 5, 6, 7, 8] 2 [9, 9, 9, 9, 9]
#guard writeChunks [1, 2, 3] 3 [7, 8, 9, 10] 3 5 == [1, 2, 3, 7, 8, 9, 10]
#guard readChunks [1, 2, 3, 4, 5, 6, 7, 8] 1 5 2 6 == some [2, 3, 4, 5, 6]
#guard readChunks [1, 2, 3] 1 5 2 6 == none

#print axioms flushStore_fault_reported
#print axioms flushStore_unfailed_same_bytes
#print axioms flushStore_unfailed_same_log
#print axioms flushStore_unfailed_plan
#print axioms flushStore_coherent_any
#print axioms flushStore_retry_ready
#print axioms bst_eraseLocs
#print axioms aggOK_eraseLocs
#print axioms heapOK_eraseLocs
#print axioms get_eraseLocs
#print axioms inorderD_eraseLocs
#print axioms split_eraseLocs
#print axioms union_eraseLocs
#print axioms join_eraseLocs
#print axioms setItem_eraseLocs
#print axioms delete_eraseLocs
#print axioms insert_all_sorted
#print axioms copyTo_contents
#print axioms copyTo_view_indep
#print axioms writeAt_append
#print axioms readAt_split
#print axioms writeChunks_eq
#print axioms readChunks_eq
#print axioms readChunks_writeChunks

end Gkv

/-
`#print axioms` output (`lake env lean Gkv/Proofs/Glue.lean`, Lean 4.33.0):

'Gkv.flushStore_fault_reported' depends on axioms: [propext, Quot.sound]
'Gkv.flushStore_unfailed_same_bytes' depends on axioms: [propext, Quot.sound]
'Gkv.flushStore_unfailed_same_log' depends on axioms: [propext, Quot.sound]
'Gkv.flushStore_unfailed_plan' depends on axioms: [propext, Quot.sound]
'Gkv.flushStore_coherent_any' depends on axioms: [propext, Classical.choice, Quot.sound]
'Gkv.flushStore_retry_ready' depends on axioms: [propext, Classical.choice, Quot.sound]
'Gkv.bst_eraseLocs' depends on axioms: [propext]
'Gkv.aggOK_eraseLocs' depends on axioms: [propext]
'Gkv.heapOK_eraseLocs' depends on axioms: [propext]
'Gkv.get_eraseLocs' does not depend on any axioms
'Gkv.inorderD_eraseLocs' does not depend on any axioms
'Gkv.split_eraseLocs' depends on axioms: [propext]
'Gkv.union_eraseLocs' depends on axioms: [propext, Quot.sound]
'Gkv.join_eraseLocs' depends on axioms: [propext, Quot.sound]
'Gkv.setItem_eraseLocs' depends on axioms: [propext, Quot.sound]
'Gkv.delete_eraseLocs' depends on axioms: [propext, Quot.sound]
'Gkv.insert_all_sorted' depends on axioms: [propext, Quot.sound]
'Gkv.copyTo_contents' depends on axioms: [propext, Classical.choice, Quot.sound]
'Gkv.copyTo_view_indep' depends on axioms: [propext, Quot.sound]
'Gkv.writeAt_append' depends on axioms: [propext, Quot.sound]
'Gkv.readAt_split' depends on axioms: [propext, Classical.choice, Quot.sound]
'Gkv.writeChunks_eq' depends on axioms: [propext, Quot.sound]
'Gkv.readChunks_eq' depends on axioms: [propext, Classical.choice, Quot.sound]
'Gkv.readChunks_writeChunks' depends on axioms: [propext, Classical.choice, Quot.sound]

Notes.
* All requested statements are proved exactly as given (the `example`s above re-state them
  verbatim); none needed a `_partial` variant.
* Group A.  `h0` of `flushStore_fault_reported` / `flushStore_unfailed_same_bytes` is kept for the
  signature but not used: a flush entered with `failed = true` is the identity, and an unfailed
  flush cannot have started failed.  `k+1` could be any `k`: a plan `some 0` never fires and never
  disappears.  The method: (1) `flushStore_preserves` — every predicate kept by `writeAtOff` and
  `advance` is kept by `flushStore`; (2) `FileSt.clean` (disarm the plan) commutes with every step
  that did not fail, so `flushStore cs s.clean = ((flushStore cs s).1, (flushStore cs s).2.clean)`
  (`flushStore_clean`: collections, bytes, size and write log of an unfailed flush are those of
  the fault-free flush); (3) the coherence induction of FlushCoherent.lean redone for arbitrary
  plans (`writeItems_coherent_any`, `writeNodes_coherent_any`, …): on a failing write nothing gets
  a location, what was written before keeps decoding by `Frame`.
  Extras: `flushStore_unfailed_plan` ("merely decremented or untouched"), `flushStore_retry_ready`.
* Group B.  The stronger, oriented forms are proved first: `split_eraseLocs`, `union_eraseLocs`,
  `join_eraseLocs`, `setItem_eraseLocs'`, `delete_eraseLocs'` say that running the algorithm on the
  location-free tree yields the location-free result.  Also `min/max/totals/visitAsc/visitDesc`.
* Group C.  `copyTo_contents` holds for every `fe` (with intermediate flushes), via
  `copyTo_view_indep`: up to locations the destination does not depend on `flushEvery`.
* Group D.  `writeChunks`/`readChunks` take fuel as last argument (`len + 1` suffices).
-/
