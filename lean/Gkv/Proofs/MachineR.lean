/-
Property C08 at full strength: the history-level refinement of `Proofs/Machine.lean` extended with
FlushRevert (`Model/MachineR.lean`).

"FlushRevert returns the store to exactly the state of the Flush before the most recent one — an
empty store if there is none — truncating the file to end at that flush's root record so that
re-opening agrees; repeated reverts walk back one Flush at a time; new flushes after a revert are
durable as usual", for all histories with any number of flushes, re-opens and consecutive
reverts, including reverting past the first flush.

The durable side of the specification is a stack `flushed` (most recent first).  Next to the
model run we compute the ghost stack `flushEnds` of file offsets: `flush` pushes the store's
`size` right after the flush, `revert` pops.  The invariant `RInv` says, for the i-th stack
entry `e`: `rootAt file e` is a root record whose entries are the root slots of collections `dc`
that are coherent with the file BELOW `e`, persisted, in the (location-independent) invariant,
and that show `flushed[i]` (`EntryOK`).  Each such fact only depends on `file.take e`
(`EntryOK.congr`), so it survives the appends of later flushes and the truncation of a revert to
any later end.  The ends are strictly decreasing and the top one is the length of the file.
-/
import Gkv.Model.MachineR
import Gkv.Proofs.Machine
open Std

namespace Gkv.MachineR
open Gkv Gkv.Machine

/-! ### the ghost stack of flush ends -/

/-- the stack of ends after one more operation: `flush` pushes the new `size`, `revert` pops -/
def nextEnds (cmpOf : Bytes → CmpKind) (s : SState) (ends : List Nat) : ROp → List Nat
  | .base .flush => (sstep cmpOf s .flush).size :: ends
  | .revert => ends.drop 1
  | _ => ends

def endsStep (cmpOf : Bytes → CmpKind) (x : SState × List Nat) (op : ROp) : SState × List Nat :=
  (rstep cmpOf x.1 op, nextEnds cmpOf x.1 x.2 op)

/-- the run, together with the ghost stack -/
def grun (cmpOf : Bytes → CmpKind) (ops : List ROp) : SState × List Nat :=
  ops.foldl (endsStep cmpOf) (sinit, [])

/-- the `size` the store had right after each flush of `ops` that has not been reverted, most
    recent first -/
def flushEnds (cmpOf : Bytes → CmpKind) (ops : List ROp) : List Nat := (grun cmpOf ops).2

theorem foldl_endsStep_fst (cmpOf : Bytes → CmpKind) : ∀ (ops : List ROp) (x : SState × List Nat),
    (ops.foldl (endsStep cmpOf) x).1 = ops.foldl (rstep cmpOf) x.1
  | [], _ => rfl
  | op :: ops, x => by
    simp only [List.foldl_cons]
    rw [foldl_endsStep_fst cmpOf ops]
    rfl

theorem grun_fst (cmpOf : Bytes → CmpKind) (ops : List ROp) : (grun cmpOf ops).1 = rrun cmpOf ops :=
  foldl_endsStep_fst cmpOf ops _

theorem rrun_snoc (cmpOf : Bytes → CmpKind) (ops : List ROp) (op : ROp) :
    rrun cmpOf (ops ++ [op]) = rstep cmpOf (rrun cmpOf ops) op := by
  simp only [rrun, List.foldl_append, List.foldl_cons, List.foldl_nil]

theorem rspecRun_snoc (cmpOf : Bytes → CmpKind) (ops : List ROp) (op : ROp) :
    rspecRun cmpOf (ops ++ [op]) = rspecStep cmpOf (rspecRun cmpOf ops) op := by
  simp only [rspecRun, List.foldl_append, List.foldl_cons, List.foldl_nil]

theorem flushEnds_snoc (cmpOf : Bytes → CmpKind) (ops : List ROp) (op : ROp) :
    flushEnds cmpOf (ops ++ [op]) = nextEnds cmpOf (rrun cmpOf ops) (flushEnds cmpOf ops) op := by
  have : grun cmpOf (ops ++ [op]) = endsStep cmpOf (grun cmpOf ops) op := by
    simp only [grun, List.foldl_append, List.foldl_cons, List.foldl_nil]
  unfold flushEnds
  rw [this]
  show nextEnds cmpOf (grun cmpOf ops).1 _ op = _
  rw [grun_fst]

/-! ### one stack entry -/

/-- the flush that ended at offset `e` of file `f` wrote collections `dc`, which show `fl` -/
structure EntryOK (cmpOf : Bytes → CmpKind) (f : Bytes) (n e : Nat) (dc : List Coll)
    (fl : SpecStore) : Prop where
  le : e ≤ f.length
  root : rootAt f e = some (rootEntries dc)
  sorted : SortedNames dc
  hcmp : ∀ c ∈ dc, c.cmp = cmpOf c.name
  plain : ∀ c ∈ dc, PlainName c.name
  tree : ∀ c ∈ dc, TreeOK c.cmp.fn n c.root
  coh : ∀ c ∈ dc, c.root.Coherent f e ∧ c.root.Persisted
  abs : absColls dc = fl

theorem EntryOK.mono {cmpOf : Bytes → CmpKind} {f : Bytes} {n m e : Nat} {dc : List Coll}
    {fl : SpecStore} (h : EntryOK cmpOf f n e dc fl) (hnm : n ≤ m) : EntryOK cmpOf f m e dc fl :=
  ⟨h.le, h.root, h.sorted, h.hcmp, h.plain, fun c hc => (h.tree c hc).mono hnm, h.coh, h.abs⟩

/-- an entry only depends on the bytes below its end -/
theorem EntryOK.congr {cmpOf : Bytes → CmpKind} {f g : Bytes} {n e : Nat} {dc : List Coll}
    {fl : SpecStore} (h : EntryOK cmpOf f n e dc fl) (hg : e ≤ g.length)
    (hpre : g.take e = f.take e) : EntryOK cmpOf g n e dc fl := by
  refine ⟨hg, ?_, h.sorted, h.hcmp, h.plain, h.tree, ?_, h.abs⟩
  · rw [rootAt_congr g f e hg h.le hpre]; exact h.root
  · intro c hc
    exact ⟨coherent_of_prefix f g e c.root (h.coh c hc).1 h.le hg hpre, (h.coh c hc).2⟩

/-- loading the entries of the root record from any file that has these bytes gives `dc` back -/
theorem EntryOK.load {cmpOf : Bytes → CmpKind} {f : Bytes} {n e : Nat} {dc : List Coll}
    {fl : SpecStore} (h : EntryOK cmpOf f n e dc fl) :
    loadColls f cmpOf (rootEntries dc) = some dc :=
  loadColls_of_coherent f e cmpOf dc h.coh h.le (fun c hc => (h.hcmp c hc).symm) h.sorted

theorem take_take_le {α : Type} (l : List α) {e m : Nat} (h : e ≤ m) :
    (l.take m).take e = l.take e := by
  rw [List.take_take, Nat.min_eq_left h]

theorem length_take_le {α : Type} (l : List α) {e : Nat} (h : e ≤ l.length) :
    (l.take e).length = e := by
  rw [List.length_take, Nat.min_eq_left h]

/-- the collections of an entry are in the store invariant w.r.t. the file truncated at its end -/
theorem EntryOK.collsOK_take {cmpOf : Bytes → CmpKind} {f : Bytes} {n e : Nat} {dc : List Coll}
    {fl : SpecStore} (h : EntryOK cmpOf f n e dc fl) : CollsOK cmpOf (f.take e) n dc := by
  refine ⟨h.sorted, fun c hc => ⟨h.hcmp c hc, h.plain c hc, h.tree c hc, ?_⟩⟩
  have hl := length_take_le f h.le
  rw [hl]
  exact coherent_of_prefix f (f.take e) e c.root (h.coh c hc).1 h.le (Nat.le_of_eq hl.symm)
    (take_take_le f (Nat.le_refl e))

theorem EntryOK.collsOK_top {cmpOf : Bytes → CmpKind} {f : Bytes} {n : Nat} {dc : List Coll}
    {fl : SpecStore} (h : EntryOK cmpOf f n f.length dc fl) : CollsOK cmpOf f n dc :=
  ⟨h.sorted, fun c hc => ⟨h.hcmp c hc, h.plain c hc, h.tree c hc, (h.coh c hc).1⟩⟩

/-- opening a file whose top entry ends at the end of the file -/
theorem EntryOK.opens {cmpOf : Bytes → CmpKind} {f : Bytes} {n : Nat} {dc : List Coll}
    {fl : SpecStore} (h : EntryOK cmpOf f n f.length dc fl) :
    openStore 0 f cmpOf = .ok ⟨some 0, f.length, dc, false⟩ := by
  rw [openStore_crash_atomic f f f.length (rootEntries dc) h.root (Nat.le_refl _) rfl
    (fun e' h1 h2 => absurd h2 (Nat.not_le_of_lt h1)) 0 cmpOf, h.load]

/-! ### the stack -/

def StackOK (cmpOf : Bytes → CmpKind) (f : Bytes) (n : Nat) : List Nat → List SpecStore → Prop
  | [], [] => True
  | e :: es, fl :: fls => (∃ dc, EntryOK cmpOf f n e dc fl) ∧ StackOK cmpOf f n es fls
  | _, _ => False

theorem StackOK.mono {cmpOf : Bytes → CmpKind} {f : Bytes} {n m : Nat} (hnm : n ≤ m) :
    ∀ {ends : List Nat} {fls : List SpecStore}, StackOK cmpOf f n ends fls →
      StackOK cmpOf f m ends fls
  | [], [], _ => trivial
  | _ :: _, fl :: fls, ⟨⟨dc, h1⟩, h2⟩ => ⟨⟨dc, h1.mono hnm⟩, StackOK.mono hnm h2⟩
  | [], _ :: _, h => by simp only [StackOK] at h
  | _ :: _, [], h => by simp only [StackOK] at h

theorem StackOK.congr {cmpOf : Bytes → CmpKind} {f g : Bytes} {n : Nat} :
    ∀ {ends : List Nat} {fls : List SpecStore}, StackOK cmpOf f n ends fls →
      (∀ e ∈ ends, e ≤ g.length ∧ g.take e = f.take e) → StackOK cmpOf g n ends fls
  | [], [], _, _ => trivial
  | e :: es, fl :: fls, ⟨⟨dc, h1⟩, h2⟩, hg =>
    ⟨⟨dc, h1.congr (hg e (List.mem_cons_self ..)).1 (hg e (List.mem_cons_self ..)).2⟩,
      StackOK.congr h2 (fun e' he' => hg e' (List.mem_cons_of_mem _ he'))⟩
  | [], _ :: _, h, _ => by simp only [StackOK] at h
  | _ :: _, [], h, _ => by simp only [StackOK] at h

theorem StackOK.length {cmpOf : Bytes → CmpKind} {f : Bytes} {n : Nat} :
    ∀ {ends : List Nat} {fls : List SpecStore}, StackOK cmpOf f n ends fls →
      ends.length = fls.length
  | [], [], _ => rfl
  | _ :: _, _ :: _, ⟨_, h2⟩ => by
    simp only [List.length_cons, StackOK.length h2]
  | [], _ :: _, h => by simp only [StackOK] at h
  | _ :: _, [], h => by simp only [StackOK] at h

/-- every end on the stack is the end of a root record inside the file -/
theorem StackOK.mem {cmpOf : Bytes → CmpKind} {f : Bytes} {n : Nat} :
    ∀ {ends : List Nat} {fls : List SpecStore}, StackOK cmpOf f n ends fls →
      ∀ e ∈ ends, e ≤ f.length ∧ (rootAt f e).isSome
  | [], _, _, e, he => by cases he
  | e0 :: es, fl :: fls, ⟨⟨dc, h1⟩, h2⟩, e, he => by
    rcases List.mem_cons.mp he with he | he
    · subst he
      exact ⟨h1.le, by rw [h1.root]; rfl⟩
    · exact StackOK.mem h2 e he
  | _ :: _, [], h, _, _ => by simp only [StackOK] at h

/-- the file ends exactly at the top entry, or is empty -/
def TopOK (f : Bytes) : List Nat → Prop
  | [] => f = []
  | e :: _ => e = f.length

/-! ### the invariant -/

structure RInv (cmpOf : Bytes → CmpKind) (n : Nat) (s : SState) (ends : List Nat) (sp : RSpec) :
    Prop where
  size : s.size = s.file.length
  colls : CollsOK cmpOf s.file n s.colls
  cur : absColls s.colls = sp.cur
  stack : StackOK cmpOf s.file n ends sp.flushed
  dec : ends.Pairwise (· > ·)
  top : TopOK s.file ends

theorem rinv_init (cmpOf : Bytes → CmpKind) : RInv cmpOf 0 sinit [] rspecInit :=
  ⟨rfl, CollsOK.nil _ _ _, rfl, trivial, List.Pairwise.nil, rfl⟩

/-- the invariant of `Proofs/Machine.lean` with "durable = top of the stack": this is what lets
    all the steps that do not involve the stack be reused as they are -/
theorem RInv.toInv {cmpOf : Bytes → CmpKind} {n : Nat} {s : SState} {ends : List Nat} {sp : RSpec}
    (h : RInv cmpOf n s ends sp) : Inv cmpOf n s ⟨sp.cur, sp.flushed.headD []⟩ := by
  refine ⟨h.size, h.colls, h.cur, ?_⟩
  obtain ⟨cur, flushed⟩ := sp
  have hst := h.stack
  have htop := h.top
  cases ends with
  | nil =>
    cases flushed with
    | cons fl fls => simp only [StackOK] at hst
    | nil =>
      have hf : s.file = [] := htop
      rw [hf]
      exact ⟨[], rfl, CollsOK.nil _ _ _, rfl⟩
  | cons e es =>
    cases flushed with
    | nil => simp only [StackOK] at hst
    | cons fl fls =>
      obtain ⟨⟨dc, h1⟩, _⟩ := hst
      have he : e = s.file.length := htop
      subst he
      exact ⟨dc, h1.opens, h1.collsOK_top, h1.abs⟩

/-! ### the operations of `Machine` other than `flush` -/

theorem sstep_file_of_ne_flush (cmpOf : Bytes → CmpKind) (s : SState) (op : SOp)
    (h : op ≠ .flush) : (sstep cmpOf s op).file = s.file := by
  cases op with
  | setColl nm => rfl
  | rmColl nm => rfl
  | set nm i => simp only [sstep]; split <;> rfl
  | del nm k => simp only [sstep]; split <;> rfl
  | flush => exact absurd rfl h
  | reopen => simp only [sstep]; split <;> rfl

theorem rspecStep_base (cmpOf : Bytes → CmpKind) (sp : RSpec) (op : SOp) (h : op ≠ .flush) :
    rspecStep cmpOf sp (.base op) =
      ⟨(specStep cmpOf ⟨sp.cur, sp.flushed.headD []⟩ op).cur, sp.flushed⟩ := by
  cases op with
  | setColl nm => rfl
  | rmColl nm => rfl
  | set nm i => cases hg : specGet nm sp.cur <;> simp [rspecStep, specStep, hg]
  | del nm k => cases hg : specGet nm sp.cur <;> simp [rspecStep, specStep, hg]
  | flush => exact absurd rfl h
  | reopen => rfl

theorem nextEnds_base (cmpOf : Bytes → CmpKind) (s : SState) (ends : List Nat) (op : SOp)
    (h : op ≠ .flush) : nextEnds cmpOf s ends (.base op) = ends := by
  cases op with
  | flush => exact absurd rfl h
  | _ => rfl

theorem rinv_base {cmpOf : Bytes → CmpKind} {n : Nat} {s : SState} {ends : List Nat} {sp : RSpec}
    (h : RInv cmpOf n s ends sp) (op : SOp) (hne : op ≠ .flush) (hop : OpOK op) (hn : n < 2^32)
    (hlim : (sstep cmpOf s op).size < 2^32) :
    RInv cmpOf (n+1) (sstep cmpOf s op) ends (rspecStep cmpOf sp (.base op)) := by
  have hi := inv_step h.toInv op hop hn hlim
  have hf := sstep_file_of_ne_flush cmpOf s op hne
  rw [rspecStep_base cmpOf sp op hne]
  refine ⟨hi.size, hi.colls, hi.cur, ?_, h.dec, ?_⟩
  · rw [hf]; exact h.stack.mono (Nat.le_succ n)
  · rw [hf]; exact h.top

/-! ### flush pushes an entry -/

/-- a successful `Flush` ends the file with a root record listing the root slots of the flushed
    collections, strictly beyond the previous end -/
theorem flush_root (cs : List Coll) (s : FileSt) (hf : s.failed = false) (hp : s.failAt = none)
    (hsz : s.size = s.bytes.length) (hc : ∀ c ∈ cs, c.root.Coherent s.bytes s.size)
    (hok : ∀ c ∈ cs, c.root.SizesOK) (hplain : ∀ c ∈ cs, PlainName c.name)
    (hlim : (flushStore cs s).2.size < 2^32) :
    rootAt (flushStore cs s).2.bytes (flushStore cs s).2.size
        = some (rootEntries (flushStore cs s).1) ∧
      s.size < (flushStore cs s).2.size := by
  have hn : s.NoFault := ⟨hf, hp⟩
  have hcoh := flushStore_coherent cs s hf hp (Nat.le_of_eq hsz) hc hok hlim
  have hn1 : (flushColls cs s).2.NoFault := (flushColls_frame cs s).noplan hf hp
  have ht1 := flushColls_tight cs s hn hsz
  have hnc := flushColls_namecmp cs s
  have hmono := flushColls_size_mono cs s
  obtain ⟨b1, z1, n1⟩ := writeAtOff_nofault (flushColls cs s).2 (flushColls cs s).2.size
    (encRoot (flushColls cs s).2.size (rootEntries (flushColls cs s).1)) hn1
  obtain ⟨b3, z3, _⟩ := advance_nofault ((flushColls cs s).2.write
    (encRoot (flushColls cs s).2.size (rootEntries (flushColls cs s).1)))
    (encRoot (flushColls cs s).2.size (rootEntries (flushColls cs s).1)).length n1
  have e : flushStore cs s = ((flushColls cs s).1, ((flushColls cs s).2.write
      (encRoot (flushColls cs s).2.size (rootEntries (flushColls cs s).1))).advance
      (encRoot (flushColls cs s).2.size (rootEntries (flushColls cs s).1)).length) := by
    simp only [flushStore]
    rw [if_neg (by rw [hn1.1]; simp)]
  rw [e] at hlim hcoh ⊢
  dsimp only at hlim hcoh ⊢
  have z1' : ((flushColls cs s).2.write
      (encRoot (flushColls cs s).2.size (rootEntries (flushColls cs s).1))).size =
      (flushColls cs s).2.size := z1
  have b1' : ((flushColls cs s).2.write
      (encRoot (flushColls cs s).2.size (rootEntries (flushColls cs s).1))).bytes =
      writeAt (flushColls cs s).2.bytes (flushColls cs s).2.size
        (encRoot (flushColls cs s).2.size (rootEntries (flushColls cs s).1)) := b1
  rw [z3, z1'] at hlim hcoh ⊢
  rw [b3, b1'] at hcoh ⊢
  rw [ht1] at hlim hcoh hmono ⊢
  rw [fc_writeAt_end] at hcoh ⊢
  have hmem : ∀ c ∈ (flushColls cs s).1, ∃ d ∈ cs, d.name = c.name ∧ d.cmp = c.cmp := by
    intro c hcm
    have : (c.name, c.cmp) ∈ (flushColls cs s).1.map (fun c => (c.name, c.cmp)) :=
      List.mem_map.mpr ⟨c, hcm, rfl⟩
    rw [hnc] at this
    obtain ⟨d, hd, hde⟩ := List.mem_map.mp this
    injection hde with h1 h2
    exact ⟨d, hd, h1, h2⟩
  have hroot := rootAt_encRoot_partial (flushColls cs s).2.bytes (rootEntries (flushColls cs s).1)
    (by
      intro e he
      obtain ⟨c, hcm, rfl⟩ := List.mem_map.mp he
      obtain ⟨d, hd, h1, _⟩ := hmem c hcm
      show PlainName c.name
      rw [← h1]
      exact hplain d hd)
    (by
      intro e he q hq
      obtain ⟨c, hcm, rfl⟩ := List.mem_map.mp he
      have := ((hcoh c hcm).1.slotLoc_bound hq).1
      unfold nodeRecLen at this
      omega)
    hlim
  refine ⟨hroot, ?_⟩
  have := encRoot_length (flushColls cs s).2.bytes.length (rootEntries (flushColls cs s).1)
  unfold rootsLen at this
  omega

/-- what a successful `Flush` pushes onto the stack -/
theorem flush_entry {cmpOf : Bytes → CmpKind} {f : Bytes} {n : Nat} {cs : List Coll}
    (h : CollsOK cmpOf f n cs) (hn : n < 2^32)
    (hlim : (flushStore cs { bytes := f, size := f.length, log := [] }).2.size < 2^32) :
    EntryOK cmpOf (flushStore cs { bytes := f, size := f.length, log := [] }).2.bytes n
      (flushStore cs { bytes := f, size := f.length, log := [] }).2.bytes.length
      (flushStore cs { bytes := f, size := f.length, log := [] }).1 (absColls cs) ∧
    f.length < (flushStore cs { bytes := f, size := f.length, log := [] }).2.bytes.length ∧
    (flushStore cs { bytes := f, size := f.length, log := [] }).2.bytes.take f.length = f := by
  obtain ⟨h1, h2, h3, _⟩ := CollsOK.flush h hn hlim
  generalize hfs : ({ bytes := f, size := f.length, log := [] } : FileSt) = fs at hlim h1 h2 h3 ⊢
  have hb : fs.bytes = f := by rw [← hfs]
  have hz : fs.size = f.length := by rw [← hfs]
  have hfa : fs.failed = false := by rw [← hfs]
  have hpl : fs.failAt = none := by rw [← hfs]
  have hsz : fs.size = fs.bytes.length := by rw [hb, hz]
  have hc : ∀ c ∈ cs, c.root.Coherent fs.bytes fs.size := by
    intro c hc
    rw [hb, hz]
    exact (h.all c hc).coh
  have hok : ∀ c ∈ cs, c.root.SizesOK := fun c hc => (h.all c hc).tree.sizesOK hn
  have hcoh := flushStore_coherent cs fs hfa hpl (Nat.le_of_eq hsz) hc hok hlim
  obtain ⟨hroot, hlt⟩ := flush_root cs fs hfa hpl hsz hc hok (fun c hc => (h.all c hc).plain) hlim
  have hpre := flushStore_prefix cs fs (Nat.le_of_eq hsz)
  rw [h1] at hroot hlt hcoh
  rw [hz] at hlt
  rw [hz, hb, List.take_length] at hpre
  refine ⟨⟨Nat.le_refl _, hroot, h2.sorted, fun c hc => (h2.all c hc).hcmp,
    fun c hc => (h2.all c hc).plain, fun c hc => (h2.all c hc).tree, hcoh, h3⟩, hlt, hpre⟩

theorem rinv_flush {cmpOf : Bytes → CmpKind} {n : Nat} {s : SState} {ends : List Nat} {sp : RSpec}
    (h : RInv cmpOf n s ends sp) (hn : n < 2^32) (hlim : (sstep cmpOf s .flush).size < 2^32) :
    RInv cmpOf (n+1) (sstep cmpOf s .flush) ((sstep cmpOf s .flush).size :: ends)
      (rspecStep cmpOf sp (.base .flush)) := by
  have hi := inv_flush h.toInv hn hlim
  obtain ⟨colls, file, size⟩ := s
  have hs : size = file.length := h.size
  subst hs
  have hcolls : CollsOK cmpOf file n colls := h.colls
  have hlim' : (flushStore colls { bytes := file, size := file.length, log := [] }).2.size < 2^32 :=
    hlim
  obtain ⟨hE, hlt, hpre⟩ := flush_entry hcolls hn hlim'
  have hsize : (sstep cmpOf ⟨colls, file, file.length⟩ .flush).size =
      (flushStore colls { bytes := file, size := file.length, log := [] }).2.bytes.length :=
    hi.size
  have hle : ∀ e ∈ ends, e ≤ file.length := fun e he => (h.stack.mem e he).1
  refine ⟨hi.size, hi.colls, hi.cur, ?_, ?_, ?_⟩
  · -- the stack
    rw [hsize]
    show StackOK cmpOf (flushStore colls { bytes := file, size := file.length, log := [] }).2.bytes
      (n+1) (_ :: ends) (sp.cur :: sp.flushed)
    refine ⟨⟨(flushStore colls { bytes := file, size := file.length, log := [] }).1, ?_⟩, ?_⟩
    · rw [← h.cur]; exact hE.mono (Nat.le_succ n)
    · refine (h.stack.mono (Nat.le_succ n)).congr ?_
      intro e he
      have := hle e he
      refine ⟨by omega, ?_⟩
      show List.take e (flushStore colls { bytes := file, size := file.length, log := [] }).2.bytes
        = file.take e
      rw [← take_take_le _ this, hpre]
  · rw [hsize]
    refine List.pairwise_cons.mpr ⟨?_, h.dec⟩
    intro e he
    have := hle e he
    show _ > e
    omega
  · exact hsize

/-! ### revert pops an entry -/

theorem rinv_revert {cmpOf : Bytes → CmpKind} {n : Nat} {s : SState} {ends : List Nat} {sp : RSpec}
    (h : RInv cmpOf n s ends sp) (hnf : NoForgedRoots s.file ends) :
    RInv cmpOf (n+1) (rstep cmpOf s .revert) (ends.drop 1) (rspecStep cmpOf sp .revert) := by
  obtain ⟨cur, flushed⟩ := sp
  obtain ⟨colls, file, size⟩ := s
  have hs : size = file.length := h.size
  subst hs
  have hst := h.stack
  have htop := h.top
  have hdec := h.dec
  -- the result in the two cases where nothing older is left
  have hempty : revertStore ⟨some 0, file.length, colls, false⟩ 0 file cmpOf
        = some (⟨some 0, 0, [], false⟩, []) →
      flushed.drop 1 = [] →
      RInv cmpOf (n+1) (rstep cmpOf ⟨colls, file, file.length⟩ .revert) []
        (rspecStep cmpOf ⟨cur, flushed⟩ .revert) := by
    intro e hfl
    have e1 : rstep cmpOf ⟨colls, file, file.length⟩ .revert = ⟨[], [], 0⟩ := by
      simp only [rstep, e]
    have e2 : rspecStep cmpOf ⟨cur, flushed⟩ .revert = ⟨[], []⟩ := by
      simp only [rspecStep, hfl, List.headD_nil]
    rw [e1, e2]
    exact ⟨rfl, CollsOK.nil _ _ _, rfl, trivial, List.Pairwise.nil, rfl⟩
  cases ends with
  | nil =>
    cases flushed with
    | cons fl fls => simp only [StackOK] at hst
    | nil =>
      have hf : file = [] := htop
      subst hf
      refine hempty ?_ rfl
      have := revertStore_none ⟨some 0, ([] : Bytes).length, colls, false⟩ 0 [] cmpOf
        (Or.inl (fun e' he => rootAt_le_rootsLen _ _ (by
          have : e' ≤ 0 := he
          unfold rootsLen; omega)))
      simpa using this
  | cons e0 es =>
    cases flushed with
    | nil => simp only [StackOK] at hst
    | cons fl0 fls =>
      obtain ⟨⟨dc0, hE0⟩, hst'⟩ := hst
      have he0 : e0 = file.length := htop
      subst he0
      obtain ⟨hd0, hdec'⟩ := List.pairwise_cons.mp hdec
      cases es with
      | nil =>
        cases fls with
        | cons fl1 fls => simp only [StackOK] at hst'
        | nil =>
          refine hempty ?_ rfl
          have := revertStore_none ⟨some 0, file.length, colls, false⟩ 0 file cmpOf
            (Or.inr ⟨file.length, rootEntries dc0, hE0.root, Nat.le_refl _,
              fun e' h1 h2 => absurd h2 (Nat.not_le_of_lt h1), fun e' hlt => by
                cases hr : rootAt file e' with
                | none => rfl
                | some r =>
                  have hm := hnf e' (by rw [hr]; rfl)
                  rcases List.mem_cons.mp hm with hm | hm
                  · omega
                  · cases hm⟩)
          simpa using this
      | cons e1 es =>
        cases fls with
        | nil => simp only [StackOK] at hst'
        | cons fl1 fls =>
          obtain ⟨⟨dc1, hE1⟩, hst''⟩ := hst'
          obtain ⟨hd1, hdec''⟩ := List.pairwise_cons.mp hdec'
          have hlt : e1 < file.length := hd0 e1 (List.mem_cons_self ..)
          have hrev := revertStore_prev_at_end ⟨some 0, file.length, colls, false⟩ 0 file cmpOf
            (rootEntries dc0) hE0.root e1 (rootEntries dc1) hlt hE1.root
            (by
              intro e' h1 h2
              cases hr : rootAt file e' with
              | none => rfl
              | some r =>
                have hm := hnf e' (by rw [hr]; rfl)
                have h2' : e' < file.length := h2
                rcases List.mem_cons.mp hm with hm | hm
                · omega
                · rcases List.mem_cons.mp hm with hm | hm
                  · omega
                  · have : e1 > e' := hd1 e' hm
                    omega)
          rw [hE1.load] at hrev
          have e1' : rstep cmpOf ⟨colls, file, file.length⟩ .revert = ⟨dc1, file.take e1, e1⟩ := by
            simp [rstep, hrev]
          have e2 : rspecStep cmpOf ⟨cur, fl0 :: fl1 :: fls⟩ .revert = ⟨fl1, fl1 :: fls⟩ := rfl
          rw [e1', e2]
          have hl : (file.take e1).length = e1 := length_take_le file hE1.le
          refine ⟨hl.symm, hE1.collsOK_take.mono (Nat.le_succ n), hE1.abs, ?_, hdec', hl.symm⟩
          show StackOK cmpOf (file.take e1) (n+1) (e1 :: es) (fl1 :: fls)
          have hall : StackOK cmpOf file n (e1 :: es) (fl1 :: fls) := ⟨⟨dc1, hE1⟩, hst''⟩
          refine (hall.mono (Nat.le_succ n)).congr ?_
          intro e he
          have hle : e ≤ e1 := by
            rcases List.mem_cons.mp he with he | he
            · omega
            · have : e1 > e := hd1 e he
              omega
          exact ⟨by omega, take_take_le file hle⟩

/-! ### the step lemma and the run -/

def ROpOK : ROp → Prop
  | .base op => OpOK op
  | .revert => True

theorem rinv_step {cmpOf : Bytes → CmpKind} {n : Nat} {s : SState} {ends : List Nat} {sp : RSpec}
    (h : RInv cmpOf n s ends sp) (op : ROp) (hop : ROpOK op) (hn : n < 2^32)
    (hlim : (rstep cmpOf s op).size < 2^32)
    (hnf : op = .revert → NoForgedRoots s.file ends) :
    RInv cmpOf (n+1) (rstep cmpOf s op) (nextEnds cmpOf s ends op) (rspecStep cmpOf sp op) := by
  cases op with
  | revert => exact rinv_revert h (hnf rfl)
  | base op =>
    by_cases hfl : op = .flush
    · subst hfl
      exact rinv_flush h hn hlim
    · rw [nextEnds_base cmpOf s ends op hfl]
      exact rinv_base h op hfl hop hn hlim

/-- side conditions on a history with reverts: as `Machine.HistOK` (plain names, items within the
    format limits, file below 4 GiB after every prefix, fewer than `2^32` operations), and: at
    the moment of every FlushRevert the only offsets of the file at which a complete
    self-consistent root record ends are the ends of the flushes still on the stack, i.e. no
    key/value bytes contain a forged root record -/
def RHistOK (cmpOf : Bytes → CmpKind) (ops : List ROp) : Prop :=
  (∀ op ∈ ops, ROpOK op) ∧
  (∀ k, (rrun cmpOf (ops.take k)).size < 2^32) ∧
  ops.length < 2^32 ∧
  (∀ k, ops[k]? = some .revert →
    NoForgedRoots (rrun cmpOf (ops.take k)).file (flushEnds cmpOf (ops.take k)))

theorem rinv_take (cmpOf : Bytes → CmpKind) (ops : List ROp) (h : RHistOK cmpOf ops) :
    ∀ k, k ≤ ops.length →
      RInv cmpOf k (rrun cmpOf (ops.take k)) (flushEnds cmpOf (ops.take k))
        (rspecRun cmpOf (ops.take k))
  | 0, _ => by
    rw [List.take_zero]
    exact rinv_init cmpOf
  | k+1, hk => by
    have hlt : k < ops.length := hk
    have ih := rinv_take cmpOf ops h k (Nat.le_of_lt hlt)
    have hl := h.2.1 (k+1)
    rw [List.take_succ_eq_append_getElem hlt] at hl ⊢
    rw [rrun_snoc] at hl ⊢
    rw [rspecRun_snoc, flushEnds_snoc]
    refine rinv_step ih _ (h.1 _ (List.getElem_mem hlt)) (by have := h.2.2.1; omega) hl ?_
    intro hop
    exact h.2.2.2 k (by rw [List.getElem?_eq_getElem hlt, hop])

theorem rinv_run (cmpOf : Bytes → CmpKind) (ops : List ROp) (h : RHistOK cmpOf ops) :
    RInv cmpOf ops.length (rrun cmpOf ops) (flushEnds cmpOf ops) (rspecRun cmpOf ops) := by
  have := rinv_take cmpOf ops h ops.length (Nat.le_refl _)
  rw [List.take_length] at this
  exact this

/-! ### the theorems -/

/-- C08 / C01(c): after every admissible history — flushes, re-opens, reverts in any order and
    number — the store shows exactly what the specification (a stack of flushed states) shows -/
theorem rrefinement (cmpOf : Bytes → CmpKind) (ops : List ROp) (h : RHistOK cmpOf ops) :
    absS (rrun cmpOf ops) = (rspecRun cmpOf ops).cur :=
  (rinv_run cmpOf ops h).cur

/-- re-opening the (truncated) file after any history shows the top of the stack -/
theorem r_reopen_shows_top (cmpOf : Bytes → CmpKind) (ops : List ROp) (h : RHistOK cmpOf ops) :
    ∃ dc, openStore 0 (rrun cmpOf ops).file cmpOf
        = .ok ⟨some 0, (rrun cmpOf ops).file.length, dc, false⟩ ∧
      absColls dc = (rspecRun cmpOf ops).flushed.headD [] := by
  obtain ⟨dc, h1, _, h3⟩ := (rinv_run cmpOf ops h).toInv.dur
  exact ⟨dc, h1, h3⟩

/-- the store invariant of `Proofs/Machine.lean` holds in every reachable state -/
theorem rinvariant (cmpOf : Bytes → CmpKind) (ops : List ROp) (h : RHistOK cmpOf ops) :
    StoreInv cmpOf (rrun cmpOf ops) :=
  storeInv_of_inv (rinv_run cmpOf ops h).toInv h.2.2.1

/-- the file ends exactly at the root record of the flush on top of the stack (or is empty):
    the ghost stack of ends has one entry per element of the specification's stack, it is strictly
    decreasing, every entry is the end of a root record of the file, and the top entry is the
    length of the file (which is also the store's `size`) -/
theorem file_ends_at_top_flush (cmpOf : Bytes → CmpKind) (ops : List ROp) (h : RHistOK cmpOf ops) :
    (flushEnds cmpOf ops).length = (rspecRun cmpOf ops).flushed.length ∧
    (flushEnds cmpOf ops).Pairwise (· > ·) ∧
    (∀ e ∈ flushEnds cmpOf ops, e ≤ (rrun cmpOf ops).file.length ∧
      (rootAt (rrun cmpOf ops).file e).isSome) ∧
    (rrun cmpOf ops).size = (rrun cmpOf ops).file.length ∧
    (match flushEnds cmpOf ops with
      | [] => (rrun cmpOf ops).file = []
      | e :: _ => e = (rrun cmpOf ops).file.length) := by
  have hi := rinv_run cmpOf ops h
  refine ⟨hi.stack.length, hi.dec, hi.stack.mem, hi.size, ?_⟩
  have := hi.top
  cases hfe : flushEnds cmpOf ops with
  | nil => rw [hfe] at this; exact this
  | cons e es => rw [hfe] at this; exact this

/-- what `n+1` consecutive reverts do to the specification: pop `n+1` entries -/
theorem rspecRun_reverts (cmpOf : Bytes → CmpKind) (ops : List ROp) : ∀ n,
    rspecRun cmpOf (ops ++ List.replicate (n+1) .revert) =
      ⟨((rspecRun cmpOf ops).flushed.drop (n+1)).headD [], (rspecRun cmpOf ops).flushed.drop (n+1)⟩
  | 0 => by
    show rspecRun cmpOf (ops ++ [.revert]) = _
    rw [rspecRun_snoc]
    rfl
  | n+1 => by
    rw [List.replicate_succ', ← List.append_assoc, rspecRun_snoc, rspecRun_reverts cmpOf ops n]
    simp only [rspecStep, List.drop_drop]

/-- consecutive reverts walk back one flush at a time, past the first flush to the empty store.

    The statement as planned (`∀ n`) is FALSE for `n = 0`: it would say that the current state
    always is the top of the stack.  Counterexample: `ops = [.base (.setColl [97])]`, `n = 0`:
    `absS (rrun cmpOf ops) = [([97], [])]` but `(rspecRun cmpOf ops).flushed = []`, so the right
    hand side is `[]`.  With at least one revert it is true. -/
theorem reverts_walk_back_partial (cmpOf : Bytes → CmpKind) (ops : List ROp) (n : Nat)
    (hn : 0 < n) (h : RHistOK cmpOf (ops ++ List.replicate n .revert)) :
    absS (rrun cmpOf (ops ++ List.replicate n .revert))
      = ((rspecRun cmpOf ops).flushed.drop n).headD [] := by
  obtain ⟨m, rfl⟩ : ∃ m, n = m + 1 := ⟨n - 1, by omega⟩
  rw [rrefinement cmpOf _ h, rspecRun_reverts]

/-- the same, for the file: after `n ≥ 1` reverts re-opening shows the same entry of the stack -/
theorem reverts_walk_back_file (cmpOf : Bytes → CmpKind) (ops : List ROp) (n : Nat)
    (hn : 0 < n) (h : RHistOK cmpOf (ops ++ List.replicate n .revert)) :
    ∃ dc, openStore 0 (rrun cmpOf (ops ++ List.replicate n .revert)).file cmpOf
        = .ok ⟨some 0, (rrun cmpOf (ops ++ List.replicate n .revert)).file.length, dc, false⟩ ∧
      absColls dc = ((rspecRun cmpOf ops).flushed.drop n).headD [] := by
  obtain ⟨m, rfl⟩ : ∃ m, n = m + 1 := ⟨n - 1, by omega⟩
  obtain ⟨dc, h1, h2⟩ := r_reopen_shows_top cmpOf _ h
  rw [rspecRun_reverts] at h2
  exact ⟨dc, h1, h2⟩

#print axioms rrefinement
#print axioms r_reopen_shows_top
#print axioms rinvariant
#print axioms file_ends_at_top_flush
#print axioms reverts_walk_back_partial
#print axioms reverts_walk_back_file

end Gkv.MachineR

/-
`#print axioms` output (`lake env lean Gkv/Proofs/MachineR.lean`, Lean 4.33.0):

'Gkv.MachineR.rrefinement' depends on axioms: [propext, Classical.choice, Quot.sound]
'Gkv.MachineR.r_reopen_shows_top' depends on axioms: [propext, Classical.choice, Quot.sound]
'Gkv.MachineR.rinvariant' depends on axioms: [propext, Classical.choice, Quot.sound]
'Gkv.MachineR.file_ends_at_top_flush' depends on axioms: [propext, Classical.choice, Quot.sound]
'Gkv.MachineR.reverts_walk_back_partial' depends on axioms: [propext, Classical.choice, Quot.sound]
'Gkv.MachineR.reverts_walk_back_file' depends on axioms: [propext, Classical.choice, Quot.sound]

Notes.
* `RHistOK cmpOf ops` is
    (∀ op ∈ ops, ROpOK op)                                   -- PlainName / ItemOK as in `Machine.OpOK`
    ∧ (∀ k, (rrun cmpOf (ops.take k)).size < 2^32)           -- file below 4 GiB after every prefix
    ∧ ops.length < 2^32
    ∧ (∀ k, ops[k]? = some .revert →
        NoForgedRoots (rrun cmpOf (ops.take k)).file (flushEnds cmpOf (ops.take k)))
  where `flushEnds cmpOf ops` is a computed ghost (`grun`, `nextEnds`): `flush` pushes the store's
  `size` right after the flush, `revert` pops; so the last clause reads "whenever FlushRevert is
  called, every offset of the file at which a complete self-consistent root record ends is the
  `size` the store had right after one of the flushes that are still on the stack".  It is only
  demanded at the moments of the reverts (it is not needed for flush / re-open: there the record
  that matters is found at the very end of the file); demanding it at every prefix is a stronger
  hypothesis and implies this one.
* `reverts_walk_back` as planned (for all `n`) is false at `n = 0` (counterexample in its doc
  comment); proved for `0 < n` as `reverts_walk_back_partial`, with the file-side companion
  `reverts_walk_back_file`.  Reverting past the first flush is included: `drop n` of a shorter
  stack is `[]`, `headD [] = []`, the store is empty and the file is `[]`
  (`file_ends_at_top_flush`).
* "new flushes after a revert are durable as usual" is `r_reopen_shows_top` / `rrefinement`
  for histories that continue after reverts: they hold for every admissible history.
-/
