/-
Glue, group C — property C11 "CopyTo produces an equivalent copy".

`copyTo` re-inserts every item of every source collection, in ascending key order, into a fresh
destination store, flushing the destination every `fe` items.  The flushes change nothing but file
locations, and the in-memory algorithms never look at locations (`GlueB`), so up to locations the
destination is what the flush-free copy builds; and that is, collection by collection, the sorted
map rebuilt by ascending inserts, i.e. the source item list.
-/
import Gkv.Proofs.GlueB
open Std

namespace Gkv

open Tree

/-! ### ascending inserts rebuild a sorted list -/

theorem insert_append_gt (cmp : Bytes → Bytes → Ordering) (p : List Item) (i : Item)
    (h : ∀ j ∈ p, cmp i.key j.key = .gt) : Spec.insert cmp p i = p ++ [i] := by
  induction p with
  | nil => rfl
  | cons j p ih =>
    simp only [Spec.insert, h j (List.mem_cons_self ..), List.cons_append]
    rw [ih (fun x hx => h x (List.mem_cons_of_mem _ hx))]

theorem insert_all_sorted_aux (cmp : Bytes → Bytes → Ordering) [Std.TransCmp cmp]
    (l p : List Item) (h : Spec.Sorted cmp (p ++ l)) :
    l.foldl (Spec.insert cmp) p = p ++ l := by
  induction l generalizing p with
  | nil => simp
  | cons i l ih =>
    rw [List.foldl_cons]
    have hp : ∀ j ∈ p, cmp i.key j.key = .gt := by
      intro j hj
      have := (List.pairwise_append.mp h).2.2 j hj i (List.mem_cons_self ..)
      exact OrientedCmp.gt_of_lt this
    rw [insert_append_gt cmp p i hp]
    have h' : Spec.Sorted cmp ((p ++ [i]) ++ l) := by
      rw [List.append_assoc]; exact h
    rw [ih (p ++ [i]) h', List.append_assoc]
    rfl

/-- inserting the items of a sorted list in ascending order into an empty sorted map rebuilds
    the list -/
theorem insert_all_sorted (cmp : Bytes → Bytes → Ordering) [Std.TransCmp cmp] (l : List Item)
    (h : Spec.Sorted cmp l) : l.foldl (Spec.insert cmp) [] = l := by
  have := insert_all_sorted_aux cmp l [] (by simpa using h)
  simpa using this

/-- the tree built by `SetItem`-ing a sorted list in ascending order holds exactly that list -/
theorem foldl_setItem_sorted (cmp : Bytes → Bytes → Ordering) [Std.TransCmp cmp] (l : List Item)
    (t : Tree) (ht : Tree.BST cmp t) :
    Tree.BST cmp (l.foldl (Tree.setItem cmp) t) ∧
      (l.foldl (Tree.setItem cmp) t).toList = l.foldl (Spec.insert cmp) t.toList := by
  induction l generalizing t with
  | nil => exact ⟨ht, rfl⟩
  | cons i l ih =>
    rw [List.foldl_cons, List.foldl_cons, ← Tree.setItem_toList cmp ht i]
    exact ih _ (Tree.setItem_bst cmp ht i)

/-! ### the view of a store up to file locations -/

/-- what the API can see of a list of collections: names, comparators, trees without locations -/
def collsView (cs : List Coll) : List (Bytes × CmpKind × Tree) :=
  cs.map (fun c => (c.name, c.cmp, c.root.eraseLocs))

theorem collsGet_view {cs cs' : List Coll} (h : collsView cs = collsView cs') (n : Bytes)
    (d d' : Coll) (hd : (d.name, d.cmp, d.root.eraseLocs) = (d'.name, d'.cmp, d'.root.eraseLocs)) :
    (((collsGet n cs).getD d).name, ((collsGet n cs).getD d).cmp,
        ((collsGet n cs).getD d).root.eraseLocs) =
      (((collsGet n cs').getD d').name, ((collsGet n cs').getD d').cmp,
        ((collsGet n cs').getD d').root.eraseLocs) := by
  induction cs generalizing cs' with
  | nil =>
    cases cs' with
    | nil => exact hd
    | cons c' cs' => cases h
  | cons c cs ih =>
    cases cs' with
    | nil => cases h
    | cons c' cs' =>
      simp only [collsView, List.map_cons, List.cons.injEq] at h
      obtain ⟨hc, ht⟩ := h
      have hn : c.name = c'.name := congrArg (·.1) hc
      simp only [collsGet]
      rw [← hn]
      split
      · exact hc
      · exact ih ht

theorem collsSet_view {cs cs' : List Coll} (h : collsView cs = collsView cs') (d d' : Coll)
    (hd : (d.name, d.cmp, d.root.eraseLocs) = (d'.name, d'.cmp, d'.root.eraseLocs)) :
    collsView (collsSet d cs) = collsView (collsSet d' cs') := by
  have hdn : d.name = d'.name := congrArg (·.1) hd
  induction cs generalizing cs' with
  | nil =>
    cases cs' with
    | nil => simp only [collsSet, collsView, List.map_cons, hd]
    | cons c' cs' => cases h
  | cons c cs ih =>
    cases cs' with
    | nil => cases h
    | cons c' cs' =>
      simp only [collsView, List.map_cons, List.cons.injEq] at h
      obtain ⟨hc, ht⟩ := h
      have hn : c.name = c'.name := congrArg (·.1) hc
      have ih' := ih ht
      simp only [collsSet]
      rw [← hn, ← hdn]
      split
      · simp only [collsView, List.map_cons] at ih' ⊢
        rw [hd, hc, ht]
      · simp only [collsView, List.map_cons] at ih' ⊢
        rw [hd, ht]
      · simp only [collsView, List.map_cons] at ih' ⊢
        rw [ih', hc]

/-- one `SetItem` of `copyItems`, up to locations -/
theorem copyStep_view {cs cs' : List Coll} (h : collsView cs = collsView cs') (name : Bytes)
    (cmp : CmpKind) (i : Item) :
    collsView (collsSet { (collsGet name cs).getD ⟨name, cmp, .nil⟩ with
        root := Tree.setItem cmp.fn ((collsGet name cs).getD ⟨name, cmp, .nil⟩).root i } cs) =
    collsView (collsSet { (collsGet name cs').getD ⟨name, cmp, .nil⟩ with
        root := Tree.setItem cmp.fn ((collsGet name cs').getD ⟨name, cmp, .nil⟩).root i } cs') := by
  have hg := collsGet_view h name ⟨name, cmp, .nil⟩ ⟨name, cmp, .nil⟩ rfl
  apply collsSet_view h
  simp only [Prod.mk.injEq] at hg ⊢
  obtain ⟨g1, g2, g3⟩ := hg
  refine ⟨g1, g2, ?_⟩
  rw [setItem_eraseLocs, setItem_eraseLocs (t := ((collsGet name cs').getD _).root), g3]

theorem flushStore_view (cs : List Coll) (s : FileSt) :
    collsView (flushStore cs s).1 = collsView cs := flushStore_eraseLocs cs s

/-- up to locations, `copyItems` with intermediate flushes builds what it builds without -/
theorem copyItems_view (fe : Nat) (name : Bytes) (cmp : CmpKind) (is : List Item) (n n' : Nat)
    (cs cs' : List Coll) (s s' : FileSt) (h : collsView cs = collsView cs') :
    collsView (copyItems fe name cmp is n cs s).1 =
      collsView (copyItems 0 name cmp is n' cs' s').1 := by
  induction is generalizing n n' cs cs' s s' with
  | nil => exact h
  | cons i rest ih =>
    simp only [copyItems]
    rw [if_neg (by omega : ¬ (0 > 0 ∧ (n' + 1) % 0 = 0))]
    have hstep := copyStep_view h name cmp i
    split
    · exact ih _ _ _ _ _ _ ((flushStore_view _ s).trans hstep)
    · exact ih _ _ _ _ _ _ hstep

theorem copyColls_view (fe : Nat) (src cs cs' : List Coll) (s s' : FileSt)
    (h : collsView cs = collsView cs') :
    collsView (copyColls fe src cs s).1 = collsView (copyColls 0 src cs' s').1 := by
  induction src generalizing cs cs' s s' with
  | nil => exact h
  | cons c rest ih =>
    simp only [copyColls]
    exact ih _ _ _ _ (copyItems_view fe c.name c.cmp c.root.toList 0 0 _ _ s s'
      (collsSet_view h _ _ rfl))

/-! ### the flush-free copy -/

theorem copyItems_zero (name : Bytes) (cmp : CmpKind) (is : List Item) (n : Nat)
    (cs : List Coll) (s : FileSt) :
    (copyItems 0 name cmp is n cs s).2 = s := by
  induction is generalizing n cs with
  | nil => rfl
  | cons i rest ih =>
    simp only [copyItems]
    rw [if_neg (by omega : ¬ (0 > 0 ∧ (n + 1) % 0 = 0))]
    exact ih _ _

/-- a collection whose name is above all names of `cs` goes to the end -/
theorem collsSet_append_gt (cs : List Coll) (d : Coll)
    (h : ∀ c ∈ cs, compare c.name d.name = .lt) : collsSet d cs = cs ++ [d] := by
  induction cs with
  | nil => rfl
  | cons c cs ih =>
    have hc : compare d.name c.name = .gt := OrientedCmp.gt_of_lt (h c (List.mem_cons_self ..))
    simp only [collsSet, hc, List.cons_append]
    rw [ih (fun x hx => h x (List.mem_cons_of_mem _ hx))]

/-- replacing the last collection, whose name is above all others -/
theorem collsSet_append_last (cs : List Coll) (d d' : Coll) (hn : d'.name = d.name)
    (h : ∀ c ∈ cs, compare c.name d.name = .lt) : collsSet d' (cs ++ [d]) = cs ++ [d'] := by
  induction cs with
  | nil =>
    have hr : compare d.name d.name = .eq := ReflCmp.compare_self
    simp only [List.nil_append, collsSet, hn, hr]
  | cons c cs ih =>
    have hc : compare d'.name c.name = .gt := by
      rw [hn]; exact OrientedCmp.gt_of_lt (h c (List.mem_cons_self ..))
    simp only [List.cons_append, collsSet, hc]
    rw [ih (fun x hx => h x (List.mem_cons_of_mem _ hx))]

theorem collsGet_append_last (cs : List Coll) (d : Coll)
    (h : ∀ c ∈ cs, compare c.name d.name = .lt) : collsGet d.name (cs ++ [d]) = some d := by
  induction cs with
  | nil => simp only [List.nil_append, collsGet, if_true]
  | cons c cs ih =>
    have hne : c.name ≠ d.name := by
      intro e
      have := h c (List.mem_cons_self ..)
      have hr : compare d.name d.name = .eq := ReflCmp.compare_self
      rw [e, hr] at this
      cases this
    simp only [List.cons_append, collsGet, if_neg hne]
    exact ih (fun x hx => h x (List.mem_cons_of_mem _ hx))

/-- the flush-free `copyItems` into the last collection is a fold of `SetItem` -/
theorem copyItems_zero_last (name : Bytes) (cmp : CmpKind) (is : List Item) (n : Nat)
    (cs : List Coll) (t : Tree) (s : FileSt)
    (h : ∀ c ∈ cs, compare c.name name = .lt) :
    (copyItems 0 name cmp is n (cs ++ [⟨name, cmp, t⟩]) s).1 =
      cs ++ [⟨name, cmp, is.foldl (Tree.setItem cmp.fn) t⟩] := by
  induction is generalizing n t with
  | nil => rfl
  | cons i rest ih =>
    simp only [copyItems]
    rw [if_neg (by omega : ¬ (0 > 0 ∧ (n + 1) % 0 = 0))]
    rw [collsGet_append_last cs ⟨name, cmp, t⟩ h]
    simp only [Option.getD_some]
    rw [collsSet_append_last cs ⟨name, cmp, t⟩ ⟨name, cmp, Tree.setItem cmp.fn t i⟩ rfl h]
    exact ih _ _

/-- what `copyTo_contents` is about: names, comparators, item lists -/
def collsItems (cs : List Coll) : List (Bytes × CmpKind × List Item) :=
  cs.map (fun c => (c.name, c.cmp, c.root.toList))

theorem collsItems_of_view {cs cs' : List Coll} (h : collsView cs = collsView cs') :
    collsItems cs = collsItems cs' := by
  have := congrArg (List.map (fun x : Bytes × CmpKind × Tree => (x.1, x.2.1, x.2.2.toList))) h
  simp only [collsView, List.map_map, Function.comp_def, eraseLocs_toList] at this
  exact this

/-- the flush-free copy appends, collection by collection, an equivalent of the source -/
theorem copyColls_zero_contents (src dst : List Coll) (s : FileSt)
    (hb : ∀ c ∈ src, Tree.BST c.cmp.fn c.root)
    (hnames : (dst ++ src).Pairwise (fun a b => compare a.name b.name = .lt)) :
    collsItems (copyColls 0 src dst s).1 = collsItems dst ++ collsItems src := by
  induction src generalizing dst s with
  | nil => simp [copyColls, collsItems]
  | cons c rest ih =>
    have hlt : ∀ d ∈ dst, compare d.name c.name = .lt := fun d hd =>
      (List.pairwise_append.mp hnames).2.2 d hd c (List.mem_cons_self ..)
    simp only [copyColls]
    rw [collsSet_append_gt dst ⟨c.name, c.cmp, .nil⟩ hlt]
    have e := copyItems_zero_last c.name c.cmp c.root.toList 0 dst .nil s hlt
    have hnames' : ((dst ++ [(⟨c.name, c.cmp,
        c.root.toList.foldl (Tree.setItem c.cmp.fn) .nil⟩ : Coll)]) ++ rest).Pairwise
        (fun a b => compare a.name b.name = .lt) := by
      have h1 : (dst ++ [c] ++ rest).Pairwise (fun a b => compare a.name b.name = .lt) := by
        rw [List.append_assoc]; exact hnames
      have h2 : ((dst ++ [c] ++ rest).map (fun c : Coll => c.name)).Pairwise
          (fun a b => compare a b = .lt) := List.pairwise_map.mpr h1
      have h3 : (((dst ++ [(⟨c.name, c.cmp,
          c.root.toList.foldl (Tree.setItem c.cmp.fn) .nil⟩ : Coll)]) ++ rest).map
          (fun c : Coll => c.name)).Pairwise (fun a b => compare a b = .lt) := by
        simp only [List.map_append, List.map_cons, List.map_nil] at h2 ⊢
        exact h2
      exact List.pairwise_map.mp h3
    rw [ih _ _ (fun d hd => hb d (List.mem_cons_of_mem _ hd)) (by rw [e]; exact hnames')]
    rw [e]
    obtain ⟨_, hl⟩ := foldl_setItem_sorted c.cmp.fn c.root.toList .nil trivial
    have hs := insert_all_sorted c.cmp.fn c.root.toList
      (Tree.toList_sorted c.cmp.fn (hb c (List.mem_cons_self ..)))
    simp only [collsItems, List.map_append, List.map_cons, List.map_nil, List.append_assoc,
      List.cons_append, List.nil_append]
    rw [hl]
    show _ ++ (c.name, c.cmp, List.foldl (Spec.insert c.cmp.fn) [] c.root.toList) :: _ = _
    rw [hs]

/-- C11: the destination holds, for every source collection, the same name, comparator and
    item list -/
theorem copyTo_contents (src : List Coll) (fe : Int)
    (hb : ∀ c ∈ src, Tree.BST c.cmp.fn c.root)
    (hnames : src.Pairwise (fun a b => compare a.name b.name = .lt)) :
    (copyTo src fe).1.map (fun c => (c.name, c.cmp, c.root.toList)) =
      src.map (fun c => (c.name, c.cmp, c.root.toList)) := by
  show collsItems (copyTo src fe).1 = collsItems src
  have hv : collsView (copyTo src fe).1 = collsView (copyColls 0 src [] emptyFile).1 := by
    simp only [copyTo]
    split
    · exact (flushStore_view _ _).trans (copyColls_view _ src [] [] _ _ rfl)
    · exact copyColls_view _ src [] [] _ _ rfl
  rw [collsItems_of_view hv, copyColls_zero_contents src [] emptyFile hb (by simpa using hnames)]
  rfl

/-- C11, sharper: up to file locations the destination of `CopyTo` does not depend on
    `flushEvery` at all (shapes and aggregates included) -/
theorem copyTo_view_indep (src : List Coll) (fe fe' : Int) :
    (copyTo src fe).1.map (fun c => (c.name, c.cmp, c.root.eraseLocs)) =
      (copyTo src fe').1.map (fun c => (c.name, c.cmp, c.root.eraseLocs)) := by
  have key : ∀ fe : Int, collsView (copyTo src fe).1 =
      collsView (copyColls 0 src [] emptyFile).1 := by
    intro fe
    simp only [copyTo]
    split
    · exact (flushStore_view _ _).trans (copyColls_view _ src [] [] _ _ rfl)
    · exact copyColls_view _ src [] [] _ _ rfl
  exact (key fe).trans (key fe').symm

end Gkv
