/-
Basic facts about `All`, `BST` and `split` (helper lemmas; property theorems live in Gkv/Props).
-/
import Gkv.Model.Spec
open Std

namespace Gkv
namespace Tree

variable (cmp : Bytes → Bytes → Ordering)

theorem All_imp {p q : Item → Prop} (h : ∀ i, p i → q i) : ∀ t, All p t → All q t
  | nil, _ => trivial
  | node l i _ _ r _ _, ⟨hl, hi, hr⟩ => ⟨All_imp h l hl, h i hi, All_imp h r hr⟩

theorem All_mk {p : Item → Prop} {l r : Tree} {i : Item} {q : Option Ploc} :
    All p (mk l i r q) ↔ All p l ∧ p i ∧ All p r := Iff.rfl

theorem All_iff_toList {p : Item → Prop} : ∀ t, All p t ↔ ∀ i ∈ t.toList, p i
  | nil => by simp [All, toList]
  | node l i _ _ r _ _ => by
    simp only [All, toList, List.mem_append, List.mem_cons, All_iff_toList l, All_iff_toList r]
    constructor
    · rintro ⟨hl, hi, hr⟩ j (hj | rfl | hj)
      · exact hl j hj
      · exact hi
      · exact hr j hj
    · intro h
      exact ⟨fun j hj => h j (Or.inl hj), h i (Or.inr (Or.inl rfl)), fun j hj => h j (Or.inr (Or.inr hj))⟩

@[simp] theorem toList_mk (l r : Tree) (i : Item) (q : Option Ploc) :
    (mk l i r q).toList = l.toList ++ i :: r.toList := rfl

theorem BST_mk {l r : Tree} {i : Item} {q : Option Ploc} :
    BST cmp (mk l i r q) ↔ BST cmp l ∧ BST cmp r ∧ All (fun j => cmp j.key i.key = .lt) l ∧
      All (fun j => cmp j.key i.key = .gt) r := Iff.rfl

theorem split_all (p : Item → Prop) : ∀ (t : Tree) (s : Bytes), All p t →
    All p (split cmp t s).1 ∧ All p (split cmp t s).2.1 ∧ All p (split cmp t s).2.2
  | nil, s, _ => by simp [split, All]
  | node l i a b r p' q, s, ⟨hl, hi, hr⟩ => by
    unfold split
    split
    · exact ⟨hl, ⟨hl, hi, hr⟩, hr⟩
    · split
      · exact ⟨trivial, trivial, ⟨hl, hi, hr⟩⟩
      · have ih := split_all p l s hl
        exact ⟨ih.1, ih.2.1, All_mk.mpr ⟨ih.2.2, hi, hr⟩⟩
    · split
      · exact ⟨⟨hl, hi, hr⟩, trivial, trivial⟩
      · have ih := split_all p r s hr
        exact ⟨All_mk.mpr ⟨hl, hi, ih.1⟩, ih.2.1, ih.2.2⟩

variable [TransCmp cmp]

/-- `split` keeps search order and separates the keys around `s` -/
theorem split_bst : ∀ (t : Tree) (s : Bytes), BST cmp t →
    BST cmp (split cmp t s).1 ∧ BST cmp (split cmp t s).2.2 ∧
    All (fun j => cmp j.key s = .lt) (split cmp t s).1 ∧
    All (fun j => cmp j.key s = .gt) (split cmp t s).2.2
  | nil, s, _ => by simp [split, BST, All]
  | node l i a b r p' q, s, ⟨hl, hr, hal, har⟩ => by
    unfold split
    split
    next heq =>
      refine ⟨hl, hr, ?_, ?_⟩
      · exact All_imp (fun j hj => by
          have : cmp i.key s = .eq := by rw [OrientedCmp.eq_comm]; exact heq
          exact TransCmp.lt_of_lt_of_eq hj this) l hal
      · exact All_imp (fun j hj => by
          have : cmp i.key s = .eq := by rw [OrientedCmp.eq_comm]; exact heq
          exact TransCmp.gt_of_gt_of_eq hj this) r har
    next hlt =>
      have his : cmp i.key s = .gt := OrientedCmp.gt_of_lt hlt
      split
      · refine ⟨trivial, ⟨hl, hr, hal, har⟩, trivial, ⟨trivial, his, ?_⟩⟩
        exact All_imp (fun j hj => TransCmp.gt_trans hj his) r har
      · have ih := split_bst l s hl
        have ha := split_all cmp (fun j => cmp j.key i.key = .lt) l s hal
        refine ⟨ih.1, ⟨ih.2.1, hr, ha.2.2, har⟩, ih.2.2.1, All_mk.mpr ⟨ih.2.2.2, his, ?_⟩⟩
        exact All_imp (fun j hj => TransCmp.gt_trans hj his) r har
    next hgt =>
      have his : cmp i.key s = .lt := OrientedCmp.lt_of_gt hgt
      split
      · refine ⟨⟨hl, hr, hal, har⟩, trivial, ⟨?_, his, trivial⟩, trivial⟩
        exact All_imp (fun j hj => TransCmp.lt_trans hj his) l hal
      · have ih := split_bst r s hr
        have ha := split_all cmp (fun j => cmp j.key i.key = .gt) r s har
        refine ⟨⟨hl, ih.1, hal, ha.1⟩, ih.2.1, All_mk.mpr ⟨?_, his, ih.2.2.1⟩, ih.2.2.2⟩
        exact All_imp (fun j hj => TransCmp.lt_trans hj his) l hal

end Tree
end Gkv
