/-
Glue, group B — file locations are invisible to the API: the invariants, the lookups, the
iteration order and the results of the in-memory algorithms (`split`, `union`, `join`, `setItem`,
`delete`) do not depend on the `loc`/`iloc` fields of the nodes.
-/
import Gkv.Proofs.FlushCoherent
import Gkv.Proofs.TreapSet
import Gkv.Proofs.TreapDel
import Gkv.Proofs.Visit
open Std

namespace Gkv

open Tree

/-! ### observers -/

theorem eraseLocs_eraseLocs (t : Tree) : t.eraseLocs.eraseLocs = t.eraseLocs := by
  induction t with
  | nil => rfl
  | node l i a b r p q ihl ihr => simp only [Tree.eraseLocs]; rw [ihl, ihr]

theorem eraseLocs_size (t : Tree) : t.eraseLocs.size = t.size := by
  induction t with
  | nil => rfl
  | node l i a b r p q ihl ihr => simp only [Tree.eraseLocs, Tree.size]; rw [ihl, ihr]

theorem eraseLocs_rootPrio (t : Tree) : t.eraseLocs.rootPrio = t.rootPrio := by
  cases t <;> rfl

theorem eraseLocs_mk (l r : Tree) (i : Item) (q : Option Ploc) :
    (Tree.mk l i r q).eraseLocs = Tree.mk l.eraseLocs i r.eraseLocs none := by
  simp only [Tree.mk, Tree.eraseLocs, eraseLocs_nn, eraseLocs_nb]

theorem all_eraseLocs (p : Item → Prop) (t : Tree) : Tree.All p t.eraseLocs ↔ Tree.All p t := by
  induction t with
  | nil => exact Iff.rfl
  | node l i a b r _ _ ihl ihr =>
    simp only [Tree.eraseLocs, Tree.All]
    rw [ihl, ihr]

theorem bst_eraseLocs (cmp : Bytes → Bytes → Ordering) (t : Tree) :
    Tree.BST cmp t.eraseLocs ↔ Tree.BST cmp t := by
  induction t with
  | nil => exact Iff.rfl
  | node l i a b r _ _ ihl ihr =>
    simp only [Tree.eraseLocs, Tree.BST]
    rw [ihl, ihr, all_eraseLocs, all_eraseLocs]

theorem aggOK_eraseLocs (t : Tree) : Tree.AggOK t.eraseLocs ↔ Tree.AggOK t := by
  induction t with
  | nil => exact Iff.rfl
  | node l i a b r _ _ ihl ihr =>
    simp only [Tree.eraseLocs, Tree.AggOK]
    rw [ihl, ihr, eraseLocs_size, eraseLocs_size, eraseLocs_toList, eraseLocs_toList]

theorem heapOK_eraseLocs (t : Tree) : Tree.HeapOK t.eraseLocs ↔ Tree.HeapOK t := by
  induction t with
  | nil => exact Iff.rfl
  | node l i a b r _ _ ihl ihr =>
    simp only [Tree.eraseLocs, Tree.HeapOK]
    rw [ihl, ihr, eraseLocs_rootPrio, eraseLocs_rootPrio]

theorem get_eraseLocs (cmp : Bytes → Bytes → Ordering) (t : Tree) (k : Bytes) :
    Tree.get cmp t.eraseLocs k = Tree.get cmp t k := by
  induction t with
  | nil => rfl
  | node l i a b r _ _ ihl ihr =>
    simp only [Tree.eraseLocs, Tree.get]
    rw [ihl, ihr]

theorem inorderD_eraseLocs (t : Tree) (d : Nat) :
    Tree.inorderD t.eraseLocs d = Tree.inorderD t d := by
  induction t generalizing d with
  | nil => rfl
  | node l i a b r _ _ ihl ihr =>
    simp only [Tree.eraseLocs, Tree.inorderD]
    rw [ihl, ihr]

theorem min_eraseLocs (t : Tree) : t.eraseLocs.min = t.min := by
  rw [Tree.min_eq_head, Tree.min_eq_head, eraseLocs_toList]

theorem max_eraseLocs (t : Tree) : t.eraseLocs.max = t.max := by
  rw [Tree.max_eq_getLast, Tree.max_eq_getLast, eraseLocs_toList]

theorem totals_eraseLocs (t : Tree) : t.eraseLocs.totals = t.totals := by
  unfold Tree.totals
  rw [eraseLocs_nn, eraseLocs_nb]

theorem visitAsc_eraseLocs (cmp : Bytes → Bytes → Ordering) (t : Tree) (tgt : Bytes) (d : Nat) :
    Tree.visitAsc cmp t.eraseLocs tgt d = Tree.visitAsc cmp t tgt d := by
  induction t generalizing d with
  | nil => rfl
  | node l i a b r _ _ ihl ihr =>
    simp only [Tree.eraseLocs, Tree.visitAsc]
    rw [ihl, ihr]

theorem visitDesc_eraseLocs (cmp : Bytes → Bytes → Ordering) (t : Tree) (tgt : Bytes) (d : Nat) :
    Tree.visitDesc cmp t.eraseLocs tgt d = Tree.visitDesc cmp t tgt d := by
  induction t generalizing d with
  | nil => rfl
  | node l i a b r _ _ ihl ihr =>
    simp only [Tree.eraseLocs, Tree.visitDesc]
    rw [ihl, ihr]

/-! ### `split`, `union`, `join` -/

/-- splitting the location-free tree gives the location-free parts of the split -/
theorem split_eraseLocs (cmp : Bytes → Bytes → Ordering) (t : Tree) (s : Bytes) :
    Tree.split cmp t.eraseLocs s =
      ((Tree.split cmp t s).1.eraseLocs, (Tree.split cmp t s).2.1.eraseLocs,
        (Tree.split cmp t s).2.2.eraseLocs) := by
  induction t with
  | nil => rfl
  | node l i a b r p q ihl ihr =>
    simp only [Tree.eraseLocs]
    unfold Tree.split
    split
    · rfl
    · cases l with
      | nil => rfl
      | node ll li la lb lr lp lq =>
        simp only [Tree.eraseLocs] at ihl ⊢
        rw [ihl]
        simp only [eraseLocs_mk]
    · cases r with
      | nil => rfl
      | node rl ri ra rb rr rp rq =>
        simp only [Tree.eraseLocs] at ihr ⊢
        rw [ihr]
        simp only [eraseLocs_mk]

theorem union_eraseLocs (cmp : Bytes → Bytes → Ordering) (a b : Tree) :
    Tree.union cmp a.eraseLocs b.eraseLocs = (Tree.union cmp a b).eraseLocs := by
  fun_induction Tree.union cmp a b with
  | case1 b => simp only [Tree.eraseLocs, Tree.union]
  | case2 a h =>
    cases a with
    | nil => exact absurd rfl (h · )
    | node l i n m r p q => simp only [Tree.eraseLocs, Tree.union]
  | case3 al ai an ab ar ap aq bl bi bn bb br bp bq hp x hsz nl nr ml mi mn mb mr mloc mq hm ihl ihr =>
    have hs := split_eraseLocs cmp (node bl bi bn bb br bp bq) ai.key
    simp only [Tree.eraseLocs] at hs ⊢
    rw [Tree.union]
    rw [if_pos hp]
    simp only [hs]
    rw [show (Tree.split cmp (node bl bi bn bb br bp bq) ai.key).2.1 = _ from hm]
    simp only [Tree.eraseLocs, eraseLocs_mk]
    rw [← ihl, ← ihr]
  | case4 al ai an ab ar ap aq bl bi bn bb br bp bq hp x hsz nl nr hm ihl ihr =>
    have hs := split_eraseLocs cmp (node bl bi bn bb br bp bq) ai.key
    simp only [Tree.eraseLocs] at hs ⊢
    rw [Tree.union]
    rw [if_pos hp]
    simp only [hs]
    rw [show (Tree.split cmp (node bl bi bn bb br bp bq) ai.key).2.1 = _ from hm]
    simp only [Tree.eraseLocs, eraseLocs_mk]
    rw [← ihl, ← ihr]
  | case5 al ai an ab ar ap aq bl bi bn bb br bp bq hp x hsz ihl ihr =>
    have hs := split_eraseLocs cmp (node al ai an ab ar ap aq) bi.key
    simp only [Tree.eraseLocs] at hs ⊢
    rw [Tree.union]
    rw [if_neg hp]
    simp only [hs, eraseLocs_mk]
    rw [← ihl, ← ihr]

theorem join_eraseLocs (a b : Tree) :
    Tree.join a.eraseLocs b.eraseLocs = (Tree.join a b).eraseLocs := by
  fun_induction Tree.join a b with
  | case1 t => simp only [Tree.eraseLocs, Tree.join]
  | case2 l i a b r p q => simp only [Tree.eraseLocs, Tree.join]
  | case3 l1 i1 a1 b1 r1 p1 q1 l2 i2 a2 b2 r2 p2 q2 h ih =>
    simp only [Tree.eraseLocs] at ih ⊢
    rw [Tree.join, if_pos h, eraseLocs_mk, ← ih]
  | case4 l1 i1 a1 b1 r1 p1 q1 l2 i2 a2 b2 r2 p2 q2 h ih =>
    simp only [Tree.eraseLocs] at ih ⊢
    rw [Tree.join, if_neg h, eraseLocs_mk, ← ih]

/-! ### `setItem`, `delete` -/

/-- `SetItem` on the location-free tree is the location-free result of `SetItem` -/
theorem setItem_eraseLocs' (cmp : Bytes → Bytes → Ordering) (t : Tree) (i : Item) :
    Tree.setItem cmp t.eraseLocs i = (Tree.setItem cmp t i).eraseLocs := by
  unfold Tree.setItem
  rw [← union_eraseLocs]
  rfl

theorem setItem_eraseLocs (cmp : Bytes → Bytes → Ordering) (t : Tree) (i : Item) :
    (Tree.setItem cmp t i).eraseLocs = (Tree.setItem cmp t.eraseLocs i).eraseLocs := by
  rw [setItem_eraseLocs', eraseLocs_eraseLocs]

/-- `Delete` on the location-free tree is the location-free result of `Delete` -/
theorem delete_eraseLocs' (cmp : Bytes → Bytes → Ordering) (t : Tree) (k : Bytes) :
    Tree.delete cmp t.eraseLocs k = ((Tree.delete cmp t k).1.eraseLocs, (Tree.delete cmp t k).2) := by
  unfold Tree.delete
  rw [get_eraseLocs]
  cases Tree.get cmp t k with
  | none => rfl
  | some j =>
    dsimp only
    rw [split_eraseLocs, join_eraseLocs]

theorem delete_eraseLocs (cmp : Bytes → Bytes → Ordering) (t : Tree) (k : Bytes) :
    (Tree.delete cmp t k).1.eraseLocs = (Tree.delete cmp t.eraseLocs k).1.eraseLocs ∧
      (Tree.delete cmp t k).2 = (Tree.delete cmp t.eraseLocs k).2 := by
  rw [delete_eraseLocs', eraseLocs_eraseLocs]
  exact ⟨rfl, rfl⟩

end Gkv
