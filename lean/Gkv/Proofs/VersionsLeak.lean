/-
Proofs for `Gkv.Model.VersionsLeak`: leak freedom of the version / mark / reclaim protocol, and the leak it has.
-/
import Gkv.Model.VersionsLeak
namespace Gkv.VersionsLeak
open Classical
open Gkv.Versions

/-! ### `markAt` -/

theorem markAt_keep (s : St) (v n u : Nat) (h : s.mark n = some u) : markAt s v n = some u := by
  unfold markAt; simp [h]

theorem markAt_cases (s : St) (v n u : Nat) (h : markAt s v n = some u) :
    s.mark n = some u ∨ (s.mark n = none ∧ v = s.N ∧ s.tree v n ∧ u = v) := by
  unfold markAt at h
  split at h
  next hc => cases h; exact Or.inr ⟨hc.2.2, hc.1, hc.2.1, rfl⟩
  next => exact Or.inl h

theorem markAt_tree (s : St) (v n : Nat) (hv : v = s.N) (ht : s.tree v n) : markAt s v n ≠ none := by
  unfold markAt
  by_cases hm : s.mark n = none
  · simp [hv, hm]; rw [← hv]; exact ht
  · simp [hm]

/-! ### what one `dec` cascade does to marks, the free list and the reference counts -/

structure DecFacts (s s' : St) (v : Nat) : Prop where
  /-- marks are never erased -/
  keep : ∀ n u, s.mark n = some u → s'.mark n = some u
  /-- new marks are laid only by `markAllUnlocked`, on the tree of the dying last version -/
  new : ∀ n u, s'.mark n = some u → s.mark n = some u ∨ (s.mark n = none ∧ u = s.N ∧ v ≤ u ∧ s.tree s.N n)
  freed_mono : ∀ n, s.freed n → s'.freed n
  freed_new : ∀ n, s'.freed n → s.freed n ∨ ∃ u, s'.mark n = some u
  dead_mono : ∀ u, s.refs u = 0 → s'.refs u = 0
  dead_freed : (∀ n u, v ≤ u → s.mark n = some u → s.refs u = 0 → s.freed n) →
      (∀ n u, v ≤ u → s'.mark n = some u → s'.refs u = 0 → s'.freed n)
  last_marked : (s.refs s.N = 0 → ∀ n, s.tree s.N n → s.mark n ≠ none) →
      (s'.refs s.N = 0 → ∀ n, s.tree s.N n → s'.mark n ≠ none)

theorem DecFacts.rfl' (s : St) (v : Nat) : DecFacts s s v :=
  ⟨fun _ _ h => h, fun _ _ h => Or.inl h, fun _ h => h, fun _ h => Or.inl h, fun _ h => h,
   fun h => h, fun h => h⟩

/-- the last reference on `v` is dropped: `kill`, the cascade above `v` (facts `hK`), then `reclaim` -/
theorem kill_reclaim_facts (s s2 : St) (v : Nat) (hK : DecFacts (kill s v) s2 (v+1))
    (hN : s2.N = s.N) (hT : s2.tree = s.tree) :
    DecFacts s (reclaim s2 v (FT v)) v := by
  have hmk : ∀ n, (reclaim s2 v (FT v)).mark n = markAt s2 v n := fun _ => rfl
  have hfr : ∀ n, (reclaim s2 v (FT v)).freed n = (s2.freed n ∨ (FT v n ∧ markAt s2 v n = some v)) :=
    fun _ => rfl
  have hrf : (reclaim s2 v (FT v)).refs = s2.refs := rfl
  refine ⟨?_, ?_, ?_, ?_, ?_, ?_, ?_⟩
  · intro n u h
    rw [hmk]; exact markAt_keep _ _ _ _ (hK.keep n u (by simpa using h))
  · intro n u h
    rw [hmk] at h
    rcases markAt_cases _ _ _ _ h with h2 | ⟨h2, hv, ht, hu⟩
    · rcases hK.new n u h2 with h3 | ⟨h3, e, hle, ht⟩
      · exact Or.inl (by simpa using h3)
      · exact Or.inr ⟨by simpa using h3, by simpa using e, by omega, by simpa using ht⟩
    · right
      have hnone : s.mark n = none := by
        cases hm : s.mark n with
        | none => rfl
        | some w => have := hK.keep n w (by simpa using hm); rw [this] at h2; cases h2
      refine ⟨hnone, by omega, by omega, ?_⟩
      rw [hT] at ht
      have e : v = s.N := by rw [hv, hN]
      rw [← e]; exact ht
  · intro n h
    rw [hfr]; exact Or.inl (hK.freed_mono n (by simpa using h))
  · intro n h
    rw [hfr] at h
    rcases h with h | ⟨_, h⟩
    · rcases hK.freed_new n h with h2 | ⟨u, h2⟩
      · exact Or.inl (by simpa using h2)
      · exact Or.inr ⟨u, by rw [hmk]; exact markAt_keep _ _ _ _ h2⟩
    · exact Or.inr ⟨v, by rw [hmk]; exact h⟩
  · intro u h
    rw [hrf]; apply hK.dead_mono
    rw [kill_refs]; split
    · rfl
    · exact h
  · intro pre n u hle hm hr
    rw [hmk] at hm; rw [hrf] at hr; rw [hfr]
    by_cases huv : u = v
    · subst huv; exact Or.inr ⟨trivial, hm⟩
    · left
      rcases markAt_cases _ _ _ _ hm with h2 | ⟨_, _, _, hu⟩
      · refine hK.dead_freed ?_ n u (by omega) h2 hr
        intro n' u' hle' hm' hr'
        have hne : u' ≠ v := by omega
        rw [kill_refs] at hr'; simp [hne] at hr'
        simpa using pre n' u' (by omega) (by simpa using hm') hr'
      · exact absurd hu huv
  · intro pre hr n ht
    rw [hrf] at hr; rw [hmk]
    by_cases hvN : v = s.N
    · apply markAt_tree
      · rw [hN]; exact hvN
      · rw [hT, hvN]; exact ht
    · have hne : s.N ≠ v := fun e => hvN e.symm
      have := hK.last_marked (by
          intro hr' n' ht'
          rw [kill_N, kill_refs] at hr'; simp [hne] at hr'
          simpa using pre hr' n' (by simpa using ht')) (by simpa using hr) n (by simpa using ht)
      cases hm : s2.mark n with
      | none => exact absurd hm this
      | some w => rw [markAt_keep _ _ _ _ hm]; simp

/-- FACTS ABOUT THE CASCADE: `dec` never erases a mark, lays new marks only on the tree of the dying last version,
    frees only marked nodes, and — given it held for the versions ≥ v before — afterwards every node marked with a
    dead version ≥ v is freed and a dead last version has its whole tree marked. -/
theorem dec_facts : ∀ fuel s v, DecFacts s (dec FT fuel s v) v := by
  intro fuel
  induction fuel with
  | zero => intro s v; exact DecFacts.rfl' s v
  | succ fuel ih =>
    intro s v
    unfold dec
    by_cases hgt : s.refs v > 1
    · simp only [hgt, ↓reduceIte]
      refine ⟨fun _ _ h => h, fun _ _ h => Or.inl h, fun _ h => h, fun _ h => Or.inl h, ?_, ?_, ?_⟩
      · intro u h
        show (if u = v then s.refs v - 1 else s.refs u) = 0
        by_cases e : u = v
        · subst e; omega
        · simp [e]; exact h
      · intro pre n u hle hm hr
        have hr' : (if u = v then s.refs v - 1 else s.refs u) = 0 := hr
        by_cases e : u = v
        · subst e; simp at hr'; omega
        · simp [e] at hr'; exact pre n u hle hm hr'
      · intro pre hr n ht
        have hr' : (if s.N = v then s.refs v - 1 else s.refs s.N) = 0 := hr
        by_cases e : s.N = v
        · simp [e] at hr'; omega
        · simp [e] at hr'; exact pre hr' n ht
    · simp only [hgt, ↓reduceIte]
      by_cases hc : s.chained v = true
      · simp only [hc, ↓reduceIte]
        have fr := dec_frame FT fuel (kill s v) (v+1)
        exact kill_reclaim_facts s _ v (ih (kill s v) (v+1)) (by rw [fr.1]; rfl) (by rw [fr.2.1]; rfl)
      · simp only [hc]
        exact kill_reclaim_facts s _ v (DecFacts.rfl' _ _) rfl rfl

/-! ### frames of the events -/

theorem release_frame (F : Nat → Nat → Prop) (s : St) (v : Nat) :
    (release F s v).N = s.N ∧ (release F s v).tree = s.tree ∧
    (release F s v).hp = (dropHolder s v).hp ∧ (∀ u, u < v → (release F s v).refs u = s.refs u) :=
  dec_frame F (s.N + 1) (dropHolder s v) v

theorem mutate_frame (F : Nat → Nat → Prop) (s : St) (R Rn New T : Nat → Prop) :
    (mutate F s R Rn New T).N = s.N + 1 ∧
    (mutate F s R Rn New T).tree = (publish s R Rn New T).tree ∧
    (mutate F s R Rn New T).hp = (publish s R Rn New T).hp ∧
    (∀ u, u < s.N → (mutate F s R Rn New T).refs u = s.refs u) := by
  have fr := dec_frame F (s.N + 2) (publish s R Rn New T) s.N
  refine ⟨fr.1, fr.2.1, fr.2.2.1, ?_⟩
  intro u hu
  have := fr.2.2.2 u hu
  unfold mutate; rw [this]
  have h1 : u ≠ s.N + 1 := by omega
  have h2 : u ≠ s.N := by omega
  simp [publish, h1, h2]

theorem publish_mark_cases (s : St) (R Rn New T : Nat → Prop) (n u : Nat)
    (h : (publish s R Rn New T).mark n = some u) :
    (R n ∧ u = s.N) ∨ (¬ R n ∧ (Rn n ∨ T n) ∧ u = s.N + 1) ∨ (¬ R n ∧ ¬ (Rn n ∨ T n) ∧ s.mark n = some u) := by
  by_cases hR : R n
  · left; simp [publish, hR] at h; exact ⟨hR, h.symm⟩
  · by_cases hT : Rn n ∨ T n
    · right; left; simp [publish, hR, hT] at h; exact ⟨hR, hT, h.symm⟩
    · right; right; simp [publish, hR, hT] at h; exact ⟨hR, hT, h⟩

theorem publish_mark_some (s : St) (R Rn New T : Nat → Prop) (n u : Nat) (h : s.mark n = some u) :
    ∃ w, (publish s R Rn New T).mark n = some w := by
  by_cases hR : R n
  · exact ⟨s.N, by simp [publish, hR]⟩
  · by_cases hT : Rn n ∨ T n
    · exact ⟨s.N + 1, by simp [publish, hR, hT]⟩
    · exact ⟨u, by simp [publish, hR, hT, h]⟩

/-! ### preservation of the leak invariant -/

theorem release_linv {s : St} (hl : LInv s) (v : Nat) : LInv (release FT s v) := by
  have fr := release_frame FT s v
  have fc : DecFacts (dropHolder s v) (release FT s v) v := dec_facts (s.N + 1) (dropHolder s v) v
  refine ⟨?_, ?_, ?_, ?_⟩
  · intro n u hm
    rw [fr.1]
    rcases fc.new n u hm with h | ⟨_, e, _, _⟩
    · exact hl.mark_born n u h
    · have : u = s.N := e
      omega
  · intro n u hm hr
    by_cases hle : v ≤ u
    · exact fc.dead_freed (fun n' u' _ hm' hr' => hl.dead_freed n' u' hm' hr') n u hle hm hr
    · rw [fr.2.2.2 u (by omega)] at hr
      rcases fc.new n u hm with h | ⟨_, _, hle', _⟩
      · exact fc.freed_mono n (hl.dead_freed n u h hr)
      · omega
  · intro hr n ht
    rw [fr.1] at hr ht; rw [fr.2.1] at ht
    exact fc.last_marked hl.last_marked hr n ht
  · intro n hf
    rcases fc.freed_new n hf with h | h
    · obtain ⟨u, hu⟩ := hl.freed_marked n h
      exact ⟨u, fc.keep n u hu⟩
    · exact h

theorem acquire_linv {s : St} (h : HInv s) (hl : LInv s) (v : Nat) (hv : s.hp v > 0) :
    LInv (acquire s v) := by
  have hrv : s.refs v > 0 := by have := h.acct v; omega
  have hz : ∀ u, (acquire s v).refs u = 0 → s.refs u = 0 := by
    intro u hu
    have hu' : (if u = v then s.refs v + 1 else s.refs u) = 0 := hu
    by_cases e : u = v
    · simp [e] at hu'
    · simpa [e] using hu'
  exact ⟨hl.mark_born, fun n u hm hr => hl.dead_freed n u hm (hz u hr),
    fun hr n ht => hl.last_marked (hz _ hr) n ht, hl.freed_marked⟩

theorem load_linv {s : St} (h : HInv s) (hl : LInv s) (p x : Nat) (g : GLive s p) :
    LInv (load s p x) := by
  refine ⟨hl.mark_born, hl.dead_freed, ?_, hl.freed_marked⟩
  intro hr n ht
  rcases ht with ht | ⟨_, _⟩
  · exact hl.last_marked hr n ht
  · -- a live version exists, so the last version is live: contradiction
    obtain ⟨w, hw, htw⟩ := g
    have hwN : w ≤ s.N := by
      by_cases hgt : w > s.N
      · exact absurd htw ((h.above w hgt).2.2 p)
      · omega
    have := live_up h (s.N - w) w hw (by omega)
    have e : w + (s.N - w) = s.N := by omega
    rw [e] at this
    have hr' : s.refs s.N = 0 := hr
    omega

theorem mutate_linv {s : St} (h : HInv s) (hl : LInv s) {R Rn New T : Nat → Prop}
    (m : MutPre s R Rn New T) : LInv (mutate FT s R Rn New T) := by
  have fr := mutate_frame FT s R Rn New T
  have fc : DecFacts (publish s R Rn New T) (mutate FT s R Rn New T) s.N :=
    dec_facts (s.N + 2) (publish s R Rn New T) s.N
  have hpN : (publish s R Rn New T).N = s.N + 1 := rfl
  have hlive : s.refs s.N > 0 := by have := h.acct s.N; have := m.holder; omega
  have hp_refsN : (publish s R Rn New T).refs s.N = s.refs s.N := by simp [publish]
  have hp_refsN1 : (publish s R Rn New T).refs (s.N + 1) > 0 := by simp [publish]; omega
  have hp_born : ∀ n u, (publish s R Rn New T).mark n = some u → u ≤ s.N + 1 := by
    intro n u hm
    rcases publish_mark_cases s R Rn New T n u hm with ⟨_, e⟩ | ⟨_, _, e⟩ | ⟨_, _, hm'⟩
    · omega
    · omega
    · have := hl.mark_born n u hm'; omega
  refine ⟨?_, ?_, ?_, ?_⟩
  · intro n u hm
    rw [fr.1]
    rcases fc.new n u hm with h1 | ⟨_, e, _, _⟩
    · exact hp_born n u h1
    · rw [hpN] at e; omega
  · intro n u hm hr
    by_cases hle : s.N ≤ u
    · refine fc.dead_freed ?_ n u hle hm hr
      intro n' u' hle' hm' hr'
      have hb := hp_born n' u' hm'
      by_cases e1 : u' = s.N
      · rw [e1, hp_refsN] at hr'; omega
      · have e2 : u' = s.N + 1 := by omega
        rw [e2] at hr'; omega
    · rw [fr.2.2.2 u (by omega)] at hr
      rcases fc.new n u hm with h1 | ⟨_, e, _, _⟩
      · apply fc.freed_mono
        show s.freed n
        rcases publish_mark_cases s R Rn New T n u h1 with ⟨_, e⟩ | ⟨_, _, e⟩ | ⟨_, _, hm'⟩
        · omega
        · omega
        · exact hl.dead_freed n u hm' hr
      · rw [hpN] at e; omega
  · intro hr n ht
    rw [fr.1] at hr ht
    have hpre : (publish s R Rn New T).refs (publish s R Rn New T).N = 0 →
        ∀ n, (publish s R Rn New T).tree (publish s R Rn New T).N n → (publish s R Rn New T).mark n ≠ none := by
      intro h0; rw [hpN] at h0; omega
    rw [fr.2.1] at ht
    exact fc.last_marked hpre hr n ht
  · intro n hf
    rcases fc.freed_new n hf with h1 | h1
    · have h1' : s.freed n := h1
      obtain ⟨u, hu⟩ := hl.freed_marked n h1'
      obtain ⟨w, hw⟩ := publish_mark_some s R Rn New T n u hu
      exact ⟨w, fc.keep n w hw⟩
    · exact h1

/-- forgetting the guard: a guarded run is a run of Versions.lean (so `HInv` and `safe_reachable` apply) -/
theorem reachG_reach {G : St → Nat → Prop} {s : St} (hr : ReachG G s) : Reach FT s := by
  induction hr with
  | init => exact Reach.init 0
  | acquire _ hv ih => exact Reach.acquire ih hv
  | release _ hv ih => exact Reach.release ih hv
  | load _ _ hm hf ih => exact Reach.load ih hm hf
  | mutate _ m ih => exact Reach.mutate ih m

theorem reachG_hinv {G : St → Nat → Prop} {s : St} (hr : ReachG G s) : HInv s :=
  reach_inv FT s (reachG_reach hr)

/-- the leak invariant holds in every state reachable with loads under live parents -/
theorem reachG_linv {G : St → Nat → Prop} (hG : ∀ s p, G s p → GLive s p) {s : St}
    (hr : ReachG G s) : LInv s := by
  induction hr with
  | init =>
    refine ⟨?_, ?_, ?_, ?_⟩
    · intro n v hm; simp [init0] at hm
    · intro n v hm; simp [init0] at hm
    · intro _ n ht; simp [init0] at ht
    · intro n hf; simp [init0] at hf
  | acquire hs hv ih => exact acquire_linv (reachG_hinv hs) ih _ hv
  | release _ _ ih => exact release_linv ih _
  | load hs g _ _ ih => exact load_linv (reachG_hinv hs) ih _ _ (hG _ _ g)
  | mutate hs m ih => exact mutate_linv (reachG_hinv hs) ih m

/-- with loads only under parents that have not been replaced, unmarked nodes are shared with the current version -/
theorem reachG_shared {G : St → Nat → Prop} (hG : ∀ s p, G s p → s.mark p = none) {s : St}
    (hr : ReachG G s) : Shared s := by
  induction hr with
  | init => intro u n ht; simp [init0] at ht
  | acquire _ _ ih => exact ih
  | @release s v _ _ ih =>
    intro u n ht hm
    have fr := release_frame FT s v
    have fc : DecFacts (dropHolder s v) (release FT s v) v := dec_facts (s.N + 1) (dropHolder s v) v
    rw [fr.2.1] at ht; rw [fr.1, fr.2.1]
    apply ih u n ht
    cases hms : s.mark n with
    | none => rfl
    | some w => have := fc.keep n w hms; rw [this] at hm; cases hm
  | @load s p x _ g _ _ ih =>
    intro u n ht hm
    have hpm := hG _ _ g
    rcases ht with ht | ⟨e, htp⟩
    · exact Or.inl (ih u n ht hm)
    · exact Or.inr ⟨e, ih u p htp hpm⟩
  | @mutate s R Rn New T _ m ih =>
    intro u n ht hm
    have fr := mutate_frame FT s R Rn New T
    have fc : DecFacts (publish s R Rn New T) (mutate FT s R Rn New T) s.N :=
      dec_facts (s.N + 2) (publish s R Rn New T) s.N
    rw [fr.2.1] at ht; rw [fr.1, fr.2.1]
    have hpm : (publish s R Rn New T).mark n = none := by
      cases hms : (publish s R Rn New T).mark n with
      | none => rfl
      | some w => have := fc.keep n w hms; rw [this] at hm; cases hm
    by_cases hR : R n
    · simp [publish, hR] at hpm
    · by_cases hT : Rn n ∨ T n
      · simp [publish, hR, hT] at hpm
      · have hsm : s.mark n = none := by simpa [publish, hR, hT] using hpm
        by_cases e : u = s.N + 1
        · subst e; exact ht
        · have htu : s.tree u n := by simpa [publish, e] using ht
          have := ih u n htu hsm
          show (publish s R Rn New T).tree (s.N + 1) n
          have hRn : ¬ Rn n := fun h => hT (Or.inl h)
          simp [publish]
          exact Or.inl ⟨this, hR, hRn⟩

/-! ### the theorems -/

/-- EVERY VERSION DIES: once all handles, snapshots and pins are gone (`hp = 0` everywhere) every reference
    count of the lineage is zero — no version is kept alive by a chain alone. -/
theorem no_holders_no_refs {s : St} (h : HInv s) (h0 : ∀ v, s.hp v = 0) : ∀ v, s.refs v = 0 := by
  intro v
  induction v with
  | zero => have := h.acct 0; simp [chainIn] at this; rw [this]; exact h0 0
  | succ v ih =>
    have hac := h.acct (v+1)
    have : chainIn s (v+1) = 0 := by
      unfold chainIn
      by_cases hc : s.chained v = true
      · have := h.chained_live v hc; omega
      · simp [hc]
    rw [hac, this, h0 (v+1)]

/-- MARKED NODES DO NOT LEAK (includes the temporaries `T`, which are in no tree): in every reachable state a node
    that carries the mark of a dead version is on the free list. -/
theorem marked_dead_freed {G : St → Nat → Prop} (hG : ∀ s p, G s p → GLive s p) {s : St}
    (hr : ReachG G s) : ∀ n v, s.mark n = some v → s.refs v = 0 → s.freed n :=
  (reachG_linv hG hr).dead_freed

/-- THE LAST VERSION DOES NOT LEAK (what `markAllUnlocked` is for): once the never-superseded version N of a
    collection is dead, every node of its tree is on the free list. -/
theorem last_version_freed {G : St → Nat → Prop} (hG : ∀ s p, G s p → GLive s p) {s : St}
    (hr : ReachG G s) (hN : s.refs s.N = 0) : ∀ n, s.tree s.N n → s.freed n := by
  intro n ht
  have hl := reachG_linv hG hr
  have hh := reachG_hinv hr
  cases hm : s.mark n with
  | none => exact absurd hm (hl.last_marked hN n ht)
  | some v =>
    have h1 := hl.mark_born n v hm
    have h2 := hh.mark_le n v s.N hm ht
    have : v = s.N := by omega
    subst this
    exact hl.dead_freed n _ hm hN

/-- ALL CLOSED, STRONGEST TRUE FORM for the code's loads (`GLive`): once every reference count is zero, every node
    that was ever in a tree is on the free list — or it is an orphan: never marked and not in the last tree
    (it was loaded under a node that had already been replaced; see `leak_example`). -/
theorem all_closed_freed_or_orphan {G : St → Nat → Prop} (hG : ∀ s p, G s p → GLive s p) {s : St}
    (hr : ReachG G s) (h0 : ∀ v, s.refs v = 0) :
    ∀ n, (∃ v, s.tree v n) → s.freed n ∨ orphan s n := by
  intro n hex
  have hl := reachG_linv hG hr
  cases hm : s.mark n with
  | some v => exact Or.inl (hl.dead_freed n v hm (h0 v))
  | none =>
    right
    refine ⟨hex, hm, ?_⟩
    intro ht
    exact hl.last_marked (h0 s.N) n ht hm

/-- orphans are never freed: nothing but a mark puts a node on the free list -/
theorem orphan_not_freed {G : St → Nat → Prop} (hG : ∀ s p, G s p → GLive s p) {s : St}
    (hr : ReachG G s) (n : Nat) (ho : orphan s n) : ¬ s.freed n := by
  intro hf
  obtain ⟨v, hv⟩ := (reachG_linv hG hr).freed_marked n hf
  rw [ho.2.1] at hv; cases hv

/-- LEAK FREEDOM (`all_closed_all_freed`) when no node is loaded under an already replaced node (`GStrict`):
    once every reference count is zero, every node that was ever in a tree is on the free list. -/
theorem all_closed_all_freed {s : St} (hr : ReachG GStrict s) (h0 : ∀ v, s.refs v = 0) :
    ∀ n, (∃ v, s.tree v n) → s.freed n := by
  intro n hex
  rcases all_closed_freed_or_orphan (fun _ _ g => g.1) hr h0 n hex with h | ho
  · exact h
  · obtain ⟨v, hv⟩ := ho.1
    exact absurd (reachG_shared (fun _ _ g => g.2) hr v n hv ho.2.1) ho.2.2

/-- the same in terms of `alloc`: after all closes nothing handed out for this lineage is still allocated -/
theorem all_closed_nothing_allocated {s : St} (hr : ReachG GStrict s) (h0 : ∀ v, s.refs v = 0) :
    ∀ n, ¬ alloc s n := by
  intro n ⟨hk, hnf⟩
  rcases hk with hex | ⟨v, hm⟩
  · exact hnf (all_closed_all_freed hr h0 n hex)
  · exact hnf (marked_dead_freed (fun _ _ g => g.1) hr n v hm (h0 v))

/-- with the code's loads: after all closes the allocated nodes are exactly the orphans -/
theorem all_closed_alloc_iff_orphan {G : St → Nat → Prop} (hG : ∀ s p, G s p → GLive s p) {s : St}
    (hr : ReachG G s) (h0 : ∀ v, s.refs v = 0) : ∀ n, alloc s n ↔ orphan s n := by
  intro n
  constructor
  · intro ⟨hk, hnf⟩
    rcases hk with hex | ⟨v, hm⟩
    · rcases all_closed_freed_or_orphan hG hr h0 n hex with h | h
      · exact absurd h hnf
      · exact h
    · exact absurd (marked_dead_freed hG hr n v hm (h0 v)) hnf
  · intro ho
    exact ⟨Or.inl ho.1, orphan_not_freed hG hr n ho⟩

/-! ### `known` really is "was ever handed out": no event removes a node from a tree or erases a mark -/

theorem known_acquire (s : St) (v n : Nat) (h : known s n) : known (acquire s v) n := h

theorem known_load (s : St) (p x n : Nat) (h : known s n) : known (load s p x) n := by
  rcases h with ⟨v, hv⟩ | h
  · exact Or.inl ⟨v, Or.inl hv⟩
  · exact Or.inr h

theorem known_release (s : St) (v n : Nat) (h : known s n) : known (release FT s v) n := by
  have fr := release_frame FT s v
  have fc : DecFacts (dropHolder s v) (release FT s v) v := dec_facts (s.N + 1) (dropHolder s v) v
  rcases h with ⟨w, hw⟩ | ⟨w, hw⟩
  · exact Or.inl ⟨w, by rw [fr.2.1]; exact hw⟩
  · exact Or.inr ⟨w, fc.keep n w hw⟩

theorem known_mutate (s : St) (R Rn New T : Nat → Prop) (n : Nat) (hab : ∀ w, w > s.N → ¬ s.tree w n)
    (h : known s n) : known (mutate FT s R Rn New T) n := by
  have fr := mutate_frame FT s R Rn New T
  have fc : DecFacts (publish s R Rn New T) (mutate FT s R Rn New T) s.N :=
    dec_facts (s.N + 2) (publish s R Rn New T) s.N
  rcases h with ⟨w, hw⟩ | ⟨w, hw⟩
  · refine Or.inl ⟨w, ?_⟩
    rw [fr.2.1]
    have : w ≠ s.N + 1 := fun e => hab w (by omega) hw
    simp [publish, this]; exact hw
  · obtain ⟨u, hu⟩ := publish_mark_some s R Rn New T n w hw
    exact Or.inr ⟨u, fc.keep n u hu⟩

/-! ### the leak -/

theorem mutate_mark_none (s : St) (R Rn New T : Nat → Prop) (n : Nat) (hm : s.mark n = none)
    (hR : ¬ R n) (hRn : ¬ Rn n) (hT : ¬ T n) (ht : ¬ (publish s R Rn New T).tree (s.N + 1) n) :
    (mutate FT s R Rn New T).mark n = none := by
  have fc : DecFacts (publish s R Rn New T) (mutate FT s R Rn New T) s.N :=
    dec_facts (s.N + 2) (publish s R Rn New T) s.N
  cases h : (mutate FT s R Rn New T).mark n with
  | none => rfl
  | some u =>
    rcases fc.new n u h with h1 | ⟨_, _, _, h2⟩
    · rcases publish_mark_cases s R Rn New T n u h1 with ⟨a, _⟩ | ⟨_, a, _⟩ | ⟨_, _, a⟩
      · exact absurd a hR
      · rcases a with a | a
        · exact absurd a hRn
        · exact absurd a hT
      · rw [hm] at a; cases a
    · exact absurd h2 ht

theorem release_mark_none (s : St) (v n : Nat) (hm : s.mark n = none) (ht : ¬ s.tree s.N n) :
    (release FT s v).mark n = none := by
  have fc : DecFacts (dropHolder s v) (release FT s v) v := dec_facts (s.N + 1) (dropHolder s v) v
  cases h : (release FT s v).mark n with
  | none => rfl
  | some u =>
    rcases fc.new n u h with h1 | ⟨_, _, _, h2⟩
    · have h1' : s.mark n = some u := h1
      rw [hm] at h1'; cases h1'
    · exact absurd h2 ht

def nobody : Nat → Prop := fun _ => False
def only (a : Nat) : Nat → Prop := fun n => n = a

/-- The leaking history (node 0 = `p`, node 1 = `x`):
    1. `mutate ∅ ∅ {p} ∅`   SetItem: version 1 with tree {p}
    2. `acquire 1`           a snapshot / reader pins version 1
    3. `mutate {p} ∅ ∅ ∅`   Delete (or SetItem replacing p): p is marked with version 1's mark, version 2 published,
                             version 1 stays alive (chained) because of the snapshot
    4. `load p x`            the snapshot's reader lazily loads the child x of the replaced node p
    5. `release 1`           the snapshot is closed: version 1 dies, p (marked 1) is freed, x is not marked
    6. `release 2`           the collection is closed: version 2 dies and marks its own tree, which does not contain x -/
noncomputable def L1 : St := mutate FT init0 nobody nobody (only 0) nobody
noncomputable def L2 : St := acquire L1 1
noncomputable def L3 : St := mutate FT L2 (only 0) nobody nobody nobody
noncomputable def L4 : St := load L3 0 1
noncomputable def L5 : St := release FT L4 1
noncomputable def L6 : St := release FT L5 2

theorem L1_N : L1.N = 1 := (mutate_frame FT init0 nobody nobody (only 0) nobody).1
theorem L1_tree (w n : Nat) : L1.tree w n ↔ (w = 1 ∧ n = 0) := by
  unfold L1; rw [(mutate_frame FT init0 nobody nobody (only 0) nobody).2.1]
  by_cases hw : w = 1
  · subst hw; simp [publish, init0, only, nobody]
  · simp [publish, init0, hw]
theorem L1_hp (w : Nat) : L1.hp w = if w = 1 then 1 else 0 := by
  unfold L1; rw [(mutate_frame FT init0 nobody nobody (only 0) nobody).2.2.1]
  by_cases hw : w = 1
  · subst hw; simp [publish, init0]
  · by_cases h0 : w = 0
    · subst h0; simp [publish, init0]
    · simp [publish, init0, hw, h0]
theorem L1_mark1 : L1.mark 1 = none := by
  apply mutate_mark_none <;> simp [nobody, only, init0, publish]

theorem L1_pre : MutPre init0 nobody nobody (only 0) nobody := by
  refine ⟨by simp [init0], fun n h => h.elim, fun n h => h.elim, ?_, fun n h => h.elim⟩
  intro n _
  simp [init0, nobody]

theorem L2_N : L2.N = 1 := L1_N
theorem L2_tree (w n : Nat) : L2.tree w n ↔ (w = 1 ∧ n = 0) := L1_tree w n
theorem L2_hp (w : Nat) : L2.hp w = if w = 1 then 2 else 0 := by
  show (if w = 1 then L1.hp 1 + 1 else L1.hp w) = _
  rw [L1_hp, L1_hp]
  by_cases hw : w = 1 <;> simp [hw]
theorem L2_mark1 : L2.mark 1 = none := L1_mark1

theorem L2_pre : MutPre L2 (only 0) nobody nobody nobody := by
  refine ⟨?_, ?_, fun n h => h.elim, fun n h => h.elim, fun n h => h.elim⟩
  · rw [L2_N, L2_hp]; simp
  · intro n hn
    rw [L2_N, L2_tree]; exact ⟨rfl, hn⟩

theorem L3_N : L3.N = 2 := by
  have := (mutate_frame FT L2 (only 0) nobody nobody nobody).1
  rw [L2_N] at this; exact this
theorem L3_tree (w n : Nat) : L3.tree w n ↔ (w = 1 ∧ n = 0) := by
  unfold L3; rw [(mutate_frame FT L2 (only 0) nobody nobody nobody).2.1]
  by_cases hw : w = 2
  · subst hw
    simp [publish, L2_N, L2_tree, only, nobody]
  · have : (publish L2 (only 0) nobody nobody nobody).tree w n = L2.tree w n := by
      simp [publish, L2_N, hw]
    rw [this, L2_tree]
theorem L3_hp (w : Nat) : L3.hp w = if w = 1 then 1 else if w = 2 then 1 else 0 := by
  unfold L3; rw [(mutate_frame FT L2 (only 0) nobody nobody nobody).2.2.1]
  by_cases h2 : w = 2
  · subst h2; simp [publish, L2_N]
  · by_cases h1 : w = 1
    · subst h1; simp [publish, L2_N, L2_hp]
    · simp [publish, L2_N, L2_hp, h1, h2]
theorem L3_mark1 : L3.mark 1 = none := by
  apply mutate_mark_none
  · exact L2_mark1
  · simp [only]
  · simp [nobody]
  · simp [nobody]
  · simp [publish, L2_N, L2_tree, nobody]

theorem L4_N : L4.N = 2 := L3_N
theorem L4_tree (w n : Nat) : L4.tree w n ↔ (w = 1 ∧ (n = 0 ∨ n = 1)) := by
  show (L3.tree w n ∨ (n = 1 ∧ L3.tree w 0)) ↔ _
  rw [L3_tree, L3_tree]
  constructor
  · rintro (⟨a, b⟩ | ⟨a, b, _⟩)
    · exact ⟨a, Or.inl b⟩
    · exact ⟨b, Or.inr a⟩
  · rintro ⟨a, b | b⟩
    · exact Or.inl ⟨a, b⟩
    · exact Or.inr ⟨b, a, rfl⟩
theorem L4_hp (w : Nat) : L4.hp w = if w = 1 then 1 else if w = 2 then 1 else 0 := L3_hp w
theorem L4_mark1 : L4.mark 1 = none := L3_mark1

theorem L5_N : L5.N = 2 := by rw [L5, (release_frame FT L4 1).1, L4_N]
theorem L5_tree (w n : Nat) : L5.tree w n ↔ (w = 1 ∧ (n = 0 ∨ n = 1)) := by
  rw [L5, (release_frame FT L4 1).2.1]; exact L4_tree w n
theorem L5_hp (w : Nat) : L5.hp w = if w = 2 then 1 else 0 := by
  rw [L5, (release_frame FT L4 1).2.2.1]
  show (if w = 1 then L4.hp 1 - 1 else L4.hp w) = _
  rw [L4_hp, L4_hp]
  by_cases h1 : w = 1
  · subst h1; simp
  · simp [h1]
theorem L5_mark1 : L5.mark 1 = none := by
  apply release_mark_none _ _ _ L4_mark1
  rw [L4_N, L4_tree]; simp

theorem L6_N : L6.N = 2 := by rw [L6, (release_frame FT L5 2).1, L5_N]
theorem L6_tree (w n : Nat) : L6.tree w n ↔ (w = 1 ∧ (n = 0 ∨ n = 1)) := by
  rw [L6, (release_frame FT L5 2).2.1]; exact L5_tree w n
theorem L6_hp (w : Nat) : L6.hp w = 0 := by
  rw [L6, (release_frame FT L5 2).2.2.1]
  show (if w = 2 then L5.hp 2 - 1 else L5.hp w) = _
  rw [L5_hp, L5_hp]
  by_cases h2 : w = 2
  · subst h2; simp
  · simp [h2]
theorem L6_mark1 : L6.mark 1 = none := by
  apply release_mark_none _ _ _ L5_mark1
  rw [L5_N, L5_tree]; simp

theorem L3_reach : ReachG GLive L3 :=
  ReachG.mutate (ReachG.acquire (ReachG.mutate ReachG.init L1_pre) (by rw [L1_hp]; simp)) L2_pre

theorem L4_reach : ReachG GLive L4 := by
  refine ReachG.load L3_reach ?_ L3_mark1 ?_
  · -- the reader holds version 1, whose tree contains p
    refine ⟨1, ?_, (L3_tree 1 0).2 ⟨rfl, rfl⟩⟩
    have := (reachG_hinv L3_reach).acct 1
    rw [L3_hp] at this; simp at this; omega
  · intro hf
    obtain ⟨v, hv⟩ := (reachG_linv (fun _ _ g => g) L3_reach).freed_marked 1 hf
    rw [L3_mark1] at hv; cases hv

theorem L6_reach : ReachG GLive L6 :=
  ReachG.release (ReachG.release L4_reach (by rw [L4_hp]; simp)) (by rw [L5_hp]; simp)

/-- THE LEAK (`all_closed_all_freed` is false for the code's loads, even when a dying version frees every node
    carrying its mark): after the six events above every reference count is zero, node x = 1 is in the tree of
    version 1, and x is not on the free list — and no later event can free it (`orphan_not_freed`). -/
theorem leak_example :
    ReachG GLive L6 ∧ (∀ v, L6.refs v = 0) ∧ L6.tree 1 1 ∧ ¬ L6.freed 1 ∧ orphan L6 1 := by
  have ho : orphan L6 1 := by
    refine ⟨⟨1, (L6_tree 1 1).2 ⟨rfl, Or.inr rfl⟩⟩, L6_mark1, ?_⟩
    rw [L6_N, L6_tree]; simp
  exact ⟨L6_reach, no_holders_no_refs (reachG_hinv L6_reach) L6_hp, (L6_tree 1 1).2 ⟨rfl, Or.inr rfl⟩,
    orphan_not_freed (fun _ _ g => g) L6_reach 1 ho, ho⟩

/-- `all_closed_all_freed` as stated for the unguarded system of Versions.lean is FALSE, for `F := FT`. -/
theorem all_closed_all_freed_false :
    ¬ (∀ s, Reach FT s → (∀ v, s.refs v = 0) → ∀ n, (∃ v, s.tree v n) → s.freed n) := by
  intro h
  have l := leak_example
  exact l.2.2.2.1 (h L6 (reachG_reach l.1) l.2.1 1 ⟨1, l.2.2.1⟩)

end Gkv.VersionsLeak

#print axioms Gkv.VersionsLeak.dec_facts
#print axioms Gkv.VersionsLeak.no_holders_no_refs
#print axioms Gkv.VersionsLeak.marked_dead_freed
#print axioms Gkv.VersionsLeak.last_version_freed
#print axioms Gkv.VersionsLeak.all_closed_freed_or_orphan
#print axioms Gkv.VersionsLeak.orphan_not_freed
#print axioms Gkv.VersionsLeak.all_closed_all_freed
#print axioms Gkv.VersionsLeak.all_closed_nothing_allocated
#print axioms Gkv.VersionsLeak.all_closed_alloc_iff_orphan
#print axioms Gkv.VersionsLeak.known_mutate
#print axioms Gkv.VersionsLeak.leak_example
#print axioms Gkv.VersionsLeak.all_closed_all_freed_false

/-
`#print axioms` output (lean 4.33, `lake env lean Gkv/Proofs/VersionsLeak.lean`):

'Gkv.VersionsLeak.dec_facts' depends on axioms: [propext, Classical.choice, Quot.sound]
'Gkv.VersionsLeak.no_holders_no_refs' depends on axioms: [propext, Quot.sound]
'Gkv.VersionsLeak.marked_dead_freed' depends on axioms: [propext, Classical.choice, Quot.sound]
'Gkv.VersionsLeak.last_version_freed' depends on axioms: [propext, Classical.choice, Quot.sound]
'Gkv.VersionsLeak.all_closed_freed_or_orphan' depends on axioms: [propext, Classical.choice, Quot.sound]
'Gkv.VersionsLeak.orphan_not_freed' depends on axioms: [propext, Classical.choice, Quot.sound]
'Gkv.VersionsLeak.all_closed_all_freed' depends on axioms: [propext, Classical.choice, Quot.sound]
'Gkv.VersionsLeak.all_closed_nothing_allocated' depends on axioms: [propext, Classical.choice, Quot.sound]
'Gkv.VersionsLeak.all_closed_alloc_iff_orphan' depends on axioms: [propext, Classical.choice, Quot.sound]
'Gkv.VersionsLeak.known_mutate' depends on axioms: [propext, Classical.choice, Quot.sound]
'Gkv.VersionsLeak.leak_example' depends on axioms: [propext, Classical.choice, Quot.sound]
'Gkv.VersionsLeak.all_closed_all_freed_false' depends on axioms: [propext, Classical.choice, Quot.sound]

REPORT

`all_closed_all_freed` as asked is FALSE (`all_closed_all_freed_false`), for the model with the code's loads and even
with `F := FT`.  `leak_example` is the shortest leaking history (2 mutations are needed to have a replaced node,
1 acquire to keep its version alive, 1 load, 2 releases to close everything).

The Go code path (a REAL leak in /repo, reproduced with counting ItemAlloc/ItemAddRef/ItemDecRef callbacks):
  * treap.go `split`, case `c == 0`, returns COPIES of `nNode.left` / `nNode.right` (`mkNodeLoc(nil).Copy(..)`).
    If a child is not loaded yet (`loc` set, `node == nil`), `join` (Delete) / `union` (SetItem on an existing key
    whose new priority is higher than the stored one) load it INTO THE COPY, so the new version gets its own
    child node and `M.left.node` / `M.right.node` of the replaced node M stay nil.  M is marked (Delete: new
    version's mark via reclaimLater[2]; SetItem: `markReclaimable(middleNode)`).
  * A reader that still holds the old version (snapshot, pinned visit/GetItem) descends through M and
    `nodeLoc.read` loads a private child x into `M.left.node` (`populateNode`, item via `ItemAlloc`).  This is the
    model's `load p x` with `mark p ≠ none`.
  * x is unmarked and in no newer tree.  When M's version dies `reclaimNodesUnlocked` frees M and stops at x
    (`n.next != reclaimMark`); `markAllUnlocked` is not run because the version is `superseded`.  x (and all that the
    reader loaded below it) is never passed to `freeNodeUnlocked`: never on the free list, its item never gets
    `ItemDecRef`.
  * Experiment: 64 items, Flush, re-open with counting callbacks, `snap := s.Snapshot()`, `Delete(root key)`,
    `GetItem` of every key through `snap` (caller releases what it gets), `snap.Close()`, `s.Close()`:
    63 references outstanding; the same reads through the main store: 0.

What IS true (all proved above, for `F := FT`, loads under live parents = `GLive`):
  * `no_holders_no_refs`      all handles/pins gone ⇒ every reference count is zero (no version kept alive by a chain);
  * `marked_dead_freed`       every node carrying the mark of a dead version is freed (this covers `mutate`'s `R`, `Rn`
                              and the temporaries `T`);
  * `last_version_freed`      the whole tree of the last version of a closed collection is freed (`markAllUnlocked`);
  * `all_closed_freed_or_orphan`, `all_closed_alloc_iff_orphan`
                              after all closes the allocated nodes are EXACTLY the orphans (loaded under a replaced
                              node), and orphans are never freed (`orphan_not_freed`);
  * `all_closed_all_freed`    full leak freedom when no node is loaded under an already marked node (`GStrict`).

Model vs. code, further remarks:
  * `F`: the code frees the nodes reached by `reclaimNodesUnlocked` from the version's root and `reclaimLater`,
    following nodes that carry the mark.  `FT` frees every node carrying the mark.  They agree when the marked
    nodes of a version are connected to its root / reclaimLater through marked nodes — true for what
    `union/split/join` + `reclaimMarkUpdate` mark (path copying marks a root-closed set; `reclaimMarkUpdate` moves
    whole marked chains below `left/right/middle`), but that is a treap-shape argument not contained in model H.
  * `Versions.load` has no guard at all (it even allows loading under a freed node of a dead version, which gives
    a 4-event "leak" that no code path has); the theorems here use the guard `GLive`.
  * A node of the model's `T` that was never marked (SetItem's new node when it becomes part of the new tree) is in
    `New`, not in `T`; `reclaimLater[0]` then points into the live tree and `reclaimNodesUnlocked` skips it because
    it is unmarked — consistent with the model.
-/
