/-
Property C02 — "a successful Flush makes the entire store state durable".

`Tree.Coherent f bound t`: whatever part of `t` carries a file location decodes, from the bytes of
`f` below `bound`, to what is cached in memory.  Flush (`writeTree`, `flushColls`, `flushStore`
without a write fault) turns coherent trees into coherent *persisted* trees, and a coherent
persisted tree is exactly what lazy loading (`loadTree`) reads back.  Hence `flush_then_open`:
re-opening the file that a successful `flushStore` produced yields the flushed collections.
-/
import Gkv.Proofs.Codec
import Gkv.Proofs.Scan
import Gkv.Proofs.FlushFrame
open Std

namespace Gkv

/-! ### definitions -/

/-- sizes within which the codecs round-trip (Go uses uint32 lengths, uint64 aggregates) -/
def ItemOK (i : Item) : Prop :=
  i.key.length < 2^32 ∧ i.val.length < 2^32 ∧ i.prio < 2^32 ∧
    itemHdrLen + i.key.length + i.val.length < 2^32

def Tree.SizesOK : Tree → Prop
  | .nil => True
  | .node l i a b r _ _ => ItemOK i ∧ a < 2^64 ∧ b < 2^64 ∧ l.SizesOK ∧ r.SizesOK

/-- the slot is empty or points at a persisted node -/
def Tree.Persisted : Tree → Prop
  | .nil => True
  | .node _ _ _ _ _ p _ => p.isSome

/-- the item record of `i` sits at `il`, wholly below `bound`, and decodes to `i` -/
def ItemAt (f : Bytes) (bound : Nat) (i : Item) (il : Ploc) : Prop :=
  il.len = itemRecLen i ∧ il.off + il.len ≤ bound ∧ decItem f il = some i

/-- a node record sits at `loc`, wholly below `bound`, and decodes to `n` -/
def NodeAt (f : Bytes) (bound : Nat) (n : NodeRec) (loc : Ploc) : Prop :=
  loc.len = nodeRecLen ∧ loc.off + loc.len ≤ bound ∧ decNode f loc = some n

/-- "whatever has a location decodes, from file `f` below `bound`, to what is cached":
    a node WITH a location: its record at that location decodes to (its item's location, its
    children's slot locations, its aggregates), its item has a location, its children are
    persisted; in any case the item, if it has a location, decodes from there; recursively. -/
def Tree.Coherent (f : Bytes) (bound : Nat) : Tree → Prop
  | .nil => True
  | .node l i a b r p q =>
    l.Coherent f bound ∧ r.Coherent f bound ∧
    (∀ il, q = some il → ItemAt f bound i il) ∧
    (∀ loc, p = some loc →
      NodeAt f bound ⟨q, l.slotLoc, r.slotLoc, a, b⟩ loc ∧ q.isSome ∧ l.Persisted ∧ r.Persisted)

/-- `writeItems` is done: every node that still lacks a location has its item on file -/
def Tree.ItemsDone : Tree → Prop
  | .nil => True
  | .node l _ _ _ r p q => p.isSome ∨ (q.isSome ∧ l.ItemsDone ∧ r.ItemsDone)

/-- depth of the tree: what the fuel of `loadTree` has to exceed -/
def Tree.height : Tree → Nat
  | .nil => 0
  | .node l _ _ _ r _ _ => Max.max l.height r.height + 1

theorem Tree.height_le_size : ∀ t : Tree, t.height ≤ t.size
  | .nil => Nat.le_refl _
  | .node l _ _ _ r _ _ => by
    have := Tree.height_le_size l
    have := Tree.height_le_size r
    simp only [Tree.height, Tree.size]
    omega

/-! ### reads below a bound -/

/-- every successful read of `f` below `bound` gives the same bytes on `g` -/
def ReadsAgree (f g : Bytes) (bound : Nat) : Prop :=
  ∀ off len b, off + len ≤ bound → readAt f off len = some b → readAt g off len = some b

theorem ReadsAgree.mono {f g : Bytes} {b b' : Nat} (h : ReadsAgree f g b) (hb : b' ≤ b) :
    ReadsAgree f g b' :=
  fun off len x hx hr => h off len x (Nat.le_trans hx hb) hr

theorem readsAgree_of_take (f g : Bytes) (bound : Nat) (hf : bound ≤ f.length)
    (hg : bound ≤ g.length) (h : g.take bound = f.take bound) : ReadsAgree f g bound := by
  intro off len b hle hr
  rw [← readAt_take g bound off len hle hg, h, readAt_take f bound off len hle hf]
  exact hr

theorem fc_readAt_length (f : Bytes) (off len : Nat) (b : Bytes) (h : readAt f off len = some b) :
    b.length = len := by
  unfold readAt at h
  split at h
  · injection h with h
    subst h
    rw [List.length_take, List.length_drop]
    omega
  · cases h

theorem decItem_mono (f g : Bytes) (bound : Nat) (il : Ploc) (i : Item)
    (hfg : ReadsAgree f g bound) (h : decItem f il = some i)
    (hle : il.off + itemRecLen i ≤ bound) : decItem g il = some i := by
  unfold decItem at h ⊢
  simp only [bind, Option.bind] at h ⊢
  split at h
  · cases h
  · rename_i hlen
    rw [if_neg hlen]
    cases h1 : readAt f il.off itemHdrLen with
    | none => rw [h1] at h; cases h
    | some hd =>
      rw [h1] at h
      dsimp only at h
      split at h
      · cases h
      · rename_i htot
        cases h2 : readAt f (il.off + itemHdrLen) (unbe ((hd.drop 4).take 4)) with
        | none => rw [h2] at h; cases h
        | some k =>
          rw [h2] at h
          dsimp only at h
          cases h3 : readAt f (il.off + itemHdrLen + unbe ((hd.drop 4).take 4))
              (unbe ((hd.drop 8).take 4)) with
          | none => rw [h3] at h; cases h
          | some v =>
            rw [h3] at h
            dsimp only at h
            injection h with h
            have hk := fc_readAt_length _ _ _ _ h2
            have hv := fc_readAt_length _ _ _ _ h3
            subst h
            simp only [itemRecLen] at hle
            rw [hfg _ _ _ (by omega) h1]
            dsimp only
            rw [if_neg htot, hfg _ _ _ (by omega) h2]
            dsimp only
            rw [hfg _ _ _ (by omega) h3]

theorem decNode_mono (f g : Bytes) (bound : Nat) (loc : Ploc) (n : NodeRec)
    (hfg : ReadsAgree f g bound) (h : decNode f loc = some n)
    (hle : loc.off + nodeRecLen ≤ bound) : decNode g loc = some n := by
  unfold decNode at h ⊢
  simp only [bind, Option.bind] at h ⊢
  split at h
  · cases h
  · rename_i hlen
    rw [if_neg hlen]
    cases h1 : readAt f loc.off nodeRecLen with
    | none => rw [h1] at h; cases h
    | some b =>
      rw [h1] at h
      rw [hfg _ _ _ hle h1]
      exact h

theorem ItemAt.mono {f g : Bytes} {bound bound' : Nat} {i : Item} {il : Ploc}
    (h : ItemAt f bound i il) (hfg : ReadsAgree f g bound) (hb : bound ≤ bound') :
    ItemAt g bound' i il := by
  obtain ⟨h1, h2, h3⟩ := h
  exact ⟨h1, Nat.le_trans h2 hb, decItem_mono f g bound il i hfg h3 (by rw [← h1]; exact h2)⟩

theorem NodeAt.mono {f g : Bytes} {bound bound' : Nat} {n : NodeRec} {loc : Ploc}
    (h : NodeAt f bound n loc) (hfg : ReadsAgree f g bound) (hb : bound ≤ bound') :
    NodeAt g bound' n loc := by
  obtain ⟨h1, h2, h3⟩ := h
  exact ⟨h1, Nat.le_trans h2 hb, decNode_mono f g bound loc n hfg h3 (by rw [← h1]; exact h2)⟩

/-- coherence only looks at the bytes below `bound`, and `bound` may grow -/
theorem Tree.Coherent.mono {f g : Bytes} {bound bound' : Nat} {t : Tree}
    (hc : t.Coherent f bound) (hfg : ReadsAgree f g bound) (hb : bound ≤ bound') :
    t.Coherent g bound' := by
  induction t with
  | nil => trivial
  | node l i a b r p q ihl ihr =>
    obtain ⟨h1, h2, h3, h4⟩ := hc
    refine ⟨ihl h1, ihr h2, fun il hq => (h3 il hq).mono hfg hb, fun loc hp => ?_⟩
    obtain ⟨n1, n2, n3, n4⟩ := h4 loc hp
    exact ⟨n1.mono hfg hb, n2, n3, n4⟩

/-- coherence is monotone under appending / overwriting beyond `bound` -/
theorem coherent_of_prefix (f g : Bytes) (bound : Nat) (t : Tree) (hc : t.Coherent f bound)
    (hb : bound ≤ f.length) (hg : bound ≤ g.length) (h : g.take bound = f.take bound) :
    t.Coherent g bound :=
  hc.mono (readsAgree_of_take f g bound hb hg h) (Nat.le_refl _)

/-- coherence survives any append-only step of the file (`Frame` of `FlushFrame.lean`) -/
theorem Tree.Coherent.frame {s s' : FileSt} {t : Tree} (hc : t.Coherent s.bytes s.size)
    (hfr : Frame s s') (hsz : s.size ≤ s.bytes.length) : t.Coherent s'.bytes s'.size :=
  hc.mono (readsAgree_of_take _ _ _ hsz (Nat.le_trans hsz hfr.len)
    (hfr.pre s.size (Nat.le_refl _) hsz)) hfr.size_mono

theorem ItemAt.frame {s s' : FileSt} {i : Item} {il : Ploc} (hc : ItemAt s.bytes s.size i il)
    (hfr : Frame s s') (hsz : s.size ≤ s.bytes.length) : ItemAt s'.bytes s'.size i il :=
  hc.mono (readsAgree_of_take _ _ _ hsz (Nat.le_trans hsz hfr.len)
    (hfr.pre s.size (Nat.le_refl _) hsz)) hfr.size_mono

/-! ### lazy loading reads a coherent persisted tree back -/

theorem loadTree_of_coherent_height (f : Bytes) (bound : Nat) (t : Tree)
    (hc : t.Coherent f bound) (hp : t.Persisted) (fuel : Nat) (hf : t.height < fuel) :
    loadTree f fuel t.slotLoc = some t := by
  induction t generalizing fuel with
  | nil => cases fuel <;> rfl
  | node l i a b r p q ihl ihr =>
    cases p with
    | none => cases hp
    | some loc =>
      cases fuel with
      | zero => omega
      | succ fuel =>
        obtain ⟨h1, h2, h3, h4⟩ := hc
        obtain ⟨⟨_, _, hn⟩, hq, hpl, hpr⟩ := h4 loc rfl
        cases q with
        | none => cases hq
        | some il =>
          obtain ⟨_, _, hi⟩ := h3 il rfl
          simp only [Tree.height] at hf
          have el := ihl h1 hpl fuel (by omega)
          have er := ihr h2 hpr fuel (by omega)
          show loadTree f (fuel + 1) (some loc) = _
          simp only [loadTree, hn, hi, el, er, bind, Option.bind]

/-- a coherent, persisted tree is what lazy loading reads back (locations included) -/
theorem loadTree_of_coherent (f : Bytes) (bound : Nat) (t : Tree) (hc : t.Coherent f bound)
    (hp : t.Persisted) (fuel : Nat) (hf : t.size < fuel) : loadTree f fuel t.slotLoc = some t :=
  loadTree_of_coherent_height f bound t hc hp fuel
    (Nat.lt_of_le_of_lt (Tree.height_le_size t) hf)

/-! ### single writes without a fault -/

/-- no write fault is armed and none has happened -/
def FileSt.NoFault (s : FileSt) : Prop := s.failed = false ∧ s.failAt = none

theorem writeAtOff_nofault (s : FileSt) (off : Nat) (b : Bytes) (h : s.NoFault) :
    (s.writeAtOff off b).bytes = writeAt s.bytes off b ∧ (s.writeAtOff off b).size = s.size ∧
      (s.writeAtOff off b).NoFault := by
  obtain ⟨bytes, size, log, failAt, torn, failed⟩ := s
  obtain ⟨hf, hp⟩ := h
  simp only at hf hp
  subst hf hp
  exact ⟨rfl, rfl, rfl, rfl⟩

theorem advance_nofault (s : FileSt) (n : Nat) (h : s.NoFault) :
    (s.advance n).bytes = s.bytes ∧ (s.advance n).size = s.size + n ∧ (s.advance n).NoFault := by
  obtain ⟨bytes, size, log, failAt, torn, failed⟩ := s
  obtain ⟨hf, hp⟩ := h
  simp only at hf hp
  subst hf hp
  exact ⟨rfl, rfl, rfl, rfl⟩

theorem fc_writeAt_two (f hk v : Bytes) (off : Nat) (h : off ≤ f.length) :
    writeAt (writeAt f off hk) (off + hk.length) v =
      f.take off ++ (hk ++ v) ++ f.drop (off + hk.length + v.length) := by
  have hA : (f.take off).length = off := by rw [List.length_take]; omega
  have hAk : (f.take off ++ hk).length = off + hk.length := by rw [List.length_append, hA]
  unfold writeAt
  rw [List.take_left' hAk]
  have : off + hk.length + v.length = (f.take off ++ hk).length + v.length := by rw [hAk]
  rw [this, List.drop_length_add_append, List.drop_drop, hAk]
  simp only [List.append_assoc]

theorem fc_item_step (s : FileSt) (i : Item) (hn : s.NoFault) (hsz : s.size ≤ s.bytes.length)
    (hok : ItemOK i) :
    (((s.write (encItemHdrKey i)).writeAtOff (s.size + (encItemHdrKey i).length) i.val).advance
        (itemRecLen i)).failed = false ∧
    ItemAt (((s.write (encItemHdrKey i)).writeAtOff (s.size + (encItemHdrKey i).length)
        i.val).advance (itemRecLen i)).bytes
      (((s.write (encItemHdrKey i)).writeAtOff (s.size + (encItemHdrKey i).length) i.val).advance
        (itemRecLen i)).size i ⟨s.size, itemRecLen i⟩ := by
  obtain ⟨b1, z1, n1⟩ := writeAtOff_nofault s s.size (encItemHdrKey i) hn
  obtain ⟨b2, z2, n2⟩ := writeAtOff_nofault (s.write (encItemHdrKey i))
    (s.size + (encItemHdrKey i).length) i.val n1
  obtain ⟨b3, z3, n3⟩ := advance_nofault ((s.write (encItemHdrKey i)).writeAtOff
    (s.size + (encItemHdrKey i).length) i.val) (itemRecLen i) n2
  refine ⟨n3.1, rfl, ?_, ?_⟩
  · rw [z3, z2]; exact Nat.le_of_eq (congrArg (· + itemRecLen i) z1).symm
  rw [b3, b2]
  unfold FileSt.write
  rw [b1]
  rw [fc_writeAt_two _ _ _ _ hsz]
  have hA : (s.bytes.take s.size).length = s.size := by rw [List.length_take]; omega
  have := decItem_at (s.bytes.take s.size)
    (s.bytes.drop (s.size + (encItemHdrKey i).length + i.val.length)) i hok.1 hok.2.1 hok.2.2.1
    hok.2.2.2
  rw [hA] at this
  exact this

theorem fc_node_step (s : FileSt) (n : NodeRec) (hn : s.NoFault) (hsz : s.size ≤ s.bytes.length)
    (hi : ∀ q, n.item = some q → q.off < 2^64 ∧ q.len < 2^32 ∧ ¬ (q.off = 0 ∧ q.len = 0))
    (hl : ∀ q, n.left = some q → q.off < 2^64 ∧ q.len < 2^32 ∧ ¬ (q.off = 0 ∧ q.len = 0))
    (hr : ∀ q, n.right = some q → q.off < 2^64 ∧ q.len < 2^32 ∧ ¬ (q.off = 0 ∧ q.len = 0))
    (hnn : n.nn < 2^64) (hnb : n.nb < 2^64) :
    ((s.write (encNode n)).advance nodeRecLen).failed = false ∧
    NodeAt ((s.write (encNode n)).advance nodeRecLen).bytes
      ((s.write (encNode n)).advance nodeRecLen).size n ⟨s.size, nodeRecLen⟩ := by
  obtain ⟨b1, z1, n1⟩ := writeAtOff_nofault s s.size (encNode n) hn
  obtain ⟨b3, z3, n3⟩ := advance_nofault (s.write (encNode n)) nodeRecLen n1
  refine ⟨n3.1, rfl, ?_, ?_⟩
  · rw [z3]; exact Nat.le_of_eq (congrArg (· + nodeRecLen) z1).symm
  rw [b3]
  unfold FileSt.write
  rw [b1]
  unfold writeAt
  have hA : (s.bytes.take s.size).length = s.size := by rw [List.length_take]; omega
  have := decNode_at (s.bytes.take s.size) (s.bytes.drop (s.size + (encNode n).length)) n
    hi hl hr hnn hnb
  rw [hA] at this
  exact this

/-! ### `writeItems` -/

theorem writeItems_coherent (t : Tree) (s : FileSt) (hn : s.NoFault)
    (hsz : s.size ≤ s.bytes.length) (hc : t.Coherent s.bytes s.size) (hok : t.SizesOK) :
    (writeItems t s).1.Coherent (writeItems t s).2.bytes (writeItems t s).2.size ∧
      (writeItems t s).1.ItemsDone := by
  induction t generalizing s with
  | nil => exact ⟨trivial, trivial⟩
  | node l i a b r p q ihl ihr =>
    cases p with
    | some p => exact ⟨hc, Or.inl rfl⟩
    | none =>
      obtain ⟨hcl, hcr, hci, _⟩ := hc
      obtain ⟨hoi, _, _, hol, hor⟩ := hok
      have hfl := writeItems_frame l s
      have hwl : (writeItems l s).2.size ≤ (writeItems l s).2.bytes.length := writeItems_wf l s hsz
      have hnl : (writeItems l s).2.NoFault := hfl.noplan hn.1 hn.2
      obtain ⟨cl, dl⟩ := ihl s hn hsz hcl hol
      cases q with
      | some il =>
        simp only [writeItems]
        have hfr := writeItems_frame r (writeItems l s).2
        obtain ⟨cr, dr⟩ := ihr _ hnl hwl (hcr.frame hfl hsz) hor
        refine ⟨⟨cl.frame hfr hwl, cr, ?_, ?_⟩, Or.inr ⟨rfl, dl, dr⟩⟩
        · intro il' h
          injection h with h
          subst h
          exact ((hci il rfl).frame hfl hsz).frame hfr hwl
        · intro loc h; cases h
      | none =>
        obtain ⟨hfc, hia⟩ := fc_item_step (writeItems l s).2 i hnl hwl hoi
        have hfi := frame_item (writeItems l s).2 (encItemHdrKey i) i.val (itemRecLen i)
        have hwi := wf_item (writeItems l s).2 (encItemHdrKey i) i.val (itemRecLen i) hwl
          (itemRecLen_le i)
        have hni := hfi.noplan hnl.1 hnl.2
        simp only [writeItems]
        rw [if_neg (by rw [hnl.1]; simp), if_neg (by rw [hfc]; simp)]
        have hfr := writeItems_frame r ((((writeItems l s).2.write (encItemHdrKey i)).writeAtOff
          ((writeItems l s).2.size + (encItemHdrKey i).length) i.val).advance (itemRecLen i))
        obtain ⟨cr, dr⟩ := ihr _ hni hwi ((hcr.frame hfl hsz).frame hfi hwl) hor
        refine ⟨⟨(cl.frame hfi hwl).frame hfr hwi, cr, ?_, ?_⟩, Or.inr ⟨rfl, dl, dr⟩⟩
        · intro il' h
          injection h with h
          subst h
          exact hia.frame hfr hwi
        · intro loc h; cases h

/-! ### `writeNodes` -/

theorem Tree.Coherent.slotLoc_bound {f : Bytes} {bound : Nat} {t : Tree} {q : Ploc}
    (hc : t.Coherent f bound) (h : t.slotLoc = some q) :
    q.len = nodeRecLen ∧ q.off + q.len ≤ bound := by
  cases t with
  | nil => cases h
  | node l i a b r p iq =>
    obtain ⟨n1, n2, _⟩ := (hc.2.2.2 q h).1
    exact ⟨n1, n2⟩

theorem fc_encodable_of_bound (q : Ploc) (B : Nat) (h0 : 0 < q.len) (hb : q.off + q.len ≤ B)
    (hB : B < 2^32) : q.off < 2^64 ∧ q.len < 2^32 ∧ ¬ (q.off = 0 ∧ q.len = 0) := by
  refine ⟨by omega, by omega, by omega⟩

theorem writeNodes_coherent (t : Tree) (s : FileSt) (hn : s.NoFault)
    (hsz : s.size ≤ s.bytes.length) (hc : t.Coherent s.bytes s.size) (hid : t.ItemsDone)
    (hok : t.SizesOK) (hlim : (writeNodes t s).2.size < 2^32) :
    (writeNodes t s).1.Coherent (writeNodes t s).2.bytes (writeNodes t s).2.size ∧
      (writeNodes t s).1.Persisted := by
  induction t generalizing s with
  | nil => exact ⟨trivial, trivial⟩
  | node l i a b r p q ihl ihr =>
    cases p with
    | some p => exact ⟨hc, rfl⟩
    | none =>
      obtain ⟨hcl, hcr, hci, _⟩ := hc
      obtain ⟨hoi, ha, hb, hol, hor⟩ := hok
      rcases hid with hid | ⟨hq, dl, dr⟩
      · cases hid
      have hfl := writeNodes_frame l s
      have hwl : (writeNodes l s).2.size ≤ (writeNodes l s).2.bytes.length := writeNodes_wf l s hsz
      have hnl : (writeNodes l s).2.NoFault := hfl.noplan hn.1 hn.2
      have hfr := writeNodes_frame r (writeNodes l s).2
      have hwr : (writeNodes r (writeNodes l s).2).2.size ≤
          (writeNodes r (writeNodes l s).2).2.bytes.length := writeNodes_wf r _ hwl
      have hnr : (writeNodes r (writeNodes l s).2).2.NoFault := hfr.noplan hnl.1 hnl.2
      have hfw := frame_write_advance (writeNodes r (writeNodes l s).2).2
        (encNode { item := q, left := (writeNodes l s).1.slotLoc,
                   right := (writeNodes r (writeNodes l s).2).1.slotLoc, nn := a, nb := b })
        nodeRecLen
      have hnw := hfw.noplan hnr.1 hnr.2
      simp only [writeNodes] at hlim ⊢
      rw [if_neg (by rw [hnr.1]; simp), if_neg (by rw [hnw.1]; simp)] at hlim
      dsimp only at hlim
      rw [if_neg (by rw [hnr.1]; simp), if_neg (by rw [hnw.1]; simp)]
      have z1 := hfl.size_mono
      have z2 := hfr.size_mono
      have z3 := hfw.size_mono
      obtain ⟨cl, pl⟩ := ihl s hn hsz hcl dl hol (by omega)
      obtain ⟨cr, pr⟩ := ihr _ hnl hwl (hcr.frame hfl hsz) dr hor (by omega)
      have hstep := fc_node_step (writeNodes r (writeNodes l s).2).2
        { item := q, left := (writeNodes l s).1.slotLoc,
          right := (writeNodes r (writeNodes l s).2).1.slotLoc, nn := a, nb := b } hnr hwr
        (by
          intro il hil
          obtain ⟨e1, e2, _⟩ := hci il hil
          refine fc_encodable_of_bound il _ ?_ e2 (by omega)
          rw [e1]; unfold itemRecLen itemHdrLen; omega)
        (by
          intro c hc'
          obtain ⟨e1, e2⟩ := cl.slotLoc_bound hc'
          refine fc_encodable_of_bound c _ ?_ e2 (by omega)
          rw [e1]; unfold nodeRecLen; omega)
        (by
          intro c hc'
          obtain ⟨e1, e2⟩ := cr.slotLoc_bound hc'
          refine fc_encodable_of_bound c _ ?_ e2 (by omega)
          rw [e1]; unfold nodeRecLen; omega)
        ha hb
      refine ⟨⟨(cl.frame hfr hwl).frame hfw hwr, cr.frame hfw hwr, ?_, ?_⟩, rfl⟩
      · intro il hil
        exact (((hci il hil).frame hfl hsz).frame hfr hwl).frame hfw hwr
      · intro loc hloc
        injection hloc with hloc
        subst hloc
        exact ⟨hstep.2, hq, pl, pr⟩

/-! ### `writeTree`, `flushColls` -/

theorem sizesOK_eraseLocs (t : Tree) : t.eraseLocs.SizesOK ↔ t.SizesOK := by
  induction t with
  | nil => exact Iff.rfl
  | node l i a b r p q ihl ihr =>
    simp only [Tree.eraseLocs, Tree.SizesOK]
    rw [ihl, ihr]

theorem writeItems_sizesOK (t : Tree) (s : FileSt) (h : t.SizesOK) : (writeItems t s).1.SizesOK := by
  rw [← sizesOK_eraseLocs, writeItems_eraseLocs, sizesOK_eraseLocs]
  exact h

/-- writing a tree makes it persisted and coherent (no fault armed) -/
theorem writeTree_coherent (t : Tree) (s : FileSt) (hf : s.failed = false) (hp : s.failAt = none)
    (hsz : s.size ≤ s.bytes.length) (hc : t.Coherent s.bytes s.size) (hok : t.SizesOK)
    (hlim : (writeTree t s).2.size < 2^32) :
    (writeTree t s).1.Coherent (writeTree t s).2.bytes (writeTree t s).2.size ∧
      (writeTree t s).1.Persisted := by
  have hn : s.NoFault := ⟨hf, hp⟩
  have hni : (writeItems t s).2.NoFault := (writeItems_frame t s).noplan hf hp
  simp only [writeTree] at hlim ⊢
  rw [if_neg (by rw [hni.1]; simp)] at hlim ⊢
  obtain ⟨ci, di⟩ := writeItems_coherent t s hn hsz hc hok
  exact writeNodes_coherent _ _ hni (writeItems_wf t s hsz) ci di (writeItems_sizesOK t s hok) hlim

/-- flushing all collections makes every root persisted and coherent (no fault armed) -/
theorem flushColls_coherent (cs : List Coll) (s : FileSt) (hn : s.NoFault)
    (hsz : s.size ≤ s.bytes.length) (hc : ∀ c ∈ cs, c.root.Coherent s.bytes s.size)
    (hok : ∀ c ∈ cs, c.root.SizesOK) (hlim : (flushColls cs s).2.size < 2^32) :
    ∀ c ∈ (flushColls cs s).1,
      c.root.Coherent (flushColls cs s).2.bytes (flushColls cs s).2.size ∧ c.root.Persisted := by
  induction cs generalizing s with
  | nil => intro c h; cases h
  | cons c rest ih =>
    have hft := writeTree_frame c.root s
    have hnt : (writeTree c.root s).2.NoFault := hft.noplan hn.1 hn.2
    have hwt : (writeTree c.root s).2.size ≤ (writeTree c.root s).2.bytes.length :=
      writeTree_wf c.root s hsz
    have hfr := flushColls_frame rest (writeTree c.root s).2
    simp only [flushColls] at hlim ⊢
    rw [if_neg (by rw [hnt.1]; simp)] at hlim ⊢
    dsimp only at hlim ⊢
    have z := hfr.size_mono
    obtain ⟨ct, pt⟩ := writeTree_coherent c.root s hn.1 hn.2 hsz (hc c (by simp))
      (hok c (by simp)) (by omega)
    have ihr := ih (writeTree c.root s).2 hnt hwt
      (fun d hd => (hc d (by simp [hd])).frame hft hsz) (fun d hd => hok d (by simp [hd])) hlim
    intro d hd
    rcases List.mem_cons.mp hd with hd | hd
    · subst hd
      exact ⟨ct.frame hfr hwt, pt⟩
    · exact ihr d hd

/-! ### `size = |bytes|` is kept by a flush without a fault -/

theorem fc_item_step_tight (s : FileSt) (i : Item) (hn : s.NoFault) (ht : s.size = s.bytes.length) :
    (((s.write (encItemHdrKey i)).writeAtOff (s.size + (encItemHdrKey i).length) i.val).advance
        (itemRecLen i)).size =
    (((s.write (encItemHdrKey i)).writeAtOff (s.size + (encItemHdrKey i).length) i.val).advance
        (itemRecLen i)).bytes.length := by
  obtain ⟨b1, z1, n1⟩ := writeAtOff_nofault s s.size (encItemHdrKey i) hn
  obtain ⟨b2, z2, n2⟩ := writeAtOff_nofault (s.write (encItemHdrKey i))
    (s.size + (encItemHdrKey i).length) i.val n1
  obtain ⟨b3, z3, n3⟩ := advance_nofault ((s.write (encItemHdrKey i)).writeAtOff
    (s.size + (encItemHdrKey i).length) i.val) (itemRecLen i) n2
  have z1' : (s.write (encItemHdrKey i)).size = s.size := z1
  have b1' : (s.write (encItemHdrKey i)).bytes = writeAt s.bytes s.size (encItemHdrKey i) := b1
  rw [z3, z2, z1', b3, b2, b1']
  have l1 := length_writeAt s.bytes (encItemHdrKey i) s.size (Nat.le_of_eq ht)
  have l2 := length_writeAt (writeAt s.bytes s.size (encItemHdrKey i)) i.val
    (s.size + (encItemHdrKey i).length) (by omega)
  have l3 := encItem_length i
  unfold encItem at l3
  rw [List.length_append] at l3
  omega

theorem fc_node_step_tight (s : FileSt) (b : Bytes) (hn : s.NoFault)
    (ht : s.size = s.bytes.length) :
    ((s.write b).advance b.length).size = ((s.write b).advance b.length).bytes.length := by
  obtain ⟨b1, z1, n1⟩ := writeAtOff_nofault s s.size b hn
  obtain ⟨b3, z3, n3⟩ := advance_nofault (s.write b) b.length n1
  have z1' : (s.write b).size = s.size := z1
  have b1' : (s.write b).bytes = writeAt s.bytes s.size b := b1
  rw [z3, z1', b3, b1']
  have l1 := length_writeAt s.bytes b s.size (Nat.le_of_eq ht)
  omega

theorem writeItems_tight (t : Tree) (s : FileSt) (hn : s.NoFault) (ht : s.size = s.bytes.length) :
    (writeItems t s).2.size = (writeItems t s).2.bytes.length := by
  induction t generalizing s with
  | nil => exact ht
  | node l i a b r p q ihl ihr =>
    cases p with
    | some p => exact ht
    | none =>
      have hnl : (writeItems l s).2.NoFault := (writeItems_frame l s).noplan hn.1 hn.2
      have htl := ihl s hn ht
      cases q with
      | some il =>
        simp only [writeItems]
        exact ihr _ hnl htl
      | none =>
        have hfi := frame_item (writeItems l s).2 (encItemHdrKey i) i.val (itemRecLen i)
        have hni := hfi.noplan hnl.1 hnl.2
        simp only [writeItems]
        rw [if_neg (by rw [hnl.1]; simp), if_neg (by rw [hni.1]; simp)]
        exact ihr _ hni (fc_item_step_tight _ i hnl htl)

theorem writeNodes_tight (t : Tree) (s : FileSt) (hn : s.NoFault) (ht : s.size = s.bytes.length) :
    (writeNodes t s).2.size = (writeNodes t s).2.bytes.length := by
  induction t generalizing s with
  | nil => exact ht
  | node l i a b r p q ihl ihr =>
    cases p with
    | some p => exact ht
    | none =>
      have hnl : (writeNodes l s).2.NoFault := (writeNodes_frame l s).noplan hn.1 hn.2
      have htl := ihl s hn ht
      have hnr : (writeNodes r (writeNodes l s).2).2.NoFault :=
        (writeNodes_frame r _).noplan hnl.1 hnl.2
      have htr := ihr _ hnl htl
      have hnw := (frame_write_advance (writeNodes r (writeNodes l s).2).2
        (encNode { item := q, left := (writeNodes l s).1.slotLoc,
                   right := (writeNodes r (writeNodes l s).2).1.slotLoc, nn := a, nb := b })
        nodeRecLen).noplan hnr.1 hnr.2
      simp only [writeNodes]
      rw [if_neg (by rw [hnr.1]; simp), if_neg (by rw [hnw.1]; simp)]
      have hh := fc_node_step_tight _
        (encNode { item := q, left := (writeNodes l s).1.slotLoc,
                   right := (writeNodes r (writeNodes l s).2).1.slotLoc, nn := a, nb := b })
        hnr htr
      rw [encNode_length] at hh
      exact hh

theorem writeTree_tight (t : Tree) (s : FileSt) (hn : s.NoFault) (ht : s.size = s.bytes.length) :
    (writeTree t s).2.size = (writeTree t s).2.bytes.length := by
  have hni : (writeItems t s).2.NoFault := (writeItems_frame t s).noplan hn.1 hn.2
  simp only [writeTree]
  rw [if_neg (by rw [hni.1]; simp)]
  exact writeNodes_tight _ _ hni (writeItems_tight t s hn ht)

theorem flushColls_tight (cs : List Coll) (s : FileSt) (hn : s.NoFault)
    (ht : s.size = s.bytes.length) :
    (flushColls cs s).2.size = (flushColls cs s).2.bytes.length := by
  induction cs generalizing s with
  | nil => exact ht
  | cons c rest ih =>
    have hnt : (writeTree c.root s).2.NoFault := (writeTree_frame c.root s).noplan hn.1 hn.2
    simp only [flushColls]
    rw [if_neg (by rw [hnt.1]; simp)]
    exact ih _ hnt (writeTree_tight c.root s hn ht)

/-! ### a coherent persisted tree is no deeper than the file is long

Two nodes on one root-to-leaf path cannot share a record: a coherent persisted tree is determined
by its slot location (it is what `loadTree` returns), so an ancestor and a descendant with the
same location would be equal trees of different sizes.  Hence the offsets along a path are
pairwise distinct numbers below `bound` (pigeonhole).  (The *size* of such a tree is not bounded
by the file length: two children may share one record.) -/

theorem fc_nodup_bounded_length (l : List Nat) (n : Nat) (hd : l.Nodup) (hb : ∀ x ∈ l, x < n) :
    l.length ≤ n := by
  induction n generalizing l with
  | zero =>
    cases l with
    | nil => exact Nat.le_refl _
    | cons x l => exact absurd (hb x (by simp)) (Nat.not_lt_zero _)
  | succ n ih =>
    have h1 := ih (l.erase n) (hd.erase n) (by
      intro x hx
      have := (hd.mem_erase_iff).mp hx
      have := hb x this.2
      omega)
    have h2 := List.length_erase (a := n) (l := l)
    split at h2 <;> omega

/-- all non-empty subtrees, the tree itself first -/
def Tree.subs : Tree → List Tree
  | .nil => []
  | .node l i a b r p q => .node l i a b r p q :: (l.subs ++ r.subs)

theorem Tree.subs_size {t y : Tree} (h : y ∈ t.subs) : y.size ≤ t.size := by
  induction t with
  | nil => cases h
  | node l i a b r p q ihl ihr =>
    simp only [Tree.subs, List.mem_cons, List.mem_append] at h
    rcases h with h | h | h
    · subst h; exact Nat.le_refl _
    · have := ihl h; simp only [Tree.size]; omega
    · have := ihr h; simp only [Tree.size]; omega

theorem Tree.subs_coherent {f : Bytes} {bound : Nat} {t y : Tree} (hc : t.Coherent f bound)
    (hp : t.Persisted) (h : y ∈ t.subs) : y.Coherent f bound ∧ y.Persisted := by
  induction t with
  | nil => cases h
  | node l i a b r p q ihl ihr =>
    simp only [Tree.subs, List.mem_cons, List.mem_append] at h
    cases p with
    | none => cases hp
    | some loc =>
      obtain ⟨_, _, pl, pr⟩ := hc.2.2.2 loc rfl
      rcases h with h | h | h
      · subst h; exact ⟨hc, hp⟩
      · exact ihl hc.1 pl h
      · exact ihr hc.2.1 pr h

theorem coherent_eq_of_slotLoc {f : Bytes} {bound : Nat} {x y : Tree} (hx : x.Coherent f bound)
    (px : x.Persisted) (hy : y.Coherent f bound) (py : y.Persisted) (h : x.slotLoc = y.slotLoc) :
    x = y := by
  have e1 := loadTree_of_coherent f bound x hx px (x.size + y.size + 1) (by omega)
  have e2 := loadTree_of_coherent f bound y hy py (x.size + y.size + 1) (by omega)
  rw [h, e2] at e1
  injection e1 with e1
  exact e1.symm

theorem height_add_anc_le (f : Bytes) (bound : Nat) (t : Tree) (hc : t.Coherent f bound)
    (hp : t.Persisted) (anc : List Nat) (hd : anc.Nodup) (hb : ∀ o ∈ anc, o < bound)
    (hdis : ∀ y ∈ t.subs, ∀ p, y.slotLoc = some p → p.off ∉ anc) :
    t.height + anc.length ≤ bound := by
  induction t generalizing anc with
  | nil =>
    have := fc_nodup_bounded_length anc bound hd hb
    simp only [Tree.height]
    omega
  | node l i a b r p q ihl ihr =>
    cases p with
    | none => cases hp
    | some loc =>
      obtain ⟨⟨n1, n2, _⟩, _, pl, pr⟩ := hc.2.2.2 loc rfl
      have hself : (Tree.node l i a b r (some loc) q) ∈ (Tree.node l i a b r (some loc) q).subs := by
        simp [Tree.subs]
      have hd' : (loc.off :: anc).Nodup := List.nodup_cons.mpr ⟨hdis _ hself loc rfl, hd⟩
      have hb' : ∀ o ∈ loc.off :: anc, o < bound := by
        intro o ho
        rcases List.mem_cons.mp ho with ho | ho
        · subst ho; unfold nodeRecLen at n1; omega
        · exact hb o ho
      have key : ∀ (c : Tree), c.Coherent f bound → c.Persisted →
          c.size < (Tree.node l i a b r (some loc) q).size →
          (∀ y ∈ c.subs, y ∈ (Tree.node l i a b r (some loc) q).subs) →
          ∀ y ∈ c.subs, ∀ p, y.slotLoc = some p → p.off ∉ loc.off :: anc := by
        intro c cc cp csz csub y hy p hyp hmem
        obtain ⟨yc, yp⟩ := Tree.subs_coherent cc cp hy
        rcases List.mem_cons.mp hmem with hm | hm
        · have m1 := (yc.slotLoc_bound hyp).1
          have : p = loc := by
            cases p; cases loc
            simp only at hm m1 n1
            subst hm
            rw [m1, n1]
          subst this
          have := coherent_eq_of_slotLoc yc yp hc hp (by rw [hyp]; rfl)
          have := Tree.subs_size hy
          subst y
          omega
        · exact hdis y (csub y hy) p hyp hm
      have hl := ihl hc.1 pl (loc.off :: anc) hd' hb'
        (key l hc.1 pl (by simp only [Tree.size]; omega)
          (fun y hy => by simp only [Tree.subs, List.mem_cons, List.mem_append]; exact Or.inr (Or.inl hy)))
      have hr := ihr hc.2.1 pr (loc.off :: anc) hd' hb'
        (key r hc.2.1 pr (by simp only [Tree.size]; omega)
          (fun y hy => by simp only [Tree.subs, List.mem_cons, List.mem_append]; exact Or.inr (Or.inr hy)))
      simp only [Tree.height, List.length_cons] at hl hr ⊢
      omega

/-- the depth of a coherent persisted tree is bounded by the length of the file part it lives in -/
theorem coherent_height_le (f : Bytes) (bound : Nat) (t : Tree) (hc : t.Coherent f bound)
    (hp : t.Persisted) : t.height ≤ bound := by
  have := height_add_anc_le f bound t hc hp [] List.nodup_nil (fun o ho => by cases ho)
    (fun y _ p _ h => by cases h)
  simpa using this

/-! ### re-opening -/

theorem flushColls_namecmp (cs : List Coll) (s : FileSt) :
    (flushColls cs s).1.map (fun c => (c.name, c.cmp)) = cs.map (fun c => (c.name, c.cmp)) := by
  induction cs generalizing s with
  | nil => rfl
  | cons c rest ih =>
    simp only [flushColls]
    split
    · rfl
    · simp only [List.map_cons, ih]

theorem fc_collsSet_lt (c : Coll) (rest : List Coll)
    (h : ∀ d ∈ rest, compare c.name d.name = .lt) : collsSet c rest = c :: rest := by
  cases rest with
  | nil => rfl
  | cons d rest => simp only [collsSet, h d (by simp)]

/-- `loadColls` on the root entries of coherent persisted collections reads exactly them back -/
theorem loadColls_of_coherent (f : Bytes) (bound : Nat) (cmpOf : Bytes → CmpKind) (cs : List Coll)
    (hc : ∀ c ∈ cs, c.root.Coherent f bound ∧ c.root.Persisted) (hb : bound ≤ f.length)
    (hcmp : ∀ c ∈ cs, cmpOf c.name = c.cmp)
    (hnames : cs.Pairwise (fun a b => compare a.name b.name = .lt)) :
    loadColls f cmpOf (rootEntries cs) = some cs := by
  induction cs with
  | nil => rfl
  | cons c rest ih =>
    obtain ⟨h1, h2⟩ := List.pairwise_cons.mp hnames
    obtain ⟨cc, cp⟩ := hc c (by simp)
    have hh := coherent_height_le f bound c.root cc cp
    have e1 := loadTree_of_coherent_height f bound c.root cc cp (f.length + 1) (by omega)
    have e2 := ih (fun d hd => hc d (by simp [hd])) (fun d hd => hcmp d (by simp [hd])) h2
    unfold rootEntries at e2 ⊢
    simp only [List.map_cons, loadColls, e1, e2, bind, Option.bind, hcmp c (by simp)]
    rw [show (⟨c.name, c.cmp, c.root⟩ : Coll) = c from rfl, fc_collsSet_lt c rest h1]

theorem fc_writeAt_end (f b : Bytes) : writeAt f f.length b = f ++ b := by
  unfold writeAt
  rw [List.take_length, List.drop_eq_nil_of_le (by omega), List.append_nil]

/-- every collection of a store flushed without a fault is persisted and coherent with the new
    file (so the invariant "the cached trees are coherent with the file" is kept by `Flush`) -/
theorem flushStore_coherent (cs : List Coll) (s : FileSt) (hf : s.failed = false)
    (hp : s.failAt = none) (hsz : s.size ≤ s.bytes.length)
    (hc : ∀ c ∈ cs, c.root.Coherent s.bytes s.size) (hok : ∀ c ∈ cs, c.root.SizesOK)
    (hlim : (flushStore cs s).2.size < 2^32) :
    ∀ c ∈ (flushStore cs s).1,
      c.root.Coherent (flushStore cs s).2.bytes (flushStore cs s).2.size ∧ c.root.Persisted := by
  have hn : s.NoFault := ⟨hf, hp⟩
  have hn1 : (flushColls cs s).2.NoFault := (flushColls_frame cs s).noplan hf hp
  have hw1 : (flushColls cs s).2.size ≤ (flushColls cs s).2.bytes.length := flushColls_wf cs s hsz
  have hfw := frame_write_advance (flushColls cs s).2
    (encRoot (flushColls cs s).2.size (rootEntries (flushColls cs s).1))
    (encRoot (flushColls cs s).2.size (rootEntries (flushColls cs s).1)).length
  simp only [flushStore] at hlim ⊢
  rw [if_neg (by rw [hn1.1]; simp)] at hlim ⊢
  dsimp only at hlim ⊢
  have z := hfw.size_mono
  intro c hcm
  obtain ⟨cc, cp⟩ := flushColls_coherent cs s hn hsz hc hok (by omega) c hcm
  exact ⟨cc.frame hfw hw1, cp⟩

/-- C02: flush then re-open gives back exactly the flushed collections -/
theorem flush_then_open (fid : Nat) (cmpOf : Bytes → CmpKind) (cs : List Coll) (s : FileSt)
    (hf : s.failed = false) (hp : s.failAt = none) (hsz : s.size = s.bytes.length)
    (hc : ∀ c ∈ cs, c.root.Coherent s.bytes s.size) (hok : ∀ c ∈ cs, c.root.SizesOK)
    (hnames : cs.Pairwise (fun a b => compare a.name b.name = .lt))
    (hplain : ∀ c ∈ cs, PlainName c.name) (hcmp : ∀ c ∈ cs, cmpOf c.name = c.cmp)
    (hlim : (flushStore cs s).2.size < 2^32) :
    openStore fid (flushStore cs s).2.bytes cmpOf
      = .ok ⟨some fid, (flushStore cs s).2.size, (flushStore cs s).1, false⟩ := by
  have hn : s.NoFault := ⟨hf, hp⟩
  have hcoh := flushStore_coherent cs s hf hp (Nat.le_of_eq hsz) hc hok hlim
  have hn1 : (flushColls cs s).2.NoFault := (flushColls_frame cs s).noplan hf hp
  have ht1 := flushColls_tight cs s hn hsz
  have hnc := flushColls_namecmp cs s
  -- the final state, explicitly
  obtain ⟨b1, z1, n1⟩ := writeAtOff_nofault (flushColls cs s).2 (flushColls cs s).2.size
    (encRoot (flushColls cs s).2.size (rootEntries (flushColls cs s).1)) hn1
  obtain ⟨b3, z3, _⟩ := advance_nofault ((flushColls cs s).2.write
    (encRoot (flushColls cs s).2.size (rootEntries (flushColls cs s).1)))
    (encRoot (flushColls cs s).2.size (rootEntries (flushColls cs s).1)).length n1
  have e : flushStore cs s = ((flushColls cs s).1, ((flushColls cs s).2.write
      (encRoot (flushColls cs s).2.size (rootEntries (flushColls cs s).1))).advance
      (encRoot (flushColls cs s).2.size (rootEntries (flushColls cs s).1)).length) := by
    simp only [flushStore]
    rw [if_neg (by rw [hn1.1]; simp)]
  rw [e] at hlim hcoh ⊢
  dsimp only at hlim hcoh ⊢
  have z1' : ((flushColls cs s).2.write
      (encRoot (flushColls cs s).2.size (rootEntries (flushColls cs s).1))).size =
      (flushColls cs s).2.size := z1
  have b1' : ((flushColls cs s).2.write
      (encRoot (flushColls cs s).2.size (rootEntries (flushColls cs s).1))).bytes =
      writeAt (flushColls cs s).2.bytes (flushColls cs s).2.size
        (encRoot (flushColls cs s).2.size (rootEntries (flushColls cs s).1)) := b1
  rw [z3, z1'] at hlim hcoh ⊢
  rw [b3, b1'] at hcoh ⊢
  rw [ht1] at hlim hcoh ⊢
  rw [fc_writeAt_end] at hcoh ⊢
  -- names, comparators, order of the flushed collections are those of `cs`
  have hmem : ∀ c ∈ (flushColls cs s).1, ∃ d ∈ cs, d.name = c.name ∧ d.cmp = c.cmp := by
    intro c hcm
    have : (c.name, c.cmp) ∈ (flushColls cs s).1.map (fun c => (c.name, c.cmp)) :=
      List.mem_map.mpr ⟨c, hcm, rfl⟩
    rw [hnc] at this
    obtain ⟨d, hd, hde⟩ := List.mem_map.mp this
    injection hde with h1 h2
    exact ⟨d, hd, h1, h2⟩
  have hnames' : (flushColls cs s).1.Pairwise (fun a b => compare a.name b.name = .lt) := by
    have h1 : (cs.map (fun c => (c.name, c.cmp))).Pairwise
        (fun a b => compare a.1 b.1 = .lt) := List.pairwise_map.mpr hnames
    rw [← hnc] at h1
    exact List.pairwise_map.mp h1
  have hcmp' : ∀ c ∈ (flushColls cs s).1, cmpOf c.name = c.cmp := by
    intro c hcm
    obtain ⟨d, hd, h1, h2⟩ := hmem c hcm
    rw [← h1, ← h2]
    exact hcmp d hd
  -- the root record is found at the very end of the file
  have hroot := rootAt_encRoot_partial (flushColls cs s).2.bytes (rootEntries (flushColls cs s).1)
    (by
      intro e he
      obtain ⟨c, hcm, rfl⟩ := List.mem_map.mp he
      obtain ⟨d, hd, h1, _⟩ := hmem c hcm
      show PlainName c.name
      rw [← h1]
      exact hplain d hd)
    (by
      intro e he q hq
      obtain ⟨c, hcm, rfl⟩ := List.mem_map.mp he
      have := ((hcoh c hcm).1.slotLoc_bound hq).1
      unfold nodeRecLen at this
      omega)
    hlim
  rw [← List.length_append] at hroot
  rw [openStore_crash_atomic _ _ _ _ hroot (Nat.le_refl _) rfl
    (fun e' h1 h2 => absurd h2 (Nat.not_le_of_lt h1)) fid cmpOf]
  rw [loadColls_of_coherent _ _ cmpOf (flushColls cs s).1 hcoh
    (Nat.le_of_eq (List.length_append).symm) hcmp' hnames']
  dsimp only
  rw [List.length_append]

/-! ### the observable contents are unchanged -/

theorem eraseLocs_nn (t : Tree) : t.eraseLocs.nn = t.nn := by cases t <;> rfl
theorem eraseLocs_nb (t : Tree) : t.eraseLocs.nb = t.nb := by cases t <;> rfl

/-- what the API can observe of the flushed collections (names, comparators, in-order item lists,
    aggregates) is what it could observe before the flush -/
theorem flushStore_contents (cs : List Coll) (s : FileSt) :
    (flushStore cs s).1.map (fun c => (c.name, c.cmp, c.root.toList, c.root.nn, c.root.nb))
      = cs.map (fun c => (c.name, c.cmp, c.root.toList, c.root.nn, c.root.nb)) := by
  have h := congrArg
    (List.map (fun x : Bytes × CmpKind × Tree => (x.1, x.2.1, x.2.2.toList, x.2.2.nn, x.2.2.nb)))
    (flushStore_eraseLocs cs s)
  simp only [List.map_map, Function.comp_def, eraseLocs_toList, eraseLocs_nn, eraseLocs_nb] at h
  exact h

/-- C02, observable form: after a successful flush, re-opening the file succeeds at the flushed
    size with collections that are, up to file locations, the collections that were flushed —
    same names, comparators, trees (`eraseLocs`), hence same item lists and aggregates. -/
theorem flush_then_open_contents (fid : Nat) (cmpOf : Bytes → CmpKind) (cs : List Coll) (s : FileSt)
    (hf : s.failed = false) (hp : s.failAt = none) (hsz : s.size = s.bytes.length)
    (hc : ∀ c ∈ cs, c.root.Coherent s.bytes s.size) (hok : ∀ c ∈ cs, c.root.SizesOK)
    (hnames : cs.Pairwise (fun a b => compare a.name b.name = .lt))
    (hplain : ∀ c ∈ cs, PlainName c.name) (hcmp : ∀ c ∈ cs, cmpOf c.name = c.cmp)
    (hlim : (flushStore cs s).2.size < 2^32) :
    ∃ cs', openStore fid (flushStore cs s).2.bytes cmpOf
        = .ok ⟨some fid, (flushStore cs s).2.size, cs', false⟩ ∧
      cs'.map (fun c => (c.name, c.cmp, c.root.eraseLocs))
        = cs.map (fun c => (c.name, c.cmp, c.root.eraseLocs)) ∧
      cs'.map (fun c => (c.name, c.cmp, c.root.toList, c.root.nn, c.root.nb))
        = cs.map (fun c => (c.name, c.cmp, c.root.toList, c.root.nn, c.root.nb)) ∧
      ∀ c ∈ cs', c.root.Coherent (flushStore cs s).2.bytes (flushStore cs s).2.size ∧
        c.root.Persisted :=
  ⟨(flushStore cs s).1,
    flush_then_open fid cmpOf cs s hf hp hsz hc hok hnames hplain hcmp hlim,
    flushStore_eraseLocs cs s, flushStore_contents cs s,
    flushStore_coherent cs s hf hp (Nat.le_of_eq hsz) hc hok hlim⟩

/-! ### the hypotheses are satisfiable: trees built in memory are coherent -/

/-- a tree without any file location (a freshly built one) is coherent with every file -/
theorem coherent_eraseLocs (f : Bytes) (bound : Nat) (t : Tree) : t.eraseLocs.Coherent f bound := by
  induction t with
  | nil => trivial
  | node l i a b r p q ihl ihr =>
    refine ⟨ihl, ihr, ?_, ?_⟩
    · intro il h; cases h
    · intro loc h; cases h

/-- `mkNode` (what `union`/`join`/`split` build) keeps coherence: the new node has no location,
    so only its item's location, if any, has to decode -/
theorem coherent_mk (f : Bytes) (bound : Nat) (l r : Tree) (i : Item) (q : Option Ploc)
    (hl : l.Coherent f bound) (hr : r.Coherent f bound)
    (hq : ∀ il, q = some il → ItemAt f bound i il) : (Tree.mk l i r q).Coherent f bound :=
  ⟨hl, hr, hq, fun loc (h : none = some loc) => by cases h⟩

#print axioms loadTree_of_coherent
#print axioms coherent_of_prefix
#print axioms writeTree_coherent
#print axioms flushColls_coherent
#print axioms coherent_height_le
#print axioms flushStore_coherent
#print axioms flush_then_open
#print axioms flush_then_open_contents

end Gkv

/-
`#print axioms` output (`lake env lean Gkv/Proofs/FlushCoherent.lean`, Lean 4.33.0):

'Gkv.loadTree_of_coherent' depends on axioms: [propext, Quot.sound]
'Gkv.coherent_of_prefix' depends on axioms: [propext, Classical.choice, Quot.sound]
'Gkv.writeTree_coherent' depends on axioms: [propext, Classical.choice, Quot.sound]
'Gkv.flushColls_coherent' depends on axioms: [propext, Classical.choice, Quot.sound]
'Gkv.coherent_height_le' depends on axioms: [propext, Classical.choice, Quot.sound]
'Gkv.flushStore_coherent' depends on axioms: [propext, Classical.choice, Quot.sound]
'Gkv.flush_then_open' depends on axioms: [propext, Classical.choice, Quot.sound]
'Gkv.flush_then_open_contents' depends on axioms: [propext, Classical.choice, Quot.sound]

Notes.
* `flush_then_open` is proved exactly as stated: no hypothesis on tree sizes was needed.  The fuel
  `f.length + 1` of `loadColls` bounds the *depth* of `loadTree`, and `coherent_height_le` shows
  that a coherent persisted tree is never deeper than `bound` (pigeonhole on the record offsets
  along a path).  The *size* of a coherent persisted tree is NOT bounded by the file length (two
  slots may point at one record, a DAG on file unfolds to an exponentially larger tree), so
  `t.size ≤ bound` would have been false; `loadTree_of_coherent` (hypothesis `t.size < fuel`) is
  derived from the sharper `loadTree_of_coherent_height` (hypothesis `t.height < fuel`).
* `Tree.Coherent` carries, besides "decodes", that each located record lies wholly below `bound`
  and has the length its kind requires (`ItemAt`, `NodeAt`); that is what makes it depend only on
  `f.take bound` and what makes the plocs written into new node records encodable.
-/
