/-
Helper lemmas for the history-level refinement theorem (`Gkv/Proofs/Machine.lean`):

* the in-memory treap operations (`split`, `union`, `join`, `setItem`, `delete`) keep
  `Tree.Coherent f bound`: every node they build is `Tree.mk l i r q` with `(i, q)` taken from a
  node of an input tree (or the new item with `q = none`), and unchanged subtrees are reused whole;
* the same operations keep `All p`;
* `BST`, `AggOK`, `All` do not look at file locations (`eraseLocs`);
* size/byte bounds of `Spec.insert` / `Spec.erase`, and `SizesOK` from `AggOK` + bounds.
-/
import Gkv.Proofs.TreapSet
import Gkv.Proofs.TreapDel
import Gkv.Proofs.FlushCoherent
open Std

namespace Gkv
namespace Tree

/-! ### `Coherent` is kept by the in-memory operations -/

section coh
variable (cmp : Bytes → Bytes → Ordering) (f : Bytes) (bound : Nat)

theorem split_coherent : ∀ {t : Tree} (_ : t.Coherent f bound) (s : Bytes),
    (split cmp t s).1.Coherent f bound ∧ (split cmp t s).2.1.Coherent f bound ∧
      (split cmp t s).2.2.Coherent f bound
  | nil, _, s => ⟨trivial, trivial, trivial⟩
  | node l i a b r p q, h, s => by
    obtain ⟨hl, hr, hi, hp⟩ := h
    unfold split
    split
    · exact ⟨hl, ⟨hl, hr, hi, hp⟩, hr⟩
    · split
      · exact ⟨trivial, trivial, ⟨hl, hr, hi, hp⟩⟩
      · have ih := split_coherent hl s
        exact ⟨ih.1, ih.2.1, coherent_mk f bound _ _ i q ih.2.2 hr hi⟩
    · split
      · exact ⟨⟨hl, hr, hi, hp⟩, trivial, trivial⟩
      · have ih := split_coherent hr s
        exact ⟨coherent_mk f bound _ _ i q hl ih.1 hi, ih.2.1, ih.2.2⟩

theorem join_coherent {a b : Tree} (ha : a.Coherent f bound) (hb : b.Coherent f bound) :
    (join a b).Coherent f bound := by
  fun_induction join a b with
  | case1 t => exact hb
  | case2 l i a b r p q => exact ha
  | case3 l1 i1 a1 b1 r1 p1 q1 l2 i2 a2 b2 r2 p2 q2 h ih =>
    exact coherent_mk f bound _ _ _ _ ha.1 (ih ha.2.1 hb) ha.2.2.1
  | case4 l1 i1 a1 b1 r1 p1 q1 l2 i2 a2 b2 r2 p2 q2 h ih =>
    exact coherent_mk f bound _ _ _ _ (ih ha hb.1) hb.2.1 hb.2.2.1

theorem union_coherent {a b : Tree} (ha : a.Coherent f bound) (hb : b.Coherent f bound) :
    (union cmp a b).Coherent f bound := by
  fun_induction union cmp a b with
  | case1 b => exact hb
  | case2 a _ => exact ha
  | case3 al ai an ab ar ap aq bl bi bn bb br bp bq hp x _ nl nr l mi nn nb r loc mq hm ih1 ih2 =>
    have hs := split_coherent cmp f bound hb ai.key
    have hmid : (node l mi nn nb r loc mq).Coherent f bound := by
      rw [← hm]; exact hs.2.1
    exact coherent_mk f bound _ _ _ _ (ih1 ha.1 hs.1) (ih2 ha.2.1 hs.2.2) hmid.2.2.1
  | case4 al ai an ab ar ap aq bl bi bn bb br bp bq hp x _ nl nr hm ih1 ih2 =>
    have hs := split_coherent cmp f bound hb ai.key
    exact coherent_mk f bound _ _ _ _ (ih1 ha.1 hs.1) (ih2 ha.2.1 hs.2.2) ha.2.2.1
  | case5 al ai an ab ar ap aq bl bi bn bb br bp bq hp x _ ih1 ih2 =>
    have hs := split_coherent cmp f bound ha bi.key
    exact coherent_mk f bound _ _ _ _ (ih1 hs.1 hb.1) (ih2 hs.2.2 hb.2.1) hb.2.2.1

/-- the new singleton has no file location at all -/
theorem setItem_coherent {t : Tree} (h : t.Coherent f bound) (i : Item) :
    (setItem cmp t i).Coherent f bound := by
  unfold setItem
  refine union_coherent cmp f bound h ⟨trivial, trivial, ?_, ?_⟩
  · intro il hq; cases hq
  · intro loc hq; cases hq

theorem delete_coherent {t : Tree} (h : t.Coherent f bound) (k : Bytes) :
    (delete cmp t k).1.Coherent f bound := by
  unfold delete
  split
  · exact h
  · have hs := split_coherent cmp f bound h k
    exact join_coherent f bound hs.1 hs.2.2

end coh

/-! ### `All` -/

theorem join_all {p : Item → Prop} {a b : Tree} (ha : All p a) (hb : All p b) :
    All p (join a b) := by
  rw [All_iff_toList, join_toList]
  intro i hi
  rcases List.mem_append.mp hi with hi | hi
  · exact (All_iff_toList a).mp ha i hi
  · exact (All_iff_toList b).mp hb i hi

theorem setItem_all (cmp : Bytes → Bytes → Ordering) {p : Item → Prop} {t : Tree} (h : All p t)
    (i : Item) (hi : p i) : All p (setItem cmp t i) := by
  unfold setItem
  exact union_all cmp h ⟨trivial, hi, trivial⟩

theorem delete_all (cmp : Bytes → Bytes → Ordering) {p : Item → Prop} {t : Tree} (h : All p t)
    (k : Bytes) : All p (delete cmp t k).1 := by
  unfold delete
  split
  · exact h
  · have hs := split_all cmp p t k h
    exact join_all hs.1 hs.2.2

/-! ### file locations are invisible to `All`, `BST`, `AggOK` -/

theorem eraseLocs_size (t : Tree) : t.eraseLocs.size = t.size := by
  induction t with
  | nil => rfl
  | node l i a b r p q ihl ihr => simp only [eraseLocs, size, ihl, ihr]

theorem all_eraseLocs {p : Item → Prop} (t : Tree) : All p t.eraseLocs ↔ All p t := by
  rw [All_iff_toList, All_iff_toList, eraseLocs_toList]

theorem bst_eraseLocs (cmp : Bytes → Bytes → Ordering) (t : Tree) :
    BST cmp t.eraseLocs ↔ BST cmp t := by
  induction t with
  | nil => exact Iff.rfl
  | node l i a b r p q ihl ihr =>
    simp only [eraseLocs, BST]
    rw [ihl, ihr, all_eraseLocs, all_eraseLocs]

theorem aggOK_eraseLocs (t : Tree) : AggOK t.eraseLocs ↔ AggOK t := by
  induction t with
  | nil => exact Iff.rfl
  | node l i a b r p q ihl ihr =>
    simp only [eraseLocs, AggOK]
    rw [ihl, ihr, eraseLocs_size, eraseLocs_size, eraseLocs_toList, eraseLocs_toList]

/-! ### `SizesOK` from `AggOK` and bounds on the whole tree -/

theorem sizesOK_of_agg : ∀ {t : Tree}, AggOK t → All ItemOK t → t.size < 2^64 →
    (t.toList.map Item.nbytes).sum < 2^64 → t.SizesOK
  | nil, _, _, _, _ => trivial
  | node l i a b r p q, ⟨hl, hr, ha, hb⟩, ⟨al, ai, ar⟩, hs, hby => by
    simp only [size] at hs
    simp only [toList, List.map_append, List.map_cons, List.sum_append, List.sum_cons] at hby
    refine ⟨ai, by omega, by omega, sizesOK_of_agg hl al (by omega) (by omega),
      sizesOK_of_agg hr ar (by omega) (by omega)⟩

end Tree

/-! ### bounds for the list spec -/

namespace Spec
variable (cmp : Bytes → Bytes → Ordering)

theorem insert_length_le : ∀ (l : List Item) (i : Item), (insert cmp l i).length ≤ l.length + 1
  | [], i => by simp [insert]
  | j :: l, i => by
    unfold insert
    split
    · simp
    · simp
    · have := insert_length_le l i
      simp only [List.length_cons]
      omega

theorem insert_bytes_le : ∀ (l : List Item) (i : Item),
    ((insert cmp l i).map Item.nbytes).sum ≤ (l.map Item.nbytes).sum + i.nbytes
  | [], i => by simp [insert]
  | j :: l, i => by
    unfold insert
    split
    · simp only [List.map_cons, List.sum_cons]; omega
    · simp only [List.map_cons, List.sum_cons]; omega
    · have := insert_bytes_le l i
      simp only [List.map_cons, List.sum_cons]
      omega

theorem mem_insert : ∀ (l : List Item) (i x : Item), x ∈ insert cmp l i → x = i ∨ x ∈ l
  | [], i, x, h => by simp [insert] at h; exact Or.inl h
  | j :: l, i, x, h => by
    unfold insert at h
    split at h
    · rcases List.mem_cons.mp h with h | h
      · exact Or.inl h
      · exact Or.inr h
    · rcases List.mem_cons.mp h with h | h
      · exact Or.inl h
      · exact Or.inr (List.mem_cons_of_mem _ h)
    · rcases List.mem_cons.mp h with h | h
      · exact Or.inr (by rw [h]; exact List.mem_cons_self ..)
      · rcases mem_insert l i x h with h | h
        · exact Or.inl h
        · exact Or.inr (List.mem_cons_of_mem _ h)

theorem erase_length_le : ∀ (l : List Item) (k : Bytes), (erase cmp l k).length ≤ l.length
  | [], k => by simp [erase]
  | j :: l, k => by
    unfold erase
    split
    · simp
    · simp
    · have := erase_length_le l k
      simp only [List.length_cons]
      omega

theorem erase_bytes_le : ∀ (l : List Item) (k : Bytes),
    ((erase cmp l k).map Item.nbytes).sum ≤ (l.map Item.nbytes).sum
  | [], k => by simp [erase]
  | j :: l, k => by
    unfold erase
    split
    · simp
    · simp only [List.map_cons, List.sum_cons]; omega
    · have := erase_bytes_le l k
      simp only [List.map_cons, List.sum_cons]
      omega

end Spec
end Gkv
