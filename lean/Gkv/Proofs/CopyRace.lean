/-
Proofs for `Gkv.Model.CopyRace`: the repaired read order of `itemLoc.Copy` never yields an unusable
copy, whatever runs between the two reads; the pinned order does (defect F16).
-/
import Gkv.Model.CopyRace
namespace Gkv.CopyRace

theorem step_ok (s : Slot) (e : Ev) (h : s.ok = true) : (step s e).ok = true := by
  cases s with | mk l i =>
  cases e <;> cases l <;> cases i <;> simp_all [step, Slot.ok]

/-- no event ever makes a usable slot unusable -/
theorem run_ok (s : Slot) (es : List Ev) (h : s.ok = true) : (run s es).ok = true := by
  induction es generalizing s with
  | nil => simpa [run] using h
  | cons e es ih => simpa [run, List.foldl] using ih (step s e) (step_ok s e h)

theorem step_loc_mono (s : Slot) (e : Ev) (h : s.loc = true) : (step s e).loc = true := by
  cases s with | mk l i =>
  cases e <;> cases i <;> simp_all [step]

/-- a published location stays published -/
theorem run_loc_mono (s : Slot) (es : List Ev) (h : s.loc = true) : (run s es).loc = true := by
  induction es generalizing s with
  | nil => simpa [run] using h
  | cons e es ih => simpa [run, List.foldl] using ih (step s e) (step_loc_mono s e h)

/-- THE REPAIR IS RIGHT: reading the item first and the location afterwards gives a usable copy
    for every usable source and every sequence of flushes, evictions and reloads in between -/
theorem copyItemFirst_ok (s : Slot) (es : List Ev) (h : s.ok = true) : (copyItemFirst s es).ok = true := by
  cases hi : s.item with
  | true => simp [copyItemFirst, Slot.ok, hi]
  | false =>
    have hl : s.loc = true := by
      cases hl : s.loc with
      | true => rfl
      | false => simp [Slot.ok, hi, hl] at h
    simp [copyItemFirst, Slot.ok, hi, run_loc_mono s es hl]

/-- THE PINNED ORDER IS WRONG: a dirty cached item (no location yet), a Flush, then an eviction,
    between the two reads — the copy has neither a location nor an item -/
theorem copyLocFirst_broken :
    let s : Slot := { loc := false, item := true }
    s.ok = true ∧ (copyLocFirst s [.flush, .evict]).ok = false := by decide

/-- and those two events are necessary in that order: with no eviction after a flush in between,
    the pinned order is harmless as well -/
theorem copyLocFirst_ok_without_evict (s : Slot) (es : List Ev) (h : s.ok = true)
    (hne : ∀ e ∈ es, e ≠ .evict) : (copyLocFirst s es).ok = true := by
  have hitem : ∀ (t : Slot) (es : List Ev), (∀ e ∈ es, e ≠ .evict) → t.item = true → (run t es).item = true := by
    intro t es
    induction es generalizing t with
    | nil => intro _ h; simpa [run] using h
    | cons e es ih =>
      intro hne ht
      have he : e ≠ .evict := hne e (by simp)
      have : (step t e).item = true := by
        cases t with | mk l i =>
        cases e <;> cases l <;> simp_all [step]
      simpa [run, List.foldl] using ih (step t e) (fun e' he' => hne e' (by simp [he'])) this
  cases hl : s.loc with
  | true => simp [copyLocFirst, Slot.ok, hl]
  | false =>
    have hi : s.item = true := by
      cases hi : s.item with
      | true => rfl
      | false => simp [Slot.ok, hi, hl] at h
    simp [copyLocFirst, Slot.ok, hl, hitem s es hne hi]

-- non-vacuity: the repaired order on the very schedule that breaks the pinned one
example : (copyItemFirst { loc := false, item := true } [.flush, .evict]).ok = true := by decide
example : run { loc := false, item := true } [.flush, .evict, .reload] = { loc := true, item := true } := by decide

end Gkv.CopyRace

#print axioms Gkv.CopyRace.copyItemFirst_ok
#print axioms Gkv.CopyRace.copyLocFirst_broken
#print axioms Gkv.CopyRace.copyLocFirst_ok_without_evict
