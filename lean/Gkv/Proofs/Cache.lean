/-
Model L (`Model/Cache.lean`): the lazily loaded view refines the abstract tree.

`Rep c T`: the cached view `c` is a view of the abstract tree `T` (what is cached equals what `T`
holds; what is not cached names the location `T` records).  Over a file on which `T` is coherent
(`Tree.Coherent`, the invariant Flush establishes and the mutators keep), every lazy operation
  * succeeds,
  * returns what the abstract operation of Model A returns on `T`,
  * leaves a view of the same `T`,
  * and reads only node records of `T` and — unless the value was asked for — header+key ranges
    of item records of `T`.
-/
import Gkv.Model.CacheIO
import Gkv.Proofs.FlushCoherent
import Gkv.Proofs.Lazy
open Std

namespace Gkv.Cache
open Gkv Gkv.Lazy Gkv.Tree

def RepItem : CItem → Item → Option Ploc → Prop
  | .stub loc, _, q => q = some loc
  | .keyOnly k p loc, i, q => q = some loc ∧ k = i.key ∧ p = i.prio
  | .full i' loc, i, q => i' = i ∧ loc = q

def Rep : CTree → Tree → Prop
  | .nil, .nil => True
  | .stub loc, .node _ _ _ _ _ p _ => p = some loc
  | .node cl ci nn nb cr cp, .node l i a b r p q =>
    nn = a ∧ nb = b ∧ cp = p ∧ Rep cl l ∧ Rep cr r ∧ RepItem ci i q
  | _, _ => False

/-- the reads a traversal of `T` may issue: the record of a located node; header and key of a
    located item; with `wv` also the value of a located item -/
inductive Allowed (wv : Bool) : Tree → Rd → Prop
  | nodeRd {l i a b r loc q} : Allowed wv (.node l i a b r (some loc) q) (Rd.read loc.off nodeRecLen)
  | itemRd {l i a b r p il rd} (h : rd ∈ itemReads il i.key.length i.val.length false) :
      Allowed wv (.node l i a b r p (some il)) rd
  | valRd {l i a b r p il rd} (hw : wv = true) (h : rd ∈ itemReads il i.key.length i.val.length true) :
      Allowed wv (.node l i a b r p (some il)) rd
  | left {l i a b r p q rd} (h : Allowed wv l rd) : Allowed wv (.node l i a b r p q) rd
  | right {l i a b r p q rd} (h : Allowed wv r rd) : Allowed wv (.node l i a b r p q) rd

theorem rep_slot_of_persisted : ∀ (t : Tree), t.Persisted → Rep (slot t.slotLoc) t
  | .nil, _ => trivial
  | .node _ _ _ _ _ (some loc) _, _ => by show some loc = some loc; rfl
  | .node _ _ _ _ _ none _, h => by cases h

theorem rep_ofTree : ∀ (t : Tree), Rep (ofTree t) t
  | .nil => trivial
  | .node l _ _ _ r _ _ => ⟨rfl, rfl, rfl, rep_ofTree l, rep_ofTree r, rfl, rfl⟩

theorem rep_cold (t : Tree) (h : t.Persisted) : Rep (cold t) t := rep_slot_of_persisted t h

/-! ### decoding the key part of an item record -/

theorem decItemKey_of_decItem (f : Bytes) (loc : Ploc) (i : Item) (h : decItem f loc = some i) :
    decItemKey f loc = some (i.key, i.prio, i.val.length) := by
  unfold decItem at h
  unfold decItemKey
  simp only [bind, Option.bind] at h ⊢
  by_cases h0 : loc.len < itemHdrLen
  · simp [h0] at h
  · simp only [h0, ite_false] at h ⊢
    cases hh : readAt f loc.off itemHdrLen with
    | none => simp [hh] at h
    | some hd =>
      simp only [hh] at h ⊢
      by_cases h1 : unbe (hd.take 4) ≠ (itemHdrLen + unbe ((hd.drop 4).take 4) + unbe ((hd.drop 8).take 4)) % 4294967296
      · simp [h1] at h
      · simp only [h1, ite_false] at h ⊢
        cases hk : readAt f (loc.off + itemHdrLen) (unbe ((hd.drop 4).take 4)) with
        | none => simp [hk] at h
        | some k =>
          simp only [hk] at h ⊢
          cases hv : readAt f (loc.off + itemHdrLen + unbe ((hd.drop 4).take 4)) (unbe ((hd.drop 8).take 4)) with
          | none => simp [hv] at h
          | some v =>
            simp only [hv] at h
            have := fc_readAt_length _ _ _ _ hv
            cases h
            simp [this]

/-! ### single loads -/

theorem loadNode_rep (f : Bytes) (bound : Nat) (c : CTree) (T : Tree)
    (hc : T.Coherent f bound) (hr : Rep c T) :
    ∃ c' rds, loadNode f c = some (c', rds) ∧ Rep c' T ∧ (∀ loc, c' ≠ .stub loc) ∧
      (∀ rd ∈ rds, ∀ wv, Allowed wv T rd) := by
  cases c with
  | nil => exact ⟨.nil, [], rfl, hr, (fun _ h => by cases h), (fun _ h => by cases h)⟩
  | node cl ci nn nb cr cp =>
    exact ⟨_, [], rfl, hr, (fun _ h => by cases h), (fun _ h => by cases h)⟩
  | stub loc =>
    cases T with
    | nil => cases hr
    | node l i a b r p q =>
      have hp : p = some loc := hr
      subst hp
      obtain ⟨h1, h2, h3, h4⟩ := hc
      obtain ⟨⟨_, _, hn⟩, hq, hpl, hpr⟩ := h4 loc rfl
      cases q with
      | none => cases hq
      | some il =>
        refine ⟨.node (slot l.slotLoc) (.stub il) a b (slot r.slotLoc) (some loc), nodeReads loc,
          ?_, ?_, (fun _ h => by cases h), ?_⟩
        · simp only [loadNode, hn, bind, Option.bind]
        · exact ⟨rfl, rfl, rfl, rep_slot_of_persisted l hpl, rep_slot_of_persisted r hpr, rfl⟩
        · intro rd hrd wv
          simp only [nodeReads, List.mem_singleton] at hrd
          subst hrd
          exact Allowed.nodeRd

/-- what `loadItem` leaves: a view of the same item, showing its key and priority, its value when
    asked for, never a wrong value -/
def Shows (ci : CItem) (i : Item) (wv : Bool) : Prop :=
  ∃ v, ci.found = some ⟨i.key, i.prio, v⟩ ∧ (wv = true → v = some i.val) ∧ (v = none ∨ v = some i.val)

theorem loadAt_rep (f : Bytes) (bound : Nat) (wv : Bool) (i : Item) (il : Ploc)
    (hi : ItemAt f bound i il) :
    ∃ ci' rds, loadAt f wv il = some (ci', rds) ∧ RepItem ci' i (some il) ∧ Shows ci' i wv ∧
      rds = itemReads il i.key.length i.val.length wv := by
  obtain ⟨_, _, hd⟩ := hi
  cases wv with
  | true =>
    refine ⟨.full i (some il), _, ?_, ⟨rfl, rfl⟩, ⟨some i.val, rfl, fun _ => rfl, Or.inr rfl⟩, rfl⟩
    simp only [loadAt, hd, bind, Option.bind, ite_true]
  | false =>
    refine ⟨.keyOnly i.key i.prio il, _, ?_, ⟨rfl, rfl, rfl⟩,
      ⟨none, rfl, (fun h => by cases h), Or.inl rfl⟩, rfl⟩
    simp only [loadAt, decItemKey_of_decItem f il i hd, bind, Option.bind]
    rfl

theorem loadItem_rep (f : Bytes) (bound : Nat) (wv : Bool) (ci : CItem) (i : Item) (q : Option Ploc)
    (hi : ∀ il, q = some il → ItemAt f bound i il) (hr : RepItem ci i q) :
    ∃ ci' rds, loadItem f wv ci = some (ci', rds) ∧ RepItem ci' i q ∧ Shows ci' i wv ∧
      (rds = [] ∨ ∃ il, q = some il ∧ rds = itemReads il i.key.length i.val.length wv) := by
  cases ci with
  | full i' loc =>
    obtain ⟨h1, h2⟩ := hr
    subst h1 h2
    exact ⟨_, [], rfl, ⟨rfl, rfl⟩, ⟨some i'.val, rfl, fun _ => rfl, Or.inr rfl⟩, Or.inl rfl⟩
  | keyOnly k p loc =>
    obtain ⟨h1, h2, h3⟩ := hr
    subst h1 h2 h3
    cases wv with
    | false =>
      exact ⟨_, [], rfl, ⟨rfl, rfl, rfl⟩, ⟨none, rfl, (fun h => by cases h), Or.inl rfl⟩, Or.inl rfl⟩
    | true =>
      obtain ⟨ci', rds, e, r, s, hrd⟩ := loadAt_rep f bound true i loc (hi loc rfl)
      exact ⟨ci', rds, by simpa [loadItem] using e, r, s, Or.inr ⟨loc, rfl, hrd⟩⟩
  | stub loc =>
    have h1 : q = some loc := hr
    subst h1
    obtain ⟨ci', rds, e, r, s, hrd⟩ := loadAt_rep f bound wv i loc (hi loc rfl)
    exact ⟨ci', rds, e, r, s, Or.inr ⟨loc, rfl, hrd⟩⟩

theorem shows_mono {ci : CItem} {i : Item} (h : Shows ci i true) : Shows ci i false := by
  obtain ⟨v, h1, _, h3⟩ := h
  exact ⟨v, h1, (fun h => by cases h), h3⟩

theorem itemReads_false_sub (il : Ploc) (kl vl : Nat) (rd : Rd)
    (h : rd ∈ itemReads il kl vl false) : rd ∈ itemReads il kl vl true := by
  unfold itemReads at h ⊢
  simp only [List.mem_append] at h ⊢
  rcases h with h | h
  · exact Or.inl h
  · simp at h

/-- reads of `loadItem` on the item of the root of `T` are allowed reads of `T` -/
theorem loadItem_allowed {l r : Tree} {i : Item} {a b : Nat} {p q : Option Ploc} {rds : List Rd}
    (wv wv' : Bool) (hw : wv = true → wv' = true)
    (h : rds = [] ∨ ∃ il, q = some il ∧ rds = itemReads il i.key.length i.val.length wv) :
    ∀ rd ∈ rds, Allowed wv' (.node l i a b r p q) rd := by
  intro rd hrd
  rcases h with h | ⟨il, hq, h⟩
  · subst h; cases hrd
  · subst hq h
    cases wv with
    | false => exact Allowed.itemRd hrd
    | true => exact Allowed.valRd (hw rfl) hrd

/-! ### the result of a lookup, compared with Model A -/

/-- a `Found` shows the item `i` (value present when asked for, never a wrong one) -/
def Agrees (res : Option Found) (o : Option Item) (wv : Bool) : Prop :=
  match res, o with
  | none, none => True
  | some fd, some i => fd.key = i.key ∧ fd.prio = i.prio ∧ (wv = true → fd.val = some i.val) ∧
      (fd.val = none ∨ fd.val = some i.val)
  | _, _ => False

theorem agrees_of_shows {ci : CItem} {i : Item} {wv : Bool} (h : Shows ci i wv) :
    Agrees ci.found (some i) wv := by
  obtain ⟨v, h1, h2, h3⟩ := h
  rw [h1]
  exact ⟨rfl, rfl, h2, h3⟩

/-- `GetItem` on any cached view of a coherent tree: succeeds, answers as Model A's `get`, leaves
    a view of the same tree, reads only what `Allowed` permits -/
theorem getC_spec (f : Bytes) (bound : Nat) (cmp : Bytes → Bytes → Ordering) (wv : Bool) (k : Bytes) :
    ∀ (fuel : Nat) (c : CTree) (T : Tree), T.Coherent f bound → Rep c T → T.height < fuel →
    ∃ res c' rds, getC f cmp wv fuel c k = some (res, c', rds) ∧ Rep c' T ∧
      Agrees res (Tree.get cmp T k) wv ∧ ∀ rd ∈ rds, Allowed wv T rd := by
  intro fuel
  induction fuel with
  | zero => intro c T _ _ h; omega
  | succ fuel ih =>
    intro c T hc hr hf
    obtain ⟨c1, r1, e1, hr1, hns, ha1⟩ := loadNode_rep f bound c T hc hr
    cases c1 with
    | stub loc => exact absurd rfl (hns loc)
    | nil =>
      cases T with
      | node _ _ _ _ _ _ _ => cases hr1
      | nil =>
        refine ⟨none, .nil, r1, ?_, trivial, trivial, fun rd h => ha1 rd h wv⟩
        simp only [getC, e1, bind, Option.bind]
    | node cl ci nn nb cr cp =>
      cases T with
      | nil => cases hr1
      | node l i a b r p q =>
        obtain ⟨hnn, hnb, hcp, hrl, hrr, hri⟩ := hr1
        subst hnn hnb hcp
        have hcc := hc
        obtain ⟨hcl, hcr, hci, _⟩ := hcc
        obtain ⟨ci1, r2, e2, hri1, hs1, hrd2⟩ := loadItem_rep f bound false ci i q hci hri
        obtain ⟨v1, hv1, _, _⟩ := hs1
        have ha2 := loadItem_allowed (l := l) (r := r) (i := i) (a := nn) (b := nb) (p := cp) (q := q)
          false wv (fun h => by cases h) hrd2
        simp only [Tree.height] at hf
        cases hcmp : cmp k i.key with
        | lt =>
          obtain ⟨res, l', r3, e3, hrl', hag, ha3⟩ := ih cl l hcl hrl (by omega)
          refine ⟨res, .node l' ci1 nn nb cr cp, r1 ++ r2 ++ r3, ?_, ⟨rfl, rfl, rfl, hrl', hrr, hri1⟩, ?_, ?_⟩
          · simp only [getC, e1, e2, hv1, hcmp, e3, bind, Option.bind]
          · simpa only [Tree.get, hcmp] using hag
          · intro rd hrd
            rcases List.mem_append.mp hrd with h | h
            · rcases List.mem_append.mp h with h | h
              · exact ha1 rd h wv
              · exact ha2 rd h
            · exact Allowed.left (ha3 rd h)
        | gt =>
          obtain ⟨res, r', r3, e3, hrr', hag, ha3⟩ := ih cr r hcr hrr (by omega)
          refine ⟨res, .node cl ci1 nn nb r' cp, r1 ++ r2 ++ r3, ?_, ⟨rfl, rfl, rfl, hrl, hrr', hri1⟩, ?_, ?_⟩
          · simp only [getC, e1, e2, hv1, hcmp, e3, bind, Option.bind]
          · simpa only [Tree.get, hcmp] using hag
          · intro rd hrd
            rcases List.mem_append.mp hrd with h | h
            · rcases List.mem_append.mp h with h | h
              · exact ha1 rd h wv
              · exact ha2 rd h
            · exact Allowed.right (ha3 rd h)
        | eq =>
          cases wv with
          | false =>
            refine ⟨ci1.found, .node cl ci1 nn nb cr cp, r1 ++ r2 ++ [], ?_, ⟨rfl, rfl, rfl, hrl, hrr, hri1⟩, ?_, ?_⟩
            · simp only [getC, e1, e2, hv1, hcmp, bind, Option.bind]
              rfl
            · simp only [Tree.get, hcmp]
              exact agrees_of_shows ⟨v1, hv1, (fun h => by cases h), by assumption⟩
            · intro rd hrd
              rw [List.append_nil] at hrd
              rcases List.mem_append.mp hrd with h | h
              · exact ha1 rd h false
              · exact ha2 rd h
          | true =>
            obtain ⟨ci2, r3, e3, hri2, hs2, hrd3⟩ := loadItem_rep f bound true ci1 i q hci hri1
            have ha3 := loadItem_allowed (l := l) (r := r) (i := i) (a := nn) (b := nb) (p := cp) (q := q)
              true true (fun h => h) hrd3
            refine ⟨ci2.found, .node cl ci2 nn nb cr cp, r1 ++ r2 ++ r3, ?_, ⟨rfl, rfl, rfl, hrl, hrr, hri2⟩, ?_, ?_⟩
            · simp only [getC, e1, e2, hv1, hcmp, e3, bind, Option.bind, ite_true]
            · simp only [Tree.get, hcmp]
              exact agrees_of_shows hs2
            · intro rd hrd
              rcases List.mem_append.mp hrd with h | h
              · rcases List.mem_append.mp h with h | h
                · exact ha1 rd h true
                · exact ha2 rd h
              · exact ha3 rd h

/-! ### MinItem / MaxItem -/

theorem rep_nil_left {T : Tree} (h : Rep .nil T) : T = .nil := by
  cases T with
  | nil => rfl
  | node _ _ _ _ _ _ _ => cases h

theorem rep_ne_nil {c : CTree} {T : Tree} (h : Rep c T) (hc : c ≠ .nil) : T ≠ .nil := by
  intro e; subst e
  cases c with
  | nil => exact hc rfl
  | stub _ => cases h
  | node _ _ _ _ _ _ => cases h

theorem min_node_of_ne {l r : Tree} {i : Item} {a b : Nat} {p q : Option Ploc} (h : l ≠ .nil) :
    Tree.min (.node l i a b r p q) = Tree.min l := by
  cases l with
  | nil => exact absurd rfl h
  | node _ _ _ _ _ _ _ => rfl

theorem max_node_of_ne {l r : Tree} {i : Item} {a b : Nat} {p q : Option Ploc} (h : r ≠ .nil) :
    Tree.max (.node l i a b r p q) = Tree.max r := by
  cases r with
  | nil => exact absurd rfl h
  | node _ _ _ _ _ _ _ => rfl

/-- `MinItem`/`MaxItem` on any cached view of a coherent tree -/
theorem walkC_spec (f : Bytes) (bound : Nat) (left wv : Bool) :
    ∀ (fuel : Nat) (c : CTree) (T : Tree), T.Coherent f bound → Rep c T → T.height < fuel →
    ∃ res c' rds, walkC f left wv fuel c = some (res, c', rds) ∧ Rep c' T ∧
      Agrees res (if left then Tree.min T else Tree.max T) wv ∧ ∀ rd ∈ rds, Allowed wv T rd := by
  intro fuel
  induction fuel with
  | zero => intro c T _ _ h; omega
  | succ fuel ih =>
    intro c T hc hr hf
    obtain ⟨c1, r1, e1, hr1, hns, ha1⟩ := loadNode_rep f bound c T hc hr
    cases c1 with
    | stub loc => exact absurd rfl (hns loc)
    | nil =>
      have := rep_nil_left hr1
      subst this
      refine ⟨none, .nil, r1, ?_, trivial, ?_, fun rd h => ha1 rd h wv⟩
      · simp only [walkC, e1, bind, Option.bind]
      · cases left <;> exact trivial
    | node cl ci nn nb cr cp =>
      cases T with
      | nil => cases hr1
      | node l i a b r p q =>
        obtain ⟨hnn, hnb, hcp, hrl, hrr, hri⟩ := hr1
        subst hnn hnb hcp
        have hcc := hc
        obtain ⟨hcl, hcr, hci, _⟩ := hcc
        simp only [Tree.height] at hf
        cases left with
        | true =>
          by_cases hnil : cl = .nil
          · subst hnil
            have := rep_nil_left hrl
            subst this
            obtain ⟨ci1, r2, e2, hri1, hs1, hrd2⟩ := loadItem_rep f bound wv ci i q hci hri
            refine ⟨ci1.found, .node .nil ci1 nn nb cr cp, r1 ++ r2, ?_, ⟨rfl, rfl, rfl, trivial, hrr, hri1⟩, ?_, ?_⟩
            · simp only [walkC, e1, e2, bind, Option.bind, ite_true]
            · exact agrees_of_shows hs1
            · intro rd hrd
              rcases List.mem_append.mp hrd with h | h
              · exact ha1 rd h wv
              · exact loadItem_allowed wv wv (fun h => h) hrd2 rd h
          · obtain ⟨res, c', r2, e2, hrl', hag, ha2⟩ := ih cl l hcl hrl (by omega)
            refine ⟨res, .node c' ci nn nb cr cp, r1 ++ r2, ?_, ⟨rfl, rfl, rfl, hrl', hrr, hri⟩, ?_, ?_⟩
            · cases cl with
              | nil => exact absurd rfl hnil
              | stub _ => simp only [walkC, e1, e2, bind, Option.bind, ite_true]
              | node _ _ _ _ _ _ => simp only [walkC, e1, e2, bind, Option.bind, ite_true]
            · simp only [ite_true] at hag ⊢
              rw [min_node_of_ne (rep_ne_nil hrl hnil)]
              exact hag
            · intro rd hrd
              rcases List.mem_append.mp hrd with h | h
              · exact ha1 rd h wv
              · exact Allowed.left (ha2 rd h)
        | false =>
          by_cases hnil : cr = .nil
          · subst hnil
            have := rep_nil_left hrr
            subst this
            obtain ⟨ci1, r2, e2, hri1, hs1, hrd2⟩ := loadItem_rep f bound wv ci i q hci hri
            refine ⟨ci1.found, .node cl ci1 nn nb .nil cp, r1 ++ r2, ?_, ⟨rfl, rfl, rfl, hrl, trivial, hri1⟩, ?_, ?_⟩
            · simp only [walkC, e1, e2, bind, Option.bind, Bool.false_eq_true, ite_false]
            · have : Tree.max (.node l i nn nb .nil cp q) = some i := by
                cases l <;> rfl
              simp only [this]
              exact agrees_of_shows hs1
            · intro rd hrd
              rcases List.mem_append.mp hrd with h | h
              · exact ha1 rd h wv
              · exact loadItem_allowed wv wv (fun h => h) hrd2 rd h
          · obtain ⟨res, c', r2, e2, hrr', hag, ha2⟩ := ih cr r hcr hrr (by omega)
            refine ⟨res, .node cl ci nn nb c' cp, r1 ++ r2, ?_, ⟨rfl, rfl, rfl, hrl, hrr', hri⟩, ?_, ?_⟩
            · cases cr with
              | nil => exact absurd rfl hnil
              | stub _ => simp only [walkC, e1, e2, bind, Option.bind, Bool.false_eq_true, ite_false]
              | node _ _ _ _ _ _ => simp only [walkC, e1, e2, bind, Option.bind, Bool.false_eq_true, ite_false]
            · simp only [Bool.false_eq_true, ite_false] at hag ⊢
              rw [max_node_of_ne (rep_ne_nil hrr hnil)]
              exact hag
            · intro rd hrd
              rcases List.mem_append.mp hrd with h | h
              · exact ha1 rd h wv
              · exact Allowed.right (ha2 rd h)

/-! ### eviction -/

theorem repItem_evict {ci : CItem} {i : Item} {q : Option Ploc} (h : RepItem ci i q) :
    RepItem ci.evict i q := by
  cases ci with
  | stub loc => exact h
  | keyOnly k p loc => exact h.1
  | full i' loc =>
    cases loc with
    | none => exact h
    | some l => exact h.2.symm

/-- `EvictSomeItems`, whatever the random walk chooses: succeeds, leaves a view of the same tree -/
theorem evictC_spec (f : Bytes) (bound : Nat) :
    ∀ (choices : List Bool) (c : CTree) (T : Tree), T.Coherent f bound → Rep c T →
    ∃ c' rds, evictC f choices c = some (c', rds) ∧ Rep c' T ∧ ∀ rd ∈ rds, ∀ wv, Allowed wv T rd := by
  intro choices
  induction choices with
  | nil => intro c T _ hr; exact ⟨c, [], rfl, hr, (fun _ h => by cases h)⟩
  | cons ch cs ih =>
    intro c T hc hr
    obtain ⟨c1, r1, e1, hr1, hns, ha1⟩ := loadNode_rep f bound c T hc hr
    cases c1 with
    | stub loc => exact absurd rfl (hns loc)
    | nil =>
      refine ⟨.nil, r1, ?_, hr1, ha1⟩
      simp only [evictC, e1, bind, Option.bind]
    | node cl ci nn nb cr cp =>
      cases T with
      | nil => cases hr1
      | node l i a b r p q =>
        obtain ⟨hnn, hnb, hcp, hrl, hrr, hri⟩ := hr1
        subst hnn hnb hcp
        have hcc := hc
        obtain ⟨hcl, hcr, _, _⟩ := hcc
        cases ch with
        | true =>
          obtain ⟨r', r2, e2, hrr', ha2⟩ := ih cr r hcr hrr
          refine ⟨.node cl ci.evict nn nb r' cp, r1 ++ r2, ?_, ⟨rfl, rfl, rfl, hrl, hrr', repItem_evict hri⟩, ?_⟩
          · simp only [evictC, e1, bind, Option.bind, ite_true, e2]
          · intro rd hrd wv
            rcases List.mem_append.mp hrd with h | h
            · exact ha1 rd h wv
            · exact Allowed.right (ha2 rd h wv)
        | false =>
          obtain ⟨l', r2, e2, hrl', ha2⟩ := ih cl l hcl hrl
          refine ⟨.node l' ci.evict nn nb cr cp, r1 ++ r2, ?_, ⟨rfl, rfl, rfl, hrl', hrr, repItem_evict hri⟩, ?_⟩
          · simp only [evictC, e1, bind, Option.bind, e2, Bool.false_eq_true, ite_false]
          · intro rd hrd wv
            rcases List.mem_append.mp hrd with h | h
            · exact ha1 rd h wv
            · exact Allowed.left (ha2 rd h wv)

/-! ### histories -/

theorem Allowed.mono {T : Tree} {rd : Rd} {wv : Bool} (h : Allowed false T rd) : Allowed wv T rd := by
  induction h with
  | nodeRd => exact Allowed.nodeRd
  | itemRd h => exact Allowed.itemRd h
  | valRd hw _ => cases hw
  | left _ ih => exact Allowed.left ih
  | right _ ih => exact Allowed.right ih

theorem Allowed.toTrue {T : Tree} {rd : Rd} {wv : Bool} (h : Allowed wv T rd) : Allowed true T rd := by
  induction h with
  | nodeRd => exact Allowed.nodeRd
  | itemRd h => exact Allowed.itemRd h
  | valRd _ h => exact Allowed.valRd rfl h
  | left _ ih => exact Allowed.left ih
  | right _ ih => exact Allowed.right ih

theorem stepC_spec (f : Bytes) (bound : Nat) (cmp : Bytes → Bytes → Ordering) (fuel : Nat)
    (c : CTree) (T : Tree) (hc : T.Coherent f bound) (hr : Rep c T) (hf : T.height < fuel) (op : COp) :
    ∃ res c' rds, stepC f cmp fuel c op = some (res, c', rds) ∧ Rep c' T ∧
      Agrees res (absOp cmp T op) op.wv ∧ ∀ rd ∈ rds, Allowed op.wv T rd := by
  cases op with
  | get k w => exact getC_spec f bound cmp w k fuel c T hc hr hf
  | min w =>
    obtain ⟨res, c', rds, e, h1, h2, h3⟩ := walkC_spec f bound true w fuel c T hc hr hf
    exact ⟨res, c', rds, e, h1, (by simpa [absOp, COp.wv] using h2), h3⟩
  | max w =>
    obtain ⟨res, c', rds, e, h1, h2, h3⟩ := walkC_spec f bound false w fuel c T hc hr hf
    exact ⟨res, c', rds, e, h1, (by simpa [absOp, COp.wv] using h2), h3⟩
  | evict ch =>
    obtain ⟨c', rds, e, h1, h2⟩ := evictC_spec f bound ch c T hc hr
    exact ⟨none, c', rds, by simp [stepC, e], h1, trivial, fun rd h => h2 rd h false⟩

/-- every answer of a history agrees with Model A's answer on the one abstract tree -/
def AgreeAll (cmp : Bytes → Bytes → Ordering) (T : Tree) : List (Option Found) → List COp → Prop
  | [], [] => True
  | o :: os, op :: ops => Agrees o (absOp cmp T op) op.wv ∧ AgreeAll cmp T os ops
  | _, _ => False

/-- Any history of lookups, Min/Max and evictions, from any cached view of a coherent tree:
    every call succeeds and answers as Model A does on the SAME abstract tree, whatever was cached
    or evicted in between; the view at the end is still a view of that tree; the reads are reads
    of its records only, and if no call asked for a value, of node records and header+key ranges
    only. -/
theorem runC_spec (f : Bytes) (bound : Nat) (cmp : Bytes → Bytes → Ordering) (fuel : Nat) (T : Tree)
    (hc : T.Coherent f bound) (hf : T.height < fuel) :
    ∀ (ops : List COp) (c : CTree), Rep c T →
    ∃ outs c' rds, runC f cmp fuel ops c = some (outs, c', rds) ∧ Rep c' T ∧ AgreeAll cmp T outs ops ∧
      (∀ rd ∈ rds, Allowed true T rd) ∧
      ((∀ op ∈ ops, op.wv = false) → ∀ rd ∈ rds, Allowed false T rd) := by
  intro ops
  induction ops with
  | nil => intro c hr; exact ⟨[], c, [], rfl, hr, trivial, (fun _ h => by cases h), (fun _ _ h => by cases h)⟩
  | cons op ops ih =>
    intro c hr
    obtain ⟨o, c1, r1, e1, hr1, hag, ha1⟩ := stepC_spec f bound cmp fuel c T hc hr hf op
    obtain ⟨os, c2, r2, e2, hr2, hags, ha2, ha2'⟩ := ih c1 hr1
    refine ⟨o :: os, c2, r1 ++ r2, ?_, hr2, ⟨hag, hags⟩, ?_, ?_⟩
    · simp only [runC, e1, e2, bind, Option.bind]
    · intro rd hrd
      rcases List.mem_append.mp hrd with h | h
      · exact (ha1 rd h).toTrue
      · exact ha2 rd h
    · intro hall rd hrd
      rcases List.mem_append.mp hrd with h | h
      · have := ha1 rd h
        rw [hall op (List.mem_cons_self ..)] at this
        exact this
      · exact ha2' (fun op' h' => hall op' (List.mem_cons_of_mem _ h')) rd h

/-! ### key-only reads touch no value -/

/-- `rng` overlaps no node record of `T` and no header+key range of an item record of `T` -/
def KeyDisjoint (rng : Nat × Nat) : Tree → Prop
  | .nil => True
  | .node l i _ _ r p q =>
    KeyDisjoint rng l ∧ KeyDisjoint rng r ∧
    (∀ loc, p = some loc → rng.1 + rng.2 ≤ loc.off ∨ loc.off + nodeRecLen ≤ rng.1) ∧
    (∀ il, q = some il → rng.1 + rng.2 ≤ il.off ∨ il.off + itemHdrLen + i.key.length ≤ rng.1)

theorem allowed_false_no_touch {T : Tree} {rd : Rd} (h : Allowed false T rd) (rng : Nat × Nat)
    (hd : KeyDisjoint rng T) : ¬ rd.touches rng := by
  induction h with
  | nodeRd =>
    exact node_reads_disjoint _ rng (hd.2.2.1 _ rfl) _ (by simp [nodeReads])
  | itemRd h =>
    exact keyonly_reads_disjoint _ _ _ rng (hd.2.2.2 _ rfl) _ h
  | valRd hw _ => cases hw
  | left _ ih => exact ih hd.1
  | right _ ih => exact ih hd.2.1

/-- the value bytes of an item of `T` are not in its own header+key range -/
theorem own_value_disjoint (il : Ploc) (kl vl : Nat) :
    (valueRange il kl vl).1 + (valueRange il kl vl).2 ≤ il.off ∨
      il.off + itemHdrLen + kl ≤ (valueRange il kl vl).1 := by
  right; unfold valueRange; simp

end Gkv.Cache

/-! ### range visits -/

namespace Gkv.Cache
open Gkv Gkv.Lazy Gkv.Tree

/-- what the visitor saw agrees, item by item and depth by depth, with Model A's visit -/
def AgreeVisit (wv : Bool) : List (Found × Nat) → List (Item × Nat) → Prop
  | [], [] => True
  | (fd, d) :: xs, (i, d') :: ys => Agrees (some fd) (some i) wv ∧ d = d' ∧ AgreeVisit wv xs ys
  | _, _ => False

theorem agreeVisit_append {wv : Bool} : ∀ {xs : List (Found × Nat)} {xs' : List (Item × Nat)}
    {ys : List (Found × Nat)} {ys' : List (Item × Nat)},
    AgreeVisit wv xs xs' → AgreeVisit wv ys ys' → AgreeVisit wv (xs ++ ys) (xs' ++ ys')
  | [], [], _, _, _, h => h
  | [], _ :: _, _, _, h, _ => by cases h
  | _ :: _, [], _, _, h, _ => by cases h
  | (_, _) :: xs, (_, _) :: xs', _, _, h, h' =>
    ⟨h.1, h.2.1, agreeVisit_append (xs := xs) (xs' := xs') h.2.2 h'⟩

/-- the abstract visit: `Tree.visitAsc` / `Tree.visitDesc` -/
def absVisit (cmp : Bytes → Bytes → Ordering) (asc : Bool) (T : Tree) (tgt : Bytes) (d : Nat) :
    List (Item × Nat) :=
  if asc then Tree.visitAsc cmp T tgt d else Tree.visitDesc cmp T tgt d

/-- `VisitItemsAscend` / `VisitItemsDescend` (never-stopping visitor) on any cached view of a
    coherent tree: succeeds, presents exactly Model A's sequence with the true depths (values
    whenever asked for, never a wrong one), leaves a view of the same tree, reads only what
    `Allowed` permits -/
theorem visitC_spec (f : Bytes) (bound : Nat) (cmp : Bytes → Bytes → Ordering) (asc wv : Bool)
    (tgt : Bytes) :
    ∀ (fuel : Nat) (c : CTree) (T : Tree) (d : Nat), T.Coherent f bound → Rep c T → T.height < fuel →
    ∃ out c' rds, visitC f cmp asc wv fuel c tgt d = some (out, c', rds) ∧ Rep c' T ∧
      AgreeVisit wv out (absVisit cmp asc T tgt d) ∧ ∀ rd ∈ rds, Allowed wv T rd := by
  intro fuel
  induction fuel with
  | zero => intro c T _ _ _ h; omega
  | succ fuel ih =>
    intro c T d hc hr hf
    obtain ⟨c1, r1, e1, hr1, hns, ha1⟩ := loadNode_rep f bound c T hc hr
    cases c1 with
    | stub loc => exact absurd rfl (hns loc)
    | nil =>
      have := rep_nil_left hr1
      subst this
      refine ⟨[], .nil, r1, ?_, trivial, ?_, fun rd h => ha1 rd h wv⟩
      · simp only [visitC, e1, bind, Option.bind]
      · cases asc <;> exact trivial
    | node cl ci nn nb cr cp =>
      cases T with
      | nil => cases hr1
      | node l i a b r p q =>
        obtain ⟨hnn, hnb, hcp, hrl, hrr, hri⟩ := hr1
        subst hnn hnb hcp
        have hcc := hc
        obtain ⟨hcl, hcr, hci, _⟩ := hcc
        obtain ⟨ci1, r2, e2, hri1, hs1, hrd2⟩ := loadItem_rep f bound false ci i q hci hri
        obtain ⟨v1, hv1, _, _⟩ := hs1
        have ha2 := loadItem_allowed (l := l) (r := r) (i := i) (a := nn) (b := nb) (p := cp) (q := q)
          false wv (fun h => by cases h) hrd2
        simp only [Tree.height] at hf
        obtain ⟨ci2, r4, e4, hri2, hs2, hrd4⟩ := loadItem_rep f bound wv ci1 i q hci hri1
        obtain ⟨v2, hv2, hv2a, hv2b⟩ := hs2
        have ha4 := loadItem_allowed (l := l) (r := r) (i := i) (a := nn) (b := nb) (p := cp) (q := q)
          wv wv (fun h => h) hrd4
        have hagI : Agrees (some (⟨i.key, i.prio, v2⟩ : Found)) (some i) wv := ⟨rfl, rfl, hv2a, hv2b⟩
        obtain ⟨xl, l', rl, el, hrl', hagl, hal⟩ := ih cl l (d + 1) hcl hrl (by omega)
        obtain ⟨xr, r', rr, er, hrr', hagr, har⟩ := ih cr r (d + 1) hcr hrr (by omega)
        -- the reads of the three parts are allowed reads of the whole tree
        have hAl : ∀ rd ∈ rl, Allowed wv (.node l i nn nb r cp q) rd := fun rd h => Allowed.left (hal rd h)
        have hAr : ∀ rd ∈ rr, Allowed wv (.node l i nn nb r cp q) rd := fun rd h => Allowed.right (har rd h)
        have hA1 : ∀ rd ∈ r1, Allowed wv (.node l i nn nb r cp q) rd := fun rd h => ha1 rd h wv
        cases asc with
        | true =>
          by_cases hgt : cmp tgt i.key = .gt
          · refine ⟨xr, .node cl ci1.evict nn nb r' cp, r1 ++ r2 ++ rr, ?_,
              ⟨rfl, rfl, rfl, hrl, hrr', repItem_evict hri1⟩, ?_, ?_⟩
            · simp [visitC, e1, e2, hv1, hgt, er, bind, Option.bind]
            · simpa [absVisit, Tree.visitAsc, hgt] using hagr
            · intro rd hrd
              simp only [List.mem_append] at hrd
              rcases hrd with (h | h) | h
              · exact hA1 rd h
              · exact ha2 rd h
              · exact hAr rd h
          · have hne : (cmp tgt i.key != .gt) = true := by
              cases h : cmp tgt i.key <;> simp_all
            refine ⟨xl ++ (⟨i.key, i.prio, v2⟩, d) :: xr, .node l' ci2.evict nn nb r' cp,
              r1 ++ r2 ++ rl ++ r4 ++ rr, ?_, ⟨rfl, rfl, rfl, hrl', hrr', repItem_evict hri2⟩, ?_, ?_⟩
            · simp [visitC, e1, e2, hv1, hne, hgt, el, e4, hv2, er, bind, Option.bind]
            · simp only [absVisit, Tree.visitAsc, hgt, ite_true, ite_false]
              exact agreeVisit_append hagl ⟨hagI, rfl, hagr⟩
            · intro rd hrd
              simp only [List.mem_append] at hrd
              rcases hrd with (((h | h) | h) | h) | h
              · exact hA1 rd h
              · exact ha2 rd h
              · exact hAl rd h
              · exact ha4 rd h
              · exact hAr rd h
        | false =>
          by_cases hgt : cmp tgt i.key = .gt
          · have hbe : (cmp tgt i.key == .gt) = true := by simp [hgt]
            refine ⟨xr ++ (⟨i.key, i.prio, v2⟩, d) :: xl, .node l' ci2.evict nn nb r' cp,
              r1 ++ r2 ++ rr ++ r4 ++ rl, ?_, ⟨rfl, rfl, rfl, hrl', hrr', repItem_evict hri2⟩, ?_, ?_⟩
            · simp [visitC, e1, e2, hv1, hbe, hgt, el, e4, hv2, er, bind, Option.bind]
            · simp only [absVisit, Tree.visitDesc, hgt, ite_true, Bool.false_eq_true, ite_false]
              exact agreeVisit_append hagr ⟨hagI, rfl, hagl⟩
            · intro rd hrd
              simp only [List.mem_append] at hrd
              rcases hrd with (((h | h) | h) | h) | h
              · exact hA1 rd h
              · exact ha2 rd h
              · exact hAr rd h
              · exact ha4 rd h
              · exact hAl rd h
          · have hbe : (cmp tgt i.key == .gt) = false := by
              cases h : cmp tgt i.key <;> simp_all
            refine ⟨xl, .node l' ci1.evict nn nb cr cp, r1 ++ r2 ++ rl, ?_,
              ⟨rfl, rfl, rfl, hrl', hrr, repItem_evict hri1⟩, ?_, ?_⟩
            · simp [visitC, e1, e2, hv1, hbe, hgt, el, bind, Option.bind]
            · simpa [absVisit, Tree.visitDesc, hgt] using hagl
            · intro rd hrd
              simp only [List.mem_append] at hrd
              rcases hrd with (h | h) | h
              · exact hA1 rd h
              · exact ha2 rd h
              · exact hAl rd h

end Gkv.Cache

/-! ### range visits that stop early -/

namespace Gkv.Cache
open Gkv Gkv.Lazy Gkv.Tree

theorem agreeVisit_length {wv : Bool} : ∀ {xs : List (Found × Nat)} {ys : List (Item × Nat)},
    AgreeVisit wv xs ys → xs.length = ys.length
  | [], [], _ => rfl
  | [], _ :: _, h => by cases h
  | _ :: _, [], h => by cases h
  | (_, _) :: xs, (_, _) :: ys, h => by
    simp only [List.length_cons]
    rw [agreeVisit_length (xs := xs) (ys := ys) h.2.2]

/-- `VisitItemsAscend` / `VisitItemsDescend` with a visitor that stops at the `b`-th item: the
    visitor is handed exactly the first `b` items of Model A's sequence (all of it when it is
    shorter), the budget left is `b - length`, what is left is a view of the same tree -/
theorem visitCK_spec (f : Bytes) (bound : Nat) (cmp : Bytes → Bytes → Ordering) (asc wv : Bool)
    (tgt : Bytes) :
    ∀ (fuel : Nat) (c : CTree) (T : Tree) (d b : Nat), T.Coherent f bound → Rep c T →
      T.height < fuel → 0 < b →
    ∃ out b' c' rds, visitCK f cmp asc wv fuel c tgt d b = some (out, b', c', rds) ∧ Rep c' T ∧
      AgreeVisit wv out ((absVisit cmp asc T tgt d).take b) ∧
      b' = b - (absVisit cmp asc T tgt d).length ∧ ∀ rd ∈ rds, Allowed wv T rd := by
  intro fuel
  induction fuel with
  | zero => intro c T _ _ _ _ h; omega
  | succ fuel ih =>
    intro c T d b hc hr hf hb
    obtain ⟨c1, r1, e1, hr1, hns, ha1⟩ := loadNode_rep f bound c T hc hr
    cases c1 with
    | stub loc => exact absurd rfl (hns loc)
    | nil =>
      have := rep_nil_left hr1
      subst this
      refine ⟨[], b, .nil, r1, ?_, trivial, ?_, ?_, fun rd h => ha1 rd h wv⟩
      · simp only [visitCK, e1, bind, Option.bind]
      · cases asc <;> simp [absVisit, Tree.visitAsc, Tree.visitDesc, AgreeVisit]
      · cases asc <;> simp [absVisit, Tree.visitAsc, Tree.visitDesc]
    | node cl ci nn nb cr cp =>
      cases T with
      | nil => cases hr1
      | node l i a b0 r p q =>
        obtain ⟨hnn, hnb, hcp, hrl, hrr, hri⟩ := hr1
        subst hnn hnb hcp
        have hcc := hc
        obtain ⟨hcl, hcr, hci, _⟩ := hcc
        obtain ⟨ci1, r2, e2, hri1, hs1, hrd2⟩ := loadItem_rep f bound false ci i q hci hri
        obtain ⟨v1, hv1, _, _⟩ := hs1
        have ha2 := loadItem_allowed (l := l) (r := r) (i := i) (a := nn) (b := nb) (p := cp) (q := q)
          false wv (fun h => by cases h) hrd2
        simp only [Tree.height] at hf
        obtain ⟨ci2, r4, e4, hri2, hs2, hrd4⟩ := loadItem_rep f bound wv ci1 i q hci hri1
        obtain ⟨v2, hv2, hv2a, hv2b⟩ := hs2
        have ha4 := loadItem_allowed (l := l) (r := r) (i := i) (a := nn) (b := nb) (p := cp) (q := q)
          wv wv (fun h => h) hrd4
        have hagI : Agrees (some (⟨i.key, i.prio, v2⟩ : Found)) (some i) wv := ⟨rfl, rfl, hv2a, hv2b⟩
        have hA1 : ∀ rd ∈ r1, Allowed wv (.node l i nn nb r cp q) rd := fun rd h => ha1 rd h wv
        -- the generic step: near subtree N (view cn), far subtree F (view cf)
        have step : ∀ (cn cf : CTree) (N F : Tree), N.Coherent f bound → F.Coherent f bound →
            Rep cn N → Rep cf F → N.height < fuel → F.height < fuel →
            (∀ rd, Allowed wv N rd → Allowed wv (.node l i nn nb r cp q) rd) →
            (∀ rd, Allowed wv F rd → Allowed wv (.node l i nn nb r cp q) rd) →
            ∀ (LN LF : List (Item × Nat)), LN = absVisit cmp asc N tgt (d+1) → LF = absVisit cmp asc F tgt (d+1) →
            ∃ out b' cn' cf' ci' rds,
              (do
                let (xs, b1, n', r3) ← visitCK f cmp asc wv fuel cn tgt (d+1) b
                if b1 = 0 then some (xs, 0, n', cf, ci1.evict, r1 ++ r2 ++ r3)
                else do
                  let (it2, r4) ← loadItem f wv ci1
                  let fd2 ← it2.found
                  if b1 = 1 then some (xs ++ [(fd2, d)], 0, n', cf, it2.evict, r1 ++ r2 ++ r3 ++ r4)
                  else do
                    let (ys, b2, f', r5) ← visitCK f cmp asc wv fuel cf tgt (d+1) (b1 - 1)
                    some (xs ++ (fd2, d) :: ys, b2, n', f', it2.evict, r1 ++ r2 ++ r3 ++ r4 ++ r5))
                = some (out, b', cn', cf', ci', rds) ∧
              Rep cn' N ∧ Rep cf' F ∧ RepItem ci' i q ∧
              AgreeVisit wv out ((LN ++ (i, d) :: LF).take b) ∧ b' = b - (LN ++ (i, d) :: LF).length ∧
              ∀ rd ∈ rds, Allowed wv (.node l i nn nb r cp q) rd := by
          intro cn cf N F hcN hcF hrN hrF hhN hhF hAN hAF LN LF hLN hLF
          obtain ⟨xs, b1, n', r3, e3, hrN', hagN, hb1, haN⟩ := ih cn N (d + 1) b hcN hrN hhN hb
          rw [← hLN] at hagN hb1
          have hlenN := agreeVisit_length hagN
          by_cases h0 : b1 = 0
          · refine ⟨xs, 0, n', cf, ci1.evict, r1 ++ r2 ++ r3, ?_, hrN', hrF, repItem_evict hri1, ?_, ?_, ?_⟩
            · simp only [e3, h0, bind, Option.bind, ite_true]
            · have : b ≤ LN.length := by omega
              rw [List.take_append_of_le_length this]
              exact hagN
            · simp only [List.length_append, List.length_cons]; omega
            · intro rd hrd
              simp only [List.mem_append] at hrd
              rcases hrd with (h | h) | h
              · exact hA1 rd h
              · exact ha2 rd h
              · exact hAN rd (haN rd h)
          · have hlt : LN.length < b := by omega
            have htk : LN.take b = LN := List.take_of_length_le (by omega)
            rw [htk] at hagN
            by_cases h1 : b1 = 1
            · refine ⟨xs ++ [(⟨i.key, i.prio, v2⟩, d)], 0, n', cf, ci2.evict, r1 ++ r2 ++ r3 ++ r4, ?_,
                hrN', hrF, repItem_evict hri2, ?_, ?_, ?_⟩
              · subst h1
                simp [e3, e4, hv2, bind, Option.bind]
              · have hb' : b = LN.length + 1 := by omega
                have : (LN ++ (i, d) :: LF).take b = LN ++ [(i, d)] := by
                  rw [hb', List.take_length_add_append]
                  simp
                rw [this]
                exact agreeVisit_append hagN ⟨hagI, rfl, trivial⟩
              · simp only [List.length_append, List.length_cons]; omega
              · intro rd hrd
                simp only [List.mem_append] at hrd
                rcases hrd with ((h | h) | h) | h
                · exact hA1 rd h
                · exact ha2 rd h
                · exact hAN rd (haN rd h)
                · exact ha4 rd h
            · obtain ⟨ys, b2, f', r5, e5, hrF', hagF, hb2, haF⟩ :=
                ih cf F (d + 1) (b1 - 1) hcF hrF hhF (by omega)
              rw [← hLF] at hagF hb2
              refine ⟨xs ++ (⟨i.key, i.prio, v2⟩, d) :: ys, b2, n', f', ci2.evict,
                r1 ++ r2 ++ r3 ++ r4 ++ r5, ?_, hrN', hrF', repItem_evict hri2, ?_, ?_, ?_⟩
              · simp only [e3, h0, e4, hv2, h1, e5, bind, Option.bind, ite_false]
              · have : (LN ++ (i, d) :: LF).take b = LN ++ (i, d) :: LF.take (b1 - 1) := by
                  have hb' : b = LN.length + ((b1 - 1) + 1) := by omega
                  rw [hb', List.take_length_add_append]
                  simp
                rw [this]
                exact agreeVisit_append hagN ⟨hagI, rfl, hagF⟩
              · simp only [List.length_append, List.length_cons]; omega
              · intro rd hrd
                simp only [List.mem_append] at hrd
                rcases hrd with (((h | h) | h) | h) | h
                · exact hA1 rd h
                · exact ha2 rd h
                · exact hAN rd (haN rd h)
                · exact ha4 rd h
                · exact hAF rd (haF rd h)
        cases asc with
        | true =>
          by_cases hgt : cmp tgt i.key = .gt
          · obtain ⟨ys, b2, r', rr, er, hrr', hagr, hb2, har⟩ := ih cr r (d + 1) b hcr hrr (by omega) hb
            refine ⟨ys, b2, .node cl ci1.evict nn nb r' cp, r1 ++ r2 ++ rr, ?_,
              ⟨rfl, rfl, rfl, hrl, hrr', repItem_evict hri1⟩, ?_, ?_, ?_⟩
            · simp [visitCK, e1, e2, hv1, hgt, er, bind, Option.bind]
            · simpa [absVisit, Tree.visitAsc, hgt] using hagr
            · simpa [absVisit, Tree.visitAsc, hgt] using hb2
            · intro rd hrd
              simp only [List.mem_append] at hrd
              rcases hrd with (h | h) | h
              · exact hA1 rd h
              · exact ha2 rd h
              · exact Allowed.right (har rd h)
          · have hne : (cmp tgt i.key != .gt) = true := by
              cases h : cmp tgt i.key <;> simp_all
            obtain ⟨out, b', cn', cf', ci', rds, e, hrn, hrf, hri', hag, hb', hal⟩ :=
              step cl cr l r hcl hcr hrl hrr (by omega) (by omega) (fun _ h => Allowed.left h)
                (fun _ h => Allowed.right h) _ _ rfl rfl
            refine ⟨out, b', .node cn' ci' nn nb cf' cp, rds, ?_, ⟨rfl, rfl, rfl, hrn, hrf, hri'⟩, ?_, ?_, hal⟩
            · simp only [bind, Option.bind] at e
              simp only [visitCK, e1, e2, hv1, hne, bind, Option.bind, ite_true]
              revert e
              cases visitCK f cmp true wv fuel cl tgt (d + 1) b with
              | none => intro e; cases e
              | some x =>
                obtain ⟨xs, b1, n', r3⟩ := x
                simp only
                by_cases h0 : b1 = 0
                · simp only [h0, ite_true]; intro e; cases e; rfl
                · simp only [h0, ite_false, e4, hv2]
                  by_cases h1 : b1 = 1
                  · simp only [h1, ite_true]; intro e; cases e; rfl
                  · simp only [h1, ite_false]
                    cases visitCK f cmp true wv fuel cr tgt (d + 1) (b1 - 1) with
                    | none => intro e; cases e
                    | some y => obtain ⟨ys, b2, f', r5⟩ := y; simp only; intro e; cases e; rfl
            · simpa [absVisit, Tree.visitAsc, hgt] using hag
            · simpa [absVisit, Tree.visitAsc, hgt] using hb'
        | false =>
          by_cases hgt : cmp tgt i.key = .gt
          · have hbe : (cmp tgt i.key == .gt) = true := by simp [hgt]
            obtain ⟨out, b', cn', cf', ci', rds, e, hrn, hrf, hri', hag, hb', hal⟩ :=
              step cr cl r l hcr hcl hrr hrl (by omega) (by omega) (fun _ h => Allowed.right h)
                (fun _ h => Allowed.left h) _ _ rfl rfl
            refine ⟨out, b', .node cf' ci' nn nb cn' cp, rds, ?_, ⟨rfl, rfl, rfl, hrf, hrn, hri'⟩, ?_, ?_, hal⟩
            · simp only [bind, Option.bind] at e
              simp only [visitCK, e1, e2, hv1, hbe, bind, Option.bind, ite_true, Bool.false_eq_true, ite_false]
              revert e
              cases visitCK f cmp false wv fuel cr tgt (d + 1) b with
              | none => intro e; cases e
              | some x =>
                obtain ⟨xs, b1, n', r3⟩ := x
                simp only
                by_cases h0 : b1 = 0
                · simp only [h0, ite_true]; intro e; cases e; rfl
                · simp only [h0, ite_false, e4, hv2]
                  by_cases h1 : b1 = 1
                  · simp only [h1, ite_true]; intro e; cases e; rfl
                  · simp only [h1, ite_false]
                    cases visitCK f cmp false wv fuel cl tgt (d + 1) (b1 - 1) with
                    | none => intro e; cases e
                    | some y => obtain ⟨ys, b2, f', r5⟩ := y; simp only; intro e; cases e; rfl
            · simpa [absVisit, Tree.visitDesc, hgt] using hag
            · simpa [absVisit, Tree.visitDesc, hgt] using hb'
          · have hbe : (cmp tgt i.key == .gt) = false := by
              cases h : cmp tgt i.key <;> simp_all
            obtain ⟨ys, b2, l', rl, el, hrl', hagl, hb2, hal⟩ := ih cl l (d + 1) b hcl hrl (by omega) hb
            refine ⟨ys, b2, .node l' ci1.evict nn nb cr cp, r1 ++ r2 ++ rl, ?_,
              ⟨rfl, rfl, rfl, hrl', hrr, repItem_evict hri1⟩, ?_, ?_, ?_⟩
            · simp [visitCK, e1, e2, hv1, hbe, hgt, el, bind, Option.bind]
            · simpa [absVisit, Tree.visitDesc, hgt] using hagl
            · simpa [absVisit, Tree.visitDesc, hgt] using hb2
            · intro rd hrd
              simp only [List.mem_append] at hrd
              rcases hrd with (h | h) | h
              · exact hA1 rd h
              · exact ha2 rd h
              · exact Allowed.left (hal rd h)

end Gkv.Cache

/-! ### histories with range visits among the lookups and evictions -/

namespace Gkv.Cache
open Gkv Gkv.Lazy Gkv.Tree

/-- an answer agrees with Model A's answer on the abstract tree -/
def AgreesOut (cmp : Bytes → Bytes → Ordering) (T : Tree) : COut → COp2 → Prop
  | .one o, .point op => Agrees o (absOp cmp T op) op.wv
  | .many l, .visit asc tgt wv 0 => AgreeVisit wv l (absVisit cmp asc T tgt 0)
  | .many l, .visit asc tgt wv (k+1) => AgreeVisit wv l ((absVisit cmp asc T tgt 0).take (k+1))
  | _, _ => False

def AgreeAll2 (cmp : Bytes → Bytes → Ordering) (T : Tree) : List COut → List COp2 → Prop
  | [], [] => True
  | o :: os, op :: ops => AgreesOut cmp T o op ∧ AgreeAll2 cmp T os ops
  | _, _ => False

theorem stepC2_spec (f : Bytes) (bound : Nat) (cmp : Bytes → Bytes → Ordering) (fuel : Nat)
    (c : CTree) (T : Tree) (hc : T.Coherent f bound) (hr : Rep c T) (hf : T.height < fuel) (op : COp2) :
    ∃ out c' rds, stepC2 f cmp fuel c op = some (out, c', rds) ∧ Rep c' T ∧ AgreesOut cmp T out op := by
  cases op with
  | point op =>
    obtain ⟨res, c', rds, e, h1, h2, _⟩ := stepC_spec f bound cmp fuel c T hc hr hf op
    exact ⟨.one res, c', rds, by simp [stepC2, e], h1, h2⟩
  | visit asc tgt wv stop =>
    cases stop with
    | zero =>
      obtain ⟨out, c', rds, e, h1, h2, _⟩ := visitC_spec f bound cmp asc wv tgt fuel c T 0 hc hr hf
      exact ⟨.many out, c', rds, by simp [stepC2, e], h1, h2⟩
    | succ k =>
      obtain ⟨out, b', c', rds, e, h1, h2, _, _⟩ :=
        visitCK_spec f bound cmp asc wv tgt fuel c T 0 (k + 1) hc hr hf (by omega)
      exact ⟨.many out, c', rds, by simp [stepC2, e], h1, h2⟩

/-- Any history of lookups, Min/Max, evictions and range visits (to the end or stopped anywhere), in
    any order, from any cached view of a coherent tree: every call succeeds and answers as Model A
    does on the one abstract tree; the view at the end is a view of that tree -/
theorem runC2_spec (f : Bytes) (bound : Nat) (cmp : Bytes → Bytes → Ordering) (fuel : Nat) (T : Tree)
    (hc : T.Coherent f bound) (hf : T.height < fuel) :
    ∀ (ops : List COp2) (c : CTree), Rep c T →
    ∃ outs c' rds, runC2 f cmp fuel ops c = some (outs, c', rds) ∧ Rep c' T ∧ AgreeAll2 cmp T outs ops := by
  intro ops
  induction ops with
  | nil => intro c hr; exact ⟨[], c, [], rfl, hr, trivial⟩
  | cons op ops ih =>
    intro c hr
    obtain ⟨o, c1, r1, e1, hr1, hag⟩ := stepC2_spec f bound cmp fuel c T hc hr hf op
    obtain ⟨os, c2, r2, e2, hr2, hags⟩ := ih c1 hr1
    exact ⟨o :: os, c2, r1 ++ r2, by simp only [runC2, e1, e2, bind, Option.bind], hr2, hag, hags⟩

end Gkv.Cache

/-! ### … and what such histories read -/

namespace Gkv.Cache
open Gkv Gkv.Lazy Gkv.Tree

def COp2.wv : COp2 → Bool
  | .point op => op.wv
  | .visit _ _ w _ => w

theorem stepC2_reads (f : Bytes) (bound : Nat) (cmp : Bytes → Bytes → Ordering) (fuel : Nat)
    (c : CTree) (T : Tree) (hc : T.Coherent f bound) (hr : Rep c T) (hf : T.height < fuel) (op : COp2) :
    ∃ out c' rds, stepC2 f cmp fuel c op = some (out, c', rds) ∧ Rep c' T ∧
      ∀ rd ∈ rds, Allowed op.wv T rd := by
  cases op with
  | point op =>
    obtain ⟨res, c', rds, e, h1, _, h3⟩ := stepC_spec f bound cmp fuel c T hc hr hf op
    exact ⟨.one res, c', rds, by simp [stepC2, e], h1, h3⟩
  | visit asc tgt wv stop =>
    cases stop with
    | zero =>
      obtain ⟨out, c', rds, e, h1, _, h3⟩ := visitC_spec f bound cmp asc wv tgt fuel c T 0 hc hr hf
      exact ⟨.many out, c', rds, by simp [stepC2, e], h1, h3⟩
    | succ k =>
      obtain ⟨out, b', c', rds, e, h1, _, _, h3⟩ :=
        visitCK_spec f bound cmp asc wv tgt fuel c T 0 (k + 1) hc hr hf (by omega)
      exact ⟨.many out, c', rds, by simp [stepC2, e], h1, h3⟩

/-- a history none of whose calls asks for a value — lookups, Min/Max, evictions, range visits run
    to the end or stopped — reads node records and header+key ranges only -/
theorem runC2_keyonly_reads (f : Bytes) (bound : Nat) (cmp : Bytes → Bytes → Ordering) (fuel : Nat)
    (T : Tree) (hc : T.Coherent f bound) (hf : T.height < fuel) :
    ∀ (ops : List COp2) (c : CTree), Rep c T → (∀ op ∈ ops, op.wv = false) →
    ∃ outs c' rds, runC2 f cmp fuel ops c = some (outs, c', rds) ∧ Rep c' T ∧
      ∀ rd ∈ rds, Allowed false T rd := by
  intro ops
  induction ops with
  | nil => intro c hr _; exact ⟨[], c, [], rfl, hr, (fun _ h => by cases h)⟩
  | cons op ops ih =>
    intro c hr hall
    obtain ⟨o, c1, r1, e1, hr1, ha1⟩ := stepC2_reads f bound cmp fuel c T hc hr hf op
    obtain ⟨os, c2, r2, e2, hr2, ha2⟩ := ih c1 hr1 (fun op' h' => hall op' (List.mem_cons_of_mem _ h'))
    refine ⟨o :: os, c2, r1 ++ r2, by simp only [runC2, e1, e2, bind, Option.bind], hr2, ?_⟩
    intro rd hrd
    rcases List.mem_append.mp hrd with h | h
    · have := ha1 rd h
      rw [hall op (List.mem_cons_self ..)] at this
      exact this
    · exact ha2 rd h

end Gkv.Cache

/-! ### the executable form of `Rep` used by the driver (`cstatein`) -/

namespace Gkv.Cache
open Gkv

theorem repItemB_iff (ci : CItem) (i : Item) (q : Option Ploc) : repItemB ci i q = true ↔ RepItem ci i q := by
  cases ci with
  | stub loc => simp [repItemB, RepItem]
  | keyOnly k p loc => simp [repItemB, RepItem, and_assoc]
  | full i' loc => simp [repItemB, RepItem]

theorem repB_iff : ∀ (c : CTree) (T : Tree), repB c T = true ↔ Rep c T
  | .nil, .nil => by simp [repB, Rep]
  | .nil, .node _ _ _ _ _ _ _ => by simp [repB, Rep]
  | .stub _, .nil => by simp [repB, Rep]
  | .stub loc, .node _ _ _ _ _ p _ => by simp [repB, Rep]
  | .node _ _ _ _ _ _, .nil => by simp [repB, Rep]
  | .node cl ci nn nb cr cp, .node l i a b r p q => by
    simp only [repB, Rep, Bool.and_eq_true, beq_iff_eq, repB_iff cl l, repB_iff cr r, repItemB_iff, and_assoc]

end Gkv.Cache
