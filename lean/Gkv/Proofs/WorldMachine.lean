/-
The history interpreter IS the store machine (on the operation lines that are machine operations).

`Gkv.Model.World.stepTokens` is the function the differential tests execute; `Gkv.Machine.sstep`
is the state machine about which the history refinement theorem `Gkv.Machine.refinement` is proved.
This file connects the two:

* `machineOf w s f` reads the machine state of store `s` (writable, on file `f`) out of a world;
* `renderOp s f op` is the operation line of a machine operation;
* `world_simulates_machine`: one line of the interpreter = one step of the machine;
* `world_run_simulates`: a history of lines = a run of the machine;
* `world_refines_spec`: from the world right after `open s f` on an empty file, the contents the
  interpreter holds after any admissible history are those of the specification machine
  (`Gkv.Machine.refinement` transported to the interpreter).

The per-operation lemmas `sim_*_tok` are stated for EVERY spelling of the tokens that the
interpreter parses back to the intended values (`ts.toNat? = some s`, `parseBytes tn = some (some n)`,
…); `sim_*` instantiate them with the canonical spelling `toString` / `showBytes`, using the round
trips `toNat?_toString`, `toInt?_toString`, `parseBytes_showBytes`.

Side conditions (as the truth requires):
* `w.fault = none` (only `flush` needs it: an armed fault would make the interpreter's flush a faulty
  one, `sstep .flush` is the fault-free flush);
* `.set n i` needs `validItem i.key (some i.val) i.prio` (the interpreter answers `err-arg` and
  changes nothing otherwise, the machine's `.set` is "SetItem with a valid item");
* `.reopen`: `open` calls `openStore f …`, the machine `openStore 0 …`; the file id only lands in
  the `file` field of the result (`openStore_fid`), and when `openStore` does not return `.ok` both
  sides keep the store as it was (the interpreter only re-registers the file) — no side condition;
* the comparator hypothesis `hcmp` of the requested statement is NOT needed (both sides use the
  comparator stored in the collection for `set`/`del`, and `cmpOfName` for `setcoll`/`open`); it is
  kept in `world_simulates_machine` / `world_run_simulates` as an unused hypothesis so that the
  statements are the requested ones; the primed versions omit it.
-/
import Gkv.Proofs.WorldFrame
import Gkv.Model.Machine
import Gkv.Proofs.Machine
import Std.Data.String.ToInt

namespace Gkv

/-! ### token round trips -/

theorem toNat?_toString (n : Nat) : (toString n).toNat? = some n := Nat.toNat?_repr n
theorem toInt?_toString (n : Nat) : (toString n).toInt? = some (n : Int) := Nat.toInt?_repr n

theorem hexVal_hexChar (n : Nat) (h : n < 16) : hexVal (hexChar n) = some n := by
  have : ∀ m : Fin 16, hexVal (hexChar m.val) = some m.val := by decide
  exact this ⟨n, h⟩

def hexList (b : Bytes) : List Char :=
  b.foldr (fun x acc => hexChar (x.toNat / 16) :: hexChar (x.toNat % 16) :: acc) []

theorem parseHexAux_hexList (b : Bytes) : ∀ acc, parseHexAux (hexList b) acc = some (acc.reverse ++ b) := by
  induction b with
  | nil => intro acc; simp [hexList, parseHexAux]
  | cons x rest ih =>
    intro acc
    have hx : x.toNat < 256 := x.toNat_lt
    have e : hexList (x :: rest) = hexChar (x.toNat / 16) :: hexChar (x.toNat % 16) :: hexList rest := rfl
    rw [e, parseHexAux, hexVal_hexChar _ (by omega), hexVal_hexChar _ (by omega)]
    simp only [Option.bind_eq_bind, Option.bind_some]
    rw [ih]
    have : UInt8.ofNat (x.toNat / 16 * 16 + x.toNat % 16) = x := by
      rw [Nat.div_add_mod']; simp
    rw [this]; simp

theorem parseBytes_showBytes (b : Bytes) : parseBytes (showBytes b) = some (some b) := by
  have e : (showBytes b).toList = 'h' :: hexList b := by
    simp [showBytes, hexOf, hexList]
  unfold parseBytes
  rw [e]
  simp [parseHexAux_hexList]

/-! ### the machine inside a world -/

/-- the machine state of store `s` living on file `f` in a world -/
def machineOf (w : World) (s f : Nat) : Option Machine.SState :=
  match assocGet s w.stores with
  | some st => if st.file = some f ∧ st.readOnly = false then some ⟨st.colls, (w.file f).bytes, st.size⟩ else none
  | none => none

/-- the operation line for a machine operation on store `s` (file `f`) -/
def renderOp (s f : Nat) : Machine.SOp → List String
  | .setColl n => ["setcoll", toString s, showBytes n]
  | .rmColl n => ["rmcoll", toString s, showBytes n]
  | .set n i => ["set", toString s, showBytes n, showBytes i.key, showBytes i.val, toString i.prio]
  | .del n k => ["del", toString s, showBytes n, showBytes k]
  | .flush => ["flush", toString s]
  | .reopen => ["open", toString s, toString f]
  -- `.reopen`: NewStore on the same file under the same id (the harness closes/drops the old store
  -- first; in the model `open` simply replaces the entry)

theorem machineOf_some {w : World} {s f : Nat} {m : Machine.SState} (hm : machineOf w s f = some m) :
    ∃ st, assocGet s w.stores = some st ∧ st.file = some f ∧ st.readOnly = false ∧
      m = ⟨st.colls, (w.file f).bytes, st.size⟩ := by
  unfold machineOf at hm
  split at hm
  · rename_i st hst
    split at hm
    · rename_i h
      exact ⟨st, hst, h.1, h.2, (Option.some.inj hm).symm⟩
    · cases hm
  · cases hm

theorem machineOf_intro {w : World} {s f : Nat} {st : Store} (hst : assocGet s w.stores = some st)
    (hf : st.file = some f) (hro : st.readOnly = false) :
    machineOf w s f = some ⟨st.colls, (w.file f).bytes, st.size⟩ := by
  unfold machineOf
  rw [hst]
  simp [hf, hro]

theorem sim_setColl_tok (w : World) (s f : Nat) (ts tn : String) (n : Bytes) (m : Machine.SState)
    (hs : ts.toNat? = some s) (hn : parseBytes tn = some (some n))
    (hm : machineOf w s f = some m) :
    machineOf (stepTokens w ["setcoll", ts, tn]).1 s f = some (Machine.sstep cmpOfName m (.setColl n)) := by
  obtain ⟨st, hst, hf, hro, rfl⟩ := machineOf_some hm
  step_reduce
  rw [hs, hn]
  dsimp only
  rw [hst]
  dsimp only
  rw [machineOf_intro (st := { st with colls := collsSet _ st.colls }) (assocGet_assocSet_eq _ _ _) hf hro]
  unfold Machine.sstep
  dsimp only [putColl, World.file]
  cases hc : collsGet n st.colls with
  | none => rfl
  | some c =>
    have := (Machine.collsGet_some hc).2
    simp [this]

theorem sim_rmColl_tok (w : World) (s f : Nat) (ts tn : String) (n : Bytes) (m : Machine.SState)
    (hs : ts.toNat? = some s) (hn : parseBytes tn = some (some n))
    (hm : machineOf w s f = some m) :
    machineOf (stepTokens w ["rmcoll", ts, tn]).1 s f = some (Machine.sstep cmpOfName m (.rmColl n)) := by
  obtain ⟨st, hst, hf, hro, rfl⟩ := machineOf_some hm
  step_reduce
  rw [hs, hn]
  dsimp only
  rw [hst]
  dsimp only
  rw [machineOf_intro (st := { st with colls := collsRemove n st.colls }) (assocGet_assocSet_eq _ _ _) hf hro]
  rfl

theorem sim_set_tok (w : World) (s f : Nat) (ts tn tk tv tp : String) (n : Bytes) (i : Item) (m : Machine.SState)
    (hs : ts.toNat? = some s) (hn : parseBytes tn = some (some n))
    (hk : parseBytes tk = some (some i.key)) (hv : parseBytes tv = some (some i.val))
    (hp : tp.toInt? = some (i.prio : Int))
    (hvalid : validItem i.key (some i.val) i.prio = true)
    (hm : machineOf w s f = some m) :
    machineOf (stepTokens w ["set", ts, tn, tk, tv, tp]).1 s f = some (Machine.sstep cmpOfName m (.set n i)) := by
  obtain ⟨st, hst, hf, hro, rfl⟩ := machineOf_some hm
  step_reduce
  rw [hs, hn, hk, hv, hp]
  dsimp only
  unfold withColl Machine.sstep
  rw [hst]
  dsimp only
  cases hc : collsGet n st.colls with
  | none => exact machineOf_intro hst hf hro
  | some c =>
    dsimp only
    simp only [hro, Option.getD_some, hvalid, Option.isNone_some, Bool.false_eq_true, if_false, Bool.not_true, Bool.or_false]
    rw [machineOf_intro (st := { st with colls := collsSet _ st.colls }) (assocGet_assocSet_eq _ _ _) hf hro]
    rfl

theorem sim_del_tok (w : World) (s f : Nat) (ts tn tk : String) (n k : Bytes) (m : Machine.SState)
    (hs : ts.toNat? = some s) (hn : parseBytes tn = some (some n))
    (hk : parseBytes tk = some (some k))
    (hm : machineOf w s f = some m) :
    machineOf (stepTokens w ["del", ts, tn, tk]).1 s f = some (Machine.sstep cmpOfName m (.del n k)) := by
  obtain ⟨st, hst, hf, hro, rfl⟩ := machineOf_some hm
  step_reduce
  rw [hs, hn, hk]
  dsimp only
  unfold withColl Machine.sstep
  rw [hst]
  dsimp only
  cases hc : collsGet n st.colls with
  | none => exact machineOf_intro hst hf hro
  | some c =>
    dsimp only
    simp only [hro, Option.getD_some, Bool.false_eq_true, if_false]
    rw [machineOf_intro (st := { st with colls := collsSet _ st.colls }) (assocGet_assocSet_eq _ _ _) hf hro]
    rfl
theorem sim_flush_tok (w : World) (s f : Nat) (ts : String) (m : Machine.SState)
    (hs : ts.toNat? = some s) (hfault : w.fault = none)
    (hm : machineOf w s f = some m) :
    machineOf (stepTokens w ["flush", ts]).1 s f = some (Machine.sstep cmpOfName m .flush) := by
  obtain ⟨st, hst, hf, hro, rfl⟩ := machineOf_some hm
  step_reduce
  rw [hs]
  dsimp only
  rw [hst]
  dsimp only
  simp only [hro, Bool.false_eq_true, if_false]
  rw [hf, hfault]
  dsimp only
  rw [machineOf_intro (st := ⟨some f, _, _, false⟩) (assocGet_assocSet_eq _ _ _) rfl rfl]
  simp only [World.file, assocGet_assocSet_eq, Option.getD_some, recordWrites]
  rfl

theorem openStore_fid (a b : Nat) (bytes : Bytes) (cmpOf : Bytes → CmpKind) :
    (∃ sz cs, openStore a bytes cmpOf = .ok ⟨some a, sz, cs, false⟩ ∧ openStore b bytes cmpOf = .ok ⟨some b, sz, cs, false⟩)
    ∨ (openStore a bytes cmpOf = .noRoots ∧ openStore b bytes cmpOf = .noRoots)
    ∨ (openStore a bytes cmpOf = .corrupt ∧ openStore b bytes cmpOf = .corrupt) := by
  unfold openStore
  split
  · exact Or.inl ⟨_, _, rfl, rfl⟩
  · split
    · split
      · exact Or.inl ⟨_, _, rfl, rfl⟩
      · exact Or.inr (Or.inr ⟨rfl, rfl⟩)
    · exact Or.inl ⟨_, _, rfl, rfl⟩
    · exact Or.inr (Or.inl ⟨rfl, rfl⟩)

theorem sim_reopen_tok (w : World) (s f : Nat) (ts tf : String) (m : Machine.SState)
    (hs : ts.toNat? = some s) (hf' : tf.toNat? = some f)
    (hm : machineOf w s f = some m) :
    machineOf (stepTokens w ["open", ts, tf]).1 s f = some (Machine.sstep cmpOfName m .reopen) := by
  obtain ⟨st, hst, hf, hro, rfl⟩ := machineOf_some hm
  step_reduce
  rw [hs, hf']
  dsimp only
  unfold Machine.sstep
  dsimp only
  rcases openStore_fid f 0 (w.file f).bytes cmpOfName with ⟨sz, cs, h1, h2⟩ | ⟨h1, h2⟩ | ⟨h1, h2⟩
  all_goals rw [h1, h2]
  all_goals dsimp only
  · rw [machineOf_intro (st := ⟨some f, sz, cs, false⟩) (assocGet_assocSet_eq _ _ _) rfl rfl]
    simp only [World.file, assocGet_assocSet_eq, Option.getD_some]
  · rw [machineOf_intro (w := { w with files := assocSet f (w.file f) w.files }) (st := st) hst hf hro]
    simp only [World.file, assocGet_assocSet_eq, Option.getD_some]
  · rw [machineOf_intro (w := { w with files := assocSet f (w.file f) w.files }) (st := st) hst hf hro]
    simp only [World.file, assocGet_assocSet_eq, Option.getD_some]

/-! ### the canonical spelling -/

theorem sim_setColl (w : World) (s f : Nat) (n : Bytes) (m : Machine.SState)
    (hm : machineOf w s f = some m) :
    machineOf (stepTokens w (renderOp s f (.setColl n))).1 s f
      = some (Machine.sstep cmpOfName m (.setColl n)) :=
  sim_setColl_tok w s f _ _ n m (toNat?_toString s) (parseBytes_showBytes n) hm

theorem sim_rmColl (w : World) (s f : Nat) (n : Bytes) (m : Machine.SState)
    (hm : machineOf w s f = some m) :
    machineOf (stepTokens w (renderOp s f (.rmColl n))).1 s f
      = some (Machine.sstep cmpOfName m (.rmColl n)) :=
  sim_rmColl_tok w s f _ _ n m (toNat?_toString s) (parseBytes_showBytes n) hm

theorem sim_set (w : World) (s f : Nat) (n : Bytes) (i : Item) (m : Machine.SState)
    (hvalid : validItem i.key (some i.val) i.prio = true)
    (hm : machineOf w s f = some m) :
    machineOf (stepTokens w (renderOp s f (.set n i))).1 s f
      = some (Machine.sstep cmpOfName m (.set n i)) :=
  sim_set_tok w s f _ _ _ _ _ n i m (toNat?_toString s) (parseBytes_showBytes n)
    (parseBytes_showBytes i.key) (parseBytes_showBytes i.val) (toInt?_toString i.prio) hvalid hm

theorem sim_del (w : World) (s f : Nat) (n k : Bytes) (m : Machine.SState)
    (hm : machineOf w s f = some m) :
    machineOf (stepTokens w (renderOp s f (.del n k))).1 s f
      = some (Machine.sstep cmpOfName m (.del n k)) :=
  sim_del_tok w s f _ _ _ n k m (toNat?_toString s) (parseBytes_showBytes n)
    (parseBytes_showBytes k) hm

theorem sim_flush (w : World) (s f : Nat) (m : Machine.SState) (hfault : w.fault = none)
    (hm : machineOf w s f = some m) :
    machineOf (stepTokens w (renderOp s f .flush)).1 s f
      = some (Machine.sstep cmpOfName m .flush) :=
  sim_flush_tok w s f _ m (toNat?_toString s) hfault hm

theorem sim_reopen (w : World) (s f : Nat) (m : Machine.SState)
    (hm : machineOf w s f = some m) :
    machineOf (stepTokens w (renderOp s f .reopen)).1 s f
      = some (Machine.sstep cmpOfName m .reopen) :=
  sim_reopen_tok w s f _ _ m (toNat?_toString s) (toNat?_toString f) hm

/-! ### one line = one step -/

/-- the side condition on an operation: `set` carries an item `SetItem` accepts -/
def ValidOp : Machine.SOp → Prop
  | .set _ i => validItem i.key (some i.val) i.prio = true
  | _ => True

theorem world_simulates_machine' (w : World) (s f : Nat) (m : Machine.SState) (op : Machine.SOp)
    (hm : machineOf w s f = some m) (hfault : w.fault = none) (hvalid : ValidOp op) :
    machineOf (stepTokens w (renderOp s f op)).1 s f = some (Machine.sstep cmpOfName m op) := by
  cases op with
  | setColl n => exact sim_setColl w s f n m hm
  | rmColl n => exact sim_rmColl w s f n m hm
  | set n i => exact sim_set w s f n i m hvalid hm
  | del n k => exact sim_del w s f n k m hm
  | flush => exact sim_flush w s f m hfault hm
  | reopen => exact sim_reopen w s f m hm

/-- the requested statement (`hcmp` is not needed, see the header) -/
theorem world_simulates_machine (w : World) (s f : Nat) (m : Machine.SState) (op : Machine.SOp)
    (hm : machineOf w s f = some m) (hfault : w.fault = none)
    (hvalid : match op with | .set _ i => validItem i.key (some i.val) i.prio = true | _ => True)
    (_hcmp : ∀ c ∈ m.colls, c.cmp = cmpOfName c.name) :
    machineOf (stepTokens w (renderOp s f op)).1 s f = some (Machine.sstep cmpOfName m op) :=
  world_simulates_machine' w s f m op hm hfault (by cases op <;> first | exact hvalid | trivial)

/-! ### preservation of the side conditions -/

theorem withColl_fault (w : World) (s : Nat) (n : Bytes) (k : Store → Coll → World × String)
    (hk : ∀ st c, (k st c).1.fault = w.fault) : (withColl w s n k).1.fault = w.fault := by
  unfold withColl
  split
  · rfl
  · split
    · rfl
    · exact hk _ _

macro "fault_close" : tactic => `(tactic|
  repeat' (first
    | rfl
    | (apply withColl_fault; intro _ _)
    | split
    | (dsimp only; split)))

/-- none of the machine operation lines arms or disarms a fault -/
theorem renderOp_keeps_fault (w : World) (s f : Nat) (op : Machine.SOp) :
    (stepTokens w (renderOp s f op)).1.fault = w.fault := by
  cases op <;> (unfold renderOp; step_reduce; fault_close)

/-! ### histories -/

theorem world_run_simulates' (w : World) (s f : Nat) (m : Machine.SState) (ops : List Machine.SOp)
    (hm : machineOf w s f = some m) (hfault : w.fault = none) (hvalid : ∀ op ∈ ops, ValidOp op) :
    machineOf (ops.foldl (fun w op => (stepTokens w (renderOp s f op)).1) w) s f
      = some (ops.foldl (Machine.sstep cmpOfName) m) := by
  induction ops generalizing w m with
  | nil => exact hm
  | cons op rest ih =>
    rw [List.foldl_cons, List.foldl_cons]
    refine ih _ _ (world_simulates_machine' w s f m op hm hfault (hvalid op List.mem_cons_self)) ?_
      (fun o ho => hvalid o (List.mem_cons_of_mem _ ho))
    rw [renderOp_keeps_fault, hfault]

/-- the requested statement (`hcmp` is not needed, see the header) -/
theorem world_run_simulates (w : World) (s f : Nat) (m : Machine.SState) (ops : List Machine.SOp)
    (hm : machineOf w s f = some m) (hfault : w.fault = none)
    (hvalid : ∀ op ∈ ops,
      match op with | .set _ i => validItem i.key (some i.val) i.prio = true | _ => True)
    (_hcmp : ∀ c ∈ m.colls, c.cmp = cmpOfName c.name) :
    machineOf (ops.foldl (fun w op => (stepTokens w (renderOp s f op)).1) w) s f
      = some (ops.foldl (Machine.sstep cmpOfName) m) :=
  world_run_simulates' w s f m ops hm hfault
    (fun op ho => by have := hvalid op ho; cases op <;> first | exact this | trivial)

/-! ### the refinement theorem, about the interpreter -/

/-- `open s f` on an empty (or absent) file creates the initial machine state -/
theorem open_fresh (w0 : World) (s f : Nat) (hempty : (w0.file f).bytes = []) :
    machineOf (stepTokens w0 ["open", toString s, toString f]).1 s f = some Machine.sinit := by
  step_reduce
  rw [toNat?_toString, toNat?_toString]
  dsimp only
  have e : openStore f (w0.file f).bytes cmpOfName = .ok ⟨some f, 0, [], false⟩ := by
    rw [hempty]; rfl
  rw [e]
  dsimp only
  rw [machineOf_intro (st := ⟨some f, 0, [], false⟩) (assocGet_assocSet_eq _ _ _) rfl rfl]
  simp only [World.file, assocGet_assocSet_eq, Option.getD_some]
  change some (Machine.SState.mk [] (w0.file f).bytes 0) = _
  rw [hempty]
  rfl

theorem open_keeps_fault (w0 : World) (a b : String) :
    (stepTokens w0 ["open", a, b]).1.fault = w0.fault := by
  step_reduce; fault_close

/-- from the world right after `open s f` on an empty file, the interpreter's store `s` IS
    `Machine.srun` of the history — every theorem of `Gkv.Proofs.Machine` about `srun`
    (`refinement`, `invariant`, `durable_is_last_flush`, `reopen_shows_last_flush`, `names_sorted`)
    is thereby a theorem about the interpreter -/
theorem world_run_from_open (w0 : World) (s f : Nat) (ops : List Machine.SOp)
    (hempty : (w0.file f).bytes = []) (hfault : w0.fault = none)
    (hvalid : ∀ op ∈ ops, ValidOp op) :
    machineOf (ops.foldl (fun w op => (stepTokens w (renderOp s f op)).1)
        (stepTokens w0 ["open", toString s, toString f]).1) s f
      = some (Machine.srun cmpOfName ops) :=
  world_run_simulates' _ s f Machine.sinit ops (open_fresh w0 s f hempty)
    (by rw [open_keeps_fault, hfault]) hvalid

/-- C01(c) about the very function the differential tests run: start from any world without an
    armed fault in which file `f` is empty or absent, `open s f`, then run the lines of an
    admissible history `ops` (`Machine.HistOK`: plain names, items within the format limits, file
    below 4 GiB, fewer than 2^32 operations; `ValidOp`: the items are ones `SetItem` accepts).
    Store `s` is then a writable store on `f` whose contents — names, and per name the items in key
    order — are exactly those of the specification machine. -/
theorem world_refines_spec (w0 : World) (s f : Nat) (ops : List Machine.SOp)
    (hempty : (w0.file f).bytes = []) (hfault : w0.fault = none)
    (hok : Machine.HistOK cmpOfName ops) (hvalid : ∀ op ∈ ops, ValidOp op) :
    (machineOf (ops.foldl (fun w op => (stepTokens w (renderOp s f op)).1)
        (stepTokens w0 ["open", toString s, toString f]).1) s f).map Machine.absS
      = some (Machine.specRun cmpOfName ops).cur := by
  rw [world_run_from_open w0 s f ops hempty hfault hvalid]
  exact congrArg some (Machine.refinement cmpOfName ops hok)

/-- the same for the empty world (`reset`) -/
theorem world_refines_spec_reset (s f : Nat) (ops : List Machine.SOp)
    (hok : Machine.HistOK cmpOfName ops) (hvalid : ∀ op ∈ ops, ValidOp op) :
    (machineOf (ops.foldl (fun w op => (stepTokens w (renderOp s f op)).1)
        (stepTokens { files := [], stores := [] } ["open", toString s, toString f]).1) s f).map
        Machine.absS
      = some (Machine.specRun cmpOfName ops).cur :=
  world_refines_spec _ s f ops rfl rfl hok hvalid

/-- …and that store satisfies the store invariant (names sorted, every comparator the one its name
    determines — the `hcmp` condition, so it is preserved along admissible histories —, search
    trees, aggregates, coherence with the file, `size` = file length, the file re-opens) -/
theorem world_store_invariant (w0 : World) (s f : Nat) (ops : List Machine.SOp)
    (hempty : (w0.file f).bytes = []) (hfault : w0.fault = none)
    (hok : Machine.HistOK cmpOfName ops) (hvalid : ∀ op ∈ ops, ValidOp op) :
    ∃ m, machineOf (ops.foldl (fun w op => (stepTokens w (renderOp s f op)).1)
        (stepTokens w0 ["open", toString s, toString f]).1) s f = some m ∧
      Machine.StoreInv cmpOfName m :=
  ⟨_, world_run_from_open w0 s f ops hempty hfault hvalid, Machine.invariant cmpOfName ops hok⟩

end Gkv

/-
`#print axioms` (Lean 4.33.0):

'Gkv.toNat?_toString' depends on axioms: [propext, Classical.choice, Quot.sound]
'Gkv.toInt?_toString' depends on axioms: [propext, Classical.choice, Quot.sound]
'Gkv.parseBytes_showBytes' depends on axioms: [propext, Classical.choice, Quot.sound]
'Gkv.sim_setColl' depends on axioms: [propext, Classical.choice, Quot.sound]
'Gkv.sim_rmColl' depends on axioms: [propext, Classical.choice, Quot.sound]
'Gkv.sim_set' depends on axioms: [propext, Classical.choice, Quot.sound]
'Gkv.sim_del' depends on axioms: [propext, Classical.choice, Quot.sound]
'Gkv.sim_flush' depends on axioms: [propext, Classical.choice, Quot.sound]
'Gkv.sim_reopen' depends on axioms: [propext, Classical.choice, Quot.sound]
'Gkv.world_simulates_machine' depends on axioms: [propext, Classical.choice, Quot.sound]
'Gkv.world_run_simulates' depends on axioms: [propext, Classical.choice, Quot.sound]
'Gkv.world_run_from_open' depends on axioms: [propext, Classical.choice, Quot.sound]
'Gkv.world_refines_spec' depends on axioms: [propext, Classical.choice, Quot.sound]
'Gkv.world_refines_spec_reset' depends on axioms: [propext, Classical.choice, Quot.sound]
'Gkv.world_store_invariant' depends on axioms: [propext, Classical.choice, Quot.sound]
-/
