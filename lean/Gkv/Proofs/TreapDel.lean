/-
`join` / `delete` refine `Spec.erase`; stored aggregates stay exact through
`split` / `join` / `union` / `setItem` / `delete`; `split` / `join` / `delete` keep heap order.
-/
import Gkv.Proofs.Split
open Std

namespace Gkv

/-! ### list-level facts about `Spec.erase` / `Spec.lookup` -/
namespace Spec

variable (cmp : Bytes → Bytes → Ordering)

theorem del_erase_append_lt {k : Bytes} {i : Item} (h : cmp k i.key = .lt) (R : List Item) :
    ∀ L : List Item, erase cmp (L ++ i :: R) k = erase cmp L k ++ i :: R
  | [] => by simp [erase, h]
  | j :: L => by
    simp only [List.cons_append, erase]
    split
    · rfl
    · rfl
    · rw [del_erase_append_lt h R L]; rfl

theorem del_erase_append_gt {k : Bytes} {i : Item} (h : cmp k i.key = .gt) (R : List Item) :
    ∀ L : List Item, (∀ j ∈ L, cmp k j.key = .gt) →
      erase cmp (L ++ i :: R) k = L ++ i :: erase cmp R k
  | [], _ => by simp [erase, h]
  | j :: L, hL => by
    have hj : cmp k j.key = .gt := hL j (List.mem_cons_self ..)
    simp only [List.cons_append, erase, hj]
    rw [del_erase_append_gt h R L (fun x hx => hL x (List.mem_cons_of_mem _ hx))]

theorem del_erase_append_eq {k : Bytes} {i : Item} (h : cmp k i.key = .eq) (R : List Item) :
    ∀ L : List Item, (∀ j ∈ L, cmp k j.key = .gt) →
      erase cmp (L ++ i :: R) k = L ++ R
  | [], _ => by simp [erase, h]
  | j :: L, hL => by
    have hj : cmp k j.key = .gt := hL j (List.mem_cons_self ..)
    simp only [List.cons_append, erase, hj]
    rw [del_erase_append_eq h R L (fun x hx => hL x (List.mem_cons_of_mem _ hx))]

theorem del_lookup_append_lt {k : Bytes} {i : Item} (h : cmp k i.key = .lt) (R : List Item) :
    ∀ L : List Item, lookup cmp (L ++ i :: R) k = lookup cmp L k
  | [] => by simp [lookup, h]
  | j :: L => by
    simp only [List.cons_append, lookup]
    split
    · rfl
    · rfl
    · exact del_lookup_append_lt h R L

theorem del_lookup_append_gt {k : Bytes} {i : Item} (h : cmp k i.key = .gt) (R : List Item) :
    ∀ L : List Item, (∀ j ∈ L, cmp k j.key = .gt) →
      lookup cmp (L ++ i :: R) k = lookup cmp R k
  | [], _ => by simp [lookup, h]
  | j :: L, hL => by
    have hj : cmp k j.key = .gt := hL j (List.mem_cons_self ..)
    simp only [List.cons_append, lookup, hj]
    exact del_lookup_append_gt h R L (fun x hx => hL x (List.mem_cons_of_mem _ hx))

theorem del_lookup_append_eq {k : Bytes} {i : Item} (h : cmp k i.key = .eq) (R : List Item) :
    ∀ L : List Item, (∀ j ∈ L, cmp k j.key = .gt) →
      lookup cmp (L ++ i :: R) k = some i
  | [], _ => by simp [lookup, h]
  | j :: L, hL => by
    have hj : cmp k j.key = .gt := hL j (List.mem_cons_self ..)
    simp only [List.cons_append, lookup, hj]
    exact del_lookup_append_eq h R L (fun x hx => hL x (List.mem_cons_of_mem _ hx))

/-- erasing a key that is not there changes nothing (no sortedness needed) -/
theorem del_erase_of_lookup_none {k : Bytes} :
    ∀ L : List Item, lookup cmp L k = none → erase cmp L k = L
  | [], _ => rfl
  | j :: L, h => by
    simp only [lookup] at h
    simp only [erase]
    cases hc : cmp k j.key <;> simp only [hc] at h ⊢
    · cases h
    · rw [del_erase_of_lookup_none L h]

end Spec

namespace Tree

/-! ### `join` -/

theorem join_toList (a b : Tree) : (join a b).toList = a.toList ++ b.toList := by
  fun_induction join a b with
  | case1 t => simp [toList]
  | case2 l i a b r p q => simp [toList]
  | case3 l1 i1 a1 b1 r1 p1 q1 l2 i2 a2 b2 r2 p2 q2 h ih =>
    simp only [toList_mk, ih, toList, List.append_assoc, List.cons_append]
  | case4 l1 i1 a1 b1 r1 p1 q1 l2 i2 a2 b2 r2 p2 q2 h ih =>
    simp only [toList_mk, ih, toList, List.append_assoc, List.cons_append]

section bst
variable (cmp : Bytes → Bytes → Ordering) [TransCmp cmp]

theorem join_bst {a b : Tree} (ha : BST cmp a) (hb : BST cmp b)
    (hsep : ∀ x ∈ a.toList, ∀ y ∈ b.toList, cmp x.key y.key = .lt) : BST cmp (join a b) := by
  fun_induction join a b with
  | case1 t => exact hb
  | case2 l i a b r p q => exact ha
  | case3 l1 i1 a1 b1 r1 p1 q1 l2 i2 a2 b2 r2 p2 q2 h ih =>
    obtain ⟨hl1, hr1, hal1, har1⟩ := ha
    refine (BST_mk cmp).mpr ⟨hl1, ih hr1 hb ?_, hal1, ?_⟩
    · intro x hx y hy
      exact hsep x (by simp [toList, hx]) y hy
    · rw [All_iff_toList, join_toList]
      intro y hy
      rcases List.mem_append.mp hy with hy | hy
      · exact (All_iff_toList _).mp har1 y hy
      · exact OrientedCmp.gt_of_lt (hsep i1 (by simp [toList]) y hy)
  | case4 l1 i1 a1 b1 r1 p1 q1 l2 i2 a2 b2 r2 p2 q2 h ih =>
    obtain ⟨hl2, hr2, hal2, har2⟩ := hb
    refine (BST_mk cmp).mpr ⟨ih ha hl2 ?_, hr2, ?_, har2⟩
    · intro x hx y hy
      exact hsep x hx y (by simp [toList, hy])
    · rw [All_iff_toList, join_toList]
      intro x hx
      rcases List.mem_append.mp hx with hx | hx
      · exact hsep x hx i2 (by simp [toList])
      · exact (All_iff_toList _).mp hal2 x hx

/-- private version of "`get` is `lookup` on the in-order list" -/
theorem del_get_eq_lookup : ∀ {t : Tree}, BST cmp t → ∀ k : Bytes,
    get cmp t k = Spec.lookup cmp t.toList k
  | nil, _, k => rfl
  | node l i a b r p q, ⟨hl, hr, hal, har⟩, k => by
    have hal' := (All_iff_toList _).mp hal
    simp only [get, toList]
    split
    next hlt =>
      rw [Spec.del_lookup_append_lt cmp hlt, del_get_eq_lookup hl k]
    next hgt =>
      have hik : cmp i.key k = .lt := OrientedCmp.lt_of_gt hgt
      rw [Spec.del_lookup_append_gt cmp hgt, del_get_eq_lookup hr k]
      intro j hj
      exact OrientedCmp.gt_of_lt (TransCmp.lt_trans (hal' j hj) hik)
    next heq =>
      have hik : cmp i.key k = .eq := by rw [OrientedCmp.eq_comm]; exact heq
      rw [Spec.del_lookup_append_eq cmp heq]
      intro j hj
      exact OrientedCmp.gt_of_lt (TransCmp.lt_of_lt_of_eq (hal' j hj) hik)

/-- the outer pieces of `split` are the in-order list with the key erased -/
theorem del_split_toList : ∀ {t : Tree}, BST cmp t → ∀ s : Bytes,
    (split cmp t s).1.toList ++ (split cmp t s).2.2.toList = Spec.erase cmp t.toList s
  | nil, _, s => rfl
  | node l i a b r p q, ⟨hl, hr, hal, har⟩, s => by
    have hal' := (All_iff_toList _).mp hal
    unfold split
    split
    next heq =>
      have hik : cmp i.key s = .eq := by rw [OrientedCmp.eq_comm]; exact heq
      simp only [toList]
      rw [Spec.del_erase_append_eq cmp heq]
      intro j hj
      exact OrientedCmp.gt_of_lt (TransCmp.lt_of_lt_of_eq (hal' j hj) hik)
    next hlt =>
      split
      · simp [toList, Spec.erase, hlt]
      · simp only [toList_mk, toList]
        rw [Spec.del_erase_append_lt cmp hlt, ← del_split_toList hl s, List.append_assoc]
    next hgt =>
      have hik : cmp i.key s = .lt := OrientedCmp.lt_of_gt hgt
      have hLgt : ∀ j ∈ l.toList, cmp s j.key = .gt := fun j hj =>
        OrientedCmp.gt_of_lt (TransCmp.lt_trans (hal' j hj) hik)
      split
      · simp only [toList, List.append_nil]
        rw [Spec.del_erase_append_gt cmp hgt _ _ hLgt]
        rfl
      · simp only [toList_mk, toList]
        rw [Spec.del_erase_append_gt cmp hgt _ _ hLgt, ← del_split_toList hr s]
        simp

theorem delete_bst {t : Tree} (h : BST cmp t) (k : Bytes) : BST cmp (delete cmp t k).1 := by
  unfold delete
  split
  · exact h
  · have hs := split_bst cmp t k h
    refine join_bst cmp hs.1 hs.2.1 ?_
    intro x hx y hy
    have hx' := (All_iff_toList _).mp hs.2.2.1 x hx
    have hy' := (All_iff_toList _).mp hs.2.2.2 y hy
    exact TransCmp.lt_trans hx' (OrientedCmp.lt_of_gt hy')

theorem delete_toList {t : Tree} (h : BST cmp t) (k : Bytes) :
    (delete cmp t k).1.toList = Spec.erase cmp t.toList k := by
  unfold delete
  split
  next hnone =>
    rw [del_get_eq_lookup cmp h k] at hnone
    exact (Spec.del_erase_of_lookup_none cmp _ hnone).symm
  next =>
    simp only [join_toList]
    exact del_split_toList cmp h k

theorem delete_wasDeleted {t : Tree} (h : BST cmp t) (k : Bytes) :
    (delete cmp t k).2 = (Spec.lookup cmp t.toList k).isSome := by
  rw [← del_get_eq_lookup cmp h k]
  unfold delete
  split
  next hnone => simp [hnone]
  next i hsome => simp [hsome]

end bst

/-! ### stored aggregates -/

theorem del_length_toList : ∀ t : Tree, t.toList.length = t.size
  | nil => rfl
  | node l i a b r p q => by
    simp [toList, del_length_toList l, del_length_toList r]; omega

/-- under `AggOK` the stored aggregates of the root are the recomputed ones -/
theorem agg_root : ∀ {t : Tree}, AggOK t →
    t.nn = t.size ∧ t.nb = (t.toList.map Item.nbytes).sum
  | nil, _ => ⟨rfl, rfl⟩
  | node l i a b r p q, ⟨_, _, ha, hb⟩ => by
    refine ⟨ha, ?_⟩
    simp only [nb, toList, List.map_append, List.map_cons, List.sum_append, List.sum_cons]
    omega

theorem agg_mk {l r : Tree} (hl : AggOK l) (hr : AggOK r) (i : Item) (q : Option Ploc) :
    AggOK (mk l i r q) := by
  have h1 := agg_root hl
  have h2 := agg_root hr
  refine ⟨hl, hr, ?_, ?_⟩
  · omega
  · omega

section agg
variable (cmp : Bytes → Bytes → Ordering)

theorem split_agg : ∀ {t : Tree} (_ : AggOK t) (s : Bytes),
    AggOK (split cmp t s).1 ∧ AggOK (split cmp t s).2.1 ∧ AggOK (split cmp t s).2.2
  | nil, _, s => ⟨trivial, trivial, trivial⟩
  | node l i a b r p q, h, s => by
    obtain ⟨hl, hr, ha, hb⟩ := h
    unfold split
    split
    · exact ⟨hl, ⟨hl, hr, ha, hb⟩, hr⟩
    · split
      · exact ⟨trivial, trivial, ⟨hl, hr, ha, hb⟩⟩
      · have ih := split_agg hl s
        exact ⟨ih.1, ih.2.1, agg_mk ih.2.2 hr i q⟩
    · split
      · exact ⟨⟨hl, hr, ha, hb⟩, trivial, trivial⟩
      · have ih := split_agg hr s
        exact ⟨agg_mk hl ih.1 i q, ih.2.1, ih.2.2⟩

theorem join_agg {a b : Tree} (ha : AggOK a) (hb : AggOK b) : AggOK (join a b) := by
  fun_induction join a b with
  | case1 t => exact hb
  | case2 l i a b r p q => exact ha
  | case3 l1 i1 a1 b1 r1 p1 q1 l2 i2 a2 b2 r2 p2 q2 h ih =>
    exact agg_mk ha.1 (ih ha.2.1 hb) _ _
  | case4 l1 i1 a1 b1 r1 p1 q1 l2 i2 a2 b2 r2 p2 q2 h ih =>
    exact agg_mk (ih ha hb.1) hb.2.1 _ _

theorem union_agg {a b : Tree} (ha : AggOK a) (hb : AggOK b) : AggOK (union cmp a b) := by
  fun_induction union cmp a b with
  | case1 b => exact hb
  | case2 a _ => exact ha
  | case3 al ai an ab ar ap aq bl bi bn bb br bp bq hp x _ nl nr l mi nn nb r loc mq hm ih1 ih2 =>
    have hs := split_agg cmp hb ai.key
    exact agg_mk (ih1 ha.1 hs.1) (ih2 ha.2.1 hs.2.2) _ _
  | case4 al ai an ab ar ap aq bl bi bn bb br bp bq hp x _ nl nr hm ih1 ih2 =>
    have hs := split_agg cmp hb ai.key
    exact agg_mk (ih1 ha.1 hs.1) (ih2 ha.2.1 hs.2.2) _ _
  | case5 al ai an ab ar ap aq bl bi bn bb br bp bq hp x _ ih1 ih2 =>
    have hs := split_agg cmp ha bi.key
    exact agg_mk (ih1 hs.1 hb.1) (ih2 hs.2.2 hb.2.1) _ _

theorem setItem_agg {t : Tree} (h : AggOK t) (i : Item) : AggOK (setItem cmp t i) := by
  unfold setItem
  refine union_agg cmp h ⟨trivial, trivial, ?_, ?_⟩
  · simp
  · simp [toList]

theorem delete_agg {t : Tree} (h : AggOK t) (k : Bytes) : AggOK (delete cmp t k).1 := by
  unfold delete
  split
  · exact h
  · have hs := split_agg cmp h k
    exact join_agg hs.1 hs.2.2

end agg

theorem totals_eq {t : Tree} (h : AggOK t) : t.totals = Spec.totals t.toList := by
  have := agg_root h
  simp only [totals, Spec.totals, del_length_toList, this.1, this.2]

/-! ### heap order -/

/-- the root of `join a b` is the root of `a` or the root of `b` -/
theorem join_rootPrio (a b : Tree) (p : Nat) (h : (join a b).rootPrio = some p) :
    a.rootPrio = some p ∨ b.rootPrio = some p := by
  fun_induction join a b with
  | case1 t => exact Or.inr h
  | case2 l i a b r p q => exact Or.inl h
  | case3 l1 i1 a1 b1 r1 p1 q1 l2 i2 a2 b2 r2 p2 q2 hp ih => exact Or.inl h
  | case4 l1 i1 a1 b1 r1 p1 q1 l2 i2 a2 b2 r2 p2 q2 hp ih => exact Or.inr h

theorem join_heap {a b : Tree} (ha : HeapOK a) (hb : HeapOK b) : HeapOK (join a b) := by
  fun_induction join a b with
  | case1 t => exact hb
  | case2 l i a b r p q => exact ha
  | case3 l1 i1 a1 b1 r1 p1 q1 l2 i2 a2 b2 r2 p2 q2 hp ih =>
    obtain ⟨hl1, hr1, hpl1, hpr1⟩ := ha
    refine ⟨hl1, ih hr1 hb, hpl1, ?_⟩
    intro p h
    rcases join_rootPrio _ _ p h with h | h
    · exact hpr1 p h
    · simp only [rootPrio, Option.some.injEq] at h
      omega
  | case4 l1 i1 a1 b1 r1 p1 q1 l2 i2 a2 b2 r2 p2 q2 hp ih =>
    obtain ⟨hl2, hr2, hpl2, hpr2⟩ := hb
    refine ⟨ih ha hl2, hr2, ?_, hpr2⟩
    intro p h
    rcases join_rootPrio _ _ p h with h | h
    · simp only [rootPrio, Option.some.injEq] at h
      omega
    · exact hpl2 p h

section heap
variable (cmp : Bytes → Bytes → Ordering)

/-- strengthened form: the pieces keep heap order and no piece's root outranks a bound on the
    root of `t` -/
theorem split_heap_bound : ∀ {t : Tree} (_ : HeapOK t) (s : Bytes) (B : Nat),
    (∀ q, t.rootPrio = some q → q ≤ B) →
    (HeapOK (split cmp t s).1 ∧ ∀ p, (split cmp t s).1.rootPrio = some p → p ≤ B) ∧
    (HeapOK (split cmp t s).2.1 ∧ ∀ p, (split cmp t s).2.1.rootPrio = some p → p ≤ B) ∧
    (HeapOK (split cmp t s).2.2 ∧ ∀ p, (split cmp t s).2.2.rootPrio = some p → p ≤ B)
  | nil, _, s, B, _ => by
    simp [split, HeapOK, rootPrio]
  | node l i a b r p q, h, s, B, hB => by
    obtain ⟨hl, hr, hpl, hpr⟩ := h
    have hiB : i.prio ≤ B := hB i.prio rfl
    have hnil : ∀ p, (nil : Tree).rootPrio = some p → p ≤ B := fun p hp => by cases hp
    unfold split
    split
    · exact ⟨⟨hl, fun p hp => Nat.le_trans (hpl p hp) hiB⟩, ⟨⟨hl, hr, hpl, hpr⟩, hB⟩,
        ⟨hr, fun p hp => Nat.le_trans (hpr p hp) hiB⟩⟩
    · split
      · exact ⟨⟨trivial, hnil⟩, ⟨trivial, hnil⟩, ⟨⟨hl, hr, hpl, hpr⟩, hB⟩⟩
      · have ih := split_heap_bound hl s i.prio hpl
        refine ⟨⟨ih.1.1, fun p hp => Nat.le_trans (ih.1.2 p hp) hiB⟩,
          ⟨ih.2.1.1, fun p hp => Nat.le_trans (ih.2.1.2 p hp) hiB⟩,
          ⟨⟨ih.2.2.1, hr, ih.2.2.2, hpr⟩, ?_⟩⟩
        intro p hp
        simp only [mk, rootPrio, Option.some.injEq] at hp
        omega
    · split
      · exact ⟨⟨⟨hl, hr, hpl, hpr⟩, hB⟩, ⟨trivial, hnil⟩, ⟨trivial, hnil⟩⟩
      · have ih := split_heap_bound hr s i.prio hpr
        refine ⟨⟨⟨hl, ih.1.1, hpl, ih.1.2⟩, ?_⟩,
          ⟨ih.2.1.1, fun p hp => Nat.le_trans (ih.2.1.2 p hp) hiB⟩,
          ⟨ih.2.2.1, fun p hp => Nat.le_trans (ih.2.2.2 p hp) hiB⟩⟩
        intro p hp
        simp only [mk, rootPrio, Option.some.injEq] at hp
        omega

theorem split_heap {t : Tree} (h : HeapOK t) (s : Bytes) :
    HeapOK (split cmp t s).1 ∧ HeapOK (split cmp t s).2.1 ∧ HeapOK (split cmp t s).2.2 := by
  cases t with
  | nil => exact ⟨trivial, trivial, trivial⟩
  | node l i a b r p q =>
    have := split_heap_bound cmp h s i.prio (fun q hq => by
      simp only [rootPrio, Option.some.injEq] at hq; omega)
    exact ⟨this.1.1, this.2.1.1, this.2.2.1⟩

theorem delete_heap {t : Tree} (h : HeapOK t) (k : Bytes) : HeapOK (delete cmp t k).1 := by
  unfold delete
  split
  · exact h
  · have hs := split_heap cmp h k
    exact join_heap hs.1 hs.2.2

end heap

end Tree
end Gkv

open Gkv Tree in
#print axioms join_toList
open Gkv Tree in
#print axioms join_bst
open Gkv Tree in
#print axioms delete_bst
open Gkv Tree in
#print axioms delete_toList
open Gkv Tree in
#print axioms delete_wasDeleted
open Gkv Tree in
#print axioms split_agg
open Gkv Tree in
#print axioms join_agg
open Gkv Tree in
#print axioms union_agg
open Gkv Tree in
#print axioms setItem_agg
open Gkv Tree in
#print axioms delete_agg
open Gkv Tree in
#print axioms totals_eq
open Gkv Tree in
#print axioms join_heap
open Gkv Tree in
#print axioms split_heap
open Gkv Tree in
#print axioms delete_heap

/-
Observed `#print axioms` output (lake env lean Gkv/Proofs/TreapDel.lean, Lean 4.33):

'Gkv.Tree.join_toList' depends on axioms: [propext, Quot.sound]
'Gkv.Tree.join_bst' depends on axioms: [propext, Quot.sound]
'Gkv.Tree.delete_bst' depends on axioms: [propext, Quot.sound]
'Gkv.Tree.delete_toList' depends on axioms: [propext, Quot.sound]
'Gkv.Tree.delete_wasDeleted' depends on axioms: [propext, Quot.sound]
'Gkv.Tree.split_agg' depends on axioms: [propext, Quot.sound]
'Gkv.Tree.join_agg' depends on axioms: [propext, Quot.sound]
'Gkv.Tree.union_agg' depends on axioms: [propext, Quot.sound]
'Gkv.Tree.setItem_agg' depends on axioms: [propext, Quot.sound]
'Gkv.Tree.delete_agg' depends on axioms: [propext, Quot.sound]
'Gkv.Tree.totals_eq' depends on axioms: [propext, Quot.sound]
'Gkv.Tree.join_heap' depends on axioms: [propext, Quot.sound]
'Gkv.Tree.split_heap' depends on axioms: [propext, Quot.sound]
'Gkv.Tree.delete_heap' depends on axioms: [propext, Quot.sound]
-/
