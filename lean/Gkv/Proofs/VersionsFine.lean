/-
Proofs for `Gkv.Model.VersionsFine` (non-atomic marking, aborting mutations).

Method: refinement.  `abs` forgets the marks of the mutation in flight; every event of the fine-grained
system is matched by zero, one or two events of the atomic system of `Versions.lean`:

  acquire / release / load  ↦ the same event            beginMutate ↦ acquire N
  markOne, clearOne         ↦ (nothing)                 abort       ↦ release N
  commit Rn New T           ↦ release N ; mutate (pending \ Rn) Rn New T

so `ReachFine fs → Reach (abs fs)` and all of `HInv` is inherited.
-/
import Gkv.Model.VersionsFine
namespace Gkv.VersionsFine
open Classical
open Gkv.Versions

theorem St_ext : ∀ {a b : St}, a.N = b.N → a.refs = b.refs → a.hp = b.hp → a.chained = b.chained →
    a.tree = b.tree → a.mark = b.mark → a.freed = b.freed → a = b
  | ⟨_,_,_,_,_,_,_⟩, ⟨_,_,_,_,_,_,_⟩, rfl, rfl, rfl, rfl, rfl, rfl, rfl => rfl

/-- clearing no marks changes nothing -/
theorem clearMarks_empty (s : St) : clearMarks s (fun _ => False) = s := by
  apply St_ext <;> try rfl
  funext n; simp [clearMarks]

section clearlemmas
variable (s : St) (P : Nat → Prop)
@[simp] theorem clear_N : (clearMarks s P).N = s.N := rfl
@[simp] theorem clear_refs : (clearMarks s P).refs = s.refs := rfl
@[simp] theorem clear_hp : (clearMarks s P).hp = s.hp := rfl
@[simp] theorem clear_chained : (clearMarks s P).chained = s.chained := rfl
@[simp] theorem clear_tree : (clearMarks s P).tree = s.tree := rfl
@[simp] theorem clear_freed : (clearMarks s P).freed = s.freed := rfl
theorem clear_mark (n : Nat) : (clearMarks s P).mark n = if P n then none else s.mark n := rfl
theorem clear_chainIn (w : Nat) : chainIn (clearMarks s P) w = chainIn s w := rfl
end clearlemmas

/-- freeing the nodes of a version other than the current one commutes with forgetting the pending marks -/
theorem reclaim_clear (s : St) (P : Nat → Prop) (v : Nat) (Fv : Nat → Prop)
    (hv : v ≠ s.N) (hP : ∀ n, P n → s.mark n = some s.N) :
    reclaim (clearMarks s P) v Fv = clearMarks (reclaim s v Fv) P ∧
    (∀ n, P n → (reclaim s v Fv).mark n = some s.N) := by
  have hm1 : ∀ n, markAt (clearMarks s P) v n = (clearMarks s P).mark n := by
    intro n; unfold markAt; simp [hv]
  have hm2 : ∀ n, markAt s v n = s.mark n := by
    intro n; unfold markAt; simp [hv]
  refine ⟨?_, ?_⟩
  · apply St_ext <;> try rfl
    · funext n
      show markAt (clearMarks s P) v n = if P n then none else markAt s v n
      rw [hm1, hm2]; rfl
    · funext n
      show ((clearMarks s P).freed n ∨ (Fv n ∧ markAt (clearMarks s P) v n = some v)) =
           (s.freed n ∨ (Fv n ∧ markAt s v n = some v))
      rw [hm1, hm2, clear_mark]
      by_cases hp : P n
      · have := hP n hp
        have hne : ¬ (s.N = v) := fun e => hv e.symm
        simp [hp, this, hne]
      · simp [hp]
  · intro n hp
    show markAt s v n = some s.N
    rw [hm2]; exact hP n hp

/-- The `dec` cascade commutes with forgetting the pending marks, as long as the current version cannot die
    (`refs N > 1`: the mutator's pin plus the reference being dropped or a chain). -/
theorem dec_clear (F : Nat → Nat → Prop) (P : Nat → Prop) (M : Nat) : ∀ fuel s v,
    s.N = M → v ≤ M → s.refs M > 1 → (∀ n, P n → s.mark n = some M) →
    dec F fuel (clearMarks s P) v = clearMarks (dec F fuel s v) P ∧
    (∀ n, P n → (dec F fuel s v).mark n = some M) := by
  intro fuel
  induction fuel with
  | zero => intro s v _ _ _ hP; exact ⟨rfl, hP⟩
  | succ fuel ih =>
    intro s v hN hv hM hP
    unfold dec
    simp only [clear_refs, clear_chained]
    by_cases hgt : s.refs v > 1
    · simp only [hgt, ↓reduceIte]
      exact ⟨rfl, hP⟩
    · simp only [hgt, ↓reduceIte]
      have hvM : v ≠ M := by intro e; subst e; exact hgt hM
      by_cases hc : s.chained v = true
      · simp only [hc, ↓reduceIte]
        have hk : kill (clearMarks s P) v = clearMarks (kill s v) P := rfl
        have hi := ih (kill s v) (v+1) (by simpa using hN) (by omega)
          (by rw [kill_refs]; have : M ≠ v := fun e => hvM e.symm
              simp [this]; exact hM)
          (by simpa using hP)
        rw [hk, hi.1]
        have fr := dec_frame F fuel (kill s v) (v+1)
        have hN2 : (dec F fuel (kill s v) (v+1)).N = M := by rw [fr.1]; simpa using hN
        have := reclaim_clear (dec F fuel (kill s v) (v+1)) P v (F v) (by rw [hN2]; exact hvM)
          (by rw [hN2]; exact hi.2)
        rw [hN2] at this
        exact this
      · simp only [hc]
        have hk : kill (clearMarks s P) v = clearMarks (kill s v) P := rfl
        rw [hk]
        have hN2 : (kill s v).N = M := by simpa using hN
        have := reclaim_clear (kill s v) P v (F v) (by rw [hN2]; exact hvM)
          (by rw [hN2]; simpa using hP)
        rw [hN2] at this
        exact this

/-- the mutator's pin removed: one holder and one reference less on the current version -/
def unpin (s : St) : St :=
  { s with hp := fun w => if w = s.N then s.hp s.N - 1 else s.hp w,
           refs := fun w => if w = s.N then s.refs s.N - 1 else s.refs w }

/-- releasing a holder of a version that has other references is a plain decrement -/
theorem release_gt (F : Nat → Nat → Prop) (s : St) (v : Nat) (h : s.refs v > 1) :
    release F s v =
      { s with hp := fun w => if w = v then s.hp v - 1 else s.hp w,
               refs := fun w => if w = v then s.refs v - 1 else s.refs w } := by
  unfold release dec
  have : (dropHolder s v).refs v > 1 := h
  simp only [this, ↓reduceIte]
  rfl

/-- unpinning is the atomic system's `release N` when N has other references -/
theorem release_eq_unpin (F : Nat → Nat → Prop) (s : St) (h : s.refs s.N > 1) :
    release F s s.N = unpin s := release_gt F s s.N h

/-- The code's commit (rootCAS with the `refs > 2` test, then two rootDecRef) is the atomic `mutate` of
    Versions.lean run from the state without the mutator's pin and without the pending marks. -/
theorem commitSt_eq (F : Nat → Nat → Prop) (s : St) (P Rn New T : Nat → Prop)
    (hacct : s.refs s.N = s.hp s.N + chainIn s s.N) (hhp : s.hp s.N ≥ 2) :
    commitSt F s P Rn New T = mutate F (unpin (clearMarks s P)) (keepR P Rn) Rn New T := by
  have hr2 : s.refs s.N > 1 := by omega
  unfold commitSt mutate
  simp only []
  -- first rootDecRef: a plain decrement
  have h1 : dec F (s.N + 2) (publishF s (keepR P Rn) Rn New T) s.N =
      { publishF s (keepR P Rn) Rn New T with
        refs := fun w => if w = s.N then s.refs s.N - 1 else (publishF s (keepR P Rn) Rn New T).refs w } := by
    unfold dec
    have e : (publishF s (keepR P Rn) Rn New T).refs s.N = s.refs s.N := by simp [publishF]
    have : (publishF s (keepR P Rn) Rn New T).refs s.N > 1 := by rw [e]; exact hr2
    simp only [e, hr2, ↓reduceIte]
  rw [h1]
  unfold release
  have hN : (unpin (clearMarks s P)).N = s.N := rfl
  rw [hN]
  have hci : chainIn (unpin (clearMarks s P)) s.N = chainIn s s.N := rfl
  have hch : decide (s.refs s.N > 2) =
      decide ((unpin (clearMarks s P)).hp (unpin (clearMarks s P)).N +
              chainIn (unpin (clearMarks s P)) (unpin (clearMarks s P)).N ≥ 2) := by
    rw [hN, hci]
    have : (unpin (clearMarks s P)).hp s.N = s.hp s.N - 1 := by simp [unpin]
    rw [this]
    apply decide_eq_decide.mpr
    omega
  congr 1
  apply St_ext
  · rfl
  · funext w
    show (if w = s.N then s.refs s.N - 1 else (publishF s (keepR P Rn) Rn New T).refs w) =
      (publish (unpin (clearMarks s P)) (keepR P Rn) Rn New T).refs w
    by_cases h1 : w = s.N + 1
    · subst h1
      simp only [publishF, publish, hN, ↓reduceIte, hch]
      simp
    · by_cases h2 : w = s.N
      · subst h2; simp [publish, unpin]
      · simp [publishF, publish, unpin, h1, h2]
  · funext w
    show (if w = s.N then (publishF s (keepR P Rn) Rn New T).hp s.N - 1
          else (publishF s (keepR P Rn) Rn New T).hp w) =
      (publish (unpin (clearMarks s P)) (keepR P Rn) Rn New T).hp w
    by_cases h1 : w = s.N + 1
    · have h2 : w ≠ s.N := by omega
      subst h1
      simp [publishF, publish, hN]
    · by_cases h2 : w = s.N
      · subst h2; simp [publishF, publish, unpin]
      · simp [publishF, publish, unpin, h1, h2]
  · funext w
    show (if w = s.N then decide (s.refs s.N > 2) else s.chained w) =
      (publish (unpin (clearMarks s P)) (keepR P Rn) Rn New T).chained w
    rw [hch]; rfl
  · rfl
  · funext n
    show (if keepR P Rn n then some s.N else if Rn n ∨ T n then some (s.N+1) else s.mark n) =
      (if keepR P Rn n then some s.N else if Rn n ∨ T n then some (s.N+1)
       else if P n then none else s.mark n)
    by_cases hk : keepR P Rn n
    · simp [hk]
    · by_cases hrt : Rn n ∨ T n
      · simp [hk, hrt]
      · have : ¬ P n := by
          intro hp; apply hk; exact ⟨hp, fun h => hrt (Or.inl h)⟩
        simp [hk, hrt, this]
  · rfl

/-- the facts about the ghost component -/
structure PInv (fs : FSt) : Prop where
  idle_none : fs.inflight = false → ∀ n, ¬ fs.pending n
  pending_ok : ∀ n, fs.pending n → fs.base.tree fs.base.N n ∧ fs.base.mark n = some fs.base.N
  pinned : fs.inflight = true → fs.base.hp fs.base.N ≥ 1

theorem pending_empty {fs : FSt} (h : PInv fs) (hi : fs.inflight = false) :
    fs.pending = fun _ => False := by
  funext n; exact propext ⟨fun hp => h.idle_none hi n hp, False.elim⟩

/-- with no mutation in flight the abstraction is the identity -/
theorem abs_idle {fs : FSt} (h : PInv fs) (hi : fs.inflight = false) : abs fs = fs.base := by
  unfold abs; rw [pending_empty h hi]; exact clearMarks_empty _

/-- While a mutation is in flight, whenever some holder other than the mutator's pin is released, the current
    version has at least two references (so the cascade cannot reclaim it) — derived from the accounting. -/
theorem inflight_release_refs {fs : FSt} (ha : HInv (abs fs)) (hp : PInv fs) (hi : fs.inflight = true)
    (v : Nat) (hv : fs.base.hp v > reserved fs v) : v ≤ fs.base.N ∧ fs.base.refs fs.base.N > 1 := by
  have hv0 : (abs fs).hp v > 0 := by show fs.base.hp v > 0; omega
  have hvN : v ≤ fs.base.N := hp_le_N ha v hv0
  refine ⟨hvN, ?_⟩
  have hpin := hp.pinned hi
  have hacN : fs.base.refs fs.base.N = fs.base.hp fs.base.N + chainIn (abs fs) fs.base.N := ha.acct fs.base.N
  by_cases e : v = fs.base.N
  · have : reserved fs v = 1 := by simp [reserved, hi, e]
    rw [this, e] at hv; omega
  · have hacv : fs.base.refs v = fs.base.hp v + chainIn (abs fs) v := ha.acct v
    have hlive : (abs fs).refs v > 0 := by show fs.base.refs v > 0; omega
    have := older_live_chainIn ha v fs.base.N (by omega) (Nat.le_refl _) hlive
    omega

/-- REFINEMENT: every reachable state of the fine-grained system abstracts (by forgetting the pending marks) to a
    reachable state of the atomic system of Versions.lean, and the ghost component is well formed. -/
theorem refine (F : Nat → Nat → Prop) : ∀ fs, ReachFine F fs → Reach F (abs fs) ∧ PInv fs := by
  intro fs hr
  induction hr with
  | init =>
    refine ⟨?_, ⟨fun _ n h => h, fun n h => h.elim, fun h => by cases h⟩⟩
    show Reach F (clearMarks init0 (fun _ => False))
    rw [clearMarks_empty]; exact Reach.init 0
  | @acquire fs v _ hv ih =>
    refine ⟨?_, ⟨ih.2.idle_none, ih.2.pending_ok, ?_⟩⟩
    · show Reach F (acquire (abs fs) v)
      exact Reach.acquire ih.1 hv
    · intro hi
      have := ih.2.pinned hi
      show (if fs.base.N = v then fs.base.hp v + 1 else fs.base.hp fs.base.N) ≥ 1
      split <;> omega
  | @release fs v _ hv ih =>
    have ha := reach_inv F _ ih.1
    cases hi : fs.inflight with
    | false =>
      have hv0 : fs.base.hp v > 0 := by
        have : reserved fs v = 0 := by simp [reserved, hi]
        omega
      have he : (fRelease F fs v).pending = fun _ => False := show fs.pending = _ from pending_empty ih.2 hi
      refine ⟨?_, ⟨fun _ n h => by rw [he] at h; exact h, fun n h => by rw [he] at h; exact h.elim,
        fun h => by rw [show (fRelease F fs v).inflight = fs.inflight from rfl, hi] at h; cases h⟩⟩
      show Reach F (clearMarks (release F fs.base v) (fRelease F fs v).pending)
      rw [he, clearMarks_empty]
      have := Reach.release (v := v) ih.1 (by rw [abs_idle ih.2 hi]; exact hv0)
      rw [abs_idle ih.2 hi] at this
      exact this
    | true =>
      have hh := inflight_release_refs ha ih.2 hi v hv
      have hv0 : fs.base.hp v > 0 := by omega
      have hdc := dec_clear F fs.pending fs.base.N (fs.base.N + 1) (dropHolder fs.base v) v rfl hh.1 hh.2
        (fun n hn => (ih.2.pending_ok n hn).2)
      have fr := dec_frame F (fs.base.N + 1) (dropHolder fs.base v) v
      refine ⟨?_, ⟨?_, ?_, ?_⟩⟩
      · show Reach F (clearMarks (release F fs.base v) fs.pending)
        have e : clearMarks (release F fs.base v) fs.pending = release F (abs fs) v := hdc.1.symm
        rw [e]
        exact Reach.release ih.1 hv0
      · intro h; rw [show (fRelease F fs v).inflight = fs.inflight from rfl, hi] at h; cases h
      · intro n hn
        have hn' : fs.pending n := hn
        refine ⟨?_, ?_⟩
        · show (release F fs.base v).tree (release F fs.base v).N n
          unfold release; rw [fr.2.1, fr.1]
          exact (ih.2.pending_ok n hn').1
        · show (release F fs.base v).mark n = some (release F fs.base v).N
          unfold release; rw [fr.1]
          exact hdc.2 n hn'
      · intro _
        show (release F fs.base v).hp (release F fs.base v).N ≥ 1
        unfold release; rw [fr.2.2.1, fr.1]
        have hpin := ih.2.pinned hi
        show (if fs.base.N = v then fs.base.hp v - 1 else fs.base.hp fs.base.N) ≥ 1
        by_cases e : fs.base.N = v
        · have : reserved fs v = 1 := by simp [reserved, hi, e]
          simp [e]; omega
        · simp [e]; exact hpin
  | @load fs p x _ hm hf ih =>
    refine ⟨?_, ⟨ih.2.idle_none, ?_, ih.2.pinned⟩⟩
    · show Reach F (load (abs fs) p x)
      refine Reach.load ih.1 ?_ hf
      show (if fs.pending x then none else fs.base.mark x) = none
      simp [hm]
    · intro n hn
      have := ih.2.pending_ok n hn
      exact ⟨Or.inl this.1, this.2⟩
  | @beginMutate fs _ hi hh ih =>
    refine ⟨?_, ⟨(fun h => by cases h), fun n h => h.elim, ?_⟩⟩
    · show Reach F (clearMarks (acquire fs.base fs.base.N) (fun _ => False))
      rw [clearMarks_empty]
      have := Reach.acquire (v := fs.base.N) ih.1 (by rw [abs_idle ih.2 hi]; exact hh)
      rw [abs_idle ih.2 hi] at this
      exact this
    · intro _
      show (if fs.base.N = fs.base.N then fs.base.hp fs.base.N + 1 else fs.base.hp fs.base.N) ≥ 1
      simp
  | @markOne fs n _ hi ht hm ih =>
    have e : abs (fMark fs n) = abs fs := by
      apply St_ext <;> try rfl
      funext m
      rw [show (abs (fMark fs n)).mark m = (clearMarks (fMark fs n).base (fMark fs n).pending).mark m from rfl,
        show (abs fs).mark m = (clearMarks fs.base fs.pending).mark m from rfl, clear_mark, clear_mark]
      by_cases hmn : m = n
      · subst hmn; simp [fMark, setMark, hm]
      · simp [fMark, setMark, hmn]
    refine ⟨by rw [e]; exact ih.1, ⟨(fun h => by rw [show (fMark fs n).inflight = fs.inflight from rfl, hi] at h; cases h), ?_, ih.2.pinned⟩⟩
    intro m hmp
    show fs.base.tree fs.base.N m ∧ (if m = n then some fs.base.N else fs.base.mark m) = some fs.base.N
    rcases hmp with hmn | hmp
    · subst hmn; exact ⟨ht, by simp⟩
    · have := ih.2.pending_ok m hmp
      refine ⟨this.1, ?_⟩
      split
      · rfl
      · exact this.2
  | @clearOne fs n _ hi hpn ih =>
    have e : abs (fClear fs n) = abs fs := by
      apply St_ext <;> try rfl
      funext m
      rw [show (abs (fClear fs n)).mark m = (clearMarks (fClear fs n).base (fClear fs n).pending).mark m from rfl,
        show (abs fs).mark m = (clearMarks fs.base fs.pending).mark m from rfl, clear_mark, clear_mark]
      by_cases hmn : m = n
      · subst hmn; simp [fClear, hpn]
      · simp [fClear, hmn]
    refine ⟨by rw [e]; exact ih.1, ⟨(fun h => by rw [show (fClear fs n).inflight = fs.inflight from rfl, hi] at h; cases h), ?_, ih.2.pinned⟩⟩
    intro m hmp
    have hmp' : fs.pending m ∧ m ≠ n := hmp
    have := ih.2.pending_ok m hmp'.1
    refine ⟨this.1, ?_⟩
    show (if m = n then none else fs.base.mark m) = some fs.base.N
    simp [hmp'.2]; exact this.2
  | @abort fs _ hi ih =>
    refine ⟨?_, ⟨fun _ n h => h, fun n h => h.elim, fun h => by cases h⟩⟩
    show Reach F (clearMarks (release F (abs fs) fs.base.N) (fun _ => False))
    rw [clearMarks_empty]
    exact Reach.release ih.1 (ih.2.pinned hi)
  | @commit fs Rn New T _ hi hh m ih =>
    have ha := reach_inv F _ ih.1
    refine ⟨?_, ⟨fun _ n h => h, fun n h => h.elim, fun h => by cases h⟩⟩
    show Reach F (clearMarks (commitSt F fs.base fs.pending Rn New T) (fun _ => False))
    rw [clearMarks_empty, commitSt_eq F fs.base fs.pending Rn New T (ha.acct fs.base.N) hh]
    have hacN : fs.base.refs fs.base.N = fs.base.hp fs.base.N + chainIn (abs fs) fs.base.N := ha.acct fs.base.N
    have hr : (abs fs).refs (abs fs).N > 1 := by show fs.base.refs fs.base.N > 1; omega
    have hu : Reach F (unpin (abs fs)) := by
      rw [← release_eq_unpin F (abs fs) hr]
      exact Reach.release ih.1 (by show fs.base.hp fs.base.N > 0; omega)
    refine Reach.mutate hu ⟨?_, m.R_sub, m.Rn_sub, ?_, m.T_fresh⟩
    · show (if fs.base.N = fs.base.N then fs.base.hp fs.base.N - 1 else fs.base.hp fs.base.N) > 0
      simp; omega
    · intro n hn
      have f := m.New_fresh n hn
      refine ⟨f.1, ?_, f.2.2⟩
      show (if fs.pending n then none else fs.base.mark n) = none
      simp [f.2.1]

/-- the fine-grained invariant implies the original invariant for the state without the pending marks -/
theorem finv_abs {fs : FSt} (h : FInv fs) : HInv (abs fs) := by
  refine ⟨h.acct, h.above, h.chN, h.live_chained, h.chained_live, ?_, h.safe, ?_⟩
  · intro n v w hm ht
    have hm' : (if fs.pending n then none else fs.base.mark n) = some v := hm
    by_cases hp : fs.pending n
    · simp [hp] at hm'
    · simp [hp] at hm'; exact h.mark_le n v w hm' ht
  · intro hr n ht
    show (if fs.pending n then none else fs.base.mark n) = none
    by_cases hp : fs.pending n
    · simp [hp]
    · simp [hp]
      apply Classical.byContradiction
      intro hne
      exact hp (h.cur_marked_pending hr n ht hne)

/-- the original invariant for the state without the pending marks, plus the ghost facts, is the fine invariant -/
theorem abs_finv {fs : FSt} (ha : HInv (abs fs)) (hp : PInv fs) : FInv fs := by
  refine ⟨ha.acct, ha.above, ha.chN, ha.live_chained, ha.chained_live, ?_, ha.safe, ?_,
    hp.idle_none, hp.pending_ok, hp.pinned⟩
  · intro n v w hm ht
    by_cases hpn : fs.pending n
    · have := (hp.pending_ok n hpn).2
      rw [this] at hm; cases hm
      by_cases hw : w > fs.base.N
      · exact absurd ht ((ha.above w hw).2.2 n)
      · omega
    · refine ha.mark_le n v w ?_ ht
      show (if fs.pending n then none else fs.base.mark n) = some v
      simp [hpn, hm]
  · intro hr n ht hne
    apply Classical.byContradiction
    intro hpn
    have : (if fs.pending n then none else fs.base.mark n) = none := ha.cur_unmarked hr n ht
    simp [hpn] at this
    exact hne this

/-- INVARIANT: every reachable state of the fine-grained protocol satisfies `FInv`. -/
theorem fine_inv (F : Nat → Nat → Prop) (fs : FSt) (hr : ReachFine F fs) : FInv fs :=
  let r := refine F fs hr
  abs_finv (reach_inv F _ r.1) r.2

/-- SAFETY with non-atomic marking and aborts: in every reachable state of the fine-grained protocol no node of
    a live version is on the free list. -/
theorem fine_safe (F : Nat → Nat → Prop) : ∀ fs, ReachFine F fs →
    ∀ w n, fs.base.refs w > 0 → fs.base.tree w n → ¬ fs.base.freed n :=
  fun fs hr => (fine_inv F fs hr).safe

/-- ABORT RESTORES THE INVARIANT: from any state satisfying the fine invariant with a mutation in flight, after
    `abort` (reclaimMarkClear + the deferred rootDecRef) the ORIGINAL invariant `HInv` holds again — in
    particular the current tree is unmarked (`cur_unmarked`), so the next mutation cannot reclaim live nodes. -/
theorem abort_restores (F : Nat → Nat → Prop) (fs : FSt) (h : FInv fs) (hi : fs.inflight = true) :
    HInv (fAbort F fs).base ∧ (fAbort F fs).inflight = false ∧ ∀ n, ¬ (fAbort F fs).pending n :=
  ⟨release_inv F (finv_abs h) fs.base.N (h.pinned hi), rfl, fun _ h => h⟩

/-- the same for reachable states -/
theorem abort_restores_reach (F : Nat → Nat → Prop) (fs : FSt) (hr : ReachFine F fs)
    (hi : fs.inflight = true) : HInv (fAbort F fs).base :=
  (abort_restores F fs (fine_inv F fs hr) hi).1

/-- With no mutation in flight (in particular after every abort and every commit) the original `HInv` holds. -/
theorem idle_hinv (F : Nat → Nat → Prop) (fs : FSt) (hr : ReachFine F fs) (hi : fs.inflight = false) :
    HInv fs.base := by
  have r := refine F fs hr
  have := reach_inv F _ r.1
  rw [abs_idle r.2 hi] at this
  exact this

/-- THE MUTATOR'S REFERENCE (derived from the accounting, not assumed): while a mutation is in flight the
    current version is live, in every reachable state — so no `release`/`dec` cascade of another goroutine,
    whatever version it starts from, can bring `refs N` to zero and reclaim N's marks under the mutator. -/
theorem inflight_refs_pos (F : Nat → Nat → Prop) (fs : FSt) (hr : ReachFine F fs)
    (hi : fs.inflight = true) : fs.base.refs fs.base.N > 0 := by
  have h := fine_inv F fs hr
  have := h.acct fs.base.N
  have := h.pinned hi
  omega

/-- the same, spelled out for the state after a release by another holder -/
theorem release_keeps_current (F : Nat → Nat → Prop) (fs : FSt) (hr : ReachFine F fs)
    (hi : fs.inflight = true) (v : Nat) (hv : fs.base.hp v > reserved fs v) :
    (fRelease F fs v).base.refs (fRelease F fs v).base.N > 0 :=
  inflight_refs_pos F _ (ReachFine.release hr hv) hi

/-- WHY THE CLEAR IS NEEDED (the defect "a mutation that failed half way left reclaim marks …"): if the aborting
    mutator only unpins, without `reclaimMarkClear`, and the handle is still open, the original invariant is
    broken as soon as one node was marked — the current tree of a live version carries a mark. -/
theorem abort_without_clear_breaks (F : Nat → Nat → Prop) (fs : FSt) (h : FInv fs)
    (hh : fs.base.hp fs.base.N ≥ 2) (n : Nat) (hp : fs.pending n) :
    ¬ HInv (release F fs.base fs.base.N) := by
  intro hI
  have hac := h.acct fs.base.N
  have hr : fs.base.refs fs.base.N > 1 := by omega
  rw [release_gt F fs.base fs.base.N hr] at hI
  have hpn := h.pending_ok n hp
  have := hI.cur_unmarked (by show (if fs.base.N = fs.base.N then fs.base.refs fs.base.N - 1
                                    else fs.base.refs fs.base.N) > 0
                              simp; omega) n hpn.1
  have e : fs.base.mark n = none := this
  rw [hpn.2] at e; cases e

/-- in a state satisfying `FInv`, `publishF` does not change the mark of a node that keeps N's mark -/
theorem publishF_mark_noop {fs : FSt} (h : FInv fs) (Rn New T : Nat → Prop) (n : Nat)
    (hk : keepR fs.pending Rn n) :
    (publishF fs.base (keepR fs.pending Rn) Rn New T).mark n = fs.base.mark n := by
  have := (h.pending_ok n hk.1).2
  simp [publishF, hk, this]

/-! ### Simulation: `beginMutate; markOne*; commit` with nothing interleaved is the atomic `mutate` -/

/-- a run of `markOne` events -/
def markAll (fs : FSt) (l : List Nat) : FSt := l.foldl fMark fs

theorem markAll_spec : ∀ (l : List Nat) (fs : FSt),
    (markAll fs l).base = { fs.base with mark := fun m => if m ∈ l then some fs.base.N else fs.base.mark m } ∧
    (markAll fs l).pending = (fun m => m ∈ l ∨ fs.pending m) ∧ (markAll fs l).inflight = fs.inflight := by
  intro l
  induction l with
  | nil =>
    intro fs
    refine ⟨?_, ?_, rfl⟩
    · apply St_ext <;> first | rfl | (funext m; simp [markAll])
    · funext m; simp [markAll]
  | cons a l ih =>
    intro fs
    have := ih (fMark fs a)
    have e : markAll fs (a :: l) = markAll (fMark fs a) l := rfl
    rw [e]
    refine ⟨?_, ?_, this.2.2⟩
    · rw [this.1]
      apply St_ext <;> try rfl
      funext m
      show (if m ∈ l then some fs.base.N else if m = a then some fs.base.N else fs.base.mark m) =
        (if m ∈ a :: l then some fs.base.N else fs.base.mark m)
      by_cases h1 : m ∈ l
      · simp [h1]
      · by_cases h2 : m = a
        · simp [h2]
        · simp [h1, h2]
    · rw [this.2.1]
      funext m
      apply propext
      show (m ∈ l ∨ (m = a ∨ fs.pending m)) ↔ (m ∈ a :: l ∨ fs.pending m)
      simp only [List.mem_cons]
      constructor
      · rintro (h | h | h)
        · exact Or.inl (Or.inr h)
        · exact Or.inl (Or.inl h)
        · exact Or.inr h
      · rintro ((h | h) | h)
        · exact Or.inr (Or.inl h)
        · exact Or.inl h
        · exact Or.inr (Or.inr h)

/-- SIMULATION: from a state `s` of the atomic system with no mutation in flight, the fine-grained run
    `beginMutate; markOne n₁; …; markOne nₖ; commit Rn New T` (nothing interleaved) ends in exactly the state of the
    atomic event `mutate R Rn New T` with `R = {n₁..nₖ} \ Rn`. -/
theorem atomic_run (F : Nat → Nat → Prop) (s : St) (h : HInv s) (hh : s.hp s.N > 0)
    (l : List Nat) (hl : ∀ n, n ∈ l → s.tree s.N n) (Rn New T : Nat → Prop) :
    (fCommit F (markAll (fBegin { base := s, inflight := false, pending := fun _ => False }) l) Rn New T).base
      = mutate F s (keepR (fun n => n ∈ l) Rn) Rn New T := by
  have sp := markAll_spec l (fBegin { base := s, inflight := false, pending := fun _ => False })
  have hP : (markAll (fBegin { base := s, inflight := false, pending := fun _ => False }) l).pending =
      fun n => n ∈ l := by
    rw [sp.2.1]; funext m; apply propext; simp [fBegin]
  show commitSt F _ _ Rn New T = _
  rw [hP, sp.1]
  have hac := h.acct s.N
  rw [commitSt_eq]
  · congr 1
    apply St_ext <;> try rfl
    · funext w
      show (if w = s.N then (if s.N = s.N then s.refs s.N + 1 else s.refs s.N) - 1
            else (if w = s.N then s.refs s.N + 1 else s.refs w)) = s.refs w
      by_cases e : w = s.N
      · subst e; simp
      · simp [e]
    · funext w
      show (if w = s.N then (if s.N = s.N then s.hp s.N + 1 else s.hp s.N) - 1
            else (if w = s.N then s.hp s.N + 1 else s.hp w)) = s.hp w
      by_cases e : w = s.N
      · subst e; simp
      · simp [e]
    · funext m
      show (clearMarks _ (fun n => n ∈ l)).mark m = s.mark m
      rw [clear_mark]
      by_cases e : m ∈ l
      · simp only [e, ↓reduceIte]
        have hr : s.refs s.N > 0 := by omega
        exact (h.cur_unmarked hr m (hl m e)).symm
      · simp only [e, ↓reduceIte]
        rfl
  · show (if s.N = s.N then s.refs s.N + 1 else s.refs s.N) =
      (if s.N = s.N then s.hp s.N + 1 else s.hp s.N) + chainIn s s.N
    simp; omega
  · show (if s.N = s.N then s.hp s.N + 1 else s.hp s.N) ≥ 2
    simp; omega

end Gkv.VersionsFine

#print axioms Gkv.VersionsFine.refine
#print axioms Gkv.VersionsFine.fine_inv
#print axioms Gkv.VersionsFine.fine_safe
#print axioms Gkv.VersionsFine.abort_restores
#print axioms Gkv.VersionsFine.abort_without_clear_breaks
#print axioms Gkv.VersionsFine.inflight_refs_pos
#print axioms Gkv.VersionsFine.release_keeps_current
#print axioms Gkv.VersionsFine.commitSt_eq
#print axioms Gkv.VersionsFine.atomic_run

/-
`#print axioms` output (lean 4.33, `lake env lean Gkv/Proofs/VersionsFine.lean`):

'Gkv.VersionsFine.refine' depends on axioms: [propext, Classical.choice, Quot.sound]
'Gkv.VersionsFine.fine_inv' depends on axioms: [propext, Classical.choice, Quot.sound]
'Gkv.VersionsFine.fine_safe' depends on axioms: [propext, Classical.choice, Quot.sound]
'Gkv.VersionsFine.abort_restores' depends on axioms: [propext, Classical.choice, Quot.sound]
'Gkv.VersionsFine.abort_without_clear_breaks' depends on axioms: [propext, Classical.choice, Quot.sound]
'Gkv.VersionsFine.inflight_refs_pos' depends on axioms: [propext, Classical.choice, Quot.sound]
'Gkv.VersionsFine.release_keeps_current' depends on axioms: [propext, Classical.choice, Quot.sound]
'Gkv.VersionsFine.commitSt_eq' depends on axioms: [propext, Classical.choice, Quot.sound]
'Gkv.VersionsFine.atomic_run' depends on axioms: [propext, Classical.choice, Quot.sound]

REPORT — model vs. Go code (collection.go / alloc.go / treap.go)

Checked, no discrepancy:
 * `Versions.publish` tests `hp N + chainIn N ≥ 2` in a state WITHOUT the mutator's pin; the code tests
   `prev.refs > 2` WITH the pin.  `commitSt_eq` proves the two descriptions give the same state.
 * The mutator's first `rootDecRef(rnl)` after rootCAS never reaches zero (the pin is still there); the
   deferred one does the reclaim.  In the model: first `dec` is the plain-decrement branch (`commitSt_eq`).
 * `release`/`dec` by other goroutines cannot reclaim N while a mutation is in flight
   (`inflight_release_refs`, `inflight_refs_pos`): derived from `acct` + the pin being a holder.

Still idealised / outside the model:
 1. `commit` fuses `reclaimMarkUpdate` (one critical section per node), `rootCAS`, `rootDecRef`, `rootDecRef` into
    one event.  Between rootCAS and the last rootDecRef the code is in a state that does NOT satisfy `HInv`
    (`live_chained` fails for N when `prev.refs = 2`: N has two references, both the mutator's, and no chain).
    That is harmless in the code because nobody can acquire N any more (`t.root` is N+1) and the mutator
    does not read tree N after rootCAS, but it is an argument outside these theorems (it needs an `InvX`-style
    invariant for interleaved events).
 2. A failed `rootCAS` ("concurrent mutation attempted": the handle was closed or a second mutator raced) returns
    WITHOUT `reclaimMarkClear` and without releasing `rnlNew`: marks of N stay on live nodes.  The model's `commit`
    is simply disabled in that case (`hp N ≥ 2` fails) and the only way on is `abort`, i.e. the model assumes
    the clear that the code does not do on this path.  Reachable only by violating the single-mutator contract.
 3. Nodes that are in no tree are not in the model until `commit` (`T`).  On ABORT the code leaks them: the node
    `SetItem` made for the new item (with the `ItemAddRef` on the caller's item), and every node `split`/`union`/
    `join` made with `mkNode` before the read error (each took `ItemAddRef` on a cached item), are neither put
    on the free list nor `ItemDecRef`ed.  (Known as F8; not repaired.)  Also marks laid on private copies
    (children loaded into a copied nodeLoc after split's `c == 0` case) are not reached by `reclaimMarkClear`,
    which walks the cached tree from the root; those nodes are garbage, so this is harmless for safety.
 4. `markOne` requires `mark n = none`; the code's `markReclaimable` silently skips a node that is already marked.
    By `FInv.mark_le`/`cur_marked_pending` a marked node of tree N is pending, so the skipped case is a no-op.
-/
