/-
Property C19 (support) — the records written by one fault-free `Flush` tile the file: every
`WriteAt` of the flush starts exactly where the previous one ended, the first at the old
`Store.size`, and the last ends at the new `Store.size`.  Hence distinct records (item header+key,
item value, node record, root record) never overlap, and the byte ranges used by
`keyonly_reads_disjoint` / `node_reads_disjoint` (`Proofs/Lazy.lean`) are indeed disjoint from the
value ranges of all other records.
-/
import Gkv.Proofs.FlushFrame

namespace Gkv

/-- the writes of `log` tile `[lo, hi)`: each starts where the previous ended -/
def Tiles : Nat → List FileEv → Nat → Prop
  | lo, [], hi => lo = hi
  | lo, .write off len :: rest, hi => off = lo ∧ Tiles (lo + len) rest hi
  | _, .trunc _ :: _, _ => False

theorem Tiles.append : ∀ {a b c : Nat} {l1 l2 : List FileEv},
    Tiles a l1 b → Tiles b l2 c → Tiles a (l1 ++ l2) c
  | _, _, _, [], _, h1, h2 => by
    simp only [Tiles] at h1; subst h1; exact h2
  | _, _, _, .write off len :: rest, _, h1, h2 => by
    simp only [Tiles, List.cons_append] at h1 ⊢
    exact ⟨h1.1, Tiles.append h1.2 h2⟩
  | _, _, _, .trunc _ :: _, _, h1, _ => by
    simp only [Tiles] at h1

/-- tiling writes are ordered and pairwise disjoint: a write that comes later in the log starts at
    or after the end of every earlier one -/
theorem Tiles.lo_le_hi : ∀ {a c : Nat} {l : List FileEv}, Tiles a l c → a ≤ c
  | _, _, [], h => by simp only [Tiles] at h; omega
  | _, _, .write off len :: rest, h => by
    simp only [Tiles] at h
    have := Tiles.lo_le_hi h.2
    omega
  | _, _, .trunc _ :: _, h => by simp only [Tiles] at h

/-- every write of a tiling lies inside `[lo, hi)` -/
theorem Tiles.within : ∀ {a c : Nat} {l : List FileEv}, Tiles a l c →
    ∀ off len, FileEv.write off len ∈ l → a ≤ off ∧ off + len ≤ c
  | _, _, [], _, _, _, hm => by cases hm
  | a, c, .write off' len' :: rest, h, off, len, hm => by
    simp only [Tiles] at h
    rcases List.mem_cons.mp hm with e | e
    · cases e
      have := Tiles.lo_le_hi h.2
      omega
    · have := Tiles.within h.2 off len e
      omega
  | _, _, .trunc _ :: _, h, _, _, _ => by simp only [Tiles] at h

/-- distinct writes of a tiling never overlap: of two writes at different positions of the log, the
    earlier one ends at or before the start of the later one -/
theorem Tiles.disjoint : ∀ {a c : Nat} {l : List FileEv}, Tiles a l c →
    ∀ (l1 l2 l3 : List FileEv) (o1 n1 o2 n2 : Nat),
      l = l1 ++ .write o1 n1 :: l2 ++ .write o2 n2 :: l3 → o1 + n1 ≤ o2
  | _, _, [], _, l1, l2, l3, _, _, _, _, he => by
    cases l1 <;> simp at he
  | a, c, .write off len :: rest, h, l1, l2, l3, o1, n1, o2, n2, he => by
    simp only [Tiles] at h
    cases l1 with
    | nil =>
      simp only [List.nil_append, List.cons_append, List.cons.injEq, FileEv.write.injEq] at he
      obtain ⟨⟨ho, hn⟩, hr⟩ := he
      have := Tiles.within h.2 o2 n2 (by rw [hr]; simp)
      omega
    | cons x l1' =>
      simp only [List.cons_append, List.cons.injEq] at he
      exact Tiles.disjoint h.2 l1' l2 l3 o1 n1 o2 n2 (by simpa using he.2)
  | _, _, .trunc _ :: _, h, _, _, _, _, _, _, _, _ => by simp only [Tiles] at h

/-- no write fault is pending and none has happened -/
def FileSt.Clean (s : FileSt) : Prop := s.failed = false ∧ s.failAt = none

/-- from `s`, without faults, `s'` was reached by writes that tile `[s.size, s'.size)` -/
structure TFrame (s s' : FileSt) : Prop where
  clean : s'.Clean
  log : ∃ new, s'.log = s.log ++ new ∧ Tiles s.size new s'.size

theorem TFrame.refl (s : FileSt) (h : s.Clean) : TFrame s s :=
  ⟨h, [], by rw [List.append_nil], rfl⟩

theorem TFrame.trans {a b c : FileSt} (h1 : TFrame a b) (h2 : TFrame b c) : TFrame a c := by
  obtain ⟨n1, e1, t1⟩ := h1.log
  obtain ⟨n2, e2, t2⟩ := h2.log
  exact ⟨h2.clean, n1 ++ n2, by rw [e2, e1, List.append_assoc], Tiles.append t1 t2⟩

theorem writeAtOff_clean (s : FileSt) (h : s.Clean) (off : Nat) (b : Bytes) :
    s.writeAtOff off b =
      { s with bytes := writeAt s.bytes off b, log := s.log ++ [.write off b.length] } := by
  obtain ⟨hf, hp⟩ := h
  unfold FileSt.writeAtOff
  rw [if_neg (by rw [hf]; exact Bool.false_ne_true)]
  rw [hp]

theorem advance_clean (s : FileSt) (h : s.Clean) (n : Nat) :
    s.advance n = { s with size := s.size + n } := by
  unfold FileSt.advance
  rw [if_neg (by rw [h.1]; exact Bool.false_ne_true)]

/-- a record written with one `WriteAt` (node records, the root record) -/
theorem tframe_write_advance (s : FileSt) (h : s.Clean) (b : Bytes) (n : Nat) (hn : n = b.length) :
    TFrame s ((s.write b).advance n) := by
  have hc1 : (s.write b).Clean := by
    unfold FileSt.write; rw [writeAtOff_clean s h]; exact h
  unfold FileSt.write at hc1 ⊢
  rw [advance_clean _ hc1, writeAtOff_clean s h]
  refine ⟨h, [.write s.size b.length], rfl, ?_⟩
  exact ⟨rfl, (by rw [hn] : s.size + b.length = s.size + n)⟩

/-- an item record: header+key and value as two consecutive `WriteAt`s -/
theorem tframe_item (s : FileSt) (h : s.Clean) (hd v : Bytes) (n : Nat) (hn : n = hd.length + v.length) :
    TFrame s (((s.write hd).writeAtOff (s.size + hd.length) v).advance n) := by
  have hc1 : (s.write hd).Clean := by
    unfold FileSt.write; rw [writeAtOff_clean s h]; exact h
  have hc2 : ((s.write hd).writeAtOff (s.size + hd.length) v).Clean := by
    rw [writeAtOff_clean _ hc1]; exact hc1
  rw [advance_clean _ hc2, writeAtOff_clean _ hc1]
  unfold FileSt.write
  rw [writeAtOff_clean s h]
  refine ⟨h, [.write s.size hd.length, .write (s.size + hd.length) v.length], ?_, ?_⟩
  · show s.log ++ [FileEv.write s.size hd.length] ++ [FileEv.write (s.size + hd.length) v.length] = _
    rw [List.append_assoc]; rfl
  · exact ⟨rfl, rfl, (by omega : s.size + hd.length + v.length = s.size + n)⟩

theorem length_encItemHdrKey (i : Item) : (encItemHdrKey i).length + i.val.length = itemRecLen i := by
  unfold itemRecLen encItemHdrKey itemHdrLen
  simp only [List.length_append, length_be]

theorem clean_not_failed {s : FileSt} (h : s.Clean) : ¬ (s.failed = true) := by
  rw [h.1]; exact Bool.false_ne_true

theorem writeItems_tiles (t : Tree) (s : FileSt) (h : s.Clean) : TFrame s (writeItems t s).2 := by
  induction t generalizing s with
  | nil => exact TFrame.refl s h
  | node l i a b r p q ihl ihr =>
    cases p with
    | some p => exact TFrame.refl s h
    | none =>
      cases q with
      | some il =>
        simp only [writeItems]
        exact (ihl s h).trans (ihr _ (ihl s h).clean)
      | none =>
        simp only [writeItems]
        have h1 := ihl s h
        rw [if_neg (clean_not_failed h1.clean)]
        have h2 := tframe_item (writeItems l s).2 h1.clean (encItemHdrKey i) i.val (itemRecLen i)
          (length_encItemHdrKey i).symm
        rw [if_neg (clean_not_failed h2.clean)]
        exact (h1.trans h2).trans (ihr _ h2.clean)

theorem writeNodes_tiles (t : Tree) (s : FileSt) (h : s.Clean) : TFrame s (writeNodes t s).2 := by
  induction t generalizing s with
  | nil => exact TFrame.refl s h
  | node l i a b r p q ihl ihr =>
    cases p with
    | some p => exact TFrame.refl s h
    | none =>
      simp only [writeNodes]
      have h1 := ihl s h
      have h2 := ihr _ h1.clean
      rw [if_neg (clean_not_failed h2.clean)]
      have h3 := tframe_write_advance (writeNodes r (writeNodes l s).2).2 h2.clean
        (encNode { item := q, left := (writeNodes l s).1.slotLoc,
                   right := (writeNodes r (writeNodes l s).2).1.slotLoc, nn := a, nb := b })
        nodeRecLen (length_encNode _).symm
      rw [if_neg (clean_not_failed h3.clean)]
      exact (h1.trans h2).trans h3

theorem writeTree_tiles (t : Tree) (s : FileSt) (h : s.Clean) : TFrame s (writeTree t s).2 := by
  simp only [writeTree]
  have h1 := writeItems_tiles t s h
  rw [if_neg (clean_not_failed h1.clean)]
  exact h1.trans (writeNodes_tiles _ _ h1.clean)

theorem flushColls_tiles (cs : List Coll) (s : FileSt) (h : s.Clean) :
    TFrame s (flushColls cs s).2 := by
  induction cs generalizing s with
  | nil => exact TFrame.refl s h
  | cons c rest ih =>
    simp only [flushColls]
    have h1 := writeTree_tiles c.root s h
    rw [if_neg (clean_not_failed h1.clean)]
    exact h1.trans (ih _ h1.clean)

theorem flushStore_tiles (cs : List Coll) (s : FileSt) (h : s.Clean) :
    TFrame s (flushStore cs s).2 := by
  simp only [flushStore]
  have h1 := flushColls_tiles cs s h
  rw [if_neg (clean_not_failed h1.clean)]
  exact h1.trans (tframe_write_advance _ h1.clean _ _ rfl)

/-- Records written by one Flush tile the file consecutively: without a write fault, the writes
    that `flushStore` appends to the log are consecutive — each starts where the previous ended,
    the first at the old `size`, the last ends at the new `size`. -/
theorem flush_log_tiles (cs : List Coll) (s : FileSt) (hf : s.failed = false) (hp : s.failAt = none) :
    ∃ new, (flushStore cs s).2.log = s.log ++ new ∧ Tiles s.size new (flushStore cs s).2.size :=
  (flushStore_tiles cs s ⟨hf, hp⟩).log

/-- …which implies that distinct records never overlap: of any two different writes of one Flush,
    the earlier ends at or before the start of the later, and both lie in `[old size, new size)`. -/
theorem flush_writes_disjoint (cs : List Coll) (s : FileSt) (hf : s.failed = false)
    (hp : s.failAt = none) (l1 l2 l3 : List FileEv) (o1 n1 o2 n2 : Nat)
    (h : (flushStore cs s).2.log = s.log ++ (l1 ++ .write o1 n1 :: l2 ++ .write o2 n2 :: l3)) :
    s.size ≤ o1 ∧ o1 + n1 ≤ o2 ∧ o2 + n2 ≤ (flushStore cs s).2.size := by
  obtain ⟨new, he, ht⟩ := flush_log_tiles cs s hf hp
  have hnew : new = l1 ++ .write o1 n1 :: l2 ++ .write o2 n2 :: l3 :=
    List.append_cancel_left (he.symm.trans h)
  have h1 := Tiles.within ht o1 n1 (by rw [hnew]; simp)
  have h2 := Tiles.within ht o2 n2 (by rw [hnew]; simp)
  have h3 := Tiles.disjoint ht l1 l2 l3 o1 n1 o2 n2 hnew
  exact ⟨h1.1, h3, h2.2⟩

end Gkv

/-
#print axioms output (Lean 4.33.0):
'Gkv.flush_log_tiles' depends on axioms: [propext, Quot.sound]
'Gkv.flush_writes_disjoint' depends on axioms: [propext, Classical.choice, Quot.sound]
-/
