/-
Glue, group D — property C17 "neutral callbacks": a value written (read) in chunks leaves
(returns) the same bytes as one `WriteAt` (`ReadAt`).
-/
import Gkv.Proofs.FlushCoherent
open Std

namespace Gkv

/-! ### `writeAt` composes -/

/-- two adjacent writes are one write of the concatenation -/
theorem writeAt_append (f : Bytes) (off : Nat) (a b : Bytes) (hoff : off ≤ f.length) :
    writeAt (writeAt f off a) (off + a.length) b = writeAt f off (a ++ b) := by
  rw [fc_writeAt_two f a b off hoff]
  unfold writeAt
  rw [List.length_append, Nat.add_assoc]

theorem writeAt_nil (f : Bytes) (off : Nat) : writeAt f off [] = f := by
  unfold writeAt
  simp

/-- write `b` at `off` in chunks of `c` bytes (`c ≥ 1`); the last argument is fuel
    (`b.length + 1` is always enough) -/
def writeChunks (f : Bytes) (off : Nat) (b : Bytes) (c : Nat) : Nat → Bytes
  | 0 => f
  | fuel+1 =>
    if b = [] then f
    else writeChunks (writeAt f off (b.take c)) (off + (b.take c).length) (b.drop c) c fuel

theorem writeChunks_eq_of_fuel (f : Bytes) (off : Nat) (b : Bytes) (c : Nat) (hc : 1 ≤ c)
    (hoff : off ≤ f.length) (fuel : Nat) (hf : b.length ≤ fuel) :
    writeChunks f off b c fuel = writeAt f off b := by
  induction fuel generalizing f off b with
  | zero =>
    have : b = [] := List.length_eq_zero_iff.mp (by omega)
    subst this
    rw [writeAt_nil]
    rfl
  | succ fuel ih =>
    unfold writeChunks
    split
    · next hb => subst hb; rw [writeAt_nil]
    · next hb =>
      have hpos : 0 < b.length := List.length_pos_iff.mpr hb
      rw [ih (writeAt f off (b.take c)) (off + (b.take c).length) (b.drop c)
        (length_writeAt_end f (b.take c) off hoff)
        (by rw [List.length_drop]; omega)]
      rw [writeAt_append f off _ _ hoff, List.take_append_drop]

theorem writeChunks_eq (f : Bytes) (off : Nat) (b : Bytes) (c : Nat) (hc : 1 ≤ c)
    (hoff : off ≤ f.length) : writeChunks f off b c (b.length + 1) = writeAt f off b :=
  writeChunks_eq_of_fuel f off b c hc hoff (b.length + 1) (Nat.le_succ _)

/-! ### `readAt` splits -/

/-- one read of `n + m` bytes is a read of `n` bytes followed by a read of `m` bytes -/
theorem readAt_split (f : Bytes) (off n m : Nat) (b : Bytes)
    (h : readAt f off (n + m) = some b) :
    readAt f off n = some (b.take n) ∧ readAt f (off + n) m = some (b.drop n) := by
  unfold readAt at h ⊢
  split at h
  · next hle =>
    injection h with h
    subst h
    rw [if_pos (by omega), if_pos (by omega)]
    refine ⟨?_, ?_⟩
    · rw [List.take_take, Nat.min_eq_left (Nat.le_add_right n m)]
    · rw [List.drop_take, List.drop_drop, Nat.add_sub_cancel_left]
  · cases h

/-- read `len` bytes at `off` in chunks of at most `c` bytes (`c ≥ 1`) and concatenate them; the
    last argument is fuel (`len + 1` is always enough) -/
def readChunks (f : Bytes) (off len c : Nat) : Nat → Option Bytes
  | 0 => if len = 0 then some [] else none
  | fuel+1 =>
    if len = 0 then some []
    else
      match readAt f off (min c len) with
      | none => none
      | some x =>
        match readChunks f (off + min c len) (len - min c len) c fuel with
        | none => none
        | some y => some (x ++ y)

theorem readChunks_eq_of_fuel (f : Bytes) (off len c : Nat) (hc : 1 ≤ c) (b : Bytes)
    (h : readAt f off len = some b) (fuel : Nat) (hf : len ≤ fuel) :
    readChunks f off len c fuel = some b := by
  induction fuel generalizing off len b with
  | zero =>
    have hl : len = 0 := by omega
    subst hl
    have := fc_readAt_length f off 0 b h
    rw [List.length_eq_zero_iff.mp this]
    rfl
  | succ fuel ih =>
    unfold readChunks
    split
    · next hl =>
      subst hl
      have := fc_readAt_length f off 0 b h
      rw [List.length_eq_zero_iff.mp this]
    · next hl =>
      have e : len = min c len + (len - min c len) := by omega
      rw [e] at h
      obtain ⟨h1, h2⟩ := readAt_split f off (min c len) (len - min c len) b h
      rw [h1]
      dsimp only
      rw [ih (off + min c len) (len - min c len) (b.drop (min c len)) h2 (by omega)]
      dsimp only
      rw [List.take_append_drop]

/-- reading `b` back in chunks equals one read -/
theorem readChunks_eq (f : Bytes) (off len c : Nat) (hc : 1 ≤ c) (b : Bytes)
    (h : readAt f off len = some b) : readChunks f off len c (len + 1) = some b :=
  readChunks_eq_of_fuel f off len c hc b h (len + 1) (Nat.le_succ _)

/-- chunked write then chunked read (any two chunk sizes) returns the value -/
theorem readChunks_writeChunks (f : Bytes) (b : Bytes) (c c' : Nat) (hc : 1 ≤ c) (hc' : 1 ≤ c') :
    readChunks (writeChunks f f.length b c (b.length + 1)) f.length b.length c' (b.length + 1)
      = some b := by
  rw [writeChunks_eq f f.length b c hc (Nat.le_refl _)]
  exact readChunks_eq _ _ _ c' hc' b (readAt_writeAt_end f b)

end Gkv
