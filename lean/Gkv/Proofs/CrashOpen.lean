/-
Property C03, full strength — "a crash image opens exactly at the last completed flush".

`flush_then_open` (FlushCoherent) re-opens the very file a successful `flushStore` produced.  Here
the file is ANY surviving image `g` that keeps the bytes of the completed flush and has no
complete root record above it (torn tail of a later flush, junk appended by the file system, …):
`openStore` on `g` succeeds at the flushed size with EXACTLY the flushed collections.

The two facts behind `flush_then_open` — the root record of the flush is found at the end of the
flushed file (`flush_root_at`), and `loadColls` on its entries reads the flushed collections back
because they are coherent with the file (`flushStore_coherent`, `loadColls_of_coherent`) — depend
only on the bytes below the flushed size, so they transfer to `g` (`rootAt_congr` inside
`openStore_crash_atomic`, `coherent_of_prefix`).  With `Gkv.Proofs.CodecFull` no hypothesis on the
bytes of the collection names is needed.
-/
import Gkv.Proofs.FlushCoherent
import Gkv.Proofs.Scan
import Gkv.Proofs.CodecFull
open Std

namespace Gkv

/-! ### what a completed flush leaves on file -/

/-- names, comparators and their order are those of `cs` -/
theorem flushStore_namecmp (cs : List Coll) (s : FileSt) :
    (flushStore cs s).1.map (fun c => (c.name, c.cmp)) = cs.map (fun c => (c.name, c.cmp)) := by
  have h := congrArg (List.map (fun x : Bytes × CmpKind × Tree => (x.1, x.2.1)))
    (flushStore_eraseLocs cs s)
  simp only [List.map_map, Function.comp_def] at h
  exact h

theorem flushStore_mem (cs : List Coll) (s : FileSt) :
    ∀ c ∈ (flushStore cs s).1, ∃ d ∈ cs, d.name = c.name ∧ d.cmp = c.cmp := by
  intro c hcm
  have : (c.name, c.cmp) ∈ (flushStore cs s).1.map (fun c => (c.name, c.cmp)) :=
    List.mem_map.mpr ⟨c, hcm, rfl⟩
  rw [flushStore_namecmp] at this
  obtain ⟨d, hd, hde⟩ := List.mem_map.mp this
  injection hde with h1 h2
  exact ⟨d, hd, h1, h2⟩

theorem flushStore_names_sorted (cs : List Coll) (s : FileSt)
    (hnames : cs.Pairwise (fun a b => compare a.name b.name = .lt)) :
    (flushStore cs s).1.Pairwise (fun a b => compare a.name b.name = .lt) := by
  have h1 : (cs.map (fun c => (c.name, c.cmp))).Pairwise
      (fun a b => compare a.1 b.1 = .lt) := List.pairwise_map.mpr hnames
  rw [← flushStore_namecmp cs s] at h1
  exact List.pairwise_map.mp h1

theorem flushStore_cmpOf (cmpOf : Bytes → CmpKind) (cs : List Coll) (s : FileSt)
    (hcmp : ∀ c ∈ cs, cmpOf c.name = c.cmp) : ∀ c ∈ (flushStore cs s).1, cmpOf c.name = c.cmp := by
  intro c hcm
  obtain ⟨d, hd, h1, h2⟩ := flushStore_mem cs s c hcm
  rw [← h1, ← h2]
  exact hcmp d hd

/-- after a flush without a fault the logical size is the file length, and the root record of the
    flush — listing exactly the flushed collections — ends there -/
theorem flush_root_at (cs : List Coll) (s : FileSt)
    (hf : s.failed = false) (hp : s.failAt = none) (hsz : s.size = s.bytes.length)
    (hc : ∀ c ∈ cs, c.root.Coherent s.bytes s.size) (hok : ∀ c ∈ cs, c.root.SizesOK)
    (hlim : (flushStore cs s).2.size < 2^32) :
    (flushStore cs s).2.size = (flushStore cs s).2.bytes.length ∧
    rootAt (flushStore cs s).2.bytes (flushStore cs s).2.size
      = some (rootEntries (flushStore cs s).1) := by
  have hn : s.NoFault := ⟨hf, hp⟩
  have hcoh := flushStore_coherent cs s hf hp (Nat.le_of_eq hsz) hc hok hlim
  have hn1 : (flushColls cs s).2.NoFault := (flushColls_frame cs s).noplan hf hp
  have ht1 := flushColls_tight cs s hn hsz
  obtain ⟨b1, z1, n1⟩ := writeAtOff_nofault (flushColls cs s).2 (flushColls cs s).2.size
    (encRoot (flushColls cs s).2.size (rootEntries (flushColls cs s).1)) hn1
  obtain ⟨b3, z3, _⟩ := advance_nofault ((flushColls cs s).2.write
    (encRoot (flushColls cs s).2.size (rootEntries (flushColls cs s).1)))
    (encRoot (flushColls cs s).2.size (rootEntries (flushColls cs s).1)).length n1
  have e : flushStore cs s = ((flushColls cs s).1, ((flushColls cs s).2.write
      (encRoot (flushColls cs s).2.size (rootEntries (flushColls cs s).1))).advance
      (encRoot (flushColls cs s).2.size (rootEntries (flushColls cs s).1)).length) := by
    simp only [flushStore]
    rw [if_neg (by rw [hn1.1]; simp)]
  rw [e] at hlim hcoh ⊢
  dsimp only at hlim hcoh ⊢
  have z1' : ((flushColls cs s).2.write
      (encRoot (flushColls cs s).2.size (rootEntries (flushColls cs s).1))).size =
      (flushColls cs s).2.size := z1
  have b1' : ((flushColls cs s).2.write
      (encRoot (flushColls cs s).2.size (rootEntries (flushColls cs s).1))).bytes =
      writeAt (flushColls cs s).2.bytes (flushColls cs s).2.size
        (encRoot (flushColls cs s).2.size (rootEntries (flushColls cs s).1)) := b1
  rw [z3, z1'] at hlim hcoh ⊢
  rw [b3, b1'] at hcoh ⊢
  rw [ht1] at hlim hcoh ⊢
  rw [fc_writeAt_end] at hcoh ⊢
  refine ⟨(List.length_append).symm, ?_⟩
  exact rootAt_encRoot (flushColls cs s).2.bytes (rootEntries (flushColls cs s).1)
    (by
      intro e he q hq
      obtain ⟨c, hcm, rfl⟩ := List.mem_map.mp he
      have := ((hcoh c hcm).1.slotLoc_bound hq).1
      unfold nodeRecLen at this
      omega)
    hlim

/-! ### crash images -/

/-- C03: any surviving image `g` that keeps the bytes of the completed flush and has no complete
    root record above it re-opens to EXACTLY the flushed collections (any collection names) -/
theorem open_crash_image_full (fid : Nat) (cmpOf : Bytes → CmpKind) (cs : List Coll) (s : FileSt)
    (hf : s.failed = false) (hp : s.failAt = none) (hsz : s.size = s.bytes.length)
    (hc : ∀ c ∈ cs, c.root.Coherent s.bytes s.size) (hok : ∀ c ∈ cs, c.root.SizesOK)
    (hnames : cs.Pairwise (fun a b => compare a.name b.name = .lt))
    (hcmp : ∀ c ∈ cs, cmpOf c.name = c.cmp)
    (hlim : (flushStore cs s).2.size < 2^32)
    (g : Bytes) (hge : (flushStore cs s).2.size ≤ g.length)
    (hpre : g.take (flushStore cs s).2.size = (flushStore cs s).2.bytes)
    (hjunk : ∀ e', (flushStore cs s).2.size < e' → e' ≤ g.length → rootAt g e' = none) :
    openStore fid g cmpOf = .ok ⟨some fid, (flushStore cs s).2.size, (flushStore cs s).1, false⟩ := by
  obtain ⟨htight, hroot⟩ := flush_root_at cs s hf hp hsz hc hok hlim
  have hcoh := flushStore_coherent cs s hf hp (Nat.le_of_eq hsz) hc hok hlim
  have hpre' : g.take (flushStore cs s).2.size =
      (flushStore cs s).2.bytes.take (flushStore cs s).2.size := by
    rw [hpre, htight, List.take_length]
  -- the scan of `g` finds the root record of the flush
  rw [openStore_crash_atomic (flushStore cs s).2.bytes g (flushStore cs s).2.size _ hroot hge hpre'
    hjunk fid cmpOf]
  -- the flushed collections are coherent with `g` below the flushed size, so they load from `g`
  have hcohg : ∀ c ∈ (flushStore cs s).1,
      c.root.Coherent g (flushStore cs s).2.size ∧ c.root.Persisted := by
    intro c hcm
    obtain ⟨cc, cp⟩ := hcoh c hcm
    exact ⟨coherent_of_prefix _ g _ c.root cc (Nat.le_of_eq htight) hge hpre', cp⟩
  rw [loadColls_of_coherent g (flushStore cs s).2.size cmpOf (flushStore cs s).1 hcohg hge
    (flushStore_cmpOf cmpOf cs s hcmp) (flushStore_names_sorted cs s hnames)]

/-- C03 as first stated (the `PlainName` hypothesis is not used any more) -/
theorem open_crash_image (fid : Nat) (cmpOf : Bytes → CmpKind) (cs : List Coll) (s : FileSt)
    (hf : s.failed = false) (hp : s.failAt = none) (hsz : s.size = s.bytes.length)
    (hc : ∀ c ∈ cs, c.root.Coherent s.bytes s.size) (hok : ∀ c ∈ cs, c.root.SizesOK)
    (hnames : cs.Pairwise (fun a b => compare a.name b.name = .lt))
    (_hplain : ∀ c ∈ cs, PlainName c.name) (hcmp : ∀ c ∈ cs, cmpOf c.name = c.cmp)
    (hlim : (flushStore cs s).2.size < 2^32)
    (g : Bytes) (hge : (flushStore cs s).2.size ≤ g.length)
    (hpre : g.take (flushStore cs s).2.size = (flushStore cs s).2.bytes)
    (hjunk : ∀ e', (flushStore cs s).2.size < e' → e' ≤ g.length → rootAt g e' = none) :
    openStore fid g cmpOf = .ok ⟨some fid, (flushStore cs s).2.size, (flushStore cs s).1, false⟩ :=
  open_crash_image_full fid cmpOf cs s hf hp hsz hc hok hnames hcmp hlim g hge hpre hjunk

/-- C02 without the `PlainName` hypothesis: `g` is the flushed file itself -/
theorem flush_then_open_full (fid : Nat) (cmpOf : Bytes → CmpKind) (cs : List Coll) (s : FileSt)
    (hf : s.failed = false) (hp : s.failAt = none) (hsz : s.size = s.bytes.length)
    (hc : ∀ c ∈ cs, c.root.Coherent s.bytes s.size) (hok : ∀ c ∈ cs, c.root.SizesOK)
    (hnames : cs.Pairwise (fun a b => compare a.name b.name = .lt))
    (hcmp : ∀ c ∈ cs, cmpOf c.name = c.cmp)
    (hlim : (flushStore cs s).2.size < 2^32) :
    openStore fid (flushStore cs s).2.bytes cmpOf
      = .ok ⟨some fid, (flushStore cs s).2.size, (flushStore cs s).1, false⟩ := by
  have htight := (flush_root_at cs s hf hp hsz hc hok hlim).1
  exact open_crash_image_full fid cmpOf cs s hf hp hsz hc hok hnames hcmp hlim
    (flushStore cs s).2.bytes (Nat.le_of_eq htight) (by rw [htight, List.take_length])
    (fun e' h1 h2 => by omega)

/-- the surviving image after the completed flush: the flushed bytes followed by ANY tail `junk`
    that does not complete a root record -/
theorem open_crash_image_append (fid : Nat) (cmpOf : Bytes → CmpKind) (cs : List Coll) (s : FileSt)
    (hf : s.failed = false) (hp : s.failAt = none) (hsz : s.size = s.bytes.length)
    (hc : ∀ c ∈ cs, c.root.Coherent s.bytes s.size) (hok : ∀ c ∈ cs, c.root.SizesOK)
    (hnames : cs.Pairwise (fun a b => compare a.name b.name = .lt))
    (hcmp : ∀ c ∈ cs, cmpOf c.name = c.cmp)
    (hlim : (flushStore cs s).2.size < 2^32) (junk : Bytes)
    (hjunk : ∀ e', (flushStore cs s).2.size < e' →
      e' ≤ ((flushStore cs s).2.bytes ++ junk).length →
      rootAt ((flushStore cs s).2.bytes ++ junk) e' = none) :
    openStore fid ((flushStore cs s).2.bytes ++ junk) cmpOf
      = .ok ⟨some fid, (flushStore cs s).2.size, (flushStore cs s).1, false⟩ := by
  have htight := (flush_root_at cs s hf hp hsz hc hok hlim).1
  exact open_crash_image_full fid cmpOf cs s hf hp hsz hc hok hnames hcmp hlim _
    (by rw [List.length_append, htight]; omega)
    (by rw [htight, List.take_left']; rfl) hjunk

#print axioms flush_root_at
#print axioms open_crash_image_full
#print axioms open_crash_image
#print axioms flush_then_open_full
#print axioms open_crash_image_append

end Gkv

/-
`#print axioms` output (`lake env lean Gkv/Proofs/CrashOpen.lean`, Lean 4.33.0):

'Gkv.flush_root_at' depends on axioms: [propext, Classical.choice, Quot.sound]
'Gkv.open_crash_image_full' depends on axioms: [propext, Classical.choice, Quot.sound]
'Gkv.open_crash_image' depends on axioms: [propext, Classical.choice, Quot.sound]
'Gkv.flush_then_open_full' depends on axioms: [propext, Classical.choice, Quot.sound]
'Gkv.open_crash_image_append' depends on axioms: [propext, Classical.choice, Quot.sound]

Notes.
* `open_crash_image` is proved exactly as stated; `open_crash_image_full` is the same statement
  without `hplain` (it rests on `rootAt_encRoot` of `Gkv.Proofs.CodecFull`), and
  `open_crash_image` is derived from it, so `hplain` is unused there.
* `flush_then_open_full` (the image is the flushed file itself) is `flush_then_open` without
  `hplain`; `open_crash_image_append` is the image "flushed bytes ++ junk".
* `hjunk` is needed: bytes appended above the flushed size that happen to form a complete,
  self-consistent root record ARE found by the backward scan (that is how a later flush is seen);
  the theorem is about images in which no such record was completed.
-/
