/-
Proofs about Model P (`Model/FlushPin.lean`): for every schedule of mutator steps and pinning
steps the repaired pinning walk never touches a closed handle, what it pins are versions that
were current during the walk and are taken in name order, and it completes as soon as the
mutator leaves the collection map alone.
-/
import Gkv.Model.FlushPin

namespace Gkv.FlushPin

/-- what holds in every reachable state of the repaired protocol -/
structure Inv (s : St) : Prop where
  cur_open : ∀ i, i < s.n → s.cur i ∉ s.closed
  inj      : ∀ i j, i < s.n → j < s.n → s.cur i = s.cur j → i = j
  fresh    : ∀ i, i < s.n → s.cur i < s.next
  closed_lt : ∀ h, h ∈ s.closed → h < s.next
  len_eq   : s.snaps.length = s.pinned.length
  len_le   : s.pinned.length ≤ s.n
  no_copy  : s.copy = none → s.pinned = []
  snap_le  : ∀ k (h : k < s.snaps.length), ∀ c, (s.snaps[k]) c ≤ s.ver c
  pin_snap : ∀ k (h : k < s.snaps.length) (h' : k < s.pinned.length), s.pinned[k] = (s.snaps[k]) k
  ok       : s.panicked = false
  snap_mono : ∀ a b (ha : a < s.snaps.length) (hb : b < s.snaps.length), a ≤ b → ∀ c, (s.snaps[a]) c ≤ (s.snaps[b]) c

theorem init_inv (n : Nat) (v : Nat → Nat) : Inv (init n v) where
  cur_open := by intro i _; simp [init]
  inj := by intro i j _ _ h; simpa [init] using h
  fresh := by intro i h; simpa [init] using h
  closed_lt := by intro h hh; simp [init] at hh
  len_eq := rfl
  len_le := by simp [init]
  no_copy := by intro _; rfl
  snap_le := by intro k h; simp [init] at h
  pin_snap := by intro k h; simp [init] at h
  ok := rfl
  snap_mono := by intro a b ha; simp [init] at ha

theorem swap_inv {s : St} (h : Inv s) (i : Nat) : Inv (step true s (.swap i)) := by
  unfold step
  by_cases hi : i < s.n
  · simp only [hi, ↓reduceIte]
    refine ⟨?_, ?_, ?_, ?_, h.len_eq, h.len_le, h.no_copy, h.snap_le, h.pin_snap, h.ok, h.snap_mono⟩
    · intro j hj
      show (if j = i then s.next else s.cur j) ∉ s.cur i :: s.closed
      by_cases e : j = i
      · simp only [e, ↓reduceIte, List.mem_cons, not_or]
        refine ⟨?_, ?_⟩
        · have := h.fresh i hi; omega
        · intro hc; have := h.closed_lt _ hc; omega
      · simp only [e, ↓reduceIte, List.mem_cons, not_or]
        refine ⟨?_, h.cur_open j hj⟩
        intro e2; exact e (h.inj j i hj hi e2)
    · intro a b ha hb
      show (if a = i then s.next else s.cur a) = (if b = i then s.next else s.cur b) → a = b
      by_cases ea : a = i <;> by_cases eb : b = i
      · intro _; rw [ea, eb]
      · simp only [ea, eb, ↓reduceIte]; intro e; have := h.fresh b hb; omega
      · simp only [ea, eb, ↓reduceIte]; intro e; have := h.fresh a ha; omega
      · simp only [ea, eb, ↓reduceIte]; exact h.inj a b ha hb
    · intro j hj
      show (if j = i then s.next else s.cur j) < s.next + 1
      by_cases e : j = i
      · simp [e]
      · simp only [e, ↓reduceIte]; have := h.fresh j hj; omega
    · intro x hx
      show x < s.next + 1
      rcases List.mem_cons.mp hx with e | e
      · rw [e]; have := h.fresh i hi; omega
      · have := h.closed_lt x e; omega
  · simp only [hi, ↓reduceIte]; exact h

theorem mutate_inv {s : St} (h : Inv s) (i : Nat) : Inv (step true s (.mutate i)) := by
  unfold step
  by_cases hi : i < s.n
  · simp only [hi, ↓reduceIte]
    refine ⟨h.cur_open, h.inj, h.fresh, h.closed_lt, h.len_eq, h.len_le, h.no_copy, ?_, h.pin_snap, h.ok, h.snap_mono⟩
    intro k hk c
    show (s.snaps[k]) c ≤ (if c = i then s.ver i + 1 else s.ver c)
    have := h.snap_le k hk c
    by_cases e : c = i
    · simp only [e, ↓reduceIte]; rw [e] at this; omega
    · simp only [e, ↓reduceIte]; exact this
  · simp only [hi, ↓reduceIte]; exact h

theorem not_done_lt {s : St} (h : Inv s) (m : Nat → Nat) (hc : s.copy = some m) (hd : s.done = false) :
    s.pinned.length < s.n := by
  have := h.len_le
  unfold St.done at hd
  simp [hc] at hd
  omega

theorem pin_inv {s : St} (h : Inv s) : Inv (pinStep true s) := by
  unfold pinStep
  by_cases hpd : (s.panicked || s.done) = true
  · simp only [hpd, ↓reduceIte]; exact h
  · simp only [hpd]
    have hd : s.done = false := by
      cases hdd : s.done <;> simp_all
    cases hc : s.copy with
    | none =>
      refine ⟨h.cur_open, h.inj, h.fresh, h.closed_lt, rfl, by simp, by intro _; rfl, ?_, ?_, h.ok, ?_⟩
      · intro k hk; simp at hk
      · intro k hk; simp at hk
      · intro a b ha; simp at ha
    | some m =>
      simp only []
      by_cases hcl : m s.pinned.length ∈ s.closed
      · simp only [hcl, ↓reduceIte]
        refine ⟨h.cur_open, h.inj, h.fresh, h.closed_lt, rfl, by simp, by intro _; rfl, ?_, ?_, h.ok, ?_⟩
        · intro k hk; simp at hk
        · intro k hk; simp at hk
        · intro a b ha; simp at ha
      · simp only [hcl, ↓reduceIte]
        have hlt := not_done_lt h m hc hd
        refine ⟨h.cur_open, h.inj, h.fresh, h.closed_lt, ?_, ?_, ?_, ?_, ?_, h.ok, ?_⟩
        · simp [h.len_eq]
        · simp; omega
        · intro e; simp at e
        · intro k hk c
          have hk2 : k < s.snaps.length + 1 := by simpa using hk
          show ((s.snaps ++ [s.ver])[k]'(by simp; omega)) c ≤ s.ver c
          by_cases e : k < s.snaps.length
          · rw [List.getElem_append_left e]; exact h.snap_le k e c
          · have e1 : k = s.snaps.length := by omega
            have : (s.snaps ++ [s.ver])[k]'(by simp; omega) = s.ver := by subst e1; simp
            rw [this]; exact Nat.le_refl _
        · intro k hk hk'
          have hk2 : k < s.snaps.length + 1 := by simpa using hk
          show (s.pinned ++ [s.ver s.pinned.length])[k]'(by simp; rw [← h.len_eq]; omega) =
               ((s.snaps ++ [s.ver])[k]'(by simp; omega)) k
          by_cases e : k < s.snaps.length
          · have e' : k < s.pinned.length := by rw [← h.len_eq]; exact e
            rw [List.getElem_append_left e, List.getElem_append_left e']
            exact h.pin_snap k e e'
          · have e1 : k = s.snaps.length := by omega
            have e2 : k = s.pinned.length := by rw [← h.len_eq]; exact e1
            have t1 : (s.pinned ++ [s.ver s.pinned.length])[k]'(by simp; omega) = s.ver s.pinned.length := by
              subst e2; simp
            have t2 : (s.snaps ++ [s.ver])[k]'(by simp; omega) = s.ver := by
              subst e1; simp
            rw [t1, t2, e2]
        · intro a b ha hb hab c
          have ha2 : a < s.snaps.length + 1 := by simpa using ha
          have hb2 : b < s.snaps.length + 1 := by simpa using hb
          show ((s.snaps ++ [s.ver])[a]'(by simp; omega)) c ≤ ((s.snaps ++ [s.ver])[b]'(by simp; omega)) c
          by_cases eb : b < s.snaps.length
          · have ea : a < s.snaps.length := by omega
            rw [List.getElem_append_left ea, List.getElem_append_left eb]
            exact h.snap_mono a b ea eb hab c
          · have eb1 : b = s.snaps.length := by omega
            have t2 : (s.snaps ++ [s.ver])[b]'(by simp; omega) = s.ver := by subst eb1; simp
            rw [t2]
            by_cases ea : a < s.snaps.length
            · rw [List.getElem_append_left ea]; exact h.snap_le a ea c
            · have ea1 : a = s.snaps.length := by omega
              have t1 : (s.snaps ++ [s.ver])[a]'(by simp; omega) = s.ver := by subst ea1; simp
              rw [t1]; exact Nat.le_refl _

theorem step_inv {s : St} (h : Inv s) (e : Ev) : Inv (step true s e) := by
  cases e with
  | swap i => exact swap_inv h i
  | mutate i => exact mutate_inv h i
  | pin => exact pin_inv h

theorem run_inv {s : St} (h : Inv s) (es : List Ev) : Inv (run true s es) := by
  unfold run
  induction es generalizing s with
  | nil => exact h
  | cons e es ih => exact ih (step_inv h e)

/-! ### progress: once the mutator leaves the map alone the walk completes -/

/-- `k` steps of the pinning goroutine and nothing else -/
def quiet (k : Nat) : List Ev := List.replicate k Ev.pin

theorem run_quiet_succ (s : St) (k : Nat) :
    run true s (quiet (k + 1)) = run true (pinStep true s) (quiet k) := by
  simp [run, quiet, List.replicate_succ, step]

theorem run_quiet_add (s : St) (a b : Nat) :
    run true s (quiet (a + b)) = run true (run true s (quiet a)) (quiet b) := by
  induction a generalizing s with
  | zero => simp [run, quiet]
  | succ a ih =>
    have e : a + 1 + b = (a + b) + 1 := by omega
    rw [e, run_quiet_succ, run_quiet_succ, ih]

theorem done_stable (s : St) (h : s.done = true) : pinStep true s = s := by
  unfold pinStep; simp [h]

theorem done_stable_run (s : St) (h : s.done = true) (k : Nat) : run true s (quiet k) = s := by
  induction k with
  | zero => rfl
  | succ k ih => rw [run_quiet_succ, done_stable s h, ih]

/-- a pin step on an open handle -/
theorem pinStep_open {s : St} (h : Inv s) (m : Nat → Nat) (hc : s.copy = some m)
    (hlt : s.pinned.length < s.n) (ho : m s.pinned.length ∉ s.closed) :
    pinStep true s = { s with pinned := s.pinned ++ [s.ver s.pinned.length], snaps := s.snaps ++ [s.ver] } := by
  have hd : s.done = false := by
    unfold St.done; simp [hc]; omega
  unfold pinStep
  simp [h.ok, hd, hc, ho]

/-- with an up-to-date copy (everything still to be pinned is open) the walk finishes in exactly
    as many steps as collections are left -/
theorem walk_completes : ∀ (d : Nat) (s : St) (m : Nat → Nat), Inv s → s.copy = some m →
    s.pinned.length + d = s.n → (∀ j, s.pinned.length ≤ j → j < s.n → m j ∉ s.closed) →
    (run true s (quiet d)).done = true := by
  intro d
  induction d with
  | zero =>
    intro s m _ hc hl _
    show s.done = true
    unfold St.done; simp [hc]; omega
  | succ d ih =>
    intro s m h hc hl ho
    have hlt : s.pinned.length < s.n := by omega
    have hopen := ho s.pinned.length (Nat.le_refl _) hlt
    rw [run_quiet_succ]
    have e := pinStep_open h m hc hlt hopen
    have hi : Inv (pinStep true s) := pin_inv h
    rw [e] at hi ⊢
    apply ih _ m hi hc
    · simp; omega
    · intro j hj hjn
      apply ho j _ hjn
      simp at hj; omega

/-- from a state in which the map has not been read (yet, or again): one step to read it, then one
    per collection -/
theorem fresh_walk_completes (s : St) (h : Inv s) (hc : s.copy = none) :
    (run true s (quiet (s.n + 1))).done = true := by
  rw [run_quiet_succ]
  have hp : s.pinned = [] := h.no_copy hc
  by_cases hn : s.n = 0
  · -- nothing to pin: reading the map completes the walk
    have e : pinStep true s = { s with copy := some s.cur, pinned := [], snaps := [] } := by
      unfold pinStep; simp [h.ok, St.done, hc]
    rw [e]
    apply walk_completes s.n _ s.cur
    · have := pin_inv h; rw [e] at this; exact this
    · rfl
    · simp [hn]
    · intro j _ hj; exact h.cur_open j hj
  · have e : pinStep true s = { s with copy := some s.cur, pinned := [], snaps := [] } := by
      unfold pinStep; simp [h.ok, St.done, hc]
    rw [e]
    apply walk_completes s.n _ s.cur
    · have := pin_inv h; rw [e] at this; exact this
    · rfl
    · simp
    · intro j _ hj; exact h.cur_open j hj

theorem pinStep_n (s : St) : (pinStep true s).n = s.n := by
  unfold pinStep
  split
  · rfl
  · split
    · rfl
    · dsimp only
      split <;> rfl

theorem step_n (s : St) (e : Ev) : (step true s e).n = s.n := by
  cases e with
  | swap i => show (if i < s.n then _ else s).n = s.n; split <;> rfl
  | mutate i => show (if i < s.n then _ else s).n = s.n; split <;> rfl
  | pin => exact pinStep_n s

theorem run_n (s : St) (es : List Ev) : (run true s es).n = s.n := by
  unfold run
  induction es generalizing s with
  | nil => rfl
  | cons e es ih => rw [List.foldl_cons, ih, step_n]

/-- with a possibly stale copy: within one step per remaining collection (plus one) the walk is
    either complete or has thrown its pins away and is about to read the map again -/
theorem settles : ∀ (d : Nat) (s : St) (m : Nat → Nat), Inv s → s.copy = some m →
    s.pinned.length + d = s.n →
    ∃ k, k ≤ d + 1 ∧ ((run true s (quiet k)).done = true ∨
      ((run true s (quiet k)).copy = none ∧ Inv (run true s (quiet k)) ∧ (run true s (quiet k)).n = s.n)) := by
  intro d
  induction d with
  | zero =>
    intro s m _ hc hl
    refine ⟨0, by omega, Or.inl ?_⟩
    show s.done = true
    unfold St.done; simp [hc]; omega
  | succ d ih =>
    intro s m h hc hl
    have hlt : s.pinned.length < s.n := by omega
    by_cases ho : m s.pinned.length ∈ s.closed
    · refine ⟨1, by omega, Or.inr ?_⟩
      have hd : s.done = false := by unfold St.done; simp [hc]; omega
      have e : run true s (quiet 1) = pinStep true s := by simp [run, quiet, step]
      have e2 : pinStep true s = { s with copy := none, pinned := [], snaps := [], restarts := s.restarts + 1 } := by
        unfold pinStep; simp [h.ok, hd, hc, ho]
      rw [e]
      refine ⟨by rw [e2], pin_inv h, pinStep_n s⟩
    · have e := pinStep_open h m hc hlt ho
      have hi : Inv (pinStep true s) := pin_inv h
      rw [e] at hi
      obtain ⟨k, hk, hres⟩ := ih _ m hi hc (by simp; omega)
      refine ⟨k + 1, by omega, ?_⟩
      rw [run_quiet_succ, e]
      exact hres

theorem completes_when_quiet (s : St) (h : Inv s) :
    ∃ k, k ≤ 2 * s.n + 2 ∧ (run true s (quiet k)).done = true := by
  cases hc : s.copy with
  | none => exact ⟨s.n + 1, by omega, fresh_walk_completes s h hc⟩
  | some m =>
    have hle := h.len_le
    obtain ⟨k1, hk1, hres⟩ := settles (s.n - s.pinned.length) s m h hc (by omega)
    rcases hres with hdone | ⟨hnone, hinv, hn⟩
    · exact ⟨k1, by omega, hdone⟩
    · refine ⟨k1 + (s.n + 1), by omega, ?_⟩
      rw [run_quiet_add]
      have := fresh_walk_completes _ hinv hnone
      rw [hn] at this
      exact this

/-- every sufficiently long quiet period completes the walk -/
theorem quiet_period_completes (s : St) (h : Inv s) (k : Nat) (hk : 2 * s.n + 2 ≤ k) :
    (run true s (quiet k)).done = true := by
  obtain ⟨k0, hk0, hd⟩ := completes_when_quiet s h
  have e : k = k0 + (k - k0) := by omega
  rw [e, run_quiet_add, done_stable_run _ hd]
  exact hd

/-- the pinned, unrepaired walk can dereference a closed handle: read the map, pin collection 0,
    the mutator re-issues SetCollection for collection 1, the walk pins the stale handle -/
theorem unsafe_panics :
    (run false (init 2 (fun _ => 0)) [.pin, .pin, .swap 1, .pin]).panicked = true := by decide

end Gkv.FlushPin
