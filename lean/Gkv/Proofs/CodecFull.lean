/-
The JSON round trip of the root map for ARBITRARY byte strings as collection names: the strict
parser `parseStr` inverts Go's string escaping `jsonEscape` on every byte string (no `PlainName`
hypothesis), hence `decJson (encJson es) = some es` and `rootAt (pre ++ encRoot ..) .. = some es`
without restrictions on the names.
-/
import Gkv.Proofs.Codec
open Std

namespace Gkv

/-! ### the pieces of the parser, one per kind of escape -/

theorem unhex_hexDigit : ∀ n, n < 16 → unhex (hexDigit n) = some n := by decide
theorem utf8_2028 : utf8 0x2028 = [0xE2, 0x80, 0xA8] := by decide
theorem utf8_2029 : utf8 0x2029 = [0xE2, 0x80, 0xA9] := by decide

theorem parseStr_u (fuel : Nat) (acc : Bytes) (a b c d : UInt8) (rest : Bytes) (na nb nc nd : Nat)
    (ha : unhex a = some na) (hb : unhex b = some nb) (hc : unhex c = some nc) (hd : unhex d = some nd) :
    parseStr (fuel + 1) acc (92 :: 117 :: a :: b :: c :: d :: rest) =
      parseStr fuel ((utf8 (na * 4096 + nb * 256 + nc * 16 + nd)).reverse ++ acc) rest := by
  simp [parseStr, ha, hb, hc, hd]

theorem parseStr_u00 (fuel : Nat) (acc : Bytes) (c : UInt8) (rest : Bytes) (hc : c.toNat < 128) :
    parseStr (fuel + 1) acc (u00 c ++ rest) = parseStr fuel (c :: acc) rest := by
  have h1 := unhex_hexDigit (c.toNat / 16) (by omega)
  have h2 := unhex_hexDigit (c.toNat % 16) (by omega)
  have h0 : unhex 48 = some 0 := by decide
  unfold u00
  simp only [List.cons_append, List.nil_append]
  rw [parseStr_u fuel acc 48 48 _ _ rest 0 0 _ _ h0 h0 h1 h2]
  have : 0 * 4096 + 0 * 256 + c.toNat / 16 * 16 + c.toNat % 16 = c.toNat := by omega
  rw [this]
  unfold utf8
  rw [if_pos hc]
  simp

/-- the two-byte escapes `\" \\ \b \f \n \r \t` -/
theorem parseStr_esc (fuel : Nat) (acc : Bytes) (rest : Bytes) :
    parseStr (fuel + 1) acc (92 :: 34 :: rest) = parseStr fuel (34 :: acc) rest ∧
    parseStr (fuel + 1) acc (92 :: 92 :: rest) = parseStr fuel (92 :: acc) rest ∧
    parseStr (fuel + 1) acc (92 :: 98 :: rest) = parseStr fuel (8 :: acc) rest ∧
    parseStr (fuel + 1) acc (92 :: 102 :: rest) = parseStr fuel (12 :: acc) rest ∧
    parseStr (fuel + 1) acc (92 :: 110 :: rest) = parseStr fuel (10 :: acc) rest ∧
    parseStr (fuel + 1) acc (92 :: 114 :: rest) = parseStr fuel (13 :: acc) rest ∧
    parseStr (fuel + 1) acc (92 :: 116 :: rest) = parseStr fuel (9 :: acc) rest := by
  refine ⟨?_, ?_, ?_, ?_, ?_, ?_, ?_⟩ <;> simp [parseStr]

theorem parseStr_copy (fuel : Nat) (acc : Bytes) (c : UInt8) (rest : Bytes) (h1 : c ≠ 34) (h2 : c ≠ 92) :
    parseStr (fuel + 1) acc (c :: rest) = parseStr fuel (c :: acc) rest := by
  simp [parseStr, h1, h2]

/-- the generic case of `jsonEscape` -/
theorem jsonEscape_cons (c : UInt8) (rest : Bytes)
    (h1 : ∀ r, c = 226 → rest = 128 :: 168 :: r → False)
    (h2 : ∀ r, c = 226 → rest = 128 :: 169 :: r → False) :
    jsonEscape (c :: rest) =
    (if c = 34 then [92, 34]
     else if c = 92 then [92, 92]
     else if c = 8 then [92, 98]
     else if c = 12 then [92, 102]
     else if c = 10 then [92, 110]
     else if c = 13 then [92, 114]
     else if c = 9 then [92, 116]
     else if c < 32 ∨ c = 60 ∨ c = 62 ∨ c = 38 then u00 c
     else [c]) ++ jsonEscape rest := by
  rw [jsonEscape.eq_def]
  split
  · rename_i heq; cases heq
  · rename_i heq; injection heq with a b; exact (h1 _ a b).elim
  · rename_i heq; injection heq with a b; exact (h2 _ a b).elim
  · rename_i heq; injection heq with a b; subst a b; rfl

theorem parseStr_jsonEscape (n rest : Bytes) (fuel : Nat) (hf : (jsonEscape n).length < fuel) (acc : Bytes) :
    parseStr fuel acc (jsonEscape n ++ 34 :: rest) = some (acc.reverse ++ n, rest) := by
  induction n using jsonEscape.induct generalizing fuel acc with
  | case1 =>
    cases fuel with
    | zero => omega
    | succ fuel => simp [jsonEscape, parseStr]
  | case2 r ih =>
    have e : jsonEscape (226 :: 128 :: 168 :: r) = [92, 117, 50, 48, 50, 56] ++ jsonEscape r := by
      rw [jsonEscape]
    rw [e] at hf ⊢
    cases fuel with
    | zero => omega
    | succ fuel =>
      simp only [List.cons_append, List.nil_append]
      rw [parseStr_u fuel acc 50 48 50 56 _ 2 0 2 8 (by decide) (by decide) (by decide) (by decide)]
      rw [show 2 * 4096 + 0 * 256 + 2 * 16 + 8 = 0x2028 from rfl, utf8_2028]
      rw [ih fuel (by simp at hf; omega)]
      simp
  | case3 r ih =>
    have e : jsonEscape (226 :: 128 :: 169 :: r) = [92, 117, 50, 48, 50, 57] ++ jsonEscape r := by
      rw [jsonEscape]
    rw [e] at hf ⊢
    cases fuel with
    | zero => omega
    | succ fuel =>
      simp only [List.cons_append, List.nil_append]
      rw [parseStr_u fuel acc 50 48 50 57 _ 2 0 2 9 (by decide) (by decide) (by decide) (by decide)]
      rw [show 2 * 4096 + 0 * 256 + 2 * 16 + 9 = 0x2029 from rfl, utf8_2029]
      rw [ih fuel (by simp at hf; omega)]
      simp
  | case4 c r h1 h2 ih =>
    rw [jsonEscape_cons c r h1 h2] at hf ⊢
    cases fuel with
    | zero => omega
    | succ fuel =>
      have fin : ∀ acc', acc' = c :: acc → (jsonEscape r).length < fuel →
          parseStr fuel acc' (jsonEscape r ++ 34 :: rest) = some (acc.reverse ++ c :: r, rest) := by
        intro acc' ha hl
        rw [ih fuel hl, ha]
        simp
      by_cases c1 : c = 34
      · rw [if_pos c1] at hf ⊢
        subst c1
        simp only [List.cons_append, List.nil_append]
        rw [(parseStr_esc fuel acc _).1]
        exact fin _ rfl (by simp at hf; omega)
      rw [if_neg c1] at hf ⊢
      by_cases c2 : c = 92
      · rw [if_pos c2] at hf ⊢
        subst c2
        simp only [List.cons_append, List.nil_append]
        rw [(parseStr_esc fuel acc _).2.1]
        exact fin _ rfl (by simp at hf; omega)
      rw [if_neg c2] at hf ⊢
      by_cases c3 : c = 8
      · rw [if_pos c3] at hf ⊢
        subst c3
        simp only [List.cons_append, List.nil_append]
        rw [(parseStr_esc fuel acc _).2.2.1]
        exact fin _ rfl (by simp at hf; omega)
      rw [if_neg c3] at hf ⊢
      by_cases c4 : c = 12
      · rw [if_pos c4] at hf ⊢
        subst c4
        simp only [List.cons_append, List.nil_append]
        rw [(parseStr_esc fuel acc _).2.2.2.1]
        exact fin _ rfl (by simp at hf; omega)
      rw [if_neg c4] at hf ⊢
      by_cases c5 : c = 10
      · rw [if_pos c5] at hf ⊢
        subst c5
        simp only [List.cons_append, List.nil_append]
        rw [(parseStr_esc fuel acc _).2.2.2.2.1]
        exact fin _ rfl (by simp at hf; omega)
      rw [if_neg c5] at hf ⊢
      by_cases c6 : c = 13
      · rw [if_pos c6] at hf ⊢
        subst c6
        simp only [List.cons_append, List.nil_append]
        rw [(parseStr_esc fuel acc _).2.2.2.2.2.1]
        exact fin _ rfl (by simp at hf; omega)
      rw [if_neg c6] at hf ⊢
      by_cases c7 : c = 9
      · rw [if_pos c7] at hf ⊢
        subst c7
        simp only [List.cons_append, List.nil_append]
        rw [(parseStr_esc fuel acc _).2.2.2.2.2.2]
        exact fin _ rfl (by simp at hf; omega)
      rw [if_neg c7] at hf ⊢
      by_cases c8 : c < 32 ∨ c = 60 ∨ c = 62 ∨ c = 38
      · rw [if_pos c8] at hf ⊢
        have hc : c.toNat < 128 := by
          rcases c8 with h | h | h | h
          · rw [UInt8.lt_iff_toNat_lt] at h
            have : (32 : UInt8).toNat = 32 := rfl
            omega
          · subst h; decide
          · subst h; decide
          · subst h; decide
        rw [List.append_assoc, parseStr_u00 fuel acc c _ hc]
        exact fin _ rfl (by simp [u00] at hf; omega)
      · rw [if_neg c8] at hf ⊢
        simp only [List.cons_append, List.nil_append]
        rw [parseStr_copy fuel acc c _ c1 c2]
        exact fin _ rfl (by simp at hf; omega)

/-! ### the whole map, any names -/

theorem parseEntries_step_full (fuel : Nat) (e : Bytes × Option Ploc) (tail : Bytes)
    (acc : List (Bytes × Option Ploc))
    (hp : ∀ q, e.2 = some q → ¬ (q.off = 0 ∧ q.len = 0)) :
    parseEntries (fuel + 1) (jsonEntry e ++ tail) acc =
      (match tail with
       | [125] => some (e :: acc).reverse
       | 44 :: b' => parseEntries fuel b' (e :: acc)
       | _ => none) := by
  have e1 : jsonEntry e ++ tail =
      [34] ++ (jsonEscape e.1 ++ 34 :: ([58] ++ (jsonPloc e.2 ++ tail))) := by
    simp [jsonEntry]
  have hs : parseStr ((jsonEscape e.1 ++ 34 :: ([58] ++ (jsonPloc e.2 ++ tail))).length + 1) []
      (jsonEscape e.1 ++ 34 :: ([58] ++ (jsonPloc e.2 ++ tail))) =
      some (e.1, [58] ++ (jsonPloc e.2 ++ tail)) := by
    rw [parseStr_jsonEscape e.1 _ _ (by simp; omega)]
    simp
  rw [parseEntries, e1]
  simp only [Option.bind_eq_bind, expect_append, Option.bind_some, hs, parsePloc_jsonPloc e.2 tail hp]
  rfl

theorem parseEntries_entries_full (e : Bytes × Option Ploc) (es : List (Bytes × Option Ploc))
    (fuel : Nat) (hf : es.length < fuel) (acc : List (Bytes × Option Ploc))
    (hp : ∀ x ∈ e :: es, ∀ q, x.2 = some q → ¬ (q.off = 0 ∧ q.len = 0)) :
    parseEntries fuel (jsonEntries (e :: es) ++ [125]) acc = some (acc.reverse ++ e :: es) := by
  induction es generalizing e fuel acc with
  | nil =>
    cases fuel with
    | zero => simp at hf
    | succ fuel =>
      rw [jsonEntries, parseEntries_step_full fuel e [125] acc (hp e (by simp))]
      simp
  | cons e2 es ih =>
    cases fuel with
    | zero => simp at hf
    | succ fuel =>
      have : jsonEntries (e :: e2 :: es) ++ [125] =
          jsonEntry e ++ (44 :: (jsonEntries (e2 :: es) ++ [125])) := by
        simp [jsonEntries]
      rw [this, parseEntries_step_full fuel e _ acc (hp e (by simp))]
      simp only
      rw [ih e2 fuel (by simpa using hf) (e :: acc) (fun x hx => hp x (by simp [hx]))]
      simp

/-- the JSON map of root locations round-trips, whatever bytes the names consist of -/
theorem decJson_encJson (es : List (Bytes × Option Ploc))
    (hp : ∀ e ∈ es, ∀ q, e.2 = some q → ¬ (q.off = 0 ∧ q.len = 0)) :
    decJson (encJson es) = some es := by
  cases es with
  | nil => simp [encJson, jsonEntries, decJson]
  | cons e es =>
    obtain ⟨X, hX⟩ := jsonEntries_cons_head e es
    have h1 : encJson (e :: es) = 123 :: (jsonEntries (e :: es) ++ [125]) := by
      simp [encJson]
    have h2 : decJson (123 :: (jsonEntries (e :: es) ++ [125])) =
        parseEntries ((jsonEntries (e :: es) ++ [125]).length + 1)
          (jsonEntries (e :: es) ++ [125]) [] := by
      rw [hX]
      simp [decJson]
    rw [h1, h2, parseEntries_entries_full e es _ _ [] hp]
    · simp
    · have := jsonEntries_length_ge (e :: es)
      simp only [List.length_append, List.length_cons] at this ⊢
      omega

/-- a root record appended to any file is found, with exactly its entries, at its end -/
theorem rootAt_encRoot (pre : Bytes) (es : List (Bytes × Option Ploc))
    (hp : ∀ e ∈ es, ∀ q, e.2 = some q → ¬ (q.off = 0 ∧ q.len = 0))
    (hsz : pre.length + (encRoot pre.length es).length < 2^32) :
    rootAt (pre ++ encRoot pre.length es) (pre.length + (encRoot pre.length es).length) = some es := by
  rw [encRoot_length] at hsz ⊢
  have := rootAt_gen pre (encJson es) (rootsLen + (encJson es).length) (by simp [rootsLen])
    (encJson_length_ge es) hsz
  rw [← decJson_encJson es hp, ← this]
  rfl

#print axioms parseStr_jsonEscape
#print axioms decJson_encJson
#print axioms rootAt_encRoot

end Gkv

/-
`#print axioms` output (`lake env lean Gkv/Proofs/CodecFull.lean`, Lean 4.33.0):

'Gkv.parseStr_jsonEscape' depends on axioms: [propext, Quot.sound]
'Gkv.decJson_encJson' depends on axioms: [propext, Quot.sound]
'Gkv.rootAt_encRoot' depends on axioms: [propext, Quot.sound]

Notes.
* All three statements hold as given, for every byte string: no counterexample exists.  The cases
  of `jsonEscape` against `parseStr`: E2 80 A8 / E2 80 A9 ↦ `\u2028` / `\u2029`, which the parser
  decodes with `unhex` and re-encodes with `utf8` to the same three bytes (`utf8_2028`,
  `utf8_2029`); `"` `\` 08 0C 0A 0D 09 ↦ two-byte escapes (`parseStr_esc`); other bytes < 32 and
  `<` `>` `&` ↦ `\u00XX` (`parseStr_u00`: both hex digits decode, the code point is < 128, so
  `utf8` gives back the one byte); every other byte -- including a lone E2, and every byte ≥ 128,
  valid UTF-8 or not -- is copied, is neither `"` nor `\`, and is copied by the parser too
  (`parseStr_copy`).  (The *Go* encoder would replace invalid UTF-8 by `�`; `jsonEscape` is
  specified for valid UTF-8 only and copies such bytes, which is what is proved here.)
* The overlapping patterns of `jsonEscape` are handled with `jsonEscape.induct`, whose generic case
  carries the two "not the E2 80 A8/A9 pattern" hypotheses that `jsonEscape_cons` needs.
-/
