/-
The treap as a sorted map: `toList` of a search tree is `Spec.Sorted`, `get` is `Spec.lookup`,
`union` keeps search order and looks up like "right operand first", `setItem` is `Spec.insert`,
`min`/`max` are the ends of `toList`.

The comparator is only assumed to be `Std.TransCmp`; it need not be lawful (two different keys
may compare `.eq`), so nothing here ever concludes `a = b` from `cmp a b = .eq`.
-/
import Gkv.Proofs.Split
open Std

namespace Gkv

/-! ### facts about the list spec -/
namespace Spec

variable (cmp : Bytes → Bytes → Ordering) [Std.TransCmp cmp]

omit [Std.TransCmp cmp] in
/-- keys below `k` are skipped by `lookup` -/
theorem lookup_append_of_gt {l : List Item} (m : List Item) {k : Bytes}
    (h : ∀ j ∈ l, cmp k j.key = .gt) : lookup cmp (l ++ m) k = lookup cmp m k := by
  induction l with
  | nil => rfl
  | cons j l ih =>
    have hj : cmp k j.key = .gt := h j (List.mem_cons_self ..)
    simp only [List.cons_append, lookup, hj]
    exact ih (fun j' hj' => h j' (List.mem_cons_of_mem _ hj'))

omit [Std.TransCmp cmp] in
/-- `lookup` never looks past an item above `k` -/
theorem lookup_append_of_lt (l r : List Item) {i : Item} {k : Bytes}
    (h : cmp k i.key = .lt) : lookup cmp (l ++ i :: r) k = lookup cmp l k := by
  induction l with
  | nil => simp [lookup, h]
  | cons j l ih =>
    simp only [List.cons_append, lookup]
    split <;> first | rfl | exact ih

omit [Std.TransCmp cmp] in
theorem lookup_eq_none_of_lt {l : List Item} {k : Bytes}
    (h : ∀ j ∈ l, cmp k j.key = .lt) : lookup cmp l k = none := by
  cases l with
  | nil => rfl
  | cons j l => simp [lookup, h j (List.mem_cons_self ..)]

theorem lookup_cons_self (j : Item) (l : List Item) : lookup cmp (j :: l) j.key = some j := by
  simp [lookup, ReflCmp.compare_self]

/-- two sorted lists that answer every lookup alike are the same list -/
theorem sorted_ext : ∀ {l₁ l₂ : List Item}, Sorted cmp l₁ → Sorted cmp l₂ →
    (∀ k, lookup cmp l₁ k = lookup cmp l₂ k) → l₁ = l₂
  | [], [], _, _, _ => rfl
  | [], j :: l, _, _, h => by
    have := h j.key
    rw [lookup_cons_self] at this
    simp [lookup] at this
  | j :: l, [], _, _, h => by
    have := h j.key
    rw [lookup_cons_self] at this
    simp [lookup] at this
  | a :: l₁, b :: l₂, h₁, h₂, h => by
    have h₁' := List.pairwise_cons.mp h₁
    have h₂' := List.pairwise_cons.mp h₂
    have hab : a = b := by
      have ha := h a.key
      have hb := h b.key
      rw [lookup_cons_self] at ha
      rw [lookup_cons_self] at hb
      cases hc : cmp a.key b.key with
      | lt => simp [lookup, hc] at ha
      | eq => simp [lookup, hc] at ha; exact ha
      | gt =>
        have : cmp b.key a.key = .lt := OrientedCmp.lt_of_gt hc
        simp [lookup, this] at hb
    subst hab
    congr 1
    refine sorted_ext h₁'.2 h₂'.2 (fun k => ?_)
    cases hc : cmp k a.key with
    | gt =>
      have := h k
      simpa [lookup, hc] using this
    | lt =>
      rw [lookup_eq_none_of_lt cmp (fun j hj => TransCmp.lt_trans hc (h₁'.1 j hj)),
        lookup_eq_none_of_lt cmp (fun j hj => TransCmp.lt_trans hc (h₂'.1 j hj))]
    | eq =>
      rw [lookup_eq_none_of_lt cmp (fun j hj => TransCmp.lt_of_eq_of_lt hc (h₁'.1 j hj)),
        lookup_eq_none_of_lt cmp (fun j hj => TransCmp.lt_of_eq_of_lt hc (h₂'.1 j hj))]

/-- `insert` keeps the list sorted -/
theorem insert_sorted : ∀ {l : List Item}, Sorted cmp l → ∀ i, Sorted cmp (insert cmp l i)
  | [], _, i => by simp [insert, Sorted]
  | j :: l, h, i => by
    have h' := List.pairwise_cons.mp h
    unfold insert
    split
    next hc =>
      refine List.pairwise_cons.mpr ⟨?_, h⟩
      intro x hx
      rcases List.mem_cons.mp hx with rfl | hx
      · exact hc
      · exact TransCmp.lt_trans hc (h'.1 x hx)
    next hc =>
      refine List.pairwise_cons.mpr ⟨?_, h'.2⟩
      intro x hx
      exact TransCmp.lt_of_eq_of_lt hc (h'.1 x hx)
    next hc =>
      have ih := insert_sorted h'.2 i
      refine List.pairwise_cons.mpr ⟨?_, ih⟩
      intro x hx
      have : x = i ∨ x ∈ l := mem_insert hx
      rcases this with rfl | hx
      · exact OrientedCmp.lt_of_gt hc
      · exact h'.1 x hx
where
  mem_insert : ∀ {l : List Item} {i x : Item}, x ∈ insert cmp l i → x = i ∨ x ∈ l
    | [], i, x, h => by simp [insert] at h; exact Or.inl h
    | j :: l, i, x, h => by
      unfold insert at h
      split at h
      · rcases List.mem_cons.mp h with rfl | h
        · exact Or.inl rfl
        · exact Or.inr h
      · rcases List.mem_cons.mp h with rfl | h
        · exact Or.inl rfl
        · exact Or.inr (List.mem_cons_of_mem _ h)
      · rcases List.mem_cons.mp h with rfl | h
        · exact Or.inr (List.mem_cons_self ..)
        · rcases mem_insert h with rfl | h
          · exact Or.inl rfl
          · exact Or.inr (List.mem_cons_of_mem _ h)

/-- `lookup` after `insert` -/
theorem lookup_insert : ∀ {l : List Item}, Sorted cmp l → ∀ (i : Item) (k : Bytes),
    lookup cmp (insert cmp l i) k = if cmp k i.key = .eq then some i else lookup cmp l k
  | [], _, i, k => by
    simp only [insert, lookup]
    cases cmp k i.key <;> simp
  | j :: l, h, i, k => by
    have h' := List.pairwise_cons.mp h
    unfold insert
    split
    next hc =>
      -- i < j
      simp only [lookup]
      cases hk : cmp k i.key with
      | lt => simp [TransCmp.lt_trans hk hc]
      | eq => simp
      | gt => simp
    next hc =>
      -- i ≡ j
      simp only [lookup]
      rw [← TransCmp.congr_right (cmp := cmp) (a := k) hc]
      cases hk : cmp k i.key <;> simp
    next hc =>
      -- i > j
      simp only [lookup]
      rw [lookup_insert h'.2 i k]
      cases hk : cmp k j.key with
      | lt =>
        have : cmp k i.key = .lt := TransCmp.lt_trans hk (OrientedCmp.lt_of_gt hc)
        simp [this]
      | eq =>
        have : cmp k i.key = .lt := TransCmp.lt_of_eq_of_lt hk (OrientedCmp.lt_of_gt hc)
        simp [this]
      | gt => simp

end Spec

namespace Tree

variable (cmp : Bytes → Bytes → Ordering) [Std.TransCmp cmp]

/-! ### `toList`, `get` -/

theorem toList_sorted {t : Tree} (h : BST cmp t) : Spec.Sorted cmp t.toList := by
  induction t with
  | nil => exact List.Pairwise.nil
  | node l i a b r p q ihl ihr =>
    obtain ⟨hl, hr, hal, har⟩ := h
    have hal' := (All_iff_toList l).mp hal
    have har' := (All_iff_toList r).mp har
    show List.Pairwise _ (l.toList ++ i :: r.toList)
    refine List.pairwise_append.mpr ⟨ihl hl, List.pairwise_cons.mpr ⟨?_, ihr hr⟩, ?_⟩
    · intro x hx
      exact OrientedCmp.lt_of_gt (har' x hx)
    · intro x hx y hy
      rcases List.mem_cons.mp hy with rfl | hy
      · exact hal' x hx
      · exact TransCmp.lt_trans (hal' x hx) (OrientedCmp.lt_of_gt (har' y hy))

theorem get_eq_lookup {t : Tree} (h : BST cmp t) (k : Bytes) :
    get cmp t k = Spec.lookup cmp t.toList k := by
  induction t with
  | nil => rfl
  | node l i a b r p q ihl ihr =>
    obtain ⟨hl, hr, hal, har⟩ := h
    have hal' := (All_iff_toList l).mp hal
    show get cmp (node l i a b r p q) k = Spec.lookup cmp (l.toList ++ i :: r.toList) k
    unfold get
    split
    next hc => rw [Spec.lookup_append_of_lt cmp _ _ hc]; exact ihl hl
    next hc =>
      rw [Spec.lookup_append_of_gt cmp _
        (fun j hj => OrientedCmp.gt_of_lt (TransCmp.lt_trans (hal' j hj) (OrientedCmp.lt_of_gt hc)))]
      simp only [Spec.lookup, hc]
      exact ihr hr
    next hc =>
      rw [Spec.lookup_append_of_gt cmp _
        (fun j hj => OrientedCmp.gt_of_lt
          (TransCmp.lt_of_lt_of_eq (hal' j hj) (OrientedCmp.eq_symm hc)))]
      simp only [Spec.lookup, hc]

/-- `get` only sees the `cmp`-class of the key -/
theorem get_congr {k k' : Bytes} (h : cmp k k' = .eq) : ∀ t : Tree, get cmp t k = get cmp t k'
  | nil => rfl
  | node l i _ _ r _ _ => by
    unfold get
    rw [TransCmp.congr_left (cmp := cmp) (c := i.key) h, get_congr h l, get_congr h r]

omit [Std.TransCmp cmp] in
/-- the item found has a key `cmp`-equal to the one asked for, and is an item of the tree -/
theorem get_some {p : Item → Prop} {k : Bytes} {j : Item} : ∀ {t : Tree}, All p t →
    get cmp t k = some j → p j ∧ cmp k j.key = .eq
  | nil, _, h => by simp [get] at h
  | node l i _ _ r _ _, ⟨hl, hi, hr⟩, h => by
    unfold get at h
    split at h
    · exact get_some hl h
    · exact get_some hr h
    next hc => cases h; exact ⟨hi, hc⟩

theorem get_eq_none_of_all_lt {s k : Bytes} {t : Tree} (ha : All (fun j => cmp j.key s = .lt) t)
    (hk : cmp k s ≠ .lt) : get cmp t k = none := by
  cases hg : get cmp t k with
  | none => rfl
  | some j =>
    have := get_some cmp ha hg
    exact absurd (TransCmp.lt_of_eq_of_lt this.2 this.1) hk

theorem get_eq_none_of_all_gt {s k : Bytes} {t : Tree} (ha : All (fun j => cmp j.key s = .gt) t)
    (hk : cmp k s ≠ .gt) : get cmp t k = none := by
  cases hg : get cmp t k with
  | none => rfl
  | some j =>
    have := get_some cmp ha hg
    exact absurd (TransCmp.gt_of_eq_of_gt this.2 this.1) hk

/-! ### `split` seen through `get` -/

theorem split_get_lt {s k : Bytes} (hk : cmp k s = .lt) : ∀ t : Tree,
    get cmp (split cmp t s).1 k = get cmp t k
  | nil => rfl
  | node l i a b r p q => by
    unfold split
    split
    next hc =>
      have : cmp k i.key = .lt := TransCmp.lt_of_lt_of_eq hk hc
      simp [get, this]
    next hc =>
      have : cmp k i.key = .lt := TransCmp.lt_trans hk hc
      split
      · simp [get, this]
      · simp only [get, this]; exact split_get_lt hk l
    next hc =>
      split
      · rfl
      · show get cmp (mk l i (split cmp r s).1 q) k = _
        unfold mk get
        rw [split_get_lt hk r]

theorem split_get_gt {s k : Bytes} (hk : cmp k s = .gt) : ∀ t : Tree,
    get cmp (split cmp t s).2.2 k = get cmp t k
  | nil => rfl
  | node l i a b r p q => by
    unfold split
    split
    next hc =>
      have : cmp k i.key = .gt := TransCmp.gt_of_gt_of_eq hk hc
      simp [get, this]
    next hc =>
      split
      · rfl
      · show get cmp (mk (split cmp l s).2.2 i r q) k = _
        unfold mk get
        rw [split_get_gt hk l]
    next hc =>
      have : cmp k i.key = .gt := TransCmp.gt_trans hk hc
      split
      · simp [get, this]
      · simp only [get, this]; exact split_get_gt hk r

omit [Std.TransCmp cmp] in
/-- the middle part of `split` is the node `get` finds -/
theorem split_mid (s : Bytes) : ∀ t : Tree,
    ((split cmp t s).2.1 = nil ∧ get cmp t s = none) ∨
    (∃ ml mi mn mb mr mp mq, (split cmp t s).2.1 = node ml mi mn mb mr mp mq ∧
      get cmp t s = some mi ∧ cmp s mi.key = .eq)
  | nil => Or.inl ⟨rfl, rfl⟩
  | node l i a b r p q => by
    unfold split get
    cases hc : cmp s i.key with
    | eq => exact Or.inr ⟨l, i, a, b, r, p, q, rfl, rfl, hc⟩
    | lt =>
      dsimp only
      split
      · exact Or.inl ⟨rfl, rfl⟩
      · exact split_mid s l
    | gt =>
      dsimp only
      split
      · exact Or.inl ⟨rfl, rfl⟩
      · exact split_mid s r

/-! ### `union` -/

omit [Std.TransCmp cmp] in
theorem union_all {p : Item → Prop} {a b : Tree} (ha : All p a) (hb : All p b) :
    All p (union cmp a b) := by
  fun_induction union cmp a b with
  | case1 b => exact hb
  | case2 a _ => exact ha
  | case3 al ai an ab ar ap aq bl bi bn bb br bp bq hp x hsz nl nr ml mi mn mb mr mloc mq hm ihl ihr =>
    have hs : All p x.1 ∧ All p x.2.1 ∧ All p x.2.2 := split_all cmp p _ _ hb
    rw [hm] at hs
    exact All_mk.mpr ⟨ihl ha.1 hs.1, hs.2.1.2.1, ihr ha.2.2 hs.2.2⟩
  | case4 al ai an ab ar ap aq bl bi bn bb br bp bq hp x hsz nl nr hm ihl ihr =>
    have hs : All p x.1 ∧ All p x.2.1 ∧ All p x.2.2 := split_all cmp p _ _ hb
    exact All_mk.mpr ⟨ihl ha.1 hs.1, ha.2.1, ihr ha.2.2 hs.2.2⟩
  | case5 al ai an ab ar ap aq bl bi bn bb br bp bq hp x hsz ihl ihr =>
    have hs : All p x.1 ∧ All p x.2.1 ∧ All p x.2.2 := split_all cmp p _ _ ha
    exact All_mk.mpr ⟨ihl hs.1 hb.1, hb.2.1, ihr hs.2.2 hb.2.2⟩

theorem union_bst {a b : Tree} (ha : BST cmp a) (hb : BST cmp b) : BST cmp (union cmp a b) := by
  fun_induction union cmp a b with
  | case1 b => exact hb
  | case2 a _ => exact ha
  | case3 al ai an ab ar ap aq bl bi bn bb br bp bq hp x hsz nl nr ml mi mn mb mr mloc mq hm ihl ihr =>
    have hs : BST cmp x.1 ∧ BST cmp x.2.2 ∧ All (fun j => cmp j.key ai.key = .lt) x.1 ∧
      All (fun j => cmp j.key ai.key = .gt) x.2.2 := split_bst cmp _ _ hb
    obtain ⟨hal, har, haal, haar⟩ := ha
    have he : cmp ai.key mi.key = .eq := by
      rcases split_mid cmp ai.key (node bl bi bn bb br bp bq) with ⟨h, _⟩ | ⟨_, _, _, _, _, _, _, h, _, he⟩
      · rw [show (split cmp (node bl bi bn bb br bp bq) ai.key).2.1 = _ from hm] at h; cases h
      · rw [show (split cmp (node bl bi bn bb br bp bq) ai.key).2.1 = _ from hm] at h; cases h; exact he
    refine (BST_mk cmp).mpr ⟨ihl hal hs.1, ihr har hs.2.1, ?_, ?_⟩
    · exact All_imp (fun j hj => TransCmp.lt_of_lt_of_eq hj he) _ (union_all cmp haal hs.2.2.1)
    · exact All_imp (fun j hj => TransCmp.gt_of_gt_of_eq hj he) _ (union_all cmp haar hs.2.2.2)
  | case4 al ai an ab ar ap aq bl bi bn bb br bp bq hp x hsz nl nr hm ihl ihr =>
    have hs : BST cmp x.1 ∧ BST cmp x.2.2 ∧ All (fun j => cmp j.key ai.key = .lt) x.1 ∧
      All (fun j => cmp j.key ai.key = .gt) x.2.2 := split_bst cmp _ _ hb
    obtain ⟨hal, har, haal, haar⟩ := ha
    exact (BST_mk cmp).mpr ⟨ihl hal hs.1, ihr har hs.2.1, union_all cmp haal hs.2.2.1,
      union_all cmp haar hs.2.2.2⟩
  | case5 al ai an ab ar ap aq bl bi bn bb br bp bq hp x hsz ihl ihr =>
    have hs : BST cmp x.1 ∧ BST cmp x.2.2 ∧ All (fun j => cmp j.key bi.key = .lt) x.1 ∧
      All (fun j => cmp j.key bi.key = .gt) x.2.2 := split_bst cmp _ _ ha
    obtain ⟨hbl, hbr, hbbl, hbbr⟩ := hb
    exact (BST_mk cmp).mpr ⟨ihl hs.1 hbl, ihr hs.2.1 hbr, union_all cmp hs.2.2.1 hbbl,
      union_all cmp hs.2.2.2 hbbr⟩

omit [Std.TransCmp cmp] in
theorem get_node_lt {l r : Tree} {i : Item} {a b : Nat} {p q : Option Ploc} {k : Bytes}
    (h : cmp k i.key = .lt) : get cmp (node l i a b r p q) k = get cmp l k := by
  simp [get, h]

omit [Std.TransCmp cmp] in
theorem get_node_gt {l r : Tree} {i : Item} {a b : Nat} {p q : Option Ploc} {k : Bytes}
    (h : cmp k i.key = .gt) : get cmp (node l i a b r p q) k = get cmp r k := by
  simp [get, h]

omit [Std.TransCmp cmp] in
theorem get_node_eq {l r : Tree} {i : Item} {a b : Nat} {p q : Option Ploc} {k : Bytes}
    (h : cmp k i.key = .eq) : get cmp (node l i a b r p q) k = some i := by
  simp [get, h]

omit [Std.TransCmp cmp] in
theorem get_mk_lt {l r : Tree} {i : Item} {q : Option Ploc} {k : Bytes}
    (h : cmp k i.key = .lt) : get cmp (mk l i r q) k = get cmp l k := get_node_lt cmp h

omit [Std.TransCmp cmp] in
theorem get_mk_gt {l r : Tree} {i : Item} {q : Option Ploc} {k : Bytes}
    (h : cmp k i.key = .gt) : get cmp (mk l i r q) k = get cmp r k := get_node_gt cmp h

omit [Std.TransCmp cmp] in
theorem get_mk_eq {l r : Tree} {i : Item} {q : Option Ploc} {k : Bytes}
    (h : cmp k i.key = .eq) : get cmp (mk l i r q) k = some i := get_node_eq cmp h

/-- items of `b` take precedence over cmp-equal keys of `a` -/
theorem get_union {a b : Tree} (ha : BST cmp a) (hb : BST cmp b) (k : Bytes) :
    get cmp (union cmp a b) k = (get cmp b k).orElse (fun _ => get cmp a k) := by
  fun_induction union cmp a b with
  | case1 b => cases get cmp b k <;> rfl
  | case2 a _ => rfl
  | case3 al ai an ab ar ap aq bl bi bn bb br bp bq hp x hsz nl nr ml mi mn mb mr mloc mq hm ihl ihr =>
    have hs : BST cmp x.1 ∧ BST cmp x.2.2 ∧ All (fun j => cmp j.key ai.key = .lt) x.1 ∧
      All (fun j => cmp j.key ai.key = .gt) x.2.2 := split_bst cmp _ _ hb
    obtain ⟨hal, har, haal, haar⟩ := ha
    have hmid : get cmp (node bl bi bn bb br bp bq) ai.key = some mi ∧ cmp ai.key mi.key = .eq := by
      rcases split_mid cmp ai.key (node bl bi bn bb br bp bq) with
        ⟨h, _⟩ | ⟨_, _, _, _, _, _, _, h, hg, he⟩
      · rw [show (split cmp (node bl bi bn bb br bp bq) ai.key).2.1 = _ from hm] at h; cases h
      · rw [show (split cmp (node bl bi bn bb br bp bq) ai.key).2.1 = _ from hm] at h; cases h
        exact ⟨hg, he⟩
    obtain ⟨hg, he⟩ := hmid
    have hck : cmp k mi.key = cmp k ai.key := (TransCmp.congr_right he).symm
    cases hk : cmp k ai.key with
    | lt =>
      rw [get_mk_lt cmp (hck.trans hk), ihl hal hs.1, get_node_lt cmp hk]
      congr 1
      exact split_get_lt cmp hk _
    | gt =>
      rw [get_mk_gt cmp (hck.trans hk), ihr har hs.2.1, get_node_gt cmp hk]
      congr 1
      exact split_get_gt cmp hk _
    | eq =>
      rw [get_mk_eq cmp (hck.trans hk), get_congr cmp hk, hg]
      rfl
  | case4 al ai an ab ar ap aq bl bi bn bb br bp bq hp x hsz nl nr hm ihl ihr =>
    have hs : BST cmp x.1 ∧ BST cmp x.2.2 ∧ All (fun j => cmp j.key ai.key = .lt) x.1 ∧
      All (fun j => cmp j.key ai.key = .gt) x.2.2 := split_bst cmp _ _ hb
    obtain ⟨hal, har, haal, haar⟩ := ha
    have hg : get cmp (node bl bi bn bb br bp bq) ai.key = none := by
      rcases split_mid cmp ai.key (node bl bi bn bb br bp bq) with
        ⟨_, hg⟩ | ⟨_, _, _, _, _, _, _, h, _, _⟩
      · exact hg
      · rw [show (split cmp (node bl bi bn bb br bp bq) ai.key).2.1 = _ from hm] at h; cases h
    cases hk : cmp k ai.key with
    | lt =>
      rw [get_mk_lt cmp hk, ihl hal hs.1, get_node_lt cmp hk]
      congr 1
      exact split_get_lt cmp hk _
    | gt =>
      rw [get_mk_gt cmp hk, ihr har hs.2.1, get_node_gt cmp hk]
      congr 1
      exact split_get_gt cmp hk _
    | eq =>
      rw [get_mk_eq cmp hk, get_congr cmp hk, hg, get_node_eq cmp hk]
      rfl
  | case5 al ai an ab ar ap aq bl bi bn bb br bp bq hp x hsz ihl ihr =>
    have hs : BST cmp x.1 ∧ BST cmp x.2.2 ∧ All (fun j => cmp j.key bi.key = .lt) x.1 ∧
      All (fun j => cmp j.key bi.key = .gt) x.2.2 := split_bst cmp _ _ ha
    obtain ⟨hbl, hbr, hbbl, hbbr⟩ := hb
    cases hk : cmp k bi.key with
    | lt =>
      rw [get_mk_lt cmp hk, ihl hs.1 hbl, get_node_lt cmp hk]
      congr 1
      funext _
      exact split_get_lt cmp hk _
    | gt =>
      rw [get_mk_gt cmp hk, ihr hs.2.1 hbr, get_node_gt cmp hk]
      congr 1
      funext _
      exact split_get_gt cmp hk _
    | eq =>
      rw [get_mk_eq cmp hk, get_node_eq cmp hk]
      rfl

/-! ### `setItem` -/

omit [Std.TransCmp cmp] in
theorem bst_single (i : Item) (a b : Nat) (p q : Option Ploc) :
    BST cmp (node nil i a b nil p q) := by
  unfold BST
  exact ⟨trivial, trivial, trivial, trivial⟩

theorem setItem_bst {t : Tree} (h : BST cmp t) (i : Item) : BST cmp (setItem cmp t i) :=
  union_bst cmp h (bst_single cmp ..)

theorem get_setItem {t : Tree} (h : BST cmp t) (i : Item) (k : Bytes) :
    get cmp (setItem cmp t i) k = if cmp k i.key = .eq then some i else get cmp t k := by
  unfold setItem
  rw [get_union cmp h (bst_single cmp ..)]
  cases hk : cmp k i.key <;> simp [get, hk]

theorem setItem_toList {t : Tree} (h : BST cmp t) (i : Item) :
    (setItem cmp t i).toList = Spec.insert cmp t.toList i := by
  have hs := toList_sorted cmp h
  refine Spec.sorted_ext cmp (toList_sorted cmp (setItem_bst cmp h i))
    (Spec.insert_sorted cmp hs i) (fun k => ?_)
  rw [← get_eq_lookup cmp (setItem_bst cmp h i), get_setItem cmp h, Spec.lookup_insert cmp hs,
    get_eq_lookup cmp h]

/-! ### `min`, `max` -/

private theorem head?_append_of_ne_nil {α} {l : List α} (r : List α) (h : l ≠ []) :
    (l ++ r).head? = l.head? := by
  cases l with
  | nil => contradiction
  | cons b r => rfl

private theorem getLast?_append_cons_of_ne_nil {α} (l : List α) (a : α) {r : List α}
    (h : r ≠ []) : (l ++ a :: r).getLast? = r.getLast? := by
  cases r with
  | nil => contradiction
  | cons b r =>
    rw [List.getLast?_append, List.getLast?_cons_cons]
    cases h' : (b :: r).getLast? with
    | none => simp at h'
    | some x => rfl

theorem toList_node_ne_nil (l r : Tree) (i : Item) (a b : Nat) (p q : Option Ploc) :
    (node l i a b r p q).toList ≠ [] := by
  simp [toList]

theorem min_eq_head : ∀ t : Tree, t.min = t.toList.head?
  | nil => rfl
  | node nil i _ _ r _ _ => by simp [min, toList]
  | node (node ll li la lb lr lp lq) i a b r p q => by
    have ih := min_eq_head (node ll li la lb lr lp lq)
    show min (node ll li la lb lr lp lq) = ((node ll li la lb lr lp lq).toList ++ i :: r.toList).head?
    rw [head?_append_of_ne_nil _ (toList_node_ne_nil _ _ _ _ _ _ _)]
    exact ih

theorem max_eq_getLast : ∀ t : Tree, t.max = t.toList.getLast?
  | nil => rfl
  | node l i _ _ nil _ _ => by simp [max, toList]
  | node l i a b (node rl ri ra rb rr rp rq) p q => by
    have ih := max_eq_getLast (node rl ri ra rb rr rp rq)
    show max (node rl ri ra rb rr rp rq) = (l.toList ++ i :: (node rl ri ra rb rr rp rq).toList).getLast?
    rw [getLast?_append_cons_of_ne_nil _ _ (toList_node_ne_nil _ _ _ _ _ _ _)]
    exact ih

end Tree
end Gkv

/-
Axiom audit (observed with `lake env lean` on Lean 4.33.0):

#print axioms Gkv.Tree.toList_sorted    -- [propext, Quot.sound]
#print axioms Gkv.Tree.get_eq_lookup    -- [propext, Quot.sound]
#print axioms Gkv.Tree.union_bst        -- [propext, Quot.sound]
#print axioms Gkv.Tree.get_union        -- [propext, Quot.sound]
#print axioms Gkv.Tree.setItem_bst      -- [propext, Quot.sound]
#print axioms Gkv.Tree.setItem_toList   -- [propext, Quot.sound]
#print axioms Gkv.Tree.min_eq_head      -- [propext]
#print axioms Gkv.Tree.max_eq_getLast   -- [propext]
-/
