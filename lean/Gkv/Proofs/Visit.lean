/-
Range visits (`visitNodes` of collection.go): the stateful, early-stopping `visit` is the
fold-until-false of the visitor over `visitAsc` / `visitDesc`, and on a search tree those lists are
exactly the in-order list (with true depths) restricted to the keys `≥ tgt` / `< tgt`.
-/
import Gkv.Proofs.Split
open Std

namespace Gkv
namespace Tree

/-! ### control flow: `visit` = `foldUntil` over the visit list (no order hypotheses) -/

/-- folding over `l1 ++ l2` is folding over `l1` and, if that did not stop, over `l2` -/
theorem foldUntil_append {σ : Type} (v : σ → Item → Nat → σ × Bool)
    (l1 l2 : List (Item × Nat)) (s : σ) :
    foldUntil v (l1 ++ l2) s =
      if !(foldUntil v l1 s).2 then ((foldUntil v l1 s).1, false)
      else foldUntil v l2 (foldUntil v l1 s).1 := by
  induction l1 generalizing s with
  | nil => simp [foldUntil]
  | cons hd rest ih =>
    obtain ⟨i, d⟩ := hd
    simp only [List.cons_append, foldUntil]
    by_cases hk : (v s i d).2 = true
    · simp [hk, ih]
    · simp [hk]

theorem foldUntil_cons {σ : Type} (v : σ → Item → Nat → σ × Bool)
    (i : Item) (d : Nat) (rest : List (Item × Nat)) (s : σ) :
    foldUntil v ((i, d) :: rest) s =
      if !(v s i d).2 then ((v s i d).1, false) else foldUntil v rest (v s i d).1 := rfl

section control
variable (cmp : Bytes → Bytes → Ordering)

theorem visit_asc_eq_foldUntil {σ : Type} (v : σ → Item → Nat → σ × Bool) (t : Tree) (tgt : Bytes)
    (d : Nat) (s : σ) :
    visit cmp true v t tgt d s = foldUntil v (visitAsc cmp t tgt d) s := by
  induction t generalizing d s with
  | nil => rfl
  | node l i a b r p q ihl ihr =>
    unfold visit visitAsc
    by_cases hc : cmp tgt i.key = .gt
    · simp [hc, ihr]
    · simp only [hc, if_true, if_false, bne_iff_ne, ne_eq, not_false_eq_true,
        foldUntil_append, foldUntil_cons, ihl, ihr]

theorem visit_desc_eq_foldUntil {σ : Type} (v : σ → Item → Nat → σ × Bool) (t : Tree) (tgt : Bytes)
    (d : Nat) (s : σ) :
    visit cmp false v t tgt d s = foldUntil v (visitDesc cmp t tgt d) s := by
  induction t generalizing d s with
  | nil => rfl
  | node l i a b r p q ihl ihr =>
    unfold visit visitDesc
    by_cases hc : cmp tgt i.key = .gt
    · simp [hc, foldUntil_append, foldUntil_cons, ihl, ihr]
    · simp [hc, ihl]

end control

/-! ### projections of `inorderD` -/

theorem inorderD_map_fst (t : Tree) (d : Nat) : (inorderD t d).map (·.1) = t.toList := by
  induction t generalizing d with
  | nil => rfl
  | node l i a b r p q ihl ihr => simp [inorderD, toList, ihl, ihr]

theorem fst_mem_toList_of_mem_inorderD {t : Tree} {d : Nat} {p : Item × Nat}
    (h : p ∈ inorderD t d) : p.1 ∈ t.toList := by
  rw [← inorderD_map_fst t d]
  exact List.mem_map_of_mem h

/-! ### order facts (need the search-tree invariant) -/

variable (cmp : Bytes → Bytes → Ordering) [Std.TransCmp cmp]

/-- a search tree's in-order list is strictly ascending -/
theorem BST.toList_pairwise_lt {t : Tree} (h : BST cmp t) :
    t.toList.Pairwise (fun a b => cmp a.key b.key = .lt) := by
  induction t with
  | nil => exact List.Pairwise.nil
  | node l i a b r p q ihl ihr =>
    obtain ⟨hl, hr, hal, har⟩ := h
    have hal' := (All_iff_toList l).mp hal
    have har' := (All_iff_toList r).mp har
    simp only [toList]
    rw [List.pairwise_append]
    refine ⟨ihl hl, ?_, ?_⟩
    · rw [List.pairwise_cons]
      exact ⟨fun j hj => OrientedCmp.lt_of_gt (har' j hj), ihr hr⟩
    · intro x hx y hy
      rcases List.mem_cons.mp hy with rfl | hy
      · exact hal' x hx
      · exact TransCmp.lt_trans (hal' x hx) (OrientedCmp.lt_of_gt (har' y hy))

theorem visitAsc_eq_filter {t : Tree} (h : BST cmp t) (tgt : Bytes) (d : Nat) :
    visitAsc cmp t tgt d = (inorderD t d).filter (fun p => cmp tgt p.1.key != .gt) := by
  induction t generalizing d with
  | nil => rfl
  | node l i a b r p q ihl ihr =>
    obtain ⟨hl, hr, hal, har⟩ := h
    have hal' := (All_iff_toList l).mp hal
    unfold visitAsc
    simp only [inorderD, List.filter_append, List.filter_cons]
    by_cases hc : cmp tgt i.key = .gt
    · have hL : (inorderD l (d+1)).filter (fun p => cmp tgt p.1.key != .gt) = [] := by
        rw [List.filter_eq_nil_iff]
        intro x hx
        have h1 : cmp x.1.key i.key = .lt := hal' x.1 (fst_mem_toList_of_mem_inorderD hx)
        have h2 : cmp tgt x.1.key = .gt :=
          TransCmp.gt_trans hc (OrientedCmp.gt_of_lt h1)
        simp [h2]
      simp [hc, hL, ihr hr]
    · simp [hc, ihl hl, ihr hr]

theorem visitDesc_eq_filter {t : Tree} (h : BST cmp t) (tgt : Bytes) (d : Nat) :
    visitDesc cmp t tgt d = ((inorderD t d).filter (fun p => cmp tgt p.1.key == .gt)).reverse := by
  induction t generalizing d with
  | nil => rfl
  | node l i a b r p q ihl ihr =>
    obtain ⟨hl, hr, hal, har⟩ := h
    have har' := (All_iff_toList r).mp har
    unfold visitDesc
    simp only [inorderD, List.filter_append, List.filter_cons]
    by_cases hc : cmp tgt i.key = .gt
    · simp [hc, ihl hl, ihr hr]
    · have hR : (inorderD r (d+1)).filter (fun p => cmp tgt p.1.key == .gt) = [] := by
        rw [List.filter_eq_nil_iff]
        intro x hx
        have h1 : cmp i.key x.1.key = .lt :=
          OrientedCmp.lt_of_gt (har' x.1 (fst_mem_toList_of_mem_inorderD hx))
        have h2 : cmp tgt x.1.key = .lt := by
          cases h3 : cmp tgt i.key with
          | lt => exact TransCmp.lt_trans h3 h1
          | eq => exact TransCmp.lt_of_eq_of_lt h3 h1
          | gt => exact absurd h3 hc
        simp [h2]
      simp [hc, hR, ihl hl]

/-! ### delivered keys are strictly monotone -/

theorem visitAsc_sorted {t : Tree} (h : BST cmp t) (tgt : Bytes) (d : Nat) :
    ((visitAsc cmp t tgt d).map (·.1)).Pairwise (fun a b => cmp a.key b.key = .lt) := by
  rw [visitAsc_eq_filter cmp h]
  have hs : ((inorderD t d).filter (fun p => cmp tgt p.1.key != .gt)).map (·.1) |>.Sublist t.toList := by
    rw [← inorderD_map_fst t d]
    exact List.Sublist.map _ List.filter_sublist
  exact List.Pairwise.sublist hs (BST.toList_pairwise_lt cmp h)

theorem visitDesc_sorted {t : Tree} (h : BST cmp t) (tgt : Bytes) (d : Nat) :
    ((visitDesc cmp t tgt d).map (·.1)).Pairwise (fun a b => cmp a.key b.key = .gt) := by
  rw [visitDesc_eq_filter cmp h, List.map_reverse, List.pairwise_reverse]
  have hs : ((inorderD t d).filter (fun p => cmp tgt p.1.key == .gt)).map (·.1) |>.Sublist t.toList := by
    rw [← inorderD_map_fst t d]
    exact List.Sublist.map _ List.filter_sublist
  refine List.Pairwise.imp ?_ (List.Pairwise.sublist hs (BST.toList_pairwise_lt cmp h))
  intro a b hab
  exact OrientedCmp.gt_of_lt hab

end Tree
end Gkv

#print axioms Gkv.Tree.visitAsc_eq_filter
#print axioms Gkv.Tree.visitDesc_eq_filter
#print axioms Gkv.Tree.visit_asc_eq_foldUntil
#print axioms Gkv.Tree.visit_desc_eq_foldUntil
#print axioms Gkv.Tree.inorderD_map_fst
#print axioms Gkv.Tree.visitAsc_sorted
#print axioms Gkv.Tree.visitDesc_sorted

/-
`#print axioms` output (lake env lean Gkv/Proofs/Visit.lean, Lean 4.33.0):

'Gkv.Tree.visitAsc_eq_filter' depends on axioms: [propext, Classical.choice, Quot.sound]
'Gkv.Tree.visitDesc_eq_filter' depends on axioms: [propext, Classical.choice, Quot.sound]
'Gkv.Tree.visit_asc_eq_foldUntil' depends on axioms: [propext]
'Gkv.Tree.visit_desc_eq_foldUntil' depends on axioms: [propext]
'Gkv.Tree.inorderD_map_fst' depends on axioms: [propext]
'Gkv.Tree.visitAsc_sorted' depends on axioms: [propext, Classical.choice, Quot.sound]
'Gkv.Tree.visitDesc_sorted' depends on axioms: [propext, Classical.choice, Quot.sound]
-/
