/-
C13, second half: heap order and canonical shape.

* `setItem` keeps heap order as long as the key is not overwritten with a lower priority
  (`setItem_heap`), and that hypothesis cannot be dropped (`setItem_heap_needs_hyp`).
* A search tree that is strictly heap ordered is determined, as a shape, by its in-order item
  list (`canonical_unique`); hence the depth every item is reported at is a function of the
  current items alone (`canonical_depths`), independent of the order of operations that built the
  tree.  With pairwise distinct priorities heap order is strict heap order
  (`heapStrict_of_distinct`).
-/
import Gkv.Proofs.TreapSet
import Gkv.Proofs.TreapDel
import Gkv.Proofs.Visit
open Std

namespace Gkv
namespace Tree

variable (cmp : Bytes → Bytes → Ordering) [Std.TransCmp cmp]

/-! ### `setItem` keeps heap order -/

omit [Std.TransCmp cmp] in
theorem heap_union_nil_right (a : Tree) : union cmp a nil = a := by
  cases a <;> simp [union]

theorem heap_single (i : Item) (n b : Nat) (p q : Option Ploc) :
    HeapOK (node nil i n b nil p q) := by
  refine ⟨trivial, trivial, ?_, ?_⟩ <;> intro _ h <;> cases h

omit [Std.TransCmp cmp] in
/-- `split` of a one-node tree -/
theorem heap_split_single (i : Item) (n b : Nat) (p q : Option Ploc) (s : Bytes) :
    split cmp (node nil i n b nil p q) s =
      match cmp s i.key with
      | .eq => (nil, node nil i n b nil p q, nil)
      | .lt => (nil, nil, node nil i n b nil p q)
      | .gt => (node nil i n b nil p q, nil, nil) := by
  unfold split
  cases cmp s i.key <;> rfl

/-- `union` with a one-node right operand: heap order is kept, and the new root does not outrank
    any common bound of the two old roots.  `hp` : the key is not overwritten with a lower
    priority. -/
theorem union_single_heap (i : Item) (n b : Nat) (p q : Option Ploc) :
    ∀ {a : Tree}, BST cmp a → HeapOK a →
      (∀ j, get cmp a i.key = some j → j.prio ≤ i.prio) →
      HeapOK (union cmp a (node nil i n b nil p q)) ∧
      ∀ B, (∀ x, a.rootPrio = some x → x ≤ B) → i.prio ≤ B →
        ∀ x, (union cmp a (node nil i n b nil p q)).rootPrio = some x → x ≤ B
  | nil, _, _, _ => by
    rw [union]
    exact ⟨heap_single .., fun B _ hi x hx => by
      simp only [rootPrio, Option.some.injEq] at hx; omega⟩
  | node al ai an ab ar ap aq, hb, hh, hp => by
    obtain ⟨hbl, hbr, hbal, hbar⟩ := hb
    obtain ⟨hhl, hhr, hpl, hpr⟩ := hh
    rw [union]
    by_cases hgt : ai.prio > i.prio
    · rw [if_pos hgt]
      dsimp only
      rw [heap_split_single]
      cases hc : cmp ai.key i.key with
      | eq =>
        -- the key is already at the root with a higher priority: excluded by `hp`
        exfalso
        have hc' : cmp i.key ai.key = .eq := OrientedCmp.eq_symm hc
        have := hp ai (get_node_eq cmp hc')
        omega
      | lt =>
        have hc' : cmp i.key ai.key = .gt := OrientedCmp.gt_of_lt hc
        dsimp only
        rw [heap_union_nil_right]
        have ih := union_single_heap i n b p q hbr hhr
          (fun j hj => hp j (by rw [get_node_gt cmp hc']; exact hj))
        refine ⟨⟨hhl, ih.1, hpl, ih.2 ai.prio hpr (Nat.le_of_lt hgt)⟩, ?_⟩
        intro B hB _ x hx
        exact hB x hx
      | gt =>
        have hc' : cmp i.key ai.key = .lt := OrientedCmp.lt_of_gt hc
        dsimp only
        rw [heap_union_nil_right]
        have ih := union_single_heap i n b p q hbl hhl
          (fun j hj => hp j (by rw [get_node_lt cmp hc']; exact hj))
        refine ⟨⟨ih.1, hhr, ih.2 ai.prio hpl (Nat.le_of_lt hgt), hpr⟩, ?_⟩
        intro B hB _ x hx
        exact hB x hx
    · rw [if_neg hgt]
      dsimp only
      rw [heap_union_nil_right, heap_union_nil_right]
      have hs := split_heap_bound cmp (t := node al ai an ab ar ap aq) ⟨hhl, hhr, hpl, hpr⟩
        i.key i.prio (fun x hx => by
          simp only [rootPrio, Option.some.injEq] at hx; omega)
      refine ⟨⟨hs.1.1, hs.2.2.1, hs.1.2, hs.2.2.2⟩, ?_⟩
      intro B _ hi x hx
      simp only [mk, rootPrio, Option.some.injEq] at hx
      omega

/-- SetItem keeps heap order when the new priority is at least the key's current one
    (or the key is new). -/
theorem setItem_heap {t : Tree} (hb : BST cmp t) (hh : HeapOK t) (i : Item)
    (hp : ∀ j, get cmp t i.key = some j → j.prio ≤ i.prio) : HeapOK (setItem cmp t i) :=
  (union_single_heap cmp i 1 i.nbytes none none hb hh hp).1

/-- The hypothesis of `setItem_heap` is necessary: overwriting the root (priority 5) of a
    two-node tree with priority 1 leaves its child (priority 3) outranking it. -/
theorem setItem_heap_needs_hyp :
    ∃ (t : Tree) (i : Item), BST cmpBytes t ∧ HeapOK t ∧ ¬ HeapOK (setItem cmpBytes t i) := by
  refine ⟨node (node nil ⟨[0], [], 3⟩ 1 1 nil none none) ⟨[1], [], 5⟩ 2 2 nil none none,
    ⟨[1], [], 1⟩, ?_, ?_, ?_⟩
  · simp [BST, All, cmpBytes]
    decide
  · simp [HeapOK, rootPrio]
  · simp [setItem, union, split, cmpBytes, mk, HeapOK, rootPrio]

/-! ### strict heap order and the canonical shape -/

/-- strict heap order: every child has a strictly smaller priority than its parent -/
def HeapStrict : Tree → Prop
  | nil => True
  | node l i _ _ r _ _ =>
    HeapStrict l ∧ HeapStrict r ∧ (∀ p, l.rootPrio = some p → p < i.prio) ∧
      (∀ p, r.rootPrio = some p → p < i.prio)

/-- forget the stored aggregates and the file locations -/
def shape : Tree → Tree
  | nil => nil
  | node l i _ _ r _ _ => node (shape l) i 0 0 (shape r) none none

theorem HeapStrict.heapOK : ∀ {t : Tree}, HeapStrict t → HeapOK t
  | nil, _ => trivial
  | node _ _ _ _ _ _ _, ⟨hl, hr, hpl, hpr⟩ =>
    ⟨hl.heapOK, hr.heapOK, fun p hp => Nat.le_of_lt (hpl p hp), fun p hp => Nat.le_of_lt (hpr p hp)⟩

@[simp] theorem toList_shape : ∀ t : Tree, (shape t).toList = t.toList
  | nil => rfl
  | node l i _ _ r _ _ => by simp [shape, toList, toList_shape l, toList_shape r]

@[simp] theorem inorderD_shape : ∀ (t : Tree) (d : Nat), inorderD (shape t) d = inorderD t d
  | nil, _ => rfl
  | node l i _ _ r _ _, d => by
    simp [shape, inorderD, inorderD_shape l (d+1), inorderD_shape r (d+1)]

/-- in a strictly heap-ordered tree every item is bounded by any strict bound on the root -/
theorem HeapStrict.all_lt : ∀ {t : Tree}, HeapStrict t → ∀ B : Nat,
    (∀ p, t.rootPrio = some p → p < B) → ∀ j ∈ t.toList, j.prio < B
  | nil, _, _, _, j, hj => by simp [toList] at hj
  | node l i _ _ r _ _, ⟨hl, hr, hpl, hpr⟩, B, hB, j, hj => by
    have hi : i.prio < B := hB i.prio rfl
    simp only [toList, List.mem_append, List.mem_cons] at hj
    rcases hj with hj | rfl | hj
    · exact Nat.lt_trans (hl.all_lt i.prio hpl j hj) hi
    · exact hi
    · exact Nat.lt_trans (hr.all_lt i.prio hpr j hj) hi

/-- cancellation around a pivot that occurs on neither left side -/
theorem heap_append_cons_cancel {α : Type} {a : α} : ∀ {l₁ l₂ r₁ r₂ : List α},
    a ∉ l₁ → a ∉ l₂ → l₁ ++ a :: r₁ = l₂ ++ a :: r₂ → l₁ = l₂ ∧ r₁ = r₂
  | [], [], _, _, _, _, h => by
    simp only [List.nil_append, List.cons.injEq, true_and] at h
    exact ⟨rfl, h⟩
  | [], y :: l₂, _, _, _, h2, h => by
    simp only [List.nil_append, List.cons_append, List.cons.injEq] at h
    exact absurd (List.mem_cons.mpr (Or.inl h.1)) h2
  | x :: l₁, [], _, _, h1, _, h => by
    simp only [List.nil_append, List.cons_append, List.cons.injEq] at h
    exact absurd (List.mem_cons.mpr (Or.inl h.1.symm)) h1
  | x :: l₁, y :: l₂, _, _, h1, h2, h => by
    simp only [List.cons_append, List.cons.injEq] at h
    have := heap_append_cons_cancel (fun hm => h1 (List.mem_cons_of_mem _ hm))
      (fun hm => h2 (List.mem_cons_of_mem _ hm)) h.2
    exact ⟨by rw [h.1, this.1], this.2⟩

/-- in a search tree the root item occurs in neither subtree -/
theorem BST.root_not_mem {l r : Tree} {i : Item} {a b : Nat} {p q : Option Ploc}
    (h : BST cmp (node l i a b r p q)) : i ∉ l.toList ∧ i ∉ r.toList := by
  obtain ⟨_, _, hal, har⟩ := h
  have hrefl : cmp i.key i.key = .eq := ReflCmp.compare_self
  constructor
  · intro hm
    have := (All_iff_toList l).mp hal i hm
    rw [hrefl] at this
    cases this
  · intro hm
    have := (All_iff_toList r).mp har i hm
    rw [hrefl] at this
    cases this

/-- Canonical shape: a search tree that is strictly heap ordered is determined by its item list
    (as a shape: stored aggregates and file locations aside). -/
theorem canonical_unique {t t' : Tree} (hb : BST cmp t) (hb' : BST cmp t') (hs : HeapStrict t)
    (hs' : HeapStrict t') (hl : t.toList = t'.toList) : shape t = shape t' := by
  induction t generalizing t' with
  | nil =>
    cases t' with
    | nil => rfl
    | node l' i' a' b' r' p' q' => simp [toList] at hl
  | node l i a b r p q ihl ihr =>
    cases t' with
    | nil => simp [toList] at hl
    | node l' i' a' b' r' p' q' =>
      obtain ⟨hsl, hsr, hpl, hpr⟩ := hs
      obtain ⟨hsl', hsr', hpl', hpr'⟩ := hs'
      -- the root is the unique item of maximal priority
      have hi : i = i' := by
        have hm : i ∈ (node l' i' a' b' r' p' q').toList := by
          rw [← hl]; simp [toList]
        have hm' : i' ∈ (node l i a b r p q).toList := by
          rw [hl]; simp [toList]
        simp only [toList, List.mem_append, List.mem_cons] at hm hm'
        rcases hm with hm | hm | hm
        · have h1 := hsl'.all_lt i'.prio hpl' i hm
          rcases hm' with hm' | hm' | hm'
          · have := hsl.all_lt i.prio hpl i' hm'; omega
          · exact hm'.symm
          · have := hsr.all_lt i.prio hpr i' hm'; omega
        · exact hm
        · have h1 := hsr'.all_lt i'.prio hpr' i hm
          rcases hm' with hm' | hm' | hm'
          · have := hsl.all_lt i.prio hpl i' hm'; omega
          · exact hm'.symm
          · have := hsr.all_lt i.prio hpr i' hm'; omega
      subst hi
      have hn := BST.root_not_mem cmp hb
      have hn' := BST.root_not_mem cmp hb'
      have hc := heap_append_cons_cancel hn.1 hn'.1 (show l.toList ++ i :: r.toList =
        l'.toList ++ i :: r'.toList from hl)
      obtain ⟨hbl, hbr, _, _⟩ := hb
      obtain ⟨hbl', hbr', _, _⟩ := hb'
      simp only [shape]
      rw [ihl hbl hbl' hsl hsl' hc.1, ihr hbr hbr' hsr hsr' hc.2]

/-- Hence depths are a function of the item set. -/
theorem canonical_depths {t t' : Tree} (hb : BST cmp t) (hb' : BST cmp t') (hs : HeapStrict t)
    (hs' : HeapStrict t') (hl : t.toList = t'.toList) : inorderD t 0 = inorderD t' 0 := by
  rw [← inorderD_shape t 0, ← inorderD_shape t' 0, canonical_unique cmp hb hb' hs hs' hl]

/-- the root's priority is the priority of an item of the tree -/
theorem rootPrio_mem {t : Tree} {p : Nat} (h : t.rootPrio = some p) :
    p ∈ t.toList.map (·.prio) := by
  cases t with
  | nil => cases h
  | node l i a b r p' q =>
    simp only [rootPrio, Option.some.injEq] at h
    subst h
    simp [toList]

/-- With pairwise distinct priorities, heap order is strict heap order. -/
theorem heapStrict_of_distinct {t : Tree} (hh : HeapOK t)
    (hd : (t.toList.map (·.prio)).Nodup) : HeapStrict t := by
  induction t with
  | nil => trivial
  | node l i a b r p q ihl ihr =>
    obtain ⟨hl, hr, hpl, hpr⟩ := hh
    simp only [toList, List.map_append, List.map_cons] at hd
    have hd' := List.nodup_append.mp hd
    have hdr := List.nodup_cons.mp hd'.2.1
    refine ⟨ihl hl hd'.1, ihr hr hdr.2, ?_, ?_⟩
    · intro x hx
      have hle := hpl x hx
      have hne : x ≠ i.prio := hd'.2.2 x (rootPrio_mem hx) i.prio (List.mem_cons_self ..)
      omega
    · intro x hx
      have hle := hpr x hx
      have hne : x ≠ i.prio := fun he => hdr.1 (he ▸ rootPrio_mem hx)
      omega

end Tree
end Gkv

open Gkv Tree in
#print axioms setItem_heap
open Gkv Tree in
#print axioms setItem_heap_needs_hyp
open Gkv Tree in
#print axioms canonical_unique
open Gkv Tree in
#print axioms canonical_depths
open Gkv Tree in
#print axioms heapStrict_of_distinct

/-
Observed `#print axioms` output (lake env lean Gkv/Proofs/Heap.lean, Lean 4.33):

'Gkv.Tree.setItem_heap' depends on axioms: [propext, Quot.sound]
'Gkv.Tree.setItem_heap_needs_hyp' depends on axioms: [propext, Classical.choice, Quot.sound]
'Gkv.Tree.canonical_unique' depends on axioms: [propext, Quot.sound]
'Gkv.Tree.canonical_depths' depends on axioms: [propext, Quot.sound]
'Gkv.Tree.heapStrict_of_distinct' depends on axioms: [propext, Quot.sound]
-/
