/-
Proofs about the backward root scan (`scanRoots`) that `NewStore` and `FlushRevert` perform:
`rootAt f e` inspects only the bytes below `e`; the scan returns the greatest valid root end
`≤ sz` (or reports that there is none); crash atomicity at the level of the scan; and what
`openStore` / `revertStore` therefore do.
-/
import Gkv.Model.Store
namespace Gkv

theorem readAt_take (f : Bytes) (e off len : Nat) (h : off + len ≤ e) (he : e ≤ f.length) :
    readAt (f.take e) off len = readAt f off len := by
  unfold readAt
  have h1 : off + len ≤ (List.take e f).length := by
    rw [List.length_take]; omega
  have h2 : off + len ≤ f.length := by omega
  rw [if_pos h1, if_pos h2, List.drop_take, List.take_take]
  congr 2
  omega

theorem rootAt_take (f : Bytes) (e : Nat) (hf : e ≤ f.length) :
    rootAt (f.take e) e = rootAt f e := by
  unfold rootAt
  simp only [bind, Option.bind]
  by_cases he : e ≤ rootsLen
  · rw [if_pos he, if_pos he]
  · rw [if_neg he, if_neg he]
    have he' : rootsLen < e := Nat.lt_of_not_le he
    unfold rootsLen at he'
    rw [readAt_take f e (e - rootsEndLen) rootsEndLen (by unfold rootsEndLen; omega) hf]
    cases readAt f (e - rootsEndLen) rootsEndLen with
    | none => rfl
    | some tail =>
      dsimp only
      split
      · rfl
      · split
        · rfl
        · rename_i hc
          have hc' := Classical.not_not.mp hc
          rw [readAt_take f e _ _ (by have := hc'.2.1; unfold rootsLen at this; omega) hf]

theorem rootAt_congr (f g : Bytes) (e : Nat) (hf : e ≤ f.length) (hg : e ≤ g.length)
    (h : f.take e = g.take e) : rootAt f e = rootAt g e := by
  rw [← rootAt_take f e hf, ← rootAt_take g e hg, h]

theorem rootAt_le_rootsLen (f : Bytes) (e : Nat) (h : e ≤ rootsLen) : rootAt f e = none := by
  unfold rootAt
  simp only [bind, Option.bind]
  rw [if_pos h]

theorem rootAt_le_length (f : Bytes) (e : Nat) (roots : List (Bytes × Option Ploc))
    (h : rootAt f e = some roots) : e ≤ f.length ∧ rootsLen < e := by
  by_cases he : e ≤ rootsLen
  · rw [rootAt_le_rootsLen f e he] at h; cases h
  · have he' : rootsLen < e := Nat.lt_of_not_le he
    refine ⟨?_, he'⟩
    unfold rootAt at h
    simp only [bind, Option.bind] at h
    rw [if_neg he] at h
    unfold readAt at h
    by_cases hl : e - rootsEndLen + rootsEndLen ≤ f.length
    · unfold rootsLen at he'; unfold rootsEndLen at hl; omega
    · rw [if_neg hl] at h; cases h



/-! ### the scan -/

theorem scanRoots_zero (f : Bytes) (dflt : Bool) :
    scanRoots f dflt 0 = (if dflt then .empty else .noRoots) := rfl

theorem scanRoots_succ (f : Bytes) (dflt : Bool) (sz : Nat) :
    scanRoots f dflt (sz + 1) =
      if sz + 1 ≤ rootsLen then (if dflt then .empty else .noRoots)
      else match rootAt f (sz+1) with
        | some roots => .found (sz+1) roots
        | none => scanRoots f dflt sz := rfl

/-- below the minimum record length the scan stops at once -/
theorem scanRoots_small (f : Bytes) (dflt : Bool) (sz : Nat) (h : sz ≤ rootsLen) :
    scanRoots f dflt sz = (if dflt then .empty else .noRoots) := by
  cases sz with
  | zero => rfl
  | succ n => rw [scanRoots_succ, if_pos h]

theorem scanRoots_succ_some (f : Bytes) (dflt : Bool) (sz : Nat) (roots)
    (h : rootAt f (sz + 1) = some roots) : scanRoots f dflt (sz + 1) = .found (sz + 1) roots := by
  have := (rootAt_le_length f _ _ h).2
  rw [scanRoots_succ, if_neg (by omega), h]

theorem scanRoots_succ_none (f : Bytes) (dflt : Bool) (sz : Nat)
    (h : rootAt f (sz + 1) = none) : scanRoots f dflt (sz + 1) = scanRoots f dflt sz := by
  rw [scanRoots_succ]
  by_cases hs : sz + 1 ≤ rootsLen
  · rw [if_pos hs, scanRoots_small f dflt sz (by omega)]
  · rw [if_neg hs, h]

theorem scanRoots_found (f : Bytes) (dflt : Bool) (sz e : Nat) (roots : List (Bytes × Option Ploc))
    (h : scanRoots f dflt sz = .found e roots) :
    rootsLen < e ∧ e ≤ sz ∧ rootAt f e = some roots ∧
      ∀ e', e < e' → e' ≤ sz → rootAt f e' = none := by
  induction sz with
  | zero => rw [scanRoots_zero] at h; cases dflt <;> cases h
  | succ n ih =>
    cases hr : rootAt f (n + 1) with
    | some r =>
      rw [scanRoots_succ_some f dflt n r hr] at h
      injection h with h1 h2
      subst h1; subst h2
      refine ⟨(rootAt_le_length f _ _ hr).2, Nat.le_refl _, hr, ?_⟩
      intro e' h1 h2; omega
    | none =>
      rw [scanRoots_succ_none f dflt n hr] at h
      obtain ⟨a, b, c, d⟩ := ih h
      refine ⟨a, by omega, c, ?_⟩
      intro e' h1 h2
      by_cases he : e' = n + 1
      · subst he; exact hr
      · exact d e' h1 (by omega)

theorem scanRoots_none_iff (f : Bytes) (dflt : Bool) (sz : Nat)
    (h : ∀ e', e' ≤ sz → rootAt f e' = none) :
    scanRoots f dflt sz = (if dflt then .empty else .noRoots) := by
  induction sz with
  | zero => rfl
  | succ n ih =>
    rw [scanRoots_succ_none f dflt n (h _ (Nat.le_refl _))]
    exact ih (fun e' he => h e' (by omega))

theorem scanRoots_none (f : Bytes) (dflt : Bool) (sz : Nat)
    (h : scanRoots f dflt sz = .empty ∨ scanRoots f dflt sz = .noRoots) :
    (∀ e', e' ≤ sz → rootAt f e' = none) ∧ (scanRoots f dflt sz = .empty ↔ dflt = true) := by
  have hall : ∀ e', e' ≤ sz → rootAt f e' = none := by
    induction sz with
    | zero =>
      intro e' he
      exact rootAt_le_rootsLen f e' (by omega)
    | succ n ih =>
      cases hr : rootAt f (n + 1) with
      | some r =>
        rw [scanRoots_succ_some f dflt n r hr] at h
        rcases h with h | h <;> cases h
      | none =>
        rw [scanRoots_succ_none f dflt n hr] at h
        intro e' he
        by_cases he1 : e' = n + 1
        · subst he1; exact hr
        · exact ih h e' (by omega)
  refine ⟨hall, ?_⟩
  rw [scanRoots_none_iff f dflt sz hall]
  cases dflt <;> simp

theorem scanRoots_complete (f : Bytes) (dflt : Bool) (sz e : Nat) (roots : List (Bytes × Option Ploc))
    (he : e ≤ sz) (hr : rootAt f e = some roots)
    (hmax : ∀ e', e < e' → e' ≤ sz → rootAt f e' = none) :
    scanRoots f dflt sz = .found e roots := by
  induction sz with
  | zero =>
    have := (rootAt_le_length f _ _ hr).2
    omega
  | succ n ih =>
    by_cases hen : e = n + 1
    · subst hen
      exact scanRoots_succ_some f dflt n roots hr
    · rw [scanRoots_succ_none f dflt n (hmax _ (by omega) (Nat.le_refl _))]
      exact ih (by omega) (fun e' h1 h2 => hmax e' h1 (by omega))

theorem scan_crash_atomic (f g : Bytes) (E : Nat) (roots : List (Bytes × Option Ploc))
    (hE : rootAt f E = some roots) (hgE : E ≤ g.length) (hpre : g.take E = f.take E)
    (hjunk : ∀ e', E < e' → e' ≤ g.length → rootAt g e' = none) (dflt : Bool) :
    scanRoots g dflt g.length = .found E roots := by
  have hfE := (rootAt_le_length f E roots hE).1
  have hg : rootAt g E = some roots := by
    rw [rootAt_congr g f E hgE hfE hpre]; exact hE
  exact scanRoots_complete g dflt g.length E roots hgE hg hjunk

theorem take_writeAt (f b : Bytes) (off E : Nat) (h : E ≤ off) (hf : off ≤ f.length) :
    (writeAt f off b).take E = f.take E := by
  unfold writeAt
  rw [List.append_assoc, List.take_append_of_le_length (by rw [List.length_take]; omega),
    List.take_take]
  congr 1
  omega

theorem length_writeAt (f b : Bytes) (off : Nat) (hf : off ≤ f.length) :
    (writeAt f off b).length = max f.length (off + b.length) := by
  unfold writeAt
  simp only [List.length_append, List.length_take, List.length_drop]
  omega

theorem scan_no_roots (g : Bytes) (h : ∀ e', e' ≤ g.length → rootAt g e' = none) :
    scanRoots g false g.length = .noRoots ∧ scanRoots g true g.length = .empty := by
  constructor
  · rw [scanRoots_none_iff g false _ h]; rfl
  · rw [scanRoots_none_iff g true _ h]; rfl

theorem scanRoots_revert (f : Bytes) (E E' : Nat) (roots' : List (Bytes × Option Ploc))
    (hE : rootsLen < E) (hlt : E' < E) (hr : rootAt f E' = some roots')
    (hbetween : ∀ e', E' < e' → e' < E → rootAt f e' = none) :
    scanRoots f true (E - 1) = .found E' roots' := by
  have _ := hE   -- not needed: `rootsLen < E' < E` already follows from `hr`
  exact scanRoots_complete f true (E - 1) E' roots' (by omega) hr
    (fun e' h1 h2 => hbetween e' h1 (by omega))

/-! ### consequences for `openStore` / `revertStore` -/

/-- `NewStore` on any surviving image `g` of a file whose last valid root ends at `E`. -/
theorem openStore_crash_atomic (f g : Bytes) (E : Nat) (roots : List (Bytes × Option Ploc))
    (hE : rootAt f E = some roots) (hgE : E ≤ g.length) (hpre : g.take E = f.take E)
    (hjunk : ∀ e', E < e' → e' ≤ g.length → rootAt g e' = none)
    (fid : Nat) (cmpOf : Bytes → CmpKind) :
    openStore fid g cmpOf =
      match loadColls g cmpOf roots with
      | some cs => .ok ⟨some fid, E, cs, false⟩
      | none => .corrupt := by
  have hlen := (rootAt_le_length f E roots hE).2
  unfold openStore
  rw [if_neg (by omega), scan_crash_atomic f g E roots hE hgE hpre hjunk false]
  rfl

/-- `NewStore` on a non-empty file without any valid root end reports "no roots". -/
theorem openStore_no_roots (g : Bytes) (hne : g.length ≠ 0)
    (h : ∀ e', e' ≤ g.length → rootAt g e' = none) (fid : Nat) (cmpOf : Bytes → CmpKind) :
    openStore fid g cmpOf = .noRoots := by
  unfold openStore
  rw [if_neg hne, (scan_no_roots g h).1]

/-- `FlushRevert`: `E` is the end of the most recent root record at or below `st.size` (after a
    failed Flush `st.size` may lie beyond it); the store goes to the greatest valid end `E'`
    strictly below `E` and the file is truncated there. -/
theorem revertStore_prev (st : Store) (fid : Nat) (f : Bytes) (cmpOf : Bytes → CmpKind)
    (E : Nat) (rootsE : List (Bytes × Option Ploc))
    (hcur : rootAt f E = some rootsE) (hEle : E ≤ st.size)
    (habove : ∀ e', E < e' → e' ≤ st.size → rootAt f e' = none)
    (E' : Nat) (roots' : List (Bytes × Option Ploc))
    (hlt : E' < E) (hr : rootAt f E' = some roots')
    (hbetween : ∀ e', E' < e' → e' < E → rootAt f e' = none) :
    revertStore st fid f cmpOf =
      match loadColls f cmpOf roots' with
      | some cs => some ({ st with size := E', colls := cs, file := some fid },
                         if st.readOnly then f else f.take E')
      | none => none := by
  have hE : rootsLen < E := (rootAt_le_length f E rootsE hcur).2
  have hgt : E > rootsLen := hE
  unfold revertStore
  rw [scanRoots_complete f true st.size E rootsE hEle hcur habove]
  simp only [if_pos hgt]
  rw [scanRoots_revert f E E' roots' hE hlt hr hbetween]
  rfl

/-- the case C08 is about: `size` is exactly the end of the most recent root record -/
theorem revertStore_prev_at_end (st : Store) (fid : Nat) (f : Bytes) (cmpOf : Bytes → CmpKind)
    (rootsE : List (Bytes × Option Ploc)) (hcur : rootAt f st.size = some rootsE)
    (E' : Nat) (roots' : List (Bytes × Option Ploc))
    (hlt : E' < st.size) (hr : rootAt f E' = some roots')
    (hbetween : ∀ e', E' < e' → e' < st.size → rootAt f e' = none) :
    revertStore st fid f cmpOf =
      match loadColls f cmpOf roots' with
      | some cs => some ({ st with size := E', colls := cs, file := some fid },
                         if st.readOnly then f else f.take E')
      | none => none :=
  revertStore_prev st fid f cmpOf st.size rootsE hcur (Nat.le_refl _)
    (fun e' h1 h2 => by omega) E' roots' hlt hr hbetween

/-- `FlushRevert` empties the store when there is no valid root end at or below `st.size`, or
    when the most recent one `E` has no valid end strictly below it. -/
theorem revertStore_none (st : Store) (fid : Nat) (f : Bytes) (cmpOf : Bytes → CmpKind)
    (h : (∀ e', e' ≤ st.size → rootAt f e' = none) ∨
         (∃ E rootsE, rootAt f E = some rootsE ∧ E ≤ st.size ∧
            (∀ e', E < e' → e' ≤ st.size → rootAt f e' = none) ∧
            ∀ e', e' < E → rootAt f e' = none)) :
    revertStore st fid f cmpOf =
      some ({ st with size := 0, colls := [], file := some fid },
            if st.readOnly then f else []) := by
  unfold revertStore
  rcases h with h | ⟨E, rootsE, hcur, hEle, habove, hbelow⟩
  · rw [scanRoots_none_iff f true st.size h]
    have hng : ¬ (0 > rootsLen) := by omega
    simp only [if_true, if_neg hng]
    rfl
  · have hgt : E > rootsLen := (rootAt_le_length f E rootsE hcur).2
    rw [scanRoots_complete f true st.size E rootsE hEle hcur habove]
    simp only [if_pos hgt]
    rw [scanRoots_none_iff f true (E - 1) (fun e' he => hbelow e' (by omega))]
    rfl

#print axioms readAt_take
#print axioms rootAt_congr
#print axioms rootAt_le_length
#print axioms scanRoots_found
#print axioms scanRoots_none
#print axioms scanRoots_complete
#print axioms scan_crash_atomic
#print axioms take_writeAt
#print axioms length_writeAt
#print axioms scan_no_roots
#print axioms scanRoots_revert
#print axioms openStore_crash_atomic
#print axioms openStore_no_roots
#print axioms revertStore_prev
#print axioms revertStore_prev_at_end
#print axioms revertStore_none
end Gkv

/-
`#print axioms` output (lake env lean Gkv/Proofs/Scan.lean):

'Gkv.readAt_take' depends on axioms: [propext, Classical.choice, Quot.sound]
'Gkv.rootAt_congr' depends on axioms: [propext, Classical.choice, Quot.sound]
'Gkv.rootAt_le_length' depends on axioms: [propext, Quot.sound]
'Gkv.scanRoots_found' depends on axioms: [propext, Quot.sound]
'Gkv.scanRoots_none' depends on axioms: [propext, Quot.sound]
'Gkv.scanRoots_complete' depends on axioms: [propext, Classical.choice, Quot.sound]
'Gkv.scan_crash_atomic' depends on axioms: [propext, Classical.choice, Quot.sound]
'Gkv.take_writeAt' depends on axioms: [propext, Quot.sound]
'Gkv.length_writeAt' depends on axioms: [propext, Quot.sound]
'Gkv.scan_no_roots' depends on axioms: [propext, Quot.sound]
'Gkv.scanRoots_revert' depends on axioms: [propext, Classical.choice, Quot.sound]
'Gkv.openStore_crash_atomic' depends on axioms: [propext, Classical.choice, Quot.sound]
'Gkv.openStore_no_roots' depends on axioms: [propext, Quot.sound]
'Gkv.revertStore_prev' depends on axioms: [propext, Classical.choice, Quot.sound]
'Gkv.revertStore_prev_at_end' depends on axioms: [propext, Classical.choice, Quot.sound]
'Gkv.revertStore_none' depends on axioms: [propext, Classical.choice, Quot.sound]
-/
