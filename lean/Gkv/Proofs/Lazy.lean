/-
Property C19 — proofs about the read log of `Gkv/Model/Lazy.lean`: opening a file that ends in a
root record reads `Stat`, the 24-byte tail and the rest of that one record, nothing else; a
key-only item read and a node read never touch a value byte of any record they do not overlap.
-/
import Gkv.Model.Lazy
import Gkv.Proofs.Scan

namespace Gkv.Lazy
open Gkv

/-! ### the scan's reads versus `rootAt` (the validity test of `scanRoots`) -/

/-- `rootAt` written as the sequence of file accesses and checks the Go code performs -/
theorem rootAt_eq (f : Bytes) (e : Nat) (he : rootsLen < e) :
    rootAt f e =
      match readAt f (e - rootsEndLen) rootsEndLen with
      | none => none
      | some tail =>
        if (tail.drop 12).take 6 ≠ magicEnd ∨ tail.drop 18 ≠ magicEnd then none
        else
          if ¬ (unbe (tail.take 8) < 9223372036854775808 ∧ unbe (tail.take 8) + rootsLen < e ∧
                unbe ((tail.drop 8).take 4) = (e - unbe (tail.take 8)) % 4294967296) then none
          else
            match readAt f (unbe (tail.take 8)) (e - unbe (tail.take 8) - rootsEndLen) with
            | none => none
            | some data => checkData data (unbe ((tail.drop 8).take 4)) := by
  unfold rootAt
  simp only [bind, Option.bind]
  rw [if_neg (Nat.not_le_of_lt he)]
  cases readAt f (e - rootsEndLen) rootsEndLen with
  | none => rfl
  | some tail =>
    dsimp only
    split
    · rfl
    · split
      · rfl
      · cases readAt f (unbe (tail.take 8)) (e - unbe (tail.take 8) - rootsEndLen) with
        | none => rfl
        | some data => dsimp only [checkData]

/-- the 24-byte tail read at a position inside the file succeeds -/
theorem readAt_tail (f : Bytes) (e : Nat) (he : rootsLen < e) (hf : e ≤ f.length) :
    readAt f (e - rootsEndLen) rootsEndLen = some ((f.drop (e - rootsEndLen)).take rootsEndLen) := by
  unfold readAt
  rw [if_pos (by unfold rootsLen at he; unfold rootsEndLen; omega)]

/-- the offset field of the 24 bytes below `e` -/
def tailOff (f : Bytes) (e : Nat) : Nat := unbe ((f.drop (e - 24)).take 8)

theorem tailOff_eq (f : Bytes) (e : Nat) :
    unbe (((f.drop (e - rootsEndLen)).take rootsEndLen).take 8) = tailOff f e := by
  unfold tailOff rootsEndLen
  rw [List.take_take]
  rfl

/-- At a position inside the file, the scan stops exactly when `rootAt` accepts: the model of the
    reads and `scanRoots` (whose theorems are in `Proofs/Scan.lean`) take the same decisions. -/
theorem readsAt_stop_iff (f : Bytes) (e : Nat) (he : rootsLen < e) (hf : e ≤ f.length) :
    (readsAt f e).2 = (rootAt f e).isSome := by
  rw [rootAt_eq f e he]
  unfold readsAt
  rw [readAt_tail f e he hf]
  dsimp only
  split
  · rfl
  · split
    · rfl
    · rename_i hc
      have hc' := Classical.not_not.mp hc
      have hle : unbe (((f.drop (e - rootsEndLen)).take rootsEndLen).take 8) +
          (e - unbe (((f.drop (e - rootsEndLen)).take rootsEndLen).take 8) - rootsEndLen) ≤ f.length := by
        have := hc'.2.1
        unfold rootsLen rootsEndLen at this
        unfold rootsEndLen
        omega
      unfold readAt
      rw [if_pos hle]

/-- the reads at an accepted position: the tail, then the rest of the record -/
theorem readsAt_of_rootAt (f : Bytes) (e : Nat) (roots : List (Bytes × Option Ploc))
    (h : rootAt f e = some roots) :
    readsAt f e = ([Rd.read (e - 24) 24, Rd.read (tailOff f e) (e - tailOff f e - 24)], true) := by
  obtain ⟨hf, he⟩ := rootAt_le_length f e roots h
  rw [rootAt_eq f e he, readAt_tail f e he hf] at h
  unfold readsAt
  rw [readAt_tail f e he hf]
  dsimp only at h ⊢
  split
  · rename_i hm; rw [if_pos hm] at h; cases h
  · rename_i hm
    rw [if_neg hm] at h
    split
    · rename_i hc; rw [if_pos hc] at h; cases h
    · rename_i hc
      rw [if_neg hc] at h
      rw [tailOff_eq] at h ⊢
      cases hd : readAt f (tailOff f e) (e - tailOff f e - rootsEndLen) with
      | none => rw [hd] at h; cases h
      | some data =>
        rw [hd] at h
        dsimp only at h ⊢
        rw [h]
        rfl

/-- the reads at a rejected position inside the file: the tail and possibly the candidate record,
    all below `e`, and the scan goes on -/
theorem readsAt_of_not_rootAt (f : Bytes) (e : Nat) (he : rootsLen < e) (hf : e ≤ f.length)
    (h : rootAt f e = none) : (readsAt f e).2 = false := by
  rw [readsAt_stop_iff f e he hf, h]; rfl

/-- every read issued at a position lies below that position -/
theorem readsAt_below (f : Bytes) (e : Nat) (he : rootsLen < e) :
    ∀ r ∈ (readsAt f e).1, ∀ off len, r = Rd.read off len → off + len ≤ e := by
  have h24 : e - rootsEndLen + rootsEndLen ≤ e := by
    unfold rootsLen at he; unfold rootsEndLen; omega
  intro r hr off len hrd
  unfold readsAt at hr
  split at hr
  · simp only [List.mem_singleton] at hr; subst hr; cases hrd; exact h24
  · split at hr
    · simp only [List.mem_singleton] at hr; subst hr; cases hrd; exact h24
    · dsimp only at hr
      split at hr
      · simp only [List.mem_singleton] at hr; subst hr; cases hrd; exact h24
      · rename_i hc
        have hc' := Classical.not_not.mp hc
        have h2 := hc'.2.1
        have hmem : r = Rd.read (e - rootsEndLen) rootsEndLen ∨
            r = Rd.read (unbe (List.take 8 ‹Bytes›))
              (e - unbe (List.take 8 ‹Bytes›) - rootsEndLen) := by
          split at hr <;> simpa using hr
        rcases hmem with h1 | h1
        · subst h1; cases hrd; exact h24
        · subst h1; cases hrd
          unfold rootsLen at h2; unfold rootsEndLen
          omega

theorem scanReads_unfold (f : Bytes) (e : Nat) (he : rootsLen < e) :
    scanReads f e =
      if (readsAt f e).2 then (readsAt f e).1 else (readsAt f e).1 ++ scanReads f (e - 1) := by
  obtain ⟨sz, rfl⟩ : ∃ sz, e = sz + 1 := ⟨e - 1, by unfold rootsLen at he; omega⟩
  rw [scanReads, if_neg (Nat.not_le_of_lt he)]
  rfl

theorem scanReads_small (f : Bytes) (e : Nat) (he : e ≤ rootsLen) : scanReads f e = [] := by
  cases e with
  | zero => rfl
  | succ sz => rw [scanReads, if_pos he]

/-- the scan started at the end of a root record reads that record only -/
theorem scanReads_of_rootAt (f : Bytes) (e : Nat) (roots : List (Bytes × Option Ploc))
    (h : rootAt f e = some roots) :
    scanReads f e = [Rd.read (e - 24) 24, Rd.read (tailOff f e) (e - tailOff f e - 24)] := by
  obtain ⟨_, he⟩ := rootAt_le_length f e roots h
  rw [scanReads_unfold f e he, readsAt_of_rootAt f e roots h]
  rfl

/-- a rejected position costs its own reads and the scan continues one byte lower -/
theorem scanReads_of_not_rootAt (f : Bytes) (e : Nat) (he : rootsLen < e) (hf : e ≤ f.length)
    (h : rootAt f e = none) : scanReads f e = (readsAt f e).1 ++ scanReads f (e - 1) := by
  rw [scanReads_unfold f e he, readsAt_of_not_rootAt f e he hf h]
  rfl

/-- General opening: if the scan (`scanRoots`, started anywhere inside the file) finds its root
    record ending at `e`, the reads of the scan end with exactly the two reads of that record, and
    everything before them are the reads of rejected candidate positions above `e`. -/
theorem scanReads_found (f : Bytes) (roots : List (Bytes × Option Ploc)) (e : Nat) :
    ∀ sz, sz ≤ f.length → scanRoots f false sz = .found e roots →
      ∃ pre, scanReads f sz =
        pre ++ [Rd.read (e - 24) 24, Rd.read (tailOff f e) (e - tailOff f e - 24)]
  | 0, _, h => by
    rw [scanRoots_zero] at h; cases h
  | sz+1, hf, h => by
    by_cases hs : sz + 1 ≤ rootsLen
    · rw [scanRoots_small f false (sz+1) hs] at h; cases h
    · have hs' : rootsLen < sz + 1 := Nat.lt_of_not_le hs
      cases hr : rootAt f (sz+1) with
      | some roots' =>
        rw [scanRoots_succ_some f false sz roots' hr] at h
        cases h
        exact ⟨[], by rw [scanReads_of_rootAt f (sz+1) _ hr]; rfl⟩
      | none =>
        rw [scanRoots_succ_none f false sz hr] at h
        obtain ⟨pre, hpre⟩ := scanReads_found f roots e sz (Nat.le_of_succ_le hf) h
        refine ⟨(readsAt f (sz+1)).1 ++ pre, ?_⟩
        rw [scanReads_of_not_rootAt f (sz+1) hs' hf hr, Nat.add_sub_cancel, hpre, List.append_assoc]

/-! ### the theorems of property C19: opening -/

/-- opening a file that ends in a root record reads exactly: `Stat`, the 24-byte tail, and the rest
    of that record `[offset, |f|-24)` — no node record, no item record -/
theorem open_reads_root_only (f : Bytes) (roots : List (Bytes × Option Ploc))
    (h : rootAt f f.length = some roots) :
    openReads f =
      [Rd.stat, Rd.read (f.length - 24) 24,
       Rd.read (unbe ((f.drop (f.length - 24)).take 8))
         (f.length - unbe ((f.drop (f.length - 24)).take 8) - 24)] := by
  obtain ⟨_, he⟩ := rootAt_le_length f f.length roots h
  unfold openReads
  rw [if_neg (by unfold rootsLen at he; omega), scanReads_of_rootAt f f.length roots h]
  rfl

/-- so the number of reads does not depend on how much data the file holds below its last root
    record -/
theorem open_reads_count (f : Bytes) (roots : List (Bytes × Option Ploc))
    (h : rootAt f f.length = some roots) : (openReads f).length = 3 := by
  rw [open_reads_root_only f roots h]; rfl

/-- the record's offset field points below its end: `offset + 44 < |f|` -/
theorem root_offset_lt (f : Bytes) (e : Nat) (roots : List (Bytes × Option Ploc))
    (h : rootAt f e = some roots) : tailOff f e + rootsLen < e := by
  obtain ⟨hf, he⟩ := rootAt_le_length f e roots h
  rw [rootAt_eq f e he, readAt_tail f e he hf] at h
  dsimp only at h
  split at h
  · cases h
  · split at h
    · cases h
    · rename_i hc
      have hc' := Classical.not_not.mp hc
      rw [tailOff_eq] at hc'
      exact hc'.2.1

/-- …and every byte read lies inside that last root record `[offset, |f|)`: the size of what is
    read is the size of the root record, whatever the file holds besides -/
theorem open_reads_within_root (f : Bytes) (roots : List (Bytes × Option Ploc))
    (h : rootAt f f.length = some roots) :
    ∀ r ∈ openReads f, ∀ off len, r = Rd.read off len →
      unbe ((f.drop (f.length - 24)).take 8) ≤ off ∧ off + len ≤ f.length := by
  have hlt := root_offset_lt f f.length roots h
  unfold tailOff rootsLen at hlt
  rw [open_reads_root_only f roots h]
  intro r hr off len hrd
  simp only [List.mem_cons, List.not_mem_nil, or_false] at hr
  rcases hr with hr | hr | hr
  · subst hr; cases hrd
  · subst hr; cases hrd; omega
  · subst hr; cases hrd; omega

/-- the empty file: `Stat` only -/
theorem open_reads_empty : openReads [] = [Rd.stat] := rfl

/-- the total number of bytes read when the file ends in a root record is the length of that
    record -/
theorem open_reads_bytes (f : Bytes) (roots : List (Bytes × Option Ploc))
    (h : rootAt f f.length = some roots) :
    ((openReads f).map (fun r => match r with | .stat => 0 | .read _ len => len)).sum =
      f.length - unbe ((f.drop (f.length - 24)).take 8) := by
  have hlt := root_offset_lt f f.length roots h
  unfold tailOff rootsLen at hlt
  rw [open_reads_root_only f roots h]
  simp only [List.map_cons, List.map_nil, List.sum_cons, List.sum_nil]
  omega

/-- opening in general: `Stat`, then rejected candidates above the root record that `openStore`'s
    scan finds, then the two reads of that record -/
theorem open_reads_general (f : Bytes) (roots : List (Bytes × Option Ploc)) (e : Nat)
    (h : scanRoots f false f.length = .found e roots) :
    ∃ pre, openReads f =
      Rd.stat :: (pre ++ [Rd.read (e - 24) 24, Rd.read (tailOff f e) (e - tailOff f e - 24)]) := by
  have hne : f.length ≠ 0 := by
    intro h0; rw [h0, scanRoots_zero] at h; cases h
  obtain ⟨pre, hpre⟩ := scanReads_found f roots e f.length (Nat.le_refl _) h
  exact ⟨pre, by unfold openReads; rw [if_neg hne, hpre]⟩

/-! ### the theorems of property C19: items and nodes -/

/-- two byte intervals that lie side by side share no byte -/
theorem not_touches_of_disjoint (off len : Nat) (rng : Nat × Nat)
    (h : rng.1 + rng.2 ≤ off ∨ off + len ≤ rng.1) : ¬ (Rd.read off len).touches rng := by
  rintro ⟨b, h1, h2, h3, h4⟩
  omega

/-- `Stat` reads no byte -/
theorem stat_not_touches (rng : Nat × Nat) : ¬ Rd.stat.touches rng := fun h => h

/-- the key-only reads of an item record: header and key -/
theorem itemReads_false (loc : Ploc) (kl vl : Nat) :
    itemReads loc kl vl false = [Rd.read loc.off itemHdrLen, Rd.read (loc.off + itemHdrLen) kl] := rfl

/-- a key-only item read never touches a value byte of any record that does not overlap this
    record's header+key range `[off, off+16+kl)` -/
theorem keyonly_reads_disjoint (loc : Ploc) (kl vl : Nat) (rng : Nat × Nat)
    (h : rng.1 + rng.2 ≤ loc.off ∨ loc.off + itemHdrLen + kl ≤ rng.1) :
    ∀ r ∈ itemReads loc kl vl false, ¬ r.touches rng := by
  intro r hr
  rw [itemReads_false] at hr
  simp only [List.mem_cons, List.not_mem_nil, or_false] at hr
  rcases hr with hr | hr
  · subst hr
    apply not_touches_of_disjoint
    omega
  · subst hr
    apply not_touches_of_disjoint
    omega

/-- a key-only item read never touches the item's own value bytes -/
theorem keyonly_reads_no_value (loc : Ploc) (kl vl : Nat) :
    ∀ r ∈ itemReads loc kl vl false, ¬ r.touches (valueRange loc kl vl) :=
  keyonly_reads_disjoint loc kl vl (valueRange loc kl vl) (Or.inr (Nat.le_refl _))

/-- a node read touches nothing outside the 52 bytes of the node record -/
theorem node_reads_disjoint (loc : Ploc) (rng : Nat × Nat)
    (h : rng.1 + rng.2 ≤ loc.off ∨ loc.off + nodeRecLen ≤ rng.1) :
    ∀ r ∈ nodeReads loc, ¬ r.touches rng := by
  intro r hr
  unfold nodeReads at hr
  simp only [List.mem_singleton] at hr
  subst hr
  exact not_touches_of_disjoint _ _ _ h

/-- with the value requested, exactly the value range is read in addition -/
theorem withvalue_reads (loc : Ploc) (kl vl : Nat) :
    itemReads loc kl vl true = itemReads loc kl vl false ++ [Rd.read (loc.off + itemHdrLen + kl) vl] :=
  rfl

/-- …and that additional read is the value range itself: it touches it whenever the value is
    non-empty (the model can tell a value-fetching implementation from a lazy one) -/
theorem withvalue_touches_value (loc : Ploc) (kl vl : Nat) (hv : 0 < vl) :
    ∃ r ∈ itemReads loc kl vl true, r.touches (valueRange loc kl vl) := by
  refine ⟨Rd.read (loc.off + itemHdrLen + kl) vl, by simp [itemReads], ?_⟩
  exact ⟨loc.off + itemHdrLen + kl, Nat.le_refl _, by omega, Nat.le_refl _, by
    unfold valueRange; dsimp only; omega⟩

/-- Whatever is cached or evicted: a key-only traversal (`GetItem`/`MinItem`/`MaxItem`/visits with
    `withValue = false`, `SetItem`, `Delete`) over any path, in any cache state, reads no byte of a
    range `rng` that overlaps neither a node record on the path nor the header+key part of an item
    record on it.  In particular (`pathReads_no_value`) no byte of the path's own values. -/
theorem pathReads_disjoint (p : List Visit) (rng : Nat × Nat)
    (hn : ∀ v ∈ p, rng.1 + rng.2 ≤ v.nodeLoc.off ∨ v.nodeLoc.off + nodeRecLen ≤ rng.1)
    (hi : ∀ v ∈ p, rng.1 + rng.2 ≤ v.itemLoc.off ∨ v.itemLoc.off + itemHdrLen + v.kl ≤ rng.1) :
    ∀ r ∈ pathReads p, ¬ r.touches rng := by
  intro r hr
  unfold pathReads at hr
  obtain ⟨v, hv, hrv⟩ := List.mem_flatMap.mp hr
  rcases List.mem_append.mp hrv with h | h
  · by_cases hc : v.cachedNode = true
    · rw [if_pos hc] at h; cases h
    · rw [if_neg hc] at h
      exact node_reads_disjoint v.nodeLoc rng (hn v hv) r h
  · by_cases hc : v.cachedItem = true
    · rw [if_pos hc] at h; cases h
    · rw [if_neg hc] at h
      exact keyonly_reads_disjoint v.itemLoc v.kl v.vl rng (hi v hv) r h

/-- the cold traversal: nothing cached -/
def coldPath (p : List Visit) : List Visit :=
  p.map fun v => { v with cachedNode := false, cachedItem := false }

/-- the cache state only removes reads: the reads of a traversal in any cache state are a sub-log
    of the reads of the same traversal with nothing cached — caching or evicting never makes the
    store read anything the cold traversal would not read -/
theorem pathReads_sublist_cold : ∀ (p : List Visit), (pathReads p).Sublist (pathReads (coldPath p))
  | [] => List.Sublist.refl _
  | v :: p => by
    have ih := pathReads_sublist_cold p
    unfold pathReads coldPath at ih ⊢
    rw [List.map_cons, List.flatMap_cons, List.flatMap_cons]
    refine List.Sublist.append (List.Sublist.append ?_ ?_) ih
    · dsimp only
      cases v.cachedNode
      · exact List.Sublist.refl _
      · exact List.nil_sublist _
    · dsimp only
      cases v.cachedItem
      · exact List.Sublist.refl _
      · exact List.nil_sublist _

/-! ### concrete files (evaluated by `decide`) -/

/-- a file that is just one root record of an empty store: 46 bytes, three calls -/
example : openReads (encRoot 0 []) = [.stat, .read 22 24, .read 0 22] := by decide

/-- three bytes of data, then a root record: the data is never read -/
example : openReads ([1, 2, 3] ++ encRoot 3 []) = [.stat, .read 25 24, .read 3 22] := by decide

/-- the same file with two bytes of garbage after the root record (a torn later flush): two
    rejected tail reads, then the record -/
example : openReads ([1, 2, 3] ++ encRoot 3 [] ++ [0, 0]) =
    [.stat, .read 27 24, .read 26 24, .read 25 24, .read 3 22] := by decide

/-- a file with no root record at all: one tail read per position above 44, then "no roots" -/
example : (openReads (List.replicate 50 0)).length = 7 := by decide

-- with a collection in the root record (`natDigits` is by well-founded recursion, so these are
-- evaluated checks rather than kernel proofs)
#guard openReads ([1, 2, 3] ++ encRoot 3 [([97], some ⟨5, 52⟩)]) == [.stat, .read 43 24, .read 3 40]
#guard openReads ([1, 2, 3] ++ encRoot 3 [([97], some ⟨5, 52⟩)] ++ [0, 0]) ==
  [.stat, .read 45 24, .read 44 24, .read 43 24, .read 3 40]

/-- an item record at offset 100 with a 3-byte key and a 1000-byte value: the key-only read is 19
    bytes; its value range [119, 1119) is touched only with `withValue` -/
example : itemReads ⟨100, 1019⟩ 3 1000 false = [.read 100 16, .read 116 3] := by decide
example : itemReads ⟨100, 1019⟩ 3 1000 true = [.read 100 16, .read 116 3, .read 119 1000] := by decide
example : ∀ r ∈ itemReads ⟨100, 1019⟩ 3 1000 false, ¬ r.touches (valueRange ⟨100, 1019⟩ 3 1000) := by
  decide
example : ∃ r ∈ itemReads ⟨100, 1019⟩ 3 1000 true, r.touches (valueRange ⟨100, 1019⟩ 3 1000) := by
  decide

end Gkv.Lazy

/-
#print axioms output (Lean 4.33.0):
'Gkv.Lazy.open_reads_root_only' depends on axioms: [propext, Quot.sound]
'Gkv.Lazy.open_reads_count' depends on axioms: [propext, Quot.sound]
'Gkv.Lazy.open_reads_within_root' depends on axioms: [propext, Classical.choice, Quot.sound]
'Gkv.Lazy.open_reads_empty' depends on axioms: [propext]
'Gkv.Lazy.open_reads_bytes' depends on axioms: [propext, Classical.choice, Quot.sound]
'Gkv.Lazy.open_reads_general' depends on axioms: [propext, Classical.choice, Quot.sound]
'Gkv.Lazy.readsAt_stop_iff' depends on axioms: [propext, Classical.choice, Quot.sound]
'Gkv.Lazy.keyonly_reads_no_value' depends on axioms: [propext, Quot.sound]
'Gkv.Lazy.keyonly_reads_disjoint' depends on axioms: [propext, Quot.sound]
'Gkv.Lazy.node_reads_disjoint' depends on axioms: [propext, Quot.sound]
'Gkv.Lazy.withvalue_reads' does not depend on any axioms
'Gkv.Lazy.withvalue_touches_value' depends on axioms: [propext, Classical.choice, Quot.sound]
'Gkv.Lazy.pathReads_disjoint' depends on axioms: [propext, Quot.sound]
'Gkv.Lazy.pathReads_sublist_cold' depends on axioms: [propext]
-/
