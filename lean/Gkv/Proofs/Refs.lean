/-
Property C15 — proofs about the reference-count event system of `Gkv/Model/Refs.lean`: for every
event sequence that respects the preconditions, the application's count of an item equals the
number of allocated nodes caching it plus the references handed to the caller.
-/
import Gkv.Model.Refs

namespace Gkv.Refs

/-! ### counting under point updates -/

theorem upd_same {β : Type} (f : Nat → β) (a : Nat) (b : β) : upd f a b a = b := by
  simp [upd]

theorem upd_other {β : Type} (f : Nat → β) (a : Nat) (b : β) (x : Nat) (h : x ≠ a) :
    upd f a b x = f x := by
  simp [upd, h]

/-- updating at a node that is not in the list does not change the number of holders -/
theorem countP_upd_notMem (c : Nat → Option Nat) (n : Nat) (v : Option Nat) (k : Nat) :
    ∀ (l : List Nat), n ∉ l →
      l.countP (fun m => decide (upd c n v m = some k)) = l.countP (fun m => decide (c m = some k))
  | [], _ => rfl
  | a :: l, h => by
    have ha : a ≠ n := fun e => h (by simp [e])
    have hl : n ∉ l := fun e => h (by simp [e])
    rw [List.countP_cons, List.countP_cons, countP_upd_notMem c n v k l hl, upd_other c n v a ha]

/-- a new node in front of the list -/
theorem countP_cons_upd (c : Nat → Option Nat) (n : Nat) (v : Option Nat) (k : Nat) (l : List Nat)
    (h : n ∉ l) :
    (n :: l).countP (fun m => decide (upd c n v m = some k)) =
      l.countP (fun m => decide (c m = some k)) + (if v = some k then 1 else 0) := by
  rw [List.countP_cons, countP_upd_notMem c n v k l h, upd_same]
  simp

/-- updating at a node that occurs exactly once -/
theorem countP_upd_mem (c : Nat → Option Nat) (n : Nat) (v : Option Nat) (k : Nat) :
    ∀ (l : List Nat), l.Nodup → n ∈ l →
      l.countP (fun m => decide (upd c n v m = some k)) + (if c n = some k then 1 else 0) =
        l.countP (fun m => decide (c m = some k)) + (if v = some k then 1 else 0)
  | [], _, h => by cases h
  | a :: l, hnd, h => by
    have hnd' := List.nodup_cons.mp hnd
    by_cases ha : a = n
    · subst ha
      rw [List.countP_cons, List.countP_cons, countP_upd_notMem c a v k l hnd'.1, upd_same]
      simp only [decide_eq_true_eq]
      omega
    · have hl : n ∈ l := by
        rcases List.mem_cons.mp h with e | e
        · exact absurd e.symm ha
        · exact e
      have ih := countP_upd_mem c n v k l hnd'.2 hl
      rw [List.countP_cons, List.countP_cons, upd_other c n v a ha]
      omega

/-- freeing a node that occurs exactly once -/
theorem countP_erase_upd (c : Nat → Option Nat) (n : Nat) (v : Option Nat) (k : Nat) :
    ∀ (l : List Nat), l.Nodup → n ∈ l →
      (l.erase n).countP (fun m => decide (upd c n v m = some k)) + (if c n = some k then 1 else 0) =
        l.countP (fun m => decide (c m = some k))
  | [], _, h => by cases h
  | a :: l, hnd, h => by
    have hnd' := List.nodup_cons.mp hnd
    by_cases ha : a = n
    · subst ha
      rw [List.erase_cons_head, List.countP_cons, countP_upd_notMem c a v k l hnd'.1]
      simp only [decide_eq_true_eq]
    · have hl : n ∈ l := by
        rcases List.mem_cons.mp h with e | e
        · exact absurd e.symm ha
        · exact e
      have ih := countP_erase_upd c n v k l hnd'.2 hl
      rw [List.erase_cons_tail (by simpa using ha), List.countP_cons, List.countP_cons,
        upd_other c n v a ha]
      omega

/-! ### the invariant -/

structure Inv (s : St) : Prop where
  /-- a node object is allocated at most once -/
  nodup : s.nodes.Nodup
  /-- only allocated nodes cache anything (`freeNodeUnlocked` zeroes the node) -/
  dead : ∀ n, n ∉ s.nodes → s.cached n = none
  /-- the accounting equation -/
  acc : ∀ i, s.count i = (holders s i : Int) + (s.handed i : Int)

theorem inv_init : Inv St.init :=
  ⟨List.nodup_nil, fun _ _ => rfl, fun _ => by simp [St.init, holders]⟩

theorem holders_pos_of_cached (s : St) (n i : Nat) (hn : n ∈ s.nodes) (h : s.cached n = some i) :
    0 < holders s i := by
  unfold holders
  exact List.countP_pos_iff.mpr ⟨n, hn, by simp [h]⟩

theorem inv_step (s : St) (e : Ev) (hi : Inv s) (hp : pre s e) : Inv (step s e) := by
  obtain ⟨hnd, hdead, hacc⟩ := hi
  cases e with
  | mkNode n i =>
    have hn : n ∉ s.nodes := hp
    refine ⟨List.nodup_cons.mpr ⟨hn, hnd⟩, ?_, ?_⟩
    · intro m hm
      have hm0 : m ∉ n :: s.nodes := hm
      have hm' : m ≠ n ∧ m ∉ s.nodes := by simpa using hm0
      show upd s.cached n (some i) m = none
      rw [upd_other _ _ _ _ hm'.1]; exact hdead m hm'.2
    · intro k
      show upd s.count i (s.count i + 1) k =
        ((n :: s.nodes).countP (fun m => decide (upd s.cached n (some i) m = some k)) : Int) + (s.handed k : Int)
      rw [countP_cons_upd s.cached n (some i) k s.nodes hn]
      have := hacc k
      unfold holders at this
      by_cases hk : k = i
      · subst hk; rw [upd_same]; simp; omega
      · rw [upd_other _ _ _ _ hk]
        have : ¬ (some i = some k) := fun e => hk (Option.some.inj e).symm
        simp [this]; omega
  | mkNodeEmpty n =>
    have hn : n ∉ s.nodes := hp
    refine ⟨List.nodup_cons.mpr ⟨hn, hnd⟩, ?_, ?_⟩
    · intro m hm
      have hm0 : m ∉ n :: s.nodes := hm
      have hm' : m ≠ n ∧ m ∉ s.nodes := by simpa using hm0
      show upd s.cached n none m = none
      rw [upd_other _ _ _ _ hm'.1]; exact hdead m hm'.2
    · intro k
      show s.count k =
        ((n :: s.nodes).countP (fun m => decide (upd s.cached n none m = some k)) : Int) + (s.handed k : Int)
      rw [countP_cons_upd s.cached n none k s.nodes hn]
      have := hacc k
      unfold holders at this
      simp; omega
  | load n i =>
    obtain ⟨hn, hc⟩ : n ∈ s.nodes ∧ s.count i = 0 := hp
    -- a fresh item is cached nowhere and was handed to nobody
    have hi0 := hacc i
    have hni : s.cached n ≠ some i := by
      intro h
      have := holders_pos_of_cached s n i hn h
      omega
    refine ⟨hnd, ?_, ?_⟩
    · intro m hm
      have hmn : m ≠ n := fun e => hm (e ▸ hn)
      show upd s.cached n (some i) m = none
      rw [upd_other _ _ _ _ hmn]; exact hdead m hm
    · intro k
      show upd (decCached s.count (s.cached n)) i 1 k =
        (s.nodes.countP (fun m => decide (upd s.cached n (some i) m = some k)) : Int) + (s.handed k : Int)
      have hu := countP_upd_mem s.cached n (some i) k s.nodes hnd hn
      have hk := hacc k
      unfold holders at hk hi0
      by_cases hki : k = i
      · subst hki
        rw [upd_same]
        rw [if_neg hni] at hu
        simp at hu
        omega
      · rw [upd_other _ _ _ _ hki]
        have hne : ¬ (some i = some k) := fun e => hki (Option.some.inj e).symm
        rw [if_neg hne] at hu
        cases hcn : s.cached n with
        | none =>
          rw [hcn] at hu
          simp only [decCached]
          simp at hu
          omega
        | some j =>
          rw [hcn] at hu
          simp only [decCached]
          by_cases hkj : k = j
          · subst hkj
            rw [upd_same]
            simp at hu
            omega
          · rw [upd_other _ _ _ _ hkj]
            have : ¬ (some j = some k) := fun e => hkj (Option.some.inj e).symm
            rw [if_neg this] at hu
            omega
  | evict n =>
    have hn : n ∈ s.nodes := hp
    refine ⟨hnd, ?_, ?_⟩
    · intro m hm
      have hmn : m ≠ n := fun e => hm (e ▸ hn)
      show upd s.cached n none m = none
      rw [upd_other _ _ _ _ hmn]; exact hdead m hm
    · intro k
      show decCached s.count (s.cached n) k =
        (s.nodes.countP (fun m => decide (upd s.cached n none m = some k)) : Int) + (s.handed k : Int)
      have hu := countP_upd_mem s.cached n none k s.nodes hnd hn
      have hk := hacc k
      unfold holders at hk
      cases hcn : s.cached n with
      | none =>
        rw [hcn] at hu
        simp only [decCached]
        simp at hu
        omega
      | some j =>
        rw [hcn] at hu
        simp only [decCached]
        by_cases hkj : k = j
        · subst hkj
          rw [upd_same]
          simp at hu
          omega
        · rw [upd_other _ _ _ _ hkj]
          have : ¬ (some j = some k) := fun e => hkj (Option.some.inj e).symm
          rw [if_neg this] at hu
          simp at hu
          omega
  | freeNode n =>
    have hn : n ∈ s.nodes := hp
    refine ⟨hnd.erase n, ?_, ?_⟩
    · intro m hm
      show upd s.cached n none m = none
      by_cases hmn : m = n
      · subst hmn; exact upd_same _ _ _
      · rw [upd_other _ _ _ _ hmn]
        apply hdead m
        intro hmem
        exact hm ((List.mem_erase_of_ne hmn).mpr hmem)
    · intro k
      show decCached s.count (s.cached n) k =
        ((s.nodes.erase n).countP (fun m => decide (upd s.cached n none m = some k)) : Int) + (s.handed k : Int)
      have hu := countP_erase_upd s.cached n none k s.nodes hnd hn
      have hk := hacc k
      unfold holders at hk
      cases hcn : s.cached n with
      | none =>
        rw [hcn] at hu
        simp only [decCached]
        simp at hu
        omega
      | some j =>
        rw [hcn] at hu
        simp only [decCached]
        by_cases hkj : k = j
        · subst hkj
          rw [upd_same]
          simp at hu
          omega
        · rw [upd_other _ _ _ _ hkj]
          have : ¬ (some j = some k) := fun e => hkj (Option.some.inj e).symm
          rw [if_neg this] at hu
          omega
  | handOut i =>
    refine ⟨hnd, hdead, ?_⟩
    intro k
    show upd s.count i (s.count i + 1) k =
      (s.nodes.countP (fun m => decide (s.cached m = some k)) : Int) + ((upd s.handed i (s.handed i + 1) k : Nat) : Int)
    have hk := hacc k
    unfold holders at hk
    by_cases hki : k = i
    · subst hki; rw [upd_same, upd_same]; omega
    · rw [upd_other _ _ _ _ hki, upd_other _ _ _ _ hki]; exact hk
  | giveBack i =>
    have hh : 0 < s.handed i := hp
    refine ⟨hnd, hdead, ?_⟩
    intro k
    show upd s.count i (s.count i - 1) k =
      (s.nodes.countP (fun m => decide (s.cached m = some k)) : Int) + ((upd s.handed i (s.handed i - 1) k : Nat) : Int)
    have hk := hacc k
    unfold holders at hk
    by_cases hki : k = i
    · subst hki; rw [upd_same, upd_same]; omega
    · rw [upd_other _ _ _ _ hki, upd_other _ _ _ _ hki]; exact hk

theorem reach_inv {s : St} (h : Reach s) : Inv s := by
  induction h with
  | init => exact inv_init
  | step e _ hp ih => exact inv_step _ e ih hp

/-! ### the theorems of property C15 -/

/-- the allocated nodes form a set: no node object is allocated twice -/
theorem nodes_nodup {s : St} (h : Reach s) : s.nodes.Nodup := (reach_inv h).nodup

/-- a freed (or never made) node caches nothing -/
theorem unallocated_caches_nothing {s : St} (h : Reach s) (n : Nat) (hn : n ∉ s.nodes) :
    s.cached n = none := (reach_inv h).dead n hn

/-- the accounting invariant: the application's count of item `i` is exactly the number of
    allocated nodes caching `i` plus the references handed to the caller and not yet returned -/
theorem accounting {s : St} (h : Reach s) :
    ∀ i, s.count i =
      ((s.nodes.countP (fun n => decide (s.cached n = some i)) : Nat) : Int) + (s.handed i : Int) :=
  (reach_inv h).acc

/-- gkvlite never releases a reference it does not hold: no count ever drops below zero -/
theorem never_negative {s : St} (h : Reach s) : ∀ i, 0 ≤ s.count i := by
  intro i
  have := accounting h i
  omega

/-- an item cached in any node (necessarily an allocated one — in particular every item reachable
    from an open collection) has a positive count: it cannot have been released prematurely -/
theorem reachable_positive {s : St} (h : Reach s) : ∀ n i, s.cached n = some i → 0 < s.count i := by
  intro n i hc
  have hinv := reach_inv h
  have hn : n ∈ s.nodes := by
    apply Classical.byContradiction
    intro hn
    have := hinv.dead n hn
    rw [hc] at this
    cases this
  have := holders_pos_of_cached s n i hn hc
  have := hinv.acc i
  omega

/-- an item the caller still holds a reference to has a positive count -/
theorem handed_positive {s : St} (h : Reach s) : ∀ i, 0 < s.handed i → 0 < s.count i := by
  intro i hh
  have := accounting h i
  omega

/-- whatever gkvlite is entitled to look at has a positive count: an allocator that recycles an item
    the moment its count reaches zero never takes it away from under a well-behaved reader -/
theorem looked_at_is_counted {s : St} (h : Reach s) (i : Nat) (hl : mayLookAt s i) : 0 < s.count i := by
  rcases hl with ⟨n, _, hc⟩ | hh
  · exact reachable_positive h n i hc
  · exact handed_positive h i hh

/-- once every node has been freed (store and all snapshots closed) and the caller has returned
    everything it was handed, every reference gkvlite took has been released -/
theorem closed_balanced {s : St} (h : Reach s) (hn : s.nodes = []) (hh : ∀ i, s.handed i = 0) :
    ∀ i, s.count i = 0 := by
  intro i
  have := accounting h i
  rw [hn, hh i] at this
  simpa using this

/-- the converse direction of the invariant, per step: every `ItemDecRef` gkvlite issues is matched
    by a reference it holds — the count before any event that decrements item `j` is positive -/
theorem decref_holds_reference {s : St} (h : Reach s) :
    (∀ n j, n ∈ s.nodes → s.cached n = some j → 0 < s.count j) ∧
    (∀ j, pre s (.giveBack j) → 0 < s.count j) :=
  ⟨fun n j _ hc => reachable_positive h n j hc, fun j hp => handed_positive h j hp⟩

/-- `run` produces only reachable states -/
theorem run_reach : ∀ (es : List Ev) (s s' : St), Reach s → run s es = some s' → Reach s'
  | [], s, s', hr, h => by
    simp only [run, Option.some.injEq] at h; exact h ▸ hr
  | e :: es, s, s', hr, h => by
    simp only [run] at h
    by_cases hp : pre s e
    · rw [if_pos hp] at h
      exact run_reach es _ _ (Reach.step e hr hp) h
    · rw [if_neg hp] at h; cases h

/-! ### a concrete non-trivial reachable state

Item 7 is set into node 0 (`SetItem`'s `mkNode`), the node is copied to node 1 by a second
mutation (path copying), the old node 0 is freed; node 2 is made for a persisted item that is not
cached, item 9 is loaded into it key-only, handed to the caller (`GetItem`), re-read with its
value as item 10 (item 9 is released by the node but still held by the caller), item 10 is
evicted; the caller gives item 9 back; finally all nodes are freed. -/

def demo : List Ev :=
  [.mkNode 0 7, .mkNode 1 7, .freeNode 0, .mkNodeEmpty 2, .load 2 9, .handOut 9, .load 2 10]

def demoEnd : List Ev := [.evict 2, .giveBack 9, .freeNode 1, .freeNode 2]

/-- all preconditions hold along `demo` -/
example : (run St.init demo).isSome = true := by decide
/-- in the state after `demo`: item 7 is held by node 1 only, item 9 by the caller only, item 10
    by node 2 only -/
example : (run St.init demo).map (fun s => ((s.nodes, s.count 7, s.count 9, s.count 10, s.handed 9) :
    List Nat × Int × Int × Int × Nat)) = some ([2, 1], 1, 1, 1, 1) := by decide
example : (run St.init demo).map (fun s => ((s.cached 0, s.cached 1, s.cached 2) :
    Option Nat × Option Nat × Option Nat)) = some (none, some 7, some 10) := by decide
/-- after `demoEnd` everything is released -/
example : (run St.init (demo ++ demoEnd)).map (fun s => ((s.nodes, s.count 7, s.count 9, s.count 10,
    s.handed 9) : List Nat × Int × Int × Int × Nat)) = some ([], 0, 0, 0, 0) := by decide
/-- events that violate a precondition are rejected: double free, returning what was not handed
    out, handing out an item no live node caches -/
example : (run St.init [.mkNode 0 7, .freeNode 0, .freeNode 0]).isNone = true := by decide
example : (run St.init [.mkNode 0 7, .giveBack 7]).isNone = true := by decide
example : (run St.init [.mkNode 0 7, .freeNode 0, .handOut 7]).isNone = true := by decide

/-- defect F20 in the model: item 7 is loaded into node 0, shown to the visitor (no reference is
    taken for that), the visit leaves the node and evicts it.  From then on nothing entitles
    gkvlite to look at item 7, and its count is zero: the allocator may already have given it to
    somebody else.  The pinned `VisitItemsAscendEx` compared the NEXT item's key with item 7's. -/
example :
    (run St.init [.mkNodeEmpty 0, .load 0 7, .evict 0]).map
      (fun s => (decide (mayLookAt s 7), s.count 7)) = some (false, 0) := by decide
/-- … whereas while the node still caches it, looking at it is fine -/
example :
    (run St.init [.mkNodeEmpty 0, .load 0 7]).map
      (fun s => (decide (mayLookAt s 7), s.count 7)) = some (true, 1) := by decide

/-- the state after `demo` is reachable, so all theorems above apply to it -/
theorem demo_reach : ∀ s, run St.init demo = some s → Reach s :=
  fun s h => run_reach demo St.init s Reach.init h

/-- why the `ItemDecRef` in `evict` is needed (defect F6 of the pinned tree: the in-visit eviction
    drops the item without it): without the decrement the accounting equation fails — here is the
    state a decrement-free eviction of node 0 would produce after `mkNode 0 7`. -/
example :
    let s := step St.init (.mkNode 0 7)
    let bad : St := { s with cached := upd s.cached 0 none }
    bad.count 7 ≠ (holders bad 7 : Int) + (bad.handed 7 : Int) := by decide

end Gkv.Refs

/-
#print axioms output (Lean 4.33.0):
'Gkv.Refs.accounting' depends on axioms: [propext, Classical.choice, Quot.sound]
'Gkv.Refs.never_negative' depends on axioms: [propext, Classical.choice, Quot.sound]
'Gkv.Refs.reachable_positive' depends on axioms: [propext, Classical.choice, Quot.sound]
'Gkv.Refs.handed_positive' depends on axioms: [propext, Classical.choice, Quot.sound]
'Gkv.Refs.closed_balanced' depends on axioms: [propext, Classical.choice, Quot.sound]
'Gkv.Refs.nodes_nodup' depends on axioms: [propext, Classical.choice, Quot.sound]
'Gkv.Refs.unallocated_caches_nothing' depends on axioms: [propext, Classical.choice, Quot.sound]
'Gkv.Refs.run_reach' depends on axioms: [propext, Quot.sound]
-/
