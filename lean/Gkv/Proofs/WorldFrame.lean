/-
Frame properties of the history interpreter (`Gkv.Model.World`) — property C04 "Snapshots are
isolated, read-only, and harmless to the original".

In the model a snapshot is a VALUE copy of a store (`snap S S2` stores `{ st with readOnly := true }`
under key S2).  Isolation therefore follows from frame properties of `stepTokens` / `step`:

* `stepTokens_frame`, `step_frame`, `history_frame`: an operation (line, history) leaves every store
  it does not target (`writesStore`, `writesStoreLine`) untouched;
* `reads_change_nothing`: a read operation (`isReadOp`) through any store changes nothing at all;
* `readonly_rejects_set/del/flush`: a read-only store refuses writes and nothing changes;
* `close_keeps_files`, `revert_readonly_keeps_file_bytes`: closing / reverting a snapshot does not
  touch file contents;
* `snap_is_value`, `snapshot_isolated`: a snapshot is the value of the store when it was taken and
  keeps that value through every history that does not target the snapshot's id.

Technical note.  `stepTokens` is one `match` with ~50 string-literal arms.  The equation/splitter
lemmas Lean would generate for it on demand (`split`, `simp [stepTokens]`) exceed the heartbeat budget
fixed at the point of definition, so this file brings its own case analysis:

* the tactic `step_reduce` rewrites every `stepTokens w [lit, a1, …]` in the goal to the body of
  the selected arm.  It only performs definitional unfolding (`replaceTargetDefEq`), so the kernel
  re-checks every use;
* the theorem `stepTokens_cases` is the case principle "either `ts` is one of the operation
  shapes, or `stepTokens w ts = (w, "bad-op")`".  Its statement and proof script are mechanical
  (one block per arm of `stepTokens`, in source order); they were produced from the arm list of
  `World.lean` by the generator quoted at the end of this file.  If an arm is added to
  `stepTokens`, regenerate this theorem; all other proofs are uniform over the arms.
-/
import Gkv.Model.World
import Lean
open Lean Meta Elab Tactic

namespace Gkv

/-! ### `step_reduce`: select the arm of `stepTokens` for a literal head token -/

/-- the name of the matcher of the top-level `match` of `stepTokens` -/
def stepTopMatcher : MetaM Name := do
  let ci ← getConstInfo ``stepTokens
  let rec go (e : Expr) : Expr := match e with
    | .lam _ _ b _ => go b
    | e => e
  match (go ci.value!).getAppFn.constName? with
  | some n => return n
  | none => throwError "stepTokens: unexpected shape"

/-- heads that `stepWhnf` unfolds: `stepTokens`, its top matcher, the list case-splits inside it, and
    `dite` on a condition whose `Decidable` instance evaluates (a comparison of string literals) -/
def stepHeadOk (top : Name) (e : Expr) : MetaM Bool := do
  match e.getAppFn.constName? with
  | none => return false
  | some n =>
    if n == ``stepTokens || n == top || n == ``Eq.ndrec_symm || n == ``Eq.ndrec
       || n == ``parseBytes._sparseCasesOn_1 || n == ``parseBytes._sparseCasesOn_2 then return true
    if n == ``dite && e.getAppNumArgs ≥ 3 then
      let d ← whnf (e.getArg! 2)
      return d.isAppOf ``Decidable.isTrue || d.isAppOf ``Decidable.isFalse
    return false

/-- head reduction restricted to the constants accepted by `stepHeadOk` (fuel-bounded) -/
def stepWhnf (top : Name) : Nat → Expr → MetaM Expr
  | 0, e => return e
  | fuel + 1, e => do
    let e ← whnfCore e
    if !(← stepHeadOk top e) then return e
    let fn := e.getAppFn
    if fn.constName? == some top then
      let ci ← getConstInfo top
      let v ← instantiateValueLevelParams ci fn.constLevels!
      stepWhnf top fuel (v.beta e.getAppArgs)
    else
      match (← unfoldDefinition? e) with
      | some e' => stepWhnf top fuel e'
      | none => return e

/-- replace every `stepTokens w ts` of the goal by its head-reduct (definitional) -/
elab "step_reduce" : tactic => withMainContext do
  let g ← getMainGoal
  let tgt ← instantiateMVars (← g.getType)
  let top ← stepTopMatcher
  let tgt' ← Meta.transform tgt (pre := fun e => do
    if e.isAppOfArity ``stepTokens 2 then
      return .done (← stepWhnf top 100000 e)
    else return .continue)
  replaceMainGoal [← g.replaceTargetDefEq tgt']

/-! ### the case principle (generated, see the end of the file) -/

theorem stepTokens_cases (w : World) (P : List String → Prop)
    (hbad : ∀ ts, stepTokens w ts = (w, "bad-op") → P ts)
    (h_reset : P ["reset"])
    (h_mem : ∀ a1, P ["mem", a1])
    (h_open : ∀ a1 a2, P ["open", a1, a2])
    (h_cfg : ∀ a1, P ["cfg", a1])
    (h_rmfile : ∀ a1, P ["rmfile", a1])
    (h_heapcheck : P ["heapcheck"])
    (h_appendcheck : ∀ a1, P ["appendcheck", a1])
    (h_rmark : ∀ a1, P ["rmark", a1])
    (h_kreads : ∀ a1, P ["kreads", a1])
    (h_readsok2 : ∀ a1 a2, P ["readsok", a1, a2])
    (h_readsok1 : ∀ a1, P ["readsok", a1])
    (h_openreads : ∀ a1, P ["openreads", a1])
    (h_decodehex : ∀ a1, P ["decodehex", a1])
    (h_crashopen : ∀ a1 a2 a3 a4 a5, P ["crashopen", a1, a2, a3, a4, a5])
    (h_setroot : ∀ a1 a2 a3 a4 a5, P ["setroot", a1, a2, a3, a4, a5])
    (h_iter : ∀ a1 a2 a3 a4 a5 a6, P ["iter", a1, a2, a3, a4, a5, a6])
    (h_refcheck : P ["refcheck"])
    (h_refbalance : P ["refbalance"])
    (h_churn : ∀ a1, P ["churn", a1])
    (h_fault : ∀ a1 a2 a3, P ["fault", a1, a2, a3])
    (h_unfault : ∀ a1, P ["unfault", a1])
    (h_opendump : ∀ a1, P ["opendump", a1])
    (h_close : ∀ a1, P ["close", a1])
    (h_drop : ∀ a1, P ["drop", a1])
    (h_setcoll : ∀ a1 a2, P ["setcoll", a1, a2])
    (h_rmcoll : ∀ a1 a2, P ["rmcoll", a1, a2])
    (h_names : ∀ a1, P ["names", a1])
    (h_set : ∀ a1 a2 a3 a4 a5, P ["set", a1, a2, a3, a4, a5])
    (h_del : ∀ a1 a2 a3, P ["del", a1, a2, a3])
    (h_get : ∀ a1 a2 a3, P ["get", a1, a2, a3])
    (h_geti : ∀ a1 a2 a3 a4, P ["geti", a1, a2, a3, a4])
    (h_exist : ∀ a1 a2 a3, P ["exist", a1, a2, a3])
    (h_min : ∀ a1 a2 a3, P ["min", a1, a2, a3])
    (h_max : ∀ a1 a2 a3, P ["max", a1, a2, a3])
    (h_totals : ∀ a1 a2, P ["totals", a1, a2])
    (h_len : ∀ a1 a2, P ["len", a1, a2])
    (h_blocks : ∀ a1 a2 a3 a4, P ["blocks", a1, a2, a3, a4])
    (h_random : ∀ a1 a2, P ["random", a1, a2])
    (h_fill : ∀ a1 a2 a3, P ["fill", a1, a2, a3])
    (h_evict : ∀ a1 a2 a3, P ["evict", a1, a2, a3])
    (h_flush : ∀ a1, P ["flush", a1])
    (h_snap : ∀ a1 a2, P ["snap", a1, a2])
    (h_revert : ∀ a1, P ["revert", a1])
    (h_copy : ∀ a1 a2 a3 a4, P ["copy", a1, a2, a3, a4])
    (h_visit : ∀ a1 a2 a3 a4 a5 a6, P ["visit", a1, a2, a3, a4, a5, a6])
    (h_dump : ∀ a1, P ["dump", a1])
    (h_shape : ∀ a1 a2, P ["shape", a1, a2])
    (h_image : ∀ a1, P ["image", a1])
    (h_imagehex : ∀ a1, P ["imagehex", a1])
    (h_wlog : ∀ a1, P ["wlog", a1])
    (h_crash : ∀ a1 a2 a3, P ["crash", a1, a2, a3])
    (ts : List String) : P ts := by
  match ts with
  | [] => exact hbad _ (by step_reduce; rfl)
  | a :: rest =>
    by_cases h1 : a = "reset"
    · subst h1
      rcases rest with _ | ⟨x1, r⟩
      · exact h_reset
      · exact hbad _ (by step_reduce; rfl)
    by_cases h2 : a = "mem"
    · subst h2
      rcases rest with _ | ⟨x1, _ | ⟨x2, r⟩⟩
      · exact hbad _ (by step_reduce; rfl)
      · exact h_mem x1
      · exact hbad _ (by step_reduce; rfl)
    by_cases h3 : a = "open"
    · subst h3
      rcases rest with _ | ⟨x1, _ | ⟨x2, _ | ⟨x3, r⟩⟩⟩
      · exact hbad _ (by step_reduce; rfl)
      · exact hbad _ (by step_reduce; rfl)
      · exact h_open x1 x2
      · exact hbad _ (by step_reduce; rfl)
    by_cases h4 : a = "cfg"
    · subst h4
      rcases rest with _ | ⟨x1, _ | ⟨x2, r⟩⟩
      · exact hbad _ (by step_reduce; rfl)
      · exact h_cfg x1
      · exact hbad _ (by step_reduce; rfl)
    by_cases h5 : a = "rmfile"
    · subst h5
      rcases rest with _ | ⟨x1, _ | ⟨x2, r⟩⟩
      · exact hbad _ (by step_reduce; rfl)
      · exact h_rmfile x1
      · exact hbad _ (by step_reduce; rfl)
    by_cases h6 : a = "heapcheck"
    · subst h6
      rcases rest with _ | ⟨x1, r⟩
      · exact h_heapcheck
      · exact hbad _ (by step_reduce; rfl)
    by_cases h7 : a = "appendcheck"
    · subst h7
      rcases rest with _ | ⟨x1, _ | ⟨x2, r⟩⟩
      · exact hbad _ (by step_reduce; rfl)
      · exact h_appendcheck x1
      · exact hbad _ (by step_reduce; rfl)
    by_cases h8 : a = "rmark"
    · subst h8
      rcases rest with _ | ⟨x1, _ | ⟨x2, r⟩⟩
      · exact hbad _ (by step_reduce; rfl)
      · exact h_rmark x1
      · exact hbad _ (by step_reduce; rfl)
    by_cases h9 : a = "kreads"
    · subst h9
      rcases rest with _ | ⟨x1, _ | ⟨x2, r⟩⟩
      · exact hbad _ (by step_reduce; rfl)
      · exact h_kreads x1
      · exact hbad _ (by step_reduce; rfl)
    by_cases h10 : a = "readsok"
    · subst h10
      rcases rest with _ | ⟨x1, _ | ⟨x2, _ | ⟨x3, r⟩⟩⟩
      · exact hbad _ (by step_reduce; rfl)
      · exact h_readsok1 x1
      · exact h_readsok2 x1 x2
      · exact hbad _ (by step_reduce; rfl)
    by_cases h11 : a = "openreads"
    · subst h11
      rcases rest with _ | ⟨x1, _ | ⟨x2, r⟩⟩
      · exact hbad _ (by step_reduce; rfl)
      · exact h_openreads x1
      · exact hbad _ (by step_reduce; rfl)
    by_cases h12 : a = "decodehex"
    · subst h12
      rcases rest with _ | ⟨x1, _ | ⟨x2, r⟩⟩
      · exact hbad _ (by step_reduce; rfl)
      · exact h_decodehex x1
      · exact hbad _ (by step_reduce; rfl)
    by_cases h13 : a = "crashopen"
    · subst h13
      rcases rest with _ | ⟨x1, _ | ⟨x2, _ | ⟨x3, _ | ⟨x4, _ | ⟨x5, _ | ⟨x6, r⟩⟩⟩⟩⟩⟩
      · exact hbad _ (by step_reduce; rfl)
      · exact hbad _ (by step_reduce; rfl)
      · exact hbad _ (by step_reduce; rfl)
      · exact hbad _ (by step_reduce; rfl)
      · exact hbad _ (by step_reduce; rfl)
      · exact h_crashopen x1 x2 x3 x4 x5
      · exact hbad _ (by step_reduce; rfl)
    by_cases h14 : a = "setroot"
    · subst h14
      rcases rest with _ | ⟨x1, _ | ⟨x2, _ | ⟨x3, _ | ⟨x4, _ | ⟨x5, _ | ⟨x6, r⟩⟩⟩⟩⟩⟩
      · exact hbad _ (by step_reduce; rfl)
      · exact hbad _ (by step_reduce; rfl)
      · exact hbad _ (by step_reduce; rfl)
      · exact hbad _ (by step_reduce; rfl)
      · exact hbad _ (by step_reduce; rfl)
      · exact h_setroot x1 x2 x3 x4 x5
      · exact hbad _ (by step_reduce; rfl)
    by_cases h15 : a = "iter"
    · subst h15
      rcases rest with _ | ⟨x1, _ | ⟨x2, _ | ⟨x3, _ | ⟨x4, _ | ⟨x5, _ | ⟨x6, _ | ⟨x7, r⟩⟩⟩⟩⟩⟩⟩
      · exact hbad _ (by step_reduce; rfl)
      · exact hbad _ (by step_reduce; rfl)
      · exact hbad _ (by step_reduce; rfl)
      · exact hbad _ (by step_reduce; rfl)
      · exact hbad _ (by step_reduce; rfl)
      · exact hbad _ (by step_reduce; rfl)
      · exact h_iter x1 x2 x3 x4 x5 x6
      · exact hbad _ (by step_reduce; rfl)
    by_cases h16 : a = "refcheck"
    · subst h16
      rcases rest with _ | ⟨x1, r⟩
      · exact h_refcheck
      · exact hbad _ (by step_reduce; rfl)
    by_cases h17 : a = "refbalance"
    · subst h17
      rcases rest with _ | ⟨x1, r⟩
      · exact h_refbalance
      · exact hbad _ (by step_reduce; rfl)
    by_cases h18 : a = "churn"
    · subst h18
      rcases rest with _ | ⟨x1, _ | ⟨x2, r⟩⟩
      · exact hbad _ (by step_reduce; rfl)
      · exact h_churn x1
      · exact hbad _ (by step_reduce; rfl)
    by_cases h19 : a = "fault"
    · subst h19
      rcases rest with _ | ⟨x1, _ | ⟨x2, _ | ⟨x3, _ | ⟨x4, r⟩⟩⟩⟩
      · exact hbad _ (by step_reduce; rfl)
      · exact hbad _ (by step_reduce; rfl)
      · exact hbad _ (by step_reduce; rfl)
      · exact h_fault x1 x2 x3
      · exact hbad _ (by step_reduce; rfl)
    by_cases h20 : a = "unfault"
    · subst h20
      rcases rest with _ | ⟨x1, _ | ⟨x2, r⟩⟩
      · exact hbad _ (by step_reduce; rfl)
      · exact h_unfault x1
      · exact hbad _ (by step_reduce; rfl)
    by_cases h21 : a = "opendump"
    · subst h21
      rcases rest with _ | ⟨x1, _ | ⟨x2, r⟩⟩
      · exact hbad _ (by step_reduce; rfl)
      · exact h_opendump x1
      · exact hbad _ (by step_reduce; rfl)
    by_cases h22 : a = "close"
    · subst h22
      rcases rest with _ | ⟨x1, _ | ⟨x2, r⟩⟩
      · exact hbad _ (by step_reduce; rfl)
      · exact h_close x1
      · exact hbad _ (by step_reduce; rfl)
    by_cases h23 : a = "drop"
    · subst h23
      rcases rest with _ | ⟨x1, _ | ⟨x2, r⟩⟩
      · exact hbad _ (by step_reduce; rfl)
      · exact h_drop x1
      · exact hbad _ (by step_reduce; rfl)
    by_cases h24 : a = "setcoll"
    · subst h24
      rcases rest with _ | ⟨x1, _ | ⟨x2, _ | ⟨x3, r⟩⟩⟩
      · exact hbad _ (by step_reduce; rfl)
      · exact hbad _ (by step_reduce; rfl)
      · exact h_setcoll x1 x2
      · exact hbad _ (by step_reduce; rfl)
    by_cases h25 : a = "rmcoll"
    · subst h25
      rcases rest with _ | ⟨x1, _ | ⟨x2, _ | ⟨x3, r⟩⟩⟩
      · exact hbad _ (by step_reduce; rfl)
      · exact hbad _ (by step_reduce; rfl)
      · exact h_rmcoll x1 x2
      · exact hbad _ (by step_reduce; rfl)
    by_cases h26 : a = "names"
    · subst h26
      rcases rest with _ | ⟨x1, _ | ⟨x2, r⟩⟩
      · exact hbad _ (by step_reduce; rfl)
      · exact h_names x1
      · exact hbad _ (by step_reduce; rfl)
    by_cases h27 : a = "set"
    · subst h27
      rcases rest with _ | ⟨x1, _ | ⟨x2, _ | ⟨x3, _ | ⟨x4, _ | ⟨x5, _ | ⟨x6, r⟩⟩⟩⟩⟩⟩
      · exact hbad _ (by step_reduce; rfl)
      · exact hbad _ (by step_reduce; rfl)
      · exact hbad _ (by step_reduce; rfl)
      · exact hbad _ (by step_reduce; rfl)
      · exact hbad _ (by step_reduce; rfl)
      · exact h_set x1 x2 x3 x4 x5
      · exact hbad _ (by step_reduce; rfl)
    by_cases h28 : a = "del"
    · subst h28
      rcases rest with _ | ⟨x1, _ | ⟨x2, _ | ⟨x3, _ | ⟨x4, r⟩⟩⟩⟩
      · exact hbad _ (by step_reduce; rfl)
      · exact hbad _ (by step_reduce; rfl)
      · exact hbad _ (by step_reduce; rfl)
      · exact h_del x1 x2 x3
      · exact hbad _ (by step_reduce; rfl)
    by_cases h29 : a = "get"
    · subst h29
      rcases rest with _ | ⟨x1, _ | ⟨x2, _ | ⟨x3, _ | ⟨x4, r⟩⟩⟩⟩
      · exact hbad _ (by step_reduce; rfl)
      · exact hbad _ (by step_reduce; rfl)
      · exact hbad _ (by step_reduce; rfl)
      · exact h_get x1 x2 x3
      · exact hbad _ (by step_reduce; rfl)
    by_cases h30 : a = "geti"
    · subst h30
      rcases rest with _ | ⟨x1, _ | ⟨x2, _ | ⟨x3, _ | ⟨x4, _ | ⟨x5, r⟩⟩⟩⟩⟩
      · exact hbad _ (by step_reduce; rfl)
      · exact hbad _ (by step_reduce; rfl)
      · exact hbad _ (by step_reduce; rfl)
      · exact hbad _ (by step_reduce; rfl)
      · exact h_geti x1 x2 x3 x4
      · exact hbad _ (by step_reduce; rfl)
    by_cases h31 : a = "exist"
    · subst h31
      rcases rest with _ | ⟨x1, _ | ⟨x2, _ | ⟨x3, _ | ⟨x4, r⟩⟩⟩⟩
      · exact hbad _ (by step_reduce; rfl)
      · exact hbad _ (by step_reduce; rfl)
      · exact hbad _ (by step_reduce; rfl)
      · exact h_exist x1 x2 x3
      · exact hbad _ (by step_reduce; rfl)
    by_cases h32 : a = "min"
    · subst h32
      rcases rest with _ | ⟨x1, _ | ⟨x2, _ | ⟨x3, _ | ⟨x4, r⟩⟩⟩⟩
      · exact hbad _ (by step_reduce; rfl)
      · exact hbad _ (by step_reduce; rfl)
      · exact hbad _ (by step_reduce; rfl)
      · exact h_min x1 x2 x3
      · exact hbad _ (by step_reduce; rfl)
    by_cases h33 : a = "max"
    · subst h33
      rcases rest with _ | ⟨x1, _ | ⟨x2, _ | ⟨x3, _ | ⟨x4, r⟩⟩⟩⟩
      · exact hbad _ (by step_reduce; rfl)
      · exact hbad _ (by step_reduce; rfl)
      · exact hbad _ (by step_reduce; rfl)
      · exact h_max x1 x2 x3
      · exact hbad _ (by step_reduce; rfl)
    by_cases h34 : a = "totals"
    · subst h34
      rcases rest with _ | ⟨x1, _ | ⟨x2, _ | ⟨x3, r⟩⟩⟩
      · exact hbad _ (by step_reduce; rfl)
      · exact hbad _ (by step_reduce; rfl)
      · exact h_totals x1 x2
      · exact hbad _ (by step_reduce; rfl)
    by_cases h35 : a = "len"
    · subst h35
      rcases rest with _ | ⟨x1, _ | ⟨x2, _ | ⟨x3, r⟩⟩⟩
      · exact hbad _ (by step_reduce; rfl)
      · exact hbad _ (by step_reduce; rfl)
      · exact h_len x1 x2
      · exact hbad _ (by step_reduce; rfl)
    by_cases h36 : a = "blocks"
    · subst h36
      rcases rest with _ | ⟨x1, _ | ⟨x2, _ | ⟨x3, _ | ⟨x4, _ | ⟨x5, r⟩⟩⟩⟩⟩
      · exact hbad _ (by step_reduce; rfl)
      · exact hbad _ (by step_reduce; rfl)
      · exact hbad _ (by step_reduce; rfl)
      · exact hbad _ (by step_reduce; rfl)
      · exact h_blocks x1 x2 x3 x4
      · exact hbad _ (by step_reduce; rfl)
    by_cases h37 : a = "random"
    · subst h37
      rcases rest with _ | ⟨x1, _ | ⟨x2, _ | ⟨x3, r⟩⟩⟩
      · exact hbad _ (by step_reduce; rfl)
      · exact hbad _ (by step_reduce; rfl)
      · exact h_random x1 x2
      · exact hbad _ (by step_reduce; rfl)
    by_cases h38 : a = "fill"
    · subst h38
      rcases rest with _ | ⟨x1, _ | ⟨x2, _ | ⟨x3, _ | ⟨x4, r⟩⟩⟩⟩
      · exact hbad _ (by step_reduce; rfl)
      · exact hbad _ (by step_reduce; rfl)
      · exact hbad _ (by step_reduce; rfl)
      · exact h_fill x1 x2 x3
      · exact hbad _ (by step_reduce; rfl)
    by_cases h39 : a = "evict"
    · subst h39
      rcases rest with _ | ⟨x1, _ | ⟨x2, _ | ⟨x3, _ | ⟨x4, r⟩⟩⟩⟩
      · exact hbad _ (by step_reduce; rfl)
      · exact hbad _ (by step_reduce; rfl)
      · exact hbad _ (by step_reduce; rfl)
      · exact h_evict x1 x2 x3
      · exact hbad _ (by step_reduce; rfl)
    by_cases h40 : a = "flush"
    · subst h40
      rcases rest with _ | ⟨x1, _ | ⟨x2, r⟩⟩
      · exact hbad _ (by step_reduce; rfl)
      · exact h_flush x1
      · exact hbad _ (by step_reduce; rfl)
    by_cases h41 : a = "snap"
    · subst h41
      rcases rest with _ | ⟨x1, _ | ⟨x2, _ | ⟨x3, r⟩⟩⟩
      · exact hbad _ (by step_reduce; rfl)
      · exact hbad _ (by step_reduce; rfl)
      · exact h_snap x1 x2
      · exact hbad _ (by step_reduce; rfl)
    by_cases h42 : a = "revert"
    · subst h42
      rcases rest with _ | ⟨x1, _ | ⟨x2, r⟩⟩
      · exact hbad _ (by step_reduce; rfl)
      · exact h_revert x1
      · exact hbad _ (by step_reduce; rfl)
    by_cases h43 : a = "copy"
    · subst h43
      rcases rest with _ | ⟨x1, _ | ⟨x2, _ | ⟨x3, _ | ⟨x4, _ | ⟨x5, r⟩⟩⟩⟩⟩
      · exact hbad _ (by step_reduce; rfl)
      · exact hbad _ (by step_reduce; rfl)
      · exact hbad _ (by step_reduce; rfl)
      · exact hbad _ (by step_reduce; rfl)
      · exact h_copy x1 x2 x3 x4
      · exact hbad _ (by step_reduce; rfl)
    by_cases h44 : a = "visit"
    · subst h44
      rcases rest with _ | ⟨x1, _ | ⟨x2, _ | ⟨x3, _ | ⟨x4, _ | ⟨x5, _ | ⟨x6, _ | ⟨x7, r⟩⟩⟩⟩⟩⟩⟩
      · exact hbad _ (by step_reduce; rfl)
      · exact hbad _ (by step_reduce; rfl)
      · exact hbad _ (by step_reduce; rfl)
      · exact hbad _ (by step_reduce; rfl)
      · exact hbad _ (by step_reduce; rfl)
      · exact hbad _ (by step_reduce; rfl)
      · exact h_visit x1 x2 x3 x4 x5 x6
      · exact hbad _ (by step_reduce; rfl)
    by_cases h45 : a = "dump"
    · subst h45
      rcases rest with _ | ⟨x1, _ | ⟨x2, r⟩⟩
      · exact hbad _ (by step_reduce; rfl)
      · exact h_dump x1
      · exact hbad _ (by step_reduce; rfl)
    by_cases h46 : a = "shape"
    · subst h46
      rcases rest with _ | ⟨x1, _ | ⟨x2, _ | ⟨x3, r⟩⟩⟩
      · exact hbad _ (by step_reduce; rfl)
      · exact hbad _ (by step_reduce; rfl)
      · exact h_shape x1 x2
      · exact hbad _ (by step_reduce; rfl)
    by_cases h47 : a = "image"
    · subst h47
      rcases rest with _ | ⟨x1, _ | ⟨x2, r⟩⟩
      · exact hbad _ (by step_reduce; rfl)
      · exact h_image x1
      · exact hbad _ (by step_reduce; rfl)
    by_cases h48 : a = "imagehex"
    · subst h48
      rcases rest with _ | ⟨x1, _ | ⟨x2, r⟩⟩
      · exact hbad _ (by step_reduce; rfl)
      · exact h_imagehex x1
      · exact hbad _ (by step_reduce; rfl)
    by_cases h49 : a = "wlog"
    · subst h49
      rcases rest with _ | ⟨x1, _ | ⟨x2, r⟩⟩
      · exact hbad _ (by step_reduce; rfl)
      · exact h_wlog x1
      · exact hbad _ (by step_reduce; rfl)
    by_cases h50 : a = "crash"
    · subst h50
      rcases rest with _ | ⟨x1, _ | ⟨x2, _ | ⟨x3, _ | ⟨x4, r⟩⟩⟩⟩
      · exact hbad _ (by step_reduce; rfl)
      · exact hbad _ (by step_reduce; rfl)
      · exact hbad _ (by step_reduce; rfl)
      · exact h_crash x1 x2 x3
      · exact hbad _ (by step_reduce; rfl)
    exact hbad _ (by step_reduce; rw [dif_neg h1, dif_neg h2, dif_neg h3, dif_neg h4, dif_neg h5, dif_neg h6, dif_neg h7, dif_neg h8, dif_neg h9, dif_neg h10, dif_neg h11, dif_neg h12, dif_neg h13, dif_neg h14, dif_neg h15, dif_neg h16, dif_neg h17, dif_neg h18, dif_neg h19, dif_neg h20, dif_neg h21, dif_neg h22, dif_neg h23, dif_neg h24, dif_neg h25, dif_neg h26, dif_neg h27, dif_neg h28, dif_neg h29, dif_neg h30, dif_neg h31, dif_neg h32, dif_neg h33, dif_neg h34, dif_neg h35, dif_neg h36, dif_neg h37, dif_neg h38, dif_neg h39, dif_neg h40, dif_neg h41, dif_neg h42, dif_neg h43, dif_neg h44, dif_neg h45, dif_neg h46, dif_neg h47, dif_neg h48, dif_neg h49, dif_neg h50])

/-! ### association lists -/

theorem assocGet_assocSet_eq {α : Type} (k : Nat) (v : α) (l : List (Nat × α)) :
    assocGet k (assocSet k v l) = some v := by
  induction l with
  | nil => simp [assocSet, assocGet]
  | cons p rest ih =>
    obtain ⟨k', v'⟩ := p
    by_cases h : k = k'
    · simp [assocSet, assocGet, h]
    · simp [assocSet, assocGet, h, ih]

theorem assocGet_assocSet_ne {α : Type} {k k' : Nat} (v : α) (l : List (Nat × α)) (h : ¬ k' = k) :
    assocGet k (assocSet k' v l) = assocGet k l := by
  have h' : ¬ k = k' := fun e => h e.symm
  induction l with
  | nil => simp [assocSet, assocGet, h']
  | cons p rest ih =>
    obtain ⟨k'', v'⟩ := p
    by_cases h2 : k' = k''
    · subst h2; simp [assocSet, assocGet, h']
    · by_cases h3 : k = k''
      · simp [assocSet, assocGet, h2, h3]
      · simp [assocSet, assocGet, h2, h3, ih]

theorem assocDel_cons {α : Type} (k k' : Nat) (v : α) (l : List (Nat × α)) :
    assocDel k ((k', v) :: l) = if k' = k then assocDel k l else (k', v) :: assocDel k l := by
  by_cases h : k' = k <;> simp [assocDel, h]

theorem assocGet_assocDel_ne {α : Type} {k k' : Nat} (l : List (Nat × α)) (h : ¬ k' = k) :
    assocGet k (assocDel k' l) = assocGet k l := by
  induction l with
  | nil => rfl
  | cons p rest ih =>
    obtain ⟨k'', v'⟩ := p
    rw [assocDel_cons]
    by_cases h2 : k'' = k'
    · have h3 : ¬ k = k'' := fun e => h (by rw [e, h2])
      simp [assocGet, h2, ih]
      intro e; exact absurd e.symm h
    · by_cases h3 : k = k''
      · simp [assocGet, h2, h3]
      · simp [assocGet, h2, h3, ih]

theorem assocGet_assocDel_eq {α : Type} (k : Nat) (l : List (Nat × α)) :
    assocGet k (assocDel k l) = none := by
  induction l with
  | nil => rfl
  | cons p rest ih =>
    obtain ⟨k'', v'⟩ := p
    rw [assocDel_cons]
    by_cases h2 : k'' = k
    · simp [h2, ih]
    · have : ¬ k = k'' := fun e => h2 e.symm
      simp [assocGet, h2, this, ih]

/-! ### `withColl` / `putColl` -/

theorem putColl_frame (w : World) {s t : Nat} (st : Store) (c : Coll) (h : ¬ s = t) :
    assocGet t (putColl w s st c).stores = assocGet t w.stores := by
  unfold putColl
  exact assocGet_assocSet_ne _ _ h

theorem putColl_files (w : World) (s : Nat) (st : Store) (c : Coll) :
    (putColl w s st c).files = w.files := rfl

/-- if the continuation leaves store `t` alone, so does `withColl` -/
theorem withColl_frame (w : World) (s : Nat) (n : Bytes) (k : Store → Coll → World × String) (t : Nat)
    (hk : ∀ st c, assocGet t (k st c).1.stores = assocGet t w.stores) :
    assocGet t (withColl w s n k).1.stores = assocGet t w.stores := by
  unfold withColl
  split
  · rfl
  · split
    · rfl
    · exact hk _ _

/-- if the continuation returns the world unchanged, so does `withColl` -/
theorem withColl_fst (w : World) (s : Nat) (n : Bytes) (k : Store → Coll → World × String)
    (hk : ∀ st c, (k st c).1 = w) : (withColl w s n k).1 = w := by
  unfold withColl
  split
  · rfl
  · split
    · rfl
    · exact hk _ _

/-! ### which operations read, which stores an operation writes -/

/-- head tokens of the operations that only observe (or that are no-ops of the model) -/
def readOps : List String :=
  ["names", "get", "geti", "exist", "min", "max", "totals", "len", "evict", "blocks", "random",
   "visit", "dump", "shape", "image", "imagehex", "wlog", "crash", "heapcheck", "refcheck",
   "refbalance", "appendcheck", "rmark", "kreads", "readsok", "openreads", "decodehex", "opendump",
   "iter", "cfg", "churn"]

def isReadOp : List String → Bool
  | [] => false
  | op :: _ => readOps.contains op

/-- the store ids an operation may create, replace or remove -/
def writesStore (ts : List String) (s : Nat) : Prop :=
  if isReadOp ts = true then False else
  match ts with
  | ["reset"] => True
  | "snap" :: _ :: s2 :: _ => s2.toNat? = some s
  | "copy" :: _ :: s2 :: _ => s2.toNat? = some s
  | "crashopen" :: _ :: _ :: _ :: _ :: s' :: _ => s'.toNat? = some s
  | _ :: s' :: _ => s'.toNat? = some s
  | _ => False

instance (ts : List String) (s : Nat) : Decidable (writesStore ts s) := by
  unfold writesStore
  split
  · infer_instance
  · split <;> infer_instance

macro "read_close" : tactic => `(tactic|
  repeat' (first
    | rfl
    | (apply withColl_fst; intro _ _)
    | split
    | (dsimp only; split)))

theorem reads_change_nothing (w : World) (ts : List String) (hread : isReadOp ts = true) :
    (stepTokens w ts).1 = w := by
  revert hread
  apply stepTokens_cases w (fun ts => isReadOp ts = true → (stepTokens w ts).1 = w)
  case hbad => intro ts h _; rw [h]
  all_goals intros
  all_goals first
    | (exfalso; rename_i h; revert h; simp [isReadOp, readOps]; done)
    | (step_reduce; read_close; done)

macro "frame_ne" : tactic => `(tactic| (intro e; subst e; contradiction))

macro "frame_split" : tactic => `(tactic|
  repeat' (first
    | rfl
    | (apply putColl_frame; frame_ne)
    | (apply assocGet_assocSet_ne; frame_ne)
    | (apply assocGet_assocDel_ne; frame_ne)
    | (apply withColl_frame; intro _ _)
    | split
    | (dsimp only; split)))

set_option linter.unusedVariables false in
theorem stepTokens_frame (w : World) (ts : List String) (s : Nat) (h : ¬ writesStore ts s)
    (hr : ts ≠ ["reset"]) :
    assocGet s (stepTokens w ts).1.stores = assocGet s w.stores := by
  revert h
  apply stepTokens_cases w
    (fun ts => ¬ writesStore ts s → assocGet s (stepTokens w ts).1.stores = assocGet s w.stores)
  case hbad => intro ts h _; rw [h]
  case h_reset => intro h; exact absurd (by simp [writesStore, isReadOp, readOps]) h
  all_goals (intros; rename_i hw; try simp [writesStore, isReadOp, readOps] at hw)
  all_goals (step_reduce; frame_split)

/-! ### the wrappers `nvisit … | <op>` and `failop <op>` -/

/-- the stores a token list may write when run through `stepTokens2` -/
def writesStore2 (ts : List String) (s : Nat) : Prop :=
  match ts with
  | "nvisit" :: _ :: _ :: _ :: _ :: _ :: _ :: "|" :: nested => writesStore nested s
  | "failop" :: rest => writesStore rest s
  | _ => writesStore ts s

def lineTokens (line : String) : List String := (line.splitOn " ").filter (· ≠ "")

/-- the stores an operation line may create, replace or remove -/
def writesStoreLine (line : String) (s : Nat) : Prop := writesStore2 (lineTokens line) s

instance (ts : List String) (s : Nat) : Decidable (writesStore2 ts s) := by
  unfold writesStore2; split <;> infer_instance

instance (line : String) (s : Nat) : Decidable (writesStoreLine line s) := by
  unfold writesStoreLine; infer_instance

theorem not_writesStore_ne_reset {ts : List String} {s : Nat} (h : ¬ writesStore ts s) :
    ts ≠ ["reset"] := by
  intro e; subst e; exact h (by simp [writesStore, isReadOp, readOps])

theorem stepTokens2_frame (w : World) (ts : List String) (s : Nat) (h : ¬ writesStore2 ts s) :
    assocGet s (stepTokens2 w ts).1.stores = assocGet s w.stores := by
  unfold stepTokens2
  split
  · -- nvisit
    rename_i a n dir t wv pos nested
    have hn : ¬ writesStore nested s := by simpa [writesStore2] using h
    have hf := stepTokens_frame w nested s hn (not_writesStore_ne_reset hn)
    repeat' (first | rfl | exact hf | split | (dsimp only; split))
    all_goals (rename_i heq _; rw [heq] at hf; exact hf)
  · -- failop
    rename_i op rest
    have hn : ¬ writesStore (op :: rest) s := by simpa [writesStore2] using h
    split
    · -- failop revert S
      simp [writesStore, isReadOp, readOps] at hn
      frame_split
    · exact stepTokens_frame w _ s hn (not_writesStore_ne_reset hn)
    · split <;> rfl
    · rfl
  · rename_i hnv hfo
    have hn : ¬ writesStore ts s := by
      unfold writesStore2 at h
      split at h
      · exact absurd rfl (hnv _ _ _ _ _ _ _)
      · rename_i rest
        cases rest with
        | nil => simp [writesStore, isReadOp, readOps]
        | cons op r => exact absurd rfl (hfo op r)
      · exact h
    exact stepTokens_frame w ts s hn (not_writesStore_ne_reset hn)

theorem step_frame (w : World) (line : String) (s : Nat) (h : ¬ writesStoreLine line s) :
    assocGet s (step w line).1.stores = assocGet s w.stores :=
  stepTokens2_frame w _ s h

theorem history_frame (w : World) (lines : List String) (s : Nat)
    (h : ∀ l ∈ lines, ¬ writesStoreLine l s) :
    assocGet s (lines.foldl (fun w l => (step w l).1) w).stores = assocGet s w.stores := by
  induction lines generalizing w with
  | nil => rfl
  | cons l rest ih =>
    rw [List.foldl_cons, ih _ (fun l' hl' => h l' (List.mem_cons_of_mem _ hl'))]
    exact step_frame w l s (h l List.mem_cons_self)

/-! ### read-only stores (snapshots) -/

/-- on a read-only store a continuation that refuses read-only stores yields one of two answers -/
theorem withColl_readonly (w : World) (sid : Nat) (n : Bytes) (st : Store)
    (k : Store → Coll → World × String)
    (hst : assocGet sid w.stores = some st)
    (hk : ∀ c, k st c = (w, "err-ro")) :
    withColl w sid n k = (w, "err-ro") ∨ withColl w sid n k = (w, "nocoll") := by
  unfold withColl
  rw [hst]
  dsimp only
  split
  · exact Or.inr rfl
  · exact Or.inl (hk _)

theorem readonly_set_aux (w : World) (s n k v p : String) (sid : Nat) (st : Store)
    (hs : s.toNat? = some sid) (hst : assocGet sid w.stores = some st) (hro : st.readOnly = true) :
    stepTokens w ["set", s, n, k, v, p] = (w, "err-ro") ∨
    stepTokens w ["set", s, n, k, v, p] = (w, "nocoll") ∨
    stepTokens w ["set", s, n, k, v, p] = (w, "bad-op") := by
  step_reduce
  rw [hs]
  split
  · rename_i heq _ _ _ _
    cases heq
    refine (withColl_readonly w sid _ st _ hst ?_).elim (fun h => Or.inl h) (fun h => Or.inr (Or.inl h))
    intro c
    simp [hro]
  · exact Or.inr (Or.inr rfl)

theorem readonly_rejects_set (w : World) (s n k v p : String) (sid : Nat) (st : Store)
    (hs : s.toNat? = some sid) (hst : assocGet sid w.stores = some st) (hro : st.readOnly = true) :
    (stepTokens w ["set", s, n, k, v, p]).1 = w ∧
    ((stepTokens w ["set", s, n, k, v, p]).2 = "err-ro" ∨
     (stepTokens w ["set", s, n, k, v, p]).2 = "nocoll" ∨
     (stepTokens w ["set", s, n, k, v, p]).2 = "bad-op") := by
  rcases readonly_set_aux w s n k v p sid st hs hst hro with h | h | h <;> rw [h] <;> simp

theorem readonly_del_aux (w : World) (s n k : String) (sid : Nat) (st : Store)
    (hs : s.toNat? = some sid) (hst : assocGet sid w.stores = some st) (hro : st.readOnly = true) :
    stepTokens w ["del", s, n, k] = (w, "err-ro") ∨
    stepTokens w ["del", s, n, k] = (w, "nocoll") ∨
    stepTokens w ["del", s, n, k] = (w, "bad-op") := by
  step_reduce
  rw [hs]
  split
  · rename_i heq _ _
    cases heq
    refine (withColl_readonly w sid _ st _ hst ?_).elim (fun h => Or.inl h) (fun h => Or.inr (Or.inl h))
    intro c
    simp [hro]
  · exact Or.inr (Or.inr rfl)

theorem readonly_rejects_del (w : World) (s n k : String) (sid : Nat) (st : Store)
    (hs : s.toNat? = some sid) (hst : assocGet sid w.stores = some st) (hro : st.readOnly = true) :
    (stepTokens w ["del", s, n, k]).1 = w ∧
    ((stepTokens w ["del", s, n, k]).2 = "err-ro" ∨
     (stepTokens w ["del", s, n, k]).2 = "nocoll" ∨
     (stepTokens w ["del", s, n, k]).2 = "bad-op") := by
  rcases readonly_del_aux w s n k sid st hs hst hro with h | h | h <;> rw [h] <;> simp

theorem readonly_rejects_flush (w : World) (s : String) (sid : Nat) (st : Store)
    (hs : s.toNat? = some sid) (hst : assocGet sid w.stores = some st) (hro : st.readOnly = true) :
    stepTokens w ["flush", s] = (w, "err-ro") := by
  step_reduce
  rw [hs]
  dsimp only
  rw [hst]
  simp [hro]

/-! ### memory-only stores -/

/-- FlushRevert on a memory-only store is refused and nothing changes (C08's last clause) -/
theorem memory_only_rejects_revert (w : World) (s : String) (sid : Nat) (st : Store)
    (hs : s.toNat? = some sid) (hst : assocGet sid w.stores = some st) (hf : st.file = none) :
    stepTokens w ["revert", s] = (w, "err-nofile") := by
  step_reduce
  rw [hs]
  dsimp only
  rw [hst]
  simp [hf]

/-- … and so is Flush on a writable memory-only store -/
theorem memory_only_rejects_flush (w : World) (s : String) (sid : Nat) (st : Store)
    (hs : s.toNat? = some sid) (hst : assocGet sid w.stores = some st) (hf : st.file = none)
    (hrw : st.readOnly = false) :
    stepTokens w ["flush", s] = (w, "err-nofile") := by
  step_reduce
  rw [hs]
  dsimp only
  rw [hst]
  simp [hf, hrw]

/-! ### closing / reverting a snapshot -/

theorem close_keeps_files (w : World) (s : String) : (stepTokens w ["close", s]).1.files = w.files := by
  step_reduce
  repeat' (first | rfl | split)

theorem World.file_assocSet_self (w : World) (fid : Nat) (stores : List (Nat × Store))
    (fault : Option (Nat × Nat × Int)) :
    (World.file { files := assocSet fid (w.file fid) w.files, stores := stores, fault := fault } fid)
      = w.file fid := by
  simp [World.file, assocGet_assocSet_eq]

theorem revert_readonly_keeps_file_bytes (w : World) (s : String) (sid fid : Nat) (st : Store)
    (hs : s.toNat? = some sid) (hst : assocGet sid w.stores = some st) (hro : st.readOnly = true)
    (hf : st.file = some fid) :
    ((stepTokens w ["revert", s]).1.file fid).bytes = (w.file fid).bytes := by
  step_reduce
  rw [hs]
  dsimp only
  rw [hst]
  dsimp only
  rw [hf]
  dsimp only
  split
  · rfl
  · simp only [hro, if_true]
    rw [World.file_assocSet_self]

/-! ### a snapshot is a value -/

theorem snap_is_value (w : World) (s s2 : String) (a b : Nat) (st : Store)
    (ha : s.toNat? = some a) (hb : s2.toNat? = some b) (hst : assocGet a w.stores = some st) :
    assocGet b (stepTokens w ["snap", s, s2]).1.stores = some { st with readOnly := true } := by
  step_reduce
  rw [ha, hb]
  dsimp only
  rw [hst]
  exact assocGet_assocSet_eq _ _ _

/-! ### C04 in one statement -/

/-- a snapshot keeps the value the store had when it was taken, through every history none of
    whose operations targets the snapshot's id (reads through the snapshot are allowed:
    `writesStore` is empty for read operations) -/
theorem snapshot_isolated (w : World) (s s2 : String) (a b : Nat) (st : Store)
    (ha : s.toNat? = some a) (hb : s2.toNat? = some b) (hst : assocGet a w.stores = some st)
    (lines : List String) (h : ∀ l ∈ lines, ¬ writesStoreLine l b) :
    assocGet b (lines.foldl (fun w l => (step w l).1) (stepTokens w ["snap", s, s2]).1).stores
      = some { st with readOnly := true } := by
  rw [history_frame _ lines b h, snap_is_value w s s2 a b st ha hb hst]

/-- …and the original keeps its value through every history that only targets other stores
    (for instance the snapshot) -/
theorem original_unharmed (w : World) (a : Nat) (lines : List String)
    (h : ∀ l ∈ lines, ¬ writesStoreLine l a) :
    assocGet a (lines.foldl (fun w l => (step w l).1) w).stores = assocGet a w.stores :=
  history_frame w lines a h

end Gkv

/-
`#print axioms` (Lean 4.33.0):

'Gkv.stepTokens_cases' depends on axioms: [propext, Classical.choice, Quot.sound]
'Gkv.stepTokens_frame' depends on axioms: [propext, Classical.choice, Quot.sound]
'Gkv.step_frame' depends on axioms: [propext, Classical.choice, Quot.sound]
'Gkv.history_frame' depends on axioms: [propext, Classical.choice, Quot.sound]
'Gkv.reads_change_nothing' depends on axioms: [propext, Classical.choice, Quot.sound]
'Gkv.readonly_rejects_set' depends on axioms: [propext, Classical.choice, Quot.sound]
'Gkv.readonly_rejects_del' depends on axioms: [propext, Classical.choice, Quot.sound]
'Gkv.readonly_rejects_flush' depends on axioms: [propext, Classical.choice, Quot.sound]
'Gkv.close_keeps_files' depends on axioms: [propext, Classical.choice, Quot.sound]
'Gkv.revert_readonly_keeps_file_bytes' depends on axioms: [propext, Classical.choice, Quot.sound]
'Gkv.snap_is_value' depends on axioms: [propext, Classical.choice, Quot.sound]
'Gkv.snapshot_isolated' depends on axioms: [propext, Classical.choice, Quot.sound]
'Gkv.original_unharmed' depends on axioms: [propext, Classical.choice, Quot.sound]

Generator of `stepTokens_cases` (python3; writes the theorem text to ./cases.lean; paste it over
the theorem above when the arm list of `stepTokens` changes):

import re,sys
src=open('/verif/lean/Gkv/Model/World.lean').read()
i=src.index('def stepTokens (w : World)')
j=src.index('def stepTokens2')
body=src[i:j]
arms=re.findall(r'^  \| \["([a-z]+)"((?:, \w+)*)\] =>', body, re.M)
ops=[]
for tok,args in arms:
    ar = len([a for a in args.split(',') if a.strip()])
    for o in ops:
        if o[0]==tok:
            o[1].append(ar); break
    else:
        ops.append((tok,[ar]))
def hname(op, ar, multi): return f"h_{op}{ar}" if multi else f"h_{op}"
out=[]
out.append("theorem stepTokens_cases (w : World) (P : List String → Prop)")
out.append("    (hbad : ∀ ts, stepTokens w ts = (w, \"bad-op\") → P ts)")
for op, ars in ops:
    for ar in ars:
        xs=[f"a{i+1}" for i in range(ar)]
        lst=", ".join([f'"{op}"']+xs)
        q = ("∀ "+" ".join(xs)+", ") if ar else ""
        out.append(f"    ({hname(op,ar,len(ars)>1)} : {q}P [{lst}])")
out.append("    (ts : List String) : P ts := by")
out.append("  match ts with")
out.append("  | [] => exact hbad _ (by step_reduce; rfl)")
out.append("  | a :: rest =>")
for i,(op,ars) in enumerate(ops):
    out.append(f'    by_cases h{i+1} : a = "{op}"')
    out.append(f"    · subst h{i+1}")
    mx=max(ars)
    pat="r"
    for j in range(mx,-1,-1):
        pat=f"_ | ⟨x{j+1}, {pat}⟩"
    out.append(f"      rcases rest with {pat}")
    for j in range(0,mx+1):
        if j in ars:
            xs=" ".join(f"x{t+1}" for t in range(j))
            out.append(f"      · exact {hname(op,j,len(ars)>1)} {xs}".rstrip())
        else:
            out.append("      · exact hbad _ (by step_reduce; rfl)")
    out.append("      · exact hbad _ (by step_reduce; rfl)")
rws=", ".join(f"dif_neg h{i+1}" for i in range(len(ops)))
out.append(f"    exact hbad _ (by step_reduce; rw [{rws}])")
open('cases.lean','w').write("\n".join(out)+"\n")
print(len(ops), sum(len(a) for _,a in ops), file=sys.stderr)
print(" ".join(o for o,_ in ops), file=sys.stderr)
-/
