/-
Proofs about Model C (`Gkv.Model.Conc`): property C05 — one mutator, one flusher, any number of
readers, all schedules.
-/
import Gkv.Model.Conc

namespace Gkv.Conc

/-! ### list lemmas -/

theorem sum_map_set {α : Type} (f : α → Nat) : ∀ (l : List α) (i : Nat) (a b : α), l[i]? = some a →
    ((l.set i b).map f).sum + f a = (l.map f).sum + f b
  | [], i, a, b, h => by simp at h
  | x :: l, 0, a, b, h => by
    simp at h; subst h; simp; omega
  | x :: l, i + 1, a, b, h => by
    simp at h
    have := sum_map_set f l i a b h
    simp only [List.set_cons_succ, List.map_cons, List.sum_cons]; omega

theorem countP_prefix (p : Version → Bool) : ∀ (h : List Version) (idx : Nat), idx < h.length →
    (∀ j v, h[j]? = some v → (p v = true ↔ j ≤ idx)) → h.countP p = idx + 1
  | [], idx, hl, _ => by simp at hl
  | a :: t, 0, _, hp => by
    have ha : p a = true := (hp 0 a (by simp)).2 (Nat.le_refl _)
    have ht : t.countP p = 0 := by
      rw [List.countP_eq_zero]
      intro b hb hpb
      obtain ⟨j, hj⟩ := List.mem_iff_getElem?.1 hb
      have := (hp (j + 1) b (by simpa using hj)).1 hpb
      omega
    simp [ha, ht]
  | a :: t, i + 1, hl, hp => by
    have ha : p a = true := (hp 0 a (by simp)).2 (Nat.zero_le _)
    have ht := countP_prefix p t i (by simpa using hl) (by
      intro j v hj
      have := hp (j + 1) v (by simpa using hj)
      rw [this]; omega)
    simp [ha, ht]

/-! ### simp lemmas for the shared-state operations -/

section shared
variable (sh : Shared) (c idx : Nat) (v : Val)

@[simp] theorem tick_hist : sh.tick.hist = sh.hist := rfl
@[simp] theorem tick_refs : sh.tick.refs = sh.refs := rfl
@[simp] theorem tick_now : sh.tick.now = sh.now + 1 := rfl
@[simp] theorem tick_underflow : sh.tick.underflow = sh.underflow := rfl
@[simp] theorem tick_curIdx : sh.tick.curIdx c = sh.curIdx c := rfl
@[simp] theorem tick_valAt : sh.tick.valAt c idx = sh.valAt c idx := rfl
@[simp] theorem incRef_hist : (sh.incRef c idx).hist = sh.hist := rfl
@[simp] theorem incRef_now : (sh.incRef c idx).now = sh.now := rfl
@[simp] theorem incRef_underflow : (sh.incRef c idx).underflow = sh.underflow := rfl
@[simp] theorem decRef_hist : (sh.decRef c idx).hist = sh.hist := rfl
@[simp] theorem decRef_now : (sh.decRef c idx).now = sh.now := rfl
@[simp] theorem decRef_underflow :
    (sh.decRef c idx).underflow = (sh.underflow || (sh.refs c idx == 0)) := rfl
@[simp] theorem publish_now : (sh.publish c v).now = sh.now := rfl
@[simp] theorem publish_underflow : (sh.publish c v).underflow = sh.underflow := rfl

theorem incRef_refs (c' i' : Nat) :
    (sh.incRef c idx).refs c' i' = sh.refs c' i' + one c idx c' i' := by
  unfold Shared.incRef one
  by_cases h : c' = c ∧ i' = idx
  · obtain ⟨rfl, rfl⟩ := h; simp
  · have h' : ¬ (c = c' ∧ idx = i') := fun ⟨a, b⟩ => h ⟨a.symm, b.symm⟩
    simp [h, h']

theorem decRef_refs (c' i' : Nat) :
    (sh.decRef c idx).refs c' i' = sh.refs c' i' - one c idx c' i' := by
  unfold Shared.decRef one
  by_cases h : c' = c ∧ i' = idx
  · obtain ⟨rfl, rfl⟩ := h; simp
  · have h' : ¬ (c = c' ∧ idx = i') := fun ⟨a, b⟩ => h ⟨a.symm, b.symm⟩
    simp [h, h']

theorem one_self : one c idx c idx = 1 := by simp [one]

end shared

theorem pinCount_nil (c idx : Nat) : pinCount [] c idx = 0 := rfl
theorem pinCount_cons (p : Pin) (l : List Pin) (c idx : Nat) :
    pinCount (p :: l) c idx = one p.c p.idx c idx + pinCount l c idx := by
  simp [pinCount]
theorem pinCount_snoc (p : Pin) (l : List Pin) (c idx : Nat) :
    pinCount (l ++ [p]) c idx = pinCount l c idx + one p.c p.idx c idx := by
  simp [pinCount]

/-! ### history extension and the stability of observations -/

/-- `sh'` is a later shared state than `sh`: time moved on, histories only grew, and the versions
added were published after `sh.now` -/
structure Ext (sh sh' : Shared) : Prop where
  now_le : sh.now ≤ sh'.now
  hist : ∀ c, sh'.hist c = sh.hist c ∨ ∃ v, sh'.hist c = sh.hist c ++ [v] ∧ sh.now < v.pub

theorem Ext.of_hist_eq {sh sh' : Shared} (hh : sh'.hist = sh.hist) (hn : sh.now ≤ sh'.now) :
    Ext sh sh' := ⟨hn, fun c => Or.inl (by rw [hh])⟩

/-- a pin taken at time `τ` captured version `idx`, which was the current one at that instant -/
def PinOk (sh : Shared) (c idx τ : Nat) : Prop := τ ≤ sh.now ∧ IsCurrentAt (sh.hist c) idx τ

/-- `res` is the content of version `idx` of collection `c` -/
def ValOk (sh : Shared) (c idx : Nat) (res : Val) : Prop :=
  ((sh.hist c)[idx]?).map Version.val = some res

theorem PinOk.ext {sh sh' : Shared} (e : Ext sh sh') {c idx τ : Nat} (h : PinOk sh c idx τ) :
    PinOk sh' c idx τ := by
  refine ⟨Nat.le_trans h.1 e.now_le, ?_⟩
  rcases e.hist c with heq | ⟨v, heq, hv⟩
  · rw [heq]; exact h.2
  · rw [heq]
    obtain ⟨hlt, hall⟩ := h.2
    refine ⟨by simp; omega, ?_⟩
    intro j w hj
    rw [List.getElem?_append] at hj
    split at hj
    · exact hall j w hj
    · rename_i hge
      have : j - (sh.hist c).length = 0 := by
        rcases Nat.eq_zero_or_pos (j - (sh.hist c).length) with h0 | h0
        · exact h0
        · rw [List.getElem?_eq_none (by simp; omega)] at hj; cases hj
      rw [this] at hj
      simp at hj; subst hj
      have := h.1
      constructor <;> intro <;> omega

theorem ValOk.ext {sh sh' : Shared} (e : Ext sh sh') {c idx : Nat} {res : Val}
    (h : ValOk sh c idx res) : ValOk sh' c idx res := by
  unfold ValOk at *
  rcases e.hist c with heq | ⟨v, heq, _⟩
  · rw [heq]; exact h
  · rw [heq, List.getElem?_append]
    split
    · exact h
    · rename_i hge
      rw [List.getElem?_eq_none (by omega)] at h; simp at h

theorem isCurrentAt_now {sh : Shared} {c : Nat} (hne : sh.hist c ≠ [])
    (hpub : ∀ v, v ∈ sh.hist c → v.pub ≤ sh.now) :
    IsCurrentAt (sh.hist c) (sh.curIdx c) (sh.now + 1) := by
  have hl : 0 < (sh.hist c).length := List.length_pos_iff.2 hne
  refine ⟨by unfold Shared.curIdx; omega, ?_⟩
  intro j v hj
  have h1 := hpub v (List.mem_of_getElem? hj)
  have h2 : j < (sh.hist c).length := (List.getElem?_eq_some_iff.1 hj).1
  unfold Shared.curIdx
  constructor <;> intro <;> omega

theorem valOk_valAt {sh : Shared} {c idx : Nat} (h : idx < (sh.hist c).length) :
    ValOk sh c idx (sh.valAt c idx) := by
  unfold ValOk Shared.valAt
  rw [List.getElem?_eq_getElem h]; rfl

/-- the computable `curAt` agrees with `IsCurrentAt` -/
theorem curAt_eq {h : List Version} {idx τ : Nat} (hc : IsCurrentAt h idx τ) : curAt h τ = idx := by
  unfold curAt
  rw [countP_prefix _ h idx hc.1 (by intro j v hj; simpa using hc.2 j v hj)]
  rfl

/-- versions only grow: the version current at an earlier instant has a smaller or equal index -/
theorem curAt_mono (h : List Version) {τ τ' : Nat} (hle : τ ≤ τ') : curAt h τ ≤ curAt h τ' := by
  unfold curAt
  have : h.countP (fun v => decide (v.pub ≤ τ)) ≤ h.countP (fun v => decide (v.pub ≤ τ')) :=
    List.countP_mono_left (by intro x _ hx; simp at hx ⊢; omega)
  omega

/-! ### `worldAt` / `valuesUpTo` -/

theorem valuesUpTo_getLast? (initV : Nat → Val) (prog : List Op) (k c : Nat) :
    (valuesUpTo initV prog k c).getLast? = some (worldAt initV prog k c) := by
  unfold valuesUpTo worldAt
  exact List.getLast?_scanl

theorem valuesUpTo_succ {initV : Nat → Val} {prog : List Op} {k c : Nat} {f : Val → Val}
    (h : prog[k]? = some (c, f)) (c' : Nat) :
    valuesUpTo initV prog (k + 1) c' =
      if c' = c then valuesUpTo initV prog k c ++ [f (worldAt initV prog k c)]
      else valuesUpTo initV prog k c' := by
  unfold valuesUpTo worldAt
  rw [List.take_add_one, h]
  by_cases hc : c' = c
  · subst hc
    simp [List.filter_append, List.scanl_append]
  · have : ¬ c = c' := fun e => hc e.symm
    simp [List.filter_append, hc, this]

theorem worldAt_succ {initV : Nat → Val} {prog : List Op} {k c : Nat} {f : Val → Val}
    (h : prog[k]? = some (c, f)) (c' : Nat) :
    worldAt initV prog (k + 1) c' =
      if c' = c then f (worldAt initV prog k c) else worldAt initV prog k c' := by
  unfold worldAt
  rw [List.take_add_one, h]
  by_cases hc : c' = c
  · subst hc
    simp [List.filter_append, List.foldl_append]
  · have : ¬ c = c' := fun e => hc e.symm
    simp [List.filter_append, hc, this]

theorem worldAt_of_length_le {initV : Nat → Val} {prog : List Op} {k : Nat}
    (h : prog.length ≤ k) (c : Nat) : worldAt initV prog k c = worldAt initV prog prog.length c := by
  unfold worldAt
  rw [List.take_of_length_le h, List.take_of_length_le (Nat.le_refl _)]

/-- every value in `valuesUpTo … k c` is the content of `c` after some prefix of at most `k`
operations -/
theorem mem_valuesUpTo {initV : Nat → Val} {prog : List Op} {c : Nat} :
    ∀ (k : Nat) (x : Val), x ∈ valuesUpTo initV prog k c → ∃ j, j ≤ k ∧ x = worldAt initV prog j c
  | 0, x, hx => by
    refine ⟨0, Nat.le_refl _, ?_⟩
    simpa [valuesUpTo, worldAt] using hx
  | k + 1, x, hx => by
    cases hk : prog[k]? with
    | none =>
      have hle : prog.length ≤ k := by
        rcases Nat.lt_or_ge k prog.length with h | h
        · rw [List.getElem?_eq_getElem h] at hk; cases hk
        · exact h
      have : valuesUpTo initV prog (k + 1) c = valuesUpTo initV prog k c := by
        unfold valuesUpTo
        rw [List.take_of_length_le hle, List.take_of_length_le (by omega)]
      rw [this] at hx
      obtain ⟨j, hj, e⟩ := mem_valuesUpTo k x hx
      exact ⟨j, by omega, e⟩
    | some op =>
      obtain ⟨c0, f⟩ := op
      rw [valuesUpTo_succ hk] at hx
      split at hx
      · rename_i hc; subst hc
        rcases List.mem_append.1 hx with hx | hx
        · obtain ⟨j, hj, e⟩ := mem_valuesUpTo k x hx
          exact ⟨j, by omega, e⟩
        · refine ⟨k + 1, Nat.le_refl _, ?_⟩
          rw [worldAt_succ hk]; simpa using hx
      · obtain ⟨j, hj, e⟩ := mem_valuesUpTo k x hx
        exact ⟨j, by omega, e⟩

/-! ### the invariant -/

/-- the mutator's pin is on the current version; its new value is built from the current one -/
def MutOk (sh : Shared) (m : Mut) : Prop :=
  match m.pc with
  | .idle => True
  | .pinned c f idx => m.prog[m.ncas]? = some (c, f) ∧ idx + 1 = (sh.hist c).length
  | .built c idx v =>
    ∃ f, m.prog[m.ncas]? = some (c, f) ∧ idx + 1 = (sh.hist c).length ∧ v = f (sh.valAt c idx)
  | .casDone _ _ => True

/-- a completed read-only call -/
structure RecOk (sh : Shared) (e : ReadRec) : Prop where
  start_lt : e.start < e.pinTime
  pin_lt : e.pinTime < e.fin
  fin_le : e.fin ≤ sh.now
  pin : PinOk sh e.c e.idx e.pinTime
  val : ValOk sh e.c e.idx e.result

def RPcOk (sh : Shared) : RPc → Prop
  | .idle => True
  | .started _ t0 => t0 ≤ sh.now
  | .pinned c t0 tp idx => t0 < tp ∧ PinOk sh c idx tp
  | .got c t0 tp idx res => t0 < tp ∧ PinOk sh c idx tp ∧ ValOk sh c idx res
  | .unpinned c t0 tp idx res => t0 < tp ∧ PinOk sh c idx tp ∧ ValOk sh c idx res

def ReaderOk (sh : Shared) (r : Reader) : Prop := (∀ e ∈ r.log, RecOk sh e) ∧ RPcOk sh r.pc

/-- the pins of a Flush in progress: collection `i` is pinned by `pins[i]`, each pin captured the
then-current version, and the pin instants increase strictly from the start of the Flush on -/
structure PinsOk (sh : Shared) (t0 : Nat) (pins : List Pin) : Prop where
  start_le : t0 ≤ sh.now
  coll : ∀ (i : Nat) (p : Pin), pins[i]? = some p → p.c = i
  pin : ∀ p : Pin, p ∈ pins → PinOk sh p.c p.idx p.time
  incr : List.Pairwise (· < ·) (t0 :: pins.map Pin.time)

/-- the values written are the contents of the pinned versions -/
def ValsOk (sh : Shared) (pins : List Pin) (vals : List Val) : Prop :=
  vals.length = pins.length ∧
  ∀ (i : Nat) (p : Pin) (x : Val), pins[i]? = some p → vals[i]? = some x → ValOk sh p.c p.idx x

/-- a completed Flush -/
structure FlushRecOk (nColl : Nat) (sh : Shared) (r : FlushRec) : Prop where
  len : r.pins.length = nColl
  pins : PinsOk sh r.start r.pins
  vals : ValsOk sh r.pins r.vals
  fin_gt : ∀ t ∈ r.start :: r.pins.map Pin.time, t < r.fin
  fin_le : r.fin ≤ sh.now

def FPcOk (nColl : Nat) (sh : Shared) : FPc → Prop
  | .idle => True
  | .pinning t0 pins => pins.length ≤ nColl ∧ PinsOk sh t0 pins
  | .unpinning t0 pins vals _ => pins.length = nColl ∧ PinsOk sh t0 pins ∧ ValsOk sh pins vals

def FlusherOk (nColl : Nat) (sh : Shared) (f : Flusher) : Prop :=
  (∀ r ∈ f.log, FlushRecOk nColl sh r) ∧ FPcOk nColl sh f.pc

theorem RecOk.ext {sh sh' : Shared} (e : Ext sh sh') {r : ReadRec} (h : RecOk sh r) : RecOk sh' r :=
  ⟨h.start_lt, h.pin_lt, Nat.le_trans h.fin_le e.now_le, h.pin.ext e, h.val.ext e⟩

theorem RPcOk.ext {sh sh' : Shared} (e : Ext sh sh') {pc : RPc} (h : RPcOk sh pc) : RPcOk sh' pc := by
  cases pc with
  | idle => trivial
  | started c t0 => exact Nat.le_trans h e.now_le
  | pinned c t0 tp idx => exact ⟨h.1, h.2.ext e⟩
  | got c t0 tp idx res => exact ⟨h.1, h.2.1.ext e, h.2.2.ext e⟩
  | unpinned c t0 tp idx res => exact ⟨h.1, h.2.1.ext e, h.2.2.ext e⟩

theorem ReaderOk.ext {sh sh' : Shared} (e : Ext sh sh') {r : Reader} (h : ReaderOk sh r) :
    ReaderOk sh' r := ⟨fun x hx => (h.1 x hx).ext e, h.2.ext e⟩

theorem PinsOk.ext {sh sh' : Shared} (e : Ext sh sh') {t0 : Nat} {pins : List Pin}
    (h : PinsOk sh t0 pins) : PinsOk sh' t0 pins :=
  ⟨Nat.le_trans h.start_le e.now_le, h.coll, fun p hp => (h.pin p hp).ext e, h.incr⟩

theorem ValsOk.ext {sh sh' : Shared} (e : Ext sh sh') {pins : List Pin} {vals : List Val}
    (h : ValsOk sh pins vals) : ValsOk sh' pins vals :=
  ⟨h.1, fun i p x hp hx => (h.2 i p x hp hx).ext e⟩

theorem FlushRecOk.ext {n : Nat} {sh sh' : Shared} (e : Ext sh sh') {r : FlushRec}
    (h : FlushRecOk n sh r) : FlushRecOk n sh' r :=
  ⟨h.len, h.pins.ext e, h.vals.ext e, h.fin_gt, Nat.le_trans h.fin_le e.now_le⟩

theorem FPcOk.ext {n : Nat} {sh sh' : Shared} (e : Ext sh sh') {pc : FPc} (h : FPcOk n sh pc) :
    FPcOk n sh' pc := by
  cases pc with
  | idle => trivial
  | pinning t0 pins => exact ⟨h.1, h.2.ext e⟩
  | unpinning t0 pins vals rest => exact ⟨h.1, h.2.1.ext e, h.2.2.ext e⟩

theorem FlusherOk.ext {n : Nat} {sh sh' : Shared} (e : Ext sh sh') {f : Flusher}
    (h : FlusherOk n sh f) : FlusherOk n sh' f := ⟨fun x hx => (h.1 x hx).ext e, h.2.ext e⟩

/-- the invariant of all reachable states (for initial contents `initV` and mutator program
`prog`) -/
structure Inv (initV : Nat → Val) (prog : List Op) (s : State) : Prop where
  prog_eq : s.mu.prog = prog
  lost : s.mu.lost = false
  ncas_le : s.mu.ncas ≤ s.mu.prog.length
  uf : s.sh.underflow = false
  hist_ne : ∀ c, s.sh.hist c ≠ []
  pub_le : ∀ c v, v ∈ s.sh.hist c → v.pub ≤ s.sh.now
  hist_eq : ∀ c, (s.sh.hist c).map Version.val = valuesUpTo initV prog s.mu.ncas c
  mpc : MutOk s.sh s.mu
  rds : ∀ r ∈ s.rds, ReaderOk s.sh r
  fl : FlusherOk s.nColl s.sh s.fl
  refs : ∀ c idx, s.sh.refs c idx = curRef (s.sh.hist c) idx + s.holders c idx
  fresh : ∀ c idx, (s.sh.hist c).length ≤ idx → s.sh.refs c idx = 0

theorem inv_init (initV : Nat → Val) (prog : List Op) (nColl nFlush : Nat)
    (rprogs : List (List Nat)) : Inv initV prog (init initV prog nColl nFlush rprogs) where
  prog_eq := rfl
  lost := rfl
  ncas_le := Nat.zero_le _
  uf := rfl
  hist_ne := by intro c; simp [init]
  pub_le := by intro c v hv; simp [init] at hv; subst hv; simp [init]
  hist_eq := by intro c; simp [init, valuesUpTo]
  mpc := trivial
  rds := by
    intro r hr
    simp [init] at hr
    obtain ⟨p, _, rfl⟩ := hr
    exact ⟨by simp, trivial⟩
  fl := ⟨by simp [init], trivial⟩
  refs := by
    intro c idx
    have : (List.map (fun r : Reader => r.pins c idx)
        (List.map (fun p => ({ prog := p, pc := .idle, log := [] } : Reader)) rprogs)).sum = 0 := by
      induction rprogs with
      | nil => rfl
      | cons a l ih => simpa [Reader.pins] using ih
    simp only [init, State.holders, Mut.pins, Flusher.pins, this, curRef]
    simp
  fresh := by
    intro c idx h
    simp [init] at h ⊢
    omega

/-! ### every step preserves the invariant -/

theorem last_val {sh : Shared} {c idx : Nat} (h : idx + 1 = (sh.hist c).length) :
    ((sh.hist c).map Version.val).getLast? = some (sh.valAt c idx) := by
  have hi : idx < (sh.hist c).length := by omega
  rw [List.getLast?_eq_getElem?, List.length_map, ← h, Nat.add_sub_cancel, List.getElem?_map]
  unfold Shared.valAt
  rw [List.getElem?_eq_getElem hi]; rfl

theorem holders_pos_of_refs {initV : Nat → Val} {prog : List Op} {s : State} (h : Inv initV prog s)
    {c idx : Nat} (hp : 0 < s.holders c idx) : (s.sh.refs c idx == 0) = false := by
  have := h.refs c idx
  have : s.sh.refs c idx ≠ 0 := by omega
  simpa using this

theorem inv_mut {initV : Nat → Val} {prog : List Op} {s : State} (h : Inv initV prog s)
    {sh : Shared} {m : Mut} (hs : mutStep s.sh.tick s.mu = some (sh, m)) :
    Inv initV prog { s with sh := sh, mu := m } := by
  have hm := h.mpc
  unfold mutStep at hs
  unfold MutOk at hm
  cases hpc : s.mu.pc with
  | idle =>
    simp only [hpc] at hs
    split at hs
    · cases hs
    · rename_i c f hprog
      simp only [Option.some.injEq, Prod.mk.injEq] at hs
      obtain ⟨rfl, rfl⟩ := hs
      have hl : 0 < (s.sh.hist c).length := List.length_pos_iff.2 (h.hist_ne c)
      have e : Ext s.sh ((s.sh.tick).incRef c (s.sh.curIdx c)) := Ext.of_hist_eq rfl (by simp)
      exact {
        prog_eq := h.prog_eq
        lost := h.lost
        ncas_le := h.ncas_le
        uf := h.uf
        hist_ne := h.hist_ne
        pub_le := fun c v hv => Nat.le_succ_of_le (h.pub_le c v hv)
        hist_eq := h.hist_eq
        mpc := by
          simp only [MutOk]
          exact ⟨hprog, by simp [Shared.curIdx]; omega⟩
        rds := fun r hr => (h.rds r hr).ext e
        fl := h.fl.ext e
        refs := by
          intro c' i'
          have := h.refs c' i'
          simp only [State.holders, Mut.pins, hpc] at this
          simp only [State.holders, Mut.pins, incRef_refs, tick_refs, incRef_hist, tick_hist, tick_curIdx]
          omega
        fresh := by
          intro c' i' hle
          have := h.fresh c' i' hle
          simp only [incRef_refs, tick_refs, tick_curIdx, this, one]
          simp only [incRef_hist, tick_hist] at hle
          have : ¬ (c = c' ∧ s.sh.curIdx c = i') := by
            rintro ⟨rfl, rfl⟩; unfold Shared.curIdx at hle; omega
          simp [this] }
  | pinned c f idx =>
    simp only [hpc, Option.some.injEq, Prod.mk.injEq] at hs hm
    obtain ⟨rfl, rfl⟩ := hs
    have e : Ext s.sh s.sh.tick := Ext.of_hist_eq rfl (by simp)
    exact {
      prog_eq := h.prog_eq
      lost := h.lost
      ncas_le := h.ncas_le
      uf := h.uf
      hist_ne := h.hist_ne
      pub_le := fun c v hv => Nat.le_succ_of_le (h.pub_le c v hv)
      hist_eq := h.hist_eq
      mpc := by
        simp only [MutOk]
        exact ⟨f, hm.1, hm.2, rfl⟩
      rds := fun r hr => (h.rds r hr).ext e
      fl := h.fl.ext e
      refs := by
        intro c' i'
        have := h.refs c' i'
        simp only [State.holders, Mut.pins, hpc] at this
        simp only [State.holders, Mut.pins, tick_refs, tick_hist]
        omega
      fresh := h.fresh }
  | built c idx v =>
    simp only [hpc] at hs hm
    obtain ⟨f, hprog, hidx, hv⟩ := hm
    rw [if_pos (by simpa using hidx)] at hs
    simp only [Option.some.injEq, Prod.mk.injEq] at hs
    obtain ⟨rfl, rfl⟩ := hs
    have hcur : s.sh.valAt c idx = worldAt initV prog s.mu.ncas c := by
      have h1 := last_val hidx
      rw [h.hist_eq c, valuesUpTo_getLast?] at h1
      exact (Option.some.inj h1).symm
    have hhold : 0 < s.holders c idx := by
      simp [State.holders, Mut.pins, hpc, one_self]; omega
    have e : Ext s.sh (((s.sh.tick).publish c v).decRef c idx) := by
      refine ⟨by simp, fun c' => ?_⟩
      by_cases hc : c' = c
      · subst hc
        exact Or.inr ⟨⟨v, s.sh.now + 1⟩, by simp [Shared.publish], by simp⟩
      · exact Or.inl (by simp [Shared.publish, hc])
    have hpubrefs : ∀ c' i', ((s.sh.tick).publish c v).refs c' i' =
        if c' = c ∧ i' = (s.sh.hist c).length then 1 else s.sh.refs c' i' := fun _ _ => rfl
    have hpubhist : ∀ c', ((s.sh.tick).publish c v).hist c' =
        if c' = c then s.sh.hist c ++ [⟨v, s.sh.now + 1⟩] else s.sh.hist c' := fun _ => rfl
    exact {
      prog_eq := h.prog_eq
      lost := h.lost
      ncas_le := by
        have : s.mu.ncas < s.mu.prog.length := by
          rcases Nat.lt_or_ge s.mu.ncas s.mu.prog.length with h' | h'
          · exact h'
          · rw [List.getElem?_eq_none h'] at hprog; cases hprog
        exact this
      uf := by
        have hr : ((s.sh.tick).publish c v).refs c idx = s.sh.refs c idx := by
          rw [hpubrefs]; rw [if_neg]; omega
        simp only [decRef_underflow, publish_underflow, tick_underflow, h.uf, hr,
          holders_pos_of_refs h hhold, Bool.or_self]
      hist_ne := by
        intro c'
        simp only [decRef_hist, hpubhist]
        split
        · simp
        · exact h.hist_ne c'
      pub_le := by
        intro c' w hw
        simp only [decRef_hist, hpubhist] at hw
        simp only [decRef_now, publish_now, tick_now]
        split at hw
        · rcases List.mem_append.1 hw with hw | hw
          · exact Nat.le_succ_of_le (h.pub_le c w hw)
          · simp at hw; subst hw; exact Nat.le_refl _
        · exact Nat.le_succ_of_le (h.pub_le c' w hw)
      hist_eq := by
        intro c'
        have hp : prog[s.mu.ncas]? = some (c, f) := by rw [← h.prog_eq]; exact hprog
        simp only [decRef_hist, hpubhist]
        rw [valuesUpTo_succ hp]
        split
        · rw [List.map_append, h.hist_eq c, hv, hcur]; rfl
        · exact h.hist_eq c'
      mpc := by simp only [MutOk]
      rds := fun r hr => (h.rds r hr).ext e
      fl := h.fl.ext e
      refs := by
        intro c' i'
        have h1 := h.refs c' i'
        have h2 := h.fresh c' i'
        simp only [State.holders, Mut.pins, hpc] at h1
        simp only [State.holders, Mut.pins, decRef_refs, hpubrefs, decRef_hist, hpubhist]
        by_cases hc : c' = c
        · subst hc
          simp only [true_and, if_true]
          unfold curRef at h1 ⊢
          simp only [List.length_append, List.length_singleton]
          by_cases hi : i' = (s.sh.hist c').length
          · have h3 : one c' idx c' i' = 0 := by
              simp [one]; omega
            have h4 := h2 (by omega)
            rw [if_pos hi, if_pos (by omega), h3]
            rw [h4, if_neg (by omega), h3] at h1
            omega
          · rw [if_neg hi, if_neg (by omega)]
            by_cases hx : i' = idx
            · subst hx
              rw [one_self] at h1 ⊢
              rw [if_pos hidx] at h1
              omega
            · have h3 : one c' idx c' i' = 0 := by simp [one]; omega
              rw [h3] at h1 ⊢
              rw [if_neg (by omega)] at h1
              omega
        · have h3 : one c idx c' i' = 0 := by
            have : ¬ c = c' := fun e => hc e.symm
            simp [one, this]
          simp only [hc, false_and, if_false, h3] at h1 ⊢
          omega
      fresh := by
        intro c' i' hle
        simp only [decRef_hist, hpubhist] at hle
        simp only [decRef_refs, hpubrefs]
        by_cases hc : c' = c
        · subst hc
          simp only [if_true, List.length_append, List.length_singleton] at hle
          have := h.fresh c' i' (by omega)
          rw [if_neg (by omega), this, Nat.zero_sub]
        · simp only [hc, if_false] at hle
          have := h.fresh c' i' hle
          simp only [hc, false_and, if_false, this, Nat.zero_sub] }
  | casDone c idx =>
    simp only [hpc, Option.some.injEq, Prod.mk.injEq] at hs
    obtain ⟨rfl, rfl⟩ := hs
    have e : Ext s.sh ((s.sh.tick).decRef c idx) := Ext.of_hist_eq rfl (by simp)
    have hhold : 0 < s.holders c idx := by
      simp [State.holders, Mut.pins, hpc, one_self]; omega
    exact {
      prog_eq := h.prog_eq
      lost := h.lost
      ncas_le := h.ncas_le
      uf := by
        simp only [decRef_underflow, tick_underflow, tick_refs, h.uf,
          holders_pos_of_refs h hhold, Bool.or_self]
      hist_ne := h.hist_ne
      pub_le := fun c v hv => Nat.le_succ_of_le (h.pub_le c v hv)
      hist_eq := h.hist_eq
      mpc := by simp only [MutOk]
      rds := fun r hr => (h.rds r hr).ext e
      fl := h.fl.ext e
      refs := by
        intro c' i'
        have := h.refs c' i'
        simp only [State.holders, Mut.pins, hpc] at this
        simp only [State.holders, Mut.pins, decRef_refs, tick_refs, decRef_hist, tick_hist]
        omega
      fresh := by
        intro c' i' hle
        have := h.fresh c' i' hle
        simp only [decRef_refs, tick_refs, this, Nat.zero_sub] }

theorem le_sum_map {α : Type} (f : α → Nat) : ∀ (l : List α) (i : Nat) (a : α), l[i]? = some a →
    f a ≤ (l.map f).sum
  | [], i, a, h => by simp at h
  | x :: l, 0, a, h => by simp at h; subst h; simp
  | x :: l, i + 1, a, h => by
    simp at h
    have := le_sum_map f l i a h
    simp only [List.map_cons, List.sum_cons]; omega

theorem MutOk.congr {sh sh' : Shared} (hh : sh'.hist = sh.hist) {m : Mut} (h : MutOk sh m) :
    MutOk sh' m := by
  unfold MutOk Shared.valAt at *
  rw [hh]; exact h

/-- frame lemma for the steps of the flusher and of the readers, which never touch a history -/
theorem inv_frame {initV : Nat → Val} {prog : List Op} {s : State} (h : Inv initV prog s)
    (s' : State) (hmu : s'.mu = s.mu) (hh : s'.sh.hist = s.sh.hist)
    (hnow : s'.sh.now = s.sh.now + 1) (huf : s'.sh.underflow = false)
    (hrds : ∀ r ∈ s'.rds, ReaderOk s'.sh r) (hfl : FlusherOk s'.nColl s'.sh s'.fl)
    (hrefs : ∀ c idx, s'.sh.refs c idx + s.holders c idx = s.sh.refs c idx + s'.holders c idx)
    (hfresh : ∀ c idx, s.sh.refs c idx = 0 → (s.sh.hist c).length ≤ idx → s'.sh.refs c idx = 0) :
    Inv initV prog s' where
  prog_eq := by rw [hmu]; exact h.prog_eq
  lost := by rw [hmu]; exact h.lost
  ncas_le := by rw [hmu]; exact h.ncas_le
  uf := huf
  hist_ne := by rw [hh]; exact h.hist_ne
  pub_le := by rw [hh, hnow]; exact fun c v hv => Nat.le_succ_of_le (h.pub_le c v hv)
  hist_eq := by rw [hh, hmu]; exact h.hist_eq
  mpc := by rw [hmu]; exact h.mpc.congr hh
  rds := hrds
  fl := hfl
  refs := by
    intro c idx
    have h1 := h.refs c idx
    have h2 := hrefs c idx
    rw [hh]; omega
  fresh := by
    intro c idx hle
    rw [hh] at hle
    exact hfresh c idx (h.fresh c idx hle) hle

theorem inv_rd {initV : Nat → Val} {prog : List Op} {s : State} (h : Inv initV prog s)
    {i : Nat} {r r' : Reader} {sh : Shared} (hr : s.rds[i]? = some r)
    (hs : rdStep s.sh.tick r = some (sh, r')) :
    Inv initV prog { s with sh := sh, rds := s.rds.set i r' } := by
  have hrm : r ∈ s.rds := List.mem_of_getElem? hr
  obtain ⟨hlog, hpcok⟩ := h.rds r hrm
  -- generic part, given the facts about the new shared state and the new reader state
  have key : ∀ (sh : Shared) (r' : Reader), sh.hist = s.sh.hist → sh.now = s.sh.now + 1 →
      sh.underflow = false → ReaderOk sh r' →
      (∀ c idx, sh.refs c idx + r.pins c idx = s.sh.refs c idx + r'.pins c idx) →
      (∀ c idx, s.sh.refs c idx = 0 → (s.sh.hist c).length ≤ idx → sh.refs c idx = 0) →
      Inv initV prog { s with sh := sh, rds := s.rds.set i r' } := by
    intro sh r' hh hnow huf hok hrefs hfresh
    have e : Ext s.sh sh := Ext.of_hist_eq hh (by omega)
    refine inv_frame h _ rfl hh hnow huf ?_ (h.fl.ext e) ?_ hfresh
    · intro x hx
      rcases List.mem_or_eq_of_mem_set hx with hx | rfl
      · exact (h.rds x hx).ext e
      · exact hok
    · intro c idx
      have h1 := sum_map_set (fun r : Reader => r.pins c idx) s.rds i r r' hr
      have h2 := hrefs c idx
      simp only [State.holders]
      omega
  have e0 : Ext s.sh s.sh.tick := Ext.of_hist_eq rfl (by simp)
  unfold rdStep at hs
  cases hpc : r.pc with
  | idle =>
    simp only [hpc] at hs
    split at hs
    · cases hs
    · rename_i c rest hprog
      simp only [Option.some.injEq, Prod.mk.injEq] at hs
      obtain ⟨rfl, rfl⟩ := hs
      refine key _ _ rfl rfl h.uf ⟨fun x hx => (hlog x hx).ext e0, ?_⟩ ?_ (fun c idx h0 _ => h0)
      · simp [RPcOk]
      · intro c' i'; simp [Reader.pins, hpc]
  | started c t0 =>
    simp only [hpc, Option.some.injEq, Prod.mk.injEq] at hs
    obtain ⟨rfl, rfl⟩ := hs
    rw [hpc] at hpcok
    have e : Ext s.sh ((s.sh.tick).incRef c (s.sh.tick.curIdx c)) := Ext.of_hist_eq rfl (by simp)
    refine key _ _ rfl rfl h.uf ⟨fun x hx => (hlog x hx).ext e, ?_⟩ ?_ ?_
    · simp only [RPcOk, tick_now, tick_curIdx]
      exact ⟨Nat.lt_succ_of_le hpcok, Nat.le_refl _, isCurrentAt_now (h.hist_ne c) (h.pub_le c)⟩
    · intro c' i'; simp [Reader.pins, hpc, incRef_refs]
    · intro c' i' h0 hle
      have hl : 0 < (s.sh.hist c).length := List.length_pos_iff.2 (h.hist_ne c)
      have : ¬ (c = c' ∧ s.sh.curIdx c = i') := by
        rintro ⟨rfl, rfl⟩; unfold Shared.curIdx at hle; omega
      simp [incRef_refs, h0, one, this]
  | pinned c t0 tp idx =>
    simp only [hpc, Option.some.injEq, Prod.mk.injEq] at hs
    obtain ⟨rfl, rfl⟩ := hs
    rw [hpc] at hpcok
    refine key _ _ rfl rfl h.uf ⟨fun x hx => (hlog x hx).ext e0, ?_⟩ ?_ (fun c idx h0 _ => h0)
    · simp only [RPcOk, tick_valAt]
      exact ⟨hpcok.1, hpcok.2.ext e0, (valOk_valAt hpcok.2.2.1).ext e0⟩
    · intro c' i'; simp [Reader.pins, hpc]
  | got c t0 tp idx res =>
    simp only [hpc, Option.some.injEq, Prod.mk.injEq] at hs
    obtain ⟨rfl, rfl⟩ := hs
    rw [hpc] at hpcok
    have e : Ext s.sh ((s.sh.tick).decRef c idx) := Ext.of_hist_eq rfl (by simp)
    have hge : ∀ c' i', one c idx c' i' ≤ s.sh.refs c' i' := by
      intro c' i'
      have h1 : r.pins c' i' ≤ (s.rds.map fun r : Reader => r.pins c' i').sum :=
        le_sum_map (fun r : Reader => r.pins c' i') s.rds i r hr
      have h2 := h.refs c' i'
      have h3 : r.pins c' i' = one c idx c' i' := by simp only [Reader.pins, hpc]
      simp only [State.holders] at h2
      omega
    refine key _ _ rfl rfl ?_ ⟨fun x hx => (hlog x hx).ext e, ?_⟩ ?_ ?_
    · have := hge c idx
      rw [one_self] at this
      have h0 : (s.sh.refs c idx == 0) = false := by
        have : s.sh.refs c idx ≠ 0 := by omega
        simpa using this
      simp [h.uf, h0]
    · simp only [RPcOk]
      exact ⟨hpcok.1, hpcok.2.1.ext e, hpcok.2.2.ext e⟩
    · intro c' i'
      have := hge c' i'
      simp only [Reader.pins, hpc, decRef_refs, tick_refs]
      omega
    · intro c' i' h0 _
      simp [decRef_refs, h0]
  | unpinned c t0 tp idx res =>
    simp only [hpc, Option.some.injEq, Prod.mk.injEq] at hs
    obtain ⟨rfl, rfl⟩ := hs
    rw [hpc] at hpcok
    refine key _ _ rfl rfl h.uf ⟨?_, ?_⟩ ?_ (fun c idx h0 _ => h0)
    · intro x hx
      rcases List.mem_append.1 hx with hx | hx
      · exact (hlog x hx).ext e0
      · simp only [List.mem_singleton] at hx
        subst hx
        have := hpcok.2.1.1
        exact ⟨hpcok.1, by simp only [tick_now]; omega, Nat.le_refl _, hpcok.2.1.ext e0,
          hpcok.2.2.ext e0⟩
    · simp [RPcOk]
    · intro c' i'; simp [Reader.pins, hpc]

theorem PinsOk.times_le {sh : Shared} {t0 : Nat} {pins : List Pin} (h : PinsOk sh t0 pins) :
    ∀ t ∈ t0 :: pins.map Pin.time, t ≤ sh.now := by
  intro t ht
  rcases List.mem_cons.1 ht with rfl | ht
  · exact h.start_le
  · obtain ⟨p, hp, rfl⟩ := List.mem_map.1 ht
    exact (h.pin p hp).1

theorem PinsOk.snoc {sh sh' : Shared} (e : Ext sh sh') {t0 : Nat} {pins : List Pin}
    (h : PinsOk sh t0 pins) {idx τ : Nat} (hp : PinOk sh' pins.length idx τ) (hτ : sh.now < τ) :
    PinsOk sh' t0 (pins ++ [⟨pins.length, τ, idx⟩]) where
  start_le := Nat.le_trans h.start_le e.now_le
  coll := by
    intro i p hi
    rcases Nat.lt_trichotomy i pins.length with hlt | heq | hgt
    · rw [List.getElem?_append_left hlt] at hi
      exact h.coll i p hi
    · subst heq
      simp at hi; subst hi; rfl
    · rw [List.getElem?_eq_none (by simp; omega)] at hi; cases hi
  pin := by
    intro p hm
    rcases List.mem_append.1 hm with hm | hm
    · exact (h.pin p hm).ext e
    · simp only [List.mem_singleton] at hm; subst hm; exact hp
  incr := by
    rw [List.map_append, ← List.cons_append, List.pairwise_append]
    refine ⟨h.incr, by simp, ?_⟩
    intro a ha b hb
    simp only [List.map_cons, List.map_nil, List.mem_singleton] at hb
    subst hb
    have := h.times_le a ha
    omega

theorem inv_fl {initV : Nat → Val} {prog : List Op} {s : State} (h : Inv initV prog s)
    {sh : Shared} {f : Flusher} (hs : flStep s.nColl s.sh.tick s.fl = some (sh, f)) :
    Inv initV prog { s with sh := sh, fl := f } := by
  obtain ⟨hlog, hpcok⟩ := h.fl
  have key : ∀ (sh : Shared) (f' : Flusher), sh.hist = s.sh.hist → sh.now = s.sh.now + 1 →
      sh.underflow = false → FlusherOk s.nColl sh f' →
      (∀ c idx, sh.refs c idx + s.fl.pins c idx = s.sh.refs c idx + f'.pins c idx) →
      (∀ c idx, s.sh.refs c idx = 0 → (s.sh.hist c).length ≤ idx → sh.refs c idx = 0) →
      Inv initV prog { s with sh := sh, fl := f' } := by
    intro sh f' hh hnow huf hok hrefs hfresh
    have e : Ext s.sh sh := Ext.of_hist_eq hh (by omega)
    refine inv_frame h _ rfl hh hnow huf (fun x hx => (h.rds x hx).ext e) hok ?_ hfresh
    intro c idx
    have h2 := hrefs c idx
    simp only [State.holders]
    omega
  have e0 : Ext s.sh s.sh.tick := Ext.of_hist_eq rfl (by simp)
  unfold flStep at hs
  cases hpc : s.fl.pc with
  | idle =>
    simp only [hpc] at hs
    split at hs
    · cases hs
    · rename_i k htodo
      simp only [Option.some.injEq, Prod.mk.injEq] at hs
      obtain ⟨rfl, rfl⟩ := hs
      refine key _ _ rfl rfl h.uf ⟨fun x hx => (hlog x hx).ext e0, ?_⟩ ?_ (fun c idx h0 _ => h0)
      · simp only [FPcOk]
        exact ⟨Nat.zero_le _, ⟨Nat.le_refl _, by simp, by simp, by simp⟩⟩
      · intro c' i'; simp [Flusher.pins, hpc, pinCount_nil]
  | pinning t0 pins =>
    simp only [hpc] at hs
    rw [hpc] at hpcok
    split at hs
    · rename_i hlt
      simp only [Option.some.injEq, Prod.mk.injEq] at hs
      obtain ⟨rfl, rfl⟩ := hs
      have e : Ext s.sh ((s.sh.tick).incRef pins.length (s.sh.tick.curIdx pins.length)) :=
        Ext.of_hist_eq rfl (by simp)
      refine key _ _ rfl rfl h.uf ⟨fun x hx => (hlog x hx).ext e, ?_⟩ ?_ ?_
      · simp only [FPcOk, List.length_append, List.length_singleton, tick_now, tick_curIdx]
        refine ⟨hlt, hpcok.2.snoc e ?_ (Nat.lt_succ_self _)⟩
        exact ⟨Nat.le_refl _, isCurrentAt_now (h.hist_ne _) (h.pub_le _)⟩
      · intro c' i'
        simp only [Flusher.pins, hpc, incRef_refs, tick_refs, pinCount_snoc]
        omega
      · intro c' i' h0 hle
        have hl : 0 < (s.sh.hist pins.length).length := List.length_pos_iff.2 (h.hist_ne _)
        have : ¬ (pins.length = c' ∧ s.sh.curIdx pins.length = i') := by
          rintro ⟨rfl, rfl⟩; unfold Shared.curIdx at hle; omega
        simp [incRef_refs, h0, one, this]
    · rename_i hge
      simp only [Option.some.injEq, Prod.mk.injEq] at hs
      obtain ⟨rfl, rfl⟩ := hs
      refine key _ _ rfl rfl h.uf ⟨fun x hx => (hlog x hx).ext e0, ?_⟩ ?_ (fun c idx h0 _ => h0)
      · simp only [FPcOk]
        refine ⟨by have := hpcok.1; omega, hpcok.2.ext e0, by simp, ?_⟩
        intro i p x hp hx
        rw [List.getElem?_map, hp] at hx
        simp only [Option.map_some, Option.some.injEq, tick_valAt] at hx
        subst hx
        exact (valOk_valAt (hpcok.2.pin p (List.mem_of_getElem? hp)).2.1).ext e0
      · intro c' i'; simp [Flusher.pins, hpc]
  | unpinning t0 pins vals rest =>
    rw [hpc] at hpcok
    cases rest with
    | nil =>
      simp only [hpc, Option.some.injEq, Prod.mk.injEq] at hs
      obtain ⟨rfl, rfl⟩ := hs
      refine key _ _ rfl rfl h.uf ⟨?_, ?_⟩ ?_ (fun c idx h0 _ => h0)
      · intro x hx
        rcases List.mem_append.1 hx with hx | hx
        · exact (hlog x hx).ext e0
        · simp only [List.mem_singleton] at hx
          subst hx
          refine ⟨hpcok.1, hpcok.2.1.ext e0, hpcok.2.2.ext e0, ?_, Nat.le_refl _⟩
          intro t ht
          have := hpcok.2.1.times_le t ht
          simp only [tick_now]; omega
      · simp [FPcOk]
      · intro c' i'; simp [Flusher.pins, hpc, pinCount_nil]
    | cons p rest =>
      simp only [hpc, Option.some.injEq, Prod.mk.injEq] at hs
      obtain ⟨rfl, rfl⟩ := hs
      have e : Ext s.sh ((s.sh.tick).decRef p.c p.idx) := Ext.of_hist_eq rfl (by simp)
      have hge : ∀ c' i', one p.c p.idx c' i' ≤ s.sh.refs c' i' := by
        intro c' i'
        have h2 := h.refs c' i'
        simp only [State.holders, Flusher.pins, hpc, pinCount_cons] at h2
        omega
      refine key _ _ rfl rfl ?_ ⟨fun x hx => (hlog x hx).ext e, ?_⟩ ?_ ?_
      · have := hge p.c p.idx
        rw [one_self] at this
        have h0 : (s.sh.refs p.c p.idx == 0) = false := by
          have : s.sh.refs p.c p.idx ≠ 0 := by omega
          simpa using this
        simp [h.uf, h0]
      · simp only [FPcOk]
        exact ⟨hpcok.1, hpcok.2.1.ext e, hpcok.2.2.ext e⟩
      · intro c' i'
        have := hge c' i'
        simp only [Flusher.pins, hpc, decRef_refs, tick_refs, pinCount_cons]
        omega
      · intro c' i' h0 _
        simp [decRef_refs, h0]

/-- one step of any thread preserves the invariant -/
theorem inv_step {initV : Nat → Val} {prog : List Op} {s : State} (h : Inv initV prog s)
    (tid : Nat) : Inv initV prog (step s tid) := by
  unfold step
  split
  · split
    · exact h
    · rename_i sh m hs; exact inv_mut h hs
  · split
    · exact h
    · rename_i sh f hs; exact inv_fl h hs
  · split
    · exact h
    · rename_i r hr
      split
      · exact h
      · rename_i sh r' hs; exact inv_rd h hr hs

theorem inv_exec {initV : Nat → Val} {prog : List Op} {s : State} (h : Inv initV prog s)
    (sched : List Nat) : Inv initV prog (exec s sched) := by
  unfold exec
  induction sched generalizing s with
  | nil => exact h
  | cons t l ih => exact ih (inv_step h t)

/-- all reachable states satisfy the invariant -/
theorem inv_run (initV : Nat → Val) (prog : List Op) (nColl nFlush : Nat)
    (rprogs : List (List Nat)) (sched : List Nat) :
    Inv initV prog (run initV prog nColl nFlush rprogs sched) :=
  inv_exec (inv_init initV prog nColl nFlush rprogs) sched

/-! ## The theorems (for all programs, all numbers of readers, all schedules) -/

section main
variable (initV : Nat → Val) (prog : List Op) (nColl nFlush : Nat) (rprogs : List (List Nat))
  (sched : List Nat)

/-! ### 1. no lost update -/

/-- 1a. Whenever the mutator arrives at its rootCAS, the version it pinned is still the current
one: the CAS succeeds. -/
theorem cas_never_fails (c idx : Nat) (v : Val)
    (hpc : (run initV prog nColl nFlush rprogs sched).mu.pc = .built c idx v) :
    idx + 1 = ((run initV prog nColl nFlush rprogs sched).sh.hist c).length := by
  have h := (inv_run initV prog nColl nFlush rprogs sched).mpc
  unfold MutOk at h
  rw [hpc] at h
  obtain ⟨_, _, h, _⟩ := h
  exact h

/-- 1b. The lost-update flag is never set, and the history of every collection is exactly the
sequence of contents produced by the executed prefix (`ncas` operations, `ncas ≤ prog.length`) of
the mutator's program restricted to that collection, in program order. -/
theorem no_lost_update :
    let s := run initV prog nColl nFlush rprogs sched
    s.mu.lost = false ∧ s.mu.ncas ≤ prog.length ∧
    ∀ c, (s.sh.hist c).map Version.val =
      ((prog.take s.mu.ncas).filter (fun op => op.1 == c)).scanl (fun v op => op.2 v) (initV c) := by
  have h := inv_run initV prog nColl nFlush rprogs sched
  refine ⟨h.lost, ?_, h.hist_eq⟩
  have := h.ncas_le
  rw [h.prog_eq] at this
  exact this

/-- 1c (trace validation). The current content of every collection is `worldAt` after the executed
prefix, and every published version is `worldAt` after some shorter prefix. -/
theorem hist_worldAt (c : Nat) :
    let s := run initV prog nColl nFlush rprogs sched
    ((s.sh.hist c).getLast?).map Version.val = some (worldAt initV prog s.mu.ncas c) ∧
    ∀ v ∈ s.sh.hist c, ∃ k, k ≤ s.mu.ncas ∧ v.val = worldAt initV prog k c := by
  have h := inv_run initV prog nColl nFlush rprogs sched
  constructor
  · rw [← List.getLast?_map, h.hist_eq c, valuesUpTo_getLast?]
  · intro v hv
    apply mem_valuesUpTo
    rw [← h.hist_eq c]
    exact List.mem_map_of_mem hv

/-- 1d. When the mutator has finished, every collection holds the result of the whole program. -/
theorem final_contents (c : Nat)
    (hfin : (run initV prog nColl nFlush rprogs sched).mu.finished = true) :
    (((run initV prog nColl nFlush rprogs sched).sh.hist c).getLast?).map Version.val =
      some (worldAt initV prog prog.length c) := by
  have h := inv_run initV prog nColl nFlush rprogs sched
  have h1 := (hist_worldAt initV prog nColl nFlush rprogs sched c).1
  have h2 := h.ncas_le
  rw [h.prog_eq] at h2
  unfold Mut.finished at hfin
  split at hfin
  · simp only [decide_eq_true_eq] at hfin
    rw [h.prog_eq] at hfin
    have : (run initV prog nColl nFlush rprogs sched).mu.ncas = prog.length := by omega
    rw [← this]; exact h1
  · cases hfin

/-! ### 2. readers -/

/-- 2. Every completed read-only call `(c, start, pinTime, idx, result, end)` returned the content
of the single version `idx` of `c`, which was the current version of `c` at the instant `pinTime`
strictly between the call's start and end. -/
theorem read_one_version :
    let s := run initV prog nColl nFlush rprogs sched
    ∀ r ∈ s.rds, ∀ e ∈ r.log,
      e.start < e.pinTime ∧ e.pinTime < e.fin ∧
      IsCurrentAt (s.sh.hist e.c) e.idx e.pinTime ∧
      curAt (s.sh.hist e.c) e.pinTime = e.idx ∧
      ((s.sh.hist e.c)[e.idx]?).map Version.val = some e.result := by
  intro s r hr e he
  have h := ((inv_run initV prog nColl nFlush rprogs sched).rds r hr).1 e he
  exact ⟨h.start_lt, h.pin_lt, h.pin.2, curAt_eq h.pin.2, h.val⟩

/-- 2' (trace validation). Every value returned by a read is the content of the collection after
some prefix of the mutator's program. -/
theorem read_worldAt :
    let s := run initV prog nColl nFlush rprogs sched
    ∀ r ∈ s.rds, ∀ e ∈ r.log, ∃ k, k ≤ s.mu.ncas ∧ e.result = worldAt initV prog k e.c := by
  intro s r hr e he
  have h := ((inv_run initV prog nColl nFlush rprogs sched).rds r hr).1 e he
  have hv : ((s.sh.hist e.c)[e.idx]?).map Version.val = some e.result := h.val
  cases hg : (s.sh.hist e.c)[e.idx]? with
  | none => rw [hg] at hv; cases hv
  | some v =>
    rw [hg] at hv
    simp only [Option.map_some, Option.some.injEq] at hv
    obtain ⟨k, hk, e'⟩ := (hist_worldAt initV prog nColl nFlush rprogs sched e.c).2 v
      (List.mem_of_getElem? hg)
    exact ⟨k, hk, by rw [← hv]; exact e'⟩

/-! ### 3. flushes -/

theorem nColl_step (s : State) (tid : Nat) : (step s tid).nColl = s.nColl := by
  unfold step
  split
  · split <;> rfl
  · split <;> rfl
  · split
    · rfl
    · split <;> rfl

theorem nColl_exec (s : State) (sched : List Nat) : (exec s sched).nColl = s.nColl := by
  unfold exec
  induction sched generalizing s with
  | nil => rfl
  | cons t l ih => exact (ih (step s t)).trans (nColl_step s t)

/-- 3a. Every completed Flush pinned all `nColl` collections, collection `c` at the instant
`pins[c].time`; these instants increase strictly with `c` and lie strictly between the start and the
end of the Flush; the version pinned for `c` was the current one at that instant, and its content is
what was written (`vals[c]`). -/
theorem flush_versions :
    let s := run initV prog nColl nFlush rprogs sched
    ∀ rec ∈ s.fl.log,
      rec.pins.length = nColl ∧ rec.vals.length = nColl ∧
      List.Pairwise (· < ·) (rec.start :: rec.pins.map Pin.time ++ [rec.fin]) ∧
      ∀ c p, rec.pins[c]? = some p →
        p.c = c ∧ IsCurrentAt (s.sh.hist c) p.idx p.time ∧ curAt (s.sh.hist c) p.time = p.idx ∧
        ∃ x, rec.vals[c]? = some x ∧ ((s.sh.hist c)[p.idx]?).map Version.val = some x := by
  intro s rec hrec
  have h := ((inv_run initV prog nColl nFlush rprogs sched).fl).1 rec hrec
  have hn : s.nColl = nColl := nColl_exec _ _
  rw [hn] at h
  refine ⟨h.len, by rw [h.vals.1, h.len], ?_, ?_⟩
  · rw [List.pairwise_append]
    refine ⟨h.pins.incr, by simp, ?_⟩
    intro a ha b hb
    simp only [List.mem_singleton] at hb
    subst hb
    exact h.fin_gt a ha
  · intro c p hp
    have hc := h.pins.coll c p hp
    have hpin := (h.pins.pin p (List.mem_of_getElem? hp)).2
    rw [hc] at hpin
    have hlt : c < rec.vals.length := by
      rw [h.vals.1]; exact (List.getElem?_eq_some_iff.1 hp).1
    refine ⟨hc, hpin, curAt_eq hpin, rec.vals[c], List.getElem?_eq_getElem hlt, ?_⟩
    have := h.vals.2 c p _ hp (List.getElem?_eq_getElem hlt)
    unfold ValOk at this
    rw [hc] at this
    exact this

/-- 3b. Name order: for `c < c'` the Flush captured `c'` later than `c`, and the version of `c'` it
persisted is at least the version `c'` had at the instant `c` was captured (versions only grow): a
later-named collection is never persisted in an older state than it had when an earlier-named one
was captured. -/
theorem flush_order :
    let s := run initV prog nColl nFlush rprogs sched
    ∀ rec ∈ s.fl.log, ∀ c c' p p', c < c' → rec.pins[c]? = some p → rec.pins[c']? = some p' →
      p.time < p'.time ∧ curAt (s.sh.hist c') p.time ≤ p'.idx := by
  intro s rec hrec c c' p p' hcc hp hp'
  have h := ((inv_run initV prog nColl nFlush rprogs sched).fl).1 rec hrec
  have hlt : p.time < p'.time := by
    have hpw := (List.pairwise_cons.1 h.pins.incr).2
    rw [List.pairwise_map] at hpw
    obtain ⟨h1, e1⟩ := List.getElem?_eq_some_iff.1 hp
    obtain ⟨h2, e2⟩ := List.getElem?_eq_some_iff.1 hp'
    have := (List.pairwise_iff_getElem.1 hpw) c c' h1 h2 hcc
    rw [e1, e2] at this
    exact this
  refine ⟨hlt, ?_⟩
  have hc := h.pins.coll c' p' hp'
  have hpin := (h.pins.pin p' (List.mem_of_getElem? hp')).2
  rw [hc] at hpin
  rw [← curAt_eq hpin]
  exact curAt_mono _ (Nat.le_of_lt hlt)

/-! ### 5. reference counts -/

/-- 5a. `refs c idx` = (1 if `idx` is the current version of `c`) + the number of pins held on
`(c, idx)` by all threads. -/
theorem refs_eq (c idx : Nat) :
    let s := run initV prog nColl nFlush rprogs sched
    s.sh.refs c idx = curRef (s.sh.hist c) idx + s.holders c idx :=
  (inv_run initV prog nColl nFlush rprogs sched).refs c idx

/-- 5b. No rootDecRef ever finds `refs = 0`: every unpin is preceded by its pin. -/
theorem no_underflow : (run initV prog nColl nFlush rprogs sched).sh.underflow = false :=
  (inv_run initV prog nColl nFlush rprogs sched).uf

/-- 5c. A pinned version has `refs ≥ 1` (until its unpin, which is the step that ends the pin).
By `Gkv.Versions.safe_reachable` no node of a version with `refs ≥ 1` is ever recycled. -/
theorem pinned_alive (c idx : Nat)
    (hp : 0 < (run initV prog nColl nFlush rprogs sched).holders c idx) :
    1 ≤ (run initV prog nColl nFlush rprogs sched).sh.refs c idx := by
  have := refs_eq initV prog nColl nFlush rprogs sched c idx
  simp only at this
  omega

/-- 5d. The current version always has `refs ≥ 1`. -/
theorem current_alive (c : Nat) :
    1 ≤ (run initV prog nColl nFlush rprogs sched).sh.refs c
      ((run initV prog nColl nFlush rprogs sched).sh.curIdx c) := by
  have h := inv_run initV prog nColl nFlush rprogs sched
  generalize run initV prog nColl nFlush rprogs sched = s at h ⊢
  have h1 := h.refs c (s.sh.curIdx c)
  have hl : 0 < (s.sh.hist c).length := List.length_pos_iff.2 (h.hist_ne c)
  have : curRef (s.sh.hist c) (s.sh.curIdx c) = 1 := by
    unfold curRef Shared.curIdx
    rw [if_pos (by omega)]
  omega

end main

/-- which `(c, idx)` each thread state holds: a reader between its pin and its unpin -/
theorem reader_holds {s : State} {r : Reader} {i : Nat} (hr : s.rds[i]? = some r) {c idx : Nat}
    (hpc : (∃ t0 tp, r.pc = .pinned c t0 tp idx) ∨ (∃ t0 tp res, r.pc = .got c t0 tp idx res)) :
    0 < s.holders c idx := by
  have h1 : r.pins c idx ≤ (s.rds.map fun r : Reader => r.pins c idx).sum :=
    le_sum_map (fun r : Reader => r.pins c idx) s.rds i r hr
  have h2 : r.pins c idx = 1 := by
    rcases hpc with ⟨t0, tp, e⟩ | ⟨t0, tp, res, e⟩ <;> simp [Reader.pins, e, one_self]
  unfold State.holders
  omega

/-- the mutator between its pin and its unpin -/
theorem mut_holds {s : State} {c idx : Nat}
    (hpc : (∃ f, s.mu.pc = .pinned c f idx) ∨ (∃ v, s.mu.pc = .built c idx v) ∨
      s.mu.pc = .casDone c idx) : 0 < s.holders c idx := by
  have h2 : s.mu.pins c idx = 1 := by
    rcases hpc with ⟨f, e⟩ | ⟨v, e⟩ | e <;> simp [Mut.pins, e, one_self]
  unfold State.holders
  omega

theorem pinCount_pos {l : List Pin} {p : Pin} (hp : p ∈ l) : 0 < pinCount l p.c p.idx := by
  induction l with
  | nil => cases hp
  | cons a l ih =>
    rw [pinCount_cons]
    rcases List.mem_cons.1 hp with rfl | hp
    · rw [one_self]; omega
    · have := ih hp; omega

/-- the flusher: every pin taken and not yet released -/
theorem flusher_holds {s : State} {p : Pin}
    (hpc : (∃ t0 pins, s.fl.pc = .pinning t0 pins ∧ p ∈ pins) ∨
      (∃ t0 pins vals rest, s.fl.pc = .unpinning t0 pins vals rest ∧ p ∈ rest)) :
    0 < s.holders p.c p.idx := by
  have h2 : 0 < s.fl.pins p.c p.idx := by
    rcases hpc with ⟨t0, pins, e, hm⟩ | ⟨t0, pins, vals, rest, e, hm⟩ <;>
      simp only [Flusher.pins, e] <;> exact pinCount_pos hm
  unfold State.holders
  omega

/-! ### 4. progress: no step ever blocks -/

theorem mut_progress (sh : Shared) (m : Mut) :
    (m.finished = true ∧ mutStep sh m = none) ∨
    (m.finished = false ∧ ∃ sh' m', mutStep sh m = some (sh', m') ∧ m'.measure < m.measure ∧
      sh'.now = sh.now) := by
  unfold Mut.finished mutStep
  cases hpc : m.pc with
  | idle =>
    simp only
    by_cases hle : m.prog.length ≤ m.ncas
    · left
      rw [List.getElem?_eq_none hle]
      exact ⟨by simpa using hle, rfl⟩
    · right
      have hlt : m.ncas < m.prog.length := by omega
      rw [List.getElem?_eq_getElem hlt]
      refine ⟨by simpa using hle, _, _, rfl, ?_, rfl⟩
      simp only [Mut.measure, hpc]
      omega
  | pinned c f idx =>
    right
    refine ⟨rfl, _, _, rfl, ?_, rfl⟩
    simp only [Mut.measure, hpc]
    omega
  | built c idx v =>
    right
    simp only
    split
    · refine ⟨trivial, _, _, rfl, ?_, rfl⟩
      simp only [Mut.measure, hpc]
      omega
    · refine ⟨trivial, _, _, rfl, ?_, rfl⟩
      simp only [Mut.measure, hpc]
      omega
  | casDone c idx =>
    right
    refine ⟨rfl, _, _, rfl, ?_, rfl⟩
    simp only [Mut.measure, hpc]
    omega

theorem rd_progress (sh : Shared) (r : Reader) :
    (r.finished = true ∧ rdStep sh r = none) ∨
    (r.finished = false ∧ ∃ sh' r', rdStep sh r = some (sh', r') ∧ r'.measure < r.measure ∧
      sh'.now = sh.now) := by
  unfold Reader.finished rdStep
  cases hpc : r.pc with
  | idle =>
    cases hprog : r.prog with
    | nil => left; exact ⟨rfl, rfl⟩
    | cons c rest =>
      right
      refine ⟨rfl, _, _, rfl, ?_, rfl⟩
      simp only [Reader.measure, hpc, hprog, List.length_cons]
      omega
  | started c t0 =>
    right
    refine ⟨rfl, _, _, rfl, ?_, rfl⟩
    simp only [Reader.measure, hpc]
    omega
  | pinned c t0 tp idx =>
    right
    refine ⟨rfl, _, _, rfl, ?_, rfl⟩
    simp only [Reader.measure, hpc]
    omega
  | got c t0 tp idx res =>
    right
    refine ⟨rfl, _, _, rfl, ?_, rfl⟩
    simp only [Reader.measure, hpc]
    omega
  | unpinned c t0 tp idx res =>
    right
    refine ⟨rfl, _, _, rfl, ?_, rfl⟩
    simp only [Reader.measure, hpc]
    omega

theorem fl_progress (n : Nat) (sh : Shared) (f : Flusher) :
    (f.finished = true ∧ flStep n sh f = none) ∨
    (f.finished = false ∧ ∃ sh' f', flStep n sh f = some (sh', f') ∧ f'.measure n < f.measure n ∧
      sh'.now = sh.now) := by
  unfold Flusher.finished flStep
  cases hpc : f.pc with
  | idle =>
    cases htodo : f.todo with
    | zero => left; exact ⟨rfl, rfl⟩
    | succ k =>
      right
      refine ⟨rfl, _, _, rfl, ?_, rfl⟩
      simp only [Flusher.measure, hpc, htodo, List.length_nil]
      rw [Nat.add_one_mul k]
      omega
  | pinning t0 pins =>
    right
    simp only
    split
    · refine ⟨trivial, _, _, rfl, ?_, rfl⟩
      simp only [Flusher.measure, hpc, List.length_append, List.length_singleton]
      omega
    · refine ⟨trivial, _, _, rfl, ?_, rfl⟩
      simp only [Flusher.measure, hpc]
      omega
  | unpinning t0 pins vals rest =>
    right
    cases rest with
    | nil =>
      refine ⟨rfl, _, _, rfl, ?_, rfl⟩
      simp only [Flusher.measure, hpc, List.length_nil]
      omega
    | cons p rest =>
      refine ⟨rfl, _, _, rfl, ?_, rfl⟩
      simp only [Flusher.measure, hpc, List.length_cons]
      omega

/-- 4a. No step ever blocks: a step of a finished (or unknown) thread is a no-op; a step of any
thread that has not finished its program is enabled, advances the clock, and strictly decreases the
number of remaining steps. -/
theorem progress (s : State) (tid : Nat) :
    (s.finished tid = true ∧ step s tid = s) ∨
    (s.finished tid = false ∧ (step s tid).measure < s.measure ∧
      (step s tid).sh.now = s.sh.now + 1) := by
  unfold State.finished step
  split
  · rcases mut_progress s.sh.tick s.mu with ⟨hf, hs⟩ | ⟨hf, sh', m', hs, hm, hn⟩
    · left; rw [hs]; exact ⟨hf, rfl⟩
    · right; rw [hs]
      refine ⟨hf, ?_, by simpa using hn⟩
      simp only [State.measure]; omega
  · rcases fl_progress s.nColl s.sh.tick s.fl with ⟨hf, hs⟩ | ⟨hf, sh', f', hs, hm, hn⟩
    · left; rw [hs]; exact ⟨hf, rfl⟩
    · right; rw [hs]
      refine ⟨hf, ?_, by simpa using hn⟩
      simp only [State.measure]; omega
  · rename_i i
    cases hr : s.rds[i]? with
    | none => left; exact ⟨rfl, rfl⟩
    | some r =>
      simp only
      rcases rd_progress s.sh.tick r with ⟨hf, hs⟩ | ⟨hf, sh', r', hs, hm, hn⟩
      · left; rw [hs]; exact ⟨hf, rfl⟩
      · right; rw [hs]
        refine ⟨hf, ?_, by simpa using hn⟩
        have := sum_map_set Reader.measure s.rds i r r' hr
        simp only [State.measure]; omega

/-- a step never increases the measure; it changes the state only by decreasing it -/
theorem step_eq_or_lt (s : State) (tid : Nat) : step s tid = s ∨ (step s tid).measure < s.measure := by
  rcases progress s tid with ⟨_, h⟩ | ⟨_, h, _⟩
  · exact Or.inl h
  · exact Or.inr h

theorem exec_eq_or_lt (s : State) (sched : List Nat) :
    exec s sched = s ∨ (exec s sched).measure < s.measure := by
  unfold exec
  induction sched generalizing s with
  | nil => exact Or.inl rfl
  | cons t l ih =>
    simp only [List.foldl_cons]
    rcases step_eq_or_lt s t with h | h
    · rw [h]; exact ih s
    · right
      rcases ih (step s t) with h' | h'
      · rw [h']; exact h
      · exact Nat.lt_trans h' h

theorem exec_measure_le (s : State) (sched : List Nat) : (exec s sched).measure ≤ s.measure := by
  rcases exec_eq_or_lt s sched with h | h
  · rw [h]; exact Nat.le_refl _
  · exact Nat.le_of_lt h

theorem exec_append (s : State) (a b : List Nat) : exec s (a ++ b) = exec (exec s a) b := by
  simp [exec, List.foldl_append]

theorem nThreads_step (s : State) (tid : Nat) : (step s tid).nThreads = s.nThreads := by
  unfold step State.nThreads
  split
  · split <;> rfl
  · split <;> rfl
  · split
    · rfl
    · split
      · rfl
      · simp

theorem nThreads_exec (s : State) (sched : List Nat) : (exec s sched).nThreads = s.nThreads := by
  unfold exec
  induction sched generalizing s with
  | nil => rfl
  | cons t l ih => exact (ih (step s t)).trans (nThreads_step s t)

theorem finished_of_ge (s : State) {tid : Nat} (h : s.nThreads ≤ tid) : s.finished tid = true := by
  unfold State.nThreads at h
  unfold State.finished
  split
  · omega
  · omega
  · rename_i i
    rw [List.getElem?_eq_none (by omega)]

/-- 4b. No deadlock: in every state in which some thread has not finished, some thread (one of the
`nThreads` existing ones) can take a step that makes progress. -/
theorem no_deadlock (s : State) (h : ¬ s.allFinished) :
    ∃ tid, tid < s.nThreads ∧ s.finished tid = false ∧ (step s tid).measure < s.measure := by
  obtain ⟨tid, ht⟩ := Classical.not_forall.1 h
  have hf : s.finished tid = false := by simpa using ht
  refine ⟨tid, ?_, hf, ?_⟩
  · rcases Nat.lt_or_ge tid s.nThreads with h' | h'
    · exact h'
    · rw [finished_of_ge s h'] at hf; cases hf
  · rcases progress s tid with ⟨h', _⟩ | ⟨_, h', _⟩
    · rw [hf] at h'; cases h'
    · exact h'

/-- the measure counts real work: when it is zero everything is finished -/
theorem allFinished_of_measure_zero (s : State) (h : s.measure = 0) : s.allFinished := by
  intro tid
  rcases progress s tid with ⟨h', _⟩ | ⟨_, h', _⟩
  · exact h'
  · omega

theorem exec_of_allFinished (s : State) (h : s.allFinished) (sched : List Nat) : exec s sched = s := by
  unfold exec
  induction sched with
  | nil => rfl
  | cons t l ih =>
    simp only [List.foldl_cons]
    rcases progress s t with ⟨_, h'⟩ | ⟨h', _⟩
    · rw [h']; exact ih
    · rw [h t] at h'; cases h'

/-- a round in which every existing thread is scheduled at least once makes progress -/
theorem round_progress (s : State) (round : List Nat) (hall : ∀ tid, tid < s.nThreads → tid ∈ round)
    (h : ¬ s.allFinished) : (exec s round).measure < s.measure := by
  obtain ⟨tid, hlt, _, hm⟩ := no_deadlock s h
  obtain ⟨a, b, rfl⟩ := List.append_of_mem (hall tid hlt)
  rw [exec_append]
  rcases exec_eq_or_lt s a with ha | ha
  · rw [ha]
    have : exec s (tid :: b) = exec (step s tid) b := rfl
    rw [this]
    exact Nat.lt_of_le_of_lt (exec_measure_le _ _) hm
  · exact Nat.lt_of_le_of_lt (exec_measure_le _ _) ha

/-- 4c. Every fair schedule finishes: a schedule made of at least `measure s` rounds, each of which
schedules every thread at least once (in any order, with any repetitions and any unknown ids),
leads to a state in which all threads have completed their programs. -/
theorem fair_finishes (rounds : List (List Nat)) (s : State)
    (hall : ∀ round ∈ rounds, ∀ tid, tid < s.nThreads → tid ∈ round)
    (hlen : s.measure ≤ rounds.length) : (exec s rounds.flatten).allFinished := by
  induction rounds generalizing s with
  | nil =>
    simp only [List.length_nil, Nat.le_zero_eq] at hlen
    exact allFinished_of_measure_zero s hlen
  | cons r rs ih =>
    rw [List.flatten_cons, exec_append]
    by_cases hfin : s.allFinished
    · rw [exec_of_allFinished s hfin, exec_of_allFinished s hfin]; exact hfin
    · have hlt := round_progress s r (hall r List.mem_cons_self) hfin
      apply ih
      · intro round hr tid ht
        rw [nThreads_exec] at ht
        exact hall round (List.mem_cons_of_mem _ hr) tid ht
      · simp only [List.length_cons] at hlen
        omega

/-- 4d. In particular the round-robin schedule finishes every program. -/
theorem round_robin_finishes (s : State) :
    (exec s (List.replicate s.measure (List.range s.nThreads)).flatten).allFinished := by
  apply fair_finishes
  · intro round hr tid ht
    rw [(List.mem_replicate.1 hr).2]
    exact List.mem_range.2 ht
  · simp

/-! ## Non-vacuity: a concrete run

Two collections (initial contents 0 and 1), the mutator program `c0 += 1 ; c1 += 10 ; c0 *= 2`,
two readers (reader 0 reads collection 0, reader 1 reads collection 1) and one Flush.
In the schedule below reader 0 (thread 2) starts and pins version 0 of collection 0 at time 2, the
mutator then publishes version 1 of collection 0 at time 5, the flusher pins collection 0
(version 1, time 7) and collection 1 (version 0, time 9), and only at time 11 reader 0 reads: it
returns the content 0 of the old version 0 although version 1 (content 1) has existed since time 5.
Collection 1 changes (time 16) after the Flush captured it but before the Flush ends (time 29). -/

namespace Example

def prog : List Op := [(0, (· + 1)), (1, (· + 10)), (0, (· * 2))]
def sched : List Nat :=
  [2, 2, 0, 0, 0, 1, 1, 0, 1, 1, 2, 2, 2, 0, 0, 0, 0, 3, 3, 3, 3, 3, 0, 0, 0, 0, 1, 1, 1, 1, 0]
def final : State := run (fun c => c) prog 2 1 [[0], [1]] sched

-- the histories: contents and publication times
example : final.sh.hist 0 = [⟨0, 0⟩, ⟨1, 5⟩, ⟨2, 25⟩] := by decide
example : final.sh.hist 1 = [⟨1, 0⟩, ⟨11, 16⟩] := by decide
-- reader 0 returned the old version 0 (content 0) at a time (11..13) when version 1 existed (since 5)
example : final.rds.map (·.log) =
    [[⟨0, 1, 2, 0, 0, 13⟩], [⟨1, 18, 19, 1, 11, 22⟩]] := by decide
-- halfway: reader 0 still holds its pin on version 0 while version 1 is already current,
-- and version 0 is kept alive by that pin alone (refs = 1), version 1 has the current reference
-- plus the flusher's pin
example : let s := run (fun c => c) prog 2 1 [[0], [1]] (sched.take 10)
    (s.sh.hist 0).length = 2 ∧ s.holders 0 0 = 1 ∧ s.sh.refs 0 0 = 1 ∧ s.sh.refs 0 1 = 2 := by
  decide
-- the Flush persisted (c0 = 1, c1 = 1): version 1 of c0 (pinned at 7), version 0 of c1 (pinned at 9)
example : final.fl.log = [⟨6, [⟨0, 7, 1⟩, ⟨1, 9, 0⟩], [1, 1], 29⟩] := by decide
-- no lost update, no underflow, everything finished, final reference counts
example : final.mu.lost = false ∧ final.sh.underflow = false ∧ final.mu.ncas = 3 ∧
    final.measure = 0 := by decide
example : (List.range 3).map (final.sh.refs 0) = [0, 0, 1] ∧
    (List.range 2).map (final.sh.refs 1) = [0, 1] := by decide
-- trace validation data
example : (List.range 4).map (fun k => (worldAt (fun c => c) prog k 0, worldAt (fun c => c) prog k 1))
    = [(0, 1), (1, 1), (1, 11), (2, 11)] := by decide
example : curAt (final.sh.hist 0) 7 = 1 ∧ curAt (final.sh.hist 1) 7 = 0 ∧
    curAt (final.sh.hist 1) 20 = 1 := by decide

end Example

end Gkv.Conc

/-! ## Axiom audit -/
section
open Gkv.Conc
#print axioms inv_run
#print axioms cas_never_fails
#print axioms no_lost_update
#print axioms hist_worldAt
#print axioms final_contents
#print axioms read_one_version
#print axioms read_worldAt
#print axioms flush_versions
#print axioms flush_order
#print axioms refs_eq
#print axioms no_underflow
#print axioms pinned_alive
#print axioms current_alive
#print axioms reader_holds
#print axioms mut_holds
#print axioms flusher_holds
#print axioms progress
#print axioms no_deadlock
#print axioms allFinished_of_measure_zero
#print axioms round_progress
#print axioms fair_finishes
#print axioms round_robin_finishes
#print axioms curAt_eq
#print axioms curAt_mono
end

/-
Output of the `#print axioms` commands above (Lean 4.33.0):

'Gkv.Conc.inv_run' depends on axioms: [propext, Classical.choice, Quot.sound]
'Gkv.Conc.cas_never_fails' depends on axioms: [propext, Classical.choice, Quot.sound]
'Gkv.Conc.no_lost_update' depends on axioms: [propext, Classical.choice, Quot.sound]
'Gkv.Conc.hist_worldAt' depends on axioms: [propext, Classical.choice, Quot.sound]
'Gkv.Conc.final_contents' depends on axioms: [propext, Classical.choice, Quot.sound]
'Gkv.Conc.read_one_version' depends on axioms: [propext, Classical.choice, Quot.sound]
'Gkv.Conc.read_worldAt' depends on axioms: [propext, Classical.choice, Quot.sound]
'Gkv.Conc.flush_versions' depends on axioms: [propext, Classical.choice, Quot.sound]
'Gkv.Conc.flush_order' depends on axioms: [propext, Classical.choice, Quot.sound]
'Gkv.Conc.refs_eq' depends on axioms: [propext, Classical.choice, Quot.sound]
'Gkv.Conc.no_underflow' depends on axioms: [propext, Classical.choice, Quot.sound]
'Gkv.Conc.pinned_alive' depends on axioms: [propext, Classical.choice, Quot.sound]
'Gkv.Conc.current_alive' depends on axioms: [propext, Classical.choice, Quot.sound]
'Gkv.Conc.reader_holds' depends on axioms: [propext, Quot.sound]
'Gkv.Conc.mut_holds' depends on axioms: [propext, Quot.sound]
'Gkv.Conc.flusher_holds' depends on axioms: [propext, Quot.sound]
'Gkv.Conc.progress' depends on axioms: [propext, Quot.sound]
'Gkv.Conc.no_deadlock' depends on axioms: [propext, Classical.choice, Quot.sound]
'Gkv.Conc.allFinished_of_measure_zero' depends on axioms: [propext, Quot.sound]
'Gkv.Conc.round_progress' depends on axioms: [propext, Classical.choice, Quot.sound]
'Gkv.Conc.fair_finishes' depends on axioms: [propext, Classical.choice, Quot.sound]
'Gkv.Conc.round_robin_finishes' depends on axioms: [propext, Classical.choice, Quot.sound]
'Gkv.Conc.curAt_eq' depends on axioms: [propext, Classical.choice, Quot.sound]
'Gkv.Conc.curAt_mono' depends on axioms: [propext, Quot.sound]
-/
