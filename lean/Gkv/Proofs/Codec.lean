/-
Round-trip theorems for the byte-level format of `Gkv.Model.Codec`.
-/
import Gkv.Model.Codec
open Std

namespace Gkv

/-! ### big-endian integers -/

theorem be_length (w n : Nat) : (be w n).length = w := by
  induction w generalizing n with
  | zero => simp [be]
  | succ w ih => simp [be, ih]

theorem unbe_snoc (a : Bytes) (x : UInt8) : unbe (a ++ [x]) = unbe a * 256 + x.toNat := by
  simp [unbe, List.foldl_append]

theorem unbe_be (w n : Nat) (h : n < 256 ^ w) : unbe (be w n) = n := by
  induction w generalizing n with
  | zero =>
    simp at h
    simp [be, unbe, h]
  | succ w ih =>
    have h1 : n / 256 < 256 ^ w := by
      rw [Nat.pow_succ] at h
      omega
    rw [be, unbe_snoc, ih _ h1, UInt8.toNat_ofNat']
    omega

/-! ### files -/

theorem readAt_append (f g : Bytes) (off len : Nat) (b : Bytes) (h : readAt f off len = some b) :
    readAt (f ++ g) off len = some b := by
  unfold readAt at h ⊢
  split at h
  · rename_i hle
    have h2 : off + len ≤ (f ++ g).length := by simp; omega
    rw [if_pos h2]
    rw [← h]
    congr 1
    rw [List.drop_append_of_le_length (by omega)]
    rw [List.take_append_of_le_length (by simp; omega)]
  · cases h

theorem readAt_mid (a b c : Bytes) : readAt (a ++ b ++ c) a.length b.length = some b := by
  unfold readAt
  rw [if_pos (by simp)]
  simp [List.append_assoc]

theorem readAt_writeAt_end (f b : Bytes) :
    readAt (writeAt f f.length b) f.length b.length = some b := by
  have : writeAt f f.length b = f ++ b ++ [] := by
    unfold writeAt
    rw [List.take_length, List.drop_eq_nil_of_le (by omega)]
  rw [this]
  exact readAt_mid f b []

/-- the slice of `a ++ b ++ c` where `b` sits -/
theorem slice_mid (a b c : Bytes) (n m : Nat) (ha : a.length = n) (hb : b.length = m) :
    ((a ++ b ++ c).drop n).take m = b := by
  subst ha hb
  simp [List.append_assoc]

theorem slice_fst (b c : Bytes) (m : Nat) (hb : b.length = m) : (b ++ c).take m = b := by
  subst hb; simp

theorem slice_last (a b : Bytes) (n m : Nat) (ha : a.length = n) (hb : b.length = m) :
    ((a ++ b).drop n).take m = b := by
  subst ha hb; simp

/-! ### plocs -/

theorem encPloc_length (p : Option Ploc) : (encPloc p).length = 12 := by
  cases p <;> simp [encPloc, be_length]

theorem decPloc_be (o l : Nat) (ho : o < 2^64) (hl : l < 2^32) :
    decPloc (be 8 o ++ be 4 l) = if o = 0 ∧ l = 0 then none else some ⟨o, l⟩ := by
  unfold decPloc
  rw [slice_fst _ _ 8 (be_length 8 o), slice_last _ _ 8 4 (be_length 8 o) (be_length 4 l)]
  rw [unbe_be 8 o (by omega), unbe_be 4 l (by omega)]

theorem decPloc_encPloc (p : Option Ploc)
    (hp : ∀ q, p = some q → q.off < 2^64 ∧ q.len < 2^32 ∧ ¬ (q.off = 0 ∧ q.len = 0)) :
    decPloc (encPloc p) = p := by
  cases p with
  | none =>
    unfold encPloc
    rw [decPloc_be 0 0 (by omega) (by omega)]
    simp
  | some q =>
    obtain ⟨h1, h2, h3⟩ := hp q rfl
    unfold encPloc
    rw [decPloc_be _ _ h1 h2, if_neg h3]

/-! ### node records -/

theorem encNode_length (n : NodeRec) : (encNode n).length = nodeRecLen := by
  simp [encNode, encPloc_length, be_length, nodeRecLen]

theorem decNodeBytes_encNode (n : NodeRec)
    (hi : ∀ q, n.item = some q → q.off < 2^64 ∧ q.len < 2^32 ∧ ¬ (q.off = 0 ∧ q.len = 0))
    (hl : ∀ q, n.left = some q → q.off < 2^64 ∧ q.len < 2^32 ∧ ¬ (q.off = 0 ∧ q.len = 0))
    (hr : ∀ q, n.right = some q → q.off < 2^64 ∧ q.len < 2^32 ∧ ¬ (q.off = 0 ∧ q.len = 0))
    (hn : n.nn < 2^64) (hb : n.nb < 2^64) : decNodeBytes (encNode n) = n := by
  obtain ⟨it, le, ri, nn, nb⟩ := n
  simp only at hi hl hr hn hb
  unfold decNodeBytes encNode
  simp only
  have e1 : (encPloc it ++ encPloc le ++ encPloc ri ++ be 8 nn ++ be 8 nb).take 12 = encPloc it := by
    simp only [List.append_assoc]
    exact slice_fst _ _ 12 (encPloc_length _)
  have e2 : ((encPloc it ++ encPloc le ++ encPloc ri ++ be 8 nn ++ be 8 nb).drop 12).take 12
      = encPloc le := by
    have : encPloc it ++ encPloc le ++ encPloc ri ++ be 8 nn ++ be 8 nb
        = encPloc it ++ encPloc le ++ (encPloc ri ++ be 8 nn ++ be 8 nb) := by
      simp only [List.append_assoc]
    rw [this]
    exact slice_mid _ _ _ 12 12 (encPloc_length _) (encPloc_length _)
  have e3 : ((encPloc it ++ encPloc le ++ encPloc ri ++ be 8 nn ++ be 8 nb).drop 24).take 12
      = encPloc ri := by
    have : encPloc it ++ encPloc le ++ encPloc ri ++ be 8 nn ++ be 8 nb
        = (encPloc it ++ encPloc le) ++ encPloc ri ++ (be 8 nn ++ be 8 nb) := by
      simp only [List.append_assoc]
    rw [this]
    exact slice_mid _ _ _ 24 12 (by simp [encPloc_length]) (encPloc_length _)
  have e4 : ((encPloc it ++ encPloc le ++ encPloc ri ++ be 8 nn ++ be 8 nb).drop 36).take 8
      = be 8 nn := by
    exact slice_mid _ _ _ 36 8 (by simp [encPloc_length]) (be_length _ _)
  have e5 : ((encPloc it ++ encPloc le ++ encPloc ri ++ be 8 nn ++ be 8 nb).drop 44).take 8
      = be 8 nb := by
    exact slice_last _ _ 44 8 (by simp [encPloc_length, be_length]) (be_length _ _)
  rw [e1, e2, e3, e4, e5, decPloc_encPloc _ hi, decPloc_encPloc _ hl, decPloc_encPloc _ hr,
    unbe_be 8 nn (by omega), unbe_be 8 nb (by omega)]

theorem decNode_at (pre post : Bytes) (n : NodeRec)
    (hi : ∀ q, n.item = some q → q.off < 2^64 ∧ q.len < 2^32 ∧ ¬ (q.off = 0 ∧ q.len = 0))
    (hl : ∀ q, n.left = some q → q.off < 2^64 ∧ q.len < 2^32 ∧ ¬ (q.off = 0 ∧ q.len = 0))
    (hr : ∀ q, n.right = some q → q.off < 2^64 ∧ q.len < 2^32 ∧ ¬ (q.off = 0 ∧ q.len = 0))
    (hn : n.nn < 2^64) (hb : n.nb < 2^64) :
    decNode (pre ++ encNode n ++ post) ⟨pre.length, nodeRecLen⟩ = some n := by
  have h := readAt_mid pre (encNode n) post
  rw [encNode_length] at h
  unfold decNode
  simp only [ne_eq, not_true_eq_false, if_false, h]
  simp [decNodeBytes_encNode n hi hl hr hn hb]

/-! ### item records -/

theorem readAt_mid' (a b c : Bytes) (n m : Nat) (ha : a.length = n) (hb : b.length = m) :
    readAt (a ++ b ++ c) n m = some b := by
  subst ha hb; exact readAt_mid a b c

theorem encItem_length (i : Item) : (encItem i).length = itemRecLen i := by
  simp [encItem, encItemHdrKey, be_length, itemRecLen, itemHdrLen]
  omega

theorem decItem_at (pre post : Bytes) (i : Item)
    (hk : i.key.length < 2^32) (hv : i.val.length < 2^32) (hp : i.prio < 2^32)
    (ht : itemHdrLen + i.key.length + i.val.length < 2^32) :
    decItem (pre ++ encItem i ++ post) ⟨pre.length, itemRecLen i⟩ = some i := by
  obtain ⟨key, val, prio⟩ := i
  simp only [itemHdrLen] at hk hv hp ht
  let hdr : Bytes := be 4 (16 + key.length + val.length) ++ be 4 key.length ++ be 4 val.length ++
    be 4 prio
  have hhl : hdr.length = 16 := by simp [hdr, be_length]
  have r1 : readAt (pre ++ encItem ⟨key, val, prio⟩ ++ post) pre.length 16 = some hdr := by
    have : pre ++ encItem ⟨key, val, prio⟩ ++ post = pre ++ hdr ++ (key ++ val ++ post) := by
      simp only [encItem, encItemHdrKey, itemHdrLen, hdr, List.append_assoc]
    rw [this]
    exact readAt_mid' _ _ _ _ _ rfl hhl
  have r2 : readAt (pre ++ encItem ⟨key, val, prio⟩ ++ post) (pre.length + 16) key.length
      = some key := by
    have : pre ++ encItem ⟨key, val, prio⟩ ++ post = (pre ++ hdr) ++ key ++ (val ++ post) := by
      simp only [encItem, encItemHdrKey, itemHdrLen, hdr, List.append_assoc]
    rw [this]
    exact readAt_mid' _ _ _ _ _ (by simp [hhl]) rfl
  have r3 : readAt (pre ++ encItem ⟨key, val, prio⟩ ++ post) (pre.length + 16 + key.length)
      val.length = some val := by
    have : pre ++ encItem ⟨key, val, prio⟩ ++ post = (pre ++ hdr ++ key) ++ val ++ post := by
      simp only [encItem, encItemHdrKey, itemHdrLen, hdr, List.append_assoc]
    rw [this]
    exact readAt_mid' _ _ _ _ _ (by simp [hhl]; omega) rfl
  have f1 : hdr.take 4 = be 4 (16 + key.length + val.length) := by
    simp only [hdr, List.append_assoc]
    exact slice_fst _ _ 4 (be_length _ _)
  have f2 : (hdr.drop 4).take 4 = be 4 key.length := by
    have : hdr = be 4 (16 + key.length + val.length) ++ be 4 key.length ++
        (be 4 val.length ++ be 4 prio) := by
      simp only [hdr, List.append_assoc]
    rw [this]
    exact slice_mid _ _ _ 4 4 (be_length _ _) (be_length _ _)
  have f3 : (hdr.drop 8).take 4 = be 4 val.length := by
    exact slice_mid _ _ _ 8 4 (by simp [be_length]) (be_length _ _)
  have f4 : (hdr.drop 12).take 4 = be 4 prio := by
    exact slice_last _ _ 12 4 (by simp [be_length]) (be_length _ _)
  unfold decItem
  simp only [itemRecLen, itemHdrLen, r1]
  rw [if_neg (by omega)]
  simp only [Option.bind_eq_bind, Option.bind_some, f1, f2, f3, f4, unbe_be 4 _ ht, unbe_be 4 _ hk,
    unbe_be 4 _ hv, unbe_be 4 _ hp]
  rw [if_neg (by omega)]
  simp only [r2, r3, Option.bind_some]

/-! ### JSON: numbers -/

theorem digit_toNat (d : Nat) (h : d < 10) : (UInt8.ofNat (48 + d)).toNat = 48 + d := by
  rw [UInt8.toNat_ofNat']; omega

theorem digit_isDigit (d : Nat) (h : d < 10) :
    48 ≤ UInt8.ofNat (48 + d) ∧ UInt8.ofNat (48 + d) ≤ 57 := by
  rw [UInt8.le_iff_toNat_le, UInt8.le_iff_toNat_le, digit_toNat d h]
  simp
  omega

theorem natDigits_ne_nil (n : Nat) : natDigits n ≠ [] := by
  unfold natDigits
  split <;> simp

theorem natDigits_digits (n : Nat) : ∀ c ∈ natDigits n, 48 ≤ c ∧ c ≤ 57 := by
  induction n using Nat.strongRecOn with
  | _ n ih =>
    unfold natDigits
    split
    · rename_i h
      intro c hc
      simp only [List.mem_singleton] at hc
      subst hc
      exact digit_isDigit n h
    · rename_i h
      intro c hc
      rw [List.mem_append] at hc
      rcases hc with hc | hc
      · exact ih (n / 10) (by omega) c hc
      · simp only [List.mem_singleton] at hc
        subst hc
        exact digit_isDigit (n % 10) (by omega)

theorem natDigits_val (n : Nat) :
    (natDigits n).foldl (fun acc c => acc * 10 + (c.toNat - 48)) 0 = n := by
  induction n using Nat.strongRecOn with
  | _ n ih =>
    unfold natDigits
    split
    · rename_i h
      simp only [List.foldl_cons, List.foldl_nil, digit_toNat n h]
      omega
    · rename_i h
      rw [List.foldl_append, ih (n / 10) (by omega)]
      simp only [List.foldl_cons, List.foldl_nil, digit_toNat (n % 10) (by omega)]
      omega

theorem takeWhile_append_stop {α} (p : α → Bool) (a rest : List α) (ha : ∀ c ∈ a, p c = true)
    (hr : ∀ c, rest.head? = some c → p c = false) : (a ++ rest).takeWhile p = a := by
  induction a with
  | nil =>
    cases rest with
    | nil => rfl
    | cons c r => simp [hr c rfl]
  | cons x a ih =>
    have hx := ha x (by simp)
    simp only [List.cons_append, List.takeWhile_cons, hx, if_true]
    rw [ih (fun c hc => ha c (by simp [hc]))]

theorem parseNat_natDigits (n : Nat) (rest : Bytes)
    (hr : ∀ c, rest.head? = some c → ¬ (48 ≤ c ∧ c ≤ 57)) :
    parseNat (natDigits n ++ rest) = (n, rest, (natDigits n).length) := by
  have htw : (natDigits n ++ rest).takeWhile (fun c => decide (48 ≤ c ∧ c ≤ 57)) = natDigits n := by
    apply takeWhile_append_stop
    · intro c hc
      exact decide_eq_true (natDigits_digits n c hc)
    · intro c hc
      exact decide_eq_false (hr c hc)
  unfold parseNat
  simp only [htw, natDigits_val, List.drop_left]

/-! ### JSON: plocs -/

theorem expect_append (p r : Bytes) : expect p (p ++ r) = some r := by
  unfold expect
  rw [if_pos (by simp [List.isPrefixOf_iff_prefix])]
  simp

theorem parsePloc_digits (o l : Nat) (rest : Bytes) :
    parsePloc (jsonO ++ (natDigits o ++ (jsonL ++ (natDigits l ++ ([125] ++ rest))))) =
      some ((if o = 0 ∧ l = 0 then none else some ⟨o, l⟩), rest) := by
  have h1 : parseNat (natDigits o ++ (jsonL ++ (natDigits l ++ ([125] ++ rest)))) =
      (o, jsonL ++ (natDigits l ++ ([125] ++ rest)), (natDigits o).length) := by
    apply parseNat_natDigits
    intro c hc
    simp only [jsonL, List.cons_append, List.head?_cons, Option.some.injEq] at hc
    subst hc
    decide
  have h2 : parseNat (natDigits l ++ ([125] ++ rest)) =
      (l, [125] ++ rest, (natDigits l).length) := by
    apply parseNat_natDigits
    intro c hc
    simp only [List.cons_append, List.head?_cons, Option.some.injEq] at hc
    subst hc
    decide
  have n1 : (natDigits o).length ≠ 0 := by
    have := natDigits_ne_nil o
    simpa using this
  have n2 : (natDigits l).length ≠ 0 := by
    have := natDigits_ne_nil l
    simpa using this
  unfold parsePloc
  simp only [Option.bind_eq_bind, expect_append, Option.bind_some, h1, h2, n1, n2, if_false]

theorem parsePloc_jsonPloc (p : Option Ploc) (rest : Bytes)
    (hp : ∀ q, p = some q → ¬ (q.off = 0 ∧ q.len = 0)) :
    parsePloc (jsonPloc p ++ rest) = some (p, rest) := by
  have e : jsonPloc p ++ rest = jsonO ++ (natDigits (p.getD ⟨0, 0⟩).off ++
      (jsonL ++ (natDigits (p.getD ⟨0, 0⟩).len ++ ([125] ++ rest)))) := by
    simp only [jsonPloc, List.append_assoc]
  rw [e, parsePloc_digits]
  cases p with
  | none => simp
  | some q =>
    have := hp q rfl
    simp only [Option.getD_some, if_neg this]

/-! ### JSON: strings without escapes -/

/-- names that the JSON writer passes through unescaped: no quote, no backslash, no control byte,
    none of `<` `>` `&`, and no E2 80 A8 / E2 80 A9 sequence (simplified: no byte E2 at all) -/
def PlainName (n : Bytes) : Prop :=
  ∀ c ∈ n, c ≠ 34 ∧ c ≠ 92 ∧ 32 ≤ c ∧ c ≠ 60 ∧ c ≠ 62 ∧ c ≠ 38 ∧ c ≠ 0xE2

theorem PlainName.tail {c : UInt8} {n : Bytes} (h : PlainName (c :: n)) : PlainName n :=
  fun x hx => h x (by simp [hx])

theorem jsonEscape_cons_plain (c : UInt8) (rest : Bytes)
    (h : c ≠ 34 ∧ c ≠ 92 ∧ 32 ≤ c ∧ c ≠ 60 ∧ c ≠ 62 ∧ c ≠ 38 ∧ c ≠ 0xE2) :
    jsonEscape (c :: rest) = c :: jsonEscape rest := by
  obtain ⟨h1, h2, h3, h4, h5, h6, h7⟩ := h
  rw [jsonEscape.eq_def]
  split
  · rename_i heq; cases heq
  · rename_i heq; injection heq with a b; exact absurd a h7
  · rename_i heq; injection heq with a b; exact absurd a h7
  · rename_i c' rest' _ _ heq
    injection heq with a b
    subst a b
    have h3' : ¬ c < 32 := by
      rw [UInt8.le_iff_toNat_le] at h3
      rw [UInt8.lt_iff_toNat_lt]
      omega
    have h8 : c ≠ 8 := by rintro rfl; exact h3' (by decide)
    have h9 : c ≠ 12 := by rintro rfl; exact h3' (by decide)
    have h10 : c ≠ 10 := by rintro rfl; exact h3' (by decide)
    have h11 : c ≠ 13 := by rintro rfl; exact h3' (by decide)
    have h12 : c ≠ 9 := by rintro rfl; exact h3' (by decide)
    simp [h1, h2, h3', h4, h5, h6, h8, h9, h10, h11, h12]

theorem jsonEscape_plain (n : Bytes) (h : PlainName n) : jsonEscape n = n := by
  induction n with
  | nil => simp [jsonEscape]
  | cons c n ih =>
    rw [jsonEscape_cons_plain c n (h c (by simp)), ih h.tail]

theorem parseStr_plain (n rest : Bytes) (h : PlainName n) (fuel : Nat) (hf : n.length < fuel)
    (acc : Bytes) : parseStr fuel acc (n ++ 34 :: rest) = some (acc.reverse ++ n, rest) := by
  induction n generalizing fuel acc with
  | nil =>
    cases fuel with
    | zero => omega
    | succ fuel => simp [parseStr]
  | cons c n ih =>
    cases fuel with
    | zero => omega
    | succ fuel =>
      obtain ⟨h1, h2, _⟩ := h c (by simp)
      simp only [List.cons_append, parseStr, h1, h2, if_false]
      rw [ih h.tail fuel (by simpa using hf)]
      simp

/-! ### JSON: the whole map (names without escapes) -/

theorem parseEntries_step (fuel : Nat) (e : Bytes × Option Ploc) (tail : Bytes)
    (acc : List (Bytes × Option Ploc)) (hn : PlainName e.1)
    (hp : ∀ q, e.2 = some q → ¬ (q.off = 0 ∧ q.len = 0)) :
    parseEntries (fuel + 1) (jsonEntry e ++ tail) acc =
      (match tail with
       | [125] => some (e :: acc).reverse
       | 44 :: b' => parseEntries fuel b' (e :: acc)
       | _ => none) := by
  have e1 : jsonEntry e ++ tail = [34] ++ (e.1 ++ 34 :: ([58] ++ (jsonPloc e.2 ++ tail))) := by
    simp [jsonEntry, jsonEscape_plain e.1 hn]
  have hs : parseStr ((e.1 ++ 34 :: ([58] ++ (jsonPloc e.2 ++ tail))).length + 1) []
      (e.1 ++ 34 :: ([58] ++ (jsonPloc e.2 ++ tail))) =
      some (e.1, [58] ++ (jsonPloc e.2 ++ tail)) := by
    rw [parseStr_plain e.1 _ hn _ (by simp; omega)]
    simp
  rw [parseEntries, e1]
  simp only [Option.bind_eq_bind, expect_append, Option.bind_some, hs, parsePloc_jsonPloc e.2 tail hp]
  rfl

theorem parseEntries_entries (e : Bytes × Option Ploc) (es : List (Bytes × Option Ploc))
    (fuel : Nat) (hf : es.length < fuel) (acc : List (Bytes × Option Ploc))
    (hn : ∀ x ∈ e :: es, PlainName x.1)
    (hp : ∀ x ∈ e :: es, ∀ q, x.2 = some q → ¬ (q.off = 0 ∧ q.len = 0)) :
    parseEntries fuel (jsonEntries (e :: es) ++ [125]) acc = some (acc.reverse ++ e :: es) := by
  induction es generalizing e fuel acc with
  | nil =>
    cases fuel with
    | zero => simp at hf
    | succ fuel =>
      rw [jsonEntries, parseEntries_step fuel e [125] acc (hn e (by simp)) (hp e (by simp))]
      simp
  | cons e2 es ih =>
    cases fuel with
    | zero => simp at hf
    | succ fuel =>
      have : jsonEntries (e :: e2 :: es) ++ [125] =
          jsonEntry e ++ (44 :: (jsonEntries (e2 :: es) ++ [125])) := by
        simp [jsonEntries]
      rw [this, parseEntries_step fuel e _ acc (hn e (by simp)) (hp e (by simp))]
      simp only
      rw [ih e2 fuel (by simpa using hf) (e :: acc) (fun x hx => hn x (by simp [hx]))
        (fun x hx => hp x (by simp [hx]))]
      simp

theorem jsonEntries_cons_head (e : Bytes × Option Ploc) (es : List (Bytes × Option Ploc)) :
    ∃ X, jsonEntries (e :: es) = 34 :: X := by
  cases es with
  | nil => exact ⟨_, by simp [jsonEntries, jsonEntry]; rfl⟩
  | cons e2 es => exact ⟨_, by simp [jsonEntries, jsonEntry]; rfl⟩

theorem jsonEntries_length_ge (es : List (Bytes × Option Ploc)) :
    es.length ≤ (jsonEntries es).length := by
  induction es with
  | nil => simp
  | cons e es ih =>
    cases es with
    | nil => simp [jsonEntries, jsonEntry]
    | cons e2 es =>
      rw [jsonEntries]
      · simp only [List.length_append, List.length_cons] at ih ⊢
        omega
      · simp

theorem decJson_encJson_partial (es : List (Bytes × Option Ploc))
    (hn : ∀ e ∈ es, PlainName e.1)
    (hp : ∀ e ∈ es, ∀ q, e.2 = some q → ¬ (q.off = 0 ∧ q.len = 0)) :
    decJson (encJson es) = some es := by
  cases es with
  | nil => simp [encJson, jsonEntries, decJson]
  | cons e es =>
    obtain ⟨X, hX⟩ := jsonEntries_cons_head e es
    have h1 : encJson (e :: es) = 123 :: (jsonEntries (e :: es) ++ [125]) := by
      simp [encJson]
    have h2 : decJson (123 :: (jsonEntries (e :: es) ++ [125])) =
        parseEntries ((jsonEntries (e :: es) ++ [125]).length + 1)
          (jsonEntries (e :: es) ++ [125]) [] := by
      rw [hX]
      simp [decJson]
    rw [h1, h2, parseEntries_entries e es _ _ [] hn hp]
    · simp
    · have := jsonEntries_length_ge (e :: es)
      simp only [List.length_append, List.length_cons] at this ⊢
      omega

/-! ### root records -/

theorem drop_left_len (a b : Bytes) (n : Nat) (ha : a.length = n) : (a ++ b).drop n = b := by
  subst ha; simp

theorem encJson_length_ge (es : List (Bytes × Option Ploc)) : 2 ≤ (encJson es).length := by
  simp [encJson]

theorem encRoot_length (off : Nat) (es : List (Bytes × Option Ploc)) :
    (encRoot off es).length = rootsLen + (encJson es).length := by
  simp [encRoot, be_length, magicBeg, magicEnd, rootsLen]
  omega

theorem rootAt_gen (pre js : Bytes) (L : Nat) (hL : L = 44 + js.length) (hjs : 2 ≤ js.length)
    (hsz : pre.length + L < 2^32) :
    rootAt (pre ++ (magicBeg ++ magicBeg ++ be 4 fmtVersion ++ be 4 L ++ js ++ be 8 pre.length ++
      be 4 L ++ magicEnd ++ magicEnd)) (pre.length + L) = decJson js := by
  have lb : magicBeg.length = 6 := rfl
  have le : magicEnd.length = 6 := rfl
  obtain ⟨data, hdata⟩ : ∃ d, magicBeg ++ magicBeg ++ be 4 fmtVersion ++ be 4 L ++ js = d := ⟨_, rfl⟩
  obtain ⟨tail, htail⟩ : ∃ t, be 8 pre.length ++ be 4 L ++ magicEnd ++ magicEnd = t := ⟨_, rfl⟩
  have hf : pre ++ (magicBeg ++ magicBeg ++ be 4 fmtVersion ++ be 4 L ++ js ++ be 8 pre.length ++
      be 4 L ++ magicEnd ++ magicEnd) = pre ++ data ++ tail := by
    rw [← hdata, ← htail]; simp only [List.append_assoc]
  have hdl : data.length = 20 + js.length := by
    rw [← hdata]; simp [be_length, lb]; omega
  have htl : tail.length = 24 := by
    rw [← htail]; simp [be_length, le]
  have r1 : readAt (pre ++ data ++ tail) (pre.length + L - rootsEndLen) rootsEndLen = some tail := by
    have : pre ++ data ++ tail = (pre ++ data) ++ tail ++ [] := by simp
    rw [this]
    exact readAt_mid' _ _ _ _ _ (by simp [hdl, rootsEndLen]; omega) htl
  have r2 : readAt (pre ++ data ++ tail) pre.length (pre.length + L - pre.length - rootsEndLen)
      = some data :=
    readAt_mid' _ _ _ _ _ rfl (by simp [hdl, rootsEndLen]; omega)
  have t1 : tail.take 8 = be 8 pre.length := by
    rw [← htail]; simp only [List.append_assoc]; exact slice_fst _ _ 8 (be_length _ _)
  have t2 : (tail.drop 8).take 4 = be 4 L := by
    rw [← htail]
    have : be 8 pre.length ++ be 4 L ++ magicEnd ++ magicEnd =
        be 8 pre.length ++ be 4 L ++ (magicEnd ++ magicEnd) := by simp only [List.append_assoc]
    rw [this]
    exact slice_mid _ _ _ 8 4 (be_length _ _) (be_length _ _)
  have t3 : (tail.drop 12).take 6 = magicEnd := by
    rw [← htail]
    exact slice_mid _ _ _ 12 6 (by simp [be_length]) le
  have t4 : tail.drop 18 = magicEnd := by
    rw [← htail]
    exact drop_left_len _ _ 18 (by simp [be_length, le])
  have d1 : data.take 6 = magicBeg := by
    rw [← hdata]; simp only [List.append_assoc]; exact slice_fst _ _ 6 lb
  have d2 : (data.drop 6).take 6 = magicBeg := by
    rw [← hdata]
    have : magicBeg ++ magicBeg ++ be 4 fmtVersion ++ be 4 L ++ js =
        magicBeg ++ magicBeg ++ (be 4 fmtVersion ++ be 4 L ++ js) := by simp only [List.append_assoc]
    rw [this]
    exact slice_mid _ _ _ 6 6 lb lb
  have d3 : (data.drop 12).take 4 = be 4 fmtVersion := by
    rw [← hdata]
    have : magicBeg ++ magicBeg ++ be 4 fmtVersion ++ be 4 L ++ js =
        (magicBeg ++ magicBeg) ++ be 4 fmtVersion ++ (be 4 L ++ js) := by simp only [List.append_assoc]
    rw [this]
    exact slice_mid _ _ _ 12 4 (by simp [lb]) (be_length _ _)
  have d4 : (data.drop 16).take 4 = be 4 L := by
    rw [← hdata]
    exact slice_mid _ _ _ 16 4 (by simp [lb, be_length]) (be_length _ _)
  have d5 : data.drop 20 = js := by
    rw [← hdata]
    exact drop_left_len _ _ 20 (by simp [lb, be_length])
  have u1 : unbe (be 8 pre.length) = pre.length := unbe_be 8 _ (by omega)
  have u2 : unbe (be 4 L) = L := unbe_be 4 _ (by omega)
  have u3 : unbe (be 4 fmtVersion) = fmtVersion := unbe_be 4 _ (by decide)
  rw [hf]
  unfold rootAt
  rw [if_neg (by simp [rootsLen]; omega)]
  simp only [Option.bind_eq_bind, Option.bind_some, r1, t1, t2, t3, t4, u1, u2]
  have hc : pre.length < 9223372036854775808 ∧ pre.length + rootsLen < pre.length + L ∧
      L = (pre.length + L - pre.length) % 4294967296 := by
    refine ⟨by omega, by simp only [rootsLen]; omega, by omega⟩
  rw [if_neg (by simp), if_neg (not_not_intro hc)]
  simp only [r2, Option.bind_some, d1, d2, d3, d4, d5, u2, u3]
  rw [if_neg (by simp), if_neg (by simp)]

theorem rootAt_encRoot_partial (pre : Bytes) (es : List (Bytes × Option Ploc))
    (hn : ∀ e ∈ es, PlainName e.1)
    (hp : ∀ e ∈ es, ∀ q, e.2 = some q → ¬ (q.off = 0 ∧ q.len = 0))
    (hsz : pre.length + (encRoot pre.length es).length < 2^32) :
    rootAt (pre ++ encRoot pre.length es) (pre.length + (encRoot pre.length es).length) = some es := by
  rw [encRoot_length] at hsz ⊢
  have := rootAt_gen pre (encJson es) (rootsLen + (encJson es).length) (by simp [rootsLen])
    (encJson_length_ge es) hsz
  rw [← decJson_encJson_partial es hn hp, ← this]
  rfl

end Gkv

/-
`#print axioms` for the theorems above (Lean 4.33.0):

'Gkv.be_length' depends on axioms: [propext]
'Gkv.unbe_be' depends on axioms: [propext, Quot.sound]
'Gkv.readAt_append' depends on axioms: [propext, Quot.sound]
'Gkv.readAt_writeAt_end' depends on axioms: [propext, Quot.sound]
'Gkv.readAt_mid' depends on axioms: [propext]
'Gkv.decPloc_encPloc' depends on axioms: [propext, Quot.sound]
'Gkv.encPloc_length' depends on axioms: [propext]
'Gkv.encNode_length' depends on axioms: [propext]
'Gkv.decNodeBytes_encNode' depends on axioms: [propext, Quot.sound]
'Gkv.decNode_at' depends on axioms: [propext, Quot.sound]
'Gkv.encItem_length' depends on axioms: [propext, Quot.sound]
'Gkv.decItem_at' depends on axioms: [propext, Quot.sound]
'Gkv.parseNat_natDigits' depends on axioms: [propext, Quot.sound]
'Gkv.natDigits_ne_nil' depends on axioms: [propext, Quot.sound]
'Gkv.parsePloc_jsonPloc' depends on axioms: [propext, Quot.sound]
'Gkv.jsonEscape_plain' depends on axioms: [propext, Quot.sound]
'Gkv.parseStr_plain' depends on axioms: [propext, Quot.sound]
'Gkv.decJson_encJson_partial' depends on axioms: [propext, Quot.sound]
'Gkv.rootAt_encRoot_partial' depends on axioms: [propext, Quot.sound]
-/
