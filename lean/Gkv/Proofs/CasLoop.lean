/-
Proofs about Model CasLoop (`Gkv.Model.CasLoop`): property C12 — the optimistic CAS loop loses no
update and applies none twice, for any number of threads, any programs, any schedule; the seeded
variant C12b (compare against the pointer current at CAS time) does lose updates.
-/
import Gkv.Model.CasLoop

namespace Gkv.CasLoop

variable {ι α : Type}

/-! ### list / accessor lemmas -/

theorem applyAll_snoc (apply : ι → α → α) (is : List ι) (i : ι) (a : α) :
    applyAll apply (is ++ [i]) a = apply i (applyAll apply is a) := by
  simp [applyAll, List.foldl_append]

theorem pendingAt_set_self {ths : List (Thread ι α)} {t : Nat} {th : Thread ι α}
    (h : ths[t]? = some th) (th' : Thread ι α) : pendingAt (ths.set t th') t = th'.pending := by
  have hlt : t < ths.length := (List.getElem?_eq_some_iff.1 h).1
  simp [pendingAt, hlt]

theorem pendingAt_set_ne (ths : List (Thread ι α)) {t t' : Nat} (hne : t ≠ t')
    (th' : Thread ι α) : pendingAt (ths.set t th') t' = pendingAt ths t' := by
  simp [pendingAt, hne]

/-- replacing a thread by one with the same pending list changes nobody's pending list -/
theorem pendingAt_set_same {ths : List (Thread ι α)} {t : Nat} {th : Thread ι α}
    (h : ths[t]? = some th) (th' : Thread ι α) (hp : th'.pending = th.pending) (t' : Nat) :
    pendingAt (ths.set t th') t' = pendingAt ths t' := by
  by_cases hne : t = t'
  · subst hne
    rw [pendingAt_set_self h, hp]
    simp [pendingAt, h]
  · exact pendingAt_set_ne ths hne th'

theorem pendingAt_of_get {ths : List (Thread ι α)} {t : Nat} {th : Thread ι α}
    (h : ths[t]? = some th) : pendingAt ths t = th.pending := by
  simp [pendingAt, h]

theorem publishedBy_snoc_self (s : State ι α) (t : Nat) (i : ι) :
    State.publishedBy { s with log := s.log ++ [(t, i)] } t = s.publishedBy t ++ [i] := by
  simp [State.publishedBy, List.filter_append]

theorem publishedBy_snoc_ne (s : State ι α) {t t' : Nat} (hne : t ≠ t') (i : ι) :
    State.publishedBy { s with log := s.log ++ [(t, i)] } t' = s.publishedBy t' := by
  simp [State.publishedBy, List.filter_append, hne]

/-! ### the invariant -/

/-- The invariant of the correct loop, relative to the initial value `a` and the programs `progs`.
`snap` is the heart of the argument: versions only grow, and a snapshot that still carries the
current version id is a snapshot of the current value — which is exactly what a successful
compare-and-swap against the pointer that was read establishes. -/
structure Inv (apply : ι → α → α) (a : α) (progs : List (List ι)) (s : State ι α) : Prop where
  /-- the value is the published updates, applied in publication order, to the initial value -/
  val_eq : s.cell.val = applyAll apply s.published a
  /-- a snapshot is never newer than the cell, and is accurate while its version is current -/
  snap : ∀ (t : Nat) (th : Thread ι α) (ver : Nat) (v : α),
    s.threads[t]? = some th → th.loc = .read ver v →
    ver ≤ s.cell.ver ∧ (ver = s.cell.ver → v = s.cell.val)
  /-- per thread: what it has published, then what it still has to publish, is its program -/
  proj : ∀ t, s.publishedBy t ++ s.pendingOf t = progOf progs t

theorem inv_init (apply : ι → α → α) (a : α) (progs : List (List ι)) :
    Inv apply a progs (init a progs) where
  val_eq := rfl
  snap := by
    intro t th ver v hget hloc
    simp only [init, List.getElem?_map] at hget
    cases hp : progs[t]? with
    | none => simp [hp] at hget
    | some p =>
      simp [hp] at hget
      subst hget
      cases hloc
  proj := by
    intro t
    simp only [State.publishedBy, State.pendingOf, init, pendingAt, progOf, List.getElem?_map]
    cases progs[t]? <;> simp

theorem inv_step {apply : ι → α → α} {a : α} {progs : List (List ι)} {s : State ι α}
    (h : Inv apply a progs s) (t : Nat) : Inv apply a progs (step false apply s t) := by
  unfold step
  split
  · exact h
  next th hget =>
    split
    · exact h
    next i rest hpend =>
      split
      next hloc =>
        -- doRead
        refine ⟨h.val_eq, ?_, ?_⟩
        · intro t' th' ver v hget' hloc'
          by_cases hne : t = t'
          · subst hne
            have hlt : t < s.threads.length := (List.getElem?_eq_some_iff.1 hget).1
            simp [hlt] at hget'
            subst hget'
            simp at hloc'
            obtain ⟨rfl, rfl⟩ := hloc'
            exact ⟨Nat.le_refl _, fun _ => rfl⟩
          · simp [hne] at hget'
            exact h.snap t' th' ver v hget' hloc'
        · intro t'
          have := h.proj t'
          simp only [State.pendingOf] at this ⊢
          rw [pendingAt_set_same hget { th with loc := .read s.cell.ver s.cell.val } rfl]
          exact this
      next ver v hloc =>
        split
        next hcas =>
          -- doCas, success: the snapshot is current, hence accurate
          have hver : s.cell.ver = ver := by simpa using hcas
          have hv : v = s.cell.val := (h.snap t th ver v hget hloc).2 hver.symm
          refine ⟨?_, ?_, ?_⟩
          · show apply i v = applyAll apply (List.map Prod.snd (s.log ++ [(t, i)])) a
            rw [List.map_append, List.map_singleton, applyAll_snoc, hv, h.val_eq]
            rfl
          · intro t' th' ver' v' hget' hloc'
            by_cases hne : t = t'
            · subst hne
              have hlt : t < s.threads.length := (List.getElem?_eq_some_iff.1 hget).1
              simp [hlt] at hget'
              subst hget'
              simp at hloc'
            · simp [hne] at hget'
              have := (h.snap t' th' ver' v' hget' hloc').1
              exact ⟨Nat.le_succ_of_le this, fun heq => by simp at heq; omega⟩
          · intro t'
            have hp := h.proj t'
            simp only [State.pendingOf] at hp ⊢
            by_cases hne : t = t'
            · subst hne
              rw [pendingAt_of_get hget, hpend] at hp
              rw [pendingAt_set_self hget]
              have := publishedBy_snoc_self s t i
              simp only [State.publishedBy] at this hp ⊢
              rw [this, ← hp]
              simp
            · rw [pendingAt_set_ne _ hne]
              have := publishedBy_snoc_ne s hne i
              simp only [State.publishedBy] at this hp ⊢
              rw [this]
              exact hp
        next hcas =>
          -- doCas, failure: retry
          refine ⟨h.val_eq, ?_, ?_⟩
          · intro t' th' ver' v' hget' hloc'
            by_cases hne : t = t'
            · subst hne
              have hlt : t < s.threads.length := (List.getElem?_eq_some_iff.1 hget).1
              simp [hlt] at hget'
              subst hget'
              simp at hloc'
            · simp [hne] at hget'
              exact h.snap t' th' ver' v' hget' hloc'
          · intro t'
            have := h.proj t'
            simp only [State.pendingOf] at this ⊢
            rw [pendingAt_set_same hget { th with loc := .idle } rfl]
            exact this

theorem inv_run {apply : ι → α → α} {a : α} {progs : List (List ι)} (sched : List Nat) :
    ∀ {s : State ι α}, Inv apply a progs s → Inv apply a progs (run false apply s sched) := by
  induction sched with
  | nil => intro s h; exact h
  | cons t sched ih => intro s h; exact ih (inv_step h t)

/-- the invariant holds after any schedule from the initial state -/
theorem inv_reachable (apply : ι → α → α) (a : α) (progs : List (List ι)) (sched : List Nat) :
    Inv apply a progs (run false apply (init a progs) sched) :=
  inv_run sched (inv_init apply a progs)

/-! ### theorems 1–3 -/

/-- **1.** The value of the cell is exactly the published updates, applied in publication order to
the initial value: nothing is lost, nothing is applied twice. -/
theorem no_lost_update (apply : ι → α → α) (a : α) (progs : List (List ι)) (sched : List Nat) :
    (run false apply (init a progs) sched).cell.val =
      ((run false apply (init a progs) sched).log.map Prod.snd).foldl (fun a i => apply i a) a :=
  (inv_reachable apply a progs sched).val_eq

/-- **2.** For every thread `t`: the sub-list of the log that belongs to `t`, followed by the
updates `t` has not yet published, is `t`'s original program.  (For `t` out of range all three are
`[]`: the log mentions no unknown thread.) -/
theorem log_is_interleaving (apply : ι → α → α) (a : α) (progs : List (List ι)) (sched : List Nat)
    (t : Nat) :
    ((run false apply (init a progs) sched).log.filter (fun e => e.1 == t)).map Prod.snd ++
        (run false apply (init a progs) sched).pendingOf t =
      progs[t]?.getD [] :=
  (inv_reachable apply a progs sched).proj t

/-- **3.** If every thread has emptied its pending list, the log is an interleaving of all the
programs (its projection on every thread `t` is the program of `t`, `[]` for unknown `t`), and the
value of the cell is that interleaving applied to the initial value. -/
theorem all_applied_when_done (apply : ι → α → α) (a : α) (progs : List (List ι))
    (sched : List Nat) (hdone : (run false apply (init a progs) sched).done) :
    (∀ t, ((run false apply (init a progs) sched).log.filter (fun e => e.1 == t)).map Prod.snd =
        progs[t]?.getD []) ∧
    (run false apply (init a progs) sched).cell.val =
      ((run false apply (init a progs) sched).log.map Prod.snd).foldl (fun a i => apply i a) a := by
  refine ⟨fun t => ?_, no_lost_update apply a progs sched⟩
  have := log_is_interleaving apply a progs sched t
  rw [hdone t, List.append_nil] at this
  exact this

/-- every log entry names a real thread -/
theorem log_threads_known (apply : ι → α → α) (a : α) (progs : List (List ι)) (sched : List Nat) :
    ∀ e ∈ (run false apply (init a progs) sched).log, e.1 < progs.length := by
  intro e he
  apply Classical.byContradiction
  intro hge
  have h := log_is_interleaving apply a progs sched e.1
  rw [List.getElem?_eq_none (Nat.le_of_not_lt hge)] at h
  have hnil := (List.append_eq_nil_iff.1 h).1
  have : e.2 ∈ ((run false apply (init a progs) sched).log.filter
      (fun e' => e'.1 == e.1)).map Prod.snd :=
    List.mem_map.2 ⟨e, List.mem_filter.2 ⟨he, by simp⟩, rfl⟩
  rw [hnil] at this
  cases this

/-! ### theorem 4: progress of a solo run -/

/-- doRead -/
theorem step_read {apply : ι → α → α} {s : State ι α} {t : Nat} {i : ι} {rest : List ι}
    (hget : s.threads[t]? = some ⟨i :: rest, .idle⟩) :
    step false apply s t =
      { s with threads := s.threads.set t ⟨i :: rest, .read s.cell.ver s.cell.val⟩ } := by
  simp [step, hget]

/-- doCas against the pointer that was read, pointer unchanged: publish -/
theorem step_cas_ok {apply : ι → α → α} {s : State ι α} {t : Nat} {i : ι} {rest : List ι}
    {ver : Nat} {v : α} (hget : s.threads[t]? = some ⟨i :: rest, .read ver v⟩)
    (hver : s.cell.ver = ver) :
    step false apply s t =
      { cell := ⟨s.cell.ver + 1, apply i v⟩
        threads := s.threads.set t ⟨rest, .idle⟩
        log := s.log ++ [(t, i)] } := by
  simp [step, hget, hver]

/-- doCas against the pointer that was read, pointer changed: retry, nothing published -/
theorem step_cas_fail {apply : ι → α → α} {s : State ι α} {t : Nat} {i : ι} {rest : List ι}
    {ver : Nat} {v : α} (hget : s.threads[t]? = some ⟨i :: rest, .read ver v⟩)
    (hver : s.cell.ver ≠ ver) :
    step false apply s t = { s with threads := s.threads.set t ⟨i :: rest, .idle⟩ } := by
  simp [step, hget, hver]

/-- **4.** Lock-freedom of a solo run: from ANY state (no invariant needed) in which thread `t` is
idle and has head update `i`, the schedule `[t, t]` publishes `i` on top of the current value. -/
theorem progress (apply : ι → α → α) (s : State ι α) (t : Nat) (i : ι) (rest : List ι)
    (hget : s.threads[t]? = some ⟨i :: rest, .idle⟩) :
    run false apply s [t, t] =
      { cell := ⟨s.cell.ver + 1, apply i s.cell.val⟩
        threads := s.threads.set t ⟨rest, .idle⟩
        log := s.log ++ [(t, i)] } := by
  have hlt : t < s.threads.length := (List.getElem?_eq_some_iff.1 hget).1
  show step false apply (step false apply s t) t = _
  rw [step_read hget]
  have hget' : (s.threads.set t ⟨i :: rest, .read s.cell.ver s.cell.val⟩)[t]? =
      some ⟨i :: rest, .read s.cell.ver s.cell.val⟩ := by simp [hlt]
  rw [step_cas_ok (s := { s with threads := _ }) hget' rfl]
  simp

/-- A thread holding a stale snapshot needs one more step: its CAS fails, then `[t, t]` succeeds. -/
theorem progress_after_retry (apply : ι → α → α) (s : State ι α) (t : Nat) (i : ι)
    (rest : List ι) (ver : Nat) (v : α)
    (hget : s.threads[t]? = some ⟨i :: rest, .read ver v⟩) (hstale : s.cell.ver ≠ ver) :
    run false apply s [t, t, t] =
      { cell := ⟨s.cell.ver + 1, apply i s.cell.val⟩
        threads := s.threads.set t ⟨rest, .idle⟩
        log := s.log ++ [(t, i)] } := by
  have hlt : t < s.threads.length := (List.getElem?_eq_some_iff.1 hget).1
  show run false apply (step false apply s t) [t, t] = _
  rw [step_cas_fail hget hstale]
  have hget' : (s.threads.set t ⟨i :: rest, .idle⟩)[t]? = some ⟨i :: rest, .idle⟩ := by
    simp [hlt]
  rw [progress apply { s with threads := _ } t i rest hget']
  simp

/-! ### theorem 5: the seeded variant loses an update -/

/-- the concrete instance: the value is a list of names, update `i` inserts name `i` in front -/
def ins : Nat → List Nat → List Nat := fun i a => i :: a

/-- two threads, one update each -/
def twoProgs : List (List Nat) := [[10], [20]]

/-- both read, then both publish -/
def raceSched : List Nat := [0, 1, 0, 1]

/-- **5.** Buggy mode (C12b), schedule `[0,1,0,1]`: both publishes "succeed" and are logged, yet
the final value contains only the second one — built from thread 1's stale snapshot `[]` — so the
equation of theorem 1 fails: update `10` is lost. -/
theorem buggy_loses_update :
    let s := run true ins (init [] twoProgs) raceSched
    s.log = [(0, 10), (1, 20)] ∧
    s.done ∧
    s.cell.val = [20] ∧
    applyAll ins s.published [] = [20, 10] ∧
    s.cell.val ≠ (s.log.map Prod.snd).foldl (fun a i => ins i a) [] := by
  refine ⟨by decide, ?_, by decide, by decide, by decide⟩
  intro t
  match t with
  | 0 => decide
  | 1 => decide
  | t + 2 => rfl

/-- The same schedule in correct mode: thread 1's CAS fails (its snapshot has version 0, the cell
version 1), it publishes nothing, keeps its update pending and is back at the top of its loop. -/
theorem correct_mode_retries :
    run false ins (init [] twoProgs) raceSched =
      { cell := ⟨1, [10]⟩
        threads := [⟨[], .idle⟩, ⟨[20], .idle⟩]
        log := [(0, 10)] } := by
  decide

/-- … and its retry then publishes on top of thread 0's update: nothing is lost. -/
theorem correct_mode_retry_succeeds :
    run false ins (init [] twoProgs) (raceSched ++ [1, 1]) =
      { cell := ⟨2, [20, 10]⟩
        threads := [⟨[], .idle⟩, ⟨[], .idle⟩]
        log := [(0, 10), (1, 20)] } := by
  decide

/-- the buggy mode differs from the correct one on this schedule only in the CAS of thread 1 -/
example : run true ins (init [] twoProgs) [0, 1, 0] = run false ins (init [] twoProgs) [0, 1, 0] := by
  decide

/-! ### theorem 6: non-vacuity of 1–3 on a 3-thread schedule with retries -/

def threeProgs : List (List Nat) := [[1, 2], [3], [4, 5]]

/-- all three read version 0; thread 1 wins, threads 0 and 2 fail and retry; later thread 2 fails
once more against thread 0 -/
def busySched : List Nat :=
  [0, 1, 2,  1,  0, 2,       -- 1 publishes 3; 0 and 2 fail
   0, 2, 0,  2,              -- 0 publishes 1; 2 fails again
   2, 2,  0, 0,  2, 2]       -- 2 publishes 4; 0 publishes 2; 2 publishes 5

/-- the run really contains failed CAS attempts: 16 steps = 8 doRead + 8 doCas, of which only 5
publish (the version counts the publishes) and 3 fail -/
example : busySched.length = 16 ∧ (run false ins (init [] threeProgs) busySched).cell.ver = 5 := by
  decide

example : (run false ins (init [] threeProgs) busySched).log =
    [(1, 3), (0, 1), (2, 4), (0, 2), (2, 5)] := by decide

/-- theorem 1 instantiated: the value is the log applied in order -/
example : (run false ins (init [] threeProgs) busySched).cell.val = [5, 2, 4, 1, 3] := by
  rw [no_lost_update]; decide

example : (run false ins (init [] threeProgs) busySched).cell.val = [5, 2, 4, 1, 3] := by decide

/-- theorem 2 instantiated in the middle of the run (thread 2 has published nothing yet and is back
at the top of its loop after its second failed CAS; thread 0 has published one of two) -/
example :
    let s := run false ins (init [] threeProgs) (busySched.take 10)
    s.publishedBy 0 = [1] ∧ s.pendingOf 0 = [2] ∧
    s.publishedBy 2 = [] ∧ s.pendingOf 2 = [4, 5] ∧
    s.threads[2]? = some ⟨[4, 5], .idle⟩ ∧ s.cell.ver = 2 := by decide

example : ((run false ins (init [] threeProgs) (busySched.take 10)).log.filter
      (fun e => e.1 == 0)).map Prod.snd ++
    (run false ins (init [] threeProgs) (busySched.take 10)).pendingOf 0 = [1, 2] :=
  log_is_interleaving ins [] threeProgs (busySched.take 10) 0

/-- theorem 3 instantiated: its hypothesis `done` is satisfiable -/
theorem busy_done : (run false ins (init [] threeProgs) busySched).done := by
  intro t
  match t with
  | 0 => decide
  | 1 => decide
  | 2 => decide
  | t + 3 => rfl

example :
    (∀ t, ((run false ins (init [] threeProgs) busySched).log.filter
        (fun e => e.1 == t)).map Prod.snd = threeProgs[t]?.getD []) ∧
    (run false ins (init [] threeProgs) busySched).cell.val = [5, 2, 4, 1, 3] := by
  have h := all_applied_when_done ins [] threeProgs busySched busy_done
  refine ⟨h.1, ?_⟩
  rw [h.2]; decide

/-- … and `done` is not automatic: it fails before the end of the run -/
example : ¬ (run false ins (init [] threeProgs) (busySched.take 10)).done := by
  intro h
  exact absurd (h 0) (by decide)

#print axioms no_lost_update
#print axioms log_is_interleaving
#print axioms all_applied_when_done
#print axioms progress
#print axioms buggy_loses_update
#print axioms correct_mode_retries

end Gkv.CasLoop
