/-
C16 — whole-collection enumerations: `Len` counts the items, and both block visitors
(`VisitItemsAscendBlockEx` with any block mangler that permutes the block starts, and
`VisitItemsRandom` with any shuffle) deliver every item exactly once, for every collection size.
-/
import Gkv.Model.Blocks
import Gkv.Proofs.Visit
open Std

namespace Gkv
namespace Tree

/-! ### facts that need no order hypotheses -/

/-- `MinItem` is the head of the in-order list -/
theorem min_eq_head? : ∀ t : Tree, t.min = t.toList.head?
  | nil => rfl
  | node nil i _ _ _ _ _ => by simp [min, toList]
  | node (node ll li la lb lr lp lq) i _ _ r _ _ => by
    have ih := min_eq_head? (node ll li la lb lr lp lq)
    simp only [min, toList] at ih ⊢
    rw [ih]
    simp [List.head?_append]

theorem determineBlocks_lenBlock_pos (n : Nat) : 1 ≤ (determineBlocks n).2 := by
  unfold determineBlocks maxBlockCnt
  split
  · simp only; omega
  · simp

theorem determineBlocks_numBlocks_pos (n : Nat) : 1 ≤ (determineBlocks n).1 ↔ 1 ≤ n := by
  unfold determineBlocks maxBlockCnt
  split
  · simp only; omega
  · simp

/-! ### first pass: the block starts -/

theorem blockStartsAux_counter (L : Nat) : ∀ (l : List Item) (j : Nat), 1 ≤ j → j ≤ L →
    blockStartsAux L l j = blockStartsAux L (l.drop (L + 1 - j)) 0
  | [], j, _, _ => by simp [blockStartsAux]
  | a :: rest, j, h1, h2 => by
    have hj0 : j ≠ 0 := by omega
    by_cases hge : j ≥ L
    · have : L + 1 - j = 1 := by omega
      rw [this]
      simp [blockStartsAux, hj0, hge]
    · have : L + 1 - j = (L + 1 - (j + 1)) + 1 := by omega
      rw [this, List.drop_succ_cons, ← blockStartsAux_counter L rest (j + 1) (by omega) (by omega)]
      simp [blockStartsAux, hj0, hge]

/-- recursive characterisation of the first pass: a block start, then skip `L` more items -/
theorem blockStarts_cons (L : Nat) (hL : 1 ≤ L) (i : Item) (rest : List Item) :
    blockStarts L (i :: rest) = i.key :: blockStarts L (rest.drop L) := by
  unfold blockStarts
  simp only [blockStartsAux, if_true]
  rw [blockStartsAux_counter L rest 1 (Nat.le_refl 1) hL]
  simp

@[simp] theorem blockStarts_nil (L : Nat) : blockStarts L [] = [] := rfl

/-- the same, in the form "head key, then the starts of the list without its first `L+1` items" -/
theorem blockStarts_rec (L : Nat) (hL : 1 ≤ L) (items : List Item) :
    blockStarts L items =
      match items with
      | [] => []
      | i :: _ => i.key :: blockStarts L (items.drop (L + 1)) := by
  cases items with
  | nil => rfl
  | cons i rest => simp [blockStarts_cons L hL]

theorem mem_blockStartsAux (L : Nat) (k : Bytes) : ∀ (l : List Item) (j : Nat),
    k ∈ blockStartsAux L l j → ∃ i ∈ l, i.key = k
  | [], j, h => by simp [blockStartsAux] at h
  | a :: rest, j, h => by
    unfold blockStartsAux at h
    split at h
    · rcases List.mem_cons.mp h with rfl | h
      · exact ⟨a, List.mem_cons_self, rfl⟩
      · obtain ⟨i, hi, hk⟩ := mem_blockStartsAux L k rest _ h
        exact ⟨i, List.mem_cons_of_mem _ hi, hk⟩
    · split at h <;>
      · obtain ⟨i, hi, hk⟩ := mem_blockStartsAux L k rest _ h
        exact ⟨i, List.mem_cons_of_mem _ hi, hk⟩

theorem mem_blockStarts (L : Nat) (k : Bytes) (l : List Item) (h : k ∈ blockStarts L l) :
    ∃ i ∈ l, i.key = k := mem_blockStartsAux L k l 0 h

/-- closed form of the first pass: the keys at positions `0, L+1, 2(L+1), …` -/
theorem blockStarts_eq_aux (L : Nat) (hL : 1 ≤ L) : ∀ (fuel : Nat) (items : List Item),
    items.length ≤ fuel →
    blockStarts L items =
      ((List.range ((items.length + L) / (L + 1))).map
        (fun b => (items[b * (L+1)]?).map (·.key))).filterMap id := by
  intro fuel
  induction fuel with
  | zero =>
    intro items hf
    have : items = [] := List.eq_nil_of_length_eq_zero (by omega)
    subst this
    simp [Nat.div_eq_of_lt]
  | succ fuel ih =>
    intro items hf
    cases items with
    | nil => simp [Nat.div_eq_of_lt]
    | cons i rest =>
      have hlen : rest.length ≤ fuel := by simpa using hf
      rw [blockStarts_cons L hL, ih (rest.drop L) (by simp; omega)]
      have hcnt : ((i :: rest).length + L) / (L + 1) = rest.length / (L + 1) + 1 := by
        have : (i :: rest).length + L = rest.length + (L + 1) := by simp; omega
        rw [this, Nat.add_div_right _ (by omega)]
      have hcnt' : ((rest.drop L).length + L) / (L + 1) = rest.length / (L + 1) := by
        rw [List.length_drop]
        by_cases hge : L ≤ rest.length
        · rw [Nat.sub_add_cancel hge]
        · have : rest.length - L = 0 := by omega
          rw [this, Nat.zero_add, Nat.div_eq_of_lt (by omega), Nat.div_eq_of_lt (by omega)]
      rw [hcnt, hcnt', List.range_succ_eq_map]
      simp only [List.map_cons, List.map_map, Nat.zero_mul, List.getElem?_cons_zero, Option.map_some,
        List.filterMap_cons, id]
      congr 2
      refine List.map_congr_left ?_
      intro b _
      have : (b + 1) * (L + 1) = (L + b * (L + 1)) + 1 := by
        rw [Nat.add_mul]; omega
      simp only [Function.comp, this, List.getElem?_cons_succ, List.getElem?_drop]

theorem blockStarts_eq (L : Nat) (hL : 1 ≤ L) (items : List Item) :
    blockStarts L items =
      ((List.range ((items.length + L) / (L + 1))).map
        (fun b => (items[b * (L+1)]?).map (·.key))).filterMap id :=
  blockStarts_eq_aux L hL items.length items (Nat.le_refl _)

/-! ### order facts -/

variable (cmp : Bytes → Bytes → Ordering) [Std.TransCmp cmp]

/-- in a strictly ascending list, the items not below the key of item `j` are the suffix from `j` -/
theorem filter_from_sorted : ∀ (l : List Item), l.Pairwise (fun a b => cmp a.key b.key = .lt) →
    ∀ (j : Nat) (hj : j < l.length),
    l.filter (fun i => cmp (l[j]).key i.key != .gt) = l.drop j
  | [], _, j, hj => by simp at hj
  | a :: rest, hs, 0, _ => by
    rw [List.pairwise_cons] at hs
    simp only [List.getElem_cons_zero, List.drop_zero]
    rw [List.filter_eq_self]
    intro x hx
    rcases List.mem_cons.mp hx with rfl | hx
    · simp [ReflCmp.compare_self]
    · simp [hs.1 x hx]
  | a :: rest, hs, j + 1, hj => by
    rw [List.pairwise_cons] at hs
    have hj' : j < rest.length := by simpa using hj
    have h1 : cmp a.key (rest[j]).key = .lt := hs.1 _ (List.getElem_mem hj')
    have h2 : cmp (rest[j]).key a.key = .gt := OrientedCmp.gt_of_lt h1
    simp only [List.getElem_cons_succ, List.drop_succ_cons, List.filter_cons, h2]
    simpa using filter_from_sorted rest hs.2 j hj'

theorem visitAsc_map_fst {t : Tree} (h : BST cmp t) (tgt : Bytes) (d : Nat) :
    (visitAsc cmp t tgt d).map (·.1) = t.toList.filter (fun i => cmp tgt i.key != .gt) := by
  rw [visitAsc_eq_filter cmp h, ← inorderD_map_fst t d, List.filter_map]
  rfl

/-- what a visit from the key of the j-th item delivers: the suffix of the in-order list from j -/
theorem visitAsc_from_item {t : Tree} (h : BST cmp t) (j : Nat) (hj : j < t.toList.length) :
    (visitAsc cmp t (t.toList[j]).key 0).map (·.1) = t.toList.drop j := by
  rw [visitAsc_map_fst cmp h]
  exact filter_from_sorted cmp t.toList (BST.toList_pairwise_lt cmp h) j hj

/-- visiting ascending from the minimum key delivers everything -/
theorem visitAsc_min_all {t : Tree} (h : BST cmp t) (m : Item) (hm : t.min = some m) :
    (visitAsc cmp t m.key 0).map (·.1) = t.toList := by
  rw [min_eq_head?] at hm
  have hm0 : t.toList[0]? = some m := by rw [← List.head?_eq_getElem?]; exact hm
  obtain ⟨hpos, hm'⟩ := List.getElem?_eq_some_iff.mp hm0
  have := visitAsc_from_item cmp h 0 hpos
  rw [hm'] at this
  simpa using this

theorem len_eq {t : Tree} (h : BST cmp t) : len cmp t = t.toList.length := by
  unfold len
  cases hm : t.min with
  | none =>
    rw [min_eq_head?] at hm
    simp only
    cases hl : t.toList with
    | nil => rfl
    | cons a r => simp [hl] at hm
  | some m =>
    simp only
    rw [← visitAsc_min_all cmp h m hm]
    simp

/-! ### `VisitItemsAscendBlockEx` -/

/-- second pass from the key of the item at position `p`: the chunk of `L+1` items from `p` -/
theorem blockFrom_item {t : Tree} (h : BST cmp t) (L p : Nat) (hp : p < t.toList.length) :
    blockFrom cmp t L (t.toList[p]).key = (t.toList.drop p).take (L + 1) := by
  unfold blockFrom
  rw [visitAsc_from_item cmp h p hp]

/-- the blocks of a suffix, taken in first-pass order, concatenate to that suffix -/
theorem flatMap_blockFrom_drop {t : Tree} (h : BST cmp t) (L : Nat) (hL : 1 ≤ L) :
    ∀ (fuel p : Nat), t.toList.length - p ≤ fuel →
      (blockStarts L (t.toList.drop p)).flatMap (blockFrom cmp t L) = t.toList.drop p := by
  intro fuel
  induction fuel with
  | zero =>
    intro p hf
    rw [List.drop_eq_nil_of_le (by omega)]
    rfl
  | succ fuel ih =>
    intro p hf
    by_cases hp : p < t.toList.length
    · have hd : t.toList.drop p = t.toList[p] :: t.toList.drop (p + 1) := List.drop_eq_getElem_cons hp
      have ih' := ih (p + 1 + L) (by omega)
      conv => lhs; rw [hd]
      rw [blockStarts_cons L hL, List.drop_drop, List.flatMap_cons, ih', blockFrom_item cmp h L p hp]
      have : p + 1 + L = p + (L + 1) := by omega
      rw [this, ← List.drop_drop, List.take_append_drop]
    · rw [List.drop_eq_nil_of_le (by omega)]
      rfl

/-- the blocks, taken in first-pass order, concatenate to the in-order list -/
theorem flatMap_blockFrom_all {t : Tree} (h : BST cmp t) (L : Nat) (hL : 1 ≤ L) :
    (blockStarts L t.toList).flatMap (blockFrom cmp t L) = t.toList := by
  simpa using flatMap_blockFrom_drop cmp h L hL t.toList.length 0 (by omega)

theorem visitBlocks_of_ne_nil {t : Tree} (h : BST cmp t) (mangle : List Bytes → List Bytes)
    (hne : t.toList ≠ []) :
    visitBlocks cmp t mangle =
      some ((mangle (blockStarts (determineBlocks t.toList.length).2 t.toList)).flatMap
        (blockFrom cmp t (determineBlocks t.toList.length).2)) := by
  have hpos : 1 ≤ t.toList.length := by
    cases hl : t.toList with
    | nil => exact absurd hl hne
    | cons a r => simp
  have h1 := determineBlocks_lenBlock_pos t.toList.length
  have h2 := (determineBlocks_numBlocks_pos t.toList.length).mpr hpos
  obtain ⟨m, hm⟩ : ∃ m, t.min = some m := by
    rw [min_eq_head?]
    cases hl : t.toList with
    | nil => exact absurd hl hne
    | cons a r => exact ⟨a, rfl⟩
  unfold visitBlocks
  rw [len_eq cmp h]
  have hc : ¬ ((determineBlocks t.toList.length).2 < 1 ∨ (determineBlocks t.toList.length).1 < 1) := by
    omega
  simp only [hc, if_false, hm, visitAsc_min_all cmp h m hm]

theorem visitBlocks_of_nil {t : Tree} (h : BST cmp t) (mangle : List Bytes → List Bytes)
    (hnil : t.toList = []) : visitBlocks cmp t mangle = none := by
  unfold visitBlocks
  rw [len_eq cmp h, hnil]
  simp [determineBlocks, maxBlockCnt]

theorem visitBlocks_none {t : Tree} (h : BST cmp t) (mangle : List Bytes → List Bytes) :
    visitBlocks cmp t mangle = none ↔ t.toList = [] := by
  constructor
  · intro hn
    by_cases hne : t.toList = []
    · exact hne
    · rw [visitBlocks_of_ne_nil cmp h mangle hne] at hn
      cases hn
  · exact visitBlocks_of_nil cmp h mangle

theorem visitBlocks_perm {t : Tree} (h : BST cmp t) (mangle : List Bytes → List Bytes)
    (hm : ∀ l, (mangle l).Perm l) (r : List Item) (hr : visitBlocks cmp t mangle = some r) :
    r.Perm t.toList := by
  by_cases hne : t.toList = []
  · rw [visitBlocks_of_nil cmp h mangle hne] at hr
    cases hr
  · rw [visitBlocks_of_ne_nil cmp h mangle hne] at hr
    cases hr
    have hL := determineBlocks_lenBlock_pos t.toList.length
    refine ((hm _).flatMap_right _).trans ?_
    rw [flatMap_blockFrom_all cmp h _ hL]

/-! ### `VisitItemsRandom`

A block pointer is abstracted by the suffix of the in-order list it stands for
(`ptr s` = key of the head of `s`, retired = empty suffix).  One inner step delivers `s.take 1`
and moves to `s.tail`; so `k` rounds deliver, up to order, `s.take k` for every block, and with
`k = lenBlock + 1` that is exactly what `VisitItemsAscendBlockEx` delivers for the same block
starts. -/

/-- the block pointer that stands for the suffix `s` -/
def ptr (s : List Item) : Option Bytes := s.head?.map (·.key)

theorem randomStep_suffix {t : Tree} (h : BST cmp t) (p : Nat) :
    randomStep cmp t (ptr (t.toList.drop p)) =
      ((t.toList.drop p).take 1, ptr ((t.toList.drop p).tail)) := by
  by_cases hp : p < t.toList.length
  · have hd : t.toList.drop p = t.toList[p] :: t.toList.drop (p + 1) := List.drop_eq_getElem_cons hp
    have hv := visitAsc_from_item cmp h p hp
    rw [hd] at hv ⊢
    simp only [ptr, List.head?_cons, Option.map_some, randomStep, hv]
    cases t.toList.drop (p + 1) with
    | nil => rfl
    | cons b rest => rfl
  · rw [List.drop_eq_nil_of_le (by omega)]
    rfl

/-- `s` is a suffix of the in-order list -/
def IsSuf (t : Tree) (s : List Item) : Prop := ∃ p, s = t.toList.drop p

theorem IsSuf.tail {t : Tree} {s : List Item} (hs : IsSuf t s) : IsSuf t s.tail := by
  obtain ⟨p, rfl⟩ := hs
  exact ⟨p + 1, by simp⟩

theorem randomRound_suffixes {t : Tree} (h : BST cmp t) :
    ∀ (S : List (List Item)), (∀ s ∈ S, IsSuf t s) →
      randomRound cmp t (S.map ptr) = (S.flatMap (·.take 1), (S.map List.tail).map ptr)
  | [], _ => rfl
  | s :: S, hS => by
    obtain ⟨p, rfl⟩ := hS s List.mem_cons_self
    have ih := randomRound_suffixes h S (fun s hs => hS s (List.mem_cons_of_mem _ hs))
    simp only [List.map_cons, randomRound, randomStep_suffix cmp h p, ih, List.flatMap_cons]

theorem flatMap_append_perm' {α β : Type} (f g : α → List β) :
    ∀ l : List α, (l.flatMap f ++ l.flatMap g).Perm (l.flatMap fun x => f x ++ g x)
  | [] => by simp
  | a :: l => by
    simp only [List.flatMap_cons]
    have ih := flatMap_append_perm' f g l
    -- (f a ++ F) ++ (g a ++ G) ~ (f a ++ g a) ++ FG
    calc (f a ++ l.flatMap f) ++ (g a ++ l.flatMap g)
        = f a ++ (l.flatMap f ++ (g a ++ l.flatMap g)) := by simp
      _ |>.Perm (f a ++ (g a ++ (l.flatMap f ++ l.flatMap g))) := by
          refine List.Perm.append_left _ ?_
          rw [← List.append_assoc, ← List.append_assoc]
          exact List.Perm.append_right _ List.perm_append_comm
      _ |>.Perm (f a ++ (g a ++ (l.flatMap fun x => f x ++ g x))) :=
          List.Perm.append_left _ (List.Perm.append_left _ ih)
      _ = (f a ++ g a) ++ (l.flatMap fun x => f x ++ g x) := by simp

/-- `k` rounds over blocks standing at suffixes `S` deliver, up to order, the first `k` items of
    every suffix -/
theorem randomRounds_suffixes {t : Tree} (h : BST cmp t) :
    ∀ (k : Nat) (S : List (List Item)), (∀ s ∈ S, IsSuf t s) →
      (randomRounds cmp t k (S.map ptr)).Perm (S.flatMap (·.take k))
  | 0, S, _ => by simp [randomRounds]
  | k + 1, S, hS => by
    have hS' : ∀ s ∈ S.map List.tail, IsSuf t s := by
      intro s hs
      obtain ⟨s0, hs0, rfl⟩ := List.mem_map.mp hs
      exact (hS s0 hs0).tail
    have ih := randomRounds_suffixes h k (S.map List.tail) hS'
    simp only [randomRounds, randomRound_suffixes cmp h S hS]
    refine (List.Perm.append_left _ ih).trans ?_
    rw [List.flatMap_map]
    refine (flatMap_append_perm' _ _ S).trans ?_
    refine List.Perm.of_eq ?_
    congr 1
    funext s
    cases s with
    | nil => simp
    | cons a rest => simp

/-- the suffix a start key stands for -/
theorem suffix_of_blockStart {t : Tree} (h : BST cmp t) (L : Nat) (k : Bytes)
    (hk : k ∈ blockStarts L t.toList) :
    IsSuf t ((visitAsc cmp t k 0).map (·.1)) ∧ ptr ((visitAsc cmp t k 0).map (·.1)) = some k := by
  obtain ⟨i, hi, rfl⟩ := mem_blockStarts L k t.toList hk
  obtain ⟨p, hp, rfl⟩ := List.getElem_of_mem hi
  rw [visitAsc_from_item cmp h p hp]
  refine ⟨⟨p, rfl⟩, ?_⟩
  rw [List.drop_eq_getElem_cons hp]
  rfl

theorem visitRandom_of_ne_nil {t : Tree} (h : BST cmp t) (shuffle : List Bytes → List Bytes)
    (hne : t.toList ≠ []) :
    visitRandom cmp t shuffle =
      some (randomRounds cmp t ((determineBlocks t.toList.length).2 + 1)
        ((shuffle (blockStarts (determineBlocks t.toList.length).2 t.toList)).map some)) := by
  have hpos : 1 ≤ t.toList.length := by
    cases hl : t.toList with
    | nil => exact absurd hl hne
    | cons a r => simp
  have h1 := determineBlocks_lenBlock_pos t.toList.length
  have h2 := (determineBlocks_numBlocks_pos t.toList.length).mpr hpos
  obtain ⟨m, hm⟩ : ∃ m, t.min = some m := by
    rw [min_eq_head?]
    cases hl : t.toList with
    | nil => exact absurd hl hne
    | cons a r => exact ⟨a, rfl⟩
  unfold visitRandom
  rw [len_eq cmp h]
  have hc : ¬ ((determineBlocks t.toList.length).2 < 1 ∨ (determineBlocks t.toList.length).1 < 1) := by
    omega
  simp only [hc, if_false, hm, visitAsc_min_all cmp h m hm]

theorem visitRandom_of_nil {t : Tree} (h : BST cmp t) (shuffle : List Bytes → List Bytes)
    (hnil : t.toList = []) : visitRandom cmp t shuffle = none := by
  unfold visitRandom
  rw [len_eq cmp h, hnil]
  simp [determineBlocks, maxBlockCnt]

theorem visitRandom_none {t : Tree} (h : BST cmp t) (shuffle : List Bytes → List Bytes) :
    visitRandom cmp t shuffle = none ↔ t.toList = [] := by
  constructor
  · intro hn
    by_cases hne : t.toList = []
    · exact hne
    · rw [visitRandom_of_ne_nil cmp h shuffle hne] at hn
      cases hn
  · exact visitRandom_of_nil cmp h shuffle

/-- `VisitItemsRandom` delivers, up to order, what `VisitItemsAscendBlockEx` delivers when its
    mangler is the same shuffle -/
theorem visitRandom_perm_visitBlocks {t : Tree} (h : BST cmp t) (shuffle : List Bytes → List Bytes)
    (hs : ∀ l, (shuffle l).Perm l) (r : List Item) (hr : visitRandom cmp t shuffle = some r) :
    ∃ r', visitBlocks cmp t shuffle = some r' ∧ r.Perm r' := by
  by_cases hne : t.toList = []
  · rw [visitRandom_of_nil cmp h shuffle hne] at hr
    cases hr
  · rw [visitRandom_of_ne_nil cmp h shuffle hne] at hr
    cases hr
    refine ⟨_, visitBlocks_of_ne_nil cmp h shuffle hne, ?_⟩
    generalize (determineBlocks t.toList.length).2 = L
    have hmem : ∀ k ∈ shuffle (blockStarts L t.toList), k ∈ blockStarts L t.toList :=
      fun k hk => (hs _).subset hk
    have hstate : (shuffle (blockStarts L t.toList)).map some =
        ((shuffle (blockStarts L t.toList)).map (fun k => (visitAsc cmp t k 0).map (·.1))).map ptr := by
      rw [List.map_map]
      refine List.map_congr_left ?_
      intro k hk
      exact (suffix_of_blockStart cmp h L k (hmem k hk)).2.symm
    have hsuf : ∀ s ∈ (shuffle (blockStarts L t.toList)).map
        (fun k => (visitAsc cmp t k 0).map (·.1)), IsSuf t s := by
      intro s hs'
      obtain ⟨k, hk, rfl⟩ := List.mem_map.mp hs'
      exact (suffix_of_blockStart cmp h L k (hmem k hk)).1
    rw [hstate]
    refine (randomRounds_suffixes cmp h (L + 1) _ hsuf).trans ?_
    rw [List.flatMap_map]
    exact List.Perm.of_eq rfl

theorem visitRandom_perm {t : Tree} (h : BST cmp t) (shuffle : List Bytes → List Bytes)
    (hs : ∀ l, (shuffle l).Perm l) (r : List Item) (hr : visitRandom cmp t shuffle = some r) :
    r.Perm t.toList := by
  obtain ⟨r', hr', hp⟩ := visitRandom_perm_visitBlocks cmp h shuffle hs r hr
  exact hp.trans (visitBlocks_perm cmp h shuffle hs r' hr')

end Tree
end Gkv

#print axioms Gkv.Tree.visitAsc_min_all
#print axioms Gkv.Tree.len_eq
#print axioms Gkv.Tree.visitAsc_from_item
#print axioms Gkv.Tree.blockStarts_eq
#print axioms Gkv.Tree.blockStarts_rec
#print axioms Gkv.Tree.visitBlocks_perm
#print axioms Gkv.Tree.visitBlocks_none
#print axioms Gkv.Tree.visitRandom_perm_visitBlocks
#print axioms Gkv.Tree.visitRandom_perm
#print axioms Gkv.Tree.visitRandom_none

/-
`#print axioms` output (lake env lean Gkv/Proofs/Blocks.lean, Lean 4.33.0):

'Gkv.Tree.visitAsc_min_all' depends on axioms: [propext, Classical.choice, Quot.sound]
'Gkv.Tree.len_eq' depends on axioms: [propext, Classical.choice, Quot.sound]
'Gkv.Tree.visitAsc_from_item' depends on axioms: [propext, Classical.choice, Quot.sound]
'Gkv.Tree.blockStarts_eq' depends on axioms: [propext, Quot.sound]
'Gkv.Tree.blockStarts_rec' depends on axioms: [propext, Quot.sound]
'Gkv.Tree.visitBlocks_perm' depends on axioms: [propext, Classical.choice, Quot.sound]
'Gkv.Tree.visitBlocks_none' depends on axioms: [propext, Classical.choice, Quot.sound]
'Gkv.Tree.visitRandom_perm_visitBlocks' depends on axioms: [propext, Classical.choice, Quot.sound]
'Gkv.Tree.visitRandom_perm' depends on axioms: [propext, Classical.choice, Quot.sound]
'Gkv.Tree.visitRandom_none' depends on axioms: [propext, Classical.choice, Quot.sound]
-/
