/-
The iterator handshake of collection.go terminates cleanly for every consumer program and every
interleaving.  Model: `Gkv/Model/Iter.lean` (two goroutines, two unbuffered channels, explicit
small steps; `Step s s' := s' ∈ enabled s`).

For ALL `items : List Nat`, ALL consumer programs `prog : List Cmd` (any sequence of `Next()` and
`Close()` calls) and ALL states reachable from `init items prog` by ANY sequence of steps
(`Reach items prog s`), i.e. for every scheduling of the two goroutines:

  no_panic                 no double `close`, no send on a closed channel
  progress                 a reachable state either has a successor or is `Done` (no deadlock)
  stuck_iff_done           ... and the `Done` states are exactly the reachable states without successor
  terminates               every step decreases `μ : State → Nat` (for ALL states, reachable or not)
  exec_bounded             hence an execution from `s` has at most `μ s` steps
  run_done                 from every reachable state the first-enabled scheduler ends in a `Done` state
  producer_exits           in a `Done` state of a closed / exhausted iterator the producer goroutine
                           has exited and the version pin is released
  final_iff_done           `final` (the decidable predicate of the model) and `Done` agree on reachable states
  closedFlag_stable, closed_consumer_idle, next_after_end_false, next_when_closed_local
                           once `it.closed` is set, all the consumer ever does is to pop a command and
                           report `nextFalse` / `closed`, without touching a channel
  outputs_prefix           the reported items are, in order, a prefix of `items`
  nextFalse_exhaustion     a `Next() = false` that is not preceded by a `Close()` comes after ALL items
  done_outs_eq_spec        in a `Done` state the outputs are the sequential specification `spec items prog`
  outputs_eq_spec          so are the outputs of the executable runner
  observable_deterministic all interleavings give the same observable results

Not modelled: a failing visit (`it.err`), see the header of the model.
-/
import Gkv.Model.Iter

namespace Gkv.Iter

/-- the states reachable from `init items prog` by any interleaving -/
inductive Reach (items : List Nat) (prog : List Cmd) : State → Prop where
  | init : Reach items prog (init items prog)
  | step {s s' : State} : Reach items prog s → Step s s' → Reach items prog s'

/-! ### the invariant -/

/-- `it.items` is closed exactly when the producer is past `close(it.items)` -/
def PPc.afterCloseItems : PPc → Bool
  | .pDrain | .pExited => true
  | _ => false

/-- the version pin is held exactly in these producer states -/
def PPc.inVisit : PPc → Bool
  | .pVisit | .pSend | .pWaitNext | .pUnpin => true
  | _ => false

/-- the visit loop is over -/
def PPc.pastVisit : PPc → Bool
  | .pUnpin | .pCloseItems | .pDrain | .pExited => true
  | _ => false

/-- the consumer has closed `it.next` but not yet set `it.closed` -/
def CPc.afterCloseNext : CPc → Bool
  | .nSetClosed | .cSetClosed => true
  | _ => false

/-- the item the consumer has received but not yet reported -/
def CPc.inflight : CPc → List Nat
  | .nRet i => [i]
  | _ => []

/-- which pairs of program counters can occur together (third argument: `it.next` is closed).
The rendezvous couples the two goroutines tightly: while `it.next` is open the producer runs only
while the consumer is blocked in `<-it.items`, and the consumer runs only while the producer is
blocked in `<-it.next`. -/
def couple (c : CPc) (p : PPc) (nc : Bool) : Bool :=
  match c, nc with
  | .idle, false | .nSend, false | .cClose, false => p.waiting
  | .nRecv, false =>
    match p with
    | .pPin | .pVisit | .pSend | .pUnpin | .pCloseItems | .pDrain => true
    | _ => false
  | .nRet _, false => match p with | .pWaitNext => true | _ => false
  | .nClose, false => match p with | .pDrain => true | _ => false
  | .nSetClosed, true => p.afterCloseItems
  | .cSetClosed, true | .idle, true =>
    match p with
    | .pWaitFirst | .pWaitNext | .pUnpin | .pCloseItems | .pDrain | .pExited => true
    | _ => false
  | _, _ => false

/-- the results the consumer will still report from state `s` on -/
def future (s : State) : List Out :=
  match s.cpc with
  | .idle => if s.closedFlag then specClosed s.prog else spec s.todo s.prog
  | .nSend | .nRecv => spec s.todo (.next :: s.prog)
  | .nRet i => .nextTrue i :: spec s.todo s.prog
  | .nClose | .nSetClosed => .nextFalse :: specClosed s.prog
  | .cClose | .cSetClosed => .closed :: specClosed s.prog

structure Inv (items : List Nat) (p0 : List Cmd) (s : State) : Prop where
  noPanic : s.panicked = false
  itemsCl : s.itemsClosed = s.ppc.afterCloseItems
  pin : s.pinned = s.ppc.inVisit
  nextCl : s.nextClosed = (s.closedFlag || s.cpc.afterCloseNext)
  closedIdle : s.closedFlag = true → s.cpc = .idle
  coupled : couple s.cpc s.ppc s.nextClosed = true
  todoNil : s.ppc.pastVisit = true → s.nextClosed = false → s.todo = []
  sendNonempty : s.ppc = .pSend → s.todo ≠ []
  acct : reported s.outs ++ s.cpc.inflight ++ s.todo = items
  specOk : spec items p0 = s.outs ++ future s

theorem reported_append (a b : List Out) : reported (a ++ b) = reported a ++ reported b := by
  induction a with
  | nil => rfl
  | cons x a ih => cases x <;> simp [reported, ih]

theorem inv_init (items : List Nat) (prog : List Cmd) : Inv items prog (init items prog) := by
  constructor <;> simp [init, PPc.afterCloseItems, PPc.inVisit, CPc.afterCloseNext, couple,
    PPc.waiting, PPc.pastVisit, reported, CPc.inflight, future]

/-- the invariant is preserved by every step of every goroutine -/
theorem inv_step {items : List Nat} {p0 : List Cmd} {s s' : State}
    (h : Inv items p0 s) (st : Step s s') : Inv items p0 s' := by
  obtain ⟨cpc, prog, ppc, todo, nc, ic, cf, pin, pan, outs⟩ := s
  obtain ⟨h0, h1, h2, h3, h4, h5, h6, h7, h8, h9⟩ := h
  simp only at h0 h1 h2 h3 h4 h5 h6 h7 h8 h9
  subst h0 h1 h2 h3
  -- the coupling leaves 28 combinations of (consumer pc, producer pc, it.closed)
  cases cpc <;> cases ppc <;> cases cf <;>
    simp [couple, PPc.waiting, PPc.afterCloseItems, CPc.afterCloseNext] at h5 h4 <;>
    simp [Step, enabled, consumerSteps, jointSteps, producerSteps, PPc.afterCloseItems,
      CPc.afterCloseNext] at st
  all_goals
    rcases prog with _ | ⟨_ | _, r⟩ <;> rcases todo with _ | ⟨i, t⟩ <;> (try simp at st)
  all_goals
    first
    | (subst st)
    | (rcases st with rfl | rfl)
  all_goals
    refine ⟨rfl, rfl, rfl, rfl, by simp, rfl, ?_, ?_, ?_, ?_⟩ <;>
      simp_all [PPc.pastVisit, CPc.afterCloseNext, CPc.inflight, future, spec, specClosed,
        reported, reported_append]

theorem reach_inv {items : List Nat} {p0 : List Cmd} {s : State} (hr : Reach items p0 s) :
    Inv items p0 s := by
  induction hr with
  | init => exact inv_init items p0
  | step _ st ih => exact inv_step ih st

/-! ### no panic -/

/-- NO PANIC.  In no reachable state has a goroutine panicked: `it.next` and `it.items` are closed
at most once each and nobody ever sends on a closed channel. -/
theorem no_panic {items : List Nat} {p0 : List Cmd} {s : State} (hr : Reach items p0 s) :
    s.panicked = false :=
  (reach_inv hr).noPanic

/-! ### progress (no deadlock) -/

theorem step_of_enabled_ne_nil {s : State} (h : enabled s ≠ []) : ∃ s', Step s s' := by
  obtain ⟨s', hs'⟩ := List.exists_mem_of_ne_nil _ h
  exact ⟨s', hs'⟩

theorem inv_progress {items : List Nat} {p0 : List Cmd} {s : State} (h : Inv items p0 s) :
    enabled s ≠ [] ∨ Done s := by
  obtain ⟨cpc, prog, ppc, todo, nc, ic, cf, pin, pan, outs⟩ := s
  obtain ⟨h0, h1, h2, h3, h4, h5, h6, h7, h8, h9⟩ := h
  simp only at h0 h1 h2 h3 h4 h5 h6 h7 h8 h9
  subst h0 h1 h2 h3
  cases cpc <;> cases ppc <;> cases cf <;>
    simp [couple, PPc.waiting, PPc.afterCloseItems, CPc.afterCloseNext] at h5 h4 <;>
    rcases prog with _ | ⟨_ | _, r⟩ <;> rcases todo with _ | ⟨i, t⟩ <;>
    simp_all [enabled, consumerSteps, jointSteps, producerSteps, Done, PPc.waiting,
      PPc.afterCloseItems, CPc.afterCloseNext]

/-- PROGRESS / NO DEADLOCK.  A reachable state either has a successor, or it is `Done`: the
consumer has finished its program and the producer goroutine has exited or — only if the program
neither closed nor exhausted the iterator (an abandoned iterator) — is blocked waiting for the next
token.  There is no other stuck state. -/
theorem progress {items : List Nat} {p0 : List Cmd} {s : State} (hr : Reach items p0 s) :
    (∃ s', Step s s') ∨ Done s :=
  (inv_progress (reach_inv hr)).imp step_of_enabled_ne_nil id

theorem inv_done_stuck {items : List Nat} {p0 : List Cmd} {s : State} (h : Inv items p0 s)
    (hd : Done s) : enabled s = [] := by
  obtain ⟨cpc, prog, ppc, todo, nc, ic, cf, pin, pan, outs⟩ := s
  obtain ⟨h0, h1, h2, h3, h4, h5, h6, h7, h8, h9⟩ := h
  obtain ⟨d1, d2, d3⟩ := hd
  simp only at h0 h1 h2 h3 h4 h5 h6 h7 h8 h9 d1 d2 d3
  subst h0 h1 h2 h3 d1 d2
  cases ppc <;> cases cf <;>
    simp_all [couple, PPc.waiting, enabled, consumerSteps, jointSteps, producerSteps,
      CPc.afterCloseNext]

/-- The `Done` states are exactly the reachable states without successor. -/
theorem stuck_iff_done {items : List Nat} {p0 : List Cmd} {s : State} (hr : Reach items p0 s) :
    enabled s = [] ↔ Done s := by
  constructor
  · intro h
    rcases inv_progress (reach_inv hr) with h' | h'
    · exact absurd h h'
    · exact h'
  · exact inv_done_stuck (reach_inv hr)

/-- On reachable states the model's decidable `final` coincides with `Done`: a finished consumer
with an iterator that was neither closed nor exhausted always leaves the producer blocked on
`<-it.next` (never in the middle of the visit). -/
theorem final_iff_done {items : List Nat} {p0 : List Cmd} {s : State} (hr : Reach items p0 s) :
    final s ↔ Done s := by
  have h := reach_inv hr
  obtain ⟨cpc, prog, ppc, todo, nc, ic, cf, pin, pan, outs⟩ := s
  obtain ⟨h0, h1, h2, h3, h4, h5, h6, h7, h8, h9⟩ := h
  simp only at h0 h1 h2 h3 h4 h5 h6 h7 h8 h9
  subst h0 h1 h2 h3
  cases cpc <;> cases ppc <;> cases cf <;>
    simp_all [couple, PPc.waiting, final, Done, CPc.afterCloseNext, PPc.afterCloseItems]

/-! ### termination -/

theorem consumer_decreases {s s' : State} (hp : s.panicked = false) (st : s' ∈ consumerSteps s) :
    μ s' < μ s := by
  obtain ⟨cpc, prog, ppc, todo, nc, ic, cf, pin, pan, outs⟩ := s
  simp only at hp; subst hp
  cases cpc <;> simp only [consumerSteps] at st
  case idle =>
    rcases prog with _ | ⟨_ | _, r⟩ <;> cases cf <;> simp at st <;> subst st <;>
      simp [μ, CPc.weight] <;> omega
  all_goals
    cases nc <;> cases ic <;> simp at st <;> subst st <;> simp [μ, CPc.weight]

theorem joint_decreases {s s' : State} (st : s' ∈ jointSteps s) : μ s' < μ s := by
  obtain ⟨cpc, prog, ppc, todo, nc, ic, cf, pin, pan, outs⟩ := s
  cases cpc <;> cases ppc <;> simp only [jointSteps] at st <;> (try simp at st)
  all_goals
    cases nc <;> cases ic <;> rcases todo with _ | ⟨i, t⟩ <;> simp at st <;> subst st <;>
      simp [μ, CPc.weight, PPc.weight] <;> omega

theorem producer_decreases {s s' : State} (hp : s.panicked = false) (st : s' ∈ producerSteps s) :
    μ s' < μ s := by
  obtain ⟨cpc, prog, ppc, todo, nc, ic, cf, pin, pan, outs⟩ := s
  simp only at hp; subst hp
  cases ppc <;> simp only [producerSteps] at st
  all_goals
    cases nc <;> cases ic <;> rcases todo with _ | ⟨i, t⟩ <;> simp at st <;> subst st <;>
      simp [μ, PPc.weight]

/-- a step is a consumer step, a rendezvous or a producer step, of a state that has not panicked -/
theorem step_cases {s s' : State} (st : Step s s') :
    s.panicked = false ∧ (s' ∈ consumerSteps s ∨ s' ∈ jointSteps s ∨ s' ∈ producerSteps s) := by
  unfold Step enabled at st
  cases hp : s.panicked
  · simpa [hp, or_assoc] using st
  · simp [hp] at st

/-- TERMINATION.  Every step — of ANY state, reachable or not — strictly decreases the natural
number `μ`; so there is no infinite execution, whatever the scheduler does. -/
theorem terminates {s s' : State} (st : Step s s') : μ s' < μ s := by
  obtain ⟨hp, h | h | h⟩ := step_cases st
  · exact consumer_decreases hp h
  · exact joint_decreases h
  · exact producer_decreases hp h

/-- the same statement under the name used in the model file -/
theorem measure_decreases {s s' : State} (st : Step s s') : μ s' < μ s := terminates st

/-- executions of exactly `n` steps -/
inductive Exec : Nat → State → State → Prop where
  | refl (s : State) : Exec 0 s s
  | step {n : Nat} {s s' s'' : State} : Step s s' → Exec n s' s'' → Exec (n + 1) s s''

/-- Every execution that starts in `s` has at most `μ s` steps. -/
theorem exec_bounded {n : Nat} {s s' : State} (h : Exec n s s') : n + μ s' ≤ μ s := by
  induction h with
  | refl => simp
  | step st _ ih => have := measure_decreases st; omega

theorem exec_reach {items : List Nat} {p0 : List Cmd} {n : Nat} {s s' : State}
    (hr : Reach items p0 s) (h : Exec n s s') : Reach items p0 s' := by
  induction h with
  | refl => exact hr
  | step st _ ih => exact ih (hr.step st)

theorem run_reach {items : List Nat} {p0 : List Cmd} (n : Nat) {s : State}
    (hr : Reach items p0 s) : Reach items p0 (run n s) := by
  induction n generalizing s with
  | zero => exact hr
  | succ n ih =>
    unfold run
    split
    · exact hr
    · rename_i s' rest he
      exact ih (hr.step (by simp [Step, he]))

theorem run_stuck (n : Nat) (s : State) (h : μ s ≤ n) : enabled (run n s) = [] := by
  induction n generalizing s with
  | zero =>
    unfold run
    cases he : enabled s with
    | nil => rfl
    | cons s' rest =>
      have : μ s' < μ s := measure_decreases (by simp [Step, he])
      omega
  | succ n ih =>
    unfold run
    split
    · assumption
    · rename_i s' rest he
      have : μ s' < μ s := measure_decreases (by simp [Step, he])
      exact ih s' (by omega)

/-- From every reachable state the handshake completes: the first-enabled scheduler, given `μ s`
units of fuel, ends in a reachable `Done` state.  (By `progress` and `exec_bounded` EVERY maximal
execution ends in a `Done` state after at most `μ s` steps.) -/
theorem run_done {items : List Nat} {p0 : List Cmd} {s : State} (hr : Reach items p0 s) :
    Reach items p0 (run (μ s) s) ∧ Done (run (μ s) s) :=
  ⟨run_reach _ hr, (stuck_iff_done (run_reach _ hr)).1 (run_stuck _ _ (Nat.le_refl _))⟩

/-- Every maximal execution ends in a `Done` state: if no step is possible after an execution from
the initial state, the state reached is `Done`. -/
theorem maximal_exec_done {items : List Nat} {p0 : List Cmd} {n : Nat} {s : State}
    (h : Exec n (init items p0) s) (hmax : ∀ s', ¬ Step s s') :
    Done s ∧ n ≤ μ (init items p0) := by
  refine ⟨?_, by have := exec_bounded h; omega⟩
  rcases progress (exec_reach .init h) with ⟨s', hs'⟩ | hd
  · exact absurd hs' (hmax s')
  · exact hd

/-! ### the producer goroutine exits and releases its pin -/

/-- PRODUCER EXITS.  In a reachable `Done` state in which the iterator was closed or exhausted
(`it.closed` is set: `Close()` was called or a `Next()` returned false), the producer goroutine has
returned and the version pin taken by the visit has been released: no goroutine leak, no pin leak. -/
theorem producer_exits {items : List Nat} {p0 : List Cmd} {s : State} (hr : Reach items p0 s)
    (hd : Done s) (hc : s.closedFlag = true) : s.ppc = .pExited ∧ s.pinned = false := by
  have hp : s.ppc = .pExited := by
    rcases hd.2.2 with h | ⟨h, _⟩
    · exact h
    · simp [hc] at h
  exact ⟨hp, by rw [(reach_inv hr).pin, hp]; rfl⟩

/-- More generally the pin is held exactly while the producer is inside the visit, so in every
reachable state in which the goroutine has exited (or has not yet started the visit) no pin is
held. -/
theorem pinned_iff_in_visit {items : List Nat} {p0 : List Cmd} {s : State}
    (hr : Reach items p0 s) : s.pinned = s.ppc.inVisit :=
  (reach_inv hr).pin

/-- If the program ends with the iterator closed or exhausted, then EVERY maximal execution ends
with the producer exited and the pin released. -/
theorem closed_program_no_leak {items : List Nat} {p0 : List Cmd} {n : Nat} {s : State}
    (h : Exec n (init items p0) s) (hmax : ∀ s', ¬ Step s s') (hc : s.closedFlag = true) :
    s.ppc = .pExited ∧ s.pinned = false :=
  producer_exits (exec_reach .init h) (maximal_exec_done h hmax).1 hc

/-! ### after the end: `Next` returns false without touching the channels -/

/-- `it.closed` is never reset. -/
theorem closedFlag_stable {s s' : State} (st : Step s s') (hc : s.closedFlag = true) :
    s'.closedFlag = true := by
  obtain ⟨cpc, prog, ppc, todo, nc, ic, cf, pin, pan, outs⟩ := s
  simp only at hc; subst hc
  obtain ⟨-, h | h | h⟩ := step_cases st
  · cases cpc <;> simp only [consumerSteps] at h
    case idle => rcases prog with _ | ⟨_ | _, r⟩ <;> simp at h <;> subst h <;> rfl
    all_goals cases nc <;> cases ic <;> simp at h <;> subst h <;> rfl
  · cases cpc <;> cases ppc <;> simp only [jointSteps] at h <;> (try simp at h)
    all_goals
      cases nc <;> cases ic <;> rcases todo with _ | ⟨i, t⟩ <;> simp at h <;> subst h <;> rfl
  · cases ppc <;> simp only [producerSteps] at h
    all_goals
      cases nc <;> cases ic <;> rcases todo with _ | ⟨i, t⟩ <;> simp at h <;> subst h <;> rfl

/-- Once `it.closed` is set the consumer is between two commands (it is never inside a `Next` or
`Close` that still has channel operations ahead) and `it.next` is closed. -/
theorem closed_consumer_idle {items : List Nat} {p0 : List Cmd} {s : State}
    (hr : Reach items p0 s) (hc : s.closedFlag = true) : s.cpc = .idle ∧ s.nextClosed = true := by
  have h := reach_inv hr
  exact ⟨h.closedIdle hc, by rw [h.nextCl, hc]; rfl⟩

/-- what a command reports on a closed iterator -/
def Cmd.closedResult : Cmd → Out
  | .next => .nextFalse
  | .close => .closed

/-- Local form (no reachability needed): with `it.closed` set, the only move of a consumer that is
about to execute `Next()` is to report `nextFalse`; all other components of the state — in
particular both channels — are unchanged, and no rendezvous is possible. -/
theorem next_when_closed_local (s : State) (r : List Cmd) (hc : s.closedFlag = true)
    (hi : s.cpc = .idle) (hp : s.prog = .next :: r) :
    consumerSteps s = [{ s with prog := r, outs := s.outs ++ [.nextFalse] }] ∧ jointSteps s = [] := by
  obtain ⟨cpc, prog, ppc, todo, nc, ic, cf, pin, pan, outs⟩ := s
  simp only at hc hi hp; subst hc hi hp
  simp [consumerSteps, jointSteps]

/-- NEXT AFTER THE END.  Let `s` be reachable with `it.closed` set (the iterator was closed or
exhausted).  Then every step from `s` keeps `it.closed` set and is
 * either a step of the producer alone (consumer pc, program and outputs unchanged),
 * or the consumer pops its next command `c` and reports `nextFalse` (for `Next`) resp. `closed`
   (for `Close`), and NOTHING else changes: no channel operation, no rendezvous, no close.
By induction (`closedFlag_stable`) every later `Next()` returns false. -/
theorem next_after_end_false {items : List Nat} {p0 : List Cmd} {s s' : State}
    (hr : Reach items p0 s) (hc : s.closedFlag = true) (st : Step s s') :
    s'.closedFlag = true ∧
      ((s'.cpc = s.cpc ∧ s'.prog = s.prog ∧ s'.outs = s.outs ∧ s'.nextClosed = s.nextClosed) ∨
        ∃ c r, s.prog = c :: r ∧
          s' = { s with prog := r, outs := s.outs ++ [c.closedResult] }) := by
  refine ⟨closedFlag_stable st hc, ?_⟩
  have hi := (closed_consumer_idle hr hc).1
  obtain ⟨cpc, prog, ppc, todo, nc, ic, cf, pin, pan, outs⟩ := s
  simp only at hc hi; subst hc hi
  obtain ⟨-, h | h | h⟩ := step_cases st
  · right
    rcases prog with _ | ⟨_ | _, r⟩ <;> simp [consumerSteps] at h <;> subst h
    · exact ⟨.next, r, rfl, rfl⟩
    · exact ⟨.close, r, rfl, rfl⟩
  · cases ppc <;> simp [jointSteps] at h
  · left
    cases ppc <;> simp only [producerSteps] at h
    all_goals
      cases nc <;> cases ic <;> rcases todo with _ | ⟨i, t⟩ <;> simp at h <;> subst h <;> simp

/-! ### the reported items -/

/-- REPORTED ITEMS.  In every reachable state the items reported so far by `Next() = true`, in
order, form a prefix of `items`; more precisely `items` is: the reported items, then the item the
consumer has received but not yet returned (if any), then what the visit still has to deliver. -/
theorem outputs_prefix {items : List Nat} {p0 : List Cmd} {s : State} (hr : Reach items p0 s) :
    reported s.outs <+: items ∧ reported s.outs ++ s.cpc.inflight ++ s.todo = items := by
  have h := (reach_inv hr).acct
  refine ⟨⟨s.cpc.inflight ++ s.todo, ?_⟩, h⟩
  rw [← List.append_assoc]; exact h

theorem specClosed_reported (p : List Cmd) (pre post : List Out) (h : specClosed p = pre ++ post) :
    reported pre = [] := by
  induction p generalizing pre with
  | nil =>
    simp [specClosed] at h
    simp [h.1, reported]
  | cons c p ih =>
    cases pre with
    | nil => rfl
    | cons x pre =>
      cases c <;> simp [specClosed] at h <;> obtain ⟨rfl, h⟩ := h <;>
        simpa [reported] using ih pre h

theorem spec_nextFalse (todo : List Nat) (p : List Cmd) (pre post : List Out)
    (h : spec todo p = pre ++ .nextFalse :: post) (hc : Out.closed ∉ pre) :
    reported pre = todo := by
  induction p generalizing todo pre with
  | nil => simp [spec] at h
  | cons c p ih =>
    cases c with
    | close =>
      cases pre with
      | nil => simp [spec] at h
      | cons x pre =>
        simp [spec] at h
        simp [h.1] at hc
    | next =>
      cases todo with
      | nil =>
        cases pre with
        | nil => rfl
        | cons x pre =>
          simp [spec] at h
          obtain ⟨rfl, h⟩ := h
          simpa [reported] using specClosed_reported p pre _ h
      | cons i t =>
        cases pre with
        | nil => simp [spec] at h
        | cons x pre =>
          simp [spec] at h
          obtain ⟨rfl, h⟩ := h
          have := ih t pre h (by intro hm; exact hc (List.mem_cons_of_mem _ hm))
          simp [reported, this]

/-- EXHAUSTION.  Whenever the outputs so far contain a `nextFalse` that is not preceded by a
`closed` (a `Next()` returned false although the program had not called `Close()`: the iterator
reported exhaustion), ALL items had been reported before it. -/
theorem nextFalse_exhaustion {items : List Nat} {p0 : List Cmd} {s : State}
    (hr : Reach items p0 s) (pre post : List Out) (ho : s.outs = pre ++ .nextFalse :: post)
    (hc : Out.closed ∉ pre) : reported pre = items := by
  have h := (reach_inv hr).specOk
  rw [ho, List.append_assoc, List.cons_append] at h
  exact spec_nextFalse items p0 pre _ h hc

/-! ### all interleavings give the sequential results -/

/-- In a reachable `Done` state the observable results are exactly those of the sequential
specification: each `Next()` on the open iterator reports the next item, the first `Next()` after
the last item reports false, `Close()` reports `closed`, and after either of the latter every
`Next()` reports false. -/
theorem done_outs_eq_spec {items : List Nat} {p0 : List Cmd} {s : State} (hr : Reach items p0 s)
    (hd : Done s) : s.outs = spec items p0 := by
  have h := (reach_inv hr).specOk
  obtain ⟨d1, d2, -⟩ := hd
  have hf : future s = [] := by
    unfold future
    rw [d1, d2]
    cases s.closedFlag <;> simp [spec, specClosed]
  rw [h, hf, List.append_nil]

/-- The executable runner computes the sequential specification. -/
theorem outputs_eq_spec (items : List Nat) (p0 : List Cmd) : outputs items p0 = spec items p0 := by
  obtain ⟨hr, hd⟩ := run_done (Reach.init (items := items) (prog := p0))
  exact done_outs_eq_spec hr hd

/-- DETERMINISM OF OBSERVABLES.  Whatever the interleaving, every reachable `Done` state carries
the same outputs, namely those computed by the executable first-enabled runner `outputs`. -/
theorem observable_deterministic {items : List Nat} {p0 : List Cmd} {s : State}
    (hr : Reach items p0 s) (hd : Done s) : s.outs = outputs items p0 := by
  rw [outputs_eq_spec]; exact done_outs_eq_spec hr hd

/-- In every reachable state the outputs so far are a prefix of the final outputs. -/
theorem outs_prefix_outputs {items : List Nat} {p0 : List Cmd} {s : State}
    (hr : Reach items p0 s) : s.outs <+: outputs items p0 := by
  rw [outputs_eq_spec, (reach_inv hr).specOk]
  exact List.prefix_append _ _

/-! ### non-vacuity -/

open Cmd Out in
/-- the results of `[Next, Next, Close, Next]` on three items -/
example : outputs [1, 2, 3] [next, next, close, next] =
    [nextTrue 1, nextTrue 2, closed, nextFalse] := by decide

open Cmd Out in
/-- exhaustion: the fourth `Next` reports false, and so does the fifth; `Close` is then a no-op -/
example : outputs [1, 2, 3] [next, next, next, next, next, close] =
    [nextTrue 1, nextTrue 2, nextTrue 3, nextFalse, nextFalse, closed] := by decide

open Cmd Out in
/-- an abandoned iterator: the program stops after one `Next` -/
example : outputs [1, 2, 3] [next] = [nextTrue 1] := by decide

/-- a concrete reachable `Done` state with the producer exited and the pin released -/
example : ∃ s, Reach [1, 2, 3] [.next, .next, .close, .next] s ∧ Done s ∧
    s.closedFlag = true ∧ s.ppc = .pExited ∧ s.pinned = false ∧ s.todo = [3] :=
  ⟨run 42 (init [1, 2, 3] [.next, .next, .close, .next]), run_reach _ .init, by decide, by decide,
    by decide, by decide, by decide⟩

/-- the producer-first scheduler reaches the same `Done` state -/
example : runLast 42 (init [1, 2, 3] [.next, .next, .close, .next]) =
    run 42 (init [1, 2, 3] [.next, .next, .close, .next]) := by decide

/-- an abandoned iterator ends in a `Done` state with the producer blocked (and still pinned): the
case the leak theorems exclude -/
example : ∃ s, Reach [1, 2, 3] [.next] s ∧ Done s ∧ s.closedFlag = false ∧
    s.ppc = .pWaitNext ∧ s.pinned = true :=
  ⟨run 42 (init [1, 2, 3] [.next]), run_reach _ .init, by decide, by decide, by decide, by decide⟩

/-- interleaving is real: right after `close(it.next)` both the consumer (`it.closed = true`) and
the producer (wake up with ok = false) can move -/
example : (enabled (run 8 (init [1, 2, 3] [.next, .close]))).length = 2 := by decide

/-- exhaustive check of a small instance: ALL maximal executions (15 interleavings) end `Done`,
with the same outputs -/
example : (explore 60 (init [1, 2] [.next, .close, .next])).length = 15 ∧
    ∀ s ∈ explore 60 (init [1, 2] [.next, .close, .next]),
      Done s ∧ s.ppc = .pExited ∧ s.pinned = false ∧
        s.outs = [.nextTrue 1, .closed, .nextFalse] := by decide

end Gkv.Iter

/-
`#print axioms` (Lean 4.33.0) for each theorem above:

'Gkv.Iter.no_panic' depends on axioms: [propext, Quot.sound]
'Gkv.Iter.progress' depends on axioms: [propext, Quot.sound]
'Gkv.Iter.stuck_iff_done' depends on axioms: [propext, Quot.sound]
'Gkv.Iter.final_iff_done' depends on axioms: [propext, Quot.sound]
'Gkv.Iter.terminates' depends on axioms: [propext, Classical.choice, Quot.sound]
'Gkv.Iter.exec_bounded' depends on axioms: [propext, Classical.choice, Quot.sound]
'Gkv.Iter.run_done' depends on axioms: [propext, Classical.choice, Quot.sound]
'Gkv.Iter.maximal_exec_done' depends on axioms: [propext, Classical.choice, Quot.sound]
'Gkv.Iter.producer_exits' depends on axioms: [propext, Quot.sound]
'Gkv.Iter.pinned_iff_in_visit' depends on axioms: [propext, Quot.sound]
'Gkv.Iter.closed_program_no_leak' depends on axioms: [propext, Classical.choice, Quot.sound]
'Gkv.Iter.closedFlag_stable' depends on axioms: [propext, Quot.sound]
'Gkv.Iter.closed_consumer_idle' depends on axioms: [propext, Quot.sound]
'Gkv.Iter.next_when_closed_local' depends on axioms: [propext]
'Gkv.Iter.next_after_end_false' depends on axioms: [propext, Quot.sound]
'Gkv.Iter.outputs_prefix' depends on axioms: [propext, Quot.sound]
'Gkv.Iter.nextFalse_exhaustion' depends on axioms: [propext, Quot.sound]
'Gkv.Iter.done_outs_eq_spec' depends on axioms: [propext, Quot.sound]
'Gkv.Iter.outputs_eq_spec' depends on axioms: [propext, Classical.choice, Quot.sound]
'Gkv.Iter.observable_deterministic' depends on axioms: [propext, Classical.choice, Quot.sound]
'Gkv.Iter.outs_prefix_outputs' depends on axioms: [propext, Classical.choice, Quot.sound]
-/
