/-
Flush is append-only and changes nothing but file locations — with or without an injected write
fault (properties C01, C07, C09).  Every statement is for an arbitrary `FileSt`, i.e. whatever the
fault plan `failAt`/`torn`/`failed` is.
-/
import Gkv.Model.Store
open Std

namespace Gkv

/-- forget the file locations: what the API can observe of a tree -/
def Tree.eraseLocs : Tree → Tree
  | .nil => .nil
  | .node l i a b r _ _ => .node l.eraseLocs i a b r.eraseLocs none none

/-- every write in the log starts at or beyond `lo` -/
def LogFrom (lo : Nat) (log : List FileEv) : Prop :=
  ∀ e ∈ log, match e with | .write off _ => lo ≤ off | .trunc _ => False

/-! ### `LogFrom` -/

theorem LogFrom.nil (lo : Nat) : LogFrom lo [] := by
  intro e he; cases he

theorem LogFrom.single (lo off len : Nat) (h : lo ≤ off) : LogFrom lo [.write off len] := by
  intro e he
  simp only [List.mem_singleton] at he
  subst he
  exact h

theorem LogFrom.append {lo : Nat} {a b : List FileEv} (ha : LogFrom lo a) (hb : LogFrom lo b) :
    LogFrom lo (a ++ b) := by
  intro e he
  rcases List.mem_append.mp he with h | h
  · exact ha e h
  · exact hb e h

theorem LogFrom.mono {lo lo' : Nat} {a : List FileEv} (h : lo ≤ lo') (ha : LogFrom lo' a) :
    LogFrom lo a := by
  intro e he
  have := ha e he
  cases e with
  | write off len => exact Nat.le_trans h this
  | trunc n => exact this

/-! ### `writeAt` on bytes -/

theorem length_writeAt_ge (f b : Bytes) (off : Nat) : f.length ≤ (writeAt f off b).length := by
  unfold writeAt
  simp only [List.length_append, List.length_take, List.length_drop]
  omega

theorem length_writeAt_end (f b : Bytes) (off : Nat) (h : off ≤ f.length) :
    off + b.length ≤ (writeAt f off b).length := by
  unfold writeAt
  simp only [List.length_append, List.length_take, List.length_drop]
  omega

theorem take_writeAt_below (f b : Bytes) (off E : Nat) (h : E ≤ off) (hf : E ≤ f.length) :
    (writeAt f off b).take E = f.take E := by
  unfold writeAt
  rw [List.append_assoc, List.take_append_of_le_length (by rw [List.length_take]; omega),
    List.take_take, Nat.min_eq_left h]

/-! ### one `WriteAt` -/

theorem writeAtOff_size (s : FileSt) (off : Nat) (b : Bytes) :
    (s.writeAtOff off b).size = s.size := by
  unfold FileSt.writeAtOff
  split
  · rfl
  · split <;> rfl

theorem writeAtOff_failed_id (s : FileSt) (off : Nat) (b : Bytes) (h : s.failed = true) :
    s.writeAtOff off b = s := by
  unfold FileSt.writeAtOff
  rw [if_pos h]

theorem advance_failed_id (s : FileSt) (n : Nat) (h : s.failed = true) : s.advance n = s := by
  unfold FileSt.advance
  rw [if_pos h]

/-- a write that did not fail was not preceded by a failure and landed completely -/
theorem writeAtOff_ok (s : FileSt) (off : Nat) (b : Bytes)
    (h : (s.writeAtOff off b).failed = false) :
    s.failed = false ∧ (s.writeAtOff off b).bytes = writeAt s.bytes off b := by
  unfold FileSt.writeAtOff at h ⊢
  split at h
  · next hf => rw [hf] at h; cases h
  · next hf =>
    rw [if_neg hf]
    refine ⟨by simpa using hf, ?_⟩
    split at h
    · cases h
    · rfl
    · rfl

theorem writeAtOff_length_ge (s : FileSt) (off : Nat) (b : Bytes) :
    s.bytes.length ≤ (s.writeAtOff off b).bytes.length := by
  unfold FileSt.writeAtOff
  split
  · exact Nat.le_refl _
  · split
    · dsimp only
      split
      · exact Nat.le_refl _
      · exact length_writeAt_ge _ _ _
    · exact length_writeAt_ge _ _ _
    · exact length_writeAt_ge _ _ _

/-! ### the frame relation -/

/-- `s'` is reachable from `s` by appending only -/
structure Frame (s s' : FileSt) : Prop where
  size_mono : s.size ≤ s'.size
  log : ∃ new, s'.log = s.log ++ new ∧ LogFrom s.size new
  pre : ∀ E, E ≤ s.size → E ≤ s.bytes.length → s'.bytes.take E = s.bytes.take E
  len : s.bytes.length ≤ s'.bytes.length
  noplan : s.failed = false → s.failAt = none → s'.failed = false ∧ s'.failAt = none

theorem Frame.refl (s : FileSt) : Frame s s :=
  ⟨Nat.le_refl _, ⟨[], by rw [List.append_nil], LogFrom.nil _⟩, fun _ _ _ => rfl, Nat.le_refl _,
    fun h1 h2 => ⟨h1, h2⟩⟩

theorem Frame.trans {a b c : FileSt} (h1 : Frame a b) (h2 : Frame b c) : Frame a c := by
  refine ⟨Nat.le_trans h1.size_mono h2.size_mono, ?_, ?_, Nat.le_trans h1.len h2.len, ?_⟩
  · obtain ⟨n1, e1, l1⟩ := h1.log
    obtain ⟨n2, e2, l2⟩ := h2.log
    refine ⟨n1 ++ n2, ?_, LogFrom.append l1 (LogFrom.mono h1.size_mono l2)⟩
    rw [e2, e1, List.append_assoc]
  · intro E hE hl
    rw [h2.pre E (Nat.le_trans hE h1.size_mono) (Nat.le_trans hl h1.len), h1.pre E hE hl]
  · intro hf hp
    obtain ⟨hf', hp'⟩ := h1.noplan hf hp
    exact h2.noplan hf' hp'

theorem frame_writeAtOff (s : FileSt) (off : Nat) (b : Bytes) (h : s.size ≤ off) :
    Frame s (s.writeAtOff off b) := by
  refine ⟨by rw [writeAtOff_size]; exact Nat.le_refl _, ?_, ?_, writeAtOff_length_ge s off b, ?_⟩
  · unfold FileSt.writeAtOff
    split
    · exact ⟨[], by rw [List.append_nil], LogFrom.nil _⟩
    · split
      · dsimp only
        split
        · exact ⟨[], by rw [List.append_nil], LogFrom.nil _⟩
        · exact ⟨_, rfl, LogFrom.single _ _ _ h⟩
      · exact ⟨_, rfl, LogFrom.single _ _ _ h⟩
      · exact ⟨_, rfl, LogFrom.single _ _ _ h⟩
  · intro E hE hl
    unfold FileSt.writeAtOff
    split
    · rfl
    · split
      · dsimp only
        split
        · rfl
        · exact take_writeAt_below _ _ _ _ (Nat.le_trans hE h) hl
      · exact take_writeAt_below _ _ _ _ (Nat.le_trans hE h) hl
      · exact take_writeAt_below _ _ _ _ (Nat.le_trans hE h) hl
  · intro hf hp
    unfold FileSt.writeAtOff
    rw [hf, hp]
    exact ⟨rfl, rfl⟩

theorem frame_write (s : FileSt) (b : Bytes) : Frame s (s.write b) :=
  frame_writeAtOff s s.size b (Nat.le_refl _)

theorem frame_advance (s : FileSt) (n : Nat) : Frame s (s.advance n) := by
  unfold FileSt.advance
  split
  · exact Frame.refl s
  · exact ⟨Nat.le_add_right _ _, ⟨[], by rw [List.append_nil], LogFrom.nil _⟩, fun _ _ _ => rfl,
      Nat.le_refl _, fun h1 h2 => ⟨h1, h2⟩⟩

/-- one record written as a single `WriteAt`, then `size` advanced -/
theorem frame_write_advance (s : FileSt) (b : Bytes) (n : Nat) :
    Frame s ((s.write b).advance n) :=
  (frame_write s b).trans (frame_advance _ n)

/-- one item record: header+key, then the value right behind it, then `size` advanced -/
theorem frame_item (s : FileSt) (h v : Bytes) (n : Nat) :
    Frame s (((s.write h).writeAtOff (s.size + h.length) v).advance n) := by
  refine ((frame_write s h).trans (frame_writeAtOff _ _ v ?_)).trans (frame_advance _ n)
  unfold FileSt.write
  rw [writeAtOff_size]
  exact Nat.le_add_right _ _

/-! ### `size ≤ |bytes|` -/

/-- the store's `size` never points beyond the end of the file -/
def FileSt.Wf (s : FileSt) : Prop := s.size ≤ s.bytes.length

theorem wf_writeAtOff (s : FileSt) (off : Nat) (b : Bytes) (h : s.Wf) : (s.writeAtOff off b).Wf := by
  unfold FileSt.Wf at h ⊢
  rw [writeAtOff_size]
  exact Nat.le_trans h (writeAtOff_length_ge s off b)

theorem wf_advance (s : FileSt) (n : Nat) (h : s.Wf)
    (hn : s.failed = false → s.size + n ≤ s.bytes.length) : (s.advance n).Wf := by
  unfold FileSt.advance
  split
  · exact h
  · next hf => exact hn (by simpa using hf)

theorem wf_write_advance (s : FileSt) (b : Bytes) (n : Nat) (h : s.Wf) (hn : n ≤ b.length) :
    ((s.write b).advance n).Wf := by
  refine wf_advance _ n (wf_writeAtOff s _ b h) ?_
  intro hf
  unfold FileSt.write at hf ⊢
  obtain ⟨_, hb⟩ := writeAtOff_ok s s.size b hf
  rw [hb, writeAtOff_size]
  have := length_writeAt_end s.bytes b s.size h
  omega

theorem wf_item (s : FileSt) (h v : Bytes) (n : Nat) (hs : s.Wf) (hn : n ≤ h.length + v.length) :
    (((s.write h).writeAtOff (s.size + h.length) v).advance n).Wf := by
  refine wf_advance _ n (wf_writeAtOff _ _ v (wf_writeAtOff s _ h hs)) ?_
  intro hf
  unfold FileSt.write at hf ⊢
  obtain ⟨hf1, hb2⟩ := writeAtOff_ok _ _ v hf
  obtain ⟨_, hb1⟩ := writeAtOff_ok s s.size h hf1
  rw [hb2, hb1, writeAtOff_size, writeAtOff_size]
  have h1 := length_writeAt_end s.bytes h s.size hs
  have h2 := length_writeAt_end (writeAt s.bytes s.size h) v (s.size + h.length) h1
  omega

/-! ### record lengths -/

theorem length_be (w n : Nat) : (be w n).length = w := by
  induction w generalizing n with
  | zero => rfl
  | succ w ih => unfold be; rw [List.length_append, ih]; rfl

theorem length_encPloc (p : Option Ploc) : (encPloc p).length = 12 := by
  cases p <;> (unfold encPloc; rw [List.length_append, length_be, length_be])

theorem length_encNode (n : NodeRec) : (encNode n).length = nodeRecLen := by
  unfold encNode nodeRecLen
  simp only [List.length_append, length_be, length_encPloc]

theorem itemRecLen_le (i : Item) : itemRecLen i ≤ (encItemHdrKey i).length + i.val.length := by
  unfold itemRecLen encItemHdrKey itemHdrLen
  simp only [List.length_append, length_be]
  omega

/-! ### `writeItems` -/

theorem writeItems_frame (t : Tree) (s : FileSt) : Frame s (writeItems t s).2 := by
  induction t generalizing s with
  | nil => exact Frame.refl s
  | node l i a b r p q ihl ihr =>
    cases p with
    | some p => exact Frame.refl s
    | none =>
      cases q with
      | some il =>
        simp only [writeItems]
        exact (ihl s).trans (ihr _)
      | none =>
        simp only [writeItems]
        split
        · exact ihl s
        · split
          · exact (ihl s).trans (frame_item _ _ _ _)
          · exact ((ihl s).trans (frame_item _ _ _ _)).trans (ihr _)

theorem writeItems_wf (t : Tree) (s : FileSt) (h : s.Wf) : (writeItems t s).2.Wf := by
  induction t generalizing s with
  | nil => exact h
  | node l i a b r p q ihl ihr =>
    cases p with
    | some p => exact h
    | none =>
      cases q with
      | some il =>
        simp only [writeItems]
        exact ihr _ (ihl s h)
      | none =>
        simp only [writeItems]
        split
        · exact ihl s h
        · split
          · exact wf_item _ _ _ _ (ihl s h) (itemRecLen_le i)
          · exact ihr _ (wf_item _ _ _ _ (ihl s h) (itemRecLen_le i))

theorem writeItems_failed_id (t : Tree) (s : FileSt) (h : s.failed = true) :
    writeItems t s = (t, s) := by
  induction t generalizing s with
  | nil => rfl
  | node l i a b r p q ihl ihr =>
    cases p with
    | some p => rfl
    | none =>
      cases q with
      | some il =>
        simp only [writeItems]
        rw [ihl s h, ihr s h]
      | none =>
        simp only [writeItems]
        rw [ihl s h, if_pos h]

theorem writeItems_eraseLocs (t : Tree) (s : FileSt) : (writeItems t s).1.eraseLocs = t.eraseLocs := by
  induction t generalizing s with
  | nil => rfl
  | node l i a b r p q ihl ihr =>
    cases p with
    | some p => rfl
    | none =>
      cases q with
      | some il =>
        simp only [writeItems, Tree.eraseLocs]
        rw [ihl, ihr]
      | none =>
        simp only [writeItems]
        split
        · simp only [Tree.eraseLocs]; rw [ihl]
        · split
          · simp only [Tree.eraseLocs]; rw [ihl]
          · simp only [Tree.eraseLocs]; rw [ihl, ihr]

/-! ### `writeNodes` -/

theorem writeNodes_frame (t : Tree) (s : FileSt) : Frame s (writeNodes t s).2 := by
  induction t generalizing s with
  | nil => exact Frame.refl s
  | node l i a b r p q ihl ihr =>
    cases p with
    | some p => exact Frame.refl s
    | none =>
      simp only [writeNodes]
      split
      · exact (ihl s).trans (ihr _)
      · split
        · exact ((ihl s).trans (ihr _)).trans (frame_write_advance _ _ _)
        · exact ((ihl s).trans (ihr _)).trans (frame_write_advance _ _ _)

theorem writeNodes_wf (t : Tree) (s : FileSt) (h : s.Wf) : (writeNodes t s).2.Wf := by
  induction t generalizing s with
  | nil => exact h
  | node l i a b r p q ihl ihr =>
    cases p with
    | some p => exact h
    | none =>
      simp only [writeNodes]
      have h2 := ihr _ (ihl s h)
      split
      · exact h2
      · split
        · exact wf_write_advance _ _ _ h2 (Nat.le_of_eq (length_encNode _).symm)
        · exact wf_write_advance _ _ _ h2 (Nat.le_of_eq (length_encNode _).symm)

theorem writeNodes_failed_id (t : Tree) (s : FileSt) (h : s.failed = true) :
    writeNodes t s = (t, s) := by
  induction t generalizing s with
  | nil => rfl
  | node l i a b r p q ihl ihr =>
    cases p with
    | some p => rfl
    | none =>
      simp only [writeNodes]
      rw [ihl s h, ihr s h, if_pos h]

theorem writeNodes_eraseLocs (t : Tree) (s : FileSt) : (writeNodes t s).1.eraseLocs = t.eraseLocs := by
  induction t generalizing s with
  | nil => rfl
  | node l i a b r p q ihl ihr =>
    cases p with
    | some p => rfl
    | none =>
      simp only [writeNodes]
      split
      · simp only [Tree.eraseLocs]; rw [ihl, ihr]
      · split
        · simp only [Tree.eraseLocs]; rw [ihl, ihr]
        · simp only [Tree.eraseLocs]; rw [ihl, ihr]

/-! ### `writeTree` -/

theorem writeTree_frame (t : Tree) (s : FileSt) : Frame s (writeTree t s).2 := by
  simp only [writeTree]
  split
  · exact writeItems_frame t s
  · exact (writeItems_frame t s).trans (writeNodes_frame _ _)

theorem writeTree_wf (t : Tree) (s : FileSt) (h : s.Wf) : (writeTree t s).2.Wf := by
  simp only [writeTree]
  split
  · exact writeItems_wf t s h
  · exact writeNodes_wf _ _ (writeItems_wf t s h)

theorem writeTree_failed_id (t : Tree) (s : FileSt) (h : s.failed = true) :
    writeTree t s = (t, s) := by
  simp only [writeTree]
  rw [writeItems_failed_id t s h, if_pos h]

theorem writeTree_eraseLocs (t : Tree) (s : FileSt) : (writeTree t s).1.eraseLocs = t.eraseLocs := by
  simp only [writeTree]
  split
  · exact writeItems_eraseLocs t s
  · rw [writeNodes_eraseLocs, writeItems_eraseLocs]

theorem eraseLocs_toList (t : Tree) : t.eraseLocs.toList = t.toList := by
  induction t with
  | nil => rfl
  | node l i a b r p q ihl ihr => simp only [Tree.eraseLocs, Tree.toList]; rw [ihl, ihr]

/-! ### `flushColls`, `flushStore` -/

theorem flushColls_frame (cs : List Coll) (s : FileSt) : Frame s (flushColls cs s).2 := by
  induction cs generalizing s with
  | nil => exact Frame.refl s
  | cons c rest ih =>
    simp only [flushColls]
    split
    · exact writeTree_frame _ _
    · exact (writeTree_frame _ _).trans (ih _)

theorem flushColls_wf (cs : List Coll) (s : FileSt) (h : s.Wf) : (flushColls cs s).2.Wf := by
  induction cs generalizing s with
  | nil => exact h
  | cons c rest ih =>
    simp only [flushColls]
    split
    · exact writeTree_wf _ _ h
    · exact ih _ (writeTree_wf _ _ h)

theorem flushColls_failed_id (cs : List Coll) (s : FileSt) (h : s.failed = true) :
    flushColls cs s = (cs, s) := by
  cases cs with
  | nil => rfl
  | cons c rest =>
    simp only [flushColls]
    rw [writeTree_failed_id _ s h, if_pos h]

theorem flushColls_eraseLocs (cs : List Coll) (s : FileSt) :
    (flushColls cs s).1.map (fun c => (c.name, c.cmp, c.root.eraseLocs))
      = cs.map (fun c => (c.name, c.cmp, c.root.eraseLocs)) := by
  induction cs generalizing s with
  | nil => rfl
  | cons c rest ih =>
    simp only [flushColls]
    split
    · simp only [List.map_cons, writeTree_eraseLocs]
    · simp only [List.map_cons, writeTree_eraseLocs, ih]

theorem flushStore_frame (cs : List Coll) (s : FileSt) : Frame s (flushStore cs s).2 := by
  simp only [flushStore]
  split
  · exact flushColls_frame cs s
  · exact (flushColls_frame cs s).trans (frame_write_advance _ _ _)

theorem flushStore_wf (cs : List Coll) (s : FileSt) (h : s.Wf) : (flushStore cs s).2.Wf := by
  simp only [flushStore]
  split
  · exact flushColls_wf cs s h
  · exact wf_write_advance _ _ _ (flushColls_wf cs s h) (Nat.le_refl _)

theorem flushStore_eraseLocs (cs : List Coll) (s : FileSt) :
    (flushStore cs s).1.map (fun c => (c.name, c.cmp, c.root.eraseLocs))
      = cs.map (fun c => (c.name, c.cmp, c.root.eraseLocs)) := by
  simp only [flushStore]
  split
  · exact flushColls_eraseLocs cs s
  · exact flushColls_eraseLocs cs s

theorem flushStore_size_mono (cs : List Coll) (s : FileSt) : s.size ≤ (flushStore cs s).2.size :=
  (flushStore_frame cs s).size_mono

theorem flushStore_log (cs : List Coll) (s : FileSt) :
    ∃ new, (flushStore cs s).2.log = s.log ++ new ∧ LogFrom s.size new :=
  (flushStore_frame cs s).log

theorem flushStore_prefix (cs : List Coll) (s : FileSt) (hsz : s.size ≤ s.bytes.length) :
    (flushStore cs s).2.bytes.take s.size = s.bytes.take s.size :=
  (flushStore_frame cs s).pre s.size (Nat.le_refl _) hsz

theorem flushStore_size_le (cs : List Coll) (s : FileSt) (hsz : s.size ≤ s.bytes.length) :
    (flushStore cs s).2.size ≤ (flushStore cs s).2.bytes.length :=
  flushStore_wf cs s hsz

theorem flushStore_failed_id (cs : List Coll) (s : FileSt) (h : s.failed = true) :
    flushStore cs s = (cs, s) := by
  simp only [flushStore]
  rw [flushColls_failed_id cs s h, if_pos h]

theorem flushStore_no_plan (cs : List Coll) (s : FileSt) (h1 : s.failed = false)
    (h2 : s.failAt = none) :
    (flushStore cs s).2.failed = false ∧ (flushStore cs s).2.failAt = none :=
  (flushStore_frame cs s).noplan h1 h2

/-! ### the frame facts, spelled out per function

`Frame s s'` bundles: `size` only grows, the log is extended by writes at or beyond the old
`size`, bytes below the old `size` are untouched, the file never shrinks, no plan ⇒ no failure.
`FileSt.Wf s` is `s.size ≤ s.bytes.length`. -/

theorem writeItems_size_mono (t : Tree) (s : FileSt) : s.size ≤ (writeItems t s).2.size :=
  (writeItems_frame t s).size_mono
theorem writeItems_log (t : Tree) (s : FileSt) :
    ∃ new, (writeItems t s).2.log = s.log ++ new ∧ LogFrom s.size new :=
  (writeItems_frame t s).log
theorem writeItems_prefix (t : Tree) (s : FileSt) (hsz : s.size ≤ s.bytes.length) :
    (writeItems t s).2.bytes.take s.size = s.bytes.take s.size :=
  (writeItems_frame t s).pre s.size (Nat.le_refl _) hsz
theorem writeItems_size_le (t : Tree) (s : FileSt) (hsz : s.size ≤ s.bytes.length) :
    (writeItems t s).2.size ≤ (writeItems t s).2.bytes.length :=
  writeItems_wf t s hsz
theorem writeItems_no_plan (t : Tree) (s : FileSt) (h1 : s.failed = false) (h2 : s.failAt = none) :
    (writeItems t s).2.failed = false ∧ (writeItems t s).2.failAt = none :=
  (writeItems_frame t s).noplan h1 h2

theorem writeNodes_size_mono (t : Tree) (s : FileSt) : s.size ≤ (writeNodes t s).2.size :=
  (writeNodes_frame t s).size_mono
theorem writeNodes_log (t : Tree) (s : FileSt) :
    ∃ new, (writeNodes t s).2.log = s.log ++ new ∧ LogFrom s.size new :=
  (writeNodes_frame t s).log
theorem writeNodes_prefix (t : Tree) (s : FileSt) (hsz : s.size ≤ s.bytes.length) :
    (writeNodes t s).2.bytes.take s.size = s.bytes.take s.size :=
  (writeNodes_frame t s).pre s.size (Nat.le_refl _) hsz
theorem writeNodes_size_le (t : Tree) (s : FileSt) (hsz : s.size ≤ s.bytes.length) :
    (writeNodes t s).2.size ≤ (writeNodes t s).2.bytes.length :=
  writeNodes_wf t s hsz
theorem writeNodes_no_plan (t : Tree) (s : FileSt) (h1 : s.failed = false) (h2 : s.failAt = none) :
    (writeNodes t s).2.failed = false ∧ (writeNodes t s).2.failAt = none :=
  (writeNodes_frame t s).noplan h1 h2

theorem writeTree_size_mono (t : Tree) (s : FileSt) : s.size ≤ (writeTree t s).2.size :=
  (writeTree_frame t s).size_mono
theorem writeTree_log (t : Tree) (s : FileSt) :
    ∃ new, (writeTree t s).2.log = s.log ++ new ∧ LogFrom s.size new :=
  (writeTree_frame t s).log
theorem writeTree_prefix (t : Tree) (s : FileSt) (hsz : s.size ≤ s.bytes.length) :
    (writeTree t s).2.bytes.take s.size = s.bytes.take s.size :=
  (writeTree_frame t s).pre s.size (Nat.le_refl _) hsz
theorem writeTree_size_le (t : Tree) (s : FileSt) (hsz : s.size ≤ s.bytes.length) :
    (writeTree t s).2.size ≤ (writeTree t s).2.bytes.length :=
  writeTree_wf t s hsz
theorem writeTree_no_plan (t : Tree) (s : FileSt) (h1 : s.failed = false) (h2 : s.failAt = none) :
    (writeTree t s).2.failed = false ∧ (writeTree t s).2.failAt = none :=
  (writeTree_frame t s).noplan h1 h2

theorem flushColls_size_mono (cs : List Coll) (s : FileSt) : s.size ≤ (flushColls cs s).2.size :=
  (flushColls_frame cs s).size_mono
theorem flushColls_log (cs : List Coll) (s : FileSt) :
    ∃ new, (flushColls cs s).2.log = s.log ++ new ∧ LogFrom s.size new :=
  (flushColls_frame cs s).log
theorem flushColls_prefix (cs : List Coll) (s : FileSt) (hsz : s.size ≤ s.bytes.length) :
    (flushColls cs s).2.bytes.take s.size = s.bytes.take s.size :=
  (flushColls_frame cs s).pre s.size (Nat.le_refl _) hsz
theorem flushColls_size_le (cs : List Coll) (s : FileSt) (hsz : s.size ≤ s.bytes.length) :
    (flushColls cs s).2.size ≤ (flushColls cs s).2.bytes.length :=
  flushColls_wf cs s hsz
theorem flushColls_no_plan (cs : List Coll) (s : FileSt) (h1 : s.failed = false) (h2 : s.failAt = none) :
    (flushColls cs s).2.failed = false ∧ (flushColls cs s).2.failAt = none :=
  (flushColls_frame cs s).noplan h1 h2

/-! ### `CopyTo` -/

theorem copyItems_frame (fe : Nat) (name : Bytes) (cmp : CmpKind) (is : List Item) (n : Nat)
    (cs : List Coll) (s : FileSt) : Frame s (copyItems fe name cmp is n cs s).2 := by
  induction is generalizing n cs s with
  | nil => exact Frame.refl s
  | cons i rest ih =>
    simp only [copyItems]
    split
    · exact (flushStore_frame _ s).trans (ih _ _ _)
    · exact ih _ _ _

theorem copyItems_wf (fe : Nat) (name : Bytes) (cmp : CmpKind) (is : List Item) (n : Nat)
    (cs : List Coll) (s : FileSt) (h : s.Wf) : (copyItems fe name cmp is n cs s).2.Wf := by
  induction is generalizing n cs s with
  | nil => exact h
  | cons i rest ih =>
    simp only [copyItems]
    split
    · exact ih _ _ _ (flushStore_wf _ s h)
    · exact ih _ _ _ h

theorem copyColls_frame (fe : Nat) (src cs : List Coll) (s : FileSt) :
    Frame s (copyColls fe src cs s).2 := by
  induction src generalizing cs s with
  | nil => exact Frame.refl s
  | cons c rest ih =>
    simp only [copyColls]
    exact (copyItems_frame _ _ _ _ _ _ s).trans (ih _ _)

theorem copyColls_wf (fe : Nat) (src cs : List Coll) (s : FileSt) (h : s.Wf) :
    (copyColls fe src cs s).2.Wf := by
  induction src generalizing cs s with
  | nil => exact h
  | cons c rest ih =>
    simp only [copyColls]
    exact ih _ _ (copyItems_wf _ _ _ _ _ _ s h)

/-- the empty destination file `CopyTo` starts from -/
def emptyFile : FileSt := { bytes := [], size := 0, log := [] }

theorem copyTo_frame (src : List Coll) (fe : Int) : Frame emptyFile (copyTo src fe).2 := by
  simp only [copyTo]
  split
  · exact (copyColls_frame _ src [] _).trans (flushStore_frame _ _)
  · exact copyColls_frame _ src [] _

theorem copyTo_wf (src : List Coll) (fe : Int) : (copyTo src fe).2.Wf := by
  have h0 : emptyFile.Wf := Nat.le_refl _
  simp only [copyTo]
  split
  · exact flushStore_wf _ _ (copyColls_wf _ src [] _ h0)
  · exact copyColls_wf _ src [] _ h0

theorem copyTo_log (src : List Coll) (fe : Int) : LogFrom 0 (copyTo src fe).2.log := by
  obtain ⟨new, e, l⟩ := (copyTo_frame src fe).log
  rw [e]
  exact l

theorem copyTo_size_le (src : List Coll) (fe : Int) :
    (copyTo src fe).2.size ≤ (copyTo src fe).2.bytes.length := copyTo_wf src fe

theorem copyTo_no_fail (src : List Coll) (fe : Int) :
    (copyTo src fe).2.failed = false ∧ (copyTo src fe).2.failAt = none :=
  (copyTo_frame src fe).noplan rfl rfl

end Gkv

/-
`#print axioms` (Lean 4.33), obtained with `#print axioms <name>` for each theorem:

'Gkv.writeItems_eraseLocs' depends on axioms: [propext]
'Gkv.writeNodes_eraseLocs' depends on axioms: [propext]
'Gkv.writeTree_eraseLocs' depends on axioms: [propext]
'Gkv.flushStore_eraseLocs' depends on axioms: [propext, Quot.sound]
'Gkv.eraseLocs_toList' does not depend on any axioms
'Gkv.flushStore_size_mono' depends on axioms: [propext, Quot.sound]
'Gkv.flushStore_log' depends on axioms: [propext, Quot.sound]
'Gkv.flushStore_prefix' depends on axioms: [propext, Quot.sound]
'Gkv.flushStore_size_le' depends on axioms: [propext, Quot.sound]
'Gkv.flushStore_failed_id' depends on axioms: [propext, Quot.sound]
'Gkv.flushStore_no_plan' depends on axioms: [propext, Quot.sound]
'Gkv.copyTo_log' depends on axioms: [propext, Quot.sound]
'Gkv.copyTo_size_le' depends on axioms: [propext, Quot.sound]
'Gkv.copyTo_no_fail' depends on axioms: [propext, Quot.sound]
'Gkv.copyTo_frame' depends on axioms: [propext, Quot.sound]
-/
