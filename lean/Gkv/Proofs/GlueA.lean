/-
Glue, group A — property C07 "file errors are reported, never swallowed, and failed calls change
nothing": `Flush` under an arbitrary fault plan (`FileSt.failAt`/`torn`/`failed`).

* a plan that is consumed during the flush makes the flush report failure;
* a flush that did not fail wrote exactly what the fault-free flush writes;
* whatever happens, the cached trees stay coherent with the file, so a retried `Flush` is an
  ordinary `Flush`.
-/
import Gkv.Proofs.FlushCoherent
open Std

namespace Gkv

/-! ### the two kinds of steps `Flush` is made of -/

/-- one item record: header+key, then the value right behind it, then `size` advanced -/
def itemStep (s : FileSt) (i : Item) : FileSt :=
  ((s.write (encItemHdrKey i)).writeAtOff (s.size + (encItemHdrKey i).length) i.val).advance
    (itemRecLen i)

/-- one record written as a single `WriteAt`, then `size` advanced -/
def recStep (s : FileSt) (b : Bytes) (n : Nat) : FileSt := (s.write b).advance n

theorem writeItems_node_nn (l r : Tree) (i : Item) (a b : Nat) (s : FileSt) :
    writeItems (.node l i a b r none none) s =
      if (writeItems l s).2.failed then (.node (writeItems l s).1 i a b r none none, (writeItems l s).2)
      else if (itemStep (writeItems l s).2 i).failed then
        (.node (writeItems l s).1 i a b r none none, itemStep (writeItems l s).2 i)
      else
        (.node (writeItems l s).1 i a b (writeItems r (itemStep (writeItems l s).2 i)).1 none
            (some ⟨(writeItems l s).2.size, itemRecLen i⟩),
          (writeItems r (itemStep (writeItems l s).2 i)).2) := by
  rfl

theorem writeItems_node_ns (l r : Tree) (i : Item) (a b : Nat) (il : Ploc) (s : FileSt) :
    writeItems (.node l i a b r none (some il)) s =
      (.node (writeItems l s).1 i a b (writeItems r (writeItems l s).2).1 none (some il),
        (writeItems r (writeItems l s).2).2) := by
  simp only [writeItems]

/-- the node record `writeNodes` emits for a node whose children have been written -/
def nodeRecOf (l' r' : Tree) (a b : Nat) (q : Option Ploc) : Bytes :=
  encNode { item := q, left := l'.slotLoc, right := r'.slotLoc, nn := a, nb := b }

theorem writeNodes_node_n (l r : Tree) (i : Item) (a b : Nat) (q : Option Ploc) (s : FileSt) :
    writeNodes (.node l i a b r none q) s =
      if (writeNodes r (writeNodes l s).2).2.failed then
        (.node (writeNodes l s).1 i a b (writeNodes r (writeNodes l s).2).1 none q,
          (writeNodes r (writeNodes l s).2).2)
      else if (recStep (writeNodes r (writeNodes l s).2).2
          (nodeRecOf (writeNodes l s).1 (writeNodes r (writeNodes l s).2).1 a b q) nodeRecLen).failed then
        (.node (writeNodes l s).1 i a b (writeNodes r (writeNodes l s).2).1 none q,
          recStep (writeNodes r (writeNodes l s).2).2
            (nodeRecOf (writeNodes l s).1 (writeNodes r (writeNodes l s).2).1 a b q) nodeRecLen)
      else
        (.node (writeNodes l s).1 i a b (writeNodes r (writeNodes l s).2).1
            (some ⟨(writeNodes r (writeNodes l s).2).2.size, nodeRecLen⟩) q,
          recStep (writeNodes r (writeNodes l s).2).2
            (nodeRecOf (writeNodes l s).1 (writeNodes r (writeNodes l s).2).1 a b q) nodeRecLen) := by
  rfl

theorem writeTree_eq (t : Tree) (s : FileSt) :
    writeTree t s =
      if (writeItems t s).2.failed then writeItems t s
      else writeNodes (writeItems t s).1 (writeItems t s).2 := by
  simp only [writeTree]

theorem flushColls_cons (c : Coll) (rest : List Coll) (s : FileSt) :
    flushColls (c :: rest) s =
      if (writeTree c.root s).2.failed then
        ({ c with root := (writeTree c.root s).1 } :: rest, (writeTree c.root s).2)
      else
        ({ c with root := (writeTree c.root s).1 } :: (flushColls rest (writeTree c.root s).2).1,
          (flushColls rest (writeTree c.root s).2).2) := by
  simp only [flushColls]

theorem flushStore_eq (cs : List Coll) (s : FileSt) :
    flushStore cs s =
      if (flushColls cs s).2.failed then flushColls cs s
      else ((flushColls cs s).1,
        recStep (flushColls cs s).2 (encRoot (flushColls cs s).2.size (rootEntries (flushColls cs s).1))
          (encRoot (flushColls cs s).2.size (rootEntries (flushColls cs s).1)).length) := by
  simp only [flushStore, recStep]

/-! ### every property kept by single writes is kept by `Flush` -/

section preserves
variable (P : FileSt → Prop) (hw : ∀ s off b, P s → P (s.writeAtOff off b))
  (ha : ∀ s n, P s → P (s.advance n))
include hw ha

theorem itemStep_preserves (s : FileSt) (i : Item) (h : P s) : P (itemStep s i) :=
  ha _ _ (hw _ _ _ (hw _ _ _ h))

theorem recStep_preserves (s : FileSt) (b : Bytes) (n : Nat) (h : P s) : P (recStep s b n) :=
  ha _ _ (hw _ _ _ h)

theorem writeItems_preserves (t : Tree) (s : FileSt) (h : P s) : P (writeItems t s).2 := by
  induction t generalizing s with
  | nil => exact h
  | node l i a b r p q ihl ihr =>
    cases p with
    | some p => exact h
    | none =>
      cases q with
      | some il =>
        rw [writeItems_node_ns]
        exact ihr _ (ihl s h)
      | none =>
        rw [writeItems_node_nn]
        split
        · exact ihl s h
        · split
          · exact itemStep_preserves P hw ha _ _ (ihl s h)
          · exact ihr _ (itemStep_preserves P hw ha _ _ (ihl s h))

theorem writeNodes_preserves (t : Tree) (s : FileSt) (h : P s) : P (writeNodes t s).2 := by
  induction t generalizing s with
  | nil => exact h
  | node l i a b r p q ihl ihr =>
    cases p with
    | some p => exact h
    | none =>
      rw [writeNodes_node_n]
      split
      · exact ihr _ (ihl s h)
      · split
        · exact recStep_preserves P hw ha _ _ _ (ihr _ (ihl s h))
        · exact recStep_preserves P hw ha _ _ _ (ihr _ (ihl s h))

theorem writeTree_preserves (t : Tree) (s : FileSt) (h : P s) : P (writeTree t s).2 := by
  rw [writeTree_eq]
  split
  · exact writeItems_preserves P hw ha t s h
  · exact writeNodes_preserves P hw ha _ _ (writeItems_preserves P hw ha t s h)

theorem flushColls_preserves (cs : List Coll) (s : FileSt) (h : P s) : P (flushColls cs s).2 := by
  induction cs generalizing s with
  | nil => exact h
  | cons c rest ih =>
    rw [flushColls_cons]
    split
    · exact writeTree_preserves P hw ha _ _ h
    · exact ih _ (writeTree_preserves P hw ha _ _ h)

theorem flushStore_preserves (cs : List Coll) (s : FileSt) (h : P s) : P (flushStore cs s).2 := by
  rw [flushStore_eq]
  split
  · exact flushColls_preserves P hw ha cs s h
  · exact recStep_preserves P hw ha _ _ _ (flushColls_preserves P hw ha cs s h)

end preserves

/-! ### a consumed plan is a reported failure -/

/-- the plan can only disappear by firing -/
def FileSt.PlanFired (s : FileSt) : Prop := s.failAt = none → s.failed = true

theorem planFired_writeAtOff (s : FileSt) (off : Nat) (b : Bytes) (h : s.PlanFired) :
    (s.writeAtOff off b).PlanFired := by
  unfold FileSt.PlanFired at h ⊢
  unfold FileSt.writeAtOff
  split
  · exact h
  · split
    · intro _; rfl
    · intro hh; cases hh
    · exact h

theorem planFired_advance (s : FileSt) (n : Nat) (h : s.PlanFired) : (s.advance n).PlanFired := by
  unfold FileSt.PlanFired at h ⊢
  unfold FileSt.advance
  split
  · exact h
  · exact h

set_option linter.unusedVariables false in
/-- if a plan is armed and it is consumed during the flush, the flush reports failure
    (`h0` is not needed: a flush entered in the failed state does nothing) -/
theorem flushStore_fault_reported (cs : List Coll) (s : FileSt) (h0 : s.failed = false)
    (k : Nat) (hk : s.failAt = some (k+1)) (hcons : (flushStore cs s).2.failAt = none) :
    (flushStore cs s).2.failed = true := by
  have hP : s.PlanFired := by
    intro h; rw [hk] at h; cases h
  exact flushStore_preserves FileSt.PlanFired planFired_writeAtOff planFired_advance cs s hP hcons

/-! ### failure is sticky -/

theorem advance_ok (s : FileSt) (n : Nat) (h : (s.advance n).failed = false) :
    s.failed = false ∧ (s.advance n).size = s.size + n ∧ (s.advance n).bytes = s.bytes := by
  unfold FileSt.advance at h ⊢
  split at h
  · next hf => rw [hf] at h; cases h
  · next hf =>
    rw [if_neg hf]
    exact ⟨by simpa using hf, rfl, rfl⟩

theorem itemStep_unfailed (s : FileSt) (i : Item) (h : (itemStep s i).failed = false) :
    s.failed = false :=
  (writeAtOff_ok _ _ _ (writeAtOff_ok _ _ _ (advance_ok _ _ h).1).1).1

theorem recStep_unfailed (s : FileSt) (b : Bytes) (n : Nat) (h : (recStep s b n).failed = false) :
    s.failed = false :=
  (writeAtOff_ok _ _ _ (advance_ok _ _ h).1).1

theorem writeItems_unfailed (t : Tree) (s : FileSt) (h : (writeItems t s).2.failed = false) :
    s.failed = false := by
  cases hf : s.failed with
  | false => rfl
  | true => rw [writeItems_failed_id t s hf, hf] at h; cases h

theorem writeNodes_unfailed (t : Tree) (s : FileSt) (h : (writeNodes t s).2.failed = false) :
    s.failed = false := by
  cases hf : s.failed with
  | false => rfl
  | true => rw [writeNodes_failed_id t s hf, hf] at h; cases h

theorem writeTree_unfailed (t : Tree) (s : FileSt) (h : (writeTree t s).2.failed = false) :
    s.failed = false := by
  cases hf : s.failed with
  | false => rfl
  | true => rw [writeTree_failed_id t s hf, hf] at h; cases h

theorem flushColls_unfailed (cs : List Coll) (s : FileSt) (h : (flushColls cs s).2.failed = false) :
    s.failed = false := by
  cases hf : s.failed with
  | false => rfl
  | true => rw [flushColls_failed_id cs s hf, hf] at h; cases h

theorem flushStore_unfailed (cs : List Coll) (s : FileSt) (h : (flushStore cs s).2.failed = false) :
    s.failed = false := by
  cases hf : s.failed with
  | false => rfl
  | true => rw [flushStore_failed_id cs s hf, hf] at h; cases h

/-! ### a flush that did not fail is the fault-free flush -/

/-- the same file state with the fault plan disarmed -/
def FileSt.clean (s : FileSt) : FileSt := { s with failAt := none }

@[simp] theorem clean_failed (s : FileSt) : s.clean.failed = s.failed := rfl
@[simp] theorem clean_size (s : FileSt) : s.clean.size = s.size := rfl
@[simp] theorem clean_bytes (s : FileSt) : s.clean.bytes = s.bytes := rfl
@[simp] theorem clean_failAt (s : FileSt) : s.clean.failAt = none := rfl

theorem clean_writeAtOff (s : FileSt) (off : Nat) (b : Bytes)
    (h : (s.writeAtOff off b).failed = false) :
    s.clean.writeAtOff off b = (s.writeAtOff off b).clean := by
  obtain ⟨bytes, size, log, failAt, torn, failed⟩ := s
  cases failed with
  | true => simp [FileSt.writeAtOff] at h
  | false =>
    rcases failAt with _ | _ | _ | k
    · rfl
    · rfl
    · simp [FileSt.writeAtOff] at h
    · rfl

theorem clean_advance (s : FileSt) (n : Nat) : s.clean.advance n = (s.advance n).clean := by
  unfold FileSt.advance
  rw [clean_failed]
  split <;> rfl

theorem itemStep_clean (s : FileSt) (i : Item) (h : (itemStep s i).failed = false) :
    itemStep s.clean i = (itemStep s i).clean := by
  have h2 := (advance_ok _ _ h).1
  have h1 := (writeAtOff_ok _ _ _ h2).1
  unfold itemStep FileSt.write at *
  rw [clean_size, clean_writeAtOff _ _ _ h1, clean_writeAtOff _ _ _ h2, clean_advance]

theorem recStep_clean (s : FileSt) (b : Bytes) (n : Nat) (h : (recStep s b n).failed = false) :
    recStep s.clean b n = (recStep s b n).clean := by
  have h1 := (advance_ok _ _ h).1
  unfold recStep FileSt.write at *
  rw [clean_size, clean_writeAtOff _ _ _ h1, clean_advance]

theorem writeItems_clean (t : Tree) (s : FileSt) (h : (writeItems t s).2.failed = false) :
    writeItems t s.clean = ((writeItems t s).1, (writeItems t s).2.clean) := by
  induction t generalizing s with
  | nil => rfl
  | node l i a b r p q ihl ihr =>
    cases p with
    | some p => rfl
    | none =>
      cases q with
      | some il =>
        rw [writeItems_node_ns] at h ⊢
        rw [writeItems_node_ns]
        dsimp only at h ⊢
        rw [ihl s (writeItems_unfailed r _ h)]
        dsimp only
        rw [ihr _ h]
      | none =>
        rw [writeItems_node_nn] at h ⊢
        rw [writeItems_node_nn]
        by_cases hf1 : (writeItems l s).2.failed = true
        · rw [if_pos hf1] at h; dsimp only at h; rw [hf1] at h; cases h
        · rw [if_neg hf1] at h ⊢
          by_cases hf2 : (itemStep (writeItems l s).2 i).failed = true
          · rw [if_pos hf2] at h; dsimp only at h; rw [hf2] at h; cases h
          · rw [if_neg hf2] at h ⊢
            dsimp only at h
            rw [ihl s (by simpa using hf1)]
            dsimp only
            rw [clean_failed, if_neg hf1, itemStep_clean _ _ (by simpa using hf2), clean_failed,
              if_neg hf2, ihr _ h]
            rfl

theorem writeNodes_clean (t : Tree) (s : FileSt) (h : (writeNodes t s).2.failed = false) :
    writeNodes t s.clean = ((writeNodes t s).1, (writeNodes t s).2.clean) := by
  induction t generalizing s with
  | nil => rfl
  | node l i a b r p q ihl ihr =>
    cases p with
    | some p => rfl
    | none =>
      rw [writeNodes_node_n] at h ⊢
      rw [writeNodes_node_n]
      by_cases hf1 : (writeNodes r (writeNodes l s).2).2.failed = true
      · rw [if_pos hf1] at h; dsimp only at h; rw [hf1] at h; cases h
      · rw [if_neg hf1] at h ⊢
        by_cases hf2 : (recStep (writeNodes r (writeNodes l s).2).2
            (nodeRecOf (writeNodes l s).1 (writeNodes r (writeNodes l s).2).1 a b q)
            nodeRecLen).failed = true
        · rw [if_pos hf2] at h; dsimp only at h; rw [hf2] at h; cases h
        · rw [if_neg hf2] at h ⊢
          have hr : (writeNodes r (writeNodes l s).2).2.failed = false := by simpa using hf1
          rw [ihl s (writeNodes_unfailed r _ hr)]
          dsimp only
          rw [ihr _ hr]
          dsimp only
          rw [clean_failed, if_neg hf1, recStep_clean _ _ _ (by simpa using hf2), clean_failed,
            if_neg hf2]
          rfl

theorem writeTree_clean (t : Tree) (s : FileSt) (h : (writeTree t s).2.failed = false) :
    writeTree t s.clean = ((writeTree t s).1, (writeTree t s).2.clean) := by
  rw [writeTree_eq] at h ⊢
  rw [writeTree_eq]
  by_cases hf1 : (writeItems t s).2.failed = true
  · rw [if_pos hf1] at h; rw [hf1] at h; cases h
  · rw [if_neg hf1] at h ⊢
    rw [writeItems_clean t s (by simpa using hf1)]
    dsimp only
    rw [clean_failed, if_neg hf1, writeNodes_clean _ _ h]

theorem flushColls_clean (cs : List Coll) (s : FileSt) (h : (flushColls cs s).2.failed = false) :
    flushColls cs s.clean = ((flushColls cs s).1, (flushColls cs s).2.clean) := by
  induction cs generalizing s with
  | nil => rfl
  | cons c rest ih =>
    rw [flushColls_cons] at h ⊢
    rw [flushColls_cons]
    by_cases hf1 : (writeTree c.root s).2.failed = true
    · rw [if_pos hf1] at h; dsimp only at h; rw [hf1] at h; cases h
    · rw [if_neg hf1] at h ⊢
      dsimp only at h
      rw [writeTree_clean c.root s (by simpa using hf1)]
      dsimp only
      rw [clean_failed, if_neg hf1, ih _ h]

/-- a flush that did not fail is, plan aside, the fault-free flush: same collections, same file
    state (bytes, size, log) -/
theorem flushStore_clean (cs : List Coll) (s : FileSt) (h : (flushStore cs s).2.failed = false) :
    flushStore cs s.clean = ((flushStore cs s).1, (flushStore cs s).2.clean) := by
  rw [flushStore_eq] at h ⊢
  rw [flushStore_eq]
  by_cases hf1 : (flushColls cs s).2.failed = true
  · rw [if_pos hf1] at h; rw [hf1] at h; cases h
  · rw [if_neg hf1] at h ⊢
    dsimp only at h
    rw [flushColls_clean cs s (by simpa using hf1)]
    dsimp only
    rw [clean_failed, if_neg hf1, clean_size, recStep_clean _ _ _ h]

set_option linter.unusedVariables false in
/-- conversely a flush that did not fail left the plan merely decremented or untouched, and wrote
    exactly what a fault-free flush writes (`h0` follows from `hok`, failure being sticky) -/
theorem flushStore_unfailed_same_bytes (cs : List Coll) (s : FileSt) (h0 : s.failed = false)
    (hok : (flushStore cs s).2.failed = false) :
    (flushStore cs s).2.bytes = (flushStore cs { s with failAt := none }).2.bytes ∧
    (flushStore cs s).2.size = (flushStore cs { s with failAt := none }).2.size ∧
    (flushStore cs s).1 = (flushStore cs { s with failAt := none }).1 := by
  have e := flushStore_clean cs s hok
  show _ = (flushStore cs s.clean).2.bytes ∧ _ = (flushStore cs s.clean).2.size ∧
    _ = (flushStore cs s.clean).1
  rw [e]
  exact ⟨rfl, rfl, rfl⟩

/-- the write log too is that of the fault-free flush -/
theorem flushStore_unfailed_same_log (cs : List Coll) (s : FileSt)
    (hok : (flushStore cs s).2.failed = false) :
    (flushStore cs s).2.log = (flushStore cs { s with failAt := none }).2.log := by
  have e := flushStore_clean cs s hok
  show _ = (flushStore cs s.clean).2.log
  rw [e]
  rfl

/-- "merely decremented or untouched": a flush that did not fail under an armed plan `k` leaves
    a plan `k' ≤ k` that is still armed (`k' ≥ 1`), or never was (`k = 0`, which never fires) -/
theorem flushStore_unfailed_plan (cs : List Coll) (s : FileSt) (k : Nat)
    (hk : s.failAt = some k) (hok : (flushStore cs s).2.failed = false) :
    ∃ k', (flushStore cs s).2.failAt = some k' ∧ k' ≤ k ∧ (1 ≤ k → 1 ≤ k') := by
  let P : FileSt → Prop := fun x =>
    x.failed = false → ∃ k', x.failAt = some k' ∧ k' ≤ k ∧ (1 ≤ k → 1 ≤ k')
  have hw : ∀ x off b, P x → P (x.writeAtOff off b) := by
    intro x off b hx hf
    obtain ⟨xf, _⟩ := writeAtOff_ok x off b hf
    obtain ⟨k', e, h1, h2⟩ := hx xf
    obtain ⟨bytes, size, log, failAt, torn, failed⟩ := x
    simp only at e xf
    subst e xf
    rcases k' with _ | _ | k'
    · exact ⟨0, rfl, h1, h2⟩
    · simp [FileSt.writeAtOff] at hf
    · exact ⟨k' + 1, rfl, by omega, fun _ => by omega⟩
  have ha : ∀ x n, P x → P (x.advance n) := by
    intro x n hx hf
    obtain ⟨xf, _⟩ := advance_ok x n hf
    obtain ⟨k', e, h1, h2⟩ := hx xf
    refine ⟨k', ?_, h1, h2⟩
    unfold FileSt.advance
    split
    · exact e
    · exact e
  exact flushStore_preserves P hw ha cs s (fun _ => ⟨k, hk, Nat.le_refl _, fun h => h⟩) hok

/-! ### coherence under an arbitrary plan -/

theorem itemStep_frame (s : FileSt) (i : Item) : Frame s (itemStep s i) :=
  frame_item s (encItemHdrKey i) i.val (itemRecLen i)

theorem itemStep_wf (s : FileSt) (i : Item) (h : s.Wf) : (itemStep s i).Wf :=
  wf_item s (encItemHdrKey i) i.val (itemRecLen i) h (itemRecLen_le i)

theorem recStep_frame (s : FileSt) (b : Bytes) (n : Nat) : Frame s (recStep s b n) :=
  frame_write_advance s b n

theorem recStep_wf (s : FileSt) (b : Bytes) (n : Nat) (h : s.Wf) (hn : n ≤ b.length) :
    (recStep s b n).Wf := wf_write_advance s b n h hn

/-- an item record whose writes all succeeded decodes, whatever the plan was -/
theorem itemStep_itemAt (s : FileSt) (i : Item) (hsz : s.size ≤ s.bytes.length) (hok : ItemOK i)
    (h : (itemStep s i).failed = false) :
    ItemAt (itemStep s i).bytes (itemStep s i).size i ⟨s.size, itemRecLen i⟩ := by
  have hc := itemStep_clean s i h
  have := (fc_item_step s.clean i ⟨itemStep_unfailed s i h, rfl⟩ hsz hok).2
  change ItemAt (itemStep s.clean i).bytes (itemStep s.clean i).size i ⟨s.size, itemRecLen i⟩ at this
  rw [hc] at this
  exact this

/-- a node record whose write succeeded decodes, whatever the plan was -/
theorem recStep_nodeAt (s : FileSt) (n : NodeRec) (hsz : s.size ≤ s.bytes.length)
    (hi : ∀ q, n.item = some q → q.off < 2^64 ∧ q.len < 2^32 ∧ ¬ (q.off = 0 ∧ q.len = 0))
    (hl : ∀ q, n.left = some q → q.off < 2^64 ∧ q.len < 2^32 ∧ ¬ (q.off = 0 ∧ q.len = 0))
    (hr : ∀ q, n.right = some q → q.off < 2^64 ∧ q.len < 2^32 ∧ ¬ (q.off = 0 ∧ q.len = 0))
    (hnn : n.nn < 2^64) (hnb : n.nb < 2^64)
    (h : (recStep s (encNode n) nodeRecLen).failed = false) :
    NodeAt (recStep s (encNode n) nodeRecLen).bytes (recStep s (encNode n) nodeRecLen).size n
      ⟨s.size, nodeRecLen⟩ := by
  have hc := recStep_clean s (encNode n) nodeRecLen h
  have := (fc_node_step s.clean n ⟨recStep_unfailed s _ _ h, rfl⟩ hsz hi hl hr hnn hnb).2
  change NodeAt (recStep s.clean (encNode n) nodeRecLen).bytes
    (recStep s.clean (encNode n) nodeRecLen).size n ⟨s.size, nodeRecLen⟩ at this
  rw [hc] at this
  exact this

/-- `writeItems` keeps coherence under any plan; if it did not fail, every item is on file -/
theorem writeItems_coherent_any (t : Tree) (s : FileSt) (hsz : s.size ≤ s.bytes.length)
    (hc : t.Coherent s.bytes s.size) (hok : t.SizesOK) :
    (writeItems t s).1.Coherent (writeItems t s).2.bytes (writeItems t s).2.size ∧
      ((writeItems t s).2.failed = false → (writeItems t s).1.ItemsDone) := by
  induction t generalizing s with
  | nil => exact ⟨trivial, fun _ => trivial⟩
  | node l i a b r p q ihl ihr =>
    cases p with
    | some p => exact ⟨hc, fun _ => Or.inl rfl⟩
    | none =>
      obtain ⟨hcl, hcr, hci, _⟩ := hc
      obtain ⟨hoi, _, _, hol, hor⟩ := hok
      have hfl := writeItems_frame l s
      have hwl : (writeItems l s).2.size ≤ (writeItems l s).2.bytes.length := writeItems_wf l s hsz
      obtain ⟨cl, dl⟩ := ihl s hsz hcl hol
      cases q with
      | some il =>
        rw [writeItems_node_ns]
        have hfr := writeItems_frame r (writeItems l s).2
        obtain ⟨cr, dr⟩ := ihr _ hwl (hcr.frame hfl hsz) hor
        refine ⟨⟨cl.frame hfr hwl, cr, ?_, ?_⟩,
          fun hf => Or.inr ⟨rfl, dl (writeItems_unfailed r _ hf), dr hf⟩⟩
        · intro il' h
          injection h with h
          subst h
          exact ((hci il rfl).frame hfl hsz).frame hfr hwl
        · intro loc h; cases h
      | none =>
        rw [writeItems_node_nn]
        by_cases hf1 : (writeItems l s).2.failed = true
        · rw [if_pos hf1]
          exact ⟨⟨cl, hcr.frame hfl hsz, fun il h => (by cases h), fun loc h => (by cases h)⟩,
            fun hf => by rw [hf1] at hf; cases hf⟩
        · rw [if_neg hf1]
          have hfi := itemStep_frame (writeItems l s).2 i
          have hwi : (itemStep (writeItems l s).2 i).size ≤ (itemStep (writeItems l s).2 i).bytes.length :=
            itemStep_wf _ i hwl
          by_cases hf2 : (itemStep (writeItems l s).2 i).failed = true
          · rw [if_pos hf2]
            exact ⟨⟨cl.frame hfi hwl, (hcr.frame hfl hsz).frame hfi hwl, fun il h => (by cases h),
              fun loc h => (by cases h)⟩, fun hf => by rw [hf2] at hf; cases hf⟩
          · rw [if_neg hf2]
            have hia := itemStep_itemAt (writeItems l s).2 i hwl hoi (by simpa using hf2)
            have hfr := writeItems_frame r (itemStep (writeItems l s).2 i)
            obtain ⟨cr, dr⟩ := ihr _ hwi ((hcr.frame hfl hsz).frame hfi hwl) hor
            refine ⟨⟨(cl.frame hfi hwl).frame hfr hwi, cr, ?_, ?_⟩,
              fun hf => Or.inr ⟨rfl, dl (by simpa using hf1), dr hf⟩⟩
            · intro il' h
              injection h with h
              subst h
              exact hia.frame hfr hwi
            · intro loc h; cases h

/-- `writeNodes` keeps coherence under any plan; if it did not fail, the root is persisted -/
theorem writeNodes_coherent_any (t : Tree) (s : FileSt) (hsz : s.size ≤ s.bytes.length)
    (hc : t.Coherent s.bytes s.size) (hid : t.ItemsDone) (hok : t.SizesOK)
    (hlim : (writeNodes t s).2.size < 2^32) :
    (writeNodes t s).1.Coherent (writeNodes t s).2.bytes (writeNodes t s).2.size ∧
      ((writeNodes t s).2.failed = false → (writeNodes t s).1.Persisted) := by
  induction t generalizing s with
  | nil => exact ⟨trivial, fun _ => trivial⟩
  | node l i a b r p q ihl ihr =>
    cases p with
    | some p => exact ⟨hc, fun _ => rfl⟩
    | none =>
      obtain ⟨hcl, hcr, hci, _⟩ := hc
      obtain ⟨hoi, ha, hb, hol, hor⟩ := hok
      rcases hid with hid | ⟨hq, dl, dr⟩
      · cases hid
      have hfl := writeNodes_frame l s
      have hwl : (writeNodes l s).2.size ≤ (writeNodes l s).2.bytes.length := writeNodes_wf l s hsz
      have hfr := writeNodes_frame r (writeNodes l s).2
      have hwr : (writeNodes r (writeNodes l s).2).2.size ≤
          (writeNodes r (writeNodes l s).2).2.bytes.length := writeNodes_wf r _ hwl
      have hfw := recStep_frame (writeNodes r (writeNodes l s).2).2
        (nodeRecOf (writeNodes l s).1 (writeNodes r (writeNodes l s).2).1 a b q) nodeRecLen
      have hww : (recStep (writeNodes r (writeNodes l s).2).2
          (nodeRecOf (writeNodes l s).1 (writeNodes r (writeNodes l s).2).1 a b q) nodeRecLen).size ≤
          (recStep (writeNodes r (writeNodes l s).2).2
          (nodeRecOf (writeNodes l s).1 (writeNodes r (writeNodes l s).2).1 a b q)
            nodeRecLen).bytes.length :=
        recStep_wf _ _ _ hwr (Nat.le_of_eq (length_encNode _).symm)
      have z1 := hfl.size_mono
      have z2 := hfr.size_mono
      have z3 := hfw.size_mono
      rw [writeNodes_node_n] at hlim ⊢
      by_cases hf1 : (writeNodes r (writeNodes l s).2).2.failed = true
      · rw [if_pos hf1] at hlim ⊢
        dsimp only at hlim ⊢
        obtain ⟨cl, _⟩ := ihl s hsz hcl dl hol (by omega)
        obtain ⟨cr, _⟩ := ihr _ hwl (hcr.frame hfl hsz) dr hor (by omega)
        refine ⟨⟨cl.frame hfr hwl, cr, ?_, fun loc h => (by cases h)⟩,
          fun hf => by rw [hf1] at hf; cases hf⟩
        intro il hil
        exact ((hci il hil).frame hfl hsz).frame hfr hwl
      · rw [if_neg hf1] at hlim ⊢
        have hr0 : (writeNodes r (writeNodes l s).2).2.failed = false := by simpa using hf1
        have hl0 : (writeNodes l s).2.failed = false := writeNodes_unfailed r _ hr0
        by_cases hf2 : (recStep (writeNodes r (writeNodes l s).2).2
            (nodeRecOf (writeNodes l s).1 (writeNodes r (writeNodes l s).2).1 a b q)
            nodeRecLen).failed = true
        · rw [if_pos hf2] at hlim ⊢
          dsimp only at hlim ⊢
          obtain ⟨cl, _⟩ := ihl s hsz hcl dl hol (by omega)
          obtain ⟨cr, _⟩ := ihr _ hwl (hcr.frame hfl hsz) dr hor (by omega)
          refine ⟨⟨(cl.frame hfr hwl).frame hfw hwr, cr.frame hfw hwr, ?_, fun loc h => (by cases h)⟩,
            fun hf => by rw [hf2] at hf; cases hf⟩
          intro il hil
          exact (((hci il hil).frame hfl hsz).frame hfr hwl).frame hfw hwr
        · rw [if_neg hf2] at hlim ⊢
          dsimp only at hlim ⊢
          obtain ⟨cl, pl⟩ := ihl s hsz hcl dl hol (by omega)
          obtain ⟨cr, pr⟩ := ihr _ hwl (hcr.frame hfl hsz) dr hor (by omega)
          have hstep := recStep_nodeAt (writeNodes r (writeNodes l s).2).2
            { item := q, left := (writeNodes l s).1.slotLoc,
              right := (writeNodes r (writeNodes l s).2).1.slotLoc, nn := a, nb := b } hwr
            (by
              intro il hil
              obtain ⟨e1, e2, _⟩ := hci il hil
              refine fc_encodable_of_bound il _ ?_ e2 (by omega)
              rw [e1]; unfold itemRecLen itemHdrLen; omega)
            (by
              intro c hc'
              obtain ⟨e1, e2⟩ := cl.slotLoc_bound hc'
              refine fc_encodable_of_bound c _ ?_ e2 (by omega)
              rw [e1]; unfold nodeRecLen; omega)
            (by
              intro c hc'
              obtain ⟨e1, e2⟩ := cr.slotLoc_bound hc'
              refine fc_encodable_of_bound c _ ?_ e2 (by omega)
              rw [e1]; unfold nodeRecLen; omega)
            ha hb (Bool.eq_false_iff.mpr hf2)
          refine ⟨⟨(cl.frame hfr hwl).frame hfw hwr, cr.frame hfw hwr, ?_, ?_⟩, fun _ => rfl⟩
          · intro il hil
            exact (((hci il hil).frame hfl hsz).frame hfr hwl).frame hfw hwr
          · intro loc hloc
            injection hloc with hloc
            subst hloc
            exact ⟨hstep, hq, pl hl0, pr hr0⟩

/-- `Collection.write` keeps coherence under any plan -/
theorem writeTree_coherent_any (t : Tree) (s : FileSt) (hsz : s.size ≤ s.bytes.length)
    (hc : t.Coherent s.bytes s.size) (hok : t.SizesOK) (hlim : (writeTree t s).2.size < 2^32) :
    (writeTree t s).1.Coherent (writeTree t s).2.bytes (writeTree t s).2.size := by
  obtain ⟨ci, di⟩ := writeItems_coherent_any t s hsz hc hok
  rw [writeTree_eq] at hlim ⊢
  by_cases hf1 : (writeItems t s).2.failed = true
  · rw [if_pos hf1]
    exact ci
  · rw [if_neg hf1] at hlim ⊢
    exact (writeNodes_coherent_any _ _ (writeItems_wf t s hsz) ci (di (by simpa using hf1))
      (writeItems_sizesOK t s hok) hlim).1

/-- the first loop of `Store.Flush` keeps coherence under any plan -/
theorem flushColls_coherent_any (cs : List Coll) (s : FileSt) (hsz : s.size ≤ s.bytes.length)
    (hc : ∀ c ∈ cs, c.root.Coherent s.bytes s.size) (hok : ∀ c ∈ cs, c.root.SizesOK)
    (hlim : (flushColls cs s).2.size < 2^32) :
    ∀ c ∈ (flushColls cs s).1, c.root.Coherent (flushColls cs s).2.bytes (flushColls cs s).2.size := by
  induction cs generalizing s with
  | nil => intro c h; cases h
  | cons c rest ih =>
    have hft := writeTree_frame c.root s
    have hwt : (writeTree c.root s).2.size ≤ (writeTree c.root s).2.bytes.length :=
      writeTree_wf c.root s hsz
    have hfr := flushColls_frame rest (writeTree c.root s).2
    have z := hfr.size_mono
    rw [flushColls_cons] at hlim ⊢
    by_cases hf1 : (writeTree c.root s).2.failed = true
    · rw [if_pos hf1] at hlim ⊢
      dsimp only at hlim ⊢
      have ct := writeTree_coherent_any c.root s hsz (hc c (by simp)) (hok c (by simp)) hlim
      intro d hd
      rcases List.mem_cons.mp hd with hd | hd
      · subst hd
        exact ct
      · exact (hc d (by simp [hd])).frame hft hsz
    · rw [if_neg hf1] at hlim ⊢
      dsimp only at hlim ⊢
      have ct := writeTree_coherent_any c.root s hsz (hc c (by simp)) (hok c (by simp)) (by omega)
      have ihr := ih (writeTree c.root s).2 hwt
        (fun d hd => (hc d (by simp [hd])).frame hft hsz) (fun d hd => hok d (by simp [hd])) hlim
      intro d hd
      rcases List.mem_cons.mp hd with hd | hd
      · subst hd
        exact ct.frame hfr hwt
      · exact ihr d hd

/-- a failed (or any) flush keeps cached trees coherent with the file, so a retried Flush is an
    ordinary Flush -/
theorem flushStore_coherent_any (cs : List Coll) (s : FileSt) (hsz : s.size ≤ s.bytes.length)
    (hc : ∀ c ∈ cs, c.root.Coherent s.bytes s.size) (hok : ∀ c ∈ cs, c.root.SizesOK)
    (hlim : (flushStore cs s).2.size < 2^32) :
    ∀ c ∈ (flushStore cs s).1,
      c.root.Coherent (flushStore cs s).2.bytes (flushStore cs s).2.size := by
  have hw1 : (flushColls cs s).2.size ≤ (flushColls cs s).2.bytes.length := flushColls_wf cs s hsz
  have hfw := recStep_frame (flushColls cs s).2
    (encRoot (flushColls cs s).2.size (rootEntries (flushColls cs s).1))
    (encRoot (flushColls cs s).2.size (rootEntries (flushColls cs s).1)).length
  have z := hfw.size_mono
  rw [flushStore_eq] at hlim ⊢
  by_cases hf1 : (flushColls cs s).2.failed = true
  · rw [if_pos hf1] at hlim ⊢
    exact flushColls_coherent_any cs s hsz hc hok hlim
  · rw [if_neg hf1] at hlim ⊢
    dsimp only at hlim ⊢
    intro c hcm
    exact (flushColls_coherent_any cs s hsz hc hok (by omega) c hcm).frame hfw hw1

/-- the retry: after a flush that failed, the caller's store (`size` and cached trees as the
    failed flush left them) satisfies every hypothesis of `flushStore_coherent` again once the
    file's fault is gone -/
theorem flushStore_retry_ready (cs : List Coll) (s : FileSt) (hsz : s.size ≤ s.bytes.length)
    (hc : ∀ c ∈ cs, c.root.Coherent s.bytes s.size) (hok : ∀ c ∈ cs, c.root.SizesOK)
    (hlim : (flushStore cs s).2.size < 2^32) :
    (flushStore cs s).2.size ≤ (flushStore cs s).2.bytes.length ∧
    (∀ c ∈ (flushStore cs s).1,
      c.root.Coherent (flushStore cs s).2.bytes (flushStore cs s).2.size) ∧
    (flushStore cs s).1.map (fun c => (c.name, c.cmp, c.root.eraseLocs)) =
      cs.map (fun c => (c.name, c.cmp, c.root.eraseLocs)) :=
  ⟨flushStore_wf cs s hsz, flushStore_coherent_any cs s hsz hc hok hlim, flushStore_eraseLocs cs s⟩

end Gkv
