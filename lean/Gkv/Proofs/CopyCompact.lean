/-
Property C11, clause "when flushEvery > 0 the destination file holds only live data (no superseded
item versions)".

`copyTo src fe` re-inserts every source item into a fresh destination store and flushes the
destination every `fe` items and once at the end.  Node records ARE superseded (every periodic
flush persists the path to the root, the next `SetItem` rebuilds it), item records are not:

* instrumented twins `writeItemsW … copyToW` return, besides what the originals return
  (`copyToW_fst : (copyToW src fe).1 = copyTo src fe`), the list of item records written
  (`Wrote.items : List (Item × Ploc)`, exactly what went to the log: `writeItemsW_log`) and the
  number of node records written; no existing definition is changed;
* `dirtyItems t` is what one fault-free `writeItems` writes (`writeItemsW_length`); on trees built
  by flushes and `SetItem`s (`Closed`) it is the number of items without a location (`unlocated`);
* `SetItem` of a key not yet in the tree keeps every (item, location) pair (`setItem_cnt`,
  `setItem_itemLocs`): it never clears an existing item location;
* hence, for `fe > 0`, source collections with different names (`DistinctNames`) and, within a
  collection, keys that the comparator tells apart (`DistinctKeys`; both follow from the
  hypotheses of `Props.C11.copy_equivalent`):
    - `copyTo_item_records_eq_source`: #item records written = #source items,
    - `copyTo_item_records_eq_dest`:   #item records written = #destination items,
    - `copyTo_all_located`:            every destination item has a record,
    - `copyTo_item_records_live`:      every record written is the record of a destination item;
                                       the records are in ascending file order, disjoint, < size,
    - `copyTo_item_records_perm`:      records written ~ (item, location) pairs of the destination,
    - `copyTo_item_ranges`:            the destination's item ranges are pairwise disjoint;
* each hypothesis is needed (`dupKey_superseded`, `foldKey_superseded`, `dupName_superseded`,
  `no_flush_no_records`): those inputs are not states of a store (`collsSet` keeps names distinct,
  `SetItem` keeps search order), but the model's `copyTo` accepts any `List Coll`.

Fault-free plan only (`failAt = none`): `copyTo` starts from the empty file without a fault plan.
-/
import Gkv.Proofs.GlueC
import Gkv.Proofs.FlushTiles
open Std

namespace Gkv.CopyCompact
open Gkv Tree

/-! ### instrumented twins: the same functions, also returning the item records they wrote -/

/-- an item record written by a flush: the item and where its record went -/
abbrev ItemRec := Item × Ploc

/-- `writeItems`, also returning the item records written (in write order) -/
def writeItemsW : Tree → FileSt → (Tree × FileSt) × List ItemRec
  | .nil, s => ((.nil, s), [])
  | .node l i a b r (some p) q, s => ((.node l i a b r (some p) q, s), [])
  | .node l i a b r none q, s =>
    let x := writeItemsW l s
    match q with
    | some il =>
      let y := writeItemsW r x.1.2
      ((.node x.1.1 i a b y.1.1 none (some il), y.1.2), x.2 ++ y.2)
    | none =>
      if x.1.2.failed then ((.node x.1.1 i a b r none none, x.1.2), x.2) else
      let off := x.1.2.size
      let s1a := x.1.2.write (encItemHdrKey i)
      let s1b := s1a.writeAtOff (off + (encItemHdrKey i).length) i.val
      let s1c := s1b.advance (itemRecLen i)
      if s1c.failed then ((.node x.1.1 i a b r none none, s1c), x.2) else
      let y := writeItemsW r s1c
      ((.node x.1.1 i a b y.1.1 none (some ⟨off, itemRecLen i⟩), y.1.2),
        x.2 ++ (i, ⟨off, itemRecLen i⟩) :: y.2)

/-- `writeNodes`, also returning the number of node records written -/
def writeNodesW : Tree → FileSt → (Tree × FileSt) × Nat
  | .nil, s => ((.nil, s), 0)
  | .node l i a b r (some p) q, s => ((.node l i a b r (some p) q, s), 0)
  | .node l i a b r none q, s =>
    let x := writeNodesW l s
    let y := writeNodesW r x.1.2
    if y.1.2.failed then ((.node x.1.1 i a b y.1.1 none q, y.1.2), x.2 + y.2) else
    let off := y.1.2.size
    let rec_ := encNode { item := q, left := x.1.1.slotLoc, right := y.1.1.slotLoc, nn := a, nb := b }
    let s3 := (y.1.2.write rec_).advance nodeRecLen
    if s3.failed then ((.node x.1.1 i a b y.1.1 none q, s3), x.2 + y.2) else
    ((.node x.1.1 i a b y.1.1 (some ⟨off, nodeRecLen⟩) q, s3), x.2 + y.2 + 1)

/-- what a flush wrote: item records and the number of node records -/
structure Wrote where
  items : List ItemRec := []
  nodes : Nat := 0
deriving Repr

def Wrote.add (a b : Wrote) : Wrote := ⟨a.items ++ b.items, a.nodes + b.nodes⟩

def writeTreeW (t : Tree) (s : FileSt) : (Tree × FileSt) × Wrote :=
  let x := writeItemsW t s
  if x.1.2.failed then (x.1, ⟨x.2, 0⟩) else
  let y := writeNodesW x.1.1 x.1.2
  (y.1, ⟨x.2, y.2⟩)

def flushCollsW : List Coll → FileSt → (List Coll × FileSt) × Wrote
  | [], s => (([], s), {})
  | c :: rest, s =>
    let x := writeTreeW c.root s
    if x.1.2.failed then (({ c with root := x.1.1 } :: rest, x.1.2), x.2) else
    let y := flushCollsW rest x.1.2
    (({ c with root := x.1.1 } :: y.1.1, y.1.2), x.2.add y.2)

def flushStoreW (cs : List Coll) (s : FileSt) : (List Coll × FileSt) × Wrote :=
  let x := flushCollsW cs s
  if x.1.2.failed then x else
  let rec_ := encRoot x.1.2.size (rootEntries x.1.1)
  ((x.1.1, (x.1.2.write rec_).advance rec_.length), x.2)

def copyItemsW (fe : Nat) (name : Bytes) (cmp : CmpKind) :
    List Item → Nat → List Coll → FileSt → (List Coll × FileSt) × Wrote
  | [], _, cs, s => ((cs, s), {})
  | i :: rest, n, cs, s =>
    let c := (collsGet name cs).getD ⟨name, cmp, .nil⟩
    let cs1 := collsSet { c with root := Tree.setItem cmp.fn c.root i } cs
    let n1 := n + 1
    if fe > 0 ∧ n1 % fe = 0 then
      let x := flushStoreW cs1 s
      let y := copyItemsW fe name cmp rest n1 x.1.1 x.1.2
      (y.1, x.2.add y.2)
    else copyItemsW fe name cmp rest n1 cs1 s

def copyCollsW (fe : Nat) : List Coll → List Coll → FileSt → (List Coll × FileSt) × Wrote
  | [], cs, s => ((cs, s), {})
  | c :: rest, cs, s =>
    let cs0 := collsSet ⟨c.name, c.cmp, .nil⟩ cs
    let x := copyItemsW fe c.name c.cmp c.root.toList 0 cs0 s
    let y := copyCollsW fe rest x.1.1 x.1.2
    (y.1, x.2.add y.2)

/-- `copyTo`, also returning everything it wrote to the destination -/
def copyToW (src : List Coll) (fe : Int) : (List Coll × FileSt) × Wrote :=
  let feN := if fe > 0 then fe.toNat else 0
  let x := copyCollsW feN src [] { bytes := [], size := 0, log := [] }
  if fe > 0 then
    let y := flushStoreW x.1.1 x.1.2
    (y.1, x.2.add y.2)
  else x

/-! the twins compute what the originals compute -/

theorem writeItemsW_fst (t : Tree) (s : FileSt) : (writeItemsW t s).1 = writeItems t s := by
  induction t generalizing s with
  | nil => rfl
  | node l i a b r p q ihl ihr =>
    cases p with
    | some p => rfl
    | none =>
      cases q with
      | some il =>
        simp only [writeItems, writeItemsW, ihl, ihr]
      | none =>
        simp only [writeItems, writeItemsW, ihl]
        split
        · rfl
        · split
          · rfl
          · simp only [ihr]

theorem writeNodesW_fst (t : Tree) (s : FileSt) : (writeNodesW t s).1 = writeNodes t s := by
  induction t generalizing s with
  | nil => rfl
  | node l i a b r p q ihl ihr =>
    cases p with
    | some p => rfl
    | none =>
      simp only [writeNodes, writeNodesW, ihl, ihr]
      split
      · rfl
      · split <;> rfl

theorem writeTreeW_fst (t : Tree) (s : FileSt) : (writeTreeW t s).1 = writeTree t s := by
  simp only [writeTree, writeTreeW, writeItemsW_fst]
  split
  · rfl
  · simp only [writeNodesW_fst]

theorem flushCollsW_fst (cs : List Coll) (s : FileSt) : (flushCollsW cs s).1 = flushColls cs s := by
  induction cs generalizing s with
  | nil => rfl
  | cons c rest ih =>
    simp only [flushColls, flushCollsW, writeTreeW_fst]
    split
    · rfl
    · simp only [ih]

theorem flushStoreW_fst (cs : List Coll) (s : FileSt) : (flushStoreW cs s).1 = flushStore cs s := by
  simp only [flushStore, flushStoreW]
  split
  · next h => rw [flushCollsW_fst] at h ⊢; rw [if_pos h]
  · next h => rw [flushCollsW_fst] at h ⊢; rw [if_neg h]

theorem copyItemsW_fst (fe : Nat) (name : Bytes) (cmp : CmpKind) (is : List Item) (n : Nat)
    (cs : List Coll) (s : FileSt) :
    (copyItemsW fe name cmp is n cs s).1 = copyItems fe name cmp is n cs s := by
  induction is generalizing n cs s with
  | nil => rfl
  | cons i rest ih =>
    simp only [copyItems, copyItemsW]
    split
    · simp only [ih, flushStoreW_fst]
    · exact ih _ _ _

theorem copyCollsW_fst (fe : Nat) (src cs : List Coll) (s : FileSt) :
    (copyCollsW fe src cs s).1 = copyColls fe src cs s := by
  induction src generalizing cs s with
  | nil => rfl
  | cons c rest ih =>
    simp only [copyColls, copyCollsW, ih, copyItemsW_fst]

/-- the instrumented `copyTo` returns the same collections and the same file -/
theorem copyToW_fst (src : List Coll) (fe : Int) : (copyToW src fe).1 = copyTo src fe := by
  simp only [copyTo, copyToW]
  split
  · simp only [flushStoreW_fst, copyCollsW_fst]
  · simp only [copyCollsW_fst]


/-! ### counting item locations in a tree -/

/-- sum over all nodes of a weight of the node's item location -/
def cnt (w : Option Ploc → Nat) : Tree → Nat
  | .nil => 0
  | .node l _ _ _ r _ q => cnt w l + w q + cnt w r

/-- weight 1 for an item that has no record on file yet -/
def own : Option Ploc → Nat
  | none => 1
  | some _ => 0

/-- number of items (anywhere in the tree) without an item record -/
def unlocated (t : Tree) : Nat := cnt own t

/-- what `writeItems` will write: the items without a record of the nodes without a record that
    are reachable through nodes without a record -/
def dirtyItems : Tree → Nat
  | .nil => 0
  | .node _ _ _ _ _ (some _) _ => 0
  | .node l _ _ _ r none (some _) => dirtyItems l + dirtyItems r
  | .node l _ _ _ r none none => dirtyItems l + 1 + dirtyItems r

/-- a node that has a record has its item and its whole subtree on file (what `Coherent` implies,
    without reference to file contents) -/
def Closed : Tree → Prop
  | .nil => True
  | .node l _ _ _ r p q =>
    Closed l ∧ Closed r ∧ (p.isSome → q.isSome ∧ unlocated l = 0 ∧ unlocated r = 0)

/-- weight of the root's item location -/
def rootW (w : Option Ploc → Nat) : Tree → Nat
  | .nil => 0
  | .node _ _ _ _ _ _ q => w q

theorem cnt_one (t : Tree) : cnt (fun _ => 1) t = t.toList.length := by
  induction t with
  | nil => rfl
  | node l i a b r p q ihl ihr =>
    simp only [cnt, toList, List.length_append, List.length_cons, ihl, ihr]; omega

theorem cnt_mk (w : Option Ploc → Nat) (l r : Tree) (i : Item) (q : Option Ploc) :
    cnt w (mk l i r q) = cnt w l + w q + cnt w r := rfl

theorem closed_mk {l r : Tree} {i : Item} {q : Option Ploc} (hl : Closed l) (hr : Closed r) :
    Closed (mk l i r q) := ⟨hl, hr, fun h => by cases h⟩

theorem closed_of_unlocated : ∀ {t : Tree}, unlocated t = 0 → Closed t
  | .nil, _ => trivial
  | .node l i a b r p q, h => by
    simp only [unlocated, cnt] at h
    have h1 : unlocated l = 0 := by simp only [unlocated]; omega
    have h2 : unlocated r = 0 := by simp only [unlocated]; omega
    refine ⟨closed_of_unlocated h1, closed_of_unlocated h2, fun _ => ⟨?_, h1, h2⟩⟩
    cases q with
    | none => simp only [own] at h; omega
    | some _ => rfl

theorem dirtyItems_eq : ∀ {t : Tree}, Closed t → dirtyItems t = unlocated t
  | .nil, _ => rfl
  | .node l i a b r p q, ⟨hl, hr, hp⟩ => by
    cases p with
    | some p =>
      obtain ⟨hq, h1, h2⟩ := hp rfl
      cases q with
      | none => cases hq
      | some il => simp only [unlocated] at h1 h2; simp only [dirtyItems, unlocated, cnt, own, h1, h2]
    | none =>
      have e1 := dirtyItems_eq hl
      have e2 := dirtyItems_eq hr
      simp only [unlocated] at e1 e2
      cases q with
      | none => simp only [dirtyItems, unlocated, cnt, own, e1, e2]
      | some il => simp only [dirtyItems, unlocated, cnt, own, e1, e2]; omega

/-! ### `split`, `union`, `setItem` -/

section algo
variable (cmp : Bytes → Bytes → Ordering)

theorem split_cnt (w : Option Ploc → Nat) : ∀ (t : Tree) (s : Bytes),
    cnt w (split cmp t s).1 + rootW w (split cmp t s).2.1 + cnt w (split cmp t s).2.2 = cnt w t
  | .nil, s => rfl
  | .node l i a b r p q, s => by
    unfold split
    split
    · simp only [cnt, rootW]
    · split
      · simp only [cnt, rootW]; omega
      · have ih := split_cnt w l s
        simp only [cnt_mk, cnt]; omega
    · split
      · simp only [cnt, rootW]
      · have ih := split_cnt w r s
        simp only [cnt_mk, cnt]; omega

theorem split_closed : ∀ {t : Tree} (_ : Closed t) (s : Bytes),
    Closed (split cmp t s).1 ∧ Closed (split cmp t s).2.2
  | .nil, _, s => ⟨trivial, trivial⟩
  | .node l i a b r p q, h, s => by
    obtain ⟨hl, hr, hp⟩ := h
    unfold split
    split
    · exact ⟨hl, hr⟩
    · split
      · exact ⟨trivial, ⟨hl, hr, hp⟩⟩
      · have ih := split_closed hl s
        exact ⟨ih.1, closed_mk ih.2 hr⟩
    · split
      · exact ⟨⟨hl, hr, hp⟩, trivial⟩
      · have ih := split_closed hr s
        exact ⟨closed_mk hl ih.1, ih.2⟩

theorem split_sub (t : Tree) (s : Bytes) :
    (∀ i ∈ (split cmp t s).1.toList, i ∈ t.toList) ∧
      (∀ i ∈ (split cmp t s).2.2.toList, i ∈ t.toList) := by
  have h := split_all cmp (fun i => i ∈ t.toList) t s ((All_iff_toList t).mpr (fun _ h => h))
  exact ⟨(All_iff_toList _).mp h.1, (All_iff_toList _).mp h.2.2⟩

/-- no key of `t` is `cmp`-equal to `s`: the middle part of `split` is empty -/
theorem split_mid_nil (t : Tree) (s : Bytes) (h : ∀ j ∈ t.toList, cmp s j.key ≠ .eq) :
    (split cmp t s).2.1 = .nil := by
  rcases split_mid cmp s t with ⟨e, _⟩ | ⟨ml, mi, mn, mb, mr, mp, mq, _, hg, he⟩
  · exact e
  · have := get_some cmp ((All_iff_toList t).mpr (fun _ h => h)) hg
    exact absurd he (h mi this.1)

/-- the keys of `a` and of `b` are pairwise different under `cmp` (asked in both argument orders,
    so that no law about `cmp` is needed) -/
def KeysApart (a b : Tree) : Prop :=
  ∀ x ∈ a.toList, ∀ y ∈ b.toList, cmp x.key y.key ≠ .eq ∧ cmp y.key x.key ≠ .eq

/-- `union` of trees with different keys drops no node: every item keeps its location -/
theorem union_cnt (w : Option Ploc → Nat) {a b : Tree} (hd : KeysApart cmp a b) :
    cnt w (union cmp a b) = cnt w a + cnt w b := by
  fun_induction union cmp a b with
  | case1 b => simp only [cnt]; omega
  | case2 a _ => simp only [cnt]; omega
  | case3 al ai an ab ar ap aq bl bi bn bb br bp bq hp x _ nl nr l mi nn nb r loc mq hm ih1 ih2 =>
    exfalso
    have := split_mid_nil cmp (node bl bi bn bb br bp bq) ai.key
      (fun j hj => (hd ai (by simp [toList]) j hj).1)
    rw [this] at hm
    cases hm
  | case4 al ai an ab ar ap aq bl bi bn bb br bp bq hp x _ nl nr hm ih1 ih2 =>
    have hs := split_sub cmp (node bl bi bn bb br bp bq) ai.key
    have hc : cnt w x.1 + rootW w x.2.1 + cnt w x.2.2 = _ :=
      split_cnt cmp w (node bl bi bn bb br bp bq) ai.key
    have e1 := ih1 (fun u hu v hv => hd u (by simp [toList, hu]) v (hs.1 v hv))
    have e2 := ih2 (fun u hu v hv => hd u (by simp [toList, hu]) v (hs.2 v hv))
    rw [hm] at hc
    simp only [rootW] at hc
    rw [cnt_mk, e1, e2]
    simp only [cnt] at hc ⊢
    omega
  | case5 al ai an ab ar ap aq bl bi bn bb br bp bq hp x _ ih1 ih2 =>
    have hs := split_sub cmp (node al ai an ab ar ap aq) bi.key
    have hc : cnt w x.1 + rootW w x.2.1 + cnt w x.2.2 = _ :=
      split_cnt cmp w (node al ai an ab ar ap aq) bi.key
    have hm : x.2.1 = nil := split_mid_nil cmp (node al ai an ab ar ap aq) bi.key
      (fun j hj => (hd j hj bi (by simp [toList])).2)
    have e1 := ih1 (fun u hu v hv => hd u (hs.1 u hu) v (by simp [toList, hv]))
    have e2 := ih2 (fun u hu v hv => hd u (hs.2 u hu) v (by simp [toList, hv]))
    rw [hm] at hc
    simp only [rootW] at hc
    rw [cnt_mk, e1, e2]
    simp only [cnt] at hc ⊢
    omega

theorem union_closed {a b : Tree} (ha : Closed a) (hb : Closed b) : Closed (union cmp a b) := by
  fun_induction union cmp a b with
  | case1 b => exact hb
  | case2 a _ => exact ha
  | case3 al ai an ab ar ap aq bl bi bn bb br bp bq hp x _ nl nr l mi nn nb r loc mq hm ih1 ih2 =>
    have hs := split_closed cmp hb ai.key
    exact closed_mk (ih1 ha.1 hs.1) (ih2 ha.2.1 hs.2)
  | case4 al ai an ab ar ap aq bl bi bn bb br bp bq hp x _ nl nr hm ih1 ih2 =>
    have hs := split_closed cmp hb ai.key
    exact closed_mk (ih1 ha.1 hs.1) (ih2 ha.2.1 hs.2)
  | case5 al ai an ab ar ap aq bl bi bn bb br bp bq hp x _ ih1 ih2 =>
    have hs := split_closed cmp ha bi.key
    exact closed_mk (ih1 hs.1 hb.1) (ih2 hs.2 hb.2.1)

theorem setItem_closed {t : Tree} (h : Closed t) (i : Item) : Closed (setItem cmp t i) :=
  union_closed cmp h ⟨trivial, trivial, fun h => by cases h⟩

/-- `SetItem` of a key that is not in the tree: every old item keeps its location (none is
    cleared, none is dropped), and there is one more item, without a location -/
theorem setItem_cnt (w : Option Ploc → Nat) (t : Tree) (i : Item)
    (h : ∀ j ∈ t.toList, cmp j.key i.key ≠ .eq ∧ cmp i.key j.key ≠ .eq) :
    cnt w (setItem cmp t i) = cnt w t + w none := by
  unfold setItem
  rw [union_cnt cmp w]
  · simp only [cnt]; omega
  · intro x hx y hy
    simp only [toList, List.nil_append, List.mem_singleton] at hy
    subst hy
    exact h x hx

end algo

/-! ### one flush, without write faults -/

@[simp] theorem Wrote.add_items_length (a b : Wrote) :
    (a.add b).items.length = a.items.length + b.items.length := by
  simp only [Wrote.add, List.length_append]

theorem writeItemsW_clean (t : Tree) (s : FileSt) (h : s.Clean) : (writeItemsW t s).1.2.Clean := by
  rw [writeItemsW_fst]; exact (writeItems_tiles t s h).clean

/-- a fault-free `writeItems` writes exactly `dirtyItems t` item records -/
theorem writeItemsW_length (t : Tree) (s : FileSt) (h : s.Clean) :
    (writeItemsW t s).2.length = dirtyItems t := by
  induction t generalizing s with
  | nil => rfl
  | node l i a b r p q ihl ihr =>
    cases p with
    | some p => rfl
    | none =>
      have h1 := writeItemsW_clean l s h
      cases q with
      | some il =>
        simp only [writeItemsW, dirtyItems, List.length_append, ihl s h, ihr _ h1]
      | none =>
        simp only [writeItemsW]
        rw [if_neg (clean_not_failed h1)]
        have h2 := (tframe_item (writeItemsW l s).1.2 h1 (encItemHdrKey i) i.val (itemRecLen i)
          (length_encItemHdrKey i).symm).clean
        rw [if_neg (clean_not_failed h2)]
        simp only [dirtyItems, List.length_append, List.length_cons, ihl s h, ihr _ h2]
        omega

/-- ... after which no item of the tree lacks a record -/
theorem writeItemsW_located (t : Tree) (s : FileSt) (h : s.Clean) (hc : Closed t) :
    unlocated (writeItemsW t s).1.1 = 0 := by
  induction t generalizing s with
  | nil => rfl
  | node l i a b r p q ihl ihr =>
    obtain ⟨hl, hr, hp⟩ := hc
    cases p with
    | some p =>
      obtain ⟨hq, u1, u2⟩ := hp rfl
      cases q with
      | none => cases hq
      | some il =>
        simp only [unlocated] at u1 u2
        simp only [writeItemsW, unlocated, cnt, own, u1, u2]
    | none =>
      have h1 := writeItemsW_clean l s h
      have e1 := ihl s h hl
      cases q with
      | some il =>
        have e2 := ihr _ h1 hr
        simp only [unlocated] at e1 e2
        simp only [writeItemsW, unlocated, cnt, own, e1, e2]
      | none =>
        simp only [writeItemsW]
        rw [if_neg (clean_not_failed h1)]
        have h2 := (tframe_item (writeItemsW l s).1.2 h1 (encItemHdrKey i) i.val (itemRecLen i)
          (length_encItemHdrKey i).symm).clean
        rw [if_neg (clean_not_failed h2)]
        have e2 := ihr _ h2 hr
        simp only [unlocated] at e1 e2
        simp only [unlocated, cnt, own, e1, e2]

/-- `writeNodes` does not touch item locations -/
theorem writeNodes_cnt (w : Option Ploc → Nat) (t : Tree) (s : FileSt) :
    cnt w (writeNodes t s).1 = cnt w t := by
  induction t generalizing s with
  | nil => rfl
  | node l i a b r p q ihl ihr =>
    cases p with
    | some p => rfl
    | none =>
      simp only [writeNodes]
      split
      · simp only [cnt, ihl, ihr]
      · split <;> simp only [cnt, ihl, ihr]

theorem writeTreeW_spec (t : Tree) (s : FileSt) (h : s.Clean) (hc : Closed t) :
    (writeTreeW t s).1.2.Clean ∧ (writeTreeW t s).2.items.length = unlocated t ∧
      unlocated (writeTreeW t s).1.1 = 0 := by
  have h1 := writeItemsW_clean t s h
  have hcl : (writeTreeW t s).1.2.Clean := by
    rw [writeTreeW_fst]; exact (writeTree_tiles t s h).clean
  refine ⟨hcl, ?_, ?_⟩
  · simp only [writeTreeW]
    rw [if_neg (clean_not_failed h1)]
    simp only [writeItemsW_length t s h, dirtyItems_eq hc]
  · simp only [writeTreeW]
    rw [if_neg (clean_not_failed h1)]
    simp only [writeNodesW_fst, unlocated, writeNodes_cnt]
    exact writeItemsW_located t s h hc

/-- sum over the collections of a number computed from the root -/
def tot (f : Tree → Nat) (cs : List Coll) : Nat := (cs.map (fun c => f c.root)).sum

theorem flushCollsW_spec (cs : List Coll) (s : FileSt) (h : s.Clean)
    (hc : ∀ c ∈ cs, Closed c.root) :
    (flushCollsW cs s).1.2.Clean ∧ (flushCollsW cs s).2.items.length = tot unlocated cs ∧
      ∀ c ∈ (flushCollsW cs s).1.1, unlocated c.root = 0 := by
  induction cs generalizing s with
  | nil => exact ⟨h, rfl, fun c hc => by cases hc⟩
  | cons c rest ih =>
    obtain ⟨h1, e1, u1⟩ := writeTreeW_spec c.root s h (hc c (List.mem_cons_self ..))
    obtain ⟨h2, e2, u2⟩ := ih _ h1 (fun d hd => hc d (List.mem_cons_of_mem _ hd))
    simp only [flushCollsW]
    rw [if_neg (clean_not_failed h1)]
    refine ⟨h2, ?_, ?_⟩
    · simp only [Wrote.add_items_length, e1, e2, tot, List.map_cons, List.sum_cons]
    · intro d hd
      rcases List.mem_cons.mp hd with hd | hd
      · subst hd; exact u1
      · exact u2 d hd

/-- a fault-free Flush writes the record of every item that has none — `tot unlocated cs` item
    records — and afterwards every item has one -/
theorem flushStoreW_spec (cs : List Coll) (s : FileSt) (h : s.Clean)
    (hc : ∀ c ∈ cs, Closed c.root) :
    (flushStoreW cs s).1.2.Clean ∧ (flushStoreW cs s).2.items.length = tot unlocated cs ∧
      ∀ c ∈ (flushStoreW cs s).1.1, unlocated c.root = 0 := by
  obtain ⟨h1, e1, u1⟩ := flushCollsW_spec cs s h hc
  have hcl : (flushStoreW cs s).1.2.Clean := by
    rw [flushStoreW_fst]; exact (flushStore_tiles cs s h).clean
  refine ⟨hcl, ?_, ?_⟩
  · simp only [flushStoreW]
    rw [if_neg (clean_not_failed h1)]
    exact e1
  · simp only [flushStoreW]
    rw [if_neg (clean_not_failed h1)]
    exact u1

theorem tot_zero {f : Tree → Nat} : ∀ {cs : List Coll}, (∀ c ∈ cs, f c.root = 0) → tot f cs = 0
  | [], _ => rfl
  | c :: rest, h => by
    have := tot_zero (f := f) (cs := rest) (fun d hd => h d (List.mem_cons_of_mem _ hd))
    simp only [tot] at this
    simp only [tot, List.map_cons, List.sum_cons, h c (List.mem_cons_self ..), this]

/-! ### the collection list -/

/-- strictly sorted by name: the shape `collsSet` keeps -/
def SortedNames (cs : List Coll) : Prop := cs.Pairwise (fun a b => compare a.name b.name = .lt)

theorem mem_collsSet {c x : Coll} : ∀ {cs : List Coll}, x ∈ collsSet c cs → x = c ∨ x ∈ cs
  | [], h => by
    simp only [collsSet, List.mem_singleton] at h
    exact Or.inl h
  | d :: rest, h => by
    simp only [collsSet] at h
    split at h
    · rcases List.mem_cons.mp h with h | h
      · exact Or.inl h
      · exact Or.inr h
    · rcases List.mem_cons.mp h with h | h
      · exact Or.inl h
      · exact Or.inr (List.mem_cons_of_mem _ h)
    · rcases List.mem_cons.mp h with h | h
      · exact Or.inr (by rw [h]; exact List.mem_cons_self ..)
      · rcases mem_collsSet h with h | h
        · exact Or.inl h
        · exact Or.inr (List.mem_cons_of_mem _ h)

theorem collsSet_sorted (c : Coll) : ∀ cs : List Coll, SortedNames cs → SortedNames (collsSet c cs)
  | [], _ => by simp [collsSet, SortedNames]
  | d :: rest, h => by
    obtain ⟨h1, h2⟩ := List.pairwise_cons.mp h
    unfold collsSet
    split
    next hlt =>
      refine List.pairwise_cons.mpr ⟨?_, h⟩
      intro e he
      rcases List.mem_cons.mp he with he | he
      · subst he; exact hlt
      · exact TransCmp.lt_trans hlt (h1 e he)
    next heq =>
      have : c.name = d.name := Std.LawfulEqCmp.eq_of_compare heq
      refine List.pairwise_cons.mpr ⟨?_, h2⟩
      intro e he
      rw [this]
      exact h1 e he
    next hgt =>
      refine List.pairwise_cons.mpr ⟨?_, collsSet_sorted c rest h2⟩
      intro e he
      rcases mem_collsSet he with he | he
      · subst he; exact OrientedCmp.lt_of_gt hgt
      · exact h1 e he

theorem collsGet_none {n : Bytes} : ∀ {cs : List Coll}, (∀ d ∈ cs, d.name ≠ n) → collsGet n cs = none
  | [], _ => rfl
  | d :: rest, h => by
    simp only [collsGet]
    rw [if_neg (h d (List.mem_cons_self ..))]
    exact collsGet_none (fun e he => h e (List.mem_cons_of_mem _ he))

theorem compare_self_eq (a : Bytes) : compare a a = .eq := ReflCmp.compare_self

theorem ne_of_compare_lt {a b : Bytes} (h : compare a b = .lt) : a ≠ b := by
  intro e; rw [e, compare_self_eq] at h; cases h

theorem ne_of_compare_gt {a b : Bytes} (h : compare a b = .gt) : a ≠ b := by
  intro e; rw [e, compare_self_eq] at h; cases h

theorem collsGet_collsSet_self (d : Coll) : ∀ cs : List Coll, collsGet d.name (collsSet d cs) = some d
  | [] => by simp only [collsSet, collsGet, if_true]
  | e :: rest => by
    unfold collsSet
    split
    · simp only [collsGet, if_true]
    · simp only [collsGet, if_true]
    next hgt =>
      simp only [collsGet]
      rw [if_neg (fun h => ne_of_compare_gt hgt h.symm)]
      exact collsGet_collsSet_self d rest

/-- replacing (or adding) a collection, in a name-sorted list: the total changes by the
    difference between the new root and the root that `collsGet` finds under that name -/
theorem tot_collsSet (f : Tree → Nat) (d : Coll) : ∀ cs : List Coll, SortedNames cs →
    tot f (collsSet d cs) + ((collsGet d.name cs).map (fun c => f c.root)).getD 0 =
      tot f cs + f d.root
  | [], _ => by simp [collsSet, collsGet, tot]
  | e :: rest, h => by
    obtain ⟨h1, h2⟩ := List.pairwise_cons.mp h
    unfold collsSet
    split
    next hlt =>
      have hn : collsGet d.name (e :: rest) = none := by
        apply collsGet_none
        intro x hx
        rcases List.mem_cons.mp hx with hx | hx
        · subst hx; exact fun e' => ne_of_compare_lt hlt e'.symm
        · exact fun e' => ne_of_compare_lt (TransCmp.lt_trans hlt (h1 x hx)) e'.symm
      rw [hn]
      simp only [tot, List.map_cons, List.sum_cons, Option.map_none, Option.getD_none]
      omega
    next heq =>
      have hn : e.name = d.name := (Std.LawfulEqCmp.eq_of_compare heq).symm
      simp only [collsGet, if_pos hn, tot, List.map_cons, List.sum_cons, Option.map_some,
        Option.getD_some]
      omega
    next hgt =>
      have ih := tot_collsSet f d rest h2
      simp only [collsGet]
      rw [if_neg (fun h => ne_of_compare_gt hgt h.symm)]
      simp only [tot, List.map_cons, List.sum_cons] at ih ⊢
      omega

/-- the collection `copyItems` works on -/
def cur (name : Bytes) (cmp : CmpKind) (cs : List Coll) : Coll :=
  (collsGet name cs).getD ⟨name, cmp, .nil⟩

theorem collsGet_name {n : Bytes} : ∀ {cs : List Coll} {c : Coll}, collsGet n cs = some c → c.name = n
  | [], _, h => by cases h
  | d :: rest, c, h => by
    simp only [collsGet] at h
    split at h
    · next hd => injection h with h; subst h; exact hd
    · exact collsGet_name h

theorem collsGet_mem {n : Bytes} : ∀ {cs : List Coll} {c : Coll}, collsGet n cs = some c → c ∈ cs
  | [], _, h => by cases h
  | d :: rest, c, h => by
    simp only [collsGet] at h
    split at h
    · injection h with h; subst h; exact List.mem_cons_self ..
    · exact List.mem_cons_of_mem _ (collsGet_mem h)

theorem cur_name (name : Bytes) (cmp : CmpKind) (cs : List Coll) : (cur name cmp cs).name = name := by
  unfold cur
  cases h : collsGet name cs with
  | none => rfl
  | some c => exact collsGet_name h

/-- one `SetItem` step of `copyItems`: the total changes as the root of the current collection -/
theorem tot_step (f : Tree → Nat) (hf : f .nil = 0) (name : Bytes) (cmp : CmpKind) (cs : List Coll)
    (hs : SortedNames cs) (t' : Tree) :
    tot f (collsSet { cur name cmp cs with root := t' } cs) + f (cur name cmp cs).root =
      tot f cs + f t' := by
  have h := tot_collsSet f { cur name cmp cs with root := t' } cs hs
  have hn : ({ cur name cmp cs with root := t' } : Coll).name = name := cur_name name cmp cs
  rw [hn] at h
  have e : ((collsGet name cs).map (fun c => f c.root)).getD 0 = f (cur name cmp cs).root := by
    unfold cur
    cases collsGet name cs with
    | none => exact hf.symm
    | some c => rfl
  rw [e] at h
  exact h

/-! ### what a Flush keeps: everything but file locations -/

def names (cs : List Coll) : List Bytes := cs.map (fun c => c.name)

theorem names_of_view {cs cs' : List Coll} (h : collsView cs = collsView cs') :
    names cs = names cs' := by
  have := congrArg (List.map (fun x : Bytes × CmpKind × Tree => x.1)) h
  simp only [collsView, List.map_map, Function.comp_def] at this
  exact this

theorem sorted_iff_names (cs : List Coll) :
    SortedNames cs ↔ (names cs).Pairwise (fun a b => compare a b = .lt) := by
  unfold SortedNames names
  rw [List.pairwise_map]

theorem sorted_of_view {cs cs' : List Coll} (h : collsView cs = collsView cs')
    (hs : SortedNames cs') : SortedNames cs := by
  rw [sorted_iff_names, names_of_view h, ← sorted_iff_names]; exact hs

theorem totLen_of_view {cs cs' : List Coll} (h : collsView cs = collsView cs') :
    tot (fun t => t.toList.length) cs = tot (fun t => t.toList.length) cs' := by
  have := congrArg (List.map (fun x : Bytes × CmpKind × List Item => x.2.2.length))
    (collsItems_of_view h)
  simp only [collsItems, List.map_map, Function.comp_def] at this
  simp only [tot, this]

theorem cur_of_view {cs cs' : List Coll} (h : collsView cs = collsView cs') (name : Bytes)
    (cmp : CmpKind) : (cur name cmp cs).root.toList = (cur name cmp cs').root.toList := by
  have := collsGet_view h name ⟨name, cmp, .nil⟩ ⟨name, cmp, .nil⟩ rfl
  have e : (cur name cmp cs).root.eraseLocs = (cur name cmp cs').root.eraseLocs :=
    congrArg (fun x : Bytes × CmpKind × Tree => x.2.2) this
  rw [← eraseLocs_toList, e, eraseLocs_toList]

theorem flushStoreW_view (cs : List Coll) (s : FileSt) :
    collsView (flushStoreW cs s).1.1 = collsView cs := by
  rw [flushStoreW_fst]; exact flushStore_view cs s

/-! ### `copyItems` -/

/-- two items whose keys differ under the comparator (asked in both argument orders) -/
def Apart (cmp : CmpKind) (a b : Item) : Prop :=
  cmp.fn a.key b.key ≠ .eq ∧ cmp.fn b.key a.key ≠ .eq

/-- one `SetItem` of `copyItems` -/
def step (name : Bytes) (cmp : CmpKind) (cs : List Coll) (i : Item) : List Coll :=
  collsSet { cur name cmp cs with root := Tree.setItem cmp.fn (cur name cmp cs).root i } cs

theorem copyItemsW_cons (fe : Nat) (name : Bytes) (cmp : CmpKind) (i : Item) (rest : List Item)
    (n : Nat) (cs : List Coll) (s : FileSt) :
    copyItemsW fe name cmp (i :: rest) n cs s =
      if fe > 0 ∧ (n + 1) % fe = 0 then
        ((copyItemsW fe name cmp rest (n + 1) (flushStoreW (step name cmp cs i) s).1.1
            (flushStoreW (step name cmp cs i) s).1.2).1,
          (flushStoreW (step name cmp cs i) s).2.add
            (copyItemsW fe name cmp rest (n + 1) (flushStoreW (step name cmp cs i) s).1.1
              (flushStoreW (step name cmp cs i) s).1.2).2)
      else copyItemsW fe name cmp rest (n + 1) (step name cmp cs i) s := rfl

theorem cur_closed (name : Bytes) (cmp : CmpKind) (cs : List Coll) (h : ∀ c ∈ cs, Closed c.root) :
    Closed (cur name cmp cs).root := by
  unfold cur
  cases e : collsGet name cs with
  | none => exact trivial
  | some c => exact h c (collsGet_mem e)

theorem cur_step (name : Bytes) (cmp : CmpKind) (cs : List Coll) (i : Item) :
    (cur name cmp (step name cmp cs i)).root = Tree.setItem cmp.fn (cur name cmp cs).root i := by
  have h := collsGet_collsSet_self
    { cur name cmp cs with root := Tree.setItem cmp.fn (cur name cmp cs).root i } cs
  have hn : ({ cur name cmp cs with root := Tree.setItem cmp.fn (cur name cmp cs).root i } : Coll).name
      = name := cur_name name cmp cs
  rw [hn] at h
  show ((collsGet name (step name cmp cs i)).getD _).root = _
  unfold step
  rw [h]
  rfl

theorem setItem_mem (cmp : Bytes → Bytes → Ordering) (t : Tree) (i j : Item)
    (h : j ∈ (Tree.setItem cmp t i).toList) : j = i ∨ j ∈ t.toList := by
  have : All (fun j => j = i ∨ j ∈ t.toList) (Tree.setItem cmp t i) := by
    unfold Tree.setItem
    exact union_all cmp ((All_iff_toList t).mpr (fun _ h => Or.inr h)) ⟨trivial, Or.inl rfl, trivial⟩
  exact (All_iff_toList _).mp this j h

/-- the destination while it is being filled: no fault, names sorted, located nodes closed -/
structure Good (cs : List Coll) (s : FileSt) : Prop where
  clean : s.Clean
  sorted : SortedNames cs
  closed : ∀ c ∈ cs, Closed c.root

abbrev totLen (cs : List Coll) : Nat := tot (fun t => t.toList.length) cs

theorem copyItemsW_spec (fe : Nat) (name : Bytes) (cmp : CmpKind) (is : List Item) (n : Nat)
    (cs : List Coll) (s : FileSt) (hg : Good cs s) (hd : is.Pairwise (Apart cmp))
    (hf : ∀ j ∈ (cur name cmp cs).root.toList, ∀ i ∈ is, Apart cmp j i) :
    Good (copyItemsW fe name cmp is n cs s).1.1 (copyItemsW fe name cmp is n cs s).1.2 ∧
    (copyItemsW fe name cmp is n cs s).2.items.length +
        tot unlocated (copyItemsW fe name cmp is n cs s).1.1 = tot unlocated cs + is.length ∧
    totLen (copyItemsW fe name cmp is n cs s).1.1 = totLen cs + is.length ∧
    (∀ x ∈ names (copyItemsW fe name cmp is n cs s).1.1, x = name ∨ x ∈ names cs) := by
  induction is generalizing n cs s with
  | nil =>
    exact ⟨hg, by simp [copyItemsW], rfl, fun x hx => Or.inr hx⟩
  | cons i rest ih =>
    obtain ⟨hi, hd'⟩ := List.pairwise_cons.mp hd
    have hfi : ∀ j ∈ (cur name cmp cs).root.toList,
        cmp.fn j.key i.key ≠ .eq ∧ cmp.fn i.key j.key ≠ .eq :=
      fun j hj => hf j hj i (List.mem_cons_self ..)
    -- the step
    have s1 : SortedNames (step name cmp cs i) := collsSet_sorted _ cs hg.sorted
    have s2 : ∀ c ∈ step name cmp cs i, Closed c.root := by
      intro c hc
      rcases mem_collsSet hc with hc | hc
      · subst hc; exact setItem_closed cmp.fn (cur_closed name cmp cs hg.closed) i
      · exact hg.closed c hc
    have s3 : tot unlocated (step name cmp cs i) = tot unlocated cs + 1 := by
      have h : tot unlocated (step name cmp cs i) + unlocated (cur name cmp cs).root =
          tot unlocated cs + unlocated (Tree.setItem cmp.fn (cur name cmp cs).root i) :=
        tot_step unlocated rfl name cmp cs hg.sorted _
      have e : unlocated (Tree.setItem cmp.fn (cur name cmp cs).root i) =
          unlocated (cur name cmp cs).root + 1 :=
        setItem_cnt cmp.fn own (cur name cmp cs).root i hfi
      omega
    have s4 : totLen (step name cmp cs i) = totLen cs + 1 := by
      have h : totLen (step name cmp cs i) + (cur name cmp cs).root.toList.length =
          totLen cs + (Tree.setItem cmp.fn (cur name cmp cs).root i).toList.length :=
        tot_step (fun t => t.toList.length) rfl name cmp cs hg.sorted _
      have e := setItem_cnt cmp.fn (fun _ => 1) (cur name cmp cs).root i hfi
      rw [cnt_one, cnt_one] at e
      omega
    have s5 : ∀ j ∈ (cur name cmp (step name cmp cs i)).root.toList, ∀ i' ∈ rest, Apart cmp j i' := by
      intro j hj i' hi'
      rw [cur_step] at hj
      rcases setItem_mem _ _ _ _ hj with hj | hj
      · subst hj; exact hi i' hi'
      · exact hf j hj i' (List.mem_cons_of_mem _ hi')
    have s6 : ∀ x ∈ names (step name cmp cs i), x = name ∨ x ∈ names cs := by
      intro x hx
      obtain ⟨c, hc, rfl⟩ := List.mem_map.mp hx
      rcases mem_collsSet hc with hc | hc
      · subst hc; exact Or.inl (cur_name name cmp cs)
      · exact Or.inr (List.mem_map.mpr ⟨c, hc, rfl⟩)
    rw [copyItemsW_cons]
    split
    · -- a periodic flush
      obtain ⟨f1, f2, f3⟩ := flushStoreW_spec (step name cmp cs i) s hg.clean s2
      have hv := flushStoreW_view (step name cmp cs i) s
      have g2 : Good (flushStoreW (step name cmp cs i) s).1.1 (flushStoreW (step name cmp cs i) s).1.2 :=
        ⟨f1, sorted_of_view hv s1, fun c hc => closed_of_unlocated (f3 c hc)⟩
      have hf2 : ∀ j ∈ (cur name cmp (flushStoreW (step name cmp cs i) s).1.1).root.toList,
          ∀ i' ∈ rest, Apart cmp j i' := by
        rw [cur_of_view hv]; exact s5
      obtain ⟨r1, r2, r3, r4⟩ := ih (n + 1) _ _ g2 hd' hf2
      refine ⟨r1, ?_, ?_, ?_⟩
      · have z := tot_zero f3
        simp only [Wrote.add_items_length, List.length_cons]
        omega
      · have hl : totLen (flushStoreW (step name cmp cs i) s).1.1 = totLen (step name cmp cs i) :=
          totLen_of_view hv
        rw [r3, hl, s4, List.length_cons]; omega
      · intro x hx
        rcases r4 x hx with h | h
        · exact Or.inl h
        · rw [names_of_view hv] at h; exact s6 x h
    · obtain ⟨r1, r2, r3, r4⟩ := ih (n + 1) _ s ⟨hg.clean, s1, s2⟩ hd' s5
      refine ⟨r1, ?_, ?_, ?_⟩
      · rw [r2, s3, List.length_cons]; omega
      · rw [r3, s4, List.length_cons]; omega
      · intro x hx
        rcases r4 x hx with h | h
        · exact Or.inl h
        · exact s6 x h

/-! ### `copyColls`, `copyTo` -/

theorem copyCollsW_cons (fe : Nat) (c : Coll) (rest cs : List Coll) (s : FileSt) :
    copyCollsW fe (c :: rest) cs s =
      ((copyCollsW fe rest
          (copyItemsW fe c.name c.cmp c.root.toList 0 (collsSet ⟨c.name, c.cmp, .nil⟩ cs) s).1.1
          (copyItemsW fe c.name c.cmp c.root.toList 0 (collsSet ⟨c.name, c.cmp, .nil⟩ cs) s).1.2).1,
        (copyItemsW fe c.name c.cmp c.root.toList 0 (collsSet ⟨c.name, c.cmp, .nil⟩ cs) s).2.add
          (copyCollsW fe rest
            (copyItemsW fe c.name c.cmp c.root.toList 0 (collsSet ⟨c.name, c.cmp, .nil⟩ cs) s).1.1
            (copyItemsW fe c.name c.cmp c.root.toList 0 (collsSet ⟨c.name, c.cmp, .nil⟩ cs) s).1.2).2) :=
  rfl

theorem copyCollsW_spec (fe : Nat) (src cs : List Coll) (s : FileSt) (hg : Good cs s)
    (hn : src.Pairwise (fun a b => a.name ≠ b.name))
    (hnew : ∀ c ∈ src, c.name ∉ names cs)
    (hk : ∀ c ∈ src, c.root.toList.Pairwise (Apart c.cmp)) :
    Good (copyCollsW fe src cs s).1.1 (copyCollsW fe src cs s).1.2 ∧
    (copyCollsW fe src cs s).2.items.length + tot unlocated (copyCollsW fe src cs s).1.1 =
      tot unlocated cs + totLen src ∧
    totLen (copyCollsW fe src cs s).1.1 = totLen cs + totLen src := by
  induction src generalizing cs s with
  | nil => exact ⟨hg, by simp [copyCollsW, totLen, tot], rfl⟩
  | cons c rest ih =>
    obtain ⟨hn1, hn2⟩ := List.pairwise_cons.mp hn
    have hnone : collsGet c.name cs = none := by
      apply collsGet_none
      intro d hd e
      exact hnew c (List.mem_cons_self ..) (List.mem_map.mpr ⟨d, hd, e⟩)
    -- the empty destination collection is created
    have g0 : Good (collsSet ⟨c.name, c.cmp, .nil⟩ cs) s := by
      refine ⟨hg.clean, collsSet_sorted _ cs hg.sorted, ?_⟩
      intro d hd
      rcases mem_collsSet hd with hd | hd
      · subst hd; exact trivial
      · exact hg.closed d hd
    have u0 : tot unlocated (collsSet ⟨c.name, c.cmp, .nil⟩ cs) = tot unlocated cs := by
      have h := tot_collsSet unlocated ⟨c.name, c.cmp, .nil⟩ cs hg.sorted
      simp only [hnone, Option.map_none, Option.getD_none] at h
      have z : unlocated Tree.nil = 0 := rfl
      omega
    have l0 : totLen (collsSet ⟨c.name, c.cmp, .nil⟩ cs) = totLen cs := by
      have h : totLen (collsSet ⟨c.name, c.cmp, .nil⟩ cs) +
          ((collsGet c.name cs).map (fun c => c.root.toList.length)).getD 0 =
            totLen cs + (Tree.nil).toList.length :=
        tot_collsSet (fun t => t.toList.length) ⟨c.name, c.cmp, .nil⟩ cs hg.sorted
      simp only [hnone, Option.map_none, Option.getD_none, Tree.toList, List.length_nil] at h
      omega
    have f0 : ∀ j ∈ (cur c.name c.cmp (collsSet ⟨c.name, c.cmp, .nil⟩ cs)).root.toList,
        ∀ i ∈ c.root.toList, Apart c.cmp j i := by
      have e : cur c.name c.cmp (collsSet ⟨c.name, c.cmp, .nil⟩ cs) = ⟨c.name, c.cmp, .nil⟩ := by
        unfold cur
        rw [collsGet_collsSet_self ⟨c.name, c.cmp, .nil⟩ cs]
        rfl
      rw [e]
      intro j hj
      cases hj
    obtain ⟨g1, u1, l1, n1⟩ := copyItemsW_spec fe c.name c.cmp c.root.toList 0 _ s g0
      (hk c (List.mem_cons_self ..)) f0
    have hnew' : ∀ c' ∈ rest, c'.name ∉ names
        (copyItemsW fe c.name c.cmp c.root.toList 0 (collsSet ⟨c.name, c.cmp, .nil⟩ cs) s).1.1 := by
      intro c' hc' hm
      rcases n1 _ hm with h | h
      · exact hn1 c' hc' h.symm
      · obtain ⟨d, hd, e⟩ := List.mem_map.mp h
        rcases mem_collsSet hd with hd | hd
        · subst hd; exact hn1 c' hc' e
        · exact hnew c' (List.mem_cons_of_mem _ hc') (List.mem_map.mpr ⟨d, hd, e⟩)
    obtain ⟨g2, u2, l2⟩ := ih _ _ g1 hn2 hnew' (fun d hd => hk d (List.mem_cons_of_mem _ hd))
    rw [copyCollsW_cons]
    refine ⟨g2, ?_, ?_⟩
    · simp only [Wrote.add_items_length]
      have : totLen (c :: rest) = c.root.toList.length + totLen rest := by
        simp only [totLen, tot, List.map_cons, List.sum_cons]
      omega
    · have : totLen (c :: rest) = c.root.toList.length + totLen rest := by
        simp only [totLen, tot, List.map_cons, List.sum_cons]
      dsimp only
      omega

/-- the hypotheses: source collections have different names, and within a collection no two items
    have keys that the collection's comparator calls equal -/
def DistinctNames (src : List Coll) : Prop := src.Pairwise (fun a b => a.name ≠ b.name)

def DistinctKeys (src : List Coll) : Prop :=
  ∀ c ∈ src, c.root.toList.Pairwise (fun a b => c.cmp.fn a.key b.key ≠ .eq)

theorem apart_of_distinct {src : List Coll} (h : DistinctKeys src) :
    ∀ c ∈ src, c.root.toList.Pairwise (Apart c.cmp) := by
  intro c hc
  refine (h c hc).imp ?_
  intro a b hab
  exact ⟨hab, fun e => hab (OrientedCmp.eq_comm.mp e)⟩

theorem good_empty : Good [] { bytes := [], size := 0, log := [] } :=
  ⟨⟨rfl, rfl⟩, List.Pairwise.nil, fun c hc => by cases hc⟩

theorem copyToW_pos (src : List Coll) (fe : Int) (hfe : fe > 0) :
    copyToW src fe =
      ((flushStoreW (copyCollsW fe.toNat src [] { bytes := [], size := 0, log := [] }).1.1
          (copyCollsW fe.toNat src [] { bytes := [], size := 0, log := [] }).1.2).1,
        (copyCollsW fe.toNat src [] { bytes := [], size := 0, log := [] }).2.add
          (flushStoreW (copyCollsW fe.toNat src [] { bytes := [], size := 0, log := [] }).1.1
            (copyCollsW fe.toNat src [] { bytes := [], size := 0, log := [] }).1.2).2) := by
  simp only [copyToW, hfe, if_true]

theorem copyToW_spec (src : List Coll) (fe : Int) (hfe : fe > 0) (hn : DistinctNames src)
    (hk : DistinctKeys src) :
    (copyToW src fe).2.items.length = totLen src ∧
    totLen (copyToW src fe).1.1 = totLen src ∧
    ∀ c ∈ (copyToW src fe).1.1, unlocated c.root = 0 := by
  obtain ⟨g, u, l⟩ := copyCollsW_spec fe.toNat src [] _ good_empty hn
    (fun c _ h => by cases h) (apart_of_distinct hk)
  obtain ⟨f1, f2, f3⟩ := flushStoreW_spec _ _ g.clean g.closed
  have hv := flushStoreW_view (copyCollsW fe.toNat src [] { bytes := [], size := 0, log := [] }).1.1
    (copyCollsW fe.toNat src [] { bytes := [], size := 0, log := [] }).1.2
  rw [copyToW_pos src fe hfe]
  refine ⟨?_, ?_, f3⟩
  · simp only [Wrote.add_items_length]
    have z : tot unlocated ([] : List Coll) = 0 := rfl
    omega
  · have hl := totLen_of_view hv
    have z : totLen ([] : List Coll) = 0 := rfl
    simp only [totLen] at hl l z ⊢
    omega

/-! ### the theorems -/

/-- **Each source item's record is written exactly once.**  A fault-free `CopyTo` with
    `flushEvery > 0` into an empty file writes as many item records as the source has items: the
    record of an item goes out at the first flush after its `SetItem` and never again, whatever
    `flushEvery` is (later `SetItem`s of other keys keep its location, `setItem_cnt`; later flushes
    skip it, `writeItemsW_length`/`dirtyItems`). -/
theorem copyTo_item_records_eq_source (src : List Coll) (fe : Int) (hfe : fe > 0)
    (hn : DistinctNames src) (hk : DistinctKeys src) :
    (copyToW src fe).2.items.length = (src.map (fun c => c.root.toList.length)).sum :=
  (copyToW_spec src fe hfe hn hk).1

/-- **No superseded item versions.**  The number of item records in the destination file equals
    the number of items the destination store holds. -/
theorem copyTo_item_records_eq_dest (src : List Coll) (fe : Int) (hfe : fe > 0)
    (hn : DistinctNames src) (hk : DistinctKeys src) :
    (copyToW src fe).2.items.length =
      ((copyTo src fe).1.map (fun c => c.root.toList.length)).sum := by
  obtain ⟨h1, h2, _⟩ := copyToW_spec src fe hfe hn hk
  rw [← copyToW_fst]
  exact h1.trans h2.symm

/-- the same under the hypotheses of `Props.C11.copy_equivalent` -/
theorem copyTo_item_records_of_bst (src : List Coll) (fe : Int) (hfe : fe > 0)
    (hb : ∀ c ∈ src, Tree.BST c.cmp.fn c.root)
    (hnames : src.Pairwise (fun a b => compare a.name b.name = .lt)) :
    (copyToW src fe).2.items.length = (src.map (fun c => c.root.toList.length)).sum ∧
    (copyToW src fe).2.items.length =
      ((copyTo src fe).1.map (fun c => c.root.toList.length)).sum := by
  have hn : DistinctNames src := hnames.imp (fun h => ne_of_compare_lt h)
  have hk : DistinctKeys src := by
    intro c hc
    refine (Tree.toList_sorted c.cmp.fn (hb c hc)).imp ?_
    intro a b h e
    rw [h] at e
    cases e
  exact ⟨copyTo_item_records_eq_source src fe hfe hn hk, copyTo_item_records_eq_dest src fe hfe hn hk⟩

/-- in-order: every item with the location of its record -/
def itemLocs : Tree → List (Item × Option Ploc)
  | .nil => []
  | .node l i _ _ r _ q => itemLocs l ++ (i, q) :: itemLocs r

theorem itemLocs_fst (t : Tree) : (itemLocs t).map Prod.fst = t.toList := by
  induction t with
  | nil => rfl
  | node l i a b r p q ihl ihr => simp only [itemLocs, toList, List.map_append, List.map_cons, ihl, ihr]

theorem unlocated_zero_iff (t : Tree) : unlocated t = 0 ↔ ∀ x ∈ itemLocs t, x.2.isSome := by
  induction t with
  | nil => simp [unlocated, cnt, itemLocs]
  | node l i a b r p q ihl ihr =>
    simp only [unlocated] at ihl ihr
    simp only [unlocated, cnt, itemLocs, List.mem_append, List.mem_cons]
    constructor
    · intro h x hx
      rcases hx with hx | hx | hx
      · exact ihl.mp (by omega) x hx
      · subst hx
        cases q with
        | none => simp only [own] at h; omega
        | some _ => rfl
      · exact ihr.mp (by omega) x hx
    · intro h
      have h1 := ihl.mpr (fun x hx => h x (Or.inl hx))
      have h2 := ihr.mpr (fun x hx => h x (Or.inr (Or.inr hx)))
      have h3 := h (i, q) (Or.inr (Or.inl rfl))
      cases q with
      | none => cases h3
      | some _ => simp only [own]; omega

/-- **Every item of the destination has its record on file** (for `flushEvery > 0`): together with
    `copyTo_item_records_eq_dest`, as many records as items and every item has one. -/
theorem copyTo_all_located (src : List Coll) (fe : Int) (hfe : fe > 0)
    (hn : DistinctNames src) (hk : DistinctKeys src) :
    ∀ c ∈ (copyTo src fe).1, ∀ x ∈ itemLocs c.root, x.2.isSome := by
  intro c hc
  rw [← copyToW_fst] at hc
  exact (unlocated_zero_iff c.root).mp ((copyToW_spec src fe hfe hn hk).2.2 c hc)

/-! ### which records: every item record written is the record of an item of the destination -/

theorem itemLocs_mk (l r : Tree) (i : Item) (q : Option Ploc) :
    itemLocs (mk l i r q) = itemLocs l ++ (i, q) :: itemLocs r := rfl

/-- the root's entry of `itemLocs` -/
def rootL : Tree → List (Item × Option Ploc)
  | .nil => []
  | .node _ i _ _ _ _ q => [(i, q)]

section algo2
variable (cmp : Bytes → Bytes → Ordering)

theorem split_itemLocs (x : Item × Option Ploc) : ∀ (t : Tree) (s : Bytes), x ∈ itemLocs t →
    x ∈ itemLocs (split cmp t s).1 ∨ x ∈ rootL (split cmp t s).2.1 ∨
      x ∈ itemLocs (split cmp t s).2.2
  | .nil, s, hx => by cases hx
  | .node l i a b r p q, s, hx => by
    unfold split
    split
    · simp only [itemLocs, List.mem_append, List.mem_cons] at hx
      simp only [rootL, List.mem_singleton]
      rcases hx with h | h | h
      · exact Or.inl h
      · exact Or.inr (Or.inl h)
      · exact Or.inr (Or.inr h)
    · split
      · exact Or.inr (Or.inr hx)
      · simp only [itemLocs, List.mem_append, List.mem_cons] at hx
        simp only [itemLocs_mk, List.mem_append, List.mem_cons]
        rcases hx with h | h | h
        · rcases split_itemLocs x l s h with h | h | h
          · exact Or.inl h
          · exact Or.inr (Or.inl h)
          · exact Or.inr (Or.inr (Or.inl h))
        · exact Or.inr (Or.inr (Or.inr (Or.inl h)))
        · exact Or.inr (Or.inr (Or.inr (Or.inr h)))
    · split
      · exact Or.inl hx
      · simp only [itemLocs, List.mem_append, List.mem_cons] at hx
        simp only [itemLocs_mk, List.mem_append, List.mem_cons]
        rcases hx with h | h | h
        · exact Or.inl (Or.inl h)
        · exact Or.inl (Or.inr (Or.inl h))
        · rcases split_itemLocs x r s h with h | h | h
          · exact Or.inl (Or.inr (Or.inr h))
          · exact Or.inr (Or.inl h)
          · exact Or.inr (Or.inr h)

/-- `union` of trees with different keys keeps every (item, location) pair of both -/
theorem union_itemLocs (x : Item × Option Ploc) {a b : Tree} (hd : KeysApart cmp a b)
    (hx : x ∈ itemLocs a ∨ x ∈ itemLocs b) : x ∈ itemLocs (union cmp a b) := by
  fun_induction union cmp a b with
  | case1 b =>
    rcases hx with h | h
    · cases h
    · exact h
  | case2 a _ =>
    rcases hx with h | h
    · exact h
    · cases h
  | case3 al ai an ab ar ap aq bl bi bn bb br bp bq hp x' _ nl nr l mi nn nb r loc mq hm ih1 ih2 =>
    exfalso
    have := split_mid_nil cmp (node bl bi bn bb br bp bq) ai.key
      (fun j hj => (hd ai (by simp [toList]) j hj).1)
    rw [this] at hm
    cases hm
  | case4 al ai an ab ar ap aq bl bi bn bb br bp bq hp x' _ nl nr hm ih1 ih2 =>
    have hs := split_sub cmp (node bl bi bn bb br bp bq) ai.key
    have e1 := ih1 (fun u hu v hv => hd u (by simp [toList, hu]) v (hs.1 v hv))
    have e2 := ih2 (fun u hu v hv => hd u (by simp [toList, hu]) v (hs.2 v hv))
    simp only [itemLocs_mk, List.mem_append, List.mem_cons]
    rcases hx with h | h
    · simp only [itemLocs, List.mem_append, List.mem_cons] at h
      rcases h with h | h | h
      · exact Or.inl (e1 (Or.inl h))
      · exact Or.inr (Or.inl h)
      · exact Or.inr (Or.inr (e2 (Or.inl h)))
    · have h' : x ∈ itemLocs x'.1 ∨ x ∈ rootL x'.2.1 ∨ x ∈ itemLocs x'.2.2 :=
        split_itemLocs cmp x _ ai.key h
      rw [hm] at h'
      rcases h' with h' | h' | h'
      · exact Or.inl (e1 (Or.inr h'))
      · cases h'
      · exact Or.inr (Or.inr (e2 (Or.inr h')))
  | case5 al ai an ab ar ap aq bl bi bn bb br bp bq hp x' _ ih1 ih2 =>
    have hs := split_sub cmp (node al ai an ab ar ap aq) bi.key
    have hm : x'.2.1 = nil := split_mid_nil cmp (node al ai an ab ar ap aq) bi.key
      (fun j hj => (hd j hj bi (by simp [toList])).2)
    have e1 := ih1 (fun u hu v hv => hd u (hs.1 u hu) v (by simp [toList, hv]))
    have e2 := ih2 (fun u hu v hv => hd u (hs.2 u hu) v (by simp [toList, hv]))
    simp only [itemLocs_mk, List.mem_append, List.mem_cons]
    rcases hx with h | h
    · have h' : x ∈ itemLocs x'.1 ∨ x ∈ rootL x'.2.1 ∨ x ∈ itemLocs x'.2.2 :=
        split_itemLocs cmp x _ bi.key h
      rw [hm] at h'
      rcases h' with h' | h' | h'
      · exact Or.inl (e1 (Or.inl h'))
      · cases h'
      · exact Or.inr (Or.inr (e2 (Or.inl h')))
    · simp only [itemLocs, List.mem_append, List.mem_cons] at h
      rcases h with h | h | h
      · exact Or.inl (e1 (Or.inr h))
      · exact Or.inr (Or.inl h)
      · exact Or.inr (Or.inr (e2 (Or.inr h)))

/-- `SetItem` of a key that is not in the tree keeps every item together with its location -/
theorem setItem_itemLocs (t : Tree) (i : Item)
    (h : ∀ j ∈ t.toList, cmp j.key i.key ≠ .eq ∧ cmp i.key j.key ≠ .eq)
    (x : Item × Option Ploc) (hx : x ∈ itemLocs t) : x ∈ itemLocs (setItem cmp t i) := by
  unfold setItem
  apply union_itemLocs cmp x _ (Or.inl hx)
  intro u hu y hy
  simp only [toList, List.nil_append, List.mem_singleton] at hy
  subst hy
  exact h u hu

end algo2

theorem itemRecLen_pos (i : Item) : 0 < itemRecLen i := by
  unfold itemRecLen itemHdrLen; omega

/-- item records in ascending file order, one after the end of the other (not necessarily
    adjacent: node and root records lie in between), each as long as its item's record, between
    `lo` and `hi` -/
def Asc : Nat → List ItemRec → Nat → Prop
  | lo, [], hi => lo ≤ hi
  | lo, r :: rest, hi => lo ≤ r.2.off ∧ r.2.len = itemRecLen r.1 ∧ Asc (r.2.off + r.2.len) rest hi

theorem Asc.le : ∀ {lo hi : Nat} {l : List ItemRec}, Asc lo l hi → lo ≤ hi
  | _, _, [], h => h
  | _, _, _ :: _, h => by
    have := Asc.le h.2.2
    have := h.1
    omega

theorem Asc.mono_hi : ∀ {lo hi hi' : Nat} {l : List ItemRec}, Asc lo l hi → hi ≤ hi' → Asc lo l hi'
  | _, _, _, [], h, h' => Nat.le_trans h h'
  | _, _, _, _ :: _, h, h' => ⟨h.1, h.2.1, Asc.mono_hi h.2.2 h'⟩

theorem Asc.append : ∀ {a b c : Nat} {l1 l2 : List ItemRec}, Asc a l1 b → Asc b l2 c →
    Asc a (l1 ++ l2) c
  | _, _, _, [], [], h1, h2 => Nat.le_trans h1 h2
  | _, _, _, [], _ :: _, h1, h2 => ⟨Nat.le_trans h1 h2.1, h2.2.1, h2.2.2⟩
  | _, _, _, _ :: _, _, h1, h2 => ⟨h1.1, h1.2.1, Asc.append h1.2.2 h2⟩

theorem Asc.within : ∀ {lo hi : Nat} {l : List ItemRec}, Asc lo l hi →
    ∀ r ∈ l, lo ≤ r.2.off ∧ r.2.len = itemRecLen r.1 ∧ r.2.off + r.2.len ≤ hi
  | _, _, [], _, r, hr => by cases hr
  | _, _, r' :: rest, h, r, hr => by
    rcases List.mem_cons.mp hr with e | e
    · subst e
      exact ⟨h.1, h.2.1, Asc.le h.2.2⟩
    · have h3 := Asc.within h.2.2 r e
      have := h.1
      have := itemRecLen_pos r'.1
      have := h.2.1
      exact ⟨by omega, h3.2.1, h3.2.2⟩

/-- records of an ascending list do not overlap -/
theorem Asc.pairwise : ∀ {lo hi : Nat} {l : List ItemRec}, Asc lo l hi →
    l.Pairwise (fun r r' => r.2.off + r.2.len ≤ r'.2.off)
  | _, _, [], _ => List.Pairwise.nil
  | _, _, _ :: _, h =>
    List.pairwise_cons.mpr ⟨fun r' hr' => (Asc.within h.2.2 r' hr').1, Asc.pairwise h.2.2⟩

/-- ... so no two of them are at the same place -/
theorem Asc.nodup : ∀ {lo hi : Nat} {l : List ItemRec}, Asc lo l hi →
    (l.map (fun r => (r.1, some r.2))).Nodup
  | _, _, [], _ => List.nodup_nil
  | _, _, r :: rest, h => by
    rw [List.map_cons, List.nodup_cons]
    refine ⟨?_, Asc.nodup h.2.2⟩
    intro hm
    obtain ⟨r', hr', e⟩ := List.mem_map.mp hm
    have hw := (Asc.within h.2.2 r' hr').1
    have hp := itemRecLen_pos r.1
    have hl := h.2.1
    have e2 : r'.2 = r.2 := by
      have := congrArg Prod.snd e
      exact Option.some.inj this
    rw [e2] at hw
    omega

theorem item_step_size (s : FileSt) (h : s.Clean) (i : Item) :
    (((s.write (encItemHdrKey i)).writeAtOff (s.size + (encItemHdrKey i).length) i.val).advance
      (itemRecLen i)).size = s.size + itemRecLen i := by
  have hc1 : (s.write (encItemHdrKey i)).Clean := by
    unfold FileSt.write; rw [writeAtOff_clean s h]; exact h
  have hc2 : ((s.write (encItemHdrKey i)).writeAtOff (s.size + (encItemHdrKey i).length) i.val).Clean := by
    rw [writeAtOff_clean _ hc1]; exact hc1
  rw [advance_clean _ hc2, writeAtOff_clean _ hc1]
  unfold FileSt.write
  rw [writeAtOff_clean s h]

theorem writeItemsW_live (t : Tree) (s : FileSt) (h : s.Clean) :
    (∀ i p, (i, some p) ∈ itemLocs t → (i, some p) ∈ itemLocs (writeItemsW t s).1.1) ∧
    (∀ r ∈ (writeItemsW t s).2, (r.1, some r.2) ∈ itemLocs (writeItemsW t s).1.1) ∧
    Asc s.size (writeItemsW t s).2 (writeItemsW t s).1.2.size := by
  induction t generalizing s with
  | nil => exact ⟨fun _ _ h => h, fun r hr => (by cases hr), Nat.le_refl _⟩
  | node l i a b r p q ihl ihr =>
    cases p with
    | some p => exact ⟨fun _ _ h => h, fun r hr => (by cases hr), Nat.le_refl _⟩
    | none =>
      have h1 := writeItemsW_clean l s h
      obtain ⟨a1, b1, c1⟩ := ihl s h
      cases q with
      | some il =>
        obtain ⟨a2, b2, c2⟩ := ihr _ h1
        simp only [writeItemsW, itemLocs, List.mem_append, List.mem_cons]
        refine ⟨?_, ?_, Asc.append c1 c2⟩
        · intro j pj hj
          rcases hj with hj | hj | hj
          · exact Or.inl (a1 j pj hj)
          · exact Or.inr (Or.inl hj)
          · exact Or.inr (Or.inr (a2 j pj hj))
        · intro r' hr'
          rcases hr' with hr' | hr'
          · exact Or.inl (b1 r' hr')
          · exact Or.inr (Or.inr (b2 r' hr'))
      | none =>
        simp only [writeItemsW]
        rw [if_neg (clean_not_failed h1)]
        have h2 := (tframe_item (writeItemsW l s).1.2 h1 (encItemHdrKey i) i.val (itemRecLen i)
          (length_encItemHdrKey i).symm).clean
        rw [if_neg (clean_not_failed h2)]
        obtain ⟨a2, b2, c2⟩ := ihr _ h2
        rw [item_step_size _ h1] at c2
        simp only [itemLocs, List.mem_append, List.mem_cons]
        refine ⟨?_, ?_, ?_⟩
        · intro j pj hj
          rcases hj with hj | hj | hj
          · exact Or.inl (a1 j pj hj)
          · cases hj
          · exact Or.inr (Or.inr (a2 j pj hj))
        · intro r' hr'
          rcases hr' with hr' | hr' | hr'
          · exact Or.inl (b1 r' hr')
          · subst hr'; exact Or.inr (Or.inl rfl)
          · exact Or.inr (Or.inr (b2 r' hr'))
        · exact Asc.append c1 ⟨Nat.le_refl _, rfl, c2⟩

theorem writeNodes_itemLocs (t : Tree) (s : FileSt) : itemLocs (writeNodes t s).1 = itemLocs t := by
  induction t generalizing s with
  | nil => rfl
  | node l i a b r p q ihl ihr =>
    cases p with
    | some p => rfl
    | none =>
      simp only [writeNodes]
      split
      · simp only [itemLocs, ihl, ihr]
      · split <;> simp only [itemLocs, ihl, ihr]

theorem writeTreeW_live (t : Tree) (s : FileSt) (h : s.Clean) :
    (∀ i p, (i, some p) ∈ itemLocs t → (i, some p) ∈ itemLocs (writeTreeW t s).1.1) ∧
    (∀ r ∈ (writeTreeW t s).2.items, (r.1, some r.2) ∈ itemLocs (writeTreeW t s).1.1) ∧
    Asc s.size (writeTreeW t s).2.items (writeTreeW t s).1.2.size := by
  have h1 := writeItemsW_clean t s h
  obtain ⟨a1, b1, c1⟩ := writeItemsW_live t s h
  simp only [writeTreeW]
  rw [if_neg (clean_not_failed h1)]
  simp only [writeNodesW_fst, writeNodes_itemLocs]
  exact ⟨a1, b1, Asc.mono_hi c1 (writeNodes_size_mono _ _)⟩

/-- the record `r` is the item record of an item of one of the collections -/
def Held (cs : List Coll) (r : ItemRec) : Prop := ∃ c ∈ cs, (r.1, some r.2) ∈ itemLocs c.root

theorem flushCollsW_live (cs : List Coll) (s : FileSt) (h : s.Clean)
    (hc : ∀ c ∈ cs, Closed c.root) :
    (∀ r, Held cs r → Held (flushCollsW cs s).1.1 r) ∧
    (∀ r ∈ (flushCollsW cs s).2.items, Held (flushCollsW cs s).1.1 r) ∧
    Asc s.size (flushCollsW cs s).2.items (flushCollsW cs s).1.2.size := by
  induction cs generalizing s with
  | nil => exact ⟨fun _ h => h, fun r hr => (by cases hr), Nat.le_refl _⟩
  | cons c rest ih =>
    obtain ⟨h1, _, _⟩ := writeTreeW_spec c.root s h (hc c (List.mem_cons_self ..))
    obtain ⟨a1, b1, c1⟩ := writeTreeW_live c.root s h
    obtain ⟨a2, b2, c2⟩ := ih _ h1 (fun d hd => hc d (List.mem_cons_of_mem _ hd))
    simp only [flushCollsW]
    rw [if_neg (clean_not_failed h1)]
    refine ⟨?_, ?_, Asc.append c1 c2⟩
    · rintro r ⟨d, hd, hr⟩
      rcases List.mem_cons.mp hd with hd | hd
      · subst hd
        exact ⟨_, List.mem_cons_self .., a1 _ _ hr⟩
      · obtain ⟨d', hd', hr'⟩ := a2 r ⟨d, hd, hr⟩
        exact ⟨d', List.mem_cons_of_mem _ hd', hr'⟩
    · intro r hr
      simp only [Wrote.add, List.mem_append] at hr
      rcases hr with hr | hr
      · exact ⟨_, List.mem_cons_self .., b1 r hr⟩
      · obtain ⟨d', hd', hr'⟩ := b2 r hr
        exact ⟨d', List.mem_cons_of_mem _ hd', hr'⟩

theorem flushStoreW_live (cs : List Coll) (s : FileSt) (h : s.Clean)
    (hc : ∀ c ∈ cs, Closed c.root) :
    (∀ r, Held cs r → Held (flushStoreW cs s).1.1 r) ∧
    (∀ r ∈ (flushStoreW cs s).2.items, Held (flushStoreW cs s).1.1 r) ∧
    Asc s.size (flushStoreW cs s).2.items (flushStoreW cs s).1.2.size := by
  obtain ⟨h1, _, _⟩ := flushCollsW_spec cs s h hc
  obtain ⟨a1, b1, c1⟩ := flushCollsW_live cs s h hc
  simp only [flushStoreW]
  rw [if_neg (clean_not_failed h1)]
  exact ⟨a1, b1, Asc.mono_hi c1 (frame_write_advance _ _ _).size_mono⟩

theorem mem_collsSet_self (d : Coll) : ∀ cs : List Coll, d ∈ collsSet d cs
  | [] => by simp [collsSet]
  | e :: rest => by
    unfold collsSet
    split
    · exact List.mem_cons_self ..
    · exact List.mem_cons_self ..
    · exact List.mem_cons_of_mem _ (mem_collsSet_self d rest)

theorem mem_collsSet_of_ne {c d : Coll} : ∀ {cs : List Coll}, c ∈ cs → c.name ≠ d.name →
    c ∈ collsSet d cs
  | [], h, _ => by cases h
  | e :: rest, h, hn => by
    unfold collsSet
    split
    · exact List.mem_cons_of_mem _ h
    next heq =>
      rcases List.mem_cons.mp h with h | h
      · subst h
        exact absurd (Std.LawfulEqCmp.eq_of_compare heq).symm hn
      · exact List.mem_cons_of_mem _ h
    · rcases List.mem_cons.mp h with h | h
      · subst h; exact List.mem_cons_self ..
      · exact List.mem_cons_of_mem _ (mem_collsSet_of_ne h hn)

theorem collsGet_of_mem {c : Coll} : ∀ {cs : List Coll}, SortedNames cs → c ∈ cs →
    collsGet c.name cs = some c
  | [], _, h => by cases h
  | e :: rest, hs, h => by
    obtain ⟨h1, h2⟩ := List.pairwise_cons.mp hs
    simp only [collsGet]
    rcases List.mem_cons.mp h with h | h
    · subst h; rw [if_pos rfl]
    · rw [if_neg (ne_of_compare_lt (h1 c h))]
      exact collsGet_of_mem h2 h

/-- the keys still to come are different from every key already in the current collection -/
def Fresh (name : Bytes) (cmp : CmpKind) (is : List Item) (cs : List Coll) : Prop :=
  ∀ j ∈ (cur name cmp cs).root.toList, ∀ i ∈ is, Apart cmp j i

theorem step_good {name : Bytes} {cmp : CmpKind} {cs : List Coll} {s : FileSt} (i : Item)
    (hg : Good cs s) : Good (step name cmp cs i) s := by
  refine ⟨hg.clean, collsSet_sorted _ cs hg.sorted, ?_⟩
  intro c hc
  rcases mem_collsSet hc with hc | hc
  · subst hc; exact setItem_closed cmp.fn (cur_closed name cmp cs hg.closed) i
  · exact hg.closed c hc

theorem step_fresh {name : Bytes} {cmp : CmpKind} {cs : List Coll} {i : Item} {rest : List Item}
    (hi : ∀ a' ∈ rest, Apart cmp i a') (hf : Fresh name cmp (i :: rest) cs) :
    Fresh name cmp rest (step name cmp cs i) := by
  intro j hj i' hi'
  rw [cur_step] at hj
  rcases setItem_mem _ _ _ _ hj with hj | hj
  · subst hj; exact hi i' hi'
  · exact hf j hj i' (List.mem_cons_of_mem _ hi')

theorem flush_good {cs : List Coll} {s : FileSt} (hg : Good cs s) :
    Good (flushStoreW cs s).1.1 (flushStoreW cs s).1.2 := by
  obtain ⟨f1, _, f3⟩ := flushStoreW_spec cs s hg.clean hg.closed
  exact ⟨f1, sorted_of_view (flushStoreW_view cs s) hg.sorted,
    fun c hc => closed_of_unlocated (f3 c hc)⟩

theorem flush_fresh {name : Bytes} {cmp : CmpKind} {is : List Item} {cs : List Coll} (s : FileSt)
    (hf : Fresh name cmp is cs) : Fresh name cmp is (flushStoreW cs s).1.1 := by
  unfold Fresh
  rw [cur_of_view (flushStoreW_view cs s)]
  exact hf

theorem step_held {name : Bytes} {cmp : CmpKind} {cs : List Coll} {s : FileSt} {i : Item}
    (hg : Good cs s)
    (hfi : ∀ j ∈ (cur name cmp cs).root.toList, cmp.fn j.key i.key ≠ .eq ∧ cmp.fn i.key j.key ≠ .eq)
    (r : ItemRec) (h : Held cs r) : Held (step name cmp cs i) r := by
  obtain ⟨c, hc, hr⟩ := h
  by_cases hn : c.name = name
  · have hget : collsGet name cs = some c := by
      rw [← hn]; exact collsGet_of_mem hg.sorted hc
    have hcur : cur name cmp cs = c := by
      unfold cur; rw [hget]; rfl
    refine ⟨_, mem_collsSet_self _ cs, ?_⟩
    show (r.1, some r.2) ∈ itemLocs (Tree.setItem cmp.fn (cur name cmp cs).root i)
    apply setItem_itemLocs cmp.fn _ i hfi
    rw [hcur]; exact hr
  · refine ⟨c, mem_collsSet_of_ne hc ?_, hr⟩
    intro e
    exact hn (e.trans (cur_name name cmp cs))

theorem copyItemsW_live (fe : Nat) (name : Bytes) (cmp : CmpKind) (is : List Item) (n : Nat)
    (cs : List Coll) (s : FileSt) (hg : Good cs s) (hd : is.Pairwise (Apart cmp))
    (hf : Fresh name cmp is cs) :
    (∀ r, Held cs r → Held (copyItemsW fe name cmp is n cs s).1.1 r) ∧
    (∀ r ∈ (copyItemsW fe name cmp is n cs s).2.items,
      Held (copyItemsW fe name cmp is n cs s).1.1 r) ∧
    Asc s.size (copyItemsW fe name cmp is n cs s).2.items
      (copyItemsW fe name cmp is n cs s).1.2.size := by
  induction is generalizing n cs s with
  | nil => exact ⟨fun _ h => h, fun r hr => (by cases hr), Nat.le_refl _⟩
  | cons i rest ih =>
    obtain ⟨hi, hd'⟩ := List.pairwise_cons.mp hd
    have hfi : ∀ j ∈ (cur name cmp cs).root.toList,
        cmp.fn j.key i.key ≠ .eq ∧ cmp.fn i.key j.key ≠ .eq :=
      fun j hj => hf j hj i (List.mem_cons_self ..)
    have g1 : Good (step name cmp cs i) s := step_good i hg
    have f1 : Fresh name cmp rest (step name cmp cs i) := step_fresh hi hf
    rw [copyItemsW_cons]
    split
    · obtain ⟨a1, b1, c1⟩ := flushStoreW_live (step name cmp cs i) s g1.clean g1.closed
      obtain ⟨a2, b2, c2⟩ := ih (n + 1) _ _ (flush_good g1) hd' (flush_fresh s f1)
      refine ⟨fun r hr => a2 r (a1 r (step_held hg hfi r hr)), ?_, Asc.append c1 c2⟩
      intro r hr
      simp only [Wrote.add, List.mem_append] at hr
      rcases hr with hr | hr
      · exact a2 r (b1 r hr)
      · exact b2 r hr
    · obtain ⟨a2, b2, c2⟩ := ih (n + 1) _ s g1 hd' f1
      exact ⟨fun r hr => a2 r (step_held hg hfi r hr), b2, c2⟩

theorem copyCollsW_live (fe : Nat) (src cs : List Coll) (s : FileSt) (hg : Good cs s)
    (hn : src.Pairwise (fun a b => a.name ≠ b.name))
    (hnew : ∀ c ∈ src, c.name ∉ names cs)
    (hk : ∀ c ∈ src, c.root.toList.Pairwise (Apart c.cmp)) :
    (∀ r, Held cs r → Held (copyCollsW fe src cs s).1.1 r) ∧
    (∀ r ∈ (copyCollsW fe src cs s).2.items, Held (copyCollsW fe src cs s).1.1 r) ∧
    Asc s.size (copyCollsW fe src cs s).2.items (copyCollsW fe src cs s).1.2.size := by
  induction src generalizing cs s with
  | nil => exact ⟨fun _ h => h, fun r hr => (by cases hr), Nat.le_refl _⟩
  | cons c rest ih =>
    obtain ⟨hn1, hn2⟩ := List.pairwise_cons.mp hn
    have g0 : Good (collsSet ⟨c.name, c.cmp, .nil⟩ cs) s := by
      refine ⟨hg.clean, collsSet_sorted _ cs hg.sorted, ?_⟩
      intro d hd
      rcases mem_collsSet hd with hd | hd
      · subst hd; exact trivial
      · exact hg.closed d hd
    have f0 : Fresh c.name c.cmp c.root.toList (collsSet ⟨c.name, c.cmp, .nil⟩ cs) := by
      have e : cur c.name c.cmp (collsSet ⟨c.name, c.cmp, .nil⟩ cs) = ⟨c.name, c.cmp, .nil⟩ := by
        unfold cur
        rw [collsGet_collsSet_self ⟨c.name, c.cmp, .nil⟩ cs]
        rfl
      unfold Fresh
      rw [e]
      intro j hj
      cases hj
    have h0 : ∀ r, Held cs r → Held (collsSet ⟨c.name, c.cmp, .nil⟩ cs) r := by
      rintro r ⟨d, hd, hr⟩
      refine ⟨d, mem_collsSet_of_ne hd ?_, hr⟩
      intro e
      exact hnew c (List.mem_cons_self ..) (List.mem_map.mpr ⟨d, hd, e⟩)
    obtain ⟨g1, _, _, n1⟩ := copyItemsW_spec fe c.name c.cmp c.root.toList 0 _ s g0
      (hk c (List.mem_cons_self ..)) f0
    obtain ⟨a1, b1, c1⟩ := copyItemsW_live fe c.name c.cmp c.root.toList 0 _ s g0
      (hk c (List.mem_cons_self ..)) f0
    have hnew' : ∀ c' ∈ rest, c'.name ∉ names
        (copyItemsW fe c.name c.cmp c.root.toList 0 (collsSet ⟨c.name, c.cmp, .nil⟩ cs) s).1.1 := by
      intro c' hc' hm
      rcases n1 _ hm with h | h
      · exact hn1 c' hc' h.symm
      · obtain ⟨d, hd, e⟩ := List.mem_map.mp h
        rcases mem_collsSet hd with hd | hd
        · subst hd; exact hn1 c' hc' e
        · exact hnew c' (List.mem_cons_of_mem _ hc') (List.mem_map.mpr ⟨d, hd, e⟩)
    obtain ⟨a2, b2, c2⟩ := ih _ _ g1 hn2 hnew' (fun d hd => hk d (List.mem_cons_of_mem _ hd))
    rw [copyCollsW_cons]
    refine ⟨fun r hr => a2 r (a1 r (h0 r hr)), ?_, Asc.append c1 c2⟩
    intro r hr
    simp only [Wrote.add, List.mem_append] at hr
    rcases hr with hr | hr
    · exact a2 r (b1 r hr)
    · exact b2 r hr

theorem copyToW_live (src : List Coll) (fe : Int) (hfe : fe > 0) (hn : DistinctNames src)
    (hk : DistinctKeys src) :
    (∀ r ∈ (copyToW src fe).2.items, Held (copyToW src fe).1.1 r) ∧
    Asc 0 (copyToW src fe).2.items (copyToW src fe).1.2.size := by
  obtain ⟨g, _, _⟩ := copyCollsW_spec fe.toNat src [] _ good_empty hn
    (fun c _ h => by cases h) (apart_of_distinct hk)
  obtain ⟨a1, b1, c1⟩ := copyCollsW_live fe.toNat src [] _ good_empty hn
    (fun c _ h => by cases h) (apart_of_distinct hk)
  obtain ⟨a2, b2, c2⟩ := flushStoreW_live _ _ g.clean g.closed
  rw [copyToW_pos src fe hfe]
  refine ⟨?_, Asc.append c1 c2⟩
  intro r hr
  simp only [Wrote.add, List.mem_append] at hr
  rcases hr with hr | hr
  · exact a2 r (b1 r hr)
  · exact b2 r hr

/-! ### the list returned by the twin is what `writeItems` appended to the file's log -/

/-- the two `WriteAt` calls of one item record: header+key, then value -/
def recEvents (r : ItemRec) : List FileEv :=
  [.write r.2.off (encItemHdrKey r.1).length,
   .write (r.2.off + (encItemHdrKey r.1).length) r.1.val.length]

theorem item_step_log (s : FileSt) (h : s.Clean) (i : Item) :
    (((s.write (encItemHdrKey i)).writeAtOff (s.size + (encItemHdrKey i).length) i.val).advance
      (itemRecLen i)).log = s.log ++ recEvents (i, ⟨s.size, itemRecLen i⟩) := by
  have hc1 : (s.write (encItemHdrKey i)).Clean := by
    unfold FileSt.write; rw [writeAtOff_clean s h]; exact h
  have hc2 : ((s.write (encItemHdrKey i)).writeAtOff (s.size + (encItemHdrKey i).length) i.val).Clean := by
    rw [writeAtOff_clean _ hc1]; exact hc1
  rw [advance_clean _ hc2, writeAtOff_clean _ hc1]
  unfold FileSt.write
  rw [writeAtOff_clean s h]
  simp only [recEvents, List.append_assoc, List.cons_append, List.nil_append]

/-- a fault-free `writeItems` issues exactly the two `WriteAt` calls of every record in the list
    the twin returns, in that order, and nothing else -/
theorem writeItemsW_log (t : Tree) (s : FileSt) (h : s.Clean) :
    (writeItems t s).2.log = s.log ++ (writeItemsW t s).2.flatMap recEvents := by
  rw [← writeItemsW_fst]
  induction t generalizing s with
  | nil => simp [writeItemsW]
  | node l i a b r p q ihl ihr =>
    cases p with
    | some p => simp [writeItemsW]
    | none =>
      have h1 := writeItemsW_clean l s h
      cases q with
      | some il =>
        simp only [writeItemsW, List.flatMap_append]
        rw [ihr _ h1, ihl s h, List.append_assoc]
      | none =>
        simp only [writeItemsW]
        rw [if_neg (clean_not_failed h1)]
        have h2 := (tframe_item (writeItemsW l s).1.2 h1 (encItemHdrKey i) i.val (itemRecLen i)
          (length_encItemHdrKey i).symm).clean
        rw [if_neg (clean_not_failed h2)]
        simp only [List.flatMap_append, List.flatMap_cons]
        rw [ihr _ h2, item_step_log _ h1, ihl s h]
        simp only [List.append_assoc]

/-! ### the written item records and the destination's items are the same things -/

theorem perm_of_nodup_subset {α : Type} [DecidableEq α] : ∀ {l1 l2 : List α},
    l1.Nodup → l1 ⊆ l2 → l2.length ≤ l1.length → l1.Perm l2
  | [], l2, _, _, hl => by
    have : l2 = [] := List.eq_nil_of_length_eq_zero (by simpa using hl)
    subst this
    exact List.Perm.nil
  | a :: t, l2, hd, hs, hl => by
    rw [List.nodup_cons] at hd
    have ha : a ∈ l2 := hs (List.mem_cons_self ..)
    have hts : t ⊆ l2.erase a := fun x hx =>
      (List.mem_erase_of_ne (fun (h : x = a) => hd.1 (by rw [← h]; exact hx))).2
        (hs (List.mem_cons_of_mem _ hx))
    have hlen : (l2.erase a).length = l2.length - 1 := by rw [List.length_erase]; simp [ha]
    have hpos : 1 ≤ l2.length := List.length_pos_of_mem ha
    have ih := perm_of_nodup_subset hd.2 hts (by simp only [List.length_cons] at hl; omega)
    exact (ih.cons a).trans (List.perm_cons_erase ha).symm

/-- all (item, item location) pairs of a store -/
def allLocs (cs : List Coll) : List (Item × Option Ploc) := cs.flatMap (fun c => itemLocs c.root)

theorem allLocs_length (cs : List Coll) : (allLocs cs).length = totLen cs := by
  induction cs with
  | nil => rfl
  | cons c rest ih =>
    have e : (itemLocs c.root).length = c.root.toList.length := by
      rw [← itemLocs_fst, List.length_map]
    simp only [allLocs, List.flatMap_cons, List.length_append] at ih ⊢
    simp only [totLen, tot, List.map_cons, List.sum_cons] at ih ⊢
    omega

/-- **Every item record written is live**: it is the record of an item of the destination, and the
    records are at increasing, non-overlapping places below the final `size`. -/
theorem copyTo_item_records_live (src : List Coll) (fe : Int) (hfe : fe > 0)
    (hn : DistinctNames src) (hk : DistinctKeys src) :
    (∀ r ∈ (copyToW src fe).2.items,
      ∃ c ∈ (copyTo src fe).1, (r.1, some r.2) ∈ itemLocs c.root) ∧
    Asc 0 (copyToW src fe).2.items (copyTo src fe).2.size := by
  have h := copyToW_live src fe hfe hn hk
  rw [copyToW_fst] at h
  exact h

/-- **One record per item, one item per record**: the item records written to the destination file
    are, one for one, the (item, location) pairs of the destination store. -/
theorem copyTo_item_records_perm (src : List Coll) (fe : Int) (hfe : fe > 0)
    (hn : DistinctNames src) (hk : DistinctKeys src) :
    ((copyToW src fe).2.items.map (fun r => (r.1, some r.2))).Perm (allLocs (copyTo src fe).1) := by
  obtain ⟨h1, h2⟩ := copyTo_item_records_live src fe hfe hn hk
  apply perm_of_nodup_subset (Asc.nodup h2)
  · intro x hx
    obtain ⟨r, hr, e⟩ := List.mem_map.mp hx
    obtain ⟨c, hc, hm⟩ := h1 r hr
    subst e
    exact List.mem_flatMap.mpr ⟨c, hc, hm⟩
  · rw [allLocs_length, List.length_map, ← copyToW_fst]
    obtain ⟨e1, e2, _⟩ := copyToW_spec src fe hfe hn hk
    omega

/-- two file ranges that do not overlap -/
def Disjoint (p q : Ploc) : Prop := p.off + p.len ≤ q.off ∨ q.off + q.len ≤ p.off

/-- **The destination's item records tile without overlap**: every item of every destination
    collection has a record, as long as the item's record is, below the final `size`, and the
    records of two different nodes (in one collection or in two) do not overlap. -/
theorem copyTo_item_ranges (src : List Coll) (fe : Int) (hfe : fe > 0)
    (hn : DistinctNames src) (hk : DistinctKeys src) :
    (∀ x ∈ allLocs (copyTo src fe).1, ∃ p, x.2 = some p ∧ p.len = itemRecLen x.1 ∧
      p.off + p.len ≤ (copyTo src fe).2.size) ∧
    (allLocs (copyTo src fe).1).Pairwise
      (fun x y => ∀ p q, x.2 = some p → y.2 = some q → Disjoint p q) := by
  obtain ⟨_, h2⟩ := copyTo_item_records_live src fe hfe hn hk
  have hp := copyTo_item_records_perm src fe hfe hn hk
  constructor
  · intro x hx
    obtain ⟨r, hr, e⟩ := List.mem_map.mp (hp.mem_iff.mpr hx)
    have hw := Asc.within h2 r hr
    subst e
    exact ⟨r.2, rfl, hw.2.1, hw.2.2⟩
  · refine hp.pairwise_iff (fun {x y} h p q hx hy => ?_) |>.mp ?_
    · rcases h q p hy hx with h | h
      · exact Or.inr h
      · exact Or.inl h
    · rw [List.pairwise_map]
      refine (Asc.pairwise h2).imp ?_
      intro a b hab p q hp hq
      cases hp; cases hq
      exact Or.inl hab

/-! ### non-vacuity, and the corners where the statement fails -/

def it (k v p : Nat) : Item := ⟨[UInt8.ofNat k], [UInt8.ofNat v], p⟩

def build (cmp : CmpKind) (l : List Item) : Tree := l.foldl (Tree.setItem cmp.fn) .nil

/-- two collections, 4 + 3 items -/
def srcA : List Coll :=
  [⟨[1], .bytes, build .bytes [it 1 1 5, it 2 2 9, it 3 3 1, it 4 4 7]⟩,
   ⟨[2], .rev, build .rev [it 1 1 3, it 5 5 8, it 9 9 2]⟩]

def items (src : List Coll) : Nat := (src.map (fun c => c.root.toList.length)).sum
def nodes (src : List Coll) : Nat := (src.map (fun c => c.root.size)).sum

/-- the hypotheses of the theorems hold of it -/
theorem srcA_ok : DistinctNames srcA ∧ DistinctKeys srcA := by
  unfold DistinctNames DistinctKeys
  decide +kernel

/-- `flushEvery = 2`: 7 items, 7 item records — but 9 node records for 7 nodes (node records ARE
    superseded: a periodic flush persists the nodes on the path to the root, and the next
    `SetItem`s rebuild that path).  The log has 2 `WriteAt` per item record, 1 per node record and
    1 per root record (4 flushes): 27. -/
example : items srcA = 7 ∧ (copyToW srcA 2).2.items.length = 7 ∧
    nodes (copyTo srcA 2).1 = 7 ∧ (copyToW srcA 2).2.nodes = 9 ∧
    (copyTo srcA 2).2.log.length = 2 * 7 + 9 + 4 := by decide +kernel

example : (copyToW srcA 1).2.items.length = 7 ∧ (copyToW srcA 1).2.nodes = 10 ∧
    (copyToW srcA 100).2.items.length = 7 ∧ (copyToW srcA 100).2.nodes = 7 := by decide +kernel

#guard (copyToW srcA 2).2.items.length == items srcA
#guard (copyToW srcA 2).2.nodes > nodes (copyTo srcA 2).1
#guard (copyToW srcA 2).2.items.map (fun r => (r.1.key, r.2.off, r.2.len)) ==
  [([1], 0, 18), ([2], 18, 18), ([3], 210, 18), ([4], 228, 18), ([9], 473, 18), ([5], 491, 18),
   ([1], 710, 18)]

/-- copying an already persisted source (all locations set) changes nothing: the source's
    locations are not carried over (`toList` drops them) -/
example : (copyToW (copyTo srcA 1).1 2).2.items.length = 7 := by decide +kernel

/-- `flushEvery = 0` (or negative): `CopyTo` never flushes; nothing at all reaches the file, so
    `fe > 0` is needed -/
theorem no_flush_no_records : (copyToW srcA 0).2.items.length = 0 ∧ (copyTo srcA 0).2.bytes = [] ∧
    (copyToW srcA (-3)).2.items.length = 0 := by decide +kernel

/-- a "source" that violates search order and holds one key twice (cannot be built through the
    API): with `flushEvery = 1` the first version is written, then replaced, then the second
    version is written — 2 item records for 1 live item, a superseded version in the file;
    with `flushEvery = 2` the first version is replaced before any flush — 1 record, fewer than
    source items.  So `DistinctKeys` is needed, for both equalities. -/
def srcDupKey : List Coll :=
  [⟨[1], .bytes, .node .nil (it 1 1 5) 2 4 (.node .nil (it 1 2 3) 1 2 .nil none none) none none⟩]

theorem dupKey_superseded :
    ¬ DistinctKeys srcDupKey ∧ DistinctNames srcDupKey ∧ items srcDupKey = 2 ∧
    (copyToW srcDupKey 1).2.items.length = 2 ∧ items (copyTo srcDupKey 1).1 = 1 ∧
    (copyToW srcDupKey 2).2.items.length = 1 ∧ items (copyTo srcDupKey 2).1 = 1 := by
  unfold DistinctNames DistinctKeys
  decide +kernel

/-- keys that differ as bytes but not under the collection's comparator (case folding) are the
    same corner -/
def srcFold : List Coll :=
  [⟨[1], .fold, .node .nil (it 65 1 5) 2 4 (.node .nil (it 97 2 3) 1 2 .nil none none) none none⟩]

theorem foldKey_superseded :
    ¬ DistinctKeys srcFold ∧ (copyToW srcFold 1).2.items.length = 2 ∧
      items (copyTo srcFold 1).1 = 1 := by
  unfold DistinctKeys
  decide +kernel

/-- two source collections with one name (not a state of a store: `collsSet` keeps names
    distinct): creating the second destination collection drops the first, whose item record is
    already on file.  So `DistinctNames` is needed. -/
def srcDupName : List Coll :=
  [⟨[1], .bytes, build .bytes [it 1 1 5]⟩, ⟨[1], .bytes, build .bytes [it 2 2 5]⟩]

theorem dupName_superseded :
    ¬ DistinctNames srcDupName ∧ DistinctKeys srcDupName ∧ items srcDupName = 2 ∧
    (copyToW srcDupName 1).2.items.length = 2 ∧ items (copyTo srcDupName 1).1 = 1 ∧
    (copyToW srcDupName 2).2.items.length = 1 := by
  unfold DistinctNames DistinctKeys
  decide +kernel

/-- distinct names in any order and distinct keys in any order are enough (no search order, no
    name order needed) -/
def srcUnsorted : List Coll :=
  [⟨[2], .bytes, .node .nil (it 5 1 5) 2 4 (.node .nil (it 1 2 3) 1 2 .nil none none) none none⟩,
   ⟨[1], .bytes, build .bytes [it 2 2 5]⟩]

example : DistinctNames srcUnsorted ∧ DistinctKeys srcUnsorted ∧
    (copyToW srcUnsorted 1).2.items.length = 3 ∧ items (copyTo srcUnsorted 1).1 = 3 := by
  unfold DistinctNames DistinctKeys
  decide +kernel

end Gkv.CopyCompact

/-! ### axioms -/
#print axioms Gkv.CopyCompact.copyToW_fst
#print axioms Gkv.CopyCompact.writeItemsW_length
#print axioms Gkv.CopyCompact.writeItemsW_log
#print axioms Gkv.CopyCompact.setItem_cnt
#print axioms Gkv.CopyCompact.copyTo_item_records_eq_source
#print axioms Gkv.CopyCompact.copyTo_item_records_eq_dest
#print axioms Gkv.CopyCompact.copyTo_item_records_of_bst
#print axioms Gkv.CopyCompact.copyTo_all_located
#print axioms Gkv.CopyCompact.copyTo_item_records_live
#print axioms Gkv.CopyCompact.copyTo_item_records_perm
#print axioms Gkv.CopyCompact.copyTo_item_ranges
#print axioms Gkv.CopyCompact.srcA_ok
#print axioms Gkv.CopyCompact.no_flush_no_records
#print axioms Gkv.CopyCompact.dupKey_superseded
#print axioms Gkv.CopyCompact.foldKey_superseded
#print axioms Gkv.CopyCompact.dupName_superseded

/-
#print axioms output (Lean 4.33.0):
'Gkv.CopyCompact.copyToW_fst' depends on axioms: [propext, Quot.sound]
'Gkv.CopyCompact.writeItemsW_length' depends on axioms: [propext, Quot.sound]
'Gkv.CopyCompact.writeItemsW_log' depends on axioms: [propext, Quot.sound]
'Gkv.CopyCompact.setItem_cnt' depends on axioms: [propext, Quot.sound]
'Gkv.CopyCompact.copyTo_item_records_eq_source' depends on axioms: [propext, Classical.choice, Quot.sound]
'Gkv.CopyCompact.copyTo_item_records_eq_dest' depends on axioms: [propext, Classical.choice, Quot.sound]
'Gkv.CopyCompact.copyTo_item_records_of_bst' depends on axioms: [propext, Classical.choice, Quot.sound]
'Gkv.CopyCompact.copyTo_all_located' depends on axioms: [propext, Classical.choice, Quot.sound]
'Gkv.CopyCompact.copyTo_item_records_live' depends on axioms: [propext, Classical.choice, Quot.sound]
'Gkv.CopyCompact.copyTo_item_records_perm' depends on axioms: [propext, Classical.choice, Quot.sound]
'Gkv.CopyCompact.copyTo_item_ranges' depends on axioms: [propext, Classical.choice, Quot.sound]
'Gkv.CopyCompact.srcA_ok' depends on axioms: [propext, Quot.sound]
'Gkv.CopyCompact.no_flush_no_records' depends on axioms: [propext, Quot.sound]
'Gkv.CopyCompact.dupKey_superseded' depends on axioms: [propext, Quot.sound]
'Gkv.CopyCompact.foldKey_superseded' depends on axioms: [propext, Quot.sound]
'Gkv.CopyCompact.dupName_superseded' depends on axioms: [propext, Quot.sound]
-/
