/-
The history-level refinement theorem (properties C01(c), C02, C12).

For EVERY sequence of operations (create/replace/remove collections, set, delete, flush, re-open)
the store model `srun` shows exactly what the specification `specRun` shows: a sorted map per
collection name, and after a re-open exactly the state at the most recent Flush — to any depth
of re-open-and-continue.

Structure: a store invariant `Inv cmpOf n s sp` relating the model state `s` and the
specification state `sp` after `n` operations, `inv_init`, `inv_step` (one lemma per `SOp`),
`inv_take` (induction over the prefixes of the history), then `refinement`, `invariant`,
`reopen_shows_last_flush`, `names_sorted`.

The ghost component `Inv.dur` is what makes `reopen` provable: "opening the current file succeeds,
at the full file length, with collections `dc` that show the durable specification state and
are themselves in the invariant".  It is established at `flush` (`flush_then_open`), it is kept by
the in-memory operations because they do not touch the file, and it is consumed at `reopen`.
-/
import Gkv.Model.Machine
import Gkv.Proofs.CoherentOps
open Std

namespace Gkv.Machine
open Gkv

/-! ### (c) `compare` on names is lawful -/

theorem name_eq_of_compare {a b : Bytes} (h : compare a b = .eq) : a = b :=
  Std.LawfulEqCmp.eq_of_compare h

/-- strictly sorted by name -/
def SortedNames (cs : List Coll) : Prop := cs.Pairwise (fun a b => compare a.name b.name = .lt)

/-! ### (b) the collection list against the specification store -/

/-- what the API can observe of a collection list -/
def absColls (cs : List Coll) : SpecStore := cs.map (fun c => (c.name, c.root.toList))

theorem absS_eq (s : SState) : absS s = absColls s.colls := rfl

theorem abs_collsSet (c : Coll) : ∀ cs : List Coll,
    absColls (collsSet c cs) = specSet c.name c.root.toList (absColls cs)
  | [] => rfl
  | d :: rest => by
    cases h : compare c.name d.name with
    | lt => simp [collsSet, specSet, absColls, h]
    | eq => simp [collsSet, specSet, absColls, h]
    | gt =>
      have ih := abs_collsSet c rest
      simp only [absColls] at ih
      simp [collsSet, specSet, absColls, h, ih]

theorem abs_collsGet (n : Bytes) : ∀ cs : List Coll,
    (collsGet n cs).map (fun c => c.root.toList) = specGet n (absColls cs)
  | [] => rfl
  | d :: rest => by
    simp only [collsGet, absColls, List.map_cons, specGet]
    split
    · rfl
    · exact abs_collsGet n rest

theorem abs_collsRemove (n : Bytes) (cs : List Coll) :
    absColls (collsRemove n cs) = (absColls cs).filter (fun p => p.1 ≠ n) := by
  unfold absColls collsRemove
  rw [List.filter_map]
  rfl

theorem collsGet_some {n : Bytes} : ∀ {cs : List Coll} {c : Coll}, collsGet n cs = some c →
    c ∈ cs ∧ c.name = n
  | [], _, h => by cases h
  | d :: rest, c, h => by
    simp only [collsGet] at h
    split at h
    · rename_i hd
      injection h with h
      subst h
      exact ⟨List.mem_cons_self .., hd⟩
    · have := collsGet_some h
      exact ⟨List.mem_cons_of_mem _ this.1, this.2⟩

theorem mem_collsSet {c x : Coll} : ∀ {cs : List Coll}, x ∈ collsSet c cs → x = c ∨ x ∈ cs
  | [], h => by
    simp only [collsSet, List.mem_singleton] at h
    exact Or.inl h
  | d :: rest, h => by
    simp only [collsSet] at h
    split at h
    · rcases List.mem_cons.mp h with h | h
      · exact Or.inl h
      · exact Or.inr h
    · rcases List.mem_cons.mp h with h | h
      · exact Or.inl h
      · exact Or.inr (List.mem_cons_of_mem _ h)
    · rcases List.mem_cons.mp h with h | h
      · exact Or.inr (by rw [h]; exact List.mem_cons_self ..)
      · rcases mem_collsSet h with h | h
        · exact Or.inl h
        · exact Or.inr (List.mem_cons_of_mem _ h)

theorem collsSet_sorted (c : Coll) : ∀ cs : List Coll, SortedNames cs → SortedNames (collsSet c cs)
  | [], _ => by simp [collsSet, SortedNames]
  | d :: rest, h => by
    obtain ⟨h1, h2⟩ := List.pairwise_cons.mp h
    unfold collsSet
    split
    next hlt =>
      refine List.pairwise_cons.mpr ⟨?_, h⟩
      intro e he
      rcases List.mem_cons.mp he with he | he
      · subst he; exact hlt
      · exact TransCmp.lt_trans hlt (h1 e he)
    next heq =>
      have : c.name = d.name := name_eq_of_compare heq
      refine List.pairwise_cons.mpr ⟨?_, h2⟩
      intro e he
      rw [this]
      exact h1 e he
    next hgt =>
      refine List.pairwise_cons.mpr ⟨?_, collsSet_sorted c rest h2⟩
      intro e he
      rcases mem_collsSet he with he | he
      · subst he; exact OrientedCmp.lt_of_gt hgt
      · exact h1 e he

/-! ### the invariant -/

/-- what has to hold of a tree, file locations apart.  `n` bounds the number of operations so
    far: a tree holds at most `n` items and at most `n * 2^32` key+value bytes, which is what
    keeps the stored aggregates below `2^64` (`Tree.SizesOK`) for histories shorter than `2^32`. -/
structure TreeOK (cmp : Bytes → Bytes → Ordering) (n : Nat) (t : Tree) : Prop where
  bst : t.BST cmp
  agg : t.AggOK
  items : t.All ItemOK
  len : t.toList.length ≤ n
  bytes : (t.toList.map Item.nbytes).sum ≤ n * 2^32

theorem TreeOK.nil (cmp : Bytes → Bytes → Ordering) (n : Nat) : TreeOK cmp n .nil :=
  ⟨trivial, trivial, trivial, Nat.zero_le _, Nat.zero_le _⟩

theorem TreeOK.mono {cmp : Bytes → Bytes → Ordering} {n m : Nat} {t : Tree} (h : TreeOK cmp n t)
    (hnm : n ≤ m) : TreeOK cmp m t :=
  ⟨h.bst, h.agg, h.items, Nat.le_trans h.len hnm,
    Nat.le_trans h.bytes (Nat.mul_le_mul_right _ hnm)⟩

theorem nbytes_lt_of_itemOK {i : Item} (hi : ItemOK i) : i.nbytes < 2^32 := by
  unfold ItemOK at hi
  unfold Item.nbytes
  omega

theorem TreeOK.setItem {cmp : Bytes → Bytes → Ordering} [TransCmp cmp] {n : Nat} {t : Tree}
    (h : TreeOK cmp n t) {i : Item} (hi : ItemOK i) : TreeOK cmp (n+1) (Tree.setItem cmp t i) := by
  have e := Tree.setItem_toList cmp h.bst i
  refine ⟨Tree.setItem_bst cmp h.bst i, Tree.setItem_agg cmp h.agg i,
    Tree.setItem_all cmp h.items i hi, ?_, ?_⟩
  · rw [e]
    have := Spec.insert_length_le cmp t.toList i
    have := h.len
    omega
  · rw [e]
    have := Spec.insert_bytes_le cmp t.toList i
    have := h.bytes
    have := nbytes_lt_of_itemOK hi
    omega

theorem TreeOK.delete {cmp : Bytes → Bytes → Ordering} [TransCmp cmp] {n : Nat} {t : Tree}
    (h : TreeOK cmp n t) (k : Bytes) : TreeOK cmp n (Tree.delete cmp t k).1 := by
  have e := Tree.delete_toList cmp h.bst k
  refine ⟨Tree.delete_bst cmp h.bst k, Tree.delete_agg cmp h.agg k,
    Tree.delete_all cmp h.items k, ?_, ?_⟩
  · rw [e]
    exact Nat.le_trans (Spec.erase_length_le cmp t.toList k) h.len
  · rw [e]
    exact Nat.le_trans (Spec.erase_bytes_le cmp t.toList k) h.bytes

/-- `TreeOK` does not look at file locations -/
theorem TreeOK.congr {cmp : Bytes → Bytes → Ordering} {n : Nat} {t t' : Tree}
    (h : TreeOK cmp n t) (e : t'.eraseLocs = t.eraseLocs) : TreeOK cmp n t' := by
  have el : t'.toList = t.toList := by
    rw [← eraseLocs_toList t', e, eraseLocs_toList]
  refine ⟨?_, ?_, ?_, ?_, ?_⟩
  · rw [← Tree.bst_eraseLocs, e, Tree.bst_eraseLocs]; exact h.bst
  · rw [← Tree.aggOK_eraseLocs, e, Tree.aggOK_eraseLocs]; exact h.agg
  · rw [← Tree.all_eraseLocs, e, Tree.all_eraseLocs]; exact h.items
  · rw [el]; exact h.len
  · rw [el]; exact h.bytes

theorem TreeOK.sizesOK {cmp : Bytes → Bytes → Ordering} {n : Nat} {t : Tree}
    (h : TreeOK cmp n t) (hn : n < 2^32) : t.SizesOK := by
  have h1 := h.len
  have h2 := h.bytes
  rw [Tree.del_length_toList] at h1
  exact Tree.sizesOK_of_agg h.agg h.items (by omega) (by omega)

/-- one collection: comparator as the callback assigns it, plain name, a good tree, and whatever
    of the tree has a file location decodes from file `f` -/
structure CollOK (cmpOf : Bytes → CmpKind) (f : Bytes) (n : Nat) (c : Coll) : Prop where
  hcmp : c.cmp = cmpOf c.name
  plain : PlainName c.name
  tree : TreeOK c.cmp.fn n c.root
  coh : c.root.Coherent f f.length

structure CollsOK (cmpOf : Bytes → CmpKind) (f : Bytes) (n : Nat) (cs : List Coll) : Prop where
  sorted : SortedNames cs
  all : ∀ c ∈ cs, CollOK cmpOf f n c

theorem CollOK.mono {cmpOf : Bytes → CmpKind} {f : Bytes} {n m : Nat} {c : Coll}
    (h : CollOK cmpOf f n c) (hnm : n ≤ m) : CollOK cmpOf f m c :=
  ⟨h.hcmp, h.plain, h.tree.mono hnm, h.coh⟩

theorem CollsOK.mono {cmpOf : Bytes → CmpKind} {f : Bytes} {n m : Nat} {cs : List Coll}
    (h : CollsOK cmpOf f n cs) (hnm : n ≤ m) : CollsOK cmpOf f m cs :=
  ⟨h.sorted, fun c hc => (h.all c hc).mono hnm⟩

theorem CollsOK.nil (cmpOf : Bytes → CmpKind) (f : Bytes) (n : Nat) : CollsOK cmpOf f n [] :=
  ⟨List.Pairwise.nil, fun c hc => by cases hc⟩

theorem CollsOK.set {cmpOf : Bytes → CmpKind} {f : Bytes} {n : Nat} {cs : List Coll} {c : Coll}
    (h : CollsOK cmpOf f n cs) (hc : CollOK cmpOf f n c) : CollsOK cmpOf f n (collsSet c cs) := by
  refine ⟨collsSet_sorted c cs h.sorted, ?_⟩
  intro x hx
  rcases mem_collsSet hx with hx | hx
  · subst hx; exact hc
  · exact h.all x hx

theorem CollsOK.remove {cmpOf : Bytes → CmpKind} {f : Bytes} {n : Nat} {cs : List Coll}
    (h : CollsOK cmpOf f n cs) (nm : Bytes) : CollsOK cmpOf f n (collsRemove nm cs) := by
  refine ⟨List.Pairwise.filter _ h.sorted, ?_⟩
  intro x hx
  exact h.all x (List.mem_filter.mp hx).1

/-- the invariant of the history: model state `s`, specification state `sp`, after `n` operations -/
structure Inv (cmpOf : Bytes → CmpKind) (n : Nat) (s : SState) (sp : SpecState) : Prop where
  size : s.size = s.file.length
  colls : CollsOK cmpOf s.file n s.colls
  cur : absColls s.colls = sp.cur
  /-- ghost: what re-opening the file right now would give -/
  dur : ∃ dc, openStore 0 s.file cmpOf = .ok ⟨some 0, s.file.length, dc, false⟩ ∧
    CollsOK cmpOf s.file n dc ∧ absColls dc = sp.durable

theorem inv_init (cmpOf : Bytes → CmpKind) : Inv cmpOf 0 sinit specInit :=
  ⟨rfl, CollsOK.nil _ _ _, rfl, [], rfl, CollsOK.nil _ _ _, rfl⟩

theorem Inv.mono {cmpOf : Bytes → CmpKind} {n m : Nat} {s : SState} {sp : SpecState}
    (h : Inv cmpOf n s sp) (hnm : n ≤ m) : Inv cmpOf m s sp := by
  obtain ⟨dc, h1, h2, h3⟩ := h.dur
  exact ⟨h.size, h.colls.mono hnm, h.cur, dc, h1, h2.mono hnm, h3⟩

/-- an operation that only replaces the collection list -/
theorem Inv.upd {cmpOf : Bytes → CmpKind} {n : Nat} {s : SState} {sp : SpecState}
    (h : Inv cmpOf n s sp) (cs' : List Coll) (cur' : SpecStore)
    (hc : CollsOK cmpOf s.file (n+1) cs') (ha : absColls cs' = cur') :
    Inv cmpOf (n+1) { s with colls := cs' } { sp with cur := cur' } := by
  obtain ⟨dc, h1, h2, h3⟩ := h.dur
  exact ⟨h.size, hc, ha, dc, h1, h2.mono (Nat.le_succ n), h3⟩

/-! ### one step per operation -/

theorem inv_setColl {cmpOf : Bytes → CmpKind} {n : Nat} {s : SState} {sp : SpecState}
    (h : Inv cmpOf n s sp) (nm : Bytes) (hp : PlainName nm) :
    Inv cmpOf (n+1) (sstep cmpOf s (.setColl nm)) (specStep cmpOf sp (.setColl nm)) := by
  refine h.upd _ _ ((h.colls.mono (Nat.le_succ n)).set ?_) ?_
  · -- the new handle
    cases hg : collsGet nm s.colls with
    | none =>
      exact ⟨rfl, hp, TreeOK.nil _ _, trivial⟩
    | some c =>
      obtain ⟨hm, hnm⟩ := collsGet_some hg
      have hc := h.colls.all c hm
      have e : cmpOf nm = c.cmp := by rw [← hnm]; exact hc.hcmp.symm
      refine ⟨rfl, hp, ?_, hc.coh⟩
      show TreeOK (cmpOf nm).fn (n+1) c.root
      rw [e]
      exact hc.tree.mono (Nat.le_succ n)
  · rw [abs_collsSet, h.cur]
    show specSet nm (((collsGet nm s.colls).map (fun c : Coll => c.root)).getD Tree.nil).toList sp.cur
      = specSet nm ((specGet nm sp.cur).getD []) sp.cur
    rw [← h.cur, ← abs_collsGet]
    cases collsGet nm s.colls <;> rfl

theorem inv_rmColl {cmpOf : Bytes → CmpKind} {n : Nat} {s : SState} {sp : SpecState}
    (h : Inv cmpOf n s sp) (nm : Bytes) :
    Inv cmpOf (n+1) (sstep cmpOf s (.rmColl nm)) (specStep cmpOf sp (.rmColl nm)) := by
  refine h.upd _ _ ((h.colls.mono (Nat.le_succ n)).remove nm) ?_
  rw [abs_collsRemove, h.cur]

theorem specGet_of_collsGet {cmpOf : Bytes → CmpKind} {n : Nat} {s : SState} {sp : SpecState}
    (h : Inv cmpOf n s sp) (nm : Bytes) :
    specGet nm sp.cur = (collsGet nm s.colls).map (fun c => c.root.toList) := by
  rw [← h.cur, abs_collsGet]

theorem inv_set {cmpOf : Bytes → CmpKind} {n : Nat} {s : SState} {sp : SpecState}
    (h : Inv cmpOf n s sp) (nm : Bytes) (i : Item) (hi : ItemOK i) :
    Inv cmpOf (n+1) (sstep cmpOf s (.set nm i)) (specStep cmpOf sp (.set nm i)) := by
  have hsg := specGet_of_collsGet h nm
  cases hg : collsGet nm s.colls with
  | none =>
    rw [hg] at hsg
    have e1 : sstep cmpOf s (.set nm i) = s := by simp only [sstep, hg]
    have e2 : specStep cmpOf sp (.set nm i) = sp := by simp only [specStep, hsg, Option.map_none]
    rw [e1, e2]
    exact h.mono (Nat.le_succ n)
  | some c =>
    rw [hg] at hsg
    obtain ⟨hm, hnm⟩ := collsGet_some hg
    have hc := h.colls.all c hm
    have ecmp : cmpOf nm = c.cmp := by rw [← hnm]; exact hc.hcmp.symm
    have e1 : sstep cmpOf s (.set nm i) =
        { s with colls := collsSet { c with root := Tree.setItem c.cmp.fn c.root i } s.colls } := by
      simp only [sstep, hg]
    have e2 : specStep cmpOf sp (.set nm i) =
        { sp with cur := specSet nm (Spec.insert (cmpOf nm).fn c.root.toList i) sp.cur } := by
      simp only [specStep, hsg, Option.map_some]
    rw [e1, e2]
    refine h.upd _ _ ((h.colls.mono (Nat.le_succ n)).set ?_) ?_
    · exact ⟨hc.hcmp, hc.plain, hc.tree.setItem hi, Tree.setItem_coherent _ _ _ hc.coh i⟩
    · rw [abs_collsSet, h.cur]
      show specSet c.name (Tree.setItem c.cmp.fn c.root i).toList sp.cur = _
      rw [Tree.setItem_toList c.cmp.fn hc.tree.bst i, hnm, ecmp]

theorem inv_del {cmpOf : Bytes → CmpKind} {n : Nat} {s : SState} {sp : SpecState}
    (h : Inv cmpOf n s sp) (nm : Bytes) (k : Bytes) :
    Inv cmpOf (n+1) (sstep cmpOf s (.del nm k)) (specStep cmpOf sp (.del nm k)) := by
  have hsg := specGet_of_collsGet h nm
  cases hg : collsGet nm s.colls with
  | none =>
    rw [hg] at hsg
    have e1 : sstep cmpOf s (.del nm k) = s := by simp only [sstep, hg]
    have e2 : specStep cmpOf sp (.del nm k) = sp := by simp only [specStep, hsg, Option.map_none]
    rw [e1, e2]
    exact h.mono (Nat.le_succ n)
  | some c =>
    rw [hg] at hsg
    obtain ⟨hm, hnm⟩ := collsGet_some hg
    have hc := h.colls.all c hm
    have ecmp : cmpOf nm = c.cmp := by rw [← hnm]; exact hc.hcmp.symm
    have e1 : sstep cmpOf s (.del nm k) =
        { s with colls := collsSet { c with root := (Tree.delete c.cmp.fn c.root k).1 } s.colls } := by
      simp only [sstep, hg]
    have e2 : specStep cmpOf sp (.del nm k) =
        { sp with cur := specSet nm (Spec.erase (cmpOf nm).fn c.root.toList k) sp.cur } := by
      simp only [specStep, hsg, Option.map_some]
    rw [e1, e2]
    refine h.upd _ _ ((h.colls.mono (Nat.le_succ n)).set ?_) ?_
    · exact ⟨hc.hcmp, hc.plain, (hc.tree.delete k).mono (Nat.le_succ n),
        Tree.delete_coherent _ _ _ hc.coh k⟩
    · rw [abs_collsSet, h.cur]
      show specSet c.name (Tree.delete c.cmp.fn c.root k).1.toList sp.cur = _
      rw [Tree.delete_toList c.cmp.fn hc.tree.bst k, hnm, ecmp]

/-! ### flush -/

theorem flushStore_tight (cs : List Coll) (s : FileSt) (hn : s.NoFault)
    (ht : s.size = s.bytes.length) :
    (flushStore cs s).2.size = (flushStore cs s).2.bytes.length := by
  have hn1 : (flushColls cs s).2.NoFault := (flushColls_frame cs s).noplan hn.1 hn.2
  have ht1 := flushColls_tight cs s hn ht
  simp only [flushStore]
  rw [if_neg (by rw [hn1.1]; simp)]
  exact fc_node_step_tight _ _ hn1 ht1

/-- two collection lists that differ in file locations only -/
def SameShape (cs' cs : List Coll) : Prop :=
  cs'.map (fun c => (c.name, c.cmp, c.root.eraseLocs)) =
    cs.map (fun c => (c.name, c.cmp, c.root.eraseLocs))

theorem SameShape.mem {cs' cs : List Coll} (h : SameShape cs' cs) :
    ∀ c' ∈ cs', ∃ c ∈ cs, c.name = c'.name ∧ c.cmp = c'.cmp ∧
      c'.root.eraseLocs = c.root.eraseLocs := by
  intro c' hc'
  have : (c'.name, c'.cmp, c'.root.eraseLocs) ∈
      cs'.map (fun c => (c.name, c.cmp, c.root.eraseLocs)) := List.mem_map.mpr ⟨c', hc', rfl⟩
  rw [h] at this
  obtain ⟨c, hc, he⟩ := List.mem_map.mp this
  injection he with e1 he
  injection he with e2 e3
  exact ⟨c, hc, e1, e2, e3.symm⟩

theorem SameShape.names {cs' cs : List Coll} (h : SameShape cs' cs) :
    cs'.map (·.name) = cs.map (·.name) := by
  have := congrArg (List.map (fun x : Bytes × CmpKind × Tree => x.1)) h
  simpa only [List.map_map, Function.comp_def] using this

theorem SameShape.sorted {cs' cs : List Coll} (h : SameShape cs' cs) (hs : SortedNames cs) :
    SortedNames cs' := by
  have h1 : (cs.map (·.name)).Pairwise (fun a b => compare a b = .lt) :=
    List.pairwise_map.mpr hs
  rw [← h.names] at h1
  exact List.pairwise_map.mp h1

theorem SameShape.abs {cs' cs : List Coll} (h : SameShape cs' cs) :
    absColls cs' = absColls cs := by
  have := congrArg
    (List.map (fun x : Bytes × CmpKind × Tree => (x.1, x.2.2.toList))) h
  simp only [List.map_map, Function.comp_def, eraseLocs_toList] at this
  exact this

/-- what a successful `Flush` achieves, in terms of the invariant -/
theorem CollsOK.flush {cmpOf : Bytes → CmpKind} {f : Bytes} {n : Nat} {cs : List Coll}
    (h : CollsOK cmpOf f n cs) (hn : n < 2^32)
    (hlim : (flushStore cs { bytes := f, size := f.length, log := [] }).2.size < 2^32) :
    (flushStore cs { bytes := f, size := f.length, log := [] }).2.size =
      (flushStore cs { bytes := f, size := f.length, log := [] }).2.bytes.length ∧
    CollsOK cmpOf (flushStore cs { bytes := f, size := f.length, log := [] }).2.bytes n
      (flushStore cs { bytes := f, size := f.length, log := [] }).1 ∧
    absColls (flushStore cs { bytes := f, size := f.length, log := [] }).1 = absColls cs ∧
    openStore 0 (flushStore cs { bytes := f, size := f.length, log := [] }).2.bytes cmpOf =
      .ok ⟨some 0, (flushStore cs { bytes := f, size := f.length, log := [] }).2.bytes.length,
        (flushStore cs { bytes := f, size := f.length, log := [] }).1, false⟩ := by
  generalize hfs : ({ bytes := f, size := f.length, log := [] } : FileSt) = fs at hlim ⊢
  have hb : fs.bytes = f := by rw [← hfs]
  have hz : fs.size = f.length := by rw [← hfs]
  have hfa : fs.failed = false := by rw [← hfs]
  have hpl : fs.failAt = none := by rw [← hfs]
  have hsz : fs.size = fs.bytes.length := by rw [hb, hz]
  have hc : ∀ c ∈ cs, c.root.Coherent fs.bytes fs.size := by
    intro c hc
    rw [hb, hz]
    exact (h.all c hc).coh
  have hok : ∀ c ∈ cs, c.root.SizesOK := fun c hc => (h.all c hc).tree.sizesOK hn
  have hshape : SameShape (flushStore cs fs).1 cs := flushStore_eraseLocs cs fs
  have htight := flushStore_tight cs fs ⟨hfa, hpl⟩ hsz
  have hcoh := flushStore_coherent cs fs hfa hpl (Nat.le_of_eq hsz) hc hok hlim
  have hopen := flush_then_open 0 cmpOf cs fs hfa hpl hsz hc hok h.sorted
    (fun c hc => (h.all c hc).plain) (fun c hc => (h.all c hc).hcmp.symm) hlim
  refine ⟨htight, ⟨hshape.sorted h.sorted, ?_⟩, hshape.abs, ?_⟩
  · intro c' hc'
    obtain ⟨c, hcm, e1, e2, e3⟩ := hshape.mem c' hc'
    have hco := h.all c hcm
    refine ⟨?_, ?_, ?_, ?_⟩
    · rw [← e1, ← e2]; exact hco.hcmp
    · rw [← e1]; exact hco.plain
    · rw [← e2]; exact hco.tree.congr e3
    · have := (hcoh c' hc').1
      rw [htight] at this
      exact this
  · rw [hopen, htight]

theorem inv_flush {cmpOf : Bytes → CmpKind} {n : Nat} {s : SState} {sp : SpecState}
    (h : Inv cmpOf n s sp) (hn : n < 2^32) (hlim : (sstep cmpOf s .flush).size < 2^32) :
    Inv cmpOf (n+1) (sstep cmpOf s .flush) (specStep cmpOf sp .flush) := by
  obtain ⟨colls, file, size⟩ := s
  have hs : size = file.length := h.size
  subst hs
  obtain ⟨h1, h2, h3, h4⟩ := CollsOK.flush h.colls hn hlim
  have h2' := h2.mono (Nat.le_succ n)
  have hcur : absColls (flushStore colls { bytes := file, size := file.length, log := [] }).1
      = sp.cur := h3.trans h.cur
  exact ⟨h1, h2', hcur, _, h4, h2', hcur⟩

/-! ### re-open -/

theorem inv_reopen {cmpOf : Bytes → CmpKind} {n : Nat} {s : SState} {sp : SpecState}
    (h : Inv cmpOf n s sp) :
    Inv cmpOf (n+1) (sstep cmpOf s .reopen) (specStep cmpOf sp .reopen) := by
  obtain ⟨dc, h1, h2, h3⟩ := h.dur
  have e : sstep cmpOf s .reopen = { colls := dc, file := s.file, size := s.file.length } := by
    simp only [sstep, h1]
  rw [e]
  have h2' := h2.mono (Nat.le_succ n)
  exact ⟨rfl, h2', h3, dc, h1, h2', h3⟩

/-! ### the step lemma and the run -/

/-- side condition on a single operation -/
def OpOK : SOp → Prop
  | .setColl n => PlainName n
  | .set _ i => ItemOK i
  | _ => True

theorem inv_step {cmpOf : Bytes → CmpKind} {n : Nat} {s : SState} {sp : SpecState}
    (h : Inv cmpOf n s sp) (op : SOp) (hop : OpOK op) (hn : n < 2^32)
    (hlim : (sstep cmpOf s op).size < 2^32) :
    Inv cmpOf (n+1) (sstep cmpOf s op) (specStep cmpOf sp op) := by
  cases op with
  | setColl nm => exact inv_setColl h nm hop
  | rmColl nm => exact inv_rmColl h nm
  | set nm i => exact inv_set h nm i hop
  | del nm k => exact inv_del h nm k
  | flush => exact inv_flush h hn hlim
  | reopen => exact inv_reopen h

/-- side conditions on a history: names the JSON writer passes through unescaped, items within the
    format's size limits, the file never reaching 4 GiB, and fewer than `2^32` operations (with
    the item limits this keeps every stored aggregate below `2^64`) -/
def HistOK (cmpOf : Bytes → CmpKind) (ops : List SOp) : Prop :=
  (∀ op ∈ ops, OpOK op) ∧
  (∀ k, (srun cmpOf (ops.take k)).size < 2^32) ∧
  ops.length < 2^32

theorem srun_snoc (cmpOf : Bytes → CmpKind) (ops : List SOp) (op : SOp) :
    srun cmpOf (ops ++ [op]) = sstep cmpOf (srun cmpOf ops) op := by
  simp only [srun, List.foldl_append, List.foldl_cons, List.foldl_nil]

theorem specRun_snoc (cmpOf : Bytes → CmpKind) (ops : List SOp) (op : SOp) :
    specRun cmpOf (ops ++ [op]) = specStep cmpOf (specRun cmpOf ops) op := by
  simp only [specRun, List.foldl_append, List.foldl_cons, List.foldl_nil]

/-- the invariant holds after every prefix of an admissible history -/
theorem inv_take (cmpOf : Bytes → CmpKind) (ops : List SOp) (h : HistOK cmpOf ops) :
    ∀ k, k ≤ ops.length →
      Inv cmpOf k (srun cmpOf (ops.take k)) (specRun cmpOf (ops.take k))
  | 0, _ => by
    rw [List.take_zero]
    exact inv_init cmpOf
  | k+1, hk => by
    have hlt : k < ops.length := hk
    have ih := inv_take cmpOf ops h k (Nat.le_of_lt hlt)
    have hl := h.2.1 (k+1)
    rw [List.take_succ_eq_append_getElem hlt] at hl ⊢
    rw [srun_snoc] at hl ⊢
    rw [specRun_snoc]
    exact inv_step ih _ (h.1 _ (List.getElem_mem hlt)) (by have := h.2.2; omega) hl

theorem inv_run (cmpOf : Bytes → CmpKind) (ops : List SOp) (h : HistOK cmpOf ops) :
    Inv cmpOf ops.length (srun cmpOf ops) (specRun cmpOf ops) := by
  have := inv_take cmpOf ops h ops.length (Nat.le_refl _)
  rw [List.take_length] at this
  exact this

/-! ### the theorems -/

/-- C01(c): after every admissible history the store shows exactly what the specification shows -/
theorem refinement (cmpOf : Bytes → CmpKind) (ops : List SOp) (h : HistOK cmpOf ops) :
    absS (srun cmpOf ops) = (specRun cmpOf ops).cur :=
  (inv_run cmpOf ops h).cur

/-- the store invariant, in the vocabulary of the earlier files -/
structure StoreInv (cmpOf : Bytes → CmpKind) (s : SState) : Prop where
  sorted : s.colls.Pairwise (fun a b => compare a.name b.name = .lt)
  cmp : ∀ c ∈ s.colls, c.cmp = cmpOf c.name
  plain : ∀ c ∈ s.colls, PlainName c.name
  bst : ∀ c ∈ s.colls, c.root.BST c.cmp.fn
  agg : ∀ c ∈ s.colls, c.root.AggOK
  sizes : ∀ c ∈ s.colls, c.root.SizesOK
  coherent : ∀ c ∈ s.colls, c.root.Coherent s.file s.size
  size : s.size = s.file.length
  /-- opening the file as it is now succeeds, at the full length of the file -/
  opens : ∃ dc, openStore 0 s.file cmpOf = .ok ⟨some 0, s.file.length, dc, false⟩

theorem storeInv_of_inv {cmpOf : Bytes → CmpKind} {n : Nat} {s : SState} {sp : SpecState}
    (hi : Inv cmpOf n s sp) (hn : n < 2^32) : StoreInv cmpOf s := by
  refine ⟨hi.colls.sorted, fun c hc => (hi.colls.all c hc).hcmp,
    fun c hc => (hi.colls.all c hc).plain, fun c hc => (hi.colls.all c hc).tree.bst,
    fun c hc => (hi.colls.all c hc).tree.agg, fun c hc => (hi.colls.all c hc).tree.sizesOK hn,
    ?_, hi.size, ?_⟩
  · intro c hc
    rw [hi.size]
    exact (hi.colls.all c hc).coh
  · obtain ⟨dc, h1, _, _⟩ := hi.dur
    exact ⟨dc, h1⟩

/-- every reachable state of an admissible history satisfies the store invariant -/
theorem invariant (cmpOf : Bytes → CmpKind) (ops : List SOp) (h : HistOK cmpOf ops) :
    StoreInv cmpOf (srun cmpOf ops) :=
  storeInv_of_inv (inv_run cmpOf ops h) h.2.2

/-- ... and so does every state the history passes through -/
theorem invariant_prefix (cmpOf : Bytes → CmpKind) (ops : List SOp) (h : HistOK cmpOf ops)
    (k : Nat) : StoreInv cmpOf (srun cmpOf (ops.take k)) := by
  by_cases hk : k ≤ ops.length
  · exact storeInv_of_inv (inv_take cmpOf ops h k hk) (by have := h.2.2; omega)
  · rw [List.take_of_length_le (by omega)]
    exact invariant cmpOf ops h

/-- the refinement holds at every state the history passes through -/
theorem refinement_prefix (cmpOf : Bytes → CmpKind) (ops : List SOp) (h : HistOK cmpOf ops)
    (k : Nat) : absS (srun cmpOf (ops.take k)) = (specRun cmpOf (ops.take k)).cur := by
  by_cases hk : k ≤ ops.length
  · exact (inv_take cmpOf ops h k hk).cur
  · rw [List.take_of_length_le (by omega)]
    exact refinement cmpOf ops h

/-- what re-opening the file would show is, at every moment, the state at the last Flush -/
theorem durable_is_last_flush (cmpOf : Bytes → CmpKind) (ops : List SOp) (h : HistOK cmpOf ops) :
    ∃ dc, openStore 0 (srun cmpOf ops).file cmpOf
        = .ok ⟨some 0, (srun cmpOf ops).file.length, dc, false⟩ ∧
      absColls dc = (specRun cmpOf ops).durable := by
  obtain ⟨dc, h1, _, h3⟩ := (inv_run cmpOf ops h).dur
  exact ⟨dc, h1, h3⟩

/-- C02: what re-opening shows is exactly the state at the most recent Flush -/
theorem reopen_shows_last_flush (cmpOf : Bytes → CmpKind) (ops : List SOp)
    (h : HistOK cmpOf (ops ++ [.reopen])) :
    absS (srun cmpOf (ops ++ [.reopen])) = (specRun cmpOf ops).durable := by
  rw [refinement cmpOf _ h, specRun_snoc]
  rfl

/-- C12: names are always the sorted set of current names -/
theorem names_sorted (cmpOf : Bytes → CmpKind) (ops : List SOp) (h : HistOK cmpOf ops) :
    ((srun cmpOf ops).colls.map (·.name)).Pairwise (fun a b => compare a b = .lt) :=
  List.pairwise_map.mpr (inv_run cmpOf ops h).colls.sorted

#print axioms refinement
#print axioms invariant
#print axioms invariant_prefix
#print axioms refinement_prefix
#print axioms durable_is_last_flush
#print axioms reopen_shows_last_flush
#print axioms names_sorted

end Gkv.Machine

/-
`#print axioms` output (`lake env lean Gkv/Proofs/Machine.lean`, Lean 4.33.0):

'Gkv.Machine.refinement' depends on axioms: [propext, Classical.choice, Quot.sound]
'Gkv.Machine.invariant' depends on axioms: [propext, Classical.choice, Quot.sound]
'Gkv.Machine.invariant_prefix' depends on axioms: [propext, Classical.choice, Quot.sound]
'Gkv.Machine.refinement_prefix' depends on axioms: [propext, Classical.choice, Quot.sound]
'Gkv.Machine.durable_is_last_flush' depends on axioms: [propext, Classical.choice, Quot.sound]
'Gkv.Machine.reopen_shows_last_flush' depends on axioms: [propext, Classical.choice, Quot.sound]
'Gkv.Machine.names_sorted' depends on axioms: [propext, Classical.choice, Quot.sound]

Notes.
* `HistOK cmpOf ops` is: every `setColl` name is a `PlainName`, every `set` item is `ItemOK`
  (`OpOK`, the `match` of the planned statement as a named definition); the store's `size` is
  below `2^32` after every prefix of the history (`size` only changes at `flush`, so this is "no
  Flush takes the file to 4 GiB"); and `ops.length < 2^32`.  The last conjunct replaces "every
  stored aggregate is below `2^64`": the invariant carries, for every tree, "at most `n` items and
  at most `n * 2^32` key+value bytes after `n` operations" (`TreeOK.len`, `TreeOK.bytes`), and with
  `AggOK` that gives `Tree.SizesOK` (`Tree.sizesOK_of_agg`, `TreeOK.sizesOK`).  No hypothesis
  mentions the trees of the run.
* The conclusions of `refinement`, `reopen_shows_last_flush`, `names_sorted` are as planned.
  `invariant` is stated with the record `StoreInv` (sorted names, `cmp = cmpOf name`, `PlainName`,
  `BST`, `AggOK`, `SizesOK`, `Coherent s.file s.size`, `s.size = s.file.length`, and "opening the
  file as it is succeeds at its full length"); `invariant_prefix` / `refinement_prefix` give the
  same at every intermediate state of the history; `durable_is_last_flush` says that at every
  moment (not only right after a `reopen`) what `openStore` reads from the file is the durable
  specification state.
* The working invariant is `Inv` (model state, specification state, operation count); its ghost
  field `dur` is established by `CollsOK.flush` (from `flush_then_open`, `flushStore_coherent`,
  `flushStore_eraseLocs`, `flushStore_tight`), kept by the in-memory steps through `Inv.upd`
  (they do not touch the file) and consumed by `inv_reopen`.
* Tree-level lemma families are in `Gkv/Proofs/CoherentOps.lean`: `split/join/union/setItem/
  delete_coherent`, `join/setItem/delete_all`, `bst/aggOK/all_eraseLocs`, `sizesOK_of_agg`,
  `Spec.insert/erase_length_le`, `Spec.insert/erase_bytes_le`.
-/
