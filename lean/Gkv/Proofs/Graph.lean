/-
Reachability on a finite call graph given as an edge list, decided by ONE reverse closure from
the sinks: `closed edges S` says S is closed under "caller of a member"; then nothing outside S
reaches a member of S.  Used over the regenerated tables of Gkv/Gen (C09, C05, C18).
-/
namespace Gkv.Graph

inductive Reach (edges : List (Nat × Nat)) : Nat → Nat → Prop
  | refl (a : Nat) : Reach edges a a
  | step {a b c : Nat} : (a, b) ∈ edges → Reach edges b c → Reach edges a c

/-- one round: add every caller of a member -/
def grow (edges : List (Nat × Nat)) (S : List Nat) : List Nat :=
  edges.foldl (fun acc e => if acc.contains e.2 && !acc.contains e.1 then e.1 :: acc else acc) S

def closure (edges : List (Nat × Nat)) : Nat → List Nat → List Nat
  | 0, S => S
  | n+1, S => closure edges n (grow edges S)

/-- S is closed under predecessors -/
def closed (edges : List (Nat × Nat)) (S : List Nat) : Bool :=
  edges.all (fun e => !S.contains e.2 || S.contains e.1)

theorem reach_mem_of_closed {edges : List (Nat × Nat)} {S : List Nat} (hc : closed edges S = true)
    {a t : Nat} (hr : Reach edges a t) (ht : t ∈ S) : a ∈ S := by
  induction hr with
  | refl _ => exact ht
  | step he _ ih =>
    have hb := ih ht
    have := List.all_eq_true.mp hc _ he
    simp only [Bool.or_eq_true, Bool.not_eq_true', List.contains_iff_mem] at this
    rcases this with h | h
    · simp at h; exact absurd hb h
    · exact h

/-- the decision procedure's soundness: if `a` is not in a predecessor-closed set that contains
    the sink, then `a` does not reach the sink -/
theorem not_reach {edges : List (Nat × Nat)} {S : List Nat} (hc : closed edges S = true)
    {a t : Nat} (ht : t ∈ S) (ha : a ∉ S) : ¬ Reach edges a t :=
  fun hr => ha (reach_mem_of_closed hc hr ht)

/-- index of a name in the table of names (`names.length` if absent) -/
def idx (names : List String) (n : String) : Nat := names.idxOf n

/-- forward closure (callees), for "everything that can run while a lock is held" -/
def growF (edges : List (Nat × Nat)) (S : List Nat) : List Nat :=
  edges.foldl (fun acc e => if acc.contains e.1 && !acc.contains e.2 then e.2 :: acc else acc) S

def closureF (edges : List (Nat × Nat)) : Nat → List Nat → List Nat
  | 0, S => S
  | n+1, S => closureF edges n (growF edges S)

def closedF (edges : List (Nat × Nat)) (S : List Nat) : Bool :=
  edges.all (fun e => !S.contains e.1 || S.contains e.2)

theorem reach_mem_of_closedF {edges : List (Nat × Nat)} {S : List Nat} (hc : closedF edges S = true)
    {a t : Nat} (hr : Reach edges a t) (ha : a ∈ S) : t ∈ S := by
  induction hr with
  | refl _ => exact ha
  | step he _ ih =>
    apply ih
    have := List.all_eq_true.mp hc _ he
    simp only [Bool.or_eq_true, Bool.not_eq_true', List.contains_iff_mem] at this
    rcases this with h | h
    · simp at h; exact absurd ha h
    · exact h

end Gkv.Graph
