/-
C02 — a successful Flush makes the entire store state durable.

The store-level state machine `Gkv.Machine` (`Gkv/Model/Machine.lean`) runs an ARBITRARY history
of SetCollection / RemoveCollection / SetItem / Delete / Flush / re-open next to the specification
"a sorted map per name, plus the state as of the last Flush".
-/
import Gkv.Proofs.Machine
open Std

namespace Gkv.Props.C02
open Gkv Gkv.Machine

/-- one Flush, then NewStore on the bytes: exactly the flushed collections, locations included -/
theorem flush_then_reopen (fid : Nat) (cmpOf : Bytes → CmpKind) (cs : List Coll) (s : FileSt)
    (hf : s.failed = false) (hp : s.failAt = none) (hsz : s.size = s.bytes.length)
    (hc : ∀ c ∈ cs, c.root.Coherent s.bytes s.size) (hok : ∀ c ∈ cs, c.root.SizesOK)
    (hnames : cs.Pairwise (fun a b => compare a.name b.name = .lt))
    (hplain : ∀ c ∈ cs, PlainName c.name) (hcmp : ∀ c ∈ cs, cmpOf c.name = c.cmp)
    (hlim : (flushStore cs s).2.size < 2^32) :
    openStore fid (flushStore cs s).2.bytes cmpOf
      = .ok ⟨some fid, (flushStore cs s).2.size, (flushStore cs s).1, false⟩ :=
  flush_then_open fid cmpOf cs s hf hp hsz hc hok hnames hplain hcmp hlim

/-- … with the same names, comparators, keys, values, priorities and totals as before the Flush -/
theorem flush_then_reopen_contents (cs : List Coll) (s : FileSt) :
    (flushStore cs s).1.map (fun c => (c.name, c.cmp, c.root.toList, c.root.nn, c.root.nb))
      = cs.map (fun c => (c.name, c.cmp, c.root.toList, c.root.nn, c.root.nb)) :=
  flushStore_contents cs s

/-- **history form**: for every history, at every moment, what re-opening the file would show is
    the state at the most recent Flush — whatever unflushed operations (mutations, creating or
    removing collections) followed it; and this keeps holding after re-opening and continuing,
    to any depth (the history may contain any number of `reopen`s) -/
theorem reopen_is_last_flush (cmpOf : Bytes → CmpKind) (ops : List SOp)
    (h : HistOK cmpOf (ops ++ [.reopen])) :
    absS (srun cmpOf (ops ++ [.reopen])) = (specRun cmpOf ops).durable :=
  reopen_shows_last_flush cmpOf ops h

/-- at every moment the bytes on file decode (by the independent decoder) to the last flushed state -/
theorem unflushed_work_never_written (cmpOf : Bytes → CmpKind) (ops : List SOp) (h : HistOK cmpOf ops) :
    ∃ dc, openStore 0 (srun cmpOf ops).file cmpOf
        = .ok ⟨some 0, (srun cmpOf ops).file.length, dc, false⟩ ∧
      absColls dc = (specRun cmpOf ops).durable :=
  durable_is_last_flush cmpOf ops h

/-- the whole store refines the specification along every history (shared with C01 and C12) -/
theorem store_refines_spec (cmpOf : Bytes → CmpKind) (ops : List SOp) (h : HistOK cmpOf ops) :
    absS (srun cmpOf ops) = (specRun cmpOf ops).cur := refinement cmpOf ops h

-- non-vacuity (an evaluated test, not a proof): set, flush, delete (unflushed), re-open: the item is back
#guard absS (srun (fun _ => .bytes)
    [.setColl [97], .set [97] ⟨[1], [2], 3⟩, .flush, .del [97] [1], .reopen]) == [([97], [⟨[1], [2], 3⟩])]

end Gkv.Props.C02
