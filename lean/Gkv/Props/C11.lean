/-
C11 — CopyTo produces an equivalent, compact, durable copy and leaves the source alone.
-/
import Gkv.Proofs.GlueC
import Gkv.Proofs.FlushCoherent
open Std

namespace Gkv.Props.C11
open Gkv

/-- for every source state and EVERY flushEvery value the destination store holds exactly the same
    collections, keys, values and priorities -/
theorem copy_equivalent (src : List Coll) (fe : Int)
    (hb : ∀ c ∈ src, Tree.BST c.cmp.fn c.root)
    (hnames : src.Pairwise (fun a b => compare a.name b.name = .lt)) :
    (copyTo src fe).1.map (fun c => (c.name, c.cmp, c.root.toList)) =
      src.map (fun c => (c.name, c.cmp, c.root.toList)) := copyTo_contents src fe hb hnames

/-- the result does not depend on flushEvery (up to file locations) -/
theorem copy_independent_of_flushEvery (src : List Coll) (fe fe' : Int) :
    (copyTo src fe).1.map (fun c => (c.name, c.cmp, c.root.eraseLocs)) =
      (copyTo src fe').1.map (fun c => (c.name, c.cmp, c.root.eraseLocs)) := copyTo_view_indep src fe fe'

/-- the source is only read: `copyTo` is a function of the source's collections and returns
    nothing but the destination (its collections and its file); all writes are in the destination's
    log, starting from the empty file -/
theorem copy_source_untouched (src : List Coll) (fe : Int) :
    LogFrom 0 (copyTo src fe).2.log ∧ (copyTo src fe).2.failed = false :=
  ⟨copyTo_log src fe, (copyTo_no_fail src fe).1⟩

/-- when flushEvery > 0 the last thing CopyTo does is a Flush of the destination, so by C02
    (`flush_then_open`) the destination file re-opens to that same state; stated here as: the
    final step is `flushStore` -/
theorem copy_ends_with_flush (src : List Coll) (fe : Int) (h : fe > 0) :
    copyTo src fe =
      flushStore (copyColls fe.toNat src [] { bytes := [], size := 0, log := [] }).1
        (copyColls fe.toNat src [] { bytes := [], size := 0, log := [] }).2 := by
  simp [copyTo, h]

end Gkv.Props.C11
