/-
C11 — CopyTo produces an equivalent, compact, durable copy and leaves the source alone.
-/
import Gkv.Proofs.GlueC
import Gkv.Proofs.FlushCoherent
import Gkv.Proofs.CopyCompact
open Std

namespace Gkv.Props.C11
open Gkv

/-- for every source state and EVERY flushEvery value the destination store holds exactly the same
    collections, keys, values and priorities -/
theorem copy_equivalent (src : List Coll) (fe : Int)
    (hb : ∀ c ∈ src, Tree.BST c.cmp.fn c.root)
    (hnames : src.Pairwise (fun a b => compare a.name b.name = .lt)) :
    (copyTo src fe).1.map (fun c => (c.name, c.cmp, c.root.toList)) =
      src.map (fun c => (c.name, c.cmp, c.root.toList)) := copyTo_contents src fe hb hnames

/-- the result does not depend on flushEvery (up to file locations) -/
theorem copy_independent_of_flushEvery (src : List Coll) (fe fe' : Int) :
    (copyTo src fe).1.map (fun c => (c.name, c.cmp, c.root.eraseLocs)) =
      (copyTo src fe').1.map (fun c => (c.name, c.cmp, c.root.eraseLocs)) := copyTo_view_indep src fe fe'

/-- the source is only read: `copyTo` is a function of the source's collections and returns
    nothing but the destination (its collections and its file); all writes are in the destination's
    log, starting from the empty file -/
theorem copy_source_untouched (src : List Coll) (fe : Int) :
    LogFrom 0 (copyTo src fe).2.log ∧ (copyTo src fe).2.failed = false :=
  ⟨copyTo_log src fe, (copyTo_no_fail src fe).1⟩

/-- when flushEvery > 0 the last thing CopyTo does is a Flush of the destination, so by C02
    (`flush_then_open`) the destination file re-opens to that same state; stated here as: the
    final step is `flushStore` -/
theorem copy_ends_with_flush (src : List Coll) (fe : Int) (h : fe > 0) :
    copyTo src fe =
      flushStore (copyColls fe.toNat src [] { bytes := [], size := 0, log := [] }).1
        (copyColls fe.toNat src [] { bytes := [], size := 0, log := [] }).2 := by
  simp [copyTo, h]


/-! ### "holds only live data (no superseded item versions)"

`CopyCompact.copyToW` is `copyTo` returning, in addition, the list of item records it wrote
(`copyToW_fst : (copyToW src fe).1 = copyTo src fe`; `writeItemsW_log`: that list is exactly the
pairs of `WriteAt` events `writeItems` appended to the file's real log).  Node records ARE
superseded by periodic flushes (the evaluated examples in `Proofs/CopyCompact.lean`: 9 or 10 node
records for 7 nodes); item records are not. -/

private theorem distinct_of_c11 (src : List Coll)
    (hb : ∀ c ∈ src, Tree.BST c.cmp.fn c.root)
    (hnames : src.Pairwise (fun a b => compare a.name b.name = .lt)) :
    Gkv.CopyCompact.DistinctNames src ∧ Gkv.CopyCompact.DistinctKeys src := by
  refine ⟨hnames.imp (fun h => Gkv.CopyCompact.ne_of_compare_lt h), ?_⟩
  intro c hc
  refine (Tree.toList_sorted c.cmp.fn (hb c hc)).imp ?_
  intro a b h e
  rw [h] at e
  cases e

/-- for `flushEvery > 0` and every well-formed source (the hypotheses of `copy_equivalent`):
    (1) as many item records were written to the destination as the source has items, and as the
        destination has items;
    (2) the records written are, as a multiset, exactly the (item, location) pairs of the
        destination's collections — every record is referenced by a live item and every live item
        has one: no superseded item version is in the file;
    (3) each lies inside the file with the length of its item's record, and they are pairwise
        disjoint. -/
theorem copy_holds_only_live_item_records (src : List Coll) (fe : Int) (hfe : fe > 0)
    (hb : ∀ c ∈ src, Tree.BST c.cmp.fn c.root)
    (hnames : src.Pairwise (fun a b => compare a.name b.name = .lt)) :
    ((Gkv.CopyCompact.copyToW src fe).2.items.length = (src.map (fun c => c.root.toList.length)).sum ∧
     (Gkv.CopyCompact.copyToW src fe).2.items.length =
        ((copyTo src fe).1.map (fun c => c.root.toList.length)).sum) ∧
    (((Gkv.CopyCompact.copyToW src fe).2.items.map (fun r => (r.1, some r.2))).Perm
        (Gkv.CopyCompact.allLocs (copyTo src fe).1)) ∧
    ((∀ x ∈ Gkv.CopyCompact.allLocs (copyTo src fe).1, ∃ p, x.2 = some p ∧ p.len = itemRecLen x.1 ∧
        p.off + p.len ≤ (copyTo src fe).2.size) ∧
     (Gkv.CopyCompact.allLocs (copyTo src fe).1).Pairwise
        (fun x y => ∀ p q, x.2 = some p → y.2 = some q → Gkv.CopyCompact.Disjoint p q)) := by
  obtain ⟨hn, hk⟩ := distinct_of_c11 src hb hnames
  exact ⟨Gkv.CopyCompact.copyTo_item_records_of_bst src fe hfe hb hnames,
         Gkv.CopyCompact.copyTo_item_records_perm src fe hfe hn hk,
         Gkv.CopyCompact.copyTo_item_ranges src fe hfe hn hk⟩

/-- the hypotheses are needed: for a source holding one key twice (not a search tree; the API cannot
    build it) a periodic flush leaves a superseded item record in the file — and `flushEvery ≤ 0`
    writes nothing at all -/
theorem copy_live_only_needs_wellformed_source :
    (¬ Gkv.CopyCompact.DistinctKeys Gkv.CopyCompact.srcDupKey ∧
      (Gkv.CopyCompact.copyToW Gkv.CopyCompact.srcDupKey 1).2.items.length = 2 ∧
      Gkv.CopyCompact.items (copyTo Gkv.CopyCompact.srcDupKey 1).1 = 1) :=
  ⟨Gkv.CopyCompact.dupKey_superseded.1, Gkv.CopyCompact.dupKey_superseded.2.2.2.1,
   Gkv.CopyCompact.dupKey_superseded.2.2.2.2.1⟩

end Gkv.Props.C11
