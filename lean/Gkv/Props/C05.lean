/-
C05 — concurrent readers each see one consistent version beside writer and flusher.

Model C (`Gkv/Model/Conc.lean`): one mutator, one flusher, any number of readers, every API call
split into its lock-protected atomic steps; a schedule is an ARBITRARY list of thread ids.  All
theorems quantify over all programs, all numbers of readers and all schedules.

What the model cannot exhibit (and the tie covers by sampled schedules only): Go-memory-model data
races on the unsynchronised cache fills, real scheduler fairness, runtime panics.
-/
import Gkv.Proofs.Conc
import Gkv.Props.Locks
import Gkv.Props.C10
import Gkv.Proofs.CopyRace
import Gkv.Gen.WriteOrder
open Std

namespace Gkv.Props.C05
open Gkv.Conc

variable (initV : Nat → Val) (prog : List Op) (nColl nFlush : Nat) (rprogs : List (List Nat))
  (sched : List Nat)

/-- every read returns the content of ONE version, which was the current one at an instant
    (`pinTime`) strictly between the call's start and end -/
theorem read_one_version :
    let s := run initV prog nColl nFlush rprogs sched
    ∀ r ∈ s.rds, ∀ e ∈ r.log,
      e.start < e.pinTime ∧ e.pinTime < e.fin ∧
      IsCurrentAt (s.sh.hist e.c) e.idx e.pinTime ∧
      ((s.sh.hist e.c)[e.idx]?).map Version.val = some e.result := by
  intro s r hr e he
  have h := Gkv.Conc.read_one_version initV prog nColl nFlush rprogs sched r hr e he
  exact ⟨h.1, h.2.1, h.2.2.1, h.2.2.2.2⟩

/-- no lost update: the CAS of the single mutator never fails and the published history of every
    collection is exactly the mutator's operations on it, applied in program order -/
theorem no_lost_update :
    let s := run initV prog nColl nFlush rprogs sched
    s.mu.lost = false ∧ s.mu.ncas ≤ prog.length ∧
    ∀ c, (s.sh.hist c).map Version.val =
      ((prog.take s.mu.ncas).filter (fun op => op.1 == c)).scanl (fun v op => op.2 v) (initV c) :=
  Gkv.Conc.no_lost_update initV prog nColl nFlush rprogs sched

/-- every concurrent Flush persists, per collection, a version that was current at its pin
    instant, and the pin instants increase in collection-name order within the Flush -/
theorem flush_persists_current_versions :
    let s := run initV prog nColl nFlush rprogs sched
    ∀ rec ∈ s.fl.log,
      rec.pins.length = nColl ∧ rec.vals.length = nColl ∧
      List.Pairwise (· < ·) (rec.start :: rec.pins.map Pin.time ++ [rec.fin]) ∧
      ∀ c p, rec.pins[c]? = some p →
        p.c = c ∧ IsCurrentAt (s.sh.hist c) p.idx p.time ∧ curAt (s.sh.hist c) p.time = p.idx ∧
        ∃ x, rec.vals[c]? = some x ∧ ((s.sh.hist c)[p.idx]?).map Version.val = some x :=
  Gkv.Conc.flush_versions initV prog nColl nFlush rprogs sched

/-- a later-named collection is never persisted in an older state than it had when an
    earlier-named one was captured -/
theorem flush_name_order :
    let s := run initV prog nColl nFlush rprogs sched
    ∀ rec ∈ s.fl.log, ∀ c c' p p', c < c' → rec.pins[c]? = some p → rec.pins[c']? = some p' →
      p.time < p'.time ∧ curAt (s.sh.hist c') p.time ≤ p'.idx :=
  Gkv.Conc.flush_order initV prog nColl nFlush rprogs sched

/-- no deadlock: in every state every unfinished thread has an enabled step (no step blocks), and
    every fair schedule finishes -/
theorem no_deadlock (s : State) (h : ¬ s.allFinished) :
    ∃ tid, tid < s.nThreads ∧ s.finished tid = false ∧ (step s tid).measure < s.measure :=
  Gkv.Conc.no_deadlock s h

/-- the premise "no step blocks" for the real code: no mutex is held across file I/O or a user
    callback, and mutexes are acquired in one fixed order (regenerated lock tables) -/
theorem locks_never_held_across_io :
    ∀ x ∈ Gen.Locks.underLock, ∀ i ∈ x.2.2,
      (Gkv.Props.Locks.N[i]!).startsWith "FILE." = false ∧
      ((Gkv.Props.Locks.N[i]!).startsWith "DYN." = true →
        Gkv.Props.Locks.N[i]! ∈ Gkv.Props.Locks.allowedDynUnderLock) :=
  Gkv.Props.Locks.no_io_or_callback_under_lock

/-- a pinned version keeps a positive reference count until its unpin, and reference counts never
    underflow; by `C10.recycling_safe` no node of a version with a positive count is recycled -/
theorem pinned_alive (c idx : Nat)
    (hp : 0 < (run initV prog nColl nFlush rprogs sched).holders c idx) :
    1 ≤ (run initV prog nColl nFlush rprogs sched).sh.refs c idx ∧
    (run initV prog nColl nFlush rprogs sched).sh.underflow = false :=
  ⟨Gkv.Conc.pinned_alive initV prog nColl nFlush rprogs sched c idx hp,
   Gkv.Conc.no_underflow initV prog nColl nFlush rprogs sched⟩


/-! ### the unsynchronised copy of an item slot (defect F16)

`itemLoc.Copy` reads a slot's two fields in two steps while the flusher may publish the location
and a reader may evict the cached item in between (`Model/CopyRace.lean`). -/

/-- reading the item first and the location second gives a usable copy (an item or a location to
    reload it from) for EVERY usable source and EVERY sequence of flushes, evictions and reloads
    between the two reads -/
theorem item_copy_never_empty (s : Gkv.CopyRace.Slot) (es : List Gkv.CopyRace.Ev) (h : s.ok = true) :
    (Gkv.CopyRace.copyItemFirst s es).ok = true := Gkv.CopyRace.copyItemFirst_ok s es h

/-- the pinned order (location first) yields a node with neither, on the schedule
    dirty item · Flush · evict -/
theorem item_copy_loc_first_breaks :
    let s : Gkv.CopyRace.Slot := { loc := false, item := true }
    s.ok = true ∧ (Gkv.CopyRace.copyLocFirst s [.flush, .evict]).ok = false :=
  Gkv.CopyRace.copyLocFirst_broken

/-- the code reads in the proved order (regenerated from /repo: position of the first `src.item`
    before the first `src.loc` in `itemLoc.Copy`); the model's assumption that a location is never
    un-published is `WriteOrder.locations_published_after_bytes` (no `setLoc(nil)`) -/
theorem item_copy_reads_item_first : Gen.WriteOrder.copyReadsItemFirst = true := by decide

end Gkv.Props.C05
