/-
C05 — concurrent readers each see one consistent version beside writer and flusher.

Model C (`Gkv/Model/Conc.lean`): one mutator, one flusher, any number of readers, every API call
split into its lock-protected atomic steps; a schedule is an ARBITRARY list of thread ids.  All
theorems quantify over all programs, all numbers of readers and all schedules.

What the model cannot exhibit (and the tie covers by sampled schedules only): Go-memory-model data
races on the unsynchronised cache fills, real scheduler fairness, runtime panics.
-/
import Gkv.Proofs.Conc
import Gkv.Props.Locks
import Gkv.Props.C10
import Gkv.Proofs.CopyRace
import Gkv.Gen.WriteOrder
import Gkv.Proofs.FlushPin
import Gkv.Gen.Sites
open Std

namespace Gkv.Props.C05
open Gkv.Conc

variable (initV : Nat → Val) (prog : List Op) (nColl nFlush : Nat) (rprogs : List (List Nat))
  (sched : List Nat)

/-- every read returns the content of ONE version, which was the current one at an instant
    (`pinTime`) strictly between the call's start and end -/
theorem read_one_version :
    let s := run initV prog nColl nFlush rprogs sched
    ∀ r ∈ s.rds, ∀ e ∈ r.log,
      e.start < e.pinTime ∧ e.pinTime < e.fin ∧
      IsCurrentAt (s.sh.hist e.c) e.idx e.pinTime ∧
      ((s.sh.hist e.c)[e.idx]?).map Version.val = some e.result := by
  intro s r hr e he
  have h := Gkv.Conc.read_one_version initV prog nColl nFlush rprogs sched r hr e he
  exact ⟨h.1, h.2.1, h.2.2.1, h.2.2.2.2⟩

/-- no lost update: the CAS of the single mutator never fails and the published history of every
    collection is exactly the mutator's operations on it, applied in program order -/
theorem no_lost_update :
    let s := run initV prog nColl nFlush rprogs sched
    s.mu.lost = false ∧ s.mu.ncas ≤ prog.length ∧
    ∀ c, (s.sh.hist c).map Version.val =
      ((prog.take s.mu.ncas).filter (fun op => op.1 == c)).scanl (fun v op => op.2 v) (initV c) :=
  Gkv.Conc.no_lost_update initV prog nColl nFlush rprogs sched

/-- every concurrent Flush persists, per collection, a version that was current at its pin
    instant, and the pin instants increase in collection-name order within the Flush -/
theorem flush_persists_current_versions :
    let s := run initV prog nColl nFlush rprogs sched
    ∀ rec ∈ s.fl.log,
      rec.pins.length = nColl ∧ rec.vals.length = nColl ∧
      List.Pairwise (· < ·) (rec.start :: rec.pins.map Pin.time ++ [rec.fin]) ∧
      ∀ c p, rec.pins[c]? = some p →
        p.c = c ∧ IsCurrentAt (s.sh.hist c) p.idx p.time ∧ curAt (s.sh.hist c) p.time = p.idx ∧
        ∃ x, rec.vals[c]? = some x ∧ ((s.sh.hist c)[p.idx]?).map Version.val = some x :=
  Gkv.Conc.flush_versions initV prog nColl nFlush rprogs sched

/-- a later-named collection is never persisted in an older state than it had when an
    earlier-named one was captured -/
theorem flush_name_order :
    let s := run initV prog nColl nFlush rprogs sched
    ∀ rec ∈ s.fl.log, ∀ c c' p p', c < c' → rec.pins[c]? = some p → rec.pins[c']? = some p' →
      p.time < p'.time ∧ curAt (s.sh.hist c') p.time ≤ p'.idx :=
  Gkv.Conc.flush_order initV prog nColl nFlush rprogs sched

/-- no deadlock: in every state every unfinished thread has an enabled step (no step blocks), and
    every fair schedule finishes -/
theorem no_deadlock (s : State) (h : ¬ s.allFinished) :
    ∃ tid, tid < s.nThreads ∧ s.finished tid = false ∧ (step s tid).measure < s.measure :=
  Gkv.Conc.no_deadlock s h

/-- the premise "no step blocks" for the real code: no mutex is held across file I/O or a user
    callback, and mutexes are acquired in one fixed order (regenerated lock tables) -/
theorem locks_never_held_across_io :
    ∀ x ∈ Gen.Locks.underLock, ∀ i ∈ x.2.2,
      (Gkv.Props.Locks.N[i]!).startsWith "FILE." = false ∧
      ((Gkv.Props.Locks.N[i]!).startsWith "DYN." = true →
        Gkv.Props.Locks.N[i]! ∈ Gkv.Props.Locks.allowedDynUnderLock) :=
  Gkv.Props.Locks.no_io_or_callback_under_lock

/-- a pinned version keeps a positive reference count until its unpin, and reference counts never
    underflow; by `C10.recycling_safe` no node of a version with a positive count is recycled -/
theorem pinned_alive (c idx : Nat)
    (hp : 0 < (run initV prog nColl nFlush rprogs sched).holders c idx) :
    1 ≤ (run initV prog nColl nFlush rprogs sched).sh.refs c idx ∧
    (run initV prog nColl nFlush rprogs sched).sh.underflow = false :=
  ⟨Gkv.Conc.pinned_alive initV prog nColl nFlush rprogs sched c idx hp,
   Gkv.Conc.no_underflow initV prog nColl nFlush rprogs sched⟩


/-! ### the unsynchronised copy of an item slot (defect F16)

`itemLoc.Copy` reads a slot's two fields in two steps while the flusher may publish the location
and a reader may evict the cached item in between (`Model/CopyRace.lean`). -/

/-- reading the item first and the location second gives a usable copy (an item or a location to
    reload it from) for EVERY usable source and EVERY sequence of flushes, evictions and reloads
    between the two reads -/
theorem item_copy_never_empty (s : Gkv.CopyRace.Slot) (es : List Gkv.CopyRace.Ev) (h : s.ok = true) :
    (Gkv.CopyRace.copyItemFirst s es).ok = true := Gkv.CopyRace.copyItemFirst_ok s es h

/-- the pinned order (location first) yields a node with neither, on the schedule
    dirty item · Flush · evict -/
theorem item_copy_loc_first_breaks :
    let s : Gkv.CopyRace.Slot := { loc := false, item := true }
    s.ok = true ∧ (Gkv.CopyRace.copyLocFirst s [.flush, .evict]).ok = false :=
  Gkv.CopyRace.copyLocFirst_broken

/-- the code reads in the proved order (regenerated from /repo: position of the first `src.item`
    before the first `src.loc` in `itemLoc.Copy`); the model's assumption that a location is never
    un-published is `WriteOrder.locations_published_after_bytes` (no `setLoc(nil)`) -/
theorem item_copy_reads_item_first : Gen.WriteOrder.copyReadsItemFirst = true := by decide

/-! ### Model P: pinning the collections of a store while the mutator replaces handles (F21)

`Model/FlushPin.lean`: `Flush` and `Snapshot` read the collection map once and then pin each
collection in name order; the one mutating goroutine may at any moment publish versions and
re-issue `SetCollection` on an existing name, which closes the handle the map held.  A schedule is
an arbitrary `List Ev`.  The repaired walk (`rootAddRefIfOpen`, start over when a handle turns out
to be closed) is `run true`, the pinned tree's (`rootAddRef`) is `run false`. -/

/-- no schedule makes the repaired walk touch a closed handle (the nil dereference of F21) -/
theorem pinning_never_touches_a_closed_handle (n : Nat) (v : Nat → Nat) (es : List Gkv.FlushPin.Ev) :
    (Gkv.FlushPin.run true (Gkv.FlushPin.init n v) es).panicked = false :=
  (Gkv.FlushPin.run_inv (Gkv.FlushPin.init_inv n v) es).ok

/-- … and the walk of the pinned tree could: the counterexample schedule of defect F21 -/
theorem unrepaired_pinning_panics :
    (Gkv.FlushPin.run false (Gkv.FlushPin.init 2 (fun _ => 0))
      [.pin, .pin, .swap 1, .pin]).panicked = true := Gkv.FlushPin.unsafe_panics

/-- C05's last clause for the walk: whatever the schedule, collection `b` is pinned in a state no
    older than the state it had when an earlier-named collection `a` was pinned (`snaps[a]` is the
    ghost record of every collection's version at that moment), and what is pinned is not newer
    than the present -/
theorem pins_taken_in_name_order (n : Nat) (v : Nat → Nat) (es : List Gkv.FlushPin.Ev) :
    let s := Gkv.FlushPin.run true (Gkv.FlushPin.init n v) es
    ∀ a b (ha : a < s.snaps.length) (hb : b < s.pinned.length), a ≤ b →
      (s.snaps[a]) b ≤ s.pinned[b] ∧ s.pinned[b] ≤ s.ver b := by
  intro s a b ha hb hab
  have h := Gkv.FlushPin.run_inv (Gkv.FlushPin.init_inv n v) es
  have hb' : b < s.snaps.length := by rw [h.len_eq]; exact hb
  have e := h.pin_snap b hb' hb
  rw [e]
  exact ⟨h.snap_mono a b ha hb' hab b, h.snap_le b hb' b⟩

/-- the retry loop is not a livelock: from any reachable state, as soon as the mutator leaves the
    collection map alone for `2n + 2` steps of the walk, every collection is pinned -/
theorem pinning_completes_once_the_map_is_quiet (n : Nat) (v : Nat → Nat) (es : List Gkv.FlushPin.Ev)
    (k : Nat) (hk : 2 * n + 2 ≤ k) :
    (Gkv.FlushPin.run true (Gkv.FlushPin.run true (Gkv.FlushPin.init n v) es) (Gkv.FlushPin.quiet k)).done = true := by
  have h := Gkv.FlushPin.run_inv (Gkv.FlushPin.init_inv n v) es
  have hn : (Gkv.FlushPin.run true (Gkv.FlushPin.init n v) es).n = n := Gkv.FlushPin.run_n _ es
  exact Gkv.FlushPin.quiet_period_completes _ h k (by rw [hn]; exact hk)

/-- the statements above are not vacuous: a schedule on which the walk has to start over (the
    mutator swaps the handle of collection 1 after the map was copied) and still pins both
    collections, the second one in its newer version -/
example :
    let s := Gkv.FlushPin.run true (Gkv.FlushPin.init 2 (fun _ => 0))
      [.pin, .pin, .swap 1, .mutate 1, .pin, .pin, .pin, .pin]
    s.done = true ∧ s.restarts = 1 ∧ s.pinned = [0, 1] ∧ s.panicked = false := by decide

/-- the code side (regenerated `Gen/Sites.lean`): `Flush` and `Snapshot` pin through the function
    that tests for a closed handle, and neither calls the unguarded `rootAddRef` -/
theorem flush_and_snapshot_pin_through_the_guarded_function :
    ("Store.Flush", "rootAddRefIfOpen", "") ∈ Gen.Sites.reclaimSites ∧
    ("Store.Snapshot", "rootAddRefIfOpen", "") ∈ Gen.Sites.reclaimSites ∧
    (Gen.Sites.reclaimSites.filter (fun r => r.2.1 == "rootAddRef" &&
      (r.1 == "Store.Flush" || r.1 == "Store.Snapshot"))) = [] := by decide +kernel

end Gkv.Props.C05
