/-
C10 — internal node recycling is invisible to every open handle.

Layer 1 (here): the abstract version / mark / reclaim protocol (`Gkv/Model/Versions.lean`).  For
EVERY sequence of events — any number of handles and reader pins acquired and released in any
order, lazy loads, mutations, and every choice of which marked nodes a dying version actually
frees — no node of a live version is ever on the free list.
Layer 2: the correspondence harness evaluates the same invariant clauses on the real heap after
every step (no reachable node freed or zeroed, marks only of live versions, current tree
unmarked, reference counts ≥ 1), see bin/check C10.
-/
import Gkv.Model.Versions
import Gkv.Proofs.VersionsFine
import Gkv.Proofs.VersionsLeak
import Gkv.Props.Locks
import Gkv.Gen.Sites
open Std

namespace Gkv.Props.C10
open Gkv.Versions

/-- Safety for every reachable state of the protocol -/
theorem recycling_safe (F : Nat → Nat → Prop) (s : St) (hr : Reach F s) :
    ∀ w n, s.refs w > 0 → s.tree w n → ¬ s.freed n := safe_reachable F s hr

/-- the full invariant (reference accounting, chains, mark discipline, unmarked current tree) -/
theorem invariant (F : Nat → Nat → Prop) (s : St) (hr : Reach F s) : HInv s := reach_inv F s hr

/-- live versions are upward closed: a version outlives every older live version -/
theorem live_upward_closed (F : Nat → Nat → Prop) (s : St) (hr : Reach F s) (u d : Nat)
    (h : s.refs u > 0) (hle : u + d ≤ s.N) : s.refs (u + d) > 0 :=
  live_up (reach_inv F s hr) d u h hle

/-! ### marking is not atomic, and mutations may abort (`Model/VersionsFine.lean`) -/

/-- the same safety when a mutation lays its marks one node at a time, interleaved with other
    goroutines' acquire / release / load events, and may abort (read error) with
    `reclaimMarkClear` — for every interleaving -/
theorem recycling_safe_fine (F : Nat → Nat → Prop) (fs : Gkv.VersionsFine.FSt)
    (hr : Gkv.VersionsFine.ReachFine F fs) :
    ∀ w n, fs.base.refs w > 0 → fs.base.tree w n → ¬ fs.base.freed n :=
  Gkv.VersionsFine.fine_safe F fs hr

/-- an aborted mutation that clears its marks restores the full invariant (defect F4's repair) … -/
theorem abort_restores_invariant (F : Nat → Nat → Prop) (fs : Gkv.VersionsFine.FSt)
    (hr : Gkv.VersionsFine.ReachFine F fs) (hi : fs.inflight = true) :
    HInv (Gkv.VersionsFine.fAbort F fs).base := Gkv.VersionsFine.abort_restores_reach F fs hr hi

/-- … and without the clearing it does not: the repair is necessary -/
theorem abort_without_clear_breaks (F : Nat → Nat → Prop) (fs : Gkv.VersionsFine.FSt)
    (h : Gkv.VersionsFine.FInv fs) (hh : fs.base.hp fs.base.N ≥ 2) (n : Nat) (hp : fs.pending n) :
    ¬ HInv (release F fs.base fs.base.N) := Gkv.VersionsFine.abort_without_clear_breaks F fs h hh n hp

/-! ### what is, and what is not, returned to the free list (`Model/VersionsLeak.lean`) -/

/-- once the last version of a closed collection is dead its whole tree has been freed -/
theorem last_version_freed {G : St → Nat → Prop} (hG : ∀ s p, G s p → Gkv.VersionsLeak.GLive s p) {s : St}
    (hr : Gkv.VersionsLeak.ReachG G s) (hN : s.refs s.N = 0) : ∀ n, s.tree s.N n → s.freed n :=
  Gkv.VersionsLeak.last_version_freed hG hr hN

/-- a genuine leak of the protocol (finding F11, see DESIGN.md): a node lazily loaded by a reader
    of an OLD version underneath a node that a later mutation replaced is never freed, even after
    every handle is closed -/
theorem orphan_leak_exists :
    ¬ (∀ s, Reach Gkv.VersionsLeak.FT s → (∀ v, s.refs v = 0) → ∀ n, (∃ v, s.tree v n) → s.freed n) :=
  Gkv.VersionsLeak.all_closed_all_freed_false

/-! ### the protocol's precondition, code side

`recycling_safe` speaks about readers that ACQUIRE a version before they read it and release it
afterwards (the `acquire` / `release` events).  That the code's readers do so is a fact about the
source, regenerated on every run (`Gen/Pins.lean`): every function that reads through a
collection's root takes its own pin and releases it by `defer`, and the only `rootAddRef` calls that
are not paired this way hand the pin to another owner.  A reader that walks a version it has not
pinned itself (seeded change C10g: "snapshots are immutable, skip the pin") refutes this. -/
theorem every_reader_holds_its_version :
    (∀ f ∈ Gkv.Props.Locks.pinnedReaders, (f, true, true) ∈ Gen.Pins.pins) ∧
    (Gen.Pins.pinSites.filter (fun x => x.2 == "paired")).map (·.1) =
      ["Collection.Delete", "Collection.GetItem", "Collection.GetTotals", "Collection.MarshalJSON",
       "Collection.SetItem", "Collection.VisitItemsAscendEx", "Collection.VisitItemsDescendEx",
       "Collection.Write", "Store.walk"] :=
  ⟨Gkv.Props.Locks.readers_pin_and_unpin, by rw [Gkv.Props.Locks.every_pin_site_is_reviewed]; decide⟩

/-! ### the events of Model H are all the places where the code marks, frees and counts (regenerated)

Model H has the events acquire / release / load / mutate / dec.  `Gen/Sites.lean`, rewritten from
/repo on every run, lists every call of the functions that implement them and every direct
assignment to the fields the protocol lives in.  Reviewed reading:

* `rootAddRef` (acquire) and `rootDecRef` (release): the paired readers of
  `every_reader_holds_its_version`, the three hand-overs (`Flush`, `SetCollection`, `Snapshot`),
  and `closeCollection` (handle close) — called from `Close`, `FlushRevert`, `RemoveCollection`,
  `SetCollection` only;
* `mutate`: `SetItem` / `Delete` — `markReclaimable` only inside `union` / `split` / `join` on the
  node just replaced (set `R`) and once in `Delete` on the removed node with the NEW version's mark
  (`Rn`), `reclaimMarkUpdate` only in `SetItem` / `Delete` after a successful rebuild (`Rn`, `T`),
  `reclaimMarkClear` on every error return (the abort of `VersionsFine`), `rootCAS`, then the
  mutating handle's `rootDecRef`;
* `dec`: `rootDecRefUnlocked` alone marks a whole tree (`markAllUnlocked`), reclaims
  (`reclaimNodesUnlocked` → `freeNodeUnlocked`) and frees a version (`freeRootNodeLoc`);
* `refs` is written only by `rootAddRef` (++), `rootCAS` (++ for the chain), `rootDecRefUnlocked`
  (--) and the two allocator functions; `node.next` only by the five marking functions and the
  allocator.

Seeded changes C10 (mark at handle close), C10e (Delete frees at once), C04h (chain skipped for an
empty successor — a condition, not a site: not seen here, seen by `heapcheck`) … -/
theorem every_mark_and_free_site_is_an_event :
    Gen.Sites.reclaimSites = [
  ("Collection.Delete", "rootAddRef", ""),
  ("Collection.Delete", "rootDecRef", "rnl"),
  ("Collection.Delete", "reclaimMarkClear", "root, &rnl.reclaimMark"),
  ("Collection.Delete", "reclaimMarkClear", "root, &rnl.reclaimMark"),
  ("Collection.Delete", "reclaimMarkClear", "root, &rnl.reclaimMark"),
  ("Collection.Delete", "mkRootNodeLoc", "r"),
  ("Collection.Delete", "reclaimMarkUpdate", "left, &rnl.reclaimMark, &rnlNew.reclaimMark"),
  ("Collection.Delete", "reclaimMarkUpdate", "right, &rnl.reclaimMark, &rnlNew.reclaimMark"),
  ("Collection.Delete", "reclaimMarkUpdate", "middle, &rnl.reclaimMark, &rnlNew.reclaimMark"),
  ("Collection.Delete", "markReclaimable", "rnlNew.reclaimLater[2], &rnlNew.reclaimMark"),
  ("Collection.Delete", "rootCAS", "rnl, rnlNew"),
  ("Collection.Delete", "rootDecRef", "rnl"),
  ("Collection.GetItem", "rootAddRef", ""),
  ("Collection.GetItem", "rootDecRef", "rnl"),
  ("Collection.GetTotals", "rootAddRef", ""),
  ("Collection.GetTotals", "rootDecRef", "rnl"),
  ("Collection.MarshalJSON", "rootAddRef", ""),
  ("Collection.MarshalJSON", "rootDecRef", "rnl"),
  ("Collection.SetItem", "rootAddRef", ""),
  ("Collection.SetItem", "rootDecRef", "rnl"),
  ("Collection.SetItem", "reclaimMarkClear", "root, &rnl.reclaimMark"),
  ("Collection.SetItem", "mkRootNodeLoc", "r"),
  ("Collection.SetItem", "reclaimMarkUpdate", "nloc, &rnl.reclaimMark, &rnlNew.reclaimMark"),
  ("Collection.SetItem", "rootCAS", "rnl, rnlNew"),
  ("Collection.SetItem", "rootDecRef", "rnl"),
  ("Collection.UnmarshalJSON", "rootCAS", "nil, t.mkRootNodeLoc(nloc)"),
  ("Collection.UnmarshalJSON", "mkRootNodeLoc", "nloc"),
  ("Collection.VisitItemsAscendEx", "rootAddRef", ""),
  ("Collection.VisitItemsAscendEx", "rootDecRef", "rnl"),
  ("Collection.VisitItemsDescendEx", "rootAddRef", ""),
  ("Collection.VisitItemsDescendEx", "rootDecRef", "rnl"),
  ("Collection.Write", "rootAddRef", ""),
  ("Collection.Write", "rootDecRef", "rnl"),
  ("Collection.closeCollection", "rootDecRef", "r"),
  ("Collection.markAllUnlocked", "markAllUnlocked", "&n.left, reclaimMark"),
  ("Collection.markAllUnlocked", "markAllUnlocked", "&n.right, reclaimMark"),
  ("Collection.reclaimMarkClear", "reclaimMarkClear", "&n.left, reclaimMark"),
  ("Collection.reclaimMarkClear", "reclaimMarkClear", "&n.right, reclaimMark"),
  ("Collection.reclaimMarkUpdate", "reclaimMarkUpdate", "&n.left, oldReclaimMark, newReclaimMark"),
  ("Collection.reclaimMarkUpdate", "reclaimMarkUpdate", "&n.right, oldReclaimMark, newReclaimMark"),
  ("Collection.reclaimNodesUnlocked", "freeNodeUnlocked", "n, reclaimMark"),
  ("Collection.reclaimNodesUnlocked", "reclaimNodesUnlocked", "left, reclaimLater, reclaimMark"),
  ("Collection.reclaimNodesUnlocked", "reclaimNodesUnlocked", "right, reclaimLater, reclaimMark"),
  ("Collection.rootDecRef", "rootDecRefUnlocked", "r"),
  ("Collection.rootDecRefUnlocked", "rootDecRefUnlocked", "r.chainedRootNodeLoc"),
  ("Collection.rootDecRefUnlocked", "markAllUnlocked", "r.root, &r.reclaimMark"),
  ("Collection.rootDecRefUnlocked", "reclaimNodesUnlocked", "r.root.Node(), &r.reclaimLater, &r.reclaimMark"),
  ("Collection.rootDecRefUnlocked", "reclaimNodesUnlocked", "r.reclaimLater[i], nil, &r.reclaimMark"),
  ("Collection.rootDecRefUnlocked", "freeRootNodeLoc", "r"),
  ("Store.Close", "closeCollection", ""),
  ("Store.Flush", "rootAddRefIfOpen", ""),
  ("Store.Flush", "rootDecRef", "r"),
  ("Store.Flush", "rootDecRef", "rnls[name]"),
  ("Store.FlushRevert", "closeCollection", ""),
  ("Store.RemoveCollection", "closeCollection", ""),
  ("Store.SetCollection", "rootAddRef", ""),
  ("Store.SetCollection", "closeCollection", ""),
  ("Store.SetCollection", "closeCollection", ""),
  ("Store.Snapshot", "rootAddRefIfOpen", ""),
  ("Store.Snapshot", "closeCollection", ""),
  ("Store.join", "markReclaimable", "thisNode, reclaimMark"),
  ("Store.join", "markReclaimable", "thatNode, reclaimMark"),
  ("Store.split", "markReclaimable", "nNode, reclaimMark"),
  ("Store.split", "markReclaimable", "nNode, reclaimMark"),
  ("Store.union", "markReclaimable", "thisNode, reclaimMark"),
  ("Store.union", "markReclaimable", "middleNode, reclaimMark"),
  ("Store.union", "markReclaimable", "thatNode, reclaimMark"),
  ("Store.union", "markReclaimable", "middleNode, reclaimMark"),
  ("Store.walk", "rootAddRef", ""),
  ("Store.walk", "rootDecRef", "rnl")
    ] := by decide +kernel

theorem protocol_fields_written_only_by_the_protocol :
    Gen.Sites.protoAssigns = [
  ("Collection.Delete", "rnlNew.reclaimLater[0] =", "t.reclaimMarkUpdate(left, &rnl.reclaimMark, &rnlNew.reclaimMark)"),
  ("Collection.Delete", "rnlNew.reclaimLater[1] =", "t.reclaimMarkUpdate(right, &rnl.reclaimMark, &rnlNew.reclaimMark)"),
  ("Collection.Delete", "rnlNew.reclaimLater[2] =", "t.reclaimMarkUpdate(middle, &rnl.reclaimMark, &rnlNew.reclaimMark)"),
  ("Collection.SetItem", "rnlNew.reclaimLater[0] =", "t.reclaimMarkUpdate(nloc, &rnl.reclaimMark, &rnlNew.reclaimMark)"),
  ("Collection.freeNodeLoc", "nloc.next =", "freeNodeLocs"),
  ("Collection.freeNodeUnlocked", "n.next =", "freeNodes"),
  ("Collection.freeRootNodeLoc", "rnl.refs =", "0"),
  ("Collection.freeRootNodeLoc", "rnl.chainedCollection =", "nil"),
  ("Collection.freeRootNodeLoc", "rnl.chainedRootNodeLoc =", "nil"),
  ("Collection.freeRootNodeLoc", "rnl.next =", "freeRootNodeLocs"),
  ("Collection.markAllUnlocked", "n.next =", "reclaimMark"),
  ("Collection.markReclaimable", "n.next =", "reclaimMark"),
  ("Collection.mkNode", "n.next =", "nil"),
  ("Collection.mkNodeLoc", "nloc.next =", "nil"),
  ("Collection.mkRootNodeLoc", "rnl.refs =", "1"),
  ("Collection.mkRootNodeLoc", "rnl.next =", "nil"),
  ("Collection.mkRootNodeLoc", "rnl.chainedCollection =", "nil"),
  ("Collection.mkRootNodeLoc", "rnl.chainedRootNodeLoc =", "nil"),
  ("Collection.mkRootNodeLoc", "rnl.superseded =", "false"),
  ("Collection.mkRootNodeLoc", "rnl.reclaimLater[i] =", "nil"),
  ("Collection.reclaimMarkClear", "n.next =", "nil"),
  ("Collection.reclaimMarkUpdate", "n.next =", "newReclaimMark"),
  ("Collection.rootAddRef", "t.root.refs ++", ""),
  ("Collection.rootAddRefIfOpen", "t.root.refs ++", ""),
  ("Collection.rootCAS", "prev.superseded =", "true"),
  ("Collection.rootCAS", "prev.chainedCollection =", "t"),
  ("Collection.rootCAS", "prev.chainedRootNodeLoc =", "t.root"),
  ("Collection.rootCAS", "t.root.refs ++", ""),
  ("Collection.rootDecRefUnlocked", "r.refs --", ""),
  ("Collection.rootDecRefUnlocked", "r.reclaimLater[i] =", "nil"),
  ("newIterator", "it.next =", "make(*ast.ChanType)")
    ] := by decide +kernel

end Gkv.Props.C10
