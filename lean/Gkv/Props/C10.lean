/-
C10 — internal node recycling is invisible to every open handle.

Layer 1 (here): the abstract version / mark / reclaim protocol (`Gkv/Model/Versions.lean`).  For
EVERY sequence of events — any number of handles and reader pins acquired and released in any
order, lazy loads, mutations, and every choice of which marked nodes a dying version actually
frees — no node of a live version is ever on the free list.
Layer 2: the correspondence harness evaluates the same invariant clauses on the real heap after
every step (no reachable node freed or zeroed, marks only of live versions, current tree
unmarked, reference counts ≥ 1), see bin/check C10.
-/
import Gkv.Model.Versions
open Std

namespace Gkv.Props.C10
open Gkv.Versions

/-- Safety for every reachable state of the protocol -/
theorem recycling_safe (F : Nat → Nat → Prop) (s : St) (hr : Reach F s) :
    ∀ w n, s.refs w > 0 → s.tree w n → ¬ s.freed n := safe_reachable F s hr

/-- the full invariant (reference accounting, chains, mark discipline, unmarked current tree) -/
theorem invariant (F : Nat → Nat → Prop) (s : St) (hr : Reach F s) : HInv s := reach_inv F s hr

/-- live versions are upward closed: a version outlives every older live version -/
theorem live_upward_closed (F : Nat → Nat → Prop) (s : St) (hr : Reach F s) (u d : Nat)
    (h : s.refs u > 0) (hle : u + d ≤ s.N) : s.refs (u + d) > 0 :=
  live_up (reach_inv F s hr) d u h hle

end Gkv.Props.C10
