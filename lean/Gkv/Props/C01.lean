/-
C01 — each collection behaves exactly like a sorted map.

Property theorems only (helper lemmas are in Gkv/Proofs).  `ops` ranges over ALL finite operation
sequences; `cmp` over all comparators that are a total preorder (`Std.TransCmp`; it need not be
lawful: distinct keys may compare equal, as with the case-folding comparator).
-/
import Gkv.Proofs.TreapSet
import Gkv.Proofs.TreapDel
import Gkv.Proofs.FlushFrame
import Gkv.Proofs.WorldMachine
import Gkv.Proofs.Cache
open Std

namespace Gkv.Props.C01
open Gkv Gkv.Tree

variable (cmp : Bytes → Bytes → Ordering) [TransCmp cmp]

/-- a mutation of one collection, after argument validation -/
inductive Mut
  | set (i : Item)
  | del (k : Bytes)

def applyTree (t : Tree) : Mut → Tree
  | .set i => setItem cmp t i
  | .del k => (delete cmp t k).1

def applySpec (l : List Item) : Mut → List Item
  | .set i => Spec.insert cmp l i
  | .del k => Spec.erase cmp l k

/-- the tree invariants hold after every history -/
theorem invariants (ops : List Mut) :
    BST cmp (ops.foldl (applyTree cmp) .nil) ∧ AggOK (ops.foldl (applyTree cmp) .nil) := by
  suffices h : ∀ t, BST cmp t → AggOK t →
      BST cmp (ops.foldl (applyTree cmp) t) ∧ AggOK (ops.foldl (applyTree cmp) t) from
    h .nil trivial trivial
  induction ops with
  | nil => intro t hb ha; exact ⟨hb, ha⟩
  | cons op ops ih =>
    intro t hb ha
    cases op with
    | set i => exact ih _ (setItem_bst cmp hb i) (setItem_agg cmp ha i)
    | del k => exact ih _ (delete_bst cmp hb k) (delete_agg cmp ha k)

/-- **refinement**: after any history of Set/Delete the collection holds exactly what the sorted
    map holds after the same history -/
theorem refines_sorted_map (ops : List Mut) :
    (ops.foldl (applyTree cmp) .nil).toList = ops.foldl (applySpec cmp) [] := by
  suffices h : ∀ t, BST cmp t →
      (ops.foldl (applyTree cmp) t).toList = ops.foldl (applySpec cmp) t.toList from h .nil trivial
  induction ops with
  | nil => intro t _; rfl
  | cons op ops ih =>
    intro t hb
    cases op with
    | set i =>
      simp only [List.foldl_cons, applyTree, applySpec]
      rw [ih _ (setItem_bst cmp hb i), setItem_toList cmp hb i]
    | del k =>
      simp only [List.foldl_cons, applyTree, applySpec]
      rw [ih _ (delete_bst cmp hb k), delete_toList cmp hb k]

/-- every read returns what the sorted map returns: lookup, Delete's result, Min, Max, totals -/
theorem reads_agree (ops : List Mut) (k : Bytes) :
    let t := ops.foldl (applyTree cmp) .nil
    let m := ops.foldl (applySpec cmp) []
    get cmp t k = Spec.lookup cmp m k ∧
    (delete cmp t k).2 = (Spec.lookup cmp m k).isSome ∧
    t.min = m.head? ∧ t.max = m.getLast? ∧ t.totals = Spec.totals m := by
  intro t m
  have hi := invariants cmp ops
  have hm : t.toList = m := refines_sorted_map cmp ops
  refine ⟨?_, ?_, ?_, ?_, ?_⟩
  · rw [← hm]; exact get_eq_lookup cmp hi.1 k
  · rw [← hm]; exact delete_wasDeleted cmp hi.1 k
  · rw [← hm]; exact min_eq_head t
  · rw [← hm]; exact max_eq_getLast t
  · rw [← hm]; exact totals_eq hi.2

/-- the sorted map stays strictly sorted (so "Min/Max are the extreme keys" is meaningful) -/
theorem map_sorted (ops : List Mut) : Spec.Sorted cmp (ops.foldl (applySpec cmp) []) := by
  rw [← refines_sorted_map cmp ops]
  exact toList_sorted cmp (invariants cmp ops).1

/-- argument validation: exactly the documented rejections -/
theorem validItem_iff (key : Bytes) (val : Option Bytes) (prio : Int) :
    validItem key val prio = true ↔
      key.length ≠ 0 ∧ key.length ≤ 65535 ∧ val.isSome = true ∧ 0 ≤ prio := by
  simp [validItem, and_assoc]

/-- Flush (failed or not) and therefore eviction/re-open placement cannot change what a collection
    holds: it only records file locations -/
theorem flush_invisible (cs : List Coll) (s : FileSt) :
    (flushStore cs s).1.map (fun c => (c.name, c.cmp, c.root.eraseLocs)) =
      cs.map (fun c => (c.name, c.cmp, c.root.eraseLocs)) := flushStore_eraseLocs cs s

/-! ### the theorem is about the function the tests run -/

/-- The executable history interpreter `World.stepTokens` (the very function `gkvdrive` folds over
    the operation lines of every correspondence run), started on a fresh file and fed the lines of
    ANY admissible history of collection operations, Set/Delete, Flush and re-open, shows exactly
    the sorted-map specification's contents (`Proofs/WorldMachine.lean` proves the interpreter
    simulates the machine of `Machine.refinement` step by step). -/
theorem driver_refines_sorted_maps (s f : Nat) (ops : List Gkv.Machine.SOp)
    (hok : Gkv.Machine.HistOK cmpOfName ops) (hvalid : ∀ op ∈ ops, Gkv.ValidOp op) :
    (Gkv.machineOf (ops.foldl (fun w op => (stepTokens w (Gkv.renderOp s f op)).1)
        (stepTokens { files := [], stores := [] } ["open", toString s, toString f]).1) s f).map
        Gkv.Machine.absS
      = some (Gkv.Machine.specRun cmpOfName ops).cur :=
  Gkv.world_refines_spec_reset s f ops hok hvalid

/-! ### "interleaved arbitrarily with … EvictSomeItems": the cache is invisible (Model L) -/

open Gkv.Cache in
/-- Between two mutations a collection is one abstract tree `T` (Model A) seen through a cache
    (`Model/Cache.lean`: which nodes and items are in memory, with or without their values).  Any
    history of `GetItem`, `MinItem`, `MaxItem` (with or without values) and `EvictSomeItems` (with
    any random choices), from ANY cached view of `T`: every call succeeds, answers exactly what
    Model A's `get`/`min`/`max` answer on `T` (a value is shown whenever asked for, and never a
    wrong one), and leaves a view of the same `T`. -/
theorem cache_invisible (f : Bytes) (bound : Nat) (cmp : Bytes → Bytes → Ordering) (fuel : Nat)
    (T : Tree) (hc : T.Coherent f bound) (hf : T.height < fuel) (ops : List COp) (c : CTree)
    (hr : Rep c T) :
    ∃ outs c' rds, runC f cmp fuel ops c = some (outs, c', rds) ∧ Rep c' T ∧ AgreeAll cmp T outs ops := by
  obtain ⟨outs, c', rds, e, h1, h2, _⟩ := runC_spec f bound cmp fuel T hc hf ops c hr
  exact ⟨outs, c', rds, e, h1, h2⟩

open Gkv.Cache in
/-- the two views a store really starts from satisfy the hypothesis: after a mutation everything
    the mutator built is cached (`ofTree`); after `NewStore` nothing is (`cold`) -/
theorem views_exist (T : Tree) : Rep (ofTree T) T ∧ (T.Persisted → Rep (cold T) T) :=
  ⟨rep_ofTree T, rep_cold T⟩

open Gkv.Cache in
/-- The hypothesis of `cache_invisible` holds in every reachable state: after ANY admissible history
    of collection operations, Set/Delete, Flush and re-open (`Machine.invariant`), every collection's
    tree is coherent with the file as it is then, so lookups, Min/Max and evictions through any
    cached view of it — with the fuel the driver uses — answer as the abstract tree does. -/
theorem cache_invisible_reachable (cmpOf : Bytes → CmpKind) (hist : List Gkv.Machine.SOp)
    (hok : Gkv.Machine.HistOK cmpOf hist) (c : Coll) (hc : c ∈ (Gkv.Machine.srun cmpOf hist).colls)
    (ops : List COp) (view : CTree) (hr : Rep view c.root) :
    ∃ outs view' rds,
      runC (Gkv.Machine.srun cmpOf hist).file c.cmp.fn (c.root.size + 2) ops view = some (outs, view', rds) ∧
      Rep view' c.root ∧ AgreeAll c.cmp.fn c.root outs ops := by
  have inv := Gkv.Machine.invariant cmpOf hist hok
  have hf : c.root.height < c.root.size + 2 := by
    have := Tree.height_le_size c.root
    omega
  exact cache_invisible _ _ c.cmp.fn _ c.root (inv.coherent c hc) hf ops view hr

open Gkv.Cache in
/-- … and with range visits — to the end or stopped by the visitor at any item, either direction,
    with or without values, each evicting what it leaves — anywhere among the lookups and
    evictions: still every call answers as Model A does on the one abstract tree (`AgreeAll2`: a
    visit is handed Model A's sequence, or its first `stop` items), and the view stays a view. -/
theorem cache_invisible_with_visits (f : Bytes) (bound : Nat) (cmp : Bytes → Bytes → Ordering)
    (fuel : Nat) (T : Tree) (hc : T.Coherent f bound) (hf : T.height < fuel) (ops : List COp2)
    (c : CTree) (hr : Rep c T) :
    ∃ outs c' rds, runC2 f cmp fuel ops c = some (outs, c', rds) ∧ Rep c' T ∧ AgreeAll2 cmp T outs ops :=
  runC2_spec f bound cmp fuel T hc hf ops c hr

-- non-vacuity: a concrete history with an overwrite and a delete
example : (([Mut.set ⟨[1], [10], 5⟩, .set ⟨[2], [20], 9⟩, .set ⟨[1], [11], 1⟩, .del [2]] : List Mut).foldl
    (applySpec cmpBytes) []) = [⟨[1], [11], 1⟩] := by decide

end Gkv.Props.C01
