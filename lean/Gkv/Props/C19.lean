/-
C19 — lazy loading: opening is O(1) and key-only operations never read values.

`Gkv/Model/Lazy.lean` models the file READS of NewStore (the backward scan, position by position,
exactly as store.go performs them) and of item / node loading.  The implementation's read log is
checked against the same facts on every run: `openreads` (exact list) and `readsok` (no read of a
key-only call overlaps the value bytes of ANY item record ever flushed).
-/
import Gkv.Proofs.Lazy
import Gkv.Proofs.FlushTiles
open Std

namespace Gkv.Props.C19
open Gkv Gkv.Lazy

/-- opening a file that ends in a root record reads exactly: Stat, the 24-byte tail, the rest of
    that record — three calls, whatever else the file holds -/
theorem open_reads_root_only (f : Bytes) (roots : List (Bytes × Option Ploc))
    (h : rootAt f f.length = some roots) :
    openReads f =
      [Rd.stat, Rd.read (f.length - 24) 24,
       Rd.read (unbe ((f.drop (f.length - 24)).take 8))
         (f.length - unbe ((f.drop (f.length - 24)).take 8) - 24)] :=
  Gkv.Lazy.open_reads_root_only f roots h

/-- … and the number of bytes read is the length of that root record: the cost of opening does
    not depend on how much data the file holds -/
theorem open_cost_is_root_record (f : Bytes) (roots : List (Bytes × Option Ploc))
    (h : rootAt f f.length = some roots) :
    (openReads f).length = 3 ∧
    ((openReads f).map (fun r => match r with | .stat => 0 | .read _ len => len)).sum =
      f.length - unbe ((f.drop (f.length - 24)).take 8) :=
  ⟨open_reads_count f roots h, open_reads_bytes f roots h⟩

/-- a key-only item load (header + key) never touches the item's value bytes -/
theorem keyonly_reads_no_value (loc : Ploc) (kl vl : Nat) :
    ∀ r ∈ itemReads loc kl vl false, ¬ r.touches (valueRange loc kl vl) :=
  Gkv.Lazy.keyonly_reads_no_value loc kl vl

/-- in ANY cache state a key-only traversal (node loads + key-only item loads along a path) touches
    no byte range that lies outside the node records and the header+key ranges it visits — in
    particular no value range of any record, since records of a file never overlap
    (`records_never_overlap`) -/
theorem keyonly_traversal_reads (p : List Visit) (rng : Nat × Nat)
    (hn : ∀ v ∈ p, rng.1 + rng.2 ≤ v.nodeLoc.off ∨ v.nodeLoc.off + nodeRecLen ≤ rng.1)
    (hi : ∀ v ∈ p, rng.1 + rng.2 ≤ v.itemLoc.off ∨ v.itemLoc.off + itemHdrLen + v.kl ≤ rng.1) :
    ∀ r ∈ pathReads p, ¬ r.touches rng := pathReads_disjoint p rng hn hi

/-- the writes of one Flush tile the file consecutively, so distinct records never overlap -/
theorem records_never_overlap (cs : List Coll) (s : FileSt) (hf : s.failed = false)
    (hp : s.failAt = none) (l1 l2 l3 : List FileEv) (o1 n1 o2 n2 : Nat)
    (h : (flushStore cs s).2.log = s.log ++ (l1 ++ .write o1 n1 :: l2 ++ .write o2 n2 :: l3)) :
    s.size ≤ o1 ∧ o1 + n1 ≤ o2 ∧ o2 + n2 ≤ (flushStore cs s).2.size :=
  flush_writes_disjoint cs s hf hp l1 l2 l3 o1 n1 o2 n2 h

/-- the model can tell a value-fetching implementation from a lazy one: with the value requested
    the value range IS read -/
theorem withvalue_reads_value (loc : Ploc) (kl vl : Nat) (hv : 0 < vl) :
    ∃ r ∈ itemReads loc kl vl true, r.touches (valueRange loc kl vl) :=
  withvalue_touches_value loc kl vl hv

end Gkv.Props.C19
