/-
C19 — lazy loading: opening is O(1) and key-only operations never read values.

`Gkv/Model/Lazy.lean` models the file READS of NewStore (the backward scan, position by position,
exactly as store.go performs them) and of item / node loading.  The implementation's read log is
checked against the same facts on every run: `openreads` (exact list) and `readsok` (no read of a
key-only call overlaps the value bytes of ANY item record ever flushed).
-/
import Gkv.Proofs.Lazy
import Gkv.Proofs.FlushTiles
import Gkv.Proofs.Cache
open Std

namespace Gkv.Props.C19
open Gkv Gkv.Lazy

/-- opening a file that ends in a root record reads exactly: Stat, the 24-byte tail, the rest of
    that record — three calls, whatever else the file holds -/
theorem open_reads_root_only (f : Bytes) (roots : List (Bytes × Option Ploc))
    (h : rootAt f f.length = some roots) :
    openReads f =
      [Rd.stat, Rd.read (f.length - 24) 24,
       Rd.read (unbe ((f.drop (f.length - 24)).take 8))
         (f.length - unbe ((f.drop (f.length - 24)).take 8) - 24)] :=
  Gkv.Lazy.open_reads_root_only f roots h

/-- … and the number of bytes read is the length of that root record: the cost of opening does
    not depend on how much data the file holds -/
theorem open_cost_is_root_record (f : Bytes) (roots : List (Bytes × Option Ploc))
    (h : rootAt f f.length = some roots) :
    (openReads f).length = 3 ∧
    ((openReads f).map (fun r => match r with | .stat => 0 | .read _ len => len)).sum =
      f.length - unbe ((f.drop (f.length - 24)).take 8) :=
  ⟨open_reads_count f roots h, open_reads_bytes f roots h⟩

/-- a key-only item load (header + key) never touches the item's value bytes -/
theorem keyonly_reads_no_value (loc : Ploc) (kl vl : Nat) :
    ∀ r ∈ itemReads loc kl vl false, ¬ r.touches (valueRange loc kl vl) :=
  Gkv.Lazy.keyonly_reads_no_value loc kl vl

/-- in ANY cache state a key-only traversal (node loads + key-only item loads along a path) touches
    no byte range that lies outside the node records and the header+key ranges it visits — in
    particular no value range of any record, since records of a file never overlap
    (`records_never_overlap`) -/
theorem keyonly_traversal_reads (p : List Visit) (rng : Nat × Nat)
    (hn : ∀ v ∈ p, rng.1 + rng.2 ≤ v.nodeLoc.off ∨ v.nodeLoc.off + nodeRecLen ≤ rng.1)
    (hi : ∀ v ∈ p, rng.1 + rng.2 ≤ v.itemLoc.off ∨ v.itemLoc.off + itemHdrLen + v.kl ≤ rng.1) :
    ∀ r ∈ pathReads p, ¬ r.touches rng := pathReads_disjoint p rng hn hi

/-- the writes of one Flush tile the file consecutively, so distinct records never overlap -/
theorem records_never_overlap (cs : List Coll) (s : FileSt) (hf : s.failed = false)
    (hp : s.failAt = none) (l1 l2 l3 : List FileEv) (o1 n1 o2 n2 : Nat)
    (h : (flushStore cs s).2.log = s.log ++ (l1 ++ .write o1 n1 :: l2 ++ .write o2 n2 :: l3)) :
    s.size ≤ o1 ∧ o1 + n1 ≤ o2 ∧ o2 + n2 ≤ (flushStore cs s).2.size :=
  flush_writes_disjoint cs s hf hp l1 l2 l3 o1 n1 o2 n2 h

/-- the model can tell a value-fetching implementation from a lazy one: with the value requested
    the value range IS read -/
theorem withvalue_reads_value (loc : Ploc) (kl vl : Nat) (hv : 0 < vl) :
    ∃ r ∈ itemReads loc kl vl true, r.touches (valueRange loc kl vl) :=
  withvalue_touches_value loc kl vl hv

/-! ### the same for the traversal itself (Model L, `Model/Cache.lean`)

`keyonly_traversal_reads` above speaks about an abstract list of visited nodes.  Model L is the
lazily loaded tree with `nodeLoc.read`, `itemLoc.read`, `node.Evict`, `GetItem`, `walk`
(`MinItem`/`MaxItem`) and `evictSomeItems` as the Go code performs them, reads included; the
correspondence compares its read lists and cache transitions with the implementation's
(`cget`/`cmin`/`cmax`/`cevict` lines). -/

open Gkv.Cache in
/-- Any history of `GetItem`/`MinItem`/`MaxItem` with `withValue = false` and evictions, started in
    ANY cache state of a collection whose tree is coherent with the file, reads no byte of a range
    that overlaps neither a node record nor the header+key part of an item record of that tree —
    so no byte of any item's value, since records do not overlap (`records_never_overlap`). -/
theorem keyonly_history_reads_no_value (f : Bytes) (bound : Nat) (cmp : Bytes → Bytes → Ordering)
    (fuel : Nat) (T : Tree) (hc : T.Coherent f bound) (hf : T.height < fuel)
    (ops : List COp) (hk : ∀ op ∈ ops, op.wv = false) (c : CTree) (hr : Rep c T)
    (rng : Nat × Nat) (hd : KeyDisjoint rng T) :
    ∃ outs c' rds, runC f cmp fuel ops c = some (outs, c', rds) ∧
      ∀ rd ∈ rds, ¬ rd.touches rng := by
  obtain ⟨outs, c', rds, e, _, _, _, h⟩ := runC_spec f bound cmp fuel T hc hf ops c hr
  exact ⟨outs, c', rds, e, fun rd hrd => allowed_false_no_touch (h hk rd hrd) rng hd⟩

open Gkv.Cache in
/-- … and a whole range visit with `withValue = false`, in either direction, from any cached view -/
theorem keyonly_visit_reads_no_value (f : Bytes) (bound : Nat) (cmp : Bytes → Bytes → Ordering)
    (asc : Bool) (tgt : Bytes) (fuel : Nat) (c : CTree) (T : Tree) (d : Nat)
    (hc : T.Coherent f bound) (hr : Rep c T) (hf : T.height < fuel)
    (rng : Nat × Nat) (hd : KeyDisjoint rng T) :
    ∃ out c' rds, visitC f cmp asc false fuel c tgt d = some (out, c', rds) ∧
      ∀ rd ∈ rds, ¬ rd.touches rng := by
  obtain ⟨out, c', rds, e, _, _, h⟩ := visitC_spec f bound cmp asc false tgt fuel c T d hc hr hf
  exact ⟨out, c', rds, e, fun rd hrd => allowed_false_no_touch (h rd hrd) rng hd⟩

open Gkv.Cache in
/-- … also when the visitor stops it at its `b`-th item (the deferred evictions and the early
    returns read nothing else) -/
theorem keyonly_stopped_visit_reads_no_value (f : Bytes) (bound : Nat) (cmp : Bytes → Bytes → Ordering)
    (asc : Bool) (tgt : Bytes) (fuel : Nat) (c : CTree) (T : Tree) (d b : Nat)
    (hc : T.Coherent f bound) (hr : Rep c T) (hf : T.height < fuel) (hb : 0 < b)
    (rng : Nat × Nat) (hd : KeyDisjoint rng T) :
    ∃ out b' c' rds, visitCK f cmp asc false fuel c tgt d b = some (out, b', c', rds) ∧
      ∀ rd ∈ rds, ¬ rd.touches rng := by
  obtain ⟨out, b', c', rds, e, _, _, _, h⟩ :=
    visitCK_spec f bound cmp asc false tgt fuel c T d b hc hr hf hb
  exact ⟨out, b', c', rds, e, fun rd hrd => allowed_false_no_touch (h rd hrd) rng hd⟩

open Gkv.Cache in
/-- all of it in one statement: ANY history of key-only lookups, Min/Max, evictions and key-only
    range visits (run to the end or stopped anywhere), in any order, from any cached view, reads no
    byte outside node records and header+key ranges of the tree -/
theorem keyonly_mixed_history_reads_no_value (f : Bytes) (bound : Nat) (cmp : Bytes → Bytes → Ordering)
    (fuel : Nat) (T : Tree) (hc : T.Coherent f bound) (hf : T.height < fuel)
    (ops : List COp2) (hk : ∀ op ∈ ops, op.wv = false) (c : CTree) (hr : Rep c T)
    (rng : Nat × Nat) (hd : KeyDisjoint rng T) :
    ∃ outs c' rds, runC2 f cmp fuel ops c = some (outs, c', rds) ∧
      ∀ rd ∈ rds, ¬ rd.touches rng := by
  obtain ⟨outs, c', rds, e, _, h⟩ := runC2_keyonly_reads f bound cmp fuel T hc hf ops c hr hk
  exact ⟨outs, c', rds, e, fun rd hrd => allowed_false_no_touch (h rd hrd) rng hd⟩

open Gkv.Cache in
/-- non-vacuity / discrimination: on a one-item file the cold key-only lookup reads the node record,
    the header and the key — and the lookup with the value also reads the value bytes -/
example :
    let it : Item := ⟨[7], [9, 9], 3⟩
    let f : Bytes := encItem it ++ encNode ⟨some ⟨0, 19⟩, none, none, 1, 3⟩
    (getC f cmpBytes false 5 (.stub ⟨19, 52⟩) [7]).map (fun x => (x.1, x.2.2)) =
        some (some ⟨[7], 3, none⟩, [Rd.read 19 52, Rd.read 0 16, Rd.read 16 1]) ∧
    (getC f cmpBytes true 5 (.stub ⟨19, 52⟩) [7]).map (fun x => (x.1, x.2.2)) =
        some (some ⟨[7], 3, some [9, 9]⟩,
          [Rd.read 19 52, Rd.read 0 16, Rd.read 16 1, Rd.read 0 16, Rd.read 16 1, Rd.read 17 2]) := by
  decide

end Gkv.Props.C19
