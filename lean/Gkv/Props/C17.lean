/-
C17 — behaviourally neutral store callbacks do not change any result.

In the model a neutral callback IS the identity (same length, same bytes, same item, same
comparator), so every other theorem holds verbatim with callbacks installed; what is not the
identity is the *chunking* of value I/O by ItemValWrite / ItemValRead callbacks, and that is what
is proved here: chunked writes leave the same bytes, chunked reads return the same bytes.  The
correspondence stream runs every other property's observables under random subsets (thorough: all
2^8) of installed callbacks against the callback-free model.
-/
import Gkv.Proofs.GlueD
open Std

namespace Gkv.Props.C17
open Gkv

/-- a value written in chunks of any size ≥ 1 leaves exactly the bytes of a single write -/
theorem chunked_write_same_bytes (f : Bytes) (off : Nat) (b : Bytes) (c : Nat) (hc : 1 ≤ c)
    (hoff : off ≤ f.length) : writeChunks f off b c (b.length + 1) = writeAt f off b :=
  writeChunks_eq f off b c hc hoff

/-- a value read in chunks of any size ≥ 1 is the value a single read returns -/
theorem chunked_read_same_bytes (f : Bytes) (off len c : Nat) (hc : 1 ≤ c) (b : Bytes)
    (h : readAt f off len = some b) : readChunks f off len c (len + 1) = some b :=
  readChunks_eq f off len c hc b h

/-- chunked write followed by chunked read (any two chunk sizes) returns the value -/
theorem chunked_roundtrip (f : Bytes) (b : Bytes) (c c' : Nat) (hc : 1 ≤ c) (hc' : 1 ≤ c') :
    readChunks (writeChunks f f.length b c (b.length + 1)) f.length b.length c' (b.length + 1) = some b :=
  readChunks_writeChunks f b c c' hc hc'

end Gkv.Props.C17
