/-
C17 — behaviourally neutral store callbacks do not change any result.

In the model a neutral callback IS the identity (same length, same bytes, same item, same
comparator), so every other theorem holds verbatim with callbacks installed; what is not the
identity is the *chunking* of value I/O by ItemValWrite / ItemValRead callbacks, and that is what
is proved here: chunked writes leave the same bytes, chunked reads return the same bytes.  The
correspondence stream runs every other property's observables under random subsets (thorough: all
2^8) of installed callbacks against the callback-free model.

"Whether each code path consults the callback consistently" (the property's own reason why tests
cannot settle it) is decided on tables the translator regenerates from /repo on every run
(`Gen/Callbacks.lean`): each callback field is consulted in exactly one function — its dispatch
wrapper — so no path can consult it differently from another; the value's length and bytes are
taken from `Item.Val` only in the default arms of those wrappers; every store derived from another
(snapshot, CopyTo destination) is given the whole callback struct.
-/
import Gkv.Proofs.GlueD
import Gkv.Gen.Callbacks
open Std

namespace Gkv.Props.C17
open Gkv

/-- a value written in chunks of any size ≥ 1 leaves exactly the bytes of a single write -/
theorem chunked_write_same_bytes (f : Bytes) (off : Nat) (b : Bytes) (c : Nat) (hc : 1 ≤ c)
    (hoff : off ≤ f.length) : writeChunks f off b c (b.length + 1) = writeAt f off b :=
  writeChunks_eq f off b c hc hoff

/-- a value read in chunks of any size ≥ 1 is the value a single read returns -/
theorem chunked_read_same_bytes (f : Bytes) (off len c : Nat) (hc : 1 ≤ c) (b : Bytes)
    (h : readAt f off len = some b) : readChunks f off len c (len + 1) = some b :=
  readChunks_eq f off len c hc b h

/-- chunked write followed by chunked read (any two chunk sizes) returns the value -/
theorem chunked_roundtrip (f : Bytes) (b : Bytes) (c c' : Nat) (hc : 1 ≤ c) (hc' : 1 ≤ c') :
    readChunks (writeChunks f f.length b c (b.length + 1)) f.length b.length c' (b.length + 1) = some b :=
  readChunks_writeChunks f b c c' hc hc'

/-- every `StoreCallbacks` field is consulted in exactly one function (a nil test and a call each):
    its dispatch wrapper.  A second place that consults a callback — or that bypasses the wrapper's
    nil test — changes this table. -/
theorem each_callback_has_one_dispatch_site :
    Gen.Callbacks.fieldUses.eraseDups =
      [("Item.NumValBytes", "ItemValLength"),
       ("Store.ItemAddRef", "ItemAddRef"),
       ("Store.ItemAlloc", "ItemAlloc"),
       ("Store.ItemDecRef", "ItemDecRef"),
       ("Store.ItemValRead", "ItemValRead"),
       ("Store.ItemValWrite", "ItemValWrite"),
       ("Store.validateAndSetCollections", "KeyCompareForCollection"),
       ("itemLoc.read", "AfterItemRead"),
       ("itemLoc.write", "BeforeItemWrite")] ∧
    ∀ f ∈ Gen.Callbacks.fieldUses.map (·.2), (Gen.Callbacks.fieldUses.map (·.2)).count f = 2 := by decide

/-- the value's length is computed from `Item.Val` in one place (the default arm of
    `Item.NumValBytes`, behind the `ItemValLength` test) and its bytes go to / come from the file in
    one place each (the default arms of `Store.ItemValWrite` / `Store.ItemValRead`); the remaining
    uses neither measure nor transfer the value (nil tests, `Get`'s result, `Item.Copy`).  A
    `len(item.Val)` on a write, aggregate or reload path refutes this. -/
theorem value_is_measured_and_moved_only_in_the_wrappers :
    Gen.Callbacks.valUses.filter (fun u => u.2 == "len" || u.2 == "io" || u.2 == "store" || u.2 == "use") =
      [("Item.NumValBytes", "len"),
       ("Store.ItemValRead", "io"),
       ("Store.ItemValRead", "store"),
       ("Store.ItemValWrite", "io")] ∧
    Gen.Callbacks.valUses.filter (fun u => !(u.2 == "len" || u.2 == "io" || u.2 == "store" || u.2 == "use")) =
      [("Collection.Get", "return"),
       ("Collection.SetItem", "nilcmp"),
       ("Item.Copy", "copy"),
       ("itemLoc.read", "nilcmp")] := by decide

/-- a store made from another store — a snapshot, a CopyTo destination — receives the other's whole
    callback struct (CopyTo did not before the F12 repair), and the struct is used as a whole nowhere
    else -/
theorem derived_stores_inherit_all_callbacks :
    Gen.Callbacks.structUses =
      [("NewStoreEx", "callbacks"), ("Store.CopyTo", "s.callbacks"), ("Store.Snapshot", "s.callbacks")] := by decide

end Gkv.Props.C17
