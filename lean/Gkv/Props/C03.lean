/-
C03 — a crash at any point leaves the last completed Flush recoverable, atomically.

`rootAt f e = some roots` is the decidable statement "a complete, self-consistent root record ends
at offset e of f" (both end magics, offset and length fields consistent, both begin magics,
version 4, inner length equal, JSON decodes); it inspects only bytes below e (`rootAt_congr`).
-/
import Gkv.Proofs.Scan
import Gkv.Proofs.FlushFrame
import Gkv.Proofs.CrashOpen
open Std

namespace Gkv.Props.C03
open Gkv

/-- the file after a crash: any image `g` that keeps the bytes below the last durable end `E` —
    which every prefix of Flush's writes does, byte-granular truncation of the write in flight
    included, because all of them start at or beyond `E` (`crash_images_keep_prefix`) -/
theorem crash_atomic (f g : Bytes) (E : Nat) (roots : List (Bytes × Option Ploc))
    (hE : rootAt f E = some roots)                         -- the last completed Flush ended at E
    (hgE : E ≤ g.length) (hpre : g.take E = f.take E)      -- bytes below E survived
    (hjunk : ∀ e', E < e' → e' ≤ g.length → rootAt g e' = none)  -- junk above E is no complete root record
    (fid : Nat) (cmpOf : Bytes → CmpKind) :
    (∃ cs, loadColls g cmpOf roots = some cs ∧ openStore fid g cmpOf = .ok ⟨some fid, E, cs, false⟩) ∨
    (loadColls g cmpOf roots = none ∧ openStore fid g cmpOf = .corrupt) := by
  have h := openStore_crash_atomic f g E roots hE hgE hpre hjunk fid cmpOf
  cases hl : loadColls g cmpOf roots with
  | none => right; exact ⟨rfl, by rw [h, hl]⟩
  | some cs => left; exact ⟨cs, rfl, by rw [h, hl]⟩

/-- the scan itself: it opens exactly at `E`, with exactly the roots of the last completed Flush —
    never a mixture, never a partially written root -/
theorem scan_opens_at_last_flush (f g : Bytes) (E : Nat) (roots : List (Bytes × Option Ploc))
    (hE : rootAt f E = some roots) (hgE : E ≤ g.length) (hpre : g.take E = f.take E)
    (hjunk : ∀ e', E < e' → e' ≤ g.length → rootAt g e' = none) :
    scanRoots g false g.length = .found E roots :=
  scan_crash_atomic f g E roots hE hgE hpre hjunk false

/-- no Flush ever completed: the documented "no roots" error -/
theorem no_flush_completed (g : Bytes) (hne : g.length ≠ 0)
    (h : ∀ e', e' ≤ g.length → rootAt g e' = none) (fid : Nat) (cmpOf : Bytes → CmpKind) :
    openStore fid g cmpOf = .noRoots := openStore_no_roots g hne h fid cmpOf

/-- every crash image of a Flush (all its writes up to any point, the last one torn after any
    number of bytes, with or without an injected fault) keeps the bytes below the durable end:
    Flush only writes at or beyond `size` -/
theorem crash_images_keep_prefix (cs : List Coll) (s : FileSt) (hsz : s.size ≤ s.bytes.length) :
    (flushStore cs s).2.bytes.take s.size = s.bytes.take s.size := flushStore_prefix cs s hsz

/-- a single (possibly torn) write at or beyond E keeps the prefix -/
theorem torn_write_keeps_prefix (f b : Bytes) (off E c : Nat) (h : E ≤ off) (hf : off ≤ f.length) :
    (writeAt f off (b.take c)).take E = f.take E := take_writeAt f (b.take c) off E h hf

/-- full strength: ANY surviving image that keeps the bytes of the last completed Flush and has no
    complete root record above it re-opens to EXACTLY the collections of that Flush (names,
    comparators, items, aggregates — for all collections together), whatever the names are -/
theorem crash_recovers_last_completed_flush (fid : Nat) (cmpOf : Bytes → CmpKind) (cs : List Coll) (s : FileSt)
    (hf : s.failed = false) (hp : s.failAt = none) (hsz : s.size = s.bytes.length)
    (hc : ∀ c ∈ cs, c.root.Coherent s.bytes s.size) (hok : ∀ c ∈ cs, c.root.SizesOK)
    (hnames : cs.Pairwise (fun a b => compare a.name b.name = .lt))
    (hcmp : ∀ c ∈ cs, cmpOf c.name = c.cmp)
    (hlim : (flushStore cs s).2.size < 2^32)
    (g : Bytes) (hge : (flushStore cs s).2.size ≤ g.length)
    (hpre : g.take (flushStore cs s).2.size = (flushStore cs s).2.bytes)
    (hjunk : ∀ e', (flushStore cs s).2.size < e' → e' ≤ g.length → rootAt g e' = none) :
    openStore fid g cmpOf = .ok ⟨some fid, (flushStore cs s).2.size, (flushStore cs s).1, false⟩ :=
  open_crash_image_full fid cmpOf cs s hf hp hsz hc hok hnames hcmp hlim g hge hpre hjunk

end Gkv.Props.C03
