/-
C06 — range visits deliver exactly the requested key range, in order, with true depths, and stop
as soon as the visitor says so.  For every tree that is a search tree (which every reachable
collection is: `Props.C01.invariants`), every target, both directions, every visitor.
-/
import Gkv.Proofs.Visit
open Std

namespace Gkv.Props.C06
open Gkv Gkv.Tree

variable (cmp : Bytes → Bytes → Ordering) [TransCmp cmp]

/-- VisitItemsAscend(target): exactly the items with key ≥ target, each with its true depth,
    in in-order (= strictly ascending) order; the stateful visit stops after the first item the
    visitor rejects (`foldUntil`), whatever the visitor and its state are. -/
theorem ascend_exact {σ : Type} (v : σ → Item → Nat → σ × Bool) {t : Tree} (h : BST cmp t)
    (tgt : Bytes) (s : σ) :
    visit cmp true v t tgt 0 s =
      foldUntil v ((inorderD t 0).filter (fun p => cmp tgt p.1.key != .gt)) s := by
  rw [visit_asc_eq_foldUntil, visitAsc_eq_filter cmp h]

/-- VisitItemsDescend(target): exactly the items with key < target, descending -/
theorem descend_exact {σ : Type} (v : σ → Item → Nat → σ × Bool) {t : Tree} (h : BST cmp t)
    (tgt : Bytes) (s : σ) :
    visit cmp false v t tgt 0 s =
      foldUntil v ((inorderD t 0).filter (fun p => cmp tgt p.1.key == .gt)).reverse s := by
  rw [visit_desc_eq_foldUntil, visitDesc_eq_filter cmp h]

/-- the delivered keys are strictly ascending / strictly descending under the comparator -/
theorem ascend_sorted {t : Tree} (h : BST cmp t) (tgt : Bytes) :
    ((visitAsc cmp t tgt 0).map (·.1)).Pairwise (fun a b => cmp a.key b.key = .lt) :=
  visitAsc_sorted cmp h tgt 0

theorem descend_sorted {t : Tree} (h : BST cmp t) (tgt : Bytes) :
    ((visitDesc cmp t tgt 0).map (·.1)).Pairwise (fun a b => cmp a.key b.key = .gt) :=
  visitDesc_sorted cmp h tgt 0

/-- `inorderD` is the in-order item list, each item paired with its depth -/
theorem inorder_items (t : Tree) : (inorderD t 0).map (·.1) = t.toList := inorderD_map_fst t 0

-- non-vacuity: a three-node tree, target between the keys, visitor stopping at the second item
example :
    let t := Tree.node (.node .nil ⟨[1], [], 1⟩ 1 1 .nil none none) ⟨[3], [], 9⟩ 3 3
              (.node .nil ⟨[5], [], 2⟩ 1 1 .nil none none) none none
    (visit cmpBytes true (fun (acc : List (Bytes × Nat)) i d => (acc ++ [(i.key, d)], acc.length < 1)) t [2] 0 []).1
      = [([3], 0), ([5], 1)] := by decide

end Gkv.Props.C06
