/-
C06 — range visits deliver exactly the requested key range, in order, with true depths, and stop
as soon as the visitor says so.  For every tree that is a search tree (which every reachable
collection is: `Props.C01.invariants`), every target, both directions, every visitor.
-/
import Gkv.Proofs.Visit
import Gkv.Proofs.Cache
open Std

namespace Gkv.Props.C06
open Gkv Gkv.Tree

variable (cmp : Bytes → Bytes → Ordering) [TransCmp cmp]

/-- VisitItemsAscend(target): exactly the items with key ≥ target, each with its true depth,
    in in-order (= strictly ascending) order; the stateful visit stops after the first item the
    visitor rejects (`foldUntil`), whatever the visitor and its state are. -/
theorem ascend_exact {σ : Type} (v : σ → Item → Nat → σ × Bool) {t : Tree} (h : BST cmp t)
    (tgt : Bytes) (s : σ) :
    visit cmp true v t tgt 0 s =
      foldUntil v ((inorderD t 0).filter (fun p => cmp tgt p.1.key != .gt)) s := by
  rw [visit_asc_eq_foldUntil, visitAsc_eq_filter cmp h]

/-- VisitItemsDescend(target): exactly the items with key < target, descending -/
theorem descend_exact {σ : Type} (v : σ → Item → Nat → σ × Bool) {t : Tree} (h : BST cmp t)
    (tgt : Bytes) (s : σ) :
    visit cmp false v t tgt 0 s =
      foldUntil v ((inorderD t 0).filter (fun p => cmp tgt p.1.key == .gt)).reverse s := by
  rw [visit_desc_eq_foldUntil, visitDesc_eq_filter cmp h]

/-- the delivered keys are strictly ascending / strictly descending under the comparator -/
theorem ascend_sorted {t : Tree} (h : BST cmp t) (tgt : Bytes) :
    ((visitAsc cmp t tgt 0).map (·.1)).Pairwise (fun a b => cmp a.key b.key = .lt) :=
  visitAsc_sorted cmp h tgt 0

theorem descend_sorted {t : Tree} (h : BST cmp t) (tgt : Bytes) :
    ((visitDesc cmp t tgt 0).map (·.1)).Pairwise (fun a b => cmp a.key b.key = .gt) :=
  visitDesc_sorted cmp h tgt 0

/-- `inorderD` is the in-order item list, each item paired with its depth -/
theorem inorder_items (t : Tree) : (inorderD t 0).map (·.1) = t.toList := inorderD_map_fst t 0

-- non-vacuity: a three-node tree, target between the keys, visitor stopping at the second item
example :
    let t := Tree.node (.node .nil ⟨[1], [], 1⟩ 1 1 .nil none none) ⟨[3], [], 9⟩ 3 3
              (.node .nil ⟨[5], [], 2⟩ 1 1 .nil none none) none none
    (visit cmpBytes true (fun (acc : List (Bytes × Nat)) i d => (acc ++ [(i.key, d)], acc.length < 1)) t [2] 0 []).1
      = [([3], 0), ([5], 1)] := by decide

/-! ### the same on the lazily loaded tree (Model L, `Model/Cache.lean`) -/

open Gkv.Cache in
/-- `VisitItemsAscend` / `VisitItemsDescend` as `visitNodes` performs them — loading nodes and items
    on the way down, re-reading the item with its value when asked for, evicting it on the way out
    — from ANY cached view of a tree that is coherent with the file: the visitor is handed exactly
    Model A's sequence (`ascend_exact` / `descend_exact` say what that is) with the true depths,
    values whenever asked for and never a wrong one, and what is left is a view of the same tree. -/
theorem lazy_visit_exact (f : Bytes) (bound : Nat) (cmp : Bytes → Bytes → Ordering) (asc wv : Bool)
    (tgt : Bytes) (fuel : Nat) (c : CTree) (T : Tree) (d : Nat)
    (hc : T.Coherent f bound) (hr : Rep c T) (hf : T.height < fuel) :
    ∃ out c' rds, visitC f cmp asc wv fuel c tgt d = some (out, c', rds) ∧ Rep c' T ∧
      AgreeVisit wv out (if asc then Tree.visitAsc cmp T tgt d else Tree.visitDesc cmp T tgt d) := by
  obtain ⟨out, c', rds, e, h1, h2, _⟩ := visitC_spec f bound cmp asc wv tgt fuel c T d hc hr hf
  exact ⟨out, c', rds, e, h1, h2⟩

open Gkv.Cache in
/-- "… and visiting stops as soon as the visitor returns false", on the lazily loaded tree: a
    visitor that says stop at the `b`-th item it is handed (`b > 0`) has been handed exactly the
    first `b` items of Model A's sequence — all of it when it is shorter —, the budget left is
    `b - length` (0: it said stop), and what is left, after the evictions of every node on the way
    out, is a view of the same tree.  From any cached view, both directions, both value modes. -/
theorem lazy_visit_stops (f : Bytes) (bound : Nat) (cmp : Bytes → Bytes → Ordering) (asc wv : Bool)
    (tgt : Bytes) (fuel : Nat) (c : CTree) (T : Tree) (d b : Nat)
    (hc : T.Coherent f bound) (hr : Rep c T) (hf : T.height < fuel) (hb : 0 < b) :
    ∃ out b' c' rds, visitCK f cmp asc wv fuel c tgt d b = some (out, b', c', rds) ∧ Rep c' T ∧
      AgreeVisit wv out ((if asc then Tree.visitAsc cmp T tgt d else Tree.visitDesc cmp T tgt d).take b) ∧
      b' = b - (if asc then Tree.visitAsc cmp T tgt d else Tree.visitDesc cmp T tgt d).length := by
  obtain ⟨out, b', c', rds, e, h1, h2, h3, _⟩ :=
    visitCK_spec f bound cmp asc wv tgt fuel c T d b hc hr hf hb
  exact ⟨out, b', c', rds, e, h1, h2, h3⟩

open Gkv.Cache in
/-- non-vacuity: two items on file, cold view, ascending with values, stop at the first item: one
    item delivered, budget 0, and the far subtree was never loaded -/
example :
    let a : Item := ⟨[1], [5], 9⟩
    let b : Item := ⟨[2], [6], 3⟩
    -- file: item a @0 (18), item b @18 (18), node b @36 (52), node a @88 (52, right = node b)
    let f : Bytes := encItem a ++ encItem b ++ encNode ⟨some ⟨18, 18⟩, none, none, 1, 2⟩ ++
      encNode ⟨some ⟨0, 18⟩, none, some ⟨36, 52⟩, 2, 4⟩
    (visitCK f cmpBytes true true 5 (.stub ⟨88, 52⟩) [] 0 1).map (fun x => (x.1, x.2.1, x.2.2.1)) =
      some ([(⟨[1], 9, some [5]⟩, 0)], 0,
            .node .nil (.stub ⟨0, 18⟩) 2 4 (.stub ⟨36, 52⟩) (some ⟨88, 52⟩)) := by
  decide +kernel

end Gkv.Props.C06
