/-
A file location is published only for bytes that have been written (regenerated table).

Model B (`Model/Store.lean`, `writeItems` / `writeNodes`) records a record's location, and advances
`size`, only when every `WriteAt` of that record succeeded; a failed write leaves the node
location-less.  `Props/C02` (re-open gives the last flush), `Props/C05` (a reader that evicts an
item can re-read it) and `Props/C07` (a failed Flush changes nothing visible; a retried Flush is
an ordinary one) are theorems about that model.  This module ties the modelling assumption to
the source: `Gen/WriteOrder.lean` is rewritten from /repo on every run with, for `itemLoc.write`
and `nodeLoc.write`, the number of `setLoc(non-nil)` calls, the number of file-write calls, whether
every publication lies after every file write, whether every file write is error-checked with an
early return, and whether nothing un-publishes a location.
-/
import Gkv.Gen.WriteOrder

namespace Gkv.Props.WriteOrder

/-- in both record writers the location is published exactly once, after all of the record's file
    writes (2 for an item: header+key, value; 1 for a node), each of which returns on error first;
    there is no roll-back of a published location -/
theorem locations_published_after_bytes :
    Gen.WriteOrder.writers =
      [("itemLoc.write", 1, 2, true, true, true), ("nodeLoc.write", 1, 1, true, true, true)] := by
  decide

end Gkv.Props.WriteOrder
