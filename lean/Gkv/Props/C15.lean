/-
C15 — item reference counting via callbacks is balanced and never premature.

`Gkv/Model/Refs.lean` is the accounting of the ItemAlloc / ItemAddRef / ItemDecRef callbacks as
an event system over node objects and items: every place where the package takes or drops a
reference is one event kind (mkNode copying a cached item, SetItem's new node, item load with
replacement of an older cached copy, eviction, freeNode, hand-out to the caller, the caller's
release).  Theorems hold for EVERY event sequence that respects the events' preconditions.
The implementation's callback log is checked against the same predicates on every run
(`refcheck`, `refbalance`); with reference to `Get`, see DESIGN.md (the value it returns aliases
the item, so that reference is the caller's).
-/
import Gkv.Proofs.Refs
import Gkv.Proofs.VersionsLeak
open Std

namespace Gkv.Props.C15
open Gkv.Refs

/-- the accounting identity behind everything else: count = nodes caching the item + references
    handed to the caller -/
theorem accounting {s : St} (h : Reach s) :
    ∀ i, s.count i =
      ((s.nodes.countP (fun n => decide (s.cached n = some i)) : Nat) : Int) + (s.handed i : Int) :=
  Gkv.Refs.accounting h

/-- gkvlite never releases a reference it does not hold -/
theorem never_negative {s : St} (h : Reach s) : ∀ i, 0 ≤ s.count i := Gkv.Refs.never_negative h

/-- every item cached in a live node (hence every item reachable from an open collection or
    snapshot) and every item handed to the caller has a positive count -/
theorem reachable_positive {s : St} (h : Reach s) :
    (∀ n i, s.cached n = some i → 0 < s.count i) ∧ (∀ i, 0 < s.handed i → 0 < s.count i) :=
  ⟨Gkv.Refs.reachable_positive h, Gkv.Refs.handed_positive h⟩

/-- PARTIAL.  The property's last clause ("once the store and all its snapshots are closed, every
    reference gkvlite took has been released") under the hypothesis `hn` that every node object
    was freed, and the caller returned what it was handed.  Whether closing everything frees
    every node is a statement about the version protocol, not about this accounting model; it is
    the three theorems below, and it is FALSE of the code in general (known finding F11,
    `corpus/F11-orphan-leak.ops`). -/
theorem closed_balanced_partial {s : St} (h : Reach s) (hn : s.nodes = []) (hh : ∀ i, s.handed i = 0) :
    ∀ i, s.count i = 0 := Gkv.Refs.closed_balanced h hn hh

/-! ### discharging `hn`: which nodes are freed when everything is closed

Model `VersionsLeak` (versions, handles, marks, free list, lazy loads under a guard `G`).
`GLive` is what the code does: whoever loads a node under `p` holds a live version whose tree
contains `p`.  `GStrict` adds: `p` has not been replaced yet. -/

/-- with the code's loads: once every version's reference count is zero, each node that was ever
    in a tree is on the free list OR is an orphan (never marked, not in the last tree) -/
theorem nodes_freed_or_orphan {s : Gkv.Versions.St}
    (hr : Gkv.VersionsLeak.ReachG Gkv.VersionsLeak.GLive s) (h0 : ∀ v, s.refs v = 0) :
    ∀ n, (∃ v, s.tree v n) → s.freed n ∨ Gkv.VersionsLeak.orphan s n :=
  Gkv.VersionsLeak.all_closed_freed_or_orphan (fun _ _ g => g) hr h0

/-- the hypothesis of `closed_balanced_partial` HOLDS when no node is ever loaded under a node
    that has already been replaced -/
theorem nodes_all_freed_if_no_load_under_replaced {s : Gkv.Versions.St}
    (hr : Gkv.VersionsLeak.ReachG Gkv.VersionsLeak.GStrict s) (h0 : ∀ v, s.refs v = 0) :
    ∀ n, (∃ v, s.tree v n) → s.freed n :=
  Gkv.VersionsLeak.all_closed_all_freed hr h0

/-- … and FAILS without that restriction: a reachable state with every reference count zero and a
    node that is in a tree, not freed, and never will be (the six-event history of
    `VersionsLeak.leak_example`; on the code: `corpus/F11-orphan-leak.ops`) -/
theorem nodes_not_all_freed :
    ¬ (∀ s, Gkv.Versions.Reach Gkv.VersionsLeak.FT s → (∀ v, s.refs v = 0) →
        ∀ n, (∃ v, s.tree v n) → s.freed n) :=
  Gkv.VersionsLeak.all_closed_all_freed_false

end Gkv.Props.C15
