/-
C15 — item reference counting via callbacks is balanced and never premature.

`Gkv/Model/Refs.lean` is the accounting of the ItemAlloc / ItemAddRef / ItemDecRef callbacks as
an event system over node objects and items: every place where the package takes or drops a
reference is one event kind (mkNode copying a cached item, SetItem's new node, item load with
replacement of an older cached copy, eviction, freeNode, hand-out to the caller, the caller's
release).  Theorems hold for EVERY event sequence that respects the events' preconditions.
The implementation's callback log is checked against the same predicates on every run
(`refcheck`, `refbalance`); with reference to `Get`, see DESIGN.md (the value it returns aliases
the item, so that reference is the caller's).
-/
import Gkv.Proofs.Refs
open Std

namespace Gkv.Props.C15
open Gkv.Refs

/-- the accounting identity behind everything else: count = nodes caching the item + references
    handed to the caller -/
theorem accounting {s : St} (h : Reach s) :
    ∀ i, s.count i =
      ((s.nodes.countP (fun n => decide (s.cached n = some i)) : Nat) : Int) + (s.handed i : Int) :=
  Gkv.Refs.accounting h

/-- gkvlite never releases a reference it does not hold -/
theorem never_negative {s : St} (h : Reach s) : ∀ i, 0 ≤ s.count i := Gkv.Refs.never_negative h

/-- every item cached in a live node (hence every item reachable from an open collection or
    snapshot) and every item handed to the caller has a positive count -/
theorem reachable_positive {s : St} (h : Reach s) :
    (∀ n i, s.cached n = some i → 0 < s.count i) ∧ (∀ i, 0 < s.handed i → 0 < s.count i) :=
  ⟨Gkv.Refs.reachable_positive h, Gkv.Refs.handed_positive h⟩

/-- once every node is freed (store and all snapshots closed: `C10`/`markAllUnlocked` free the whole
    tree of the last version) and the caller returned what it was handed, every count is zero -/
theorem closed_balanced {s : St} (h : Reach s) (hn : s.nodes = []) (hh : ∀ i, s.handed i = 0) :
    ∀ i, s.count i = 0 := Gkv.Refs.closed_balanced h hn hh

end Gkv.Props.C15
