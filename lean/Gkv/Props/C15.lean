/-
C15 — item reference counting via callbacks is balanced and never premature.

`Gkv/Model/Refs.lean` is the accounting of the ItemAlloc / ItemAddRef / ItemDecRef callbacks as
an event system over node objects and items: every place where the package takes or drops a
reference is one event kind (mkNode copying a cached item, SetItem's new node, item load with
replacement of an older cached copy, eviction, freeNode, hand-out to the caller, the caller's
release).  Theorems hold for EVERY event sequence that respects the events' preconditions.
The implementation's callback log is checked against the same predicates on every run
(`refcheck`, `refbalance`); with reference to `Get`, see DESIGN.md (the value it returns aliases
the item, so that reference is the caller's).
-/
import Gkv.Proofs.Refs
import Gkv.Proofs.VersionsLeak
import Gkv.Gen.SlotCopies
import Gkv.Gen.Sites
open Std

namespace Gkv.Props.C15
open Gkv.Refs

/-- the accounting identity behind everything else: count = nodes caching the item + references
    handed to the caller -/
theorem accounting {s : St} (h : Reach s) :
    ∀ i, s.count i =
      ((s.nodes.countP (fun n => decide (s.cached n = some i)) : Nat) : Int) + (s.handed i : Int) :=
  Gkv.Refs.accounting h

/-- gkvlite never releases a reference it does not hold -/
theorem never_negative {s : St} (h : Reach s) : ∀ i, 0 ≤ s.count i := Gkv.Refs.never_negative h

/-- every item cached in a live node (hence every item reachable from an open collection or
    snapshot) and every item handed to the caller has a positive count -/
theorem reachable_positive {s : St} (h : Reach s) :
    (∀ n i, s.cached n = some i → 0 < s.count i) ∧ (∀ i, 0 < s.handed i → 0 < s.count i) :=
  ⟨Gkv.Refs.reachable_positive h, Gkv.Refs.handed_positive h⟩

/-- "never premature", read from gkvlite's side: every item it is entitled to look at — reached
    through an allocated node that caches it, or held for handing out — has a positive count, so an
    allocator that recycles items at count zero never pulls one away from under it.  Defect F20
    (the ascending visit and the block visitors went on using items they had released) is a use
    OUTSIDE `mayLookAt`; `Proofs/Refs.lean` has that trace as a decided example, and the harness's
    scrubbing allocator is what exhibits such a use on the code. -/
theorem looked_at_items_are_counted {s : St} (h : Reach s) (i : Nat) (hl : mayLookAt s i) :
    0 < s.count i := Gkv.Refs.looked_at_is_counted h i hl

/-- PARTIAL.  The property's last clause ("once the store and all its snapshots are closed, every
    reference gkvlite took has been released") under the hypothesis `hn` that every node object
    was freed, and the caller returned what it was handed.  Whether closing everything frees
    every node is a statement about the version protocol, not about this accounting model; it is
    the theorems below.  It was FALSE of the pinned code (defect F11, `corpus/F11-orphan-leak.ops`,
    repaired by /repo commit "fix: split loads the children of the found node before copying
    their slots"); `slots_loaded_before_copied` is the regenerated obligation that keeps the
    repaired code inside the hypothesis of `nodes_all_freed_if_no_load_under_replaced`. -/
theorem closed_balanced_partial {s : St} (h : Reach s) (hn : s.nodes = []) (hh : ∀ i, s.handed i = 0) :
    ∀ i, s.count i = 0 := Gkv.Refs.closed_balanced h hn hh

/-! ### discharging `hn`: which nodes are freed when everything is closed

Model `VersionsLeak` (versions, handles, marks, free list, lazy loads under a guard `G`).
`GLive` is what the code does: whoever loads a node under `p` holds a live version whose tree
contains `p`.  `GStrict` adds: `p` has not been replaced yet. -/

/-- with the code's loads: once every version's reference count is zero, each node that was ever
    in a tree is on the free list OR is an orphan (never marked, not in the last tree) -/
theorem nodes_freed_or_orphan {s : Gkv.Versions.St}
    (hr : Gkv.VersionsLeak.ReachG Gkv.VersionsLeak.GLive s) (h0 : ∀ v, s.refs v = 0) :
    ∀ n, (∃ v, s.tree v n) → s.freed n ∨ Gkv.VersionsLeak.orphan s n :=
  Gkv.VersionsLeak.all_closed_freed_or_orphan (fun _ _ g => g) hr h0

/-- the hypothesis of `closed_balanced_partial` HOLDS when no node is ever loaded under a node
    that has already been replaced -/
theorem nodes_all_freed_if_no_load_under_replaced {s : Gkv.Versions.St}
    (hr : Gkv.VersionsLeak.ReachG Gkv.VersionsLeak.GStrict s) (h0 : ∀ v, s.refs v = 0) :
    ∀ n, (∃ v, s.tree v n) → s.freed n :=
  Gkv.VersionsLeak.all_closed_all_freed hr h0

/-- … and FAILS without that restriction: a reachable state with every reference count zero and a
    node that is in a tree, not freed, and never will be (the six-event history of
    `VersionsLeak.leak_example`; on the code: `corpus/F11-orphan-leak.ops`) -/
theorem nodes_not_all_freed :
    ¬ (∀ s, Gkv.Versions.Reach Gkv.VersionsLeak.FT s → (∀ v, s.refs v = 0) →
        ∀ n, (∃ v, s.tree v n) → s.freed n) :=
  Gkv.VersionsLeak.all_closed_all_freed_false

/-! ### the code side of `GStrict` (regenerated table)

A reader of an old version can load a node under a replaced node only through a child slot that
was still unloaded when the mutation copied it: a loaded slot is shared by both versions (one node
object), and every node the mutation itself walks is loaded.  `Gen/SlotCopies.lean` is rewritten
from /repo on every run: one row per argument `&X.left` / `&X.right` of a call to `mkNode` or
`Copy`, with whether an earlier call in the same function reads that slot (`numInfo(.., &X.left, ..)`
or `X.left.read(..)`), and how many of its two parameters `numInfo` reads.  Expected: the six
reviewed sites (two in `join`, four in `split`), all guarded; `numInfo` reads both.  "Earlier" is
textual order inside one function, not dominance — the site list is short enough to review, and
that review is what this statement pins down.  With the F11 repair reverted the two `Copy` sites
of `split`'s key-found arm are unguarded and this theorem is refuted. -/
theorem slots_loaded_before_copied :
    Gen.SlotCopies.sites =
      [("Store.join", "thatNode.right", true), ("Store.join", "thisNode.left", true),
       ("Store.split", "nNode.left", true), ("Store.split", "nNode.left", true),
       ("Store.split", "nNode.right", true), ("Store.split", "nNode.right", true)] ∧
    Gen.SlotCopies.numInfoReads = 2 := by decide

/-! ### the event kinds of `Model/Refs.lean` are all the places where the code counts (regenerated table)

`Model/Refs.lean` claims one event kind per place where the package takes or drops an item
reference.  `Gen/Sites.lean` is rewritten from /repo on every run and lists EVERY call of
`ItemAddRef`, `ItemDecRef` and `ItemAlloc` in the package (enclosing function, callee, argument).
The reviewed reading of each row, i.e. the event of the model it is:

* `mkNode` AddRef(i), `SetItem` AddRef(item) ............ `Ev.mkNode`
* `freeNodeUnlocked` DecRef(i) .......................... `Ev.freeNode`
* `itemLoc.read` ItemAlloc, DecRef(icur) ............... `Ev.load` (new item; the older cached copy)
* `itemLoc.read` six DecRef(i) ......................... the freshly allocated item is dropped on
                                                          each error path and when the casItem race
                                                          is lost (alloc + dec: net zero, no event)
* `evictSomeItems` DecRef(j), DecRef(i); `visitNodes` .. `Ev.evict`
* `GetItem` AddRef(iItem), `walk` AddRef(i) ............. `Ev.handOut`
* `Delete`, `Exist`, `Len`, both block visitors, `CopyTo` `Ev.giveBack` (the package as its own caller)
* `Store.ItemAddRef/ItemDecRef/ItemAlloc` ............... the dispatch wrappers themselves

A change that counts somewhere else, or stops counting at one of these places (seeded changes
C15, C15c, C15h), moves a row and refutes this statement. -/
theorem every_counting_site_is_an_event :
    Gen.Sites.refSites = [
  ("Collection.Delete", "ItemDecRef", "i"),
  ("Collection.Exist", "ItemDecRef", "val"),
  ("Collection.GetItem", "ItemAddRef", "iItem"),
  ("Collection.Len", "ItemDecRef", "si"),
  ("Collection.SetItem", "ItemAddRef", "item"),
  ("Collection.VisitItemsAscendBlockEx", "ItemDecRef", "si"),
  ("Collection.VisitItemsRandom", "ItemDecRef", "si"),
  ("Collection.evictSomeItems", "ItemDecRef", "j"),
  ("Collection.evictSomeItems", "ItemDecRef", "i"),
  ("Collection.freeNodeUnlocked", "ItemDecRef", "i"),
  ("Collection.mkNode", "ItemAddRef", "i"),
  ("Store.CopyTo", "ItemDecRef", "minItem"),
  ("Store.ItemAddRef", "ItemAddRef", "i"),
  ("Store.ItemAlloc", "ItemAlloc", "keyLength"),
  ("Store.ItemDecRef", "ItemDecRef", "i"),
  ("Store.visitNodes", "ItemDecRef", "i"),
  ("Store.walk", "ItemAddRef", "i"),
  ("itemLoc.read", "ItemAlloc", "uint32(keyLength)"),
  ("itemLoc.read", "ItemDecRef", "i"),
  ("itemLoc.read", "ItemDecRef", "i"),
  ("itemLoc.read", "ItemDecRef", "i"),
  ("itemLoc.read", "ItemDecRef", "i"),
  ("itemLoc.read", "ItemDecRef", "i"),
  ("itemLoc.read", "ItemDecRef", "i"),
  ("itemLoc.read", "ItemDecRef", "icur")
    ] := by decide +kernel

end Gkv.Props.C15
