/-
Lock discipline of the package, proved on the tables REGENERATED from /repo on every run
(Gkv/Gen/Locks.lean, Gkv/Gen/CallGraph.lean).  Shared by C05 and C18 ("no deadlock"):
while any mutex is held, the code performs no file I/O and calls no user callback other than
ItemDecRef, and mutexes are only ever acquired in one fixed order.
-/
import Gkv.Proofs.Graph
import Gkv.Gen.CallGraph
import Gkv.Gen.Locks
import Gkv.Gen.Pins
open Std

namespace Gkv.Props.Locks
open Gkv.Graph

abbrev G := Gen.CallGraph.edges
abbrev N := Gen.CallGraph.names

/-- the certificate is consistent: every call made under a lock is a start node of that lock's
    set, and each set is closed under callees -/
theorem underLock_covers_heldCalls :
    ∀ h ∈ Gen.Locks.heldCalls, ∃ x ∈ Gen.Locks.underLock, x.1 = h.2.2 ∧ idx N h.2.1 ∈ x.2.1 ∧
      idx N h.2.1 < N.length := by decide +kernel

theorem underLock_closed :
    ∀ x ∈ Gen.Locks.underLock, closedF G x.2.2 = true ∧ ∀ i ∈ x.2.1, i ∈ x.2.2 := by decide +kernel

/-- everything that can execute while lock `x.1` is held is in `x.2.2` -/
theorem runs_under_lock_mem (x : String × List Nat × List Nat) (hx : x ∈ Gen.Locks.underLock)
    (a t : Nat) (ha : a ∈ x.2.1) (hr : Reach G a t) : t ∈ x.2.2 :=
  reach_mem_of_closedF (underLock_closed x hx).1 hr ((underLock_closed x hx).2 a ha)

/-- callbacks that may be invoked with a lock held: the item reference release (documented), and
    the closure of AllocStats/withAllocLocks which only copies a struct -/
def allowedDynUnderLock : List String := ["DYN.ItemDecRef", "DYN.cb"]

/-- **no file call and no other dynamic call can run while a mutex is held** -/
theorem no_io_or_callback_under_lock :
    ∀ x ∈ Gen.Locks.underLock, ∀ i ∈ x.2.2,
      (N[i]!).startsWith "FILE." = false ∧
      ((N[i]!).startsWith "DYN." = true → N[i]! ∈ allowedDynUnderLock) := by decide +kernel

/-- the fixed acquisition order -/
def lockRank : String → Nat
  | "rootLock" => 1
  | "freeNodeLock" => 2
  | "freeNodeLocLock" => 3
  | "freeRootNodeLocLock" => 4
  | "m" => 5
  | _ => 0

/-- **mutexes are acquired in strictly increasing rank**: a lock acquired (directly or in any
    callee) while another is held has a strictly higher rank — no cycle, no self-deadlock -/
theorem lock_order :
    ∀ x ∈ Gen.Locks.underLock, lockRank x.1 ≠ 0 ∧
      ∀ i ∈ x.2.2, (N[i]!).startsWith "LOCK." = true →
        lockRank x.1 < lockRank ((N[i]!).drop 5).toString := by decide +kernel

/-- every exported read operation of a collection brackets its work with a version pin:
    `rnl := rootAddRef()` … `defer rootDecRef(rnl)` (directly, or by delegating to one that does) -/
def pinnedReaders : List String :=
  ["Collection.GetItem", "Collection.GetTotals", "Collection.VisitItemsAscendEx",
   "Collection.VisitItemsDescendEx", "Collection.MarshalJSON", "Store.walk",
   "Collection.SetItem", "Collection.Delete", "Collection.Write"]

theorem readers_pin_and_unpin :
    ∀ f ∈ pinnedReaders, (f, true, true) ∈ Gen.Pins.pins := by decide +kernel

/-- every call of `rootAddRef` in the package is one of the twelve reviewed sites: nine take the
    pin into a local that the very next statement releases by `defer` (whatever path the function
    leaves by), three hand it to another owner — the new handle of `SetCollection`, the handles of a
    `Snapshot`, and `Flush`'s map of pins (released by its deferred loop).  A new pin site, or one of
    the nine losing its `defer` (seeded change C18b), refutes this. -/
theorem every_pin_site_is_reviewed :
    Gen.Pins.pinSites =
      [("Collection.Delete", "paired"), ("Collection.GetItem", "paired"), ("Collection.GetTotals", "paired"),
       ("Collection.MarshalJSON", "paired"), ("Collection.SetItem", "paired"),
       ("Collection.VisitItemsAscendEx", "paired"), ("Collection.VisitItemsDescendEx", "paired"),
       ("Collection.Write", "paired"), ("Store.Flush", "kept"), ("Store.SetCollection", "kept"),
       ("Store.Snapshot", "kept"), ("Store.walk", "paired")] := by decide

end Gkv.Props.Locks
