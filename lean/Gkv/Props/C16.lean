/-
C16 — whole-collection enumerations cover every item exactly once, at every size.
For EVERY search tree (every size n, including 0, 1, sizes that are not a multiple of the block
length and sizes above the maximum block count), every block mangler / shuffle that permutes.
-/
import Gkv.Proofs.Blocks
import Gkv.Gen.Consts
open Std

namespace Gkv.Props.C16
open Gkv Gkv.Tree

variable (cmp : Bytes → Bytes → Ordering) [TransCmp cmp]

/-- Len() is the number of items (0 for the empty collection) -/
theorem len_exact {t : Tree} (h : BST cmp t) : len cmp t = t.toList.length := len_eq cmp h

/-- VisitItemsAscendBlockEx with ANY block reordering presents every item exactly once
    (the delivered list is a permutation of the items) -/
theorem blocks_exactly_once {t : Tree} (h : BST cmp t) (mangle : List Bytes → List Bytes)
    (hm : ∀ l, (mangle l).Perm l) (r : List Item) (hr : visitBlocks cmp t mangle = some r) :
    r.Perm t.toList := visitBlocks_perm cmp h mangle hm r hr

/-- VisitItemsRandom presents every item exactly once, whatever the shuffle -/
theorem random_exactly_once {t : Tree} (h : BST cmp t) (shuffle : List Bytes → List Bytes)
    (hs : ∀ l, (shuffle l).Perm l) (r : List Item) (hr : visitRandom cmp t shuffle = some r) :
    r.Perm t.toList := visitRandom_perm cmp h shuffle hs r hr

/-- the only case in which they report an error instead ("impossible block sizes") is the empty
    collection, where there is nothing to present -/
theorem error_only_when_empty {t : Tree} (h : BST cmp t) (f : List Bytes → List Bytes) :
    (visitBlocks cmp t f = none ↔ t.toList = []) ∧ (visitRandom cmp t f = none ↔ t.toList = []) :=
  ⟨visitBlocks_none cmp h f, visitRandom_none cmp h f⟩

/-- the block count limit of the model is the one in the source -/
theorem gen_maxBlockCnt : Gen.maxBlockCnt = maxBlockCnt := by decide

-- non-vacuity: three items, blocks of two, reversed block order
example :
    let t := Tree.node (.node .nil ⟨[1], [], 1⟩ 1 1 .nil none none) ⟨[3], [], 9⟩ 3 3
              (.node .nil ⟨[5], [], 2⟩ 1 1 .nil none none) none none
    (visitBlocks cmpBytes t List.reverse).map (·.map (·.key)) = some [[5], [1], [3]] := by decide

end Gkv.Props.C16
