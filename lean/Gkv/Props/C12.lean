/-
C12 — creating, replacing and removing collections never loses or leaks items.
Corollaries of the store-level refinement (`Gkv.Machine.refinement`): the specification's
collection operations are exactly the documented ones.
-/
import Gkv.Proofs.Machine
import Gkv.Props.C10
import Gkv.Gen.Cas
import Gkv.Proofs.CasLoop
open Std

namespace Gkv.Props.C12
open Gkv Gkv.Machine

/-- along every history the store shows what the specification shows, where the specification says:
    SetCollection on a new name → empty collection; on an existing name → same items;
    RemoveCollection → the name is gone (so remove + create = empty); other names untouched -/
theorem collections_refine_spec (cmpOf : Bytes → CmpKind) (ops : List SOp) (h : HistOK cmpOf ops) :
    absS (srun cmpOf ops) = (specRun cmpOf ops).cur := refinement cmpOf ops h

/-- the specification's SetCollection keeps an existing collection's items and creates an empty one
    otherwise; RemoveCollection drops exactly that name -/
theorem spec_setColl (cmpOf : Bytes → CmpKind) (s : SpecState) (n : Bytes) :
    (specStep cmpOf s (.setColl n)).cur = specSet n ((specGet n s.cur).getD []) s.cur ∧
    (specStep cmpOf s (.rmColl n)).cur = s.cur.filter (fun p => p.1 ≠ n) ∧
    (specStep cmpOf s (.setColl n)).durable = s.durable ∧
    (specStep cmpOf s (.rmColl n)).durable = s.durable := ⟨rfl, rfl, rfl, rfl⟩

/-- GetCollectionNames is always the sorted set of current names -/
theorem names_sorted (cmpOf : Bytes → CmpKind) (ops : List SOp) (h : HistOK cmpOf ops) :
    ((srun cmpOf ops).colls.map (·.name)).Pairwise (fun a b => compare a b = .lt) :=
  Gkv.Machine.names_sorted cmpOf ops h

/-- collection changes become durable only at the next Flush: until then the file keeps decoding
    to the state at the last Flush -/
theorem durable_only_at_flush (cmpOf : Bytes → CmpKind) (ops : List SOp) (h : HistOK cmpOf ops) :
    ∃ dc, openStore 0 (srun cmpOf ops).file cmpOf
        = .ok ⟨some 0, (srun cmpOf ops).file.length, dc, false⟩ ∧
      absColls dc = (specRun cmpOf ops).durable :=
  durable_is_last_flush cmpOf ops h

/-- what makes handle replacement safe in the Go code (the replaced handle's version is shared by
    reference count, then released): the recycling protocol never frees a node of a live version -/
theorem replaced_handles_safe (F : Nat → Nat → Prop) (s : Gkv.Versions.St) (hr : Gkv.Versions.Reach F s) :
    ∀ w n, s.refs w > 0 → s.tree w n → ¬ s.freed n := Gkv.Props.C10.recycling_safe F s hr

#guard absS (srun (fun _ => .bytes)
    [.setColl [97], .set [97] ⟨[1], [2], 3⟩, .setColl [97], .setColl [98], .rmColl [97], .setColl [97]])
    == [([97], []), ([98], [])]


/-! ### the collection map is updated by compare-and-swap against what was read (regenerated table)

`Gen/Cas.lean` is rewritten from /repo's source on every run: one row per call `_.casColl(x, y)`.
The obligation: the sites are exactly the four reviewed ones, and at each the compared pointer `x`
is an identifier whose only definition is `x := _.getColl()`, placed before the call and inside
the same retry loop, and every `copyColl` of that function copies from `x` (never from a second
`getColl()`).  That is what makes each update "publish only if nobody published since I read".
It is a syntactic fact about the code, tied to C12's clause "none of these operations disturbs
other collections"; the concurrent reading of that clause (two goroutines updating the map) is
outside C12's quantifier (histories only), which is why this is an obligation and not a stream. -/
theorem cas_compares_what_was_read :
    Gen.Cas.sites.map (·.1) =
      ["Store.Close", "Store.FlushRevert", "Store.RemoveCollection", "Store.SetCollection"] ∧
    ∀ r ∈ Gen.Cas.sites, r.2 = (true, true, true, true, true) := by decide


/-! ### why comparing against what was read matters (supplementary: schedules are outside C12's quantifier)

`Model/CasLoop.lean`: any number of threads, each with a list of updates, each update done as
`read the cell; compute from the snapshot; compare-and-swap against the version that was read;
retry on failure` — the loop of SetCollection / RemoveCollection — under an arbitrary schedule. -/

/-- for every number of threads, all update lists and every schedule: the cell holds exactly the
    published updates applied in publication order to the initial value (nothing lost, nothing
    applied twice), and each thread's published updates followed by its pending ones are its
    program -/
theorem no_lost_collection_update {ι α : Type} (apply : ι → α → α) (a : α) (progs : List (List ι))
    (sched : List Nat) :
    (Gkv.CasLoop.run false apply (Gkv.CasLoop.init a progs) sched).cell.val =
      ((Gkv.CasLoop.run false apply (Gkv.CasLoop.init a progs) sched).log.map Prod.snd).foldl
        (fun a i => apply i a) a ∧
    ∀ t, ((Gkv.CasLoop.run false apply (Gkv.CasLoop.init a progs) sched).log.filter (fun e => e.1 == t)).map Prod.snd ++
        (Gkv.CasLoop.run false apply (Gkv.CasLoop.init a progs) sched).pendingOf t = progs[t]?.getD [] :=
  ⟨Gkv.CasLoop.no_lost_update apply a progs sched,
   fun t => Gkv.CasLoop.log_is_interleaving apply a progs sched t⟩

/-- comparing against whatever is current at swap time (seeded change C12b) loses an update: two
    threads, one update each, both read before either publishes -/
theorem cas_against_current_loses_update :
    let s := Gkv.CasLoop.run true Gkv.CasLoop.ins (Gkv.CasLoop.init [] Gkv.CasLoop.twoProgs) Gkv.CasLoop.raceSched
    s.log = [(0, 10), (1, 20)] ∧ s.cell.val = [20] :=
  ⟨Gkv.CasLoop.buggy_loses_update.1, Gkv.CasLoop.buggy_loses_update.2.2.1⟩

end Gkv.Props.C12
