/-
C07 — file errors are reported, never swallowed, and failed calls change nothing.

Model B carries a fault plan (`FileSt.failAt/torn/failed`): the k-th WriteAt from now fails after
`torn` bytes landed — any k, any torn length.  Flush is the only call of the package that writes;
read paths have no state to damage in the model (a failed read reports `err-io` and returns the
unchanged world: `World.stepTokens2`, `failop`), and their real-code counterparts are covered by
the fault-injection stream (every individual ReadAt/Stat/Truncate/WriteAt, see bin/check C07).
-/
import Gkv.Proofs.GlueA
import Gkv.Gen.IgnoredErrors
open Std

namespace Gkv.Props.C07
open Gkv

/-- a Flush during which the file failed reports failure (never success with other data) -/
theorem fault_is_reported (cs : List Coll) (s : FileSt) (h0 : s.failed = false)
    (k : Nat) (hk : s.failAt = some (k+1)) (hcons : (flushStore cs s).2.failAt = none) :
    (flushStore cs s).2.failed = true := flushStore_fault_reported cs s h0 k hk hcons

/-- a failed (or successful) Flush leaves the store's visible contents exactly as before: names,
    comparators, items, shapes, aggregates — only file locations may have been recorded -/
theorem failed_flush_changes_nothing (cs : List Coll) (s : FileSt) :
    (flushStore cs s).1.map (fun c => (c.name, c.cmp, c.root.eraseLocs)) =
      cs.map (fun c => (c.name, c.cmp, c.root.eraseLocs)) := flushStore_eraseLocs cs s

/-- no failed call damages the durable states already in the file: every byte below the store's
    `size` at the start of the call is untouched, whatever was torn -/
theorem failed_flush_keeps_durable_bytes (cs : List Coll) (s : FileSt) (hsz : s.size ≤ s.bytes.length) :
    (flushStore cs s).2.bytes.take s.size = s.bytes.take s.size := flushStore_prefix cs s hsz

/-- after a failed Flush the cached trees are still coherent with what is on the file, so a
    retried Flush is an ordinary Flush of the same contents (and by C02 makes them durable) -/
theorem retried_flush_is_ordinary (cs : List Coll) (s : FileSt) (hsz : s.size ≤ s.bytes.length)
    (hc : ∀ c ∈ cs, c.root.Coherent s.bytes s.size) (hok : ∀ c ∈ cs, c.root.SizesOK)
    (hlim : (flushStore cs s).2.size < 2^32) :
    (flushStore cs s).2.size ≤ (flushStore cs s).2.bytes.length ∧
    (∀ c ∈ (flushStore cs s).1,
      c.root.Coherent (flushStore cs s).2.bytes (flushStore cs s).2.size) ∧
    (flushStore cs s).1.map (fun c => (c.name, c.cmp, c.root.eraseLocs)) =
      cs.map (fun c => (c.name, c.cmp, c.root.eraseLocs)) :=
  flushStore_retry_ready cs s hsz hc hok hlim

/-- a Flush on which the armed fault did not fire wrote exactly what a fault-free Flush writes -/
theorem unfired_fault_is_invisible (cs : List Coll) (s : FileSt) (h0 : s.failed = false)
    (hok : (flushStore cs s).2.failed = false) :
    (flushStore cs s).2.bytes = (flushStore cs { s with failAt := none }).2.bytes ∧
    (flushStore cs s).2.size = (flushStore cs { s with failAt := none }).2.size ∧
    (flushStore cs s).1 = (flushStore cs { s with failAt := none }).1 :=
  flushStore_unfailed_same_bytes cs s h0 hok


/-! ### no other error is dropped (regenerated table)

`Gen/IgnoredErrors.lean` is rewritten from /repo's typed syntax tree on every run: every call whose
last result is an `error` that is assigned to `_` or not bound at all (fmt's printers and writes to
a `bytes.Buffer`, which cannot fail, left out as `errcheck` does).  The reviewed list:
`Exist` drops `GetItem`'s error (known finding F14: a read error makes it answer `false`);
the public `EvictSomeItems` drops the error of its walk (a best-effort cache hint: no answer to get
wrong; `CopyTo` uses the error-returning `evictSomeItems` since the F13 repair);
`visitNodes` re-reads, twice, a node it has already loaded (never reaches the file);
`dump` is an unexported debug printer.  A new entry — a newly swallowed error — refutes this. -/
theorem no_other_error_is_dropped :
    Gen.IgnoredErrors.sites =
      [("Collection.EvictSomeItems", "evictSomeItems", "blank"),
       ("Collection.Exist", "GetItem", "blank"),
       ("Store.visitNodes", "read", "blank"),
       ("Store.visitNodes", "read", "blank"),
       ("dump", "read", "blank")] := by decide

end Gkv.Props.C07
