/-
C14 — files conform to the v4 layout and decode independently to the flushed state.

The codec of Gkv/Model/Codec.lean is written from the format description, not from the Go encoder;
it is the "independent decoder".  The constants it uses are tied to the source by the
obligations at the end of this file, which are about the table REGENERATED from /repo on every
run (Gkv/Gen/Consts.lean).
-/
import Gkv.Proofs.Codec
import Gkv.Proofs.CodecFull
import Gkv.Proofs.FlushCoherent
import Gkv.Gen.Consts
open Std

namespace Gkv.Props.C14
open Gkv

/-- item records are self-delimiting and round-trip -/
theorem item_roundtrip (pre post : Bytes) (i : Item)
    (hk : i.key.length < 2^32) (hv : i.val.length < 2^32) (hp : i.prio < 2^32)
    (ht : itemHdrLen + i.key.length + i.val.length < 2^32) :
    decItem (pre ++ encItem i ++ post) ⟨pre.length, itemRecLen i⟩ = some i ∧
      (encItem i).length = itemRecLen i :=
  ⟨decItem_at pre post i hk hv hp ht, encItem_length i⟩

/-- node records are fixed-size (52 bytes) and round-trip -/
theorem node_roundtrip (pre post : Bytes) (n : NodeRec)
    (hi : ∀ q, n.item = some q → q.off < 2^64 ∧ q.len < 2^32 ∧ ¬ (q.off = 0 ∧ q.len = 0))
    (hl : ∀ q, n.left = some q → q.off < 2^64 ∧ q.len < 2^32 ∧ ¬ (q.off = 0 ∧ q.len = 0))
    (hr : ∀ q, n.right = some q → q.off < 2^64 ∧ q.len < 2^32 ∧ ¬ (q.off = 0 ∧ q.len = 0))
    (hn : n.nn < 2^64) (hb : n.nb < 2^64) :
    decNode (pre ++ encNode n ++ post) ⟨pre.length, nodeRecLen⟩ = some n ∧ (encNode n).length = 52 :=
  ⟨decNode_at pre post n hi hl hr hn hb, encNode_length n⟩

/-- root records: framed by doubled magics, version, both lengths, and the JSON map; a root record
    appended at the end of a file is found there and decodes to the map that was written.
    `_partial`: collection names that need JSON escapes are outside this theorem (they are
    handled by the executable codec and covered by the correspondence runs). -/
theorem root_roundtrip_partial (pre : Bytes) (es : List (Bytes × Option Ploc))
    (hn : ∀ e ∈ es, PlainName e.1) (hp : ∀ e ∈ es, ∀ q, e.2 = some q → ¬ (q.off = 0 ∧ q.len = 0))
    (hsz : pre.length + (encRoot pre.length es).length < 2^32) :
    rootAt (pre ++ encRoot pre.length es) (pre.length + (encRoot pre.length es).length) = some es :=
  rootAt_encRoot_partial pre es hn hp hsz

/-- root records round-trip for ARBITRARY collection names (every byte string: quotes, backslashes,
    control bytes, `<>&`, U+2028/U+2029 and bytes >= 0x80 included).

    This is a theorem about the MODEL's codec, which passes bytes >= 0x80 through unchanged.  Go's
    `encoding/json` does that only inside well-formed UTF-8 sequences and writes U+FFFD otherwise,
    so for names that are not valid UTF-8 the model's codec is NOT the package's — and the package
    lost such names on re-open (defect F18, found by asking exactly this question of this theorem).
    Since the repair `Flush` refuses such names, so the codec is only ever applied to names on
    which the two agree; the model's `flush` carries the same guard (`validUTF8`, `Model/AnyKey.lean`
    and the driver), and profiles C02 and C12 generate such names. -/
theorem root_roundtrip (pre : Bytes) (es : List (Bytes × Option Ploc))
    (hp : ∀ e ∈ es, ∀ q, e.2 = some q → ¬ (q.off = 0 ∧ q.len = 0))
    (hsz : pre.length + (encRoot pre.length es).length < 2^32) :
    rootAt (pre ++ encRoot pre.length es) (pre.length + (encRoot pre.length es).length) = some es :=
  rootAt_encRoot pre es hp hsz

/-- the independent decoder reconstructs, from the last root record of a flushed file, exactly
    the flushed state (names, comparators, items, aggregates, and the locations themselves) -/
theorem decode_flushed_file (fid : Nat) (cmpOf : Bytes → CmpKind) (cs : List Coll) (s : FileSt)
    (hf : s.failed = false) (hp : s.failAt = none) (hsz : s.size = s.bytes.length)
    (hc : ∀ c ∈ cs, c.root.Coherent s.bytes s.size) (hok : ∀ c ∈ cs, c.root.SizesOK)
    (hnames : cs.Pairwise (fun a b => compare a.name b.name = .lt))
    (hplain : ∀ c ∈ cs, PlainName c.name) (hcmp : ∀ c ∈ cs, cmpOf c.name = c.cmp)
    (hlim : (flushStore cs s).2.size < 2^32) :
    openStore fid (flushStore cs s).2.bytes cmpOf
      = .ok ⟨some fid, (flushStore cs s).2.size, (flushStore cs s).1, false⟩ :=
  flush_then_open fid cmpOf cs s hf hp hsz hc hok hnames hplain hcmp hlim

/-- node records are written after their children: in a coherent persisted tree every child
    location lies below its parent's record — stated via `Coherent`'s `NodeAt` bound: everything a
    record points to is itself coherent below the same bound (see `Tree.Coherent`). -/
theorem flushed_trees_coherent (cs : List Coll) (s : FileSt) (hf : s.failed = false)
    (hp : s.failAt = none) (hsz : s.size ≤ s.bytes.length)
    (hc : ∀ c ∈ cs, c.root.Coherent s.bytes s.size) (hok : ∀ c ∈ cs, c.root.SizesOK)
    (hlim : (flushStore cs s).2.size < 2^32) :
    ∀ c ∈ (flushStore cs s).1,
      c.root.Coherent (flushStore cs s).2.bytes (flushStore cs s).2.size ∧ c.root.Persisted :=
  flushStore_coherent cs s hf hp hsz hc hok hlim

/-! ### obligations on the constants regenerated from /repo -/

theorem gen_version : Gen.version = fmtVersion := by decide
theorem gen_magicBeg : Gen.magicBeg = magicBeg := by decide
theorem gen_magicEnd : Gen.magicEnd = magicEnd := by decide
theorem gen_plocLength : Gen.plocLength = plocLen := by decide
theorem gen_itemHdr : Gen.itemLocHdrLength = itemHdrLen ∧ Gen.lenLoc = 0 ∧ Gen.keyLoc = 4 ∧
    Gen.valLoc = 8 ∧ Gen.priLoc = 12 ∧ Gen.priSz = 16 ∧ Gen.keyPSize = 4 := by decide
theorem gen_nodeRecLen : Gen.nodeRecLens = [nodeRecLen] := by decide
theorem gen_rootsLen : Gen.rootsEndLen = rootsEndLen ∧ Gen.rootsLen = rootsLen := by decide
theorem gen_plocJson : Gen.plocFields = [("Offset", "int64", "o"), ("Length", "uint32", "l")] := by decide
theorem gen_bigEndian : Gen.byteOrders = ["BigEndian"] := by decide
theorem gen_setItemGuards : Gen.setItemGuards =
    ["item.Key == nil", "len(item.Key) > 0xffff", "len(item.Key) == 0", "item.Val == nil",
     "item.Priority < 0"] := by decide

end Gkv.Props.C14
