/-
C08 — FlushRevert restores exactly the previous Flush and always terminates.

Termination: `scanRoots` (the model of readRootsScan + scanBackwardsForMagicEnd after the repair
"fix: FlushRevert never returned when there is no earlier root record") is structurally recursive
on the scan position, so it is total by construction; the pinned loop is modelled separately
below and proved to diverge — that was defect F2.
-/
import Gkv.Proofs.Scan
import Gkv.Proofs.MachineR
import Gkv.Proofs.WorldFrame
open Std

namespace Gkv.Props.C08
open Gkv

/-- FlushRevert goes from the most recent root record (ending at `E`, wherever `size ≥ E` is —
    `size > E` happens after a failed Flush) to the greatest complete root record strictly below
    it, loads its collections and truncates the file to end there -/
theorem revert_to_previous_flush (st : Store) (fid : Nat) (f : Bytes) (cmpOf : Bytes → CmpKind)
    (E : Nat) (rootsE : List (Bytes × Option Ploc))
    (hcur : rootAt f E = some rootsE) (hEle : E ≤ st.size)
    (habove : ∀ e', E < e' → e' ≤ st.size → rootAt f e' = none)
    (E' : Nat) (roots' : List (Bytes × Option Ploc))
    (hlt : E' < E) (hr : rootAt f E' = some roots')
    (hbetween : ∀ e', E' < e' → e' < E → rootAt f e' = none) :
    revertStore st fid f cmpOf =
      (loadColls f cmpOf roots').map (fun cs =>
        ({ st with size := E', colls := cs, file := some fid }, if st.readOnly then f else f.take E')) := by
  rw [revertStore_prev st fid f cmpOf E rootsE hcur hEle habove E' roots' hlt hr hbetween]
  cases loadColls f cmpOf roots' <;> rfl

/-- reverting past the first flush (or with no flush at all): an empty store with no
    collections, file truncated to zero -/
theorem revert_past_first_flush (st : Store) (fid : Nat) (f : Bytes) (cmpOf : Bytes → CmpKind)
    (h : (∀ e', e' ≤ st.size → rootAt f e' = none) ∨
         (∃ E rootsE, rootAt f E = some rootsE ∧ E ≤ st.size ∧
            (∀ e', E < e' → e' ≤ st.size → rootAt f e' = none) ∧
            ∀ e', e' < E → rootAt f e' = none)) :
    revertStore st fid f cmpOf =
      some ({ st with size := 0, colls := [], file := some fid }, if st.readOnly then f else []) :=
  revertStore_none st fid f cmpOf h

/-- re-opening the truncated file agrees with the reverted store: it opens at the same root -/
theorem reopen_after_revert (f : Bytes) (E' : Nat) (roots' : List (Bytes × Option Ploc))
    (hr : rootAt f E' = some roots') :
    scanRoots (f.take E') false (f.take E').length = .found E' roots' := by
  have hle := (rootAt_le_length f E' roots' hr).1
  have hlen : (f.take E').length = E' := by simp [List.length_take]; omega
  rw [hlen]
  apply scanRoots_complete _ _ _ E' roots' (Nat.le_refl _)
  · rw [rootAt_take f E' hle]; exact hr
  · intro e' h1 h2; omega

/-! ### the pinned loop (defect F2), kept as a model so the finding stays machine-checked -/

inductive Res | found (e : Int) | empty | noRoots | outOfFuel
deriving DecidableEq, Repr

/-- scanBackwardsForMagicEnd as in the pinned tree: new size, `some none` = error, `none` = fuel -/
def scanMagic (magic : Int → Bool) (L : Int) (dflt : Bool) : Nat → Int → Option (Option Int)
  | 0, _ => none
  | f+1, sz =>
    if sz ≤ L then (if dflt then some (some 0) else some none)
    else if magic sz then some (some sz)
    else scanMagic magic L dflt f (sz - 1)

/-- readRootsScan of the pinned tree: after the inner scan defaulted to 0 it still tried to
    decode, failed, decremented and looped -/
def scanPinned (magic valid : Int → Bool) (L : Int) (dflt : Bool) : Nat → Int → Res
  | 0, _ => .outOfFuel
  | f+1, sz =>
    match scanMagic magic L dflt (f+1) sz with
    | none => .outOfFuel
    | some none => .noRoots
    | some (some sz') =>
      if sz' > L ∧ valid sz' then .found sz'
      else scanPinned magic valid L dflt f (sz' - 1)

/-- F2: with defaultToEmpty the pinned loop never terminates once size ≤ rootsLen is reached,
    whatever the file contains and however much fuel it is given -/
theorem pinned_loop_diverges (magic valid : Int → Bool) (L : Int) (hL : 0 ≤ L) :
    ∀ fuel sz, sz ≤ L → scanPinned magic valid L true fuel sz = .outOfFuel := by
  intro fuel
  induction fuel with
  | zero => intro sz _; rfl
  | succ f ih =>
    intro sz hsz
    unfold scanPinned
    have : scanMagic magic L true (f+1) sz = some (some 0) := by simp [scanMagic, hsz]
    rw [this]
    have h0 : ¬ ((0:Int) > L ∧ valid 0 = true) := by omega
    simp only [h0, ↓reduceIte]
    exact ih _ (by omega)

/-! ### history form (store-level machine with FlushRevert, `Gkv/Model/MachineR.lean`) -/

open Gkv.Machine Gkv.MachineR in
/-- for EVERY history of collection operations, Set/Delete, Flush, re-open and FlushRevert — any
    number of flushes, consecutive reverts, reverting past the first flush, new flushes after a
    revert — the store shows exactly what the specification shows, where the specification keeps
    the STACK of completed flushes: Flush pushes, FlushRevert pops and makes the new top (or the
    empty store) current.  Side conditions `RHistOK`: those of C02 plus, at the moment of each
    revert, no key/value bytes forge a complete self-consistent root record.

    PARTIAL.  C03 excludes such bytes in so many words; C08 does not — it quantifies over all
    histories, and a history may store any value.  Without the exclusion the statement is false,
    of the model and of the package: `history_refinement_fails_on_forged_root` below (finding F17). -/
theorem history_refinement_partial (cmpOf : Bytes → CmpKind) (ops : List ROp) (h : RHistOK cmpOf ops) :
    absS (rrun cmpOf ops) = (rspecRun cmpOf ops).cur := rrefinement cmpOf ops h

/-! ### C08 at full strength is false: a value can forge a root record (finding F17) -/

open Gkv.Machine Gkv.MachineR in
/-- the side conditions of `RHistOK` that are limits of the format (plain names, items and file
    below 4 GiB, fewer than 2^32 operations) — everything except "no forged root record" -/
def RLimitsOK (cmpOf : Bytes → CmpKind) (ops : List ROp) : Prop :=
  (∀ op ∈ ops, ROpOK op) ∧ (∀ k, (rrun cmpOf (ops.take k)).size < 2^32) ∧ ops.length < 2^32

/-- a value that is a complete root record — one collection `x`, empty — whose trailer names the
    offset the value will be written at by the second flush of `forgedHist` (135 + 16 + 1) -/
def forgedVal : Bytes := encRoot 152 [([120], none)]

open Gkv.Machine Gkv.MachineR in
def forgedHist : List ROp :=
  [.base (.setColl [97]), .base (.set [97] ⟨[1], [1], 1⟩), .base .flush,
   .base (.set [97] ⟨[2], forgedVal, 2⟩), .base .flush, .revert]

open Gkv.Machine Gkv.MachineR in
theorem forgedHist_within_limits : RLimitsOK (fun _ => .bytes) forgedHist := by
  refine ⟨?_, ?_, by decide⟩
  · intro op hop
    simp only [forgedHist, List.mem_cons, List.not_mem_nil, or_false] at hop
    rcases hop with rfl | rfl | rfl | rfl | rfl | rfl
    · show PlainName [97]; intro c hc; simp at hc; subst hc; decide
    · show ItemOK _; unfold ItemOK itemHdrLen; decide
    · trivial
    · show ItemOK _; unfold ItemOK itemHdrLen; decide +kernel
    · trivial
    · trivial
  · intro k
    by_cases hk : k < 7
    · have : ∀ k, k < 7 → (rrun (fun _ => .bytes) (forgedHist.take k)).size < 2^32 := by decide +kernel
      exact this k hk
    · have : forgedHist.take k = forgedHist := List.take_of_length_le (by simp [forgedHist]; omega)
      rw [this]; decide +kernel

open Gkv.Machine Gkv.MachineR in
/-- after `forgedHist` the store shows a collection `x` and has lost `a`; the specification — the
    state of the first flush — shows `a` with its item.  Replayed on the package:
    corpus/F17-forged-root-in-value.ops (same outcome). -/
theorem forged_root_misleads_revert :
    absS (rrun (fun _ => .bytes) forgedHist) = [([120], [])] ∧
    (rspecRun (fun _ => .bytes) forgedHist).cur = [([97], [⟨[1], [1], 1⟩])] := by
  decide +kernel

open Gkv.Machine Gkv.MachineR in
/-- C08 for every history within the format's limits is FALSE -/
theorem history_refinement_fails_on_forged_root :
    ¬ ∀ ops, RLimitsOK (fun _ => .bytes) ops →
        absS (rrun (fun _ => .bytes) ops) = (rspecRun (fun _ => .bytes) ops).cur := by
  intro h
  have e := h forgedHist forgedHist_within_limits
  rw [forged_root_misleads_revert.1, forged_root_misleads_revert.2] at e
  exact absurd e (by decide)

open Gkv.Machine Gkv.MachineR in
/-- repeated reverts walk back one Flush at a time, to the empty store past the first one
    (under `RHistOK`, i.e. like `history_refinement_partial` only for histories in which no value
    forges a root record: finding F17) -/
theorem reverts_walk_back (cmpOf : Bytes → CmpKind) (ops : List ROp) (n : Nat) (hn : 0 < n)
    (h : RHistOK cmpOf (ops ++ List.replicate n .revert)) :
    absS (rrun cmpOf (ops ++ List.replicate n .revert))
      = ((rspecRun cmpOf ops).flushed.drop n).headD [] :=
  reverts_walk_back_partial cmpOf ops n hn h

open Gkv.Machine Gkv.MachineR in
/-- after any such history (again under `RHistOK`) the file is truncated to end exactly at the root
    record of the flush on top of the stack (or is empty), and re-opening it shows that flush -/
theorem file_agrees_after_history (cmpOf : Bytes → CmpKind) (ops : List ROp) (h : RHistOK cmpOf ops) :
    (∃ dc, openStore 0 (rrun cmpOf ops).file cmpOf
        = .ok ⟨some 0, (rrun cmpOf ops).file.length, dc, false⟩ ∧
      absColls dc = (rspecRun cmpOf ops).flushed.headD []) ∧
    (rrun cmpOf ops).size = (rrun cmpOf ops).file.length ∧
    (match flushEnds cmpOf ops with
      | [] => (rrun cmpOf ops).file = []
      | e :: _ => e = (rrun cmpOf ops).file.length) :=
  ⟨r_reopen_shows_top cmpOf ops h, (file_ends_at_top_flush cmpOf ops h).2.2.2.1,
   (file_ends_at_top_flush cmpOf ops h).2.2.2.2⟩

-- non-vacuity (evaluated): three flushes, two reverts, a new flush, re-open
#guard Gkv.Machine.absS (Gkv.MachineR.rrun (fun _ => .bytes)
    [.base (.setColl [97]), .base (.set [97] ⟨[1], [1], 1⟩), .base .flush,
     .base (.set [97] ⟨[2], [2], 2⟩), .base .flush, .base (.set [97] ⟨[3], [3], 3⟩), .base .flush,
     .revert, .revert, .base (.set [97] ⟨[4], [4], 4⟩), .base .flush, .base (.del [97] [4]), .base .reopen])
  == [([97], [⟨[1], [1], 1⟩, ⟨[4], [4], 4⟩])]

/-- "memory-only stores reject the call": in the history interpreter a `revert` (and a `flush`)
    through a store without a file answers the refusal and changes nothing — no collection, no
    other store, no file.  The streams compare this with the package for memory-only stores opened
    on the untyped nil AND on a nil pointer of a file type (seeded change C08h: the typed nil
    slipped past the guards and `FlushRevert` wiped the store before failing). -/
theorem memory_only_stores_reject_the_call (w : World) (s : String) (sid : Nat) (st : Store)
    (hs : s.toNat? = some sid) (hst : assocGet sid w.stores = some st) (hf : st.file = none) :
    stepTokens w ["revert", s] = (w, "err-nofile") ∧
    (st.readOnly = false → stepTokens w ["flush", s] = (w, "err-nofile")) :=
  ⟨memory_only_rejects_revert w s sid st hs hst hf,
   fun hrw => memory_only_rejects_flush w s sid st hs hst hf hrw⟩

/-- not vacuous: a world with one memory-only store meets the hypotheses … -/
example : ∃ (w : World) (st : Store), assocGet 1 w.stores = some st ∧ st.file = none :=
  ⟨{ files := [], stores := [(1, ⟨none, 0, [], false⟩)] }, ⟨none, 0, [], false⟩, rfl, rfl⟩
-- … and (an evaluated test, not a proof) the interpreter refuses there:
#guard (stepTokens (stepTokens { files := [], stores := [] } ["mem", "1"]).1 ["revert", "1"]).2 == "err-nofile"

end Gkv.Props.C08
