/-
C09 — the file is append-only and read paths never write.

Dynamic part (histories): theorems about Model B's Flush / CopyTo / FlushRevert.
Static part (programs): theorems about the call graph REGENERATED from /repo on every run
(Gkv/Gen/CallGraph.lean): no read-only entry point can reach WriteAt or Truncate.
-/
import Gkv.Proofs.FlushFrame
import Gkv.Proofs.Scan
import Gkv.Proofs.Graph
import Gkv.Gen.CallGraph
import Gkv.Gen.CallGraphView
open Std

namespace Gkv.Props.C09
open Gkv

/-! ### dynamic -/

/-- every write issued by Flush (with or without a fault) starts at or beyond the store's `size`,
    i.e. at or beyond the end of the last durable root record -/
theorem flush_writes_beyond_durable_end (cs : List Coll) (s : FileSt) :
    ∃ new, (flushStore cs s).2.log = s.log ++ new ∧ LogFrom s.size new := flushStore_log cs s

/-- no byte below that point is ever modified -/
theorem flush_keeps_durable_bytes (cs : List Coll) (s : FileSt) (hsz : s.size ≤ s.bytes.length) :
    (flushStore cs s).2.bytes.take s.size = s.bytes.take s.size := flushStore_prefix cs s hsz

/-- CopyTo writes only to the destination (all its writes are in the destination's log) -/
theorem copyTo_writes_destination_only (src : List Coll) (fe : Int) :
    LogFrom 0 (copyTo src fe).2.log := copyTo_log src fe

/-- FlushRevert truncates only to the end of a root record, or to zero; a read-only store
    (a snapshot) leaves the file untouched -/
theorem revert_truncates_to_root_end (st : Store) (fid : Nat) (f : Bytes) (cmpOf : Bytes → CmpKind)
    (st' : Store) (f' : Bytes) (h : revertStore st fid f cmpOf = some (st', f')) :
    (st.readOnly = true → f' = f) ∧
    (st.readOnly = false → f' = f.take st'.size ∧ (st'.size = 0 ∨ ∃ roots, rootAt f st'.size = some roots)) := by
  unfold revertStore at h
  dsimp only at h
  generalize (if (match scanRoots f true st.size with | .found e _ => e | _ => 0) > rootsLen
      then (match scanRoots f true st.size with | .found e _ => e | _ => 0) - 1
      else (match scanRoots f true st.size with | .found e _ => e | _ => 0)) = sz at h
  cases hs : scanRoots f true sz with
  | found e roots =>
    rw [hs] at h
    dsimp only at h
    have hf := scanRoots_found _ _ _ _ _ hs
    cases hl : loadColls f cmpOf roots with
    | none => rw [hl] at h; cases h
    | some cs =>
      rw [hl] at h
      dsimp only at h
      cases h
      exact ⟨fun hro => by simp [hro], fun hro => ⟨by simp [hro], Or.inr ⟨roots, hf.2.2.1⟩⟩⟩
  | empty =>
    rw [hs] at h
    dsimp only at h
    cases h
    exact ⟨fun hro => by simp [hro], fun hro => ⟨by simp [hro], Or.inl rfl⟩⟩
  | noRoots =>
    rw [hs] at h
    dsimp only at h
    cases h
    exact ⟨fun hro => by simp [hro], fun hro => ⟨by simp [hro], Or.inl rfl⟩⟩

/-! ### static: the regenerated call graph -/

open Gkv.Graph

abbrev G := Gen.CallGraph.edges
abbrev N := Gen.CallGraph.names

/-- the read-only API entry points of the package -/
def readOnlyEntries : List String :=
  ["NewStore", "NewStoreEx", "Store.GetCollection", "Store.GetCollectionNames", "Store.Snapshot",
   "Store.Stats", "Store.Close", "Store.ItemAlloc", "Store.ItemAddRef", "Store.ItemDecRef",
   "Store.ItemValRead", "Store.MakePrivateCollection",
   "Collection.Name", "Collection.GetItem", "Collection.GetAny", "Collection.Get",
   "Collection.ExistAny", "Collection.Exist", "Collection.MinItem", "Collection.MaxItem",
   "Collection.EvictSomeItems", "Collection.IterateAscend", "Collection.IterateDescend",
   "Collection.VisitItemsAscend", "Collection.VisitItemsDescend", "Collection.VisitItemsAscendEx",
   "Collection.VisitItemsDescendEx", "Collection.VisitItemsRandom",
   "Collection.VisitItemsAscendBlockEx", "Collection.Len", "Collection.GetTotals",
   "Collection.MarshalJSON", "Collection.UnmarshalJSON", "Collection.AllocStats",
   "iterator.Next", "iterator.Close", "iterator.Result", "iterator.Err"]

/-- also the in-memory mutators never touch the file: durability only happens in Flush -/
def memoryOnlyEntries : List String :=
  ["Collection.SetItem", "Collection.Set", "Collection.SetAny", "Collection.Delete",
   "Collection.DeleteAny", "Store.SetCollection", "Store.RemoveCollection"]

theorem hint_closed : closed G Gen.CallGraph.writersHint = true := by decide +kernel
theorem sinks_in_hint : idx N "FILE.WriteAt" ∈ Gen.CallGraph.writersHint ∧
    idx N "FILE.Truncate" ∈ Gen.CallGraph.writersHint ∧
    idx N "FILE.WriteAt" < N.length ∧ idx N "FILE.Truncate" < N.length := by decide +kernel
theorem entries_exist : ∀ e ∈ readOnlyEntries ++ memoryOnlyEntries, e ∈ N := by decide +kernel
theorem entries_not_in_hint :
    ∀ e ∈ readOnlyEntries ++ memoryOnlyEntries, idx N e ∉ Gen.CallGraph.writersHint := by decide +kernel

/-- **no read-only entry point (and no in-memory mutator) can reach a file write or truncate**,
    along any static call path — closures, method values, interface dispatch and the reflective
    MarshalJSON/UnmarshalJSON calls included in the graph -/
theorem no_write_reachable (e : String) (he : e ∈ readOnlyEntries ++ memoryOnlyEntries) :
    ¬ Reach G (idx N e) (idx N "FILE.WriteAt") ∧ ¬ Reach G (idx N e) (idx N "FILE.Truncate") :=
  ⟨not_reach hint_closed sinks_in_hint.1 (entries_not_in_hint e he),
   not_reach hint_closed sinks_in_hint.2.1 (entries_not_in_hint e he)⟩

/-- the only functions that call WriteAt / Truncate directly -/
theorem write_sites :
    (G.filter (fun e => e.2 == idx N "FILE.WriteAt")).map (fun e => N[e.1]!) =
      ["Store.ItemValWrite", "Store.writeRoots", "itemLoc.write", "nodeLoc.write"] := by decide +kernel
theorem truncate_sites :
    (G.filter (fun e => e.2 == idx N "FILE.Truncate")).map (fun e => N[e.1]!) = ["Store.FlushRevert"] := by
  decide +kernel

/-- tools/view: opens its file read-only and calls only read-only entry points of the package -/
theorem view_read_only :
    "FILE.OpenRW" ∉ Gen.CallGraphView.names ∧ Gen.CallGraphView.writeSinks = [] ∧
    ∀ n ∈ Gen.CallGraphView.names, n.startsWith "gkvlite." = true →
      n ∈ readOnlyEntries.map ("gkvlite." ++ ·) := by decide +kernel

end Gkv.Props.C09
