/-
C13 — tree invariants: search order, exact aggregates, heap order, canonical shape.
-/
import Gkv.Props.C01
import Gkv.Proofs.Heap
open Std

namespace Gkv.Props.C13
open Gkv Gkv.Tree Gkv.Props.C01

variable (cmp : Bytes → Bytes → Ordering) [TransCmp cmp]

/-- at all times (after every history) the tree is a search tree whose every subtree records its
    exact item count and byte total -/
theorem search_order_and_exact_aggregates (ops : List Mut) :
    BST cmp (ops.foldl (applyTree cmp) .nil) ∧ AggOK (ops.foldl (applyTree cmp) .nil) :=
  invariants cmp ops

/-- "no key is overwritten with a lower priority than it had", as a predicate on histories -/
def NoLowerOverwrite : Tree → List Mut → Prop
  | _, [] => True
  | t, .set i :: ops =>
    (∀ j, get cmp t i.key = some j → j.prio ≤ i.prio) ∧ NoLowerOverwrite (setItem cmp t i) ops
  | t, .del k :: ops => NoLowerOverwrite (delete cmp t k).1 ops

/-- under that hypothesis no child ever outranks its parent -/
theorem heap_order (ops : List Mut) (h : NoLowerOverwrite cmp .nil ops) :
    HeapOK (ops.foldl (applyTree cmp) .nil) := by
  suffices g : ∀ t, BST cmp t → HeapOK t → NoLowerOverwrite cmp t ops →
      HeapOK (ops.foldl (applyTree cmp) t) from g .nil trivial trivial h
  clear h
  induction ops with
  | nil => intro t _ hh _; exact hh
  | cons op ops ih =>
    intro t hb hh hn
    cases op with
    | set i => exact ih _ (setItem_bst cmp hb i) (setItem_heap cmp hb hh i hn.1) hn.2
    | del k => exact ih _ (delete_bst cmp hb k) (delete_heap cmp hh k) hn

/-- the hypothesis cannot be dropped (documented behaviour, not a defect) -/
theorem heap_order_needs_hypothesis :
    ∃ (t : Tree) (i : Item), BST cmpBytes t ∧ HeapOK t ∧ ¬ HeapOK (setItem cmpBytes t i) :=
  setItem_heap_needs_hyp

/-- with distinct priorities the shape — hence every item's depth — is a function of the current
    set of (key, priority) pairs alone: two histories that end with the same items end with the same
    shape, whatever the order of operations (and whatever was flushed, evicted or re-opened in
    between: those never change `toList`, see `C01.flush_invisible` and C02) -/
theorem canonical_shape (ops ops' : List Mut)
    (h : NoLowerOverwrite cmp .nil ops) (h' : NoLowerOverwrite cmp .nil ops')
    (hsame : (ops.foldl (applyTree cmp) .nil).toList = (ops'.foldl (applyTree cmp) .nil).toList)
    (hd : ((ops.foldl (applyTree cmp) .nil).toList.map (·.prio)).Nodup) :
    inorderD (ops.foldl (applyTree cmp) .nil) 0 = inorderD (ops'.foldl (applyTree cmp) .nil) 0 := by
  have i1 := invariants cmp ops
  have i2 := invariants cmp ops'
  have s1 := heapStrict_of_distinct (heap_order cmp ops h) hd
  have s2 := heapStrict_of_distinct (heap_order cmp ops' h') (hsame ▸ hd)
  exact canonical_depths cmp i1.1 i2.1 s1 s2 hsame

end Gkv.Props.C13
