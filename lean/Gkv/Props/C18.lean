/-
C18 — iterators and re-entrant callbacks terminate cleanly without deadlock or leaks.

Model I (`Gkv/Model/Iter.lean`): the two goroutines of an iterator (consumer running an ARBITRARY
program of Next/Close calls, producer running the visit) as an explicit interleaving system over
the two unbuffered channels.  All theorems hold for every item list (every collection size),
every consumer program and every reachable state, i.e. every interleaving.
-/
import Gkv.Proofs.Iter
import Gkv.Props.Locks
open Std

namespace Gkv.Props.C18
open Gkv.Iter

variable {items : List Nat} {prog : List Cmd}

/-- never a double close or a send on a closed channel -/
theorem no_panic {s : State} (hr : Reach items prog s) : s.panicked = false := Gkv.Iter.no_panic hr

/-- no deadlock: a reachable state either can step or is `Done` (consumer finished its program;
    producer exited, or — only if the iterator was abandoned without Close or exhaustion, which the
    property excludes — blocked waiting for the next token) -/
theorem no_deadlock {s : State} (hr : Reach items prog s) : (∃ s', Step s s') ∨ Done s :=
  Gkv.Iter.progress hr

/-- every execution is finite (a measure decreases at every step of either goroutine) -/
theorem terminates {s s' : State} (st : Step s s') : μ s' < μ s := Gkv.Iter.terminates st

/-- after Close() or exhaustion the producer goroutine has exited and released the version it
    pinned -/
theorem producer_exits_and_unpins {s : State} (hr : Reach items prog s) (hd : Done s)
    (hc : s.closedFlag = true) : s.ppc = .pExited ∧ s.pinned = false :=
  Gkv.Iter.producer_exits hr hd hc

/-- once closed/exhausted, every further Next() answers false (and Close() is a no-op) without
    touching a channel -/
theorem next_after_end_is_false {s s' : State} (hr : Reach items prog s)
    (hc : s.closedFlag = true) (st : Step s s') :
    s'.closedFlag = true ∧
      ((s'.cpc = s.cpc ∧ s'.prog = s.prog ∧ s'.outs = s.outs ∧ s'.nextClosed = s.nextClosed) ∨
        ∃ c r, s.prog = c :: r ∧ s' = { s with prog := r, outs := s.outs ++ [c.closedResult] }) :=
  Gkv.Iter.next_after_end_false hr hc st

/-- the items handed out are, in order, a prefix of the visit's items -/
theorem results_are_a_prefix {s : State} (hr : Reach items prog s) : reported s.outs <+: items :=
  (Gkv.Iter.outputs_prefix hr).1

/-- all interleavings yield the same observable results: those of the sequential specification -/
theorem observable_deterministic {s : State} (hr : Reach items prog s) (hd : Done s) :
    s.outs = spec items prog := by
  rw [Gkv.Iter.observable_deterministic hr hd, Gkv.Iter.outputs_eq_spec]

/-- re-entrancy: visitor callbacks (`DYN.visitor`, `DYN.v`) are never invoked with a mutex held,
    so API calls made inside them cannot block on a lock held by their own caller -/
theorem callbacks_run_unlocked :
    ∀ x ∈ Gen.Locks.underLock, ∀ i ∈ x.2.2,
      ((Gkv.Props.Locks.N[i]!).startsWith "DYN." = true →
        Gkv.Props.Locks.N[i]! ∈ Gkv.Props.Locks.allowedDynUnderLock) :=
  fun x hx i hi => (Gkv.Props.Locks.no_io_or_callback_under_lock x hx i hi).2

/-- "releases the version it pinned", code side (regenerated `Gen/Pins.lean`): every function that
    reads through a pinned version takes the pin into a local and releases it by `defer` in the
    next statement, and there is no `rootAddRef` call outside the twelve reviewed sites -/
theorem pins_released_on_every_path :
    (∀ f ∈ Gkv.Props.Locks.pinnedReaders, (f, true, true) ∈ Gen.Pins.pins) ∧
    Gen.Pins.pinSites.length = 12 ∧
    (Gen.Pins.pinSites.filter (fun x => x.2 == "kept")).map (·.1) =
      ["Store.Flush", "Store.SetCollection", "Store.Snapshot"] :=
  ⟨Gkv.Props.Locks.readers_pin_and_unpin,
   by rw [Gkv.Props.Locks.every_pin_site_is_reviewed]; decide,
   by rw [Gkv.Props.Locks.every_pin_site_is_reviewed]; decide⟩

-- non-vacuity
example : outputs [1, 2, 3] [.next, .next, .close, .next] = [.nextTrue 1, .nextTrue 2, .closed, .nextFalse] := by
  decide

end Gkv.Props.C18
