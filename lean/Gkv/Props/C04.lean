/-
C04 — snapshots are isolated, read-only, and harmless to the original.

In the model a snapshot is a VALUE copy of the store; the theorems below are about the executable
history interpreter itself (`World.step`, the function the correspondence runs execute), for
EVERY operation line.  What makes the same true of the Go code, where a snapshot shares nodes
with the original by pointer, is that recycling never frees a node a live version can reach
(`recycling_safe`), and the correspondence stream compares the contents of every open snapshot
and of the original after every step.
-/
import Gkv.Proofs.WorldFrame
import Gkv.Props.C10
open Std

namespace Gkv.Props.C04
open Gkv

/-- a snapshot holds exactly the store's value at the moment Snapshot() was called … -/
theorem snapshot_is_a_value (w : World) (s s2 : String) (a b : Nat) (st : Store)
    (ha : s.toNat? = some a) (hb : s2.toNat? = some b) (hst : assocGet a w.stores = some st) :
    assocGet b (stepTokens w ["snap", s, s2]).1.stores = some { st with readOnly := true } :=
  snap_is_value w s s2 a b st ha hb hst

/-- … and keeps it through EVERY later history that does not itself re-create or close that
    snapshot: mutations, flushes, evictions, collection removal or replacement, Close of the
    original, other snapshots, reads through the snapshot itself -/
theorem snapshot_isolated (w : World) (s s2 : String) (a b : Nat) (st : Store)
    (ha : s.toNat? = some a) (hb : s2.toNat? = some b) (hst : assocGet a w.stores = some st)
    (lines : List String) (h : ∀ l ∈ lines, ¬ writesStoreLine l b) :
    assocGet b (lines.foldl (fun w l => (step w l).1) (stepTokens w ["snap", s, s2]).1).stores
      = some { st with readOnly := true } :=
  Gkv.snapshot_isolated w s s2 a b st ha hb hst lines h

/-- conversely nothing done through other stores (e.g. through a snapshot) changes the original -/
theorem original_unharmed (w : World) (a : Nat) (lines : List String)
    (h : ∀ l ∈ lines, ¬ writesStoreLine l a) :
    assocGet a (lines.foldl (fun w l => (step w l).1) w).stores = assocGet a w.stores :=
  Gkv.original_unharmed w a lines h

/-- reads (through any handle) change neither any store nor any file -/
theorem reads_change_nothing (w : World) (ts : List String) (hread : isReadOp ts = true) :
    (stepTokens w ts).1 = w := Gkv.reads_change_nothing w ts hread

/-- snapshots refuse Set, Delete and Flush, and the refusal changes nothing -/
theorem readonly_rejects (w : World) (s n k v p : String) (sid : Nat) (st : Store)
    (hs : s.toNat? = some sid) (hst : assocGet sid w.stores = some st) (hro : st.readOnly = true) :
    ((stepTokens w ["set", s, n, k, v, p]).1 = w ∧
      ((stepTokens w ["set", s, n, k, v, p]).2 = "err-ro" ∨
       (stepTokens w ["set", s, n, k, v, p]).2 = "nocoll" ∨
       (stepTokens w ["set", s, n, k, v, p]).2 = "bad-op")) ∧
    ((stepTokens w ["del", s, n, k]).1 = w ∧
      ((stepTokens w ["del", s, n, k]).2 = "err-ro" ∨
       (stepTokens w ["del", s, n, k]).2 = "nocoll" ∨
       (stepTokens w ["del", s, n, k]).2 = "bad-op")) ∧
    stepTokens w ["flush", s] = (w, "err-ro") :=
  ⟨readonly_rejects_set w s n k v p sid st hs hst hro, readonly_rejects_del w s n k sid st hs hst hro,
   readonly_rejects_flush w s sid st hs hst hro⟩

/-- Close and FlushRevert through a snapshot leave the file's bytes alone -/
theorem snapshot_close_and_revert_keep_file (w : World) (s : String) (sid fid : Nat) (st : Store)
    (hs : s.toNat? = some sid) (hst : assocGet sid w.stores = some st) (hro : st.readOnly = true)
    (hf : st.file = some fid) :
    (stepTokens w ["close", s]).1.files = w.files ∧
    ((stepTokens w ["revert", s]).1.file fid).bytes = (w.file fid).bytes :=
  ⟨close_keeps_files w s, revert_readonly_keeps_file_bytes w s sid fid st hs hst hro hf⟩

/-- the Go-side reason: no node of a live version (a snapshot pins one) is ever recycled -/
theorem recycling_safe (F : Nat → Nat → Prop) (s : Gkv.Versions.St) (hr : Gkv.Versions.Reach F s) :
    ∀ w n, s.refs w > 0 → s.tree w n → ¬ s.freed n := Gkv.Props.C10.recycling_safe F s hr

end Gkv.Props.C04
