/-
The convenience API of the fork: SetAny / GetAny / DeleteAny / ExistAny take keys (and values) of
"any supported type" and turn them into bytes with `toBa` (collection.go); `Set` draws the item's
priority from math/rand.  Here: `toBa` as a function on a sum of the supported types, and the
token syntax the harness uses for such arguments

    i:<decimal>   an int            l:<d>,<d>,…   an []int (l: is the empty slice)
    s:<hex>       a string          b:<hex> / b:-  a []byte (b:- is nil)
    B:<hex>       a ByteAble whose ToBa() returns those bytes
-/
import Gkv.Model.World
open Std

namespace Gkv

inductive AnyVal where
  | int (i : Int)
  | ints (l : List Int)
  | str (b : Bytes)
  | bytes (b : Option Bytes)
  | byteable (b : Bytes)
deriving Repr, Inhabited

/-- strconv.Itoa: decimal digits, '-' in front of negatives -/
def itoa (i : Int) : Bytes := (toString i).toUTF8.toList

/-- the loop of `toBa`'s `[]int` arm: elements joined with "," -/
def joinInts : List Int → Bytes
  | [] => []
  | [x] => itoa x
  | x :: rest => itoa x ++ 44 :: joinInts rest

/-- `toBa`; `none` is Go's nil slice (only a nil `[]byte` converts to it) -/
def toBa : AnyVal → Option Bytes
  | .int i => some (itoa i)
  | .ints l => some (joinInts l)
  | .str b => some b
  | .bytes b => b
  | .byteable b => some b

def parseIntList (s : String) : Option (List Int) :=
  if s.isEmpty then some [] else (s.splitOn ",").mapM (·.toInt?)

def parseAny (s : String) : Option AnyVal :=
  match s.toList with
  | 'i' :: ':' :: rest => (String.ofList rest).toInt?.map .int
  | 'l' :: ':' :: rest => (parseIntList (String.ofList rest)).map .ints
  | 's' :: ':' :: rest => (parseHexAux rest []).map .str
  | ['b', ':', '-'] => some (.bytes none)
  | 'b' :: ':' :: rest => (parseHexAux rest []).map (fun b => .bytes (some b))
  | 'B' :: ':' :: rest => (parseHexAux rest []).map .byteable
  | _ => none

/-- the `h<hex>` / `-` token of the bytes an `any` argument converts to -/
def anyToken (s : String) : Option String := (parseAny s).map (fun a => showOptBytes (toBa a))

end Gkv
