/-
The convenience API of the fork: SetAny / GetAny / DeleteAny / ExistAny take keys (and values) of
"any supported type" and turn them into bytes with `toBa` (collection.go); `Set` draws the item's
priority from math/rand.  Here: `toBa` as a function on a sum of the supported types, and the
token syntax the harness uses for such arguments

    i:<decimal>   an int            l:<d>,<d>,…   an []int (l: is the empty slice)
    s:<hex>       a string          b:<hex> / b:-  a []byte (b:- is nil)
    B:<hex>       a ByteAble whose ToBa() returns those bytes
-/
import Gkv.Model.World
open Std

namespace Gkv

inductive AnyVal where
  | int (i : Int)
  | ints (l : List Int)
  | str (b : Bytes)
  | bytes (b : Option Bytes)
  | byteable (b : Bytes)
deriving Repr, Inhabited

/-- strconv.Itoa: decimal digits, '-' in front of negatives -/
def itoa (i : Int) : Bytes := (toString i).toUTF8.toList

/-- the loop of `toBa`'s `[]int` arm: elements joined with "," -/
def joinInts : List Int → Bytes
  | [] => []
  | [x] => itoa x
  | x :: rest => itoa x ++ 44 :: joinInts rest

/-- `toBa`; `none` is Go's nil slice (only a nil `[]byte` converts to it) -/
def toBa : AnyVal → Option Bytes
  | .int i => some (itoa i)
  | .ints l => some (joinInts l)
  | .str b => some b
  | .bytes b => b
  | .byteable b => some b

def parseIntList (s : String) : Option (List Int) :=
  if s.isEmpty then some [] else (s.splitOn ",").mapM (·.toInt?)

def parseAny (s : String) : Option AnyVal :=
  match s.toList with
  | 'i' :: ':' :: rest => (String.ofList rest).toInt?.map .int
  | 'l' :: ':' :: rest => (parseIntList (String.ofList rest)).map .ints
  | 's' :: ':' :: rest => (parseHexAux rest []).map .str
  | ['b', ':', '-'] => some (.bytes none)
  | 'b' :: ':' :: rest => (parseHexAux rest []).map (fun b => .bytes (some b))
  | 'B' :: ':' :: rest => (parseHexAux rest []).map .byteable
  | _ => none

/-- the `h<hex>` / `-` token of the bytes an `any` argument converts to -/
def anyToken (s : String) : Option String := (parseAny s).map (fun a => showOptBytes (toBa a))

/-! ### names a root record can carry

The root record is JSON.  Go's encoder replaces every byte that is not part of a well-formed UTF-8
sequence by U+FFFD, so a collection name that is not valid UTF-8 does not survive a re-open (and two
such names can merge): defect F18.  Since its repair `Flush` refuses such names. -/

def cont (b : UInt8) : Bool := 0x80 ≤ b && b ≤ 0xBF

/-- `utf8.ValidString` (well-formed UTF-8, RFC 3629: no overlongs, no surrogates, ≤ U+10FFFF) -/
def validUTF8 : Bytes → Bool
  | [] => true
  | b0 :: rest =>
    if b0 ≤ 0x7F then validUTF8 rest
    else if 0xC2 ≤ b0 && b0 ≤ 0xDF then
      match rest with
      | b1 :: r => cont b1 && validUTF8 r
      | _ => false
    else if 0xE0 ≤ b0 && b0 ≤ 0xEF then
      match rest with
      | b1 :: b2 :: r =>
        (if b0 == 0xE0 then 0xA0 ≤ b1 && b1 ≤ 0xBF
         else if b0 == 0xED then 0x80 ≤ b1 && b1 ≤ 0x9F
         else cont b1) && cont b2 && validUTF8 r
      | _ => false
    else if 0xF0 ≤ b0 && b0 ≤ 0xF4 then
      match rest with
      | b1 :: b2 :: b3 :: r =>
        (if b0 == 0xF0 then 0x90 ≤ b1 && b1 ≤ 0xBF
         else if b0 == 0xF4 then 0x80 ≤ b1 && b1 ≤ 0x8F
         else cont b1) && cont b2 && cont b3 && validUTF8 r
      | _ => false
    else false

#guard validUTF8 [0x63, 0x61, 0x66, 0xc3, 0xa9, 0x20, 0xe2, 0x80, 0xa8, 0x20, 0xf0, 0x9f, 0x98, 0x80]
#guard !validUTF8 [0xff] && !validUTF8 [0x61, 0xc3] && !validUTF8 [0xed, 0xa0, 0x80] && !validUTF8 [0xc0, 0x80]
#guard !validUTF8 [0xf4, 0x90, 0x80, 0x80] && validUTF8 [0xf4, 0x8f, 0xbf, 0xbf] && !validUTF8 [0xe0, 0x9f, 0xbf]

end Gkv
