/-
Spec S — the sorted map every collection must behave like: a list of items, strictly sorted
by key under the collection's comparator.  This, and `Tree.toList`, is all a reader has to
believe in order to read the C01 / C06 / C13 theorems.
-/
import Gkv.Model.Treap
open Std

namespace Gkv
namespace Spec

variable (cmp : Bytes → Bytes → Ordering)

/-- strictly ascending by key -/
def Sorted (l : List Item) : Prop := l.Pairwise (fun a b => cmp a.key b.key = .lt)

/-- store `i`, replacing the item whose key is `cmp`-equal to `i.key` -/
def insert : List Item → Item → List Item
  | [], i => [i]
  | j :: rest, i =>
    match cmp i.key j.key with
    | .lt => i :: j :: rest
    | .eq => i :: rest
    | .gt => j :: insert rest i

/-- remove the item whose key is `cmp`-equal to `k` -/
def erase : List Item → Bytes → List Item
  | [], _ => []
  | j :: rest, k =>
    match cmp k j.key with
    | .lt => j :: rest
    | .eq => rest
    | .gt => j :: erase rest k

/-- the item whose key is `cmp`-equal to `k` -/
def lookup : List Item → Bytes → Option Item
  | [], _ => none
  | j :: rest, k =>
    match cmp k j.key with
    | .lt => none
    | .eq => some j
    | .gt => lookup rest k

/-- exact totals: number of items, sum of key+value lengths -/
def totals (l : List Item) : Nat × Nat := (l.length, (l.map Item.nbytes).sum)

end Spec

namespace Tree

variable (cmp : Bytes → Bytes → Ordering)

/-- every item of the tree satisfies `p` -/
def All (p : Item → Prop) : Tree → Prop
  | nil => True
  | node l i _ _ r _ _ => All p l ∧ p i ∧ All p r

/-- search-tree order under `cmp` -/
def BST : Tree → Prop
  | nil => True
  | node l i _ _ r _ _ =>
    BST l ∧ BST r ∧ All (fun j => cmp j.key i.key = .lt) l ∧ All (fun j => cmp j.key i.key = .gt) r

/-- every stored aggregate equals the recomputed one -/
def AggOK : Tree → Prop
  | nil => True
  | node l i a b r _ _ =>
    AggOK l ∧ AggOK r ∧ a = l.size + 1 + r.size ∧
      b = (l.toList.map Item.nbytes).sum + i.nbytes + (r.toList.map Item.nbytes).sum

def rootPrio : Tree → Option Nat
  | nil => none
  | node _ i _ _ _ _ _ => some i.prio

/-- no child outranks its parent in priority -/
def HeapOK : Tree → Prop
  | nil => True
  | node l i _ _ r _ _ =>
    HeapOK l ∧ HeapOK r ∧ (∀ p, l.rootPrio = some p → p ≤ i.prio) ∧ (∀ p, r.rootPrio = some p → p ≤ i.prio)

/-- in-order items paired with their depth -/
def inorderD : Tree → Nat → List (Item × Nat)
  | nil, _ => []
  | node l i _ _ r _ _, d => inorderD l (d+1) ++ (i, d) :: inorderD r (d+1)

end Tree
end Gkv
