/-
Model I — the iterator handshake of collection.go (`IterateAscend` / `IterateDescend`, `iterator.Next`,
`iterator.Close`, `Collection.iterate`), as an explicit small-step transition system of TWO
goroutines (the consumer that calls `Next` / `Close`, the producer goroutine started by
`IterateAscend`) that communicate over the two unbuffered channels `it.next` and `it.items`.

Go source being modelled:

    func (it *iterator) Next() bool {                       -- CONSUMER
      if it.closed { return false }                         --   idle      (test of it.closed)
      it.next <- true                                       --   nSend     (rendezvous)
      i, ok := <-it.items                                   --   nRecv     (rendezvous / closed-receive)
      if !ok || it.err != nil {
        close(it.next)                                      --   nClose
        it.closed = true; return false }                    --   nSetClosed
      it.result = i; return true                            --   nRet i
    }
    func (it *iterator) Close() {
      if it.closed { return }                               --   idle      (test of it.closed)
      close(it.next)                                        --   cClose
      it.closed = true }                                    --   cSetClosed
    func (t *Collection) iterate(it, v) {                   -- PRODUCER
      defer func() { close(it.items)                        --   pCloseItems
                     for range it.next {} }()               --   pDrain   ... then pExited
      if _, ok := <-it.next; !ok { return }                 --   pWaitFirst
      it.err = v(t, func(i *Item) bool {                    --   pPin  (rootAddRef at the start of the visit)
                                                            --   pVisit (visit loop head: next item, or done)
        it.items <- i                                       --   pSend
        _, ok := <-it.next                                  --   pWaitNext
        return ok })                                        --   (false: the visit stops)
                                                            --   pUnpin (deferred rootDecRef of the visit)
    }

Channel semantics: an unbuffered send/receive pair is ONE joint step of both goroutines
(`jointSteps`); a receive from a closed channel is a local step of the receiver that never blocks
and yields ok = false; `close` of a closed channel and a send on a closed channel panic (the model
sets `panicked` and then nothing is enabled any more).  Everything else (testing `it.closed`,
`close(it.next)`, assigning `it.closed`, the deferred `close(it.items)`, pinning and unpinning the
version) is a separate local step, so that every interleaving of the two goroutines is a path of
the relation `Step`.

Scope: the visit is error-free (`it.err` stays nil; in the Go code `it.err` is written only after
the visit returned, i.e. only when no item will be sent any more, so the test `it.err != nil` can
never change the outcome of a `Next` that received an item), and the items of the visit are the
list `items` fixed at `init` (the visit walks a pinned, immutable version).
-/
namespace Gkv.Iter

/-- a command of the consumer program: one call of `it.Next()` or of `it.Close()` -/
inductive Cmd where
  | next
  | close
deriving DecidableEq, Repr, Inhabited

/-- what the consumer observes: `Next` returned true (and `Result()` is the item), `Next` returned
false, `Close` returned -/
inductive Out where
  | nextTrue (item : Nat)
  | nextFalse
  | closed
deriving DecidableEq, Repr, Inhabited

/-- program counter of the consumer -/
inductive CPc where
  /-- between two commands (about to test `it.closed` of the next command) -/
  | idle
  /-- in `Next`: about to `it.next <- true` -/
  | nSend
  /-- in `Next`: about to `<-it.items` -/
  | nRecv
  /-- in `Next`: received item `i`, about to `it.result = i; return true` -/
  | nRet (i : Nat)
  /-- in `Next`: received `!ok`, about to `close(it.next)` -/
  | nClose
  /-- in `Next`: about to `it.closed = true; return false` -/
  | nSetClosed
  /-- in `Close`: about to `close(it.next)` -/
  | cClose
  /-- in `Close`: about to `it.closed = true; return` -/
  | cSetClosed
deriving DecidableEq, Repr, Inhabited

/-- program counter of the producer goroutine -/
inductive PPc where
  /-- `iterate`: blocked in the first `<-it.next` -/
  | pWaitFirst
  /-- got the first token; about to start the visit, which pins the version (`rootAddRef`) -/
  | pPin
  /-- head of the visit loop: call the callback on the next item, or finish -/
  | pVisit
  /-- in the callback: about to `it.items <- i` (i = head of `todo`) -/
  | pSend
  /-- in the callback: blocked in `<-it.next` -/
  | pWaitNext
  /-- the visit is over (exhausted or stopped): about to unpin (`rootDecRef`, deferred) -/
  | pUnpin
  /-- deferred function of `iterate`: about to `close(it.items)` -/
  | pCloseItems
  /-- deferred function of `iterate`: `for range it.next {}` -/
  | pDrain
  /-- the goroutine has returned -/
  | pExited
deriving DecidableEq, Repr, Inhabited

structure State where
  /-- consumer program counter -/
  cpc : CPc
  /-- commands the consumer has not started yet -/
  prog : List Cmd
  /-- producer program counter -/
  ppc : PPc
  /-- items the visit has not handed over yet -/
  todo : List Nat
  /-- `it.next` has been closed -/
  nextClosed : Bool
  /-- `it.items` has been closed -/
  itemsClosed : Bool
  /-- the field `it.closed` -/
  closedFlag : Bool
  /-- the visit holds its version pin -/
  pinned : Bool
  /-- some goroutine panicked (double close, send on a closed channel) -/
  panicked : Bool
  /-- observable results so far, oldest first -/
  outs : List Out
deriving DecidableEq, Repr, Inhabited

/-- local steps of the consumer goroutine -/
def consumerSteps (s : State) : List State :=
  match s.cpc with
  | .idle =>
    match s.prog with
    | [] => []
    | .next :: r =>
      -- `if it.closed { return false }`
      if s.closedFlag then [{ s with prog := r, outs := s.outs ++ [.nextFalse] }]
      else [{ s with prog := r, cpc := .nSend }]
    | .close :: r =>
      -- `if it.closed { return }`
      if s.closedFlag then [{ s with prog := r, outs := s.outs ++ [.closed] }]
      else [{ s with prog := r, cpc := .cClose }]
  | .nSend =>
    -- a send on a closed channel panics; on an open channel it needs a partner (`jointSteps`)
    if s.nextClosed then [{ s with panicked := true }] else []
  | .nRecv =>
    -- a receive from a closed channel does not block: ok = false
    if s.itemsClosed then [{ s with cpc := .nClose }] else []
  | .nRet i => [{ s with cpc := .idle, outs := s.outs ++ [.nextTrue i] }]
  | .nClose =>
    if s.nextClosed then [{ s with panicked := true }]
    else [{ s with nextClosed := true, cpc := .nSetClosed }]
  | .nSetClosed => [{ s with closedFlag := true, cpc := .idle, outs := s.outs ++ [.nextFalse] }]
  | .cClose =>
    if s.nextClosed then [{ s with panicked := true }]
    else [{ s with nextClosed := true, cpc := .cSetClosed }]
  | .cSetClosed => [{ s with closedFlag := true, cpc := .idle, outs := s.outs ++ [.closed] }]

/-- rendezvous steps: one goroutine sends, the other receives, both move -/
def jointSteps (s : State) : List State :=
  match s.cpc, s.ppc with
  | .nSend, .pWaitFirst =>
    if s.nextClosed then [] else [{ s with cpc := .nRecv, ppc := .pPin }]
  | .nSend, .pWaitNext =>
    -- the callback returns true: the visit goes on
    if s.nextClosed then [] else [{ s with cpc := .nRecv, ppc := .pVisit }]
  | .nSend, .pDrain =>
    -- `for range it.next {}` swallows a token
    if s.nextClosed then [] else [{ s with cpc := .nRecv }]
  | .nRecv, .pSend =>
    match s.todo with
    | i :: r =>
      if s.itemsClosed then [] else [{ s with cpc := .nRet i, ppc := .pWaitNext, todo := r }]
    | [] => []
  | _, _ => []

/-- local steps of the producer goroutine -/
def producerSteps (s : State) : List State :=
  match s.ppc with
  | .pWaitFirst =>
    -- `if _, ok := <-it.next; !ok { return }` on a closed channel: run the deferred function
    if s.nextClosed then [{ s with ppc := .pCloseItems }] else []
  | .pPin => [{ s with pinned := true, ppc := .pVisit }]
  | .pVisit =>
    match s.todo with
    | [] => [{ s with ppc := .pUnpin }]
    | _ :: _ => [{ s with ppc := .pSend }]
  | .pSend =>
    if s.itemsClosed then [{ s with panicked := true }] else []
  | .pWaitNext =>
    -- ok = false: the callback returns false, the visit stops
    if s.nextClosed then [{ s with ppc := .pUnpin }] else []
  | .pUnpin => [{ s with pinned := false, ppc := .pCloseItems }]
  | .pCloseItems =>
    if s.itemsClosed then [{ s with panicked := true }]
    else [{ s with itemsClosed := true, ppc := .pDrain }]
  | .pDrain =>
    -- the range loop ends when the channel is closed
    if s.nextClosed then [{ s with ppc := .pExited }] else []
  | .pExited => []

/-- all successor states: any enabled local step of either goroutine, or any enabled rendezvous -/
def enabled (s : State) : List State :=
  if s.panicked then [] else consumerSteps s ++ jointSteps s ++ producerSteps s

/-- one step of some goroutine (or one rendezvous of both) -/
def Step (s s' : State) : Prop := s' ∈ enabled s

instance (s s' : State) : Decidable (Step s s') := inferInstanceAs (Decidable (s' ∈ enabled s))

/-- `IterateAscend` has just returned: the producer goroutine exists and waits for the first token -/
def init (items : List Nat) (prog : List Cmd) : State :=
  { cpc := .idle, prog := prog, ppc := .pWaitFirst, todo := items,
    nextClosed := false, itemsClosed := false, closedFlag := false,
    pinned := false, panicked := false, outs := [] }

/-- the consumer program is finished and, if the iterator was closed or exhausted (`it.closed`),
the producer goroutine has exited -/
def final (s : State) : Prop :=
  s.cpc = .idle ∧ s.prog = [] ∧ (s.closedFlag = true → s.ppc = .pExited)

instance (s : State) : Decidable (final s) := by unfold final; exact inferInstance

/-- the producer is blocked waiting for a token (the only places where an abandoned iterator
leaves it) -/
def PPc.waiting : PPc → Bool
  | .pWaitFirst | .pWaitNext => true
  | _ => false

/-- the legitimate end states: the consumer is finished and the producer has exited, or — only if
the program never closed nor exhausted the iterator (an abandoned iterator) — is blocked waiting
for the next token -/
def Done (s : State) : Prop :=
  s.cpc = .idle ∧ s.prog = [] ∧
    (s.ppc = .pExited ∨ (s.closedFlag = false ∧ s.ppc.waiting = true))

instance (s : State) : Decidable (Done s) := by unfold Done; exact inferInstance

/-! ### termination measure -/

def CPc.weight : CPc → Nat
  | .idle => 0
  | .nSend => 5
  | .nRecv => 4
  | .nRet _ => 1
  | .nClose => 2
  | .nSetClosed => 1
  | .cClose => 2
  | .cSetClosed => 1

def PPc.weight : PPc → Nat
  | .pWaitFirst => 8
  | .pPin => 7
  | .pWaitNext => 7
  | .pVisit => 6
  | .pSend => 5
  | .pUnpin => 3
  | .pCloseItems => 2
  | .pDrain => 1
  | .pExited => 0

/-- every step decreases this number (`Gkv.Iter.measure_decreases` in `Gkv.Proofs.Iter`) -/
def μ (s : State) : Nat :=
  (6 * s.prog.length + s.cpc.weight) + (3 * s.todo.length + s.ppc.weight) +
    (if s.panicked then 0 else 1)

/-! ### executable runner -/

/-- deterministic scheduler: always the first enabled step (consumer first, then rendezvous, then
producer) -/
def run : Nat → State → State
  | 0, s => s
  | fuel + 1, s =>
    match enabled s with
    | [] => s
    | s' :: _ => run fuel s'

/-- scheduler that always takes the LAST enabled step (producer first); for tests -/
def runLast : Nat → State → State
  | 0, s => s
  | fuel + 1, s =>
    match (enabled s).getLast? with
    | none => s
    | some s' => runLast fuel s'

/-- the observable results of running the consumer program `prog` on an iterator over `items` -/
def outputs (items : List Nat) (prog : List Cmd) : List Out :=
  (run (μ (init items prog)) (init items prog)).outs

/-- all states reachable in at most `fuel` steps that have no successor (for exhaustive tests of
small instances) -/
def explore : Nat → State → List State
  | 0, s => if enabled s = [] then [s] else []
  | fuel + 1, s =>
    match enabled s with
    | [] => [s]
    | ss => ss.flatMap (fun s' => explore fuel s')

/-! ### sequential specification of the observable results -/

/-- results of the commands issued after the iterator was closed or exhausted -/
def specClosed : List Cmd → List Out
  | [] => []
  | .next :: p => .nextFalse :: specClosed p
  | .close :: p => .closed :: specClosed p

/-- results of the program `prog` on an open iterator with `todo` still to deliver -/
def spec : List Nat → List Cmd → List Out
  | _, [] => []
  | _, .close :: p => .closed :: specClosed p
  | [], .next :: p => .nextFalse :: specClosed p
  | i :: t, .next :: p => .nextTrue i :: spec t p

/-- the items reported by the `nextTrue` outputs, in order -/
def reported : List Out → List Nat
  | [] => []
  | .nextTrue i :: o => i :: reported o
  | _ :: o => reported o

end Gkv.Iter
