/-
Model C — an explicit interleaving model of gkvlite's version pinning protocol
(collection.go: `rootAddRef` / `rootDecRef` / `rootCAS`; store.go: `Flush`), property C05.

Collections are numbered by `Nat` (index order = sorted name order).  The content of a collection
is an abstract value `Val`; the immutable tree of a version is abstracted to its content.  The
shared state keeps, per collection, the monotone *history* of published versions (oldest first,
the last one is `t.root`), each with its publication time, the reference counts `refs c idx`
(`rootNodeLoc.refs`, without the chain references, which are the subject of `Gkv.Versions`) and a
logical clock `now` incremented by every effective step.

Threads (one atomic step = what Go does inside one `rootLock` critical section, or lock-free work
between two critical sections):
  thread 0   the mutator, program `List (Nat × (Val → Val))`;
             call = pin (rootAddRef) ; build (union/split on the pinned tree) ; cas (rootCAS and the
             explicit rootDecRef that drops the "current" reference of the old version) ;
             unpin (the deferred rootDecRef)
  thread 1   the flusher, `todo` flushes;
             flush = start ; pin 0 ; … ; pin (nColl-1) ; write ; unpin 0 ; … ; unpin (nColl-1) ; end
  thread 2+i reader i, program `List Nat` (collection indices);
             call = start ; pin ; read ; unpin ; end
A schedule is an arbitrary `List Nat` of thread ids.  A step of a finished thread or of an unknown
thread id leaves the state unchanged (and does not advance the clock).  No step ever blocks: there
is no lock held between two steps.
-/
namespace Gkv.Conc

abbrev Val := Nat

/-- one published version of a collection: its content and the logical time of its publication -/
structure Version where
  val : Val
  pub : Nat
deriving Repr, DecidableEq

/-- a mutation: collection index and the function applied to its content -/
abbrev Op := Nat × (Val → Val)

structure Shared where
  hist : Nat → List Version      -- per collection: published versions, oldest first
  refs : Nat → Nat → Nat         -- refs c idx = rootNodeLoc.refs of version idx of collection c
  now : Nat                      -- logical clock = time of the last effective step
  underflow : Bool               -- ghost: some rootDecRef found refs = 0

namespace Shared

/-- the clock advances; the thread step that follows happens at time `now` of the result -/
def tick (sh : Shared) : Shared := { sh with now := sh.now + 1 }

/-- index of the current version (`t.root`) -/
def curIdx (sh : Shared) (c : Nat) : Nat := (sh.hist c).length - 1

/-- content of version `idx` of collection `c` -/
def valAt (sh : Shared) (c idx : Nat) : Val :=
  match (sh.hist c)[idx]? with
  | some v => v.val
  | none => 0

/-- `refs++` of rootAddRef -/
def incRef (sh : Shared) (c idx : Nat) : Shared :=
  { sh with refs := fun c' i' => if c' = c ∧ i' = idx then sh.refs c' i' + 1 else sh.refs c' i' }

/-- `refs--` of rootDecRef; an underflow is recorded -/
def decRef (sh : Shared) (c idx : Nat) : Shared :=
  { sh with
    refs := fun c' i' => if c' = c ∧ i' = idx then sh.refs c' i' - 1 else sh.refs c' i'
    underflow := sh.underflow || (sh.refs c idx == 0) }

/-- the successful branch of rootCAS: a new current version, born with one reference -/
def publish (sh : Shared) (c : Nat) (v : Val) : Shared :=
  { sh with
    hist := fun c' => if c' = c then sh.hist c ++ [⟨v, sh.now⟩] else sh.hist c'
    refs := fun c' i' => if c' = c ∧ i' = (sh.hist c).length then 1 else sh.refs c' i' }

end Shared

/-! ### the mutator -/

inductive MPc where
  | idle
  | pinned (c : Nat) (f : Val → Val) (idx : Nat)   -- after rootAddRef
  | built (c : Nat) (idx : Nat) (v : Val)          -- new tree built from the pinned one
  | casDone (c : Nat) (idx : Nat)                  -- after rootCAS, still holding the pin

structure Mut where
  prog : List Op       -- the whole program (never changes)
  ncas : Nat           -- number of calls whose rootCAS has been executed
  pc : MPc
  lost : Bool          -- some rootCAS failed ("concurrent mutation attempted": a lost update)

def mutStep (sh : Shared) (m : Mut) : Option (Shared × Mut) :=
  match m.pc with
  | .idle =>
    match m.prog[m.ncas]? with
    | none => none
    | some (c, f) => some (sh.incRef c (sh.curIdx c), { m with pc := .pinned c f (sh.curIdx c) })
  | .pinned c f idx => some (sh, { m with pc := .built c idx (f (sh.valAt c idx)) })
  | .built c idx v =>
    if idx + 1 = (sh.hist c).length then
      some ((sh.publish c v).decRef c idx, { m with pc := .casDone c idx, ncas := m.ncas + 1 })
    else
      some (sh, { m with pc := .casDone c idx, ncas := m.ncas + 1, lost := true })
  | .casDone c idx => some (sh.decRef c idx, { m with pc := .idle })

/-! ### readers -/

/-- the log entry of one completed read-only call -/
structure ReadRec where
  c : Nat
  start : Nat
  pinTime : Nat
  idx : Nat
  result : Val
  fin : Nat
deriving Repr, DecidableEq

inductive RPc where
  | idle
  | started (c t0 : Nat)
  | pinned (c t0 tp idx : Nat)
  | got (c t0 tp idx : Nat) (res : Val)
  | unpinned (c t0 tp idx : Nat) (res : Val)

structure Reader where
  prog : List Nat      -- remaining calls
  pc : RPc
  log : List ReadRec

def rdStep (sh : Shared) (r : Reader) : Option (Shared × Reader) :=
  match r.pc with
  | .idle =>
    match r.prog with
    | [] => none
    | c :: rest => some (sh, { r with prog := rest, pc := .started c sh.now })
  | .started c t0 => some (sh.incRef c (sh.curIdx c), { r with pc := .pinned c t0 sh.now (sh.curIdx c) })
  | .pinned c t0 tp idx => some (sh, { r with pc := .got c t0 tp idx (sh.valAt c idx) })
  | .got c t0 tp idx res => some (sh.decRef c idx, { r with pc := .unpinned c t0 tp idx res })
  | .unpinned c t0 tp idx res =>
    some (sh, { r with pc := .idle, log := r.log ++ [⟨c, t0, tp, idx, res, sh.now⟩] })

/-! ### the flusher -/

structure Pin where
  c : Nat
  time : Nat
  idx : Nat
deriving Repr, DecidableEq

/-- the record of one completed Flush: `pins[c]` is the version captured for collection `c`,
`vals[c]` the content written to the file -/
structure FlushRec where
  start : Nat
  pins : List Pin
  vals : List Val
  fin : Nat
deriving Repr, DecidableEq

inductive FPc where
  | idle
  | pinning (t0 : Nat) (pins : List Pin)          -- next collection to pin: `pins.length`
  | unpinning (t0 : Nat) (pins : List Pin) (vals : List Val) (rest : List Pin)  -- after the write

structure Flusher where
  todo : Nat           -- remaining Flush calls
  pc : FPc
  log : List FlushRec

def flStep (nColl : Nat) (sh : Shared) (f : Flusher) : Option (Shared × Flusher) :=
  match f.pc with
  | .idle =>
    match f.todo with
    | 0 => none
    | k + 1 => some (sh, { f with todo := k, pc := .pinning sh.now [] })
  | .pinning t0 pins =>
    if pins.length < nColl then
      some (sh.incRef pins.length (sh.curIdx pins.length),
            { f with pc := .pinning t0 (pins ++ [⟨pins.length, sh.now, sh.curIdx pins.length⟩]) })
    else
      some (sh, { f with pc := .unpinning t0 pins (pins.map fun p => sh.valAt p.c p.idx) pins })
  | .unpinning t0 pins vals (p :: rest) =>
    some (sh.decRef p.c p.idx, { f with pc := .unpinning t0 pins vals rest })
  | .unpinning t0 pins vals [] =>
    some (sh, { f with pc := .idle, log := f.log ++ [⟨t0, pins, vals, sh.now⟩] })

/-! ### the world -/

structure State where
  sh : Shared
  nColl : Nat
  mu : Mut
  fl : Flusher
  rds : List Reader

def step (s : State) (tid : Nat) : State :=
  match tid with
  | 0 =>
    match mutStep s.sh.tick s.mu with
    | none => s
    | some (sh, m) => { s with sh := sh, mu := m }
  | 1 =>
    match flStep s.nColl s.sh.tick s.fl with
    | none => s
    | some (sh, f) => { s with sh := sh, fl := f }
  | i + 2 =>
    match s.rds[i]? with
    | none => s
    | some r =>
      match rdStep s.sh.tick r with
      | none => s
      | some (sh, r') => { s with sh := sh, rds := s.rds.set i r' }

def exec (s : State) (sched : List Nat) : State := sched.foldl step s

/-- initial state: every collection has one version (content `initV c`, published at time 0)
holding its "current" reference -/
def init (initV : Nat → Val) (prog : List Op) (nColl nFlush : Nat) (rprogs : List (List Nat)) :
    State where
  sh := { hist := fun c => [⟨initV c, 0⟩]
          refs := fun _ idx => if idx = 0 then 1 else 0
          now := 0
          underflow := false }
  nColl := nColl
  mu := { prog := prog, ncas := 0, pc := .idle, lost := false }
  fl := { todo := nFlush, pc := .idle, log := [] }
  rds := rprogs.map fun p => { prog := p, pc := .idle, log := [] }

/-- the state reached from the initial state under schedule `sched` -/
def run (initV : Nat → Val) (prog : List Op) (nColl nFlush : Nat) (rprogs : List (List Nat))
    (sched : List Nat) : State :=
  exec (init initV prog nColl nFlush rprogs) sched

/-! ### observations -/

/-- version `idx` is the current one at logical time `τ`: the versions published at or before `τ`
are exactly those of index `≤ idx` -/
def IsCurrentAt (h : List Version) (idx τ : Nat) : Prop :=
  idx < h.length ∧ ∀ j v, h[j]? = some v → (v.pub ≤ τ ↔ j ≤ idx)

/-- computable: the index of the version that was current at time `τ` -/
def curAt (h : List Version) (τ : Nat) : Nat := h.countP (fun v => v.pub ≤ τ) - 1

/-- contents after the first `k` mutator operations, per collection -/
def worldAt (initV : Nat → Val) (prog : List Op) (k : Nat) : Nat → Val :=
  fun c => ((prog.take k).filter (fun op => op.1 == c)).foldl (fun v op => op.2 v) (initV c)

/-- the successive contents of collection `c` over the first `k` mutator operations -/
def valuesUpTo (initV : Nat → Val) (prog : List Op) (k c : Nat) : List Val :=
  ((prog.take k).filter (fun op => op.1 == c)).scanl (fun v op => op.2 v) (initV c)

/-! ### pins held by each thread (ghost, for the reference-count invariant) -/

def one (c' i' c idx : Nat) : Nat := if c' = c ∧ i' = idx then 1 else 0

def Mut.pins (m : Mut) (c idx : Nat) : Nat :=
  match m.pc with
  | .idle => 0
  | .pinned c' _ i' => one c' i' c idx
  | .built c' i' _ => one c' i' c idx
  | .casDone c' i' => one c' i' c idx

def Reader.pins (r : Reader) (c idx : Nat) : Nat :=
  match r.pc with
  | .pinned c' _ _ i' => one c' i' c idx
  | .got c' _ _ i' _ => one c' i' c idx
  | _ => 0

def pinCount (l : List Pin) (c idx : Nat) : Nat := (l.map fun p => one p.c p.idx c idx).sum

def Flusher.pins (f : Flusher) (c idx : Nat) : Nat :=
  match f.pc with
  | .idle => 0
  | .pinning _ pins => pinCount pins c idx
  | .unpinning _ _ _ rest => pinCount rest c idx

/-- the reference that a collection holds on its current version -/
def curRef (h : List Version) (idx : Nat) : Nat := if idx + 1 = h.length then 1 else 0

/-- number of pins held on version `idx` of collection `c` by all threads -/
def State.holders (s : State) (c idx : Nat) : Nat :=
  s.mu.pins c idx + s.fl.pins c idx + (s.rds.map fun r => r.pins c idx).sum

/-! ### termination measure -/

def Mut.finished (m : Mut) : Bool :=
  match m.pc with
  | .idle => m.prog.length ≤ m.ncas
  | _ => false

def Reader.finished (r : Reader) : Bool :=
  match r.pc, r.prog with
  | .idle, [] => true
  | _, _ => false

def Flusher.finished (f : Flusher) : Bool :=
  match f.pc, f.todo with
  | .idle, 0 => true
  | _, _ => false

/-- thread `tid` has finished its program (unknown thread ids count as finished) -/
def State.finished (s : State) (tid : Nat) : Bool :=
  match tid with
  | 0 => s.mu.finished
  | 1 => s.fl.finished
  | i + 2 =>
    match s.rds[i]? with
    | none => true
    | some r => r.finished

def State.nThreads (s : State) : Nat := s.rds.length + 2

def Mut.measure (m : Mut) : Nat :=
  match m.pc with
  | .idle => 4 * (m.prog.length - m.ncas)
  | .pinned .. => 4 * (m.prog.length - m.ncas - 1) + 3
  | .built .. => 4 * (m.prog.length - m.ncas - 1) + 2
  | .casDone .. => 4 * (m.prog.length - m.ncas) + 1

def Reader.measure (r : Reader) : Nat :=
  5 * r.prog.length +
  match r.pc with
  | .idle => 0
  | .started .. => 4
  | .pinned .. => 3
  | .got .. => 2
  | .unpinned .. => 1

def Flusher.measure (nColl : Nat) (f : Flusher) : Nat :=
  f.todo * (2 * nColl + 3) +
  match f.pc with
  | .idle => 0
  | .pinning _ pins => 2 * (nColl - pins.length) + pins.length + 2
  | .unpinning _ _ _ rest => rest.length + 1

/-- every thread has finished its program -/
def State.allFinished (s : State) : Prop := ∀ tid, s.finished tid = true

/-- an upper bound on the number of remaining effective steps -/
def State.measure (s : State) : Nat :=
  s.mu.measure + s.fl.measure s.nColl + (s.rds.map Reader.measure).sum

end Gkv.Conc
