/-
Model H-fine — `Gkv.Model.Versions` with NON-ATOMIC marking and ABORTING mutations.

In `Versions.lean` a mutation is one event `mutate R Rn New T`.  In the Go code (collection.go `SetItem`
/ `Delete`, treap.go `union/split/join`, alloc.go `markReclaimable`) the mutator
  1. pins the current version N                      (`rootAddRef`, own critical section of rootLock),
  2. lays the marks of N one node at a time           (`markReclaimable`, each its own critical section)
     while other goroutines run `rootAddRef` / `rootDecRef` / lazy loads on the same lineage,
  3a. on a read error removes N's marks again          (`reclaimMarkClear`) and unpins (deferred `rootDecRef`), or
  3b. moves some marks to the new version              (`reclaimMarkUpdate`), publishes (`rootCAS`), drops the
      reference the handle held on N (`rootDecRef(rnl)`) and unpins (deferred `rootDecRef(rnl)`).

State: the `St` of Versions.lean plus a ghost "mutation in flight" component
  `inflight`  a SetItem/Delete is between its `rootAddRef` and its last `rootDecRef`;
  `pending n` node n of `tree N` has been marked with N's mark by the mutation in flight.
The mutator's pin on N is an ordinary holder (`hp N`), exactly as a reader's pin.

Events
  acquire v / release v / load p x   as in Versions.lean, allowed at ANY time (also while a mutation is
                                     in flight).  The only restriction: while a mutation is in flight the
                                     holder released on N must not be the mutator's own pin
                                     (`hp N > 1`; the pin is released by `abort` / `commit` only).
  beginMutate                        `rootAddRef` of SetItem/Delete: `acquire N`
  markOne n                          one `markReclaimable(n, &rnl.reclaimMark)`: pre `tree N n`, `mark n = none`
  clearOne n                         one step of `reclaimMarkClear`: a pending node loses N's mark again (own critical
                                     section; other goroutines' events may come between two such steps)
  abort                              the rest of `reclaimMarkClear(root, &rnl.reclaimMark)` (all nodes still pending)
                                     and then the deferred `rootDecRef(rnl)`
  commit Rn New T                    `reclaimMarkUpdate` + `rootCAS` + `rootDecRef(rnl)` + deferred `rootDecRef(rnl)`;
                                     precondition `MutPre` with `R := pending \ Rn` (`reclaimMarkUpdate` moves the
                                     pending nodes in Rn from N's mark to the new mark; when Rn and pending are
                                     disjoint this is `R := pending`) and "the handle is still open" (`hp N ≥ 2`:
                                     handle + pin; otherwise `rootCAS` fails).

What is still idealised here (see the report at the end of Proofs/VersionsFine.lean):
  * `commit` is one step (the code takes rootLock once per node in `reclaimMarkUpdate`, and three times for
    rootCAS / rootDecRef / rootDecRef);
  * temporaries (nodes outside every tree, e.g. the node SetItem makes for the new item) that `union` marks with
    N's mark before `reclaimMarkUpdate` moves them are only modelled at `commit` (the set `T`).
-/
import Gkv.Model.Versions
namespace Gkv.VersionsFine
open Classical
open Gkv.Versions

/-- `St` extended by the ghost "mutation in flight" component. -/
structure FSt where
  base : St
  inflight : Bool
  pending : Nat → Prop

/-- `reclaimMarkClear`: remove the mark from every node in `P`. -/
noncomputable def clearMarks (s : St) (P : Nat → Prop) : St :=
  { s with mark := fun n => if P n then none else s.mark n }

/-- The abstraction map to `Versions.St`: forget the marks laid so far by the mutation in flight
    (the mutator's pin stays, as an ordinary holder). -/
noncomputable def abs (fs : FSt) : St := clearMarks fs.base fs.pending

/-- one `markReclaimable(n, mark of v)` -/
def setMark (s : St) (n v : Nat) : St :=
  { s with mark := fun m => if m = n then some v else s.mark m }

/-- `reclaimMarkUpdate` + `rootCAS` as executed by the *pinned* mutator: like `Versions.publish`, but the
    chain test is the code's `prev.refs > 2` (handle + pin + somebody else).  For `R n` the mark written is
    the one the node already carries in a state satisfying `FInv` (`publishF_mark_noop`). -/
noncomputable def publishF (s : St) (R Rn New T : Nat → Prop) : St :=
  let N := s.N
  let ch : Bool := decide (s.refs N > 2)
  { N := N + 1
    refs := fun w => if w = N + 1 then 1 + (if ch then 1 else 0) else s.refs w
    hp := fun w => if w = N + 1 then 1 else if w = N then s.hp N - 1 else s.hp w
    chained := fun w => if w = N then ch else s.chained w
    tree := fun w n => if w = N + 1 then (s.tree N n ∧ ¬ R n ∧ ¬ Rn n) ∨ New n else s.tree w n
    mark := fun n => if R n then some N else if Rn n ∨ T n then some (N+1) else s.mark n
    freed := s.freed }

/-- The nodes that keep N's mark at commit: pending and not moved to the new mark. -/
def keepR (P Rn : Nat → Prop) : Nat → Prop := fun n => P n ∧ ¬ Rn n

/-- commit, as the code runs it: rootCAS; `rootDecRef(rnl)` (the reference the handle held on N, now owned by
    the mutator); deferred `rootDecRef(rnl)` (the pin). -/
noncomputable def commitSt (F : Nat → Nat → Prop) (s : St) (P Rn New T : Nat → Prop) : St :=
  let s1 := publishF s (keepR P Rn) Rn New T
  let s2 := dec F (s.N + 2) s1 s.N
  release F s2 s.N

/-- abort, as the code runs it: `reclaimMarkClear`, then the deferred `rootDecRef(rnl)`. -/
noncomputable def abortSt (F : Nat → Nat → Prop) (s : St) (P : Nat → Prop) : St :=
  release F (clearMarks s P) s.N

/-! the events as functions on `FSt` -/

def fAcquire (fs : FSt) (v : Nat) : FSt := { fs with base := acquire fs.base v }
noncomputable def fRelease (F : Nat → Nat → Prop) (fs : FSt) (v : Nat) : FSt :=
  { fs with base := release F fs.base v }
def fLoad (fs : FSt) (p x : Nat) : FSt := { fs with base := load fs.base p x }
def fBegin (fs : FSt) : FSt :=
  { base := acquire fs.base fs.base.N, inflight := true, pending := fun _ => False }
def fMark (fs : FSt) (n : Nat) : FSt :=
  { fs with base := setMark fs.base n fs.base.N, pending := fun m => m = n ∨ fs.pending m }
/-- one step of `reclaimMarkClear`: remove N's mark from one pending node -/
noncomputable def fClear (fs : FSt) (n : Nat) : FSt :=
  { fs with base := { fs.base with mark := fun m => if m = n then none else fs.base.mark m },
            pending := fun m => fs.pending m ∧ m ≠ n }
noncomputable def fAbort (F : Nat → Nat → Prop) (fs : FSt) : FSt :=
  { base := abortSt F fs.base fs.pending, inflight := false, pending := fun _ => False }
noncomputable def fCommit (F : Nat → Nat → Prop) (fs : FSt) (Rn New T : Nat → Prop) : FSt :=
  { base := commitSt F fs.base fs.pending Rn New T, inflight := false, pending := fun _ => False }

/-- the initial state of Versions.lean, no mutation in flight -/
def init0 : St :=
  { N := 0, refs := fun w => if w = 0 then 1 else 0, hp := fun w => if w = 0 then 1 else 0,
    chained := fun _ => false, tree := fun _ _ => False, mark := fun _ => none, freed := fun _ => False }

/-- How many holders of `v` a `release v` must leave in place: the mutator's own pin on N. -/
def reserved (fs : FSt) (v : Nat) : Nat := if fs.inflight = true ∧ v = fs.base.N then 1 else 0

/-- reachable states of the fine-grained protocol -/
inductive ReachFine (F : Nat → Nat → Prop) : FSt → Prop
  | init : ReachFine F { base := init0, inflight := false, pending := fun _ => False }
  | acquire {fs v} : ReachFine F fs → fs.base.hp v > 0 → ReachFine F (fAcquire fs v)
  | release {fs v} : ReachFine F fs → fs.base.hp v > reserved fs v → ReachFine F (fRelease F fs v)
  | load {fs p x} : ReachFine F fs → fs.base.mark x = none → ¬ fs.base.freed x → ReachFine F (fLoad fs p x)
  | beginMutate {fs} : ReachFine F fs → fs.inflight = false → fs.base.hp fs.base.N > 0 →
      ReachFine F (fBegin fs)
  | markOne {fs n} : ReachFine F fs → fs.inflight = true → fs.base.tree fs.base.N n →
      fs.base.mark n = none → ReachFine F (fMark fs n)
  | clearOne {fs n} : ReachFine F fs → fs.inflight = true → fs.pending n → ReachFine F (fClear fs n)
  | abort {fs} : ReachFine F fs → fs.inflight = true → ReachFine F (fAbort F fs)
  | commit {fs Rn New T} : ReachFine F fs → fs.inflight = true → fs.base.hp fs.base.N ≥ 2 →
      MutPre fs.base (keepR fs.pending Rn) Rn New T → ReachFine F (fCommit F fs Rn New T)

/-- The invariant of the fine-grained protocol: `HInv` with `cur_unmarked` weakened to "every marked node of
    the current tree is pending", plus the facts about the ghost component. -/
structure FInv (fs : FSt) : Prop where
  acct  : ∀ v, fs.base.refs v = fs.base.hp v + chainIn fs.base v
  above : ∀ v, v > fs.base.N → fs.base.hp v = 0 ∧ fs.base.chained v = false ∧ ∀ n, ¬ fs.base.tree v n
  chN   : fs.base.chained fs.base.N = false
  live_chained : ∀ v, v < fs.base.N → fs.base.refs v > 0 → fs.base.chained v = true
  chained_live : ∀ v, fs.base.chained v = true → fs.base.refs v > 0
  mark_le : ∀ n v w, fs.base.mark n = some v → fs.base.tree w n → w ≤ v
  safe  : ∀ w n, fs.base.refs w > 0 → fs.base.tree w n → ¬ fs.base.freed n
  cur_marked_pending : fs.base.refs fs.base.N > 0 → ∀ n, fs.base.tree fs.base.N n →
      fs.base.mark n ≠ none → fs.pending n
  idle_none : fs.inflight = false → ∀ n, ¬ fs.pending n
  pending_ok : ∀ n, fs.pending n → fs.base.tree fs.base.N n ∧ fs.base.mark n = some fs.base.N
  pinned : fs.inflight = true → fs.base.hp fs.base.N ≥ 1

end Gkv.VersionsFine
