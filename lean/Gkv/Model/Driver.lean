/-
Driver-level operations that need more than one world: the trace-validation protocol of the
concurrent runs (C05).  The harness runs mutator / flusher / readers under a deterministic
scheduler and reports, for every call, which version it pinned (the number of mutations published
before its pin); here each read is evaluated on exactly that version of the model.

  concbegin | cm <mutating op …> | cr <k> <read op …> | cf <S> <k1,k2,…> | concend
-/
import Gkv.Model.World
import Gkv.Model.AnyKey
import Gkv.Model.CacheIO
open Std

namespace Gkv

structure DState where
  w : World
  hist : Array World := #[]     -- hist[k] = the world after the first k published mutations
  flushed : List (Nat × List String) := []
    -- SPECIFICATION ghost for C08: per store, what the store showed at each successful Flush, newest
    -- first.  Kept beside the model, never consulted by it: `revertspec` answers from this stack.
  views : List ((Nat × Bytes) × Cache.CTree) := []
    -- Model L: the cached view of (store, collection) as last reported by the implementation
    -- (`cstatein`) and as transformed since by the model's own `cget/cmin/cmax/cevict`
deriving Inhabited

/-- the state a concurrent Flush must have persisted: collection i (in name order) as it was in
    version k_i -/
def compositeStore (hist : Array World) (cur : World) (s : Nat) (ks : List Nat) : Option Store :=
  match assocGet s cur.stores with
  | none => none
  | some st =>
    let names := st.colls.map (·.name)
    let cs := (names.zip ks).filterMap (fun (n, k) =>
      match assocGet s (hist.getD k cur).stores with
      | some stk => collsGet n stk.colls
      | none => none)
    some { st with colls := cs }

/-- `Collection.Write()`: the collection's dirty items and nodes go to the file, no root record.
    An armed fault plan (`fault F K TORN`) is honoured: the writes up to the failing one reach the
    file, the failing one possibly torn, and the call answers `err-io`. -/
def dWrite (d : DState) (s n : String) : DState × String :=
  -- Collection.Write(): the collection's dirty items and nodes go to the file, no root record
  (match s.toNat?, parseBytes n with
   | some s, some (some n) =>
     let w := d.w
     (match assocGet s w.stores with
      | none => (d, "nostore")
      | some st =>
        match collsGet n st.colls with
        | none => (d, "nocoll")
        | some c =>
          if st.readOnly then (d, "err-ro") else
          match st.file with
          | none => (d, "err-nofile")
          | some f =>
            let wf := w.file f
            let plan : Option (Nat × Nat) := match w.fault with
              | some (ff, k, t) => if ff = f then some (k, if t < 0 then 0 else t.toNat) else none
              | none => none
            let fs0 : FileSt := { bytes := wf.bytes, size := st.size, log := [],
                                  failAt := plan.map (·.1), torn := (plan.map (·.2)).getD 0 }
            let (t, fs) := writeTree c.root fs0
            let cs := collsSet { c with root := t } st.colls
            let wf1 := recordWrites wf wf.bytes fs
            let wf2 := { wf1 with vals := addVals wf1.vals (collsValRanges cs) }
            ({ d with w := { w with files := assocSet f wf2 w.files,
                                    stores := assocSet s { st with colls := cs, size := fs.size } w.stores } },
             if fs.failed then "err-io" else "ok"))
   | _, _ => (d, "bad-op"))

def dstepTokens (d : DState) (ts : List String) : DState × String :=
  match ts with
  | ["concbegin"] => ({ d with hist := #[d.w] }, "ok")
  | ["concend"] => ({ d with hist := #[] }, "ok")
  | "cm" :: rest =>
    let (w', o) := stepTokens2 d.w rest
    if o == "ok" || o == "true" then ({ w := w', hist := d.hist.push w' }, o) else ({ d with w := w' }, o)
  | "cx" :: _ =>
    -- a concurrent read-only call whose RESULT is outside C05's single-version claim (Len and the
    -- two block visitors make several passes): only "no panic, no hang" is checked, so the
    -- harness reports `ok` unless the call panicked or hung
    (d, "ok")
  | "cr" :: k :: rest =>
    (match k.toNat? with
     | some k => (d, (stepTokens2 (d.hist.getD k d.w) rest).2)
     | none => (d, "bad-op"))
  | ["cf", s, ks] =>
    (match s.toNat? with
     | some s =>
       let kl := (ks.splitOn ",").filterMap (·.toNat?)
       (match compositeStore d.hist d.w s kl with
        | some st => (d, "ok " ++ showStore st)
        | none => (d, "nostore"))
     | none => (d, "bad-op"))
  | ["write", s, n] => dWrite d s n
  | ["failop", "write", s, n] => dWrite d s n   -- the failed call is replayed with the armed fault
  | ["reset"] => ({ w := (stepTokens2 d.w ["reset"]).1, hist := #[], flushed := [] }, "ok")
  | ["flush", s] =>
    -- since the repair of F18: a writable file-backed store refuses to flush while one of its
    -- collections has a name that JSON cannot carry (not valid UTF-8)
    if (match s.toNat? with
        | some sn => (match assocGet sn d.w.stores with
          | some st => !st.readOnly && st.file.isSome && st.colls.any (fun c => !validUTF8 c.name)
          | none => false)
        | none => false) then (d, "err-name") else
    let (w', o) := stepTokens2 d.w ["flush", s]
    (match s.toNat?, o == "ok" with
     | some sn, true =>
       (match assocGet sn w'.stores with
        | some st => ({ d with w := w', flushed := assocSet sn (showStore st :: (assocGet sn d.flushed).getD []) d.flushed }, o)
        | none => ({ d with w := w' }, o))
     | _, _ => ({ d with w := w' }, o))
  | ["setforge", s, n, _, _] =>
    -- the harness rewrites this line into the `set` it amounts to; it reaches the model only when
    -- the store or collection does not exist
    let o := (stepTokens2 d.w ["totals", s, n]).2
    (d, if o == "nostore" || o == "nocoll" then o else "bad-op")
  | ["revertspec", s] =>
    -- FlushRevert, answered by the SPECIFICATION (C08: "returns the store to exactly the state of
    -- the Flush before the most recent one; an empty store with no collections if there is none"),
    -- not by the model of the scan.  The model's own revert is applied to the world so that model
    -- and implementation stay in step afterwards, whatever the scan made of the file.
    let (w', o) := stepTokens2 d.w ["revert", s]
    if o != "ok" then ({ d with w := w' }, o) else
    (match s.toNat? with
     | some sn =>
       let rest := ((assocGet sn d.flushed).getD []).drop 1
       ({ d with w := w', flushed := assocSet sn rest d.flushed }, "ok " ++ rest.headD "")
     | none => ({ d with w := w' }, "bad-op"))
  | ["seta", s, n, k, v, _, p] =>
    -- Collection.SetAny(key, val): SetItem of (toBa key, toBa val) with the priority math/rand
    -- hands out next (the harness seeds it and passes the value it will draw)
    (match anyToken k, anyToken v with
     | some kb, some vb => let (w', o) := stepTokens2 d.w ["set", s, n, kb, vb, p]; ({ d with w := w' }, o)
     | _, _ => (d, "bad-op"))
  | ["setr", s, n, k, v, _, p] =>
    let (w', o) := stepTokens2 d.w ["set", s, n, k, v, p]; ({ d with w := w' }, o)
  | ["geta", s, n, k] =>
    (match anyToken k with
     | some kb => (d, (stepTokens2 d.w ["get", s, n, kb]).2)
     | none => (d, "bad-op"))
  | ["exa", s, n, k] =>
    (match anyToken k with
     | some kb => (d, (stepTokens2 d.w ["exist", s, n, kb]).2)
     | none => (d, "bad-op"))
  | ["dela", s, n, k] =>
    (match anyToken k with
     | some kb => let (w', o) := stepTokens2 d.w ["del", s, n, kb]; ({ d with w := w' }, o)
     | none => (d, "bad-op"))
  | ["name", s, n] =>
    -- Collection.Name() of a handle obtained from a writable or re-opened store
    (match s.toNat?, parseBytes n with
     | some s, some (some n) =>
       (match assocGet s d.w.stores with
        | none => (d, "nostore")
        | some st => match collsGet n st.colls with
          | none => (d, "nocoll")
          | some c => (d, showBytes c.name))
     | _, _ => (d, "bad-op"))
  | ["icopy", s, n, k] => (d, (stepTokens2 d.w ["geti", s, n, k, "1"]).2)
  | ["mjson", s, n] =>
    -- Collection.MarshalJSON(): {"o":…,"l":…} of the root node's location, zeros while it has none
    (match s.toNat?, parseBytes n with
     | some s, some (some n) =>
       (match assocGet s d.w.stores with
        | none => (d, "nostore")
        | some st => match collsGet n st.colls with
          | none => (d, "nocoll")
          | some c =>
            let (o, l) := match c.root with
              | .node _ _ _ _ _ (some p) _ => (p.off, p.len)
              | _ => (0, 0)
            (d, "{\"o\":" ++ toString o ++ ",\"l\":" ++ toString l ++ "}"))
     | _, _ => (d, "bad-op"))
  | ["fsize", s] =>
    -- Store.Stats()["fileSize"]: the append position
    (match s.toNat? with
     | some s => (match assocGet s d.w.stores with
        | none => (d, "nostore")
        | some st => (d, toString st.size))
     | none => (d, "bad-op"))
  | ["crashj", f, k, c, j] =>
    -- a crash image with arbitrary junk appended after it
    (match f.toNat?, k.toNat?, c.toNat?, parseHexAux j.toList [] with
     | some f, some k, some c, some jb =>
       (d, showOpen (openStore f (crashImage (d.w.file f).hist k c ++ jb) cmpOfName))
     | _, _, _, _ => (d, "bad-op"))
  | ["cstate", s, n] =>
    -- reaches the model only when the implementation had no such store / collection to report on
    (match s.toNat?, parseBytes n with
     | some s, some (some n) =>
       (match assocGet s d.w.stores with
        | none => (d, "nostore")
        | some st => match collsGet n st.colls with
          | none => (d, "nocoll")
          | some _ => (d, "bad-op"))
     | _, _ => (d, "bad-op"))
  | "cstatein" :: s :: n :: toks =>
    -- the implementation's cached view of a collection (two-pass input): it must be a view of the
    -- model's abstract tree (`Cache.Rep`, decided by `repB`); kept for the c-operations that follow
    (match s.toNat?, parseBytes n, Cache.parseViewAll toks with
     | some s, some (some n), some c =>
       (match assocGet s d.w.stores with
        | none => (d, "nostore")
        | some st => match collsGet n st.colls with
          | none => (d, "nocoll")
          | some cl =>
            if Cache.repB c cl.root then
              ({ d with views := ((s, n), c) :: d.views.filter (fun v => v.1 ≠ (s, n)) }, "ok")
            else (d, "bad:not-a-view-of-the-tree " ++ (Cache.ofTree cl.root).render))
     | _, _, _ => (d, "bad-op"))
  | ["cvisit", s, n, dir, tgt, w, stop] =>
    -- VisitItemsAscendEx / VisitItemsDescendEx to the end on the cached view (Model L): what the
    -- visitor saw with depths, the file reads in order, the view afterwards (visited items that
    -- have a location are evicted on the way out)
    (match s.toNat?, parseBytes n, parseBytes tgt with
     | some s, some (some n), some tgt =>
       (match assocGet s d.w.stores with
        | none => (d, "nostore")
        | some st => match collsGet n st.colls, st.file with
          | none, _ => (d, "nocoll")
          | some _, none => (d, "err-nofile")
          | some cl, some f =>
            match d.views.find? (fun v => v.1 = (s, n)) with
            | none => (d, "noview")
            | some (_, c) =>
              -- STOP = 0: the visitor never stops; STOP = k > 0: it says stop at the k-th item
              -- (`Cache.stepC2`, the step function of `runC2` / C01.cache_invisible_with_visits)
              match (match stop.toNat? with
                  | some k => (match Cache.stepC2 (d.w.file f).bytes cl.cmp.fn (cl.root.size + 2) c
                        (.visit (dir == "asc") (tgt.getD []) (w == "1") k) with
                      | some (.many out, c', rds) => some (out, c', rds)
                      | _ => none)
                  | none => none) with
              | none => (d, "err")
              | some (out, c', rds) =>
                ({ d with views := ((s, n), c') :: d.views.filter (fun v => v.1 ≠ (s, n)) },
                 Cache.renderVisitOut out c' rds))
     | _, _, _ => (d, "bad-op"))
  | "cget" :: s :: n :: rest | "cmin" :: s :: n :: rest | "cmax" :: s :: n :: rest
  | "cevict" :: s :: n :: rest =>
    -- GetItem / MinItem / MaxItem / EvictSomeItems on the cached view (Model L): the answer, the
    -- file reads in order, the view afterwards
    (match s.toNat?, parseBytes n with
     | some s, some (some n) =>
       (match assocGet s d.w.stores with
        | none => (d, "nostore")
        | some st => match collsGet n st.colls, st.file with
          | none, _ => (d, "nocoll")
          | some _, none => (d, "err-nofile")
          | some cl, some f =>
            match d.views.find? (fun v => v.1 = (s, n)) with
            | none => (d, "noview")
            | some (_, c) =>
              let bytes := (d.w.file f).bytes
              let fuel := cl.root.size + 2
              let op : Option Cache.COp := match ts.head!, rest with
                | "cget", [k, w] => (match parseBytes k with
                    | some (some k) => some (.get k (w == "1")) | _ => none)
                | "cmin", [w] => some (.min (w == "1"))
                | "cmax", [w] => some (.max (w == "1"))
                | "cevict", [bits] => some (.evict (bits.toList.map (· == '1')))
                | _, _ => none
              match op with
              | none => (d, "bad-op")
              | some op =>
                -- `evictSomeItems` returns at once on a read-only store (a snapshot)
                let noop := st.readOnly && (match op with | .evict _ => true | _ => false)
                match (if noop then some (none, c, []) else Cache.stepC bytes cl.cmp.fn fuel c op) with
                | none => (d, "err")
                | some (res, c', rds) =>
                  ({ d with views := ((s, n), c') :: d.views.filter (fun v => v.1 ≠ (s, n)) },
                   Cache.renderOut res c' rds))
     | _, _ => (d, "bad-op"))
  | _ =>
    let (w', o) := stepTokens2 d.w ts
    ({ d with w := w' }, o)

def dstep (d : DState) (line : String) : DState × String :=
  dstepTokens d ((line.splitOn " ").filter (· ≠ ""))

end Gkv
