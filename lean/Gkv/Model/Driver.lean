/-
Driver-level operations that need more than one world: the trace-validation protocol of the
concurrent runs (C05).  The harness runs mutator / flusher / readers under a deterministic
scheduler and reports, for every call, which version it pinned (the number of mutations published
before its pin); here each read is evaluated on exactly that version of the model.

  concbegin | cm <mutating op …> | cr <k> <read op …> | cf <S> <k1,k2,…> | concend
-/
import Gkv.Model.World
open Std

namespace Gkv

structure DState where
  w : World
  hist : Array World := #[]     -- hist[k] = the world after the first k published mutations
deriving Inhabited

/-- the state a concurrent Flush must have persisted: collection i (in name order) as it was in
    version k_i -/
def compositeStore (hist : Array World) (cur : World) (s : Nat) (ks : List Nat) : Option Store :=
  match assocGet s cur.stores with
  | none => none
  | some st =>
    let names := st.colls.map (·.name)
    let cs := (names.zip ks).filterMap (fun (n, k) =>
      match assocGet s (hist.getD k cur).stores with
      | some stk => collsGet n stk.colls
      | none => none)
    some { st with colls := cs }

def dstepTokens (d : DState) (ts : List String) : DState × String :=
  match ts with
  | ["concbegin"] => ({ d with hist := #[d.w] }, "ok")
  | ["concend"] => ({ d with hist := #[] }, "ok")
  | "cm" :: rest =>
    let (w', o) := stepTokens2 d.w rest
    if o == "ok" || o == "true" then ({ w := w', hist := d.hist.push w' }, o) else ({ d with w := w' }, o)
  | "cx" :: _ =>
    -- a concurrent read-only call whose RESULT is outside C05's single-version claim (Len and the
    -- two block visitors make several passes): only "no panic, no hang" is checked, so the
    -- harness reports `ok` unless the call panicked or hung
    (d, "ok")
  | "cr" :: k :: rest =>
    (match k.toNat? with
     | some k => (d, (stepTokens2 (d.hist.getD k d.w) rest).2)
     | none => (d, "bad-op"))
  | ["cf", s, ks] =>
    (match s.toNat? with
     | some s =>
       let kl := (ks.splitOn ",").filterMap (·.toNat?)
       (match compositeStore d.hist d.w s kl with
        | some st => (d, "ok " ++ showStore st)
        | none => (d, "nostore"))
     | none => (d, "bad-op"))
  | ["write", s, n] =>
    -- Collection.Write(): the collection's dirty items and nodes go to the file, no root record
    (match s.toNat?, parseBytes n with
     | some s, some (some n) =>
       let w := d.w
       (match assocGet s w.stores with
        | none => (d, "nostore")
        | some st =>
          match collsGet n st.colls with
          | none => (d, "nocoll")
          | some c =>
            if st.readOnly then (d, "err-ro") else
            match st.file with
            | none => (d, "err-nofile")
            | some f =>
              let wf := w.file f
              let plan : Option (Nat × Nat) := match w.fault with
                | some (ff, k, t) => if ff = f then some (k, if t < 0 then 0 else t.toNat) else none
                | none => none
              let fs0 : FileSt := { bytes := wf.bytes, size := st.size, log := [],
                                    failAt := plan.map (·.1), torn := (plan.map (·.2)).getD 0 }
              let (t, fs) := writeTree c.root fs0
              let cs := collsSet { c with root := t } st.colls
              let wf1 := recordWrites wf wf.bytes fs
              let wf2 := { wf1 with vals := addVals wf1.vals (collsValRanges cs) }
              ({ d with w := { w with files := assocSet f wf2 w.files,
                                      stores := assocSet s { st with colls := cs, size := fs.size } w.stores } },
               if fs.failed then "err-io" else "ok"))
     | _, _ => (d, "bad-op"))
  | ["crashj", f, k, c, j] =>
    -- a crash image with arbitrary junk appended after it
    (match f.toNat?, k.toNat?, c.toNat?, parseHexAux j.toList [] with
     | some f, some k, some c, some jb =>
       (d, showOpen (openStore f (crashImage (d.w.file f).hist k c ++ jb) cmpOfName))
     | _, _, _, _ => (d, "bad-op"))
  | _ =>
    let (w', o) := stepTokens2 d.w ts
    ({ d with w := w' }, o)

def dstep (d : DState) (line : String) : DState × String :=
  dstepTokens d ((line.splitOn " ").filter (· ≠ ""))

end Gkv
