/-
The store-level state machine of `Machine.lean` extended with FlushRevert (property C08 at full
strength: histories with any number of flushes, re-opens and consecutive reverts, including
reverting past the first flush).  Kept as a separate file so that the theorems about `Machine`
stay untouched; `rstep` agrees with `Machine.sstep` on the operations they share.

Specification: the durable side is now a STACK of flushed states (most recent first);
Flush pushes, FlushRevert pops and makes the new top (or the empty store) current, re-open
shows the top (or the empty store).
-/
import Gkv.Model.Machine
open Std

namespace Gkv.MachineR
open Gkv Gkv.Machine

inductive ROp
  | base (op : SOp)    -- setColl / rmColl / set / del / flush / reopen, as in `Machine`
  | revert             -- Store.FlushRevert on the writable store
deriving Repr

/-- `Store.FlushRevert` of Model B on the machine state (the store is writable, `fid = 0`) -/
def rstep (cmpOf : Bytes → CmpKind) (s : SState) : ROp → SState
  | .base op => sstep cmpOf s op
  | .revert =>
    match revertStore ⟨some 0, s.size, s.colls, false⟩ 0 s.file cmpOf with
    | some (st, f') => { colls := st.colls, file := f', size := st.size }
    | none => s

def rrun (cmpOf : Bytes → CmpKind) (ops : List ROp) : SState := ops.foldl (rstep cmpOf) sinit

structure RSpec where
  cur : SpecStore
  flushed : List SpecStore     -- states of the completed, not reverted, flushes; most recent first

def rspecInit : RSpec := ⟨[], []⟩

def rspecStep (cmpOf : Bytes → CmpKind) (s : RSpec) : ROp → RSpec
  | .base .flush => { cur := s.cur, flushed := s.cur :: s.flushed }
  | .base .reopen => { s with cur := s.flushed.headD [] }
  | .base op =>
    -- the in-memory operations act on `cur` exactly as in `Machine.specStep`
    { s with cur := (specStep cmpOf ⟨s.cur, []⟩ op).cur }
  | .revert => { cur := (s.flushed.drop 1).headD [], flushed := s.flushed.drop 1 }

def rspecRun (cmpOf : Bytes → CmpKind) (ops : List ROp) : RSpec := ops.foldl (rspecStep cmpOf) rspecInit

/-- the ends of the root records of the flushes on the stack, most recent first: what
    FlushRevert truncates to -/
def NoForgedRoots (file : Bytes) (ends : List Nat) : Prop :=
  ∀ e, (rootAt file e).isSome → e ∈ ends

end Gkv.MachineR
